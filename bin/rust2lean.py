"""bin/rust2lean.py — a small translator from a subset of Rust to Lean 4, used by the scanner
fragments (bin/fragments/scanner_*.py).

The subset is what the hand-written character scanners of duckscript are made of: the body of a
loop over characters, consisting of nested `if` / `else if` / `else` statements whose conditions
combine boolean locals, boolean parameters (flags) and comparisons of the current character with
character literals (`==`, `!=`, `&&`, `||`, `!`, parentheses), and of the statements

    <local> = true | false ;          <buffer>.push(<char literal> | <the current character>) ;
    <buffer>.push_str("<literal>") ;  index -= 1 ;   index = end_index ;   <found_end> = true ;
    break ;                           return Err(ScriptError::<Kind>(…)) ;

The statement list is executed SYMBOLICALLY along every path (continuation style: what follows an
`if` is executed in each of its branches, so an early `break` / `return` in one branch is exact),
which turns the imperative body into one expression: a tree of conditionals whose leaves are
`continue with this state`, `break with this state, this remaining input and this found_end`, or
`error of this kind`.  The index is rendered in suffix form: nothing done = the characters after
the current one remain, `index -= 1` = the current character is given back, `index = end_index` =
nothing remains.

Anything outside the subset raises SystemExit (the caller then falls back, see bin/extract.py)."""
import re

def fail(msg):
    raise SystemExit("rust2lean: " + msg)

# ---------------------------------------------------------------- locating code

def fn_body(src, name):
    m = re.search(r"fn %s\s*(<[^>]*>)?\s*\(" % re.escape(name), src)
    if not m:
        return None
    i = src.index("{", _match_paren(src, m.end() - 1))
    return src[i:_match_brace(src, i) + 1]

def _match_paren(src, i):
    depth = 0
    j = i
    while j < len(src):
        if src[j] == "(": depth += 1
        elif src[j] == ")":
            depth -= 1
            if depth == 0: return j
        j += 1
    fail("unbalanced parentheses")

def _match_brace(src, i):
    """index of the `}` matching the `{` at i (character and string literals skipped)"""
    depth = 0
    j = i
    while j < len(src):
        ch = src[j]
        if ch == "'":
            m = re.match(r"'(\\.|[^'\\])'", src[j:])
            if m:
                j += m.end(); continue
        if ch == '"':
            m = re.match(r'"(\\.|[^"\\])*"', src[j:])
            if m:
                j += m.end(); continue
        if src.startswith("//", j):
            j = src.index("\n", j); continue
        if ch == "{": depth += 1
        elif ch == "}":
            depth -= 1
            if depth == 0: return j
        j += 1
    fail("unbalanced braces")

def block_after(body, header):
    """the `{ … }` block that follows the first occurrence of `header`"""
    k = body.find(header)
    if k < 0:
        return None
    i = body.index("{", k + len(header))
    return body[i:_match_brace(body, i) + 1]

# ---------------------------------------------------------------- tokens

TOKEN = re.compile(r"""
    \s+ | //[^\n]* |
    (?P<char>'(\\.|[^'\\])') |
    (?P<str>"(\\.|[^"\\])*") |
    (?P<id>[A-Za-z_][A-Za-z_0-9]*) |
    (?P<num>[0-9]+) |
    (?P<op>==|!=|&&|\|\||\+=|-=|::|\.\.|[{}()\[\];.,!=&<>])
""", re.X)

def tokenize(text):
    out, i = [], 0
    while i < len(text):
        m = TOKEN.match(text, i)
        if not m:
            fail("cannot tokenize at: %r" % text[i:i + 30])
        i = m.end()
        for kind in ("char", "str", "id", "num", "op"):
            if m.group(kind) is not None:
                out.append((kind, m.group(kind)))
                break
    return out

ESC = {"n": "\n", "r": "\r", "t": "\t", "\\": "\\", "'": "'", '"': '"', "0": "\0"}

def unescape(body):
    out, i = [], 0
    while i < len(body):
        if body[i] == "\\":
            if body[i + 1] not in ESC:
                fail("escape \\%s is not supported" % body[i + 1])
            out.append(ESC[body[i + 1]]); i += 2
        else:
            out.append(body[i]); i += 1
    return "".join(out)

# ---------------------------------------------------------------- parser

class P:
    def __init__(self, toks):
        self.t, self.i = toks, 0
    def peek(self, k=0):
        return self.t[self.i + k] if self.i + k < len(self.t) else ("eof", "")
    def take(self, val=None):
        tok = self.peek()
        if val is not None and tok[1] != val:
            fail("expected %r, found %r" % (val, tok[1]))
        self.i += 1
        return tok
    def at(self, *vals):
        return all(self.peek(k)[1] == v for k, v in enumerate(vals))

def parse_block(text):
    p = P(tokenize(text))
    b = _block(p)
    if p.peek()[0] != "eof":
        fail("trailing tokens after the block")
    return b

def _block(p):
    p.take("{")
    out = []
    while not p.at("}"):
        out.append(_stmt(p))
    p.take("}")
    return out

def _stmt(p):
    if p.at("if"):
        return _if(p)
    if p.at("let"):
        p.take(); name = p.take()[1]; p.take("=")
        expr = []
        while not p.at(";"):
            expr.append(p.take()[1])
        p.take(";")
        return ("let", name, "".join(expr))
    if p.at("break"):
        p.take(); p.take(";")
        return ("break",)
    if p.at("continue"):
        p.take(); p.take(";")
        return ("continue",)
    if p.at("return"):
        p.take(); p.take("Err"); p.take("("); p.take("ScriptError"); p.take("::")
        kind = p.take()[1]
        depth = 1
        while depth:  # skip the payload up to the `)` closing Err(
            tok = p.take()[1]
            if tok == "(": depth += 1
            elif tok == ")": depth -= 1
        p.take(";")
        return ("reterr", kind)
    if p.peek()[0] == "id":
        name = p.take()[1]
        if p.at("."):
            p.take(); meth = p.take()[1]; p.take("(")
            tok = p.take()
            p.take(")"); p.take(";")
            if meth == "push":
                if tok[0] == "char":
                    return ("push", name, ("lit", unescape(tok[1][1:-1])))
                if tok[0] == "id":
                    return ("push", name, ("var", tok[1]))
            if meth == "push_str" and tok[0] == "str":
                return ("pushstr", name, unescape(tok[1][1:-1]))
            fail("unsupported call %s.%s(%s)" % (name, meth, tok[1]))
        if p.at("=") :
            p.take(); val = p.take()[1]; p.take(";")
            return ("assign", name, val)
        if p.at("+=") or p.at("-="):
            op = p.take()[1]; val = p.take()[1]; p.take(";")
            return ("opassign", name, op, val)
    fail("unsupported statement starting with %r" % (p.peek()[1],))

def _if(p):
    p.take("if")
    cond = _or(p)
    then = _block(p)
    els = None
    if p.at("else"):
        p.take()
        els = [_if(p)] if p.at("if") else _block(p)
    return ("if", cond, then, els)

# `||` / `&&` chains are nested to the right (the operators are associative on booleans and
# the operands have no side effects)
def _or(p):
    a = _and(p)
    if p.at("||"):
        p.take()
        return ("or", a, _or(p))
    return a

def _and(p):
    a = _not(p)
    if p.at("&&"):
        p.take()
        return ("and", a, _and(p))
    return a

def _not(p):
    if p.at("!"):
        p.take()
        return ("not", _not(p))
    return _atom(p)

def _atom(p):
    if p.at("("):
        p.take(); c = _or(p); p.take(")")
        return c
    tok = p.take()
    if tok[0] == "id":
        if p.at("==") or p.at("!="):
            op = p.take()[1]; rhs = p.take()
            if rhs[0] != "char":
                fail("comparison of %s with a non-character" % tok[1])
            return ("cheq" if op == "==" else "chne", tok[1], unescape(rhs[1][1:-1]))
        return ("var", tok[1])
    fail("unsupported condition atom %r" % (tok[1],))

# ---------------------------------------------------------------- symbolic execution

class Config:
    def __init__(self, state_var, char_var, rest_var, flags_var, locals, flags, errors, buffer, buffer_field, found_end, ret_err, char_name="character"):
        self.__dict__.update(locals_=locals, state_var=state_var, char_var=char_var, rest_var=rest_var, flags_var=flags_var, flags=flags,
                             errors=errors, buffer=buffer, buffer_field=buffer_field, found_end=found_end, ret_err=ret_err, char_name=char_name)

class Env:
    def __init__(self, upd=None, pushes=None, idx="keep", found_end=False):
        self.upd, self.pushes, self.idx, self.found_end = dict(upd or {}), list(pushes or []), idx, found_end
    def copy(self):
        return Env(self.upd, self.pushes, self.idx, self.found_end)

def translate(stmts, cfg):
    return _exec(list(stmts), Env(), cfg)

def _exec(stmts, env, cfg):
    if not stmts:
        return ("cont", env)
    s, rest = stmts[0], stmts[1:]
    kind = s[0]
    if kind == "if":
        c = _cond(s[1], env, cfg)
        if c is True:
            return _exec(list(s[2]) + rest, env.copy(), cfg)
        if c is False:
            return _exec(list(s[3] or []) + rest, env.copy(), cfg)
        return ("ite", c, _exec(list(s[2]) + rest, env.copy(), cfg), _exec(list(s[3] or []) + rest, env.copy(), cfg))
    if kind == "assign":
        name, val = s[1], s[2]
        if name == cfg.found_end and val in ("true", "false"):
            env.found_end = (val == "true")
        elif name in cfg.locals_ and val in ("true", "false"):
            env.upd[name] = (val == "true")
        elif name == "index" and val == "end_index":
            env.idx = "end"
        else:
            fail("unsupported assignment %s = %s" % (name, val))
        return _exec(rest, env, cfg)
    if kind == "opassign":
        if s[1:] == ("index", "-=", "1") and env.idx == "keep":
            env.idx = "back"
        else:
            fail("unsupported update %s %s %s" % s[1:])
        return _exec(rest, env, cfg)
    if kind == "push":
        if s[1] != cfg.buffer:
            fail("push into %s" % s[1])
        if s[2][0] == "var" and s[2][1] != cfg.char_name:
            fail("push of %s" % s[2][1])
        env.pushes.append(s[2])
        return _exec(rest, env, cfg)
    if kind == "pushstr":
        if s[1] != cfg.buffer:
            fail("push_str into %s" % s[1])
        env.pushes.extend(("lit", ch) for ch in s[2])
        return _exec(rest, env, cfg)
    if kind == "break":
        return ("brk", env)
    if kind == "reterr":
        if s[1] not in cfg.errors:
            fail("unknown error kind %s" % s[1])
        return ("err", cfg.errors[s[1]])
    fail("unsupported statement %r" % (kind,))

def _cond(c, env, cfg):
    """partial evaluation: locals assigned earlier on this path are constants"""
    k = c[0]
    if k == "var":
        name = c[1]
        if name in cfg.locals_:
            if name in env.upd:
                return env.upd[name]
            return ("local", cfg.locals_[name])
        if name in cfg.flags:
            return ("flag", cfg.flags[name])
        fail("unknown variable %s in a condition" % name)
    if k in ("cheq", "chne"):
        if c[1] != cfg.char_name:
            fail("comparison of %s" % c[1])
        return (k, c[2])
    if k == "not":
        a = _cond(c[1], env, cfg)
        if a is True: return False
        if a is False: return True
        if a[0] == "cheq": return ("chne", a[1])
        if a[0] == "chne": return ("cheq", a[1])
        return ("not", a)
    a, b = _cond(c[1], env, cfg), _cond(c[2], env, cfg)
    if k == "and":
        if a is False or b is False: return False
        if a is True: return b
        if b is True: return a
        return ("and", a, b)
    if k == "or":
        if a is True or b is True: return True
        if a is False: return b
        if b is False: return a
        return ("or", a, b)
    fail("unsupported condition")

# ---------------------------------------------------------------- rendering (Lean 4)

def lean_char(ch):
    return {"\\": "'\\\\'", "'": "'\\''", "\n": "'\\n'", "\r": "'\\r'", "\t": "'\\t'", "\0": "'\\x00'"}.get(ch, "'%s'" % ch)

class R:
    """rendering context (names of the Lean variables)"""
    def __init__(self, cfg):
        self.cfg = cfg

def _rcond(c, cfg, top=True):
    k = c[0]
    if k == "local": return "%s.%s" % (cfg.state_var, c[1])
    if k == "flag": return "%s.%s" % (cfg.flags_var, c[1])
    if k == "cheq": return "%s = %s" % (cfg.char_var, lean_char(c[1]))
    if k == "chne": return "%s ≠ %s" % (cfg.char_var, lean_char(c[1]))
    if k == "not":
        a = c[1]
        if a[0] == "local": return "%s.%s = false" % (cfg.state_var, a[1])
        if a[0] == "flag": return "%s.%s = false" % (cfg.flags_var, a[1])
        return "¬ (%s)" % _rcond(a, cfg)
    op = " ∧ " if k == "and" else " ∨ "
    a, b = _rcond(c[1], cfg, False), _rcond(c[2], cfg, False)
    if c[1][0] in ("and", "or"): a = "(%s)" % a
    if c[2][0] in ("and", "or") and c[2][0] != k: b = "(%s)" % b
    s = a + op + b
    return s

def _rstate(env, cfg):
    fields = []
    if env.pushes:
        items = ", ".join(cfg.char_var if p[0] == "var" else lean_char(p[1]) for p in env.pushes)
        fields.append("%s := %s.%s ++ [%s]" % (cfg.buffer_field, cfg.state_var, cfg.buffer_field, items))
    for name, val in env.upd.items():
        fields.append("%s := %s" % (cfg.locals_[name], "true" if val else "false"))
    if not fields:
        return cfg.state_var
    return "{ %s with %s }" % (cfg.state_var, ", ".join(fields))

_cfg = None

def render(expr, indent, cfg=None):
    global _cfg
    if cfg is not None:
        _cfg = cfg
    cfg = _cfg
    pad = "  " * indent
    k = expr[0]
    if k == "ite":
        return "%sif %s then\n%s\n%selse\n%s" % (pad, _rcond(expr[1], cfg), render(expr[2], indent + 1), pad, render(expr[3], indent + 1))
    if k == "cont":
        return "%s.cont %s" % (pad, _rstate(expr[1], cfg))
    if k == "brk":
        env = expr[1]
        rest = {"keep": cfg.rest_var, "back": "(%s :: %s)" % (cfg.char_var, cfg.rest_var), "end": "[]"}[env.idx]
        return "%s.brk %s %s %s" % (pad, _rstate(env, cfg), rest, "true" if env.found_end else "false")
    if k == "err":
        return "%s%s" % (pad, cfg.ret_err(expr[1]))
    fail("render: %r" % (k,))

# =============================================================================================
# second executor: loop bodies whose state is several buffers, small counters and booleans
# (`expand_by_wrapper`).  Every local is tracked as a SYMBOLIC Lean expression over the state at
# the start of the iteration; a leaf is the record of the locals that changed.
#
# additional statements:   <buf>.clear();   <buf>.push_str(&<buf2>);   <n> = 0 | 1;
#                          <b> = <char> == '<c>';     <helper>(&mut <buf>, <a>, <b>);
#                          if let Some(<x>) = <map>.get(&<buf>) { <buf2>.push_str(<x>) }
#                          a trailing expression statement `<b> = true` without `;`
# additional conditions:   <n> == 0 | 1,  <n> > 0,  <pred>(<char>)
# =============================================================================================

class GConfig:
    def __init__(self, state_var, char_var, char_name, bools, nats, bufs, helpers, preds, lookup):
        """bools / nats / bufs: Rust local -> Lean field; helpers: Rust fn -> Lean fn (first
        argument `&mut buf`, result = new buffer); preds: Rust fn(char) -> Lean predicate;
        lookup: (rust map name, lean expression template with {key})"""
        self.state_var, self.char_var, self.char_name = state_var, char_var, char_name
        self.bools, self.nats, self.bufs, self.helpers, self.preds, self.lookup = bools, nats, bufs, helpers, preds, lookup
    def field(self, name):
        for d in (self.bools, self.nats, self.bufs):
            if name in d: return d[name]
        fail("unknown local %s" % name)

def gparse_block(text):
    p = P(tokenize(text))
    b = _gblock(p)
    if p.peek()[0] != "eof":
        fail("trailing tokens after the block")
    return b

def _gblock(p):
    p.take("{")
    out = []
    while not p.at("}"):
        out.append(_gstmt(p))
    p.take("}")
    return out

def _gstmt(p):
    if p.at("if", "let"):
        # if let Some(x) = map.get(&key) { buf.push_str(x) } [;]
        p.take(); p.take(); p.take("Some"); p.take("("); x = p.take()[1]; p.take(")"); p.take("=")
        m = p.take()[1]; p.take("."); p.take("get"); p.take("("); p.take("&"); key = p.take()[1]; p.take(")")
        p.take("{"); buf = p.take()[1]; p.take("."); p.take("push_str"); p.take("("); y = p.take()[1]; p.take(")")
        if p.at(";"): p.take()
        p.take("}")
        if p.at(";"): p.take()
        if x != y: fail("if let: pushes %s, not the bound %s" % (y, x))
        return ("pushlookup", buf, m, key)
    if p.at("if"):
        p.take("if")
        cond = _gor(p)
        then = _gblock(p)
        els = None
        if p.at("else"):
            p.take()
            els = [_gstmt(p)] if p.at("if") else _gblock(p)
        return ("if", cond, then, els)
    tok = p.take()
    if tok[0] != "id":
        fail("unsupported statement starting with %r" % (tok[1],))
    name = tok[1]
    if p.at("."):
        p.take(); meth = p.take()[1]; p.take("(")
        if meth == "clear":
            p.take(")"); _semi(p)
            return ("clear", name)
        if meth == "push":
            a = p.take(); p.take(")"); _semi(p)
            if a[0] == "char": return ("push", name, ("lit", unescape(a[1][1:-1])))
            if a[0] == "id": return ("push", name, ("var", a[1]))
        if meth == "push_str":
            if p.at("&"):
                p.take(); other = p.take()[1]; p.take(")"); _semi(p)
                return ("pushbuf", name, other)
        fail("unsupported call %s.%s" % (name, meth))
    if p.at("("):
        # helper(&mut buf, a, b)
        p.take(); p.take("&"); p.take("mut"); buf = p.take()[1]
        args = []
        while p.at(","):
            p.take(); args.append(p.take()[1])
        p.take(")"); _semi(p)
        return ("helper", name, buf, args)
    if p.at("="):
        p.take()
        a = p.take()
        if p.at("==") :
            p.take(); rhs = p.take()
            if a[0] != "id" or rhs[0] != "char": fail("unsupported comparison assignment")
            _semi(p)
            return ("assigncmp", name, a[1], unescape(rhs[1][1:-1]))
        _semi(p)
        return ("assign", name, a[1])
    fail("unsupported statement %s …" % name)

def _semi(p):
    if p.at(";"): p.take()
    elif not p.at("}"): fail("expected `;`")

def _gor(p):
    a = _gand(p)
    if p.at("||"):
        p.take(); return ("or", a, _gor(p))
    return a

def _gand(p):
    a = _gnot(p)
    if p.at("&&"):
        p.take(); return ("and", a, _gand(p))
    return a

def _gnot(p):
    if p.at("!"):
        p.take(); return ("not", _gnot(p))
    if p.at("("):
        p.take(); c = _gor(p); p.take(")"); return c
    tok = p.take()
    if tok[0] != "id": fail("unsupported condition atom %r" % (tok[1],))
    if p.at("("):
        p.take(); arg = p.take()[1]; p.take(")")
        return ("pred", tok[1], arg)
    if p.at("==") or p.at("!=") or p.at(">"):
        op = p.take()[1]; rhs = p.take()
        if rhs[0] == "char": return ("cheq" if op == "==" else "chne", tok[1], unescape(rhs[1][1:-1]))
        if rhs[0] == "num": return ("ncmp", tok[1], op, rhs[1])
        fail("unsupported comparison")
    return ("var", tok[1])

def gtranslate(stmts, cfg):
    return _gexec(list(stmts), {}, cfg)

def _val(env, name, cfg):
    return env.get(name, "%s.%s" % (cfg.state_var, cfg.field(name)))

def _gexec(stmts, env, cfg):
    if not stmts:
        return ("leaf", dict(env))
    s, rest = stmts[0], stmts[1:]
    k = s[0]
    if k == "if":
        c = _gcond(s[1], env, cfg)
        if c is True: return _gexec(list(s[2]) + rest, dict(env), cfg)
        if c is False: return _gexec(list(s[3] or []) + rest, dict(env), cfg)
        return ("ite", c, _gexec(list(s[2]) + rest, dict(env), cfg), _gexec(list(s[3] or []) + rest, dict(env), cfg))
    env = dict(env)
    if k == "clear":
        env[s[1]] = "[]"
    elif k == "push":
        item = cfg.char_var if s[2][0] == "var" else lean_char(s[2][1])
        if s[2][0] == "var" and s[2][1] != cfg.char_name: fail("push of %s" % s[2][1])
        env[s[1]] = "%s ++ [%s]" % (_paren(_val(env, s[1], cfg)), item)
    elif k == "pushbuf":
        env[s[1]] = "%s ++ %s" % (_paren(_val(env, s[1], cfg)), _paren(_val(env, s[2], cfg)))
    elif k == "pushlookup":
        if s[2] != cfg.lookup[0]: fail("lookup in %s" % s[2])
        env[s[1]] = "%s ++ %s" % (_paren(_val(env, s[1], cfg)), cfg.lookup[1].format(key=_paren(_val(env, s[3], cfg))))
    elif k == "helper":
        if s[1] not in cfg.helpers: fail("unknown helper %s" % s[1])
        args = " ".join(_paren(_val(env, a, cfg)) if a not in ("true", "false") else a for a in s[3])
        env[s[2]] = "%s %s %s" % (cfg.helpers[s[1]], _paren(_val(env, s[2], cfg)), args)
    elif k == "assign":
        if s[2] in ("true", "false") and s[1] in cfg.bools: env[s[1]] = s[2]
        elif s[2] in ("0", "1") and s[1] in cfg.nats: env[s[1]] = s[2]
        else: fail("unsupported assignment %s = %s" % (s[1], s[2]))
    elif k == "assigncmp":
        if s[2] != cfg.char_name or s[1] not in cfg.bools: fail("unsupported comparison assignment")
        env[s[1]] = "(%s == %s)" % (cfg.char_var, lean_char(s[3]))
    else:
        fail("unsupported statement %r" % (k,))
    return _gexec(rest, env, cfg)

def _paren(e):
    return e if re.match(r"^[\w.\[\]']+$", e) else "(%s)" % e

def _gcond(c, env, cfg):
    k = c[0]
    if k == "var":
        if c[1] not in cfg.bools: fail("non-boolean %s used as a condition" % c[1])
        v = _val(env, c[1], cfg)
        if v == "true": return True
        if v == "false": return False
        return ("b", v)
    if k in ("cheq", "chne"):
        if c[1] != cfg.char_name: fail("comparison of %s" % c[1])
        return (k, c[2])
    if k == "ncmp":
        v = _val(env, c[1], cfg)
        if v in ("0", "1"):
            n, m = int(v), int(c[3])
            return {"==": n == m, "!=": n != m, ">": n > m}[c[2]]
        return ("n", v, c[2], c[3])
    if k == "pred":
        if c[1] not in cfg.preds or c[2] != cfg.char_name: fail("unknown predicate %s" % c[1])
        return ("p", cfg.preds[c[1]])
    if k == "not":
        a = _gcond(c[1], env, cfg)
        if a is True: return False
        if a is False: return True
        return ("not", a)
    a, b = _gcond(c[1], env, cfg), _gcond(c[2], env, cfg)
    if k == "and":
        if a is False or b is False: return False
        if a is True: return b
        if b is True: return a
        return ("and", a, b)
    if a is True or b is True: return True
    if a is False: return b
    if b is False: return a
    return ("or", a, b)

def _grcond(c, cfg):
    k = c[0]
    if k == "b": return c[1]
    if k == "cheq": return "%s = %s" % (cfg.char_var, lean_char(c[1]))
    if k == "chne": return "%s ≠ %s" % (cfg.char_var, lean_char(c[1]))
    if k == "n": return "%s %s %s" % (c[1], {"==": "=", "!=": "≠", ">": ">"}[c[2]], c[3])
    if k == "p": return "%s %s" % (c[1], cfg.char_var)
    if k == "not":
        a = c[1]
        if a[0] == "b": return "%s = false" % a[1]
        return "¬ (%s)" % _grcond(a, cfg)
    op = " ∧ " if k == "and" else " ∨ "
    a, b = _grcond(c[1], cfg), _grcond(c[2], cfg)
    if c[1][0] in ("and", "or"): a = "(%s)" % a
    if c[2][0] in ("and", "or") and c[2][0] != k: b = "(%s)" % b
    return a + op + b

def grender(expr, indent, cfg):
    pad = "  " * indent
    if expr[0] == "ite":
        return "%sif %s then\n%s\n%selse\n%s" % (pad, _grcond(expr[1], cfg), grender(expr[2], indent + 1, cfg), pad, grender(expr[3], indent + 1, cfg))
    env = expr[1]
    if not env:
        return pad + cfg.state_var
    return "%s{ %s with %s }" % (pad, cfg.state_var, ", ".join("%s := %s" % (cfg.field(k), v) for k, v in env.items()))
