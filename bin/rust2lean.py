"""bin/rust2lean.py — a small translator from a subset of Rust to Lean 4, used by the scanner
fragments (bin/fragments/scanner_*.py).

The subset is what the hand-written character scanners of duckscript are made of: the body of a
loop over characters, consisting of nested `if` / `else if` / `else` statements whose conditions
combine boolean locals, boolean parameters (flags) and comparisons of the current character with
character literals (`==`, `!=`, `&&`, `||`, `!`, parentheses), and of the statements

    <local> = true | false ;          <buffer>.push(<char literal> | <the current character>) ;
    <buffer>.push_str("<literal>") ;  index -= 1 ;   index = end_index ;   <found_end> = true ;
    break ;                           return Err(ScriptError::<Kind>(…)) ;

The statement list is executed SYMBOLICALLY along every path (continuation style: what follows an
`if` is executed in each of its branches, so an early `break` / `return` in one branch is exact),
which turns the imperative body into one expression: a tree of conditionals whose leaves are
`continue with this state`, `break with this state, this remaining input and this found_end`, or
`error of this kind`.  The index is rendered in suffix form: nothing done = the characters after
the current one remain, `index -= 1` = the current character is given back, `index = end_index` =
nothing remains.

Two further executors below serve `expand_by_wrapper` (buffers, small counters, helper calls)
and `eval_condition_for_slice` (a token loop with `match`, `Option<bool>` / integer / enum locals,
early returns and a recursive call on a slice; it has its own parser for whole function bodies).

Anything outside the subset raises SystemExit (the caller then falls back, see bin/extract.py)."""
import re

def fail(msg):
    raise SystemExit("rust2lean: " + msg)

# ---------------------------------------------------------------- locating code

def fn_body(src, name):
    m = re.search(r"fn %s\s*(<[^>]*>)?\s*\(" % re.escape(name), src)
    if not m:
        return None
    i = src.index("{", _match_paren(src, m.end() - 1))
    return src[i:_match_brace(src, i) + 1]

def _match_paren(src, i):
    depth = 0
    j = i
    while j < len(src):
        if src[j] == "(": depth += 1
        elif src[j] == ")":
            depth -= 1
            if depth == 0: return j
        j += 1
    fail("unbalanced parentheses")

def _match_brace(src, i):
    """index of the `}` matching the `{` at i (character and string literals skipped)"""
    depth = 0
    j = i
    while j < len(src):
        ch = src[j]
        if ch == "'":
            m = re.match(r"'(\\.|[^'\\])'", src[j:])
            if m:
                j += m.end(); continue
        if ch == '"':
            m = re.match(r'"(\\.|[^"\\])*"', src[j:])
            if m:
                j += m.end(); continue
        if src.startswith("//", j):
            j = src.index("\n", j); continue
        if ch == "{": depth += 1
        elif ch == "}":
            depth -= 1
            if depth == 0: return j
        j += 1
    fail("unbalanced braces")

def block_after(body, header):
    """the `{ … }` block that follows the first occurrence of `header`"""
    k = body.find(header)
    if k < 0:
        return None
    i = body.index("{", k + len(header))
    return body[i:_match_brace(body, i) + 1]

# ---------------------------------------------------------------- tokens

TOKEN = re.compile(r"""
    \s+ | //[^\n]* |
    (?P<char>'(\\.|[^'\\])') |
    (?P<str>"(\\.|[^"\\])*") |
    (?P<id>[A-Za-z_][A-Za-z_0-9]*) |
    (?P<num>[0-9]+) |
    (?P<op>==|=>|!=|&&|\|\||\+=|-=|::|\.\.|>=|<=|[{}()\[\];.,!=&<>+\-:?*|])
""", re.X)

def tokenize(text):
    out, i = [], 0
    while i < len(text):
        m = TOKEN.match(text, i)
        if not m:
            fail("cannot tokenize at: %r" % text[i:i + 30])
        i = m.end()
        for kind in ("char", "str", "id", "num", "op"):
            if m.group(kind) is not None:
                out.append((kind, m.group(kind)))
                break
    return out

ESC = {"n": "\n", "r": "\r", "t": "\t", "\\": "\\", "'": "'", '"': '"', "0": "\0"}

def unescape(body):
    out, i = [], 0
    while i < len(body):
        if body[i] == "\\":
            if body[i + 1] not in ESC:
                fail("escape \\%s is not supported" % body[i + 1])
            out.append(ESC[body[i + 1]]); i += 2
        else:
            out.append(body[i]); i += 1
    return "".join(out)

# ---------------------------------------------------------------- parser

class P:
    def __init__(self, toks):
        self.t, self.i = toks, 0
    def peek(self, k=0):
        return self.t[self.i + k] if self.i + k < len(self.t) else ("eof", "")
    def take(self, val=None):
        tok = self.peek()
        if val is not None and tok[1] != val:
            fail("expected %r, found %r" % (val, tok[1]))
        self.i += 1
        return tok
    def at(self, *vals):
        return all(self.peek(k)[1] == v for k, v in enumerate(vals))

def parse_block(text):
    p = P(tokenize(text))
    b = _block(p)
    if p.peek()[0] != "eof":
        fail("trailing tokens after the block")
    return b

def _block(p):
    p.take("{")
    out = []
    while not p.at("}"):
        out.append(_stmt(p))
    p.take("}")
    return out

def _stmt(p):
    if p.at("if"):
        return _if(p)
    if p.at("let"):
        p.take(); name = p.take()[1]; p.take("=")
        expr = []
        while not p.at(";"):
            expr.append(p.take()[1])
        p.take(";")
        return ("let", name, "".join(expr))
    if p.at("break"):
        p.take(); p.take(";")
        return ("break",)
    if p.at("continue"):
        p.take(); p.take(";")
        return ("continue",)
    if p.at("return"):
        p.take(); p.take("Err"); p.take("("); p.take("ScriptError"); p.take("::")
        kind = p.take()[1]
        depth = 1
        while depth:  # skip the payload up to the `)` closing Err(
            tok = p.take()[1]
            if tok == "(": depth += 1
            elif tok == ")": depth -= 1
        p.take(";")
        return ("reterr", kind)
    if p.peek()[0] == "id":
        name = p.take()[1]
        if p.at("."):
            p.take(); meth = p.take()[1]; p.take("(")
            tok = p.take()
            p.take(")"); p.take(";")
            if meth == "push":
                if tok[0] == "char":
                    return ("push", name, ("lit", unescape(tok[1][1:-1])))
                if tok[0] == "id":
                    return ("push", name, ("var", tok[1]))
            if meth == "push_str" and tok[0] == "str":
                return ("pushstr", name, unescape(tok[1][1:-1]))
            fail("unsupported call %s.%s(%s)" % (name, meth, tok[1]))
        if p.at("=") :
            p.take(); val = p.take()[1]; p.take(";")
            return ("assign", name, val)
        if p.at("+=") or p.at("-="):
            op = p.take()[1]; val = p.take()[1]; p.take(";")
            return ("opassign", name, op, val)
    fail("unsupported statement starting with %r" % (p.peek()[1],))

def _if(p):
    p.take("if")
    cond = _or(p)
    then = _block(p)
    els = None
    if p.at("else"):
        p.take()
        els = [_if(p)] if p.at("if") else _block(p)
    return ("if", cond, then, els)

# `||` / `&&` chains are nested to the right (the operators are associative on booleans and
# the operands have no side effects)
def _or(p):
    a = _and(p)
    if p.at("||"):
        p.take()
        return ("or", a, _or(p))
    return a

def _and(p):
    a = _not(p)
    if p.at("&&"):
        p.take()
        return ("and", a, _and(p))
    return a

def _not(p):
    if p.at("!"):
        p.take()
        return ("not", _not(p))
    return _atom(p)

def _atom(p):
    if p.at("("):
        p.take(); c = _or(p); p.take(")")
        return c
    tok = p.take()
    if tok[0] == "id":
        if p.at("==") or p.at("!="):
            op = p.take()[1]; rhs = p.take()
            if rhs[0] != "char":
                fail("comparison of %s with a non-character" % tok[1])
            return ("cheq" if op == "==" else "chne", tok[1], unescape(rhs[1][1:-1]))
        return ("var", tok[1])
    fail("unsupported condition atom %r" % (tok[1],))

# ---------------------------------------------------------------- symbolic execution

class Config:
    def __init__(self, state_var, char_var, rest_var, flags_var, locals, flags, errors, buffer, buffer_field, found_end, ret_err, char_name="character"):
        self.__dict__.update(locals_=locals, state_var=state_var, char_var=char_var, rest_var=rest_var, flags_var=flags_var, flags=flags,
                             errors=errors, buffer=buffer, buffer_field=buffer_field, found_end=found_end, ret_err=ret_err, char_name=char_name)

class Env:
    def __init__(self, upd=None, pushes=None, idx="keep", found_end=False):
        self.upd, self.pushes, self.idx, self.found_end = dict(upd or {}), list(pushes or []), idx, found_end
    def copy(self):
        return Env(self.upd, self.pushes, self.idx, self.found_end)

def translate(stmts, cfg):
    return _exec(list(stmts), Env(), cfg)

def _exec(stmts, env, cfg):
    if not stmts:
        return ("cont", env)
    s, rest = stmts[0], stmts[1:]
    kind = s[0]
    if kind == "if":
        c = _cond(s[1], env, cfg)
        if c is True:
            return _exec(list(s[2]) + rest, env.copy(), cfg)
        if c is False:
            return _exec(list(s[3] or []) + rest, env.copy(), cfg)
        return ("ite", c, _exec(list(s[2]) + rest, env.copy(), cfg), _exec(list(s[3] or []) + rest, env.copy(), cfg))
    if kind == "assign":
        name, val = s[1], s[2]
        if name == cfg.found_end and val in ("true", "false"):
            env.found_end = (val == "true")
        elif name in cfg.locals_ and val in ("true", "false"):
            env.upd[name] = (val == "true")
        elif name == "index" and val == "end_index":
            env.idx = "end"
        else:
            fail("unsupported assignment %s = %s" % (name, val))
        return _exec(rest, env, cfg)
    if kind == "opassign":
        if s[1:] == ("index", "-=", "1") and env.idx == "keep":
            env.idx = "back"
        else:
            fail("unsupported update %s %s %s" % s[1:])
        return _exec(rest, env, cfg)
    if kind == "push":
        if s[1] != cfg.buffer:
            fail("push into %s" % s[1])
        if s[2][0] == "var" and s[2][1] != cfg.char_name:
            fail("push of %s" % s[2][1])
        env.pushes.append(s[2])
        return _exec(rest, env, cfg)
    if kind == "pushstr":
        if s[1] != cfg.buffer:
            fail("push_str into %s" % s[1])
        env.pushes.extend(("lit", ch) for ch in s[2])
        return _exec(rest, env, cfg)
    if kind == "break":
        return ("brk", env)
    if kind == "reterr":
        if s[1] not in cfg.errors:
            fail("unknown error kind %s" % s[1])
        return ("err", cfg.errors[s[1]])
    fail("unsupported statement %r" % (kind,))

def _cond(c, env, cfg):
    """partial evaluation: locals assigned earlier on this path are constants"""
    k = c[0]
    if k == "var":
        name = c[1]
        if name in cfg.locals_:
            if name in env.upd:
                return env.upd[name]
            return ("local", cfg.locals_[name])
        if name in cfg.flags:
            return ("flag", cfg.flags[name])
        fail("unknown variable %s in a condition" % name)
    if k in ("cheq", "chne"):
        if c[1] != cfg.char_name:
            fail("comparison of %s" % c[1])
        return (k, c[2])
    if k == "not":
        a = _cond(c[1], env, cfg)
        if a is True: return False
        if a is False: return True
        if a[0] == "cheq": return ("chne", a[1])
        if a[0] == "chne": return ("cheq", a[1])
        return ("not", a)
    a, b = _cond(c[1], env, cfg), _cond(c[2], env, cfg)
    if k == "and":
        if a is False or b is False: return False
        if a is True: return b
        if b is True: return a
        return ("and", a, b)
    if k == "or":
        if a is True or b is True: return True
        if a is False: return b
        if b is False: return a
        return ("or", a, b)
    fail("unsupported condition")

# ---------------------------------------------------------------- rendering (Lean 4)

def lean_char(ch):
    return {"\\": "'\\\\'", "'": "'\\''", "\n": "'\\n'", "\r": "'\\r'", "\t": "'\\t'", "\0": "'\\x00'"}.get(ch, "'%s'" % ch)

class R:
    """rendering context (names of the Lean variables)"""
    def __init__(self, cfg):
        self.cfg = cfg

def _rcond(c, cfg, top=True):
    k = c[0]
    if k == "local": return "%s.%s" % (cfg.state_var, c[1])
    if k == "flag": return "%s.%s" % (cfg.flags_var, c[1])
    if k == "cheq": return "%s = %s" % (cfg.char_var, lean_char(c[1]))
    if k == "chne": return "%s ≠ %s" % (cfg.char_var, lean_char(c[1]))
    if k == "not":
        a = c[1]
        if a[0] == "local": return "%s.%s = false" % (cfg.state_var, a[1])
        if a[0] == "flag": return "%s.%s = false" % (cfg.flags_var, a[1])
        return "¬ (%s)" % _rcond(a, cfg)
    op = " ∧ " if k == "and" else " ∨ "
    a, b = _rcond(c[1], cfg, False), _rcond(c[2], cfg, False)
    if c[1][0] in ("and", "or"): a = "(%s)" % a
    if c[2][0] in ("and", "or") and c[2][0] != k: b = "(%s)" % b
    s = a + op + b
    return s

def _rstate(env, cfg):
    fields = []
    if env.pushes:
        items = ", ".join(cfg.char_var if p[0] == "var" else lean_char(p[1]) for p in env.pushes)
        fields.append("%s := %s.%s ++ [%s]" % (cfg.buffer_field, cfg.state_var, cfg.buffer_field, items))
    for name, val in env.upd.items():
        fields.append("%s := %s" % (cfg.locals_[name], "true" if val else "false"))
    if not fields:
        return cfg.state_var
    return "{ %s with %s }" % (cfg.state_var, ", ".join(fields))

_cfg = None

def render(expr, indent, cfg=None):
    global _cfg
    if cfg is not None:
        _cfg = cfg
    cfg = _cfg
    pad = "  " * indent
    k = expr[0]
    if k == "ite":
        return "%sif %s then\n%s\n%selse\n%s" % (pad, _rcond(expr[1], cfg), render(expr[2], indent + 1), pad, render(expr[3], indent + 1))
    if k == "cont":
        return "%s.cont %s" % (pad, _rstate(expr[1], cfg))
    if k == "brk":
        env = expr[1]
        rest = {"keep": cfg.rest_var, "back": "(%s :: %s)" % (cfg.char_var, cfg.rest_var), "end": "[]"}[env.idx]
        return "%s.brk %s %s %s" % (pad, _rstate(env, cfg), rest, "true" if env.found_end else "false")
    if k == "err":
        return "%s%s" % (pad, cfg.ret_err(expr[1]))
    fail("render: %r" % (k,))

# =============================================================================================
# second executor: loop bodies whose state is several buffers, small counters and booleans
# (`expand_by_wrapper`).  Every local is tracked as a SYMBOLIC Lean expression over the state at
# the start of the iteration; a leaf is the record of the locals that changed.
#
# additional statements:   <buf>.clear();   <buf>.push_str(&<buf2>);   <n> = 0 | 1;
#                          <b> = <char> == '<c>';     <helper>(&mut <buf>, <a>, <b>);
#                          if let Some(<x>) = <map>.get(&<buf>) { <buf2>.push_str(<x>) }
#                          a trailing expression statement `<b> = true` without `;`
# additional conditions:   <n> == 0 | 1,  <n> > 0,  <pred>(<char>)
# =============================================================================================

class GConfig:
    def __init__(self, state_var, char_var, char_name, bools, nats, bufs, helpers, preds, lookup):
        """bools / nats / bufs: Rust local -> Lean field; helpers: Rust fn -> Lean fn (first
        argument `&mut buf`, result = new buffer); preds: Rust fn(char) -> Lean predicate;
        lookup: (rust map name, lean expression template with {key})"""
        self.state_var, self.char_var, self.char_name = state_var, char_var, char_name
        self.bools, self.nats, self.bufs, self.helpers, self.preds, self.lookup = bools, nats, bufs, helpers, preds, lookup
    def field(self, name):
        for d in (self.bools, self.nats, self.bufs):
            if name in d: return d[name]
        fail("unknown local %s" % name)

def gparse_block(text):
    p = P(tokenize(text))
    b = _gblock(p)
    if p.peek()[0] != "eof":
        fail("trailing tokens after the block")
    return b

def _gblock(p):
    p.take("{")
    out = []
    while not p.at("}"):
        out.append(_gstmt(p))
    p.take("}")
    return out

def _gstmt(p):
    if p.at("if", "let"):
        # if let Some(x) = map.get(&key) { buf.push_str(x) } [;]
        p.take(); p.take(); p.take("Some"); p.take("("); x = p.take()[1]; p.take(")"); p.take("=")
        m = p.take()[1]; p.take("."); p.take("get"); p.take("("); p.take("&"); key = p.take()[1]; p.take(")")
        p.take("{"); buf = p.take()[1]; p.take("."); p.take("push_str"); p.take("("); y = p.take()[1]; p.take(")")
        if p.at(";"): p.take()
        p.take("}")
        if p.at(";"): p.take()
        if x != y: fail("if let: pushes %s, not the bound %s" % (y, x))
        return ("pushlookup", buf, m, key)
    if p.at("if"):
        p.take("if")
        cond = _gor(p)
        then = _gblock(p)
        els = None
        if p.at("else"):
            p.take()
            els = [_gstmt(p)] if p.at("if") else _gblock(p)
        return ("if", cond, then, els)
    tok = p.take()
    if tok[0] != "id":
        fail("unsupported statement starting with %r" % (tok[1],))
    name = tok[1]
    if p.at("."):
        p.take(); meth = p.take()[1]; p.take("(")
        if meth == "clear":
            p.take(")"); _semi(p)
            return ("clear", name)
        if meth == "push":
            a = p.take(); p.take(")"); _semi(p)
            if a[0] == "char": return ("push", name, ("lit", unescape(a[1][1:-1])))
            if a[0] == "id": return ("push", name, ("var", a[1]))
        if meth == "push_str":
            if p.at("&"):
                p.take(); other = p.take()[1]; p.take(")"); _semi(p)
                return ("pushbuf", name, other)
        fail("unsupported call %s.%s" % (name, meth))
    if p.at("("):
        # helper(&mut buf, a, b)
        p.take(); p.take("&"); p.take("mut"); buf = p.take()[1]
        args = []
        while p.at(","):
            p.take(); args.append(p.take()[1])
        p.take(")"); _semi(p)
        return ("helper", name, buf, args)
    if p.at("="):
        p.take()
        a = p.take()
        if p.at("==") :
            p.take(); rhs = p.take()
            if a[0] != "id" or rhs[0] != "char": fail("unsupported comparison assignment")
            _semi(p)
            return ("assigncmp", name, a[1], unescape(rhs[1][1:-1]))
        _semi(p)
        return ("assign", name, a[1])
    fail("unsupported statement %s …" % name)

def _semi(p):
    if p.at(";"): p.take()
    elif not p.at("}"): fail("expected `;`")

def _gor(p):
    a = _gand(p)
    if p.at("||"):
        p.take(); return ("or", a, _gor(p))
    return a

def _gand(p):
    a = _gnot(p)
    if p.at("&&"):
        p.take(); return ("and", a, _gand(p))
    return a

def _gnot(p):
    if p.at("!"):
        p.take(); return ("not", _gnot(p))
    if p.at("("):
        p.take(); c = _gor(p); p.take(")"); return c
    tok = p.take()
    if tok[0] != "id": fail("unsupported condition atom %r" % (tok[1],))
    if p.at("("):
        p.take(); arg = p.take()[1]; p.take(")")
        return ("pred", tok[1], arg)
    if p.at("==") or p.at("!=") or p.at(">"):
        op = p.take()[1]; rhs = p.take()
        if rhs[0] == "char": return ("cheq" if op == "==" else "chne", tok[1], unescape(rhs[1][1:-1]))
        if rhs[0] == "num": return ("ncmp", tok[1], op, rhs[1])
        fail("unsupported comparison")
    return ("var", tok[1])

def gtranslate(stmts, cfg):
    return _gexec(list(stmts), {}, cfg)

def _val(env, name, cfg):
    return env.get(name, "%s.%s" % (cfg.state_var, cfg.field(name)))

def _gexec(stmts, env, cfg):
    if not stmts:
        return ("leaf", dict(env))
    s, rest = stmts[0], stmts[1:]
    k = s[0]
    if k == "if":
        c = _gcond(s[1], env, cfg)
        if c is True: return _gexec(list(s[2]) + rest, dict(env), cfg)
        if c is False: return _gexec(list(s[3] or []) + rest, dict(env), cfg)
        return ("ite", c, _gexec(list(s[2]) + rest, dict(env), cfg), _gexec(list(s[3] or []) + rest, dict(env), cfg))
    env = dict(env)
    if k == "clear":
        env[s[1]] = "[]"
    elif k == "push":
        item = cfg.char_var if s[2][0] == "var" else lean_char(s[2][1])
        if s[2][0] == "var" and s[2][1] != cfg.char_name: fail("push of %s" % s[2][1])
        env[s[1]] = "%s ++ [%s]" % (_paren(_val(env, s[1], cfg)), item)
    elif k == "pushbuf":
        env[s[1]] = "%s ++ %s" % (_paren(_val(env, s[1], cfg)), _paren(_val(env, s[2], cfg)))
    elif k == "pushlookup":
        if s[2] != cfg.lookup[0]: fail("lookup in %s" % s[2])
        env[s[1]] = "%s ++ %s" % (_paren(_val(env, s[1], cfg)), cfg.lookup[1].format(key=_paren(_val(env, s[3], cfg))))
    elif k == "helper":
        if s[1] not in cfg.helpers: fail("unknown helper %s" % s[1])
        args = " ".join(_paren(_val(env, a, cfg)) if a not in ("true", "false") else a for a in s[3])
        env[s[2]] = "%s %s %s" % (cfg.helpers[s[1]], _paren(_val(env, s[2], cfg)), args)
    elif k == "assign":
        if s[2] in ("true", "false") and s[1] in cfg.bools: env[s[1]] = s[2]
        elif s[2] in ("0", "1") and s[1] in cfg.nats: env[s[1]] = s[2]
        else: fail("unsupported assignment %s = %s" % (s[1], s[2]))
    elif k == "assigncmp":
        if s[2] != cfg.char_name or s[1] not in cfg.bools: fail("unsupported comparison assignment")
        env[s[1]] = "(%s == %s)" % (cfg.char_var, lean_char(s[3]))
    else:
        fail("unsupported statement %r" % (k,))
    return _gexec(rest, env, cfg)

def _paren(e):
    return e if re.match(r"^[\w.\[\]']+$", e) else "(%s)" % e

def _gcond(c, env, cfg):
    k = c[0]
    if k == "var":
        if c[1] not in cfg.bools: fail("non-boolean %s used as a condition" % c[1])
        v = _val(env, c[1], cfg)
        if v == "true": return True
        if v == "false": return False
        return ("b", v)
    if k in ("cheq", "chne"):
        if c[1] != cfg.char_name: fail("comparison of %s" % c[1])
        return (k, c[2])
    if k == "ncmp":
        v = _val(env, c[1], cfg)
        if v in ("0", "1"):
            n, m = int(v), int(c[3])
            return {"==": n == m, "!=": n != m, ">": n > m}[c[2]]
        return ("n", v, c[2], c[3])
    if k == "pred":
        if c[1] not in cfg.preds or c[2] != cfg.char_name: fail("unknown predicate %s" % c[1])
        return ("p", cfg.preds[c[1]])
    if k == "not":
        a = _gcond(c[1], env, cfg)
        if a is True: return False
        if a is False: return True
        return ("not", a)
    a, b = _gcond(c[1], env, cfg), _gcond(c[2], env, cfg)
    if k == "and":
        if a is False or b is False: return False
        if a is True: return b
        if b is True: return a
        return ("and", a, b)
    if a is True or b is True: return True
    if a is False: return b
    if b is False: return a
    return ("or", a, b)

def _grcond(c, cfg):
    k = c[0]
    if k == "b": return c[1]
    if k == "cheq": return "%s = %s" % (cfg.char_var, lean_char(c[1]))
    if k == "chne": return "%s ≠ %s" % (cfg.char_var, lean_char(c[1]))
    if k == "n": return "%s %s %s" % (c[1], {"==": "=", "!=": "≠", ">": ">"}[c[2]], c[3])
    if k == "p": return "%s %s" % (c[1], cfg.char_var)
    if k == "not":
        a = c[1]
        if a[0] == "b": return "%s = false" % a[1]
        return "¬ (%s)" % _grcond(a, cfg)
    op = " ∧ " if k == "and" else " ∨ "
    a, b = _grcond(c[1], cfg), _grcond(c[2], cfg)
    if c[1][0] in ("and", "or"): a = "(%s)" % a
    if c[2][0] in ("and", "or") and c[2][0] != k: b = "(%s)" % b
    return a + op + b

def grender(expr, indent, cfg):
    pad = "  " * indent
    if expr[0] == "ite":
        return "%sif %s then\n%s\n%selse\n%s" % (pad, _grcond(expr[1], cfg), grender(expr[2], indent + 1, cfg), pad, grender(expr[3], indent + 1, cfg))
    env = expr[1]
    if not env:
        return pad + cfg.state_var
    return "%s{ %s with %s }" % (pad, cfg.state_var, ", ".join("%s := %s" % (cfg.field(k), v) for k, v in env.items()))

# =============================================================================================
# third executor: a token loop with `match`, `Option<bool>` / integer / enum locals, early
# `return Ok(..)` / `return Err(..)` and a recursive call on a slice (`eval_condition_for_slice`,
# duckscript_sdk/src/utils/condition.rs).
#
# The parser below reads whole function bodies:
#   statements   let [mut] x = e ;   x = e ;   x += e ;   x -= e ;   if c {..} [else if .. | else {..}]
#                match e { pat => {..} | pat => stmt , … } [;]   for x in xs {..}   return e ;
#                a trailing expression without `;` (`Ok(e)`, `Err(e)`, an assignment)
#                let x = if c { e1 } else { e2 } ;   (lifted into control flow)
#   patterns     Enum::Variant   _   Ok(x)   Err(x)
#   expressions  true false None Some(e) Ok(e) Err(e) Enum::Variant "text" 123 x  f(e, …)
#                format!("text", …)   e.method(e, …)   !e   &e   e && e   e || e
#                e == e   e != e   e < e   e > e   e + n   e - n   xs[a..b]   (e)
# The executor tracks every local as a symbolic VALUE over the state at the start of the
# iteration (booleans, `Option<bool>`, integers in the form `field + constant`, enum
# constructors), folds what is known on the path (`Some(e).unwrap()` is `e`), and renders
#   * `match <enum local>`  as a Lean `match` with one arm per variant, in DECLARATION order
#     (wildcards expanded: Rust arms of a field-less enum are order-independent up to `_`),
#   * `match <self>(&xs[a..b]) { Ok(x) => .., Err(e) => .. }` as a range check (a slice out of
#     range panics in Rust: explicit `.panic` leaf) and a `match` on the evaluator parameter,
#   * `.unwrap()` of a value not known to be `Some` as a `match` with a `.panic` arm.
# Leaves: `.cont <state>` (end of the loop body), `.ret b` / `.ok b`, `.err kind`, `.panic`.
# =============================================================================================

def cparse_block(text):
    p = P(tokenize(text))
    b = _cblock(p)
    if p.peek()[0] != "eof":
        fail("trailing tokens after the block")
    return b

def _cblock(p):
    p.take("{")
    out = []
    while not p.at("}"):
        out.append(_cstmt(p))
    p.take("}")
    return out

def _cend(p):
    """end of a simple statement: `;`, or nothing right before `}` (trailing expression)"""
    if p.at(";"):
        p.take(); return True
    if p.at("}"):
        return False
    fail("expected `;`, found %r" % (p.peek()[1],))

def _cstmt(p):
    if p.at("let"):
        p.take()
        mut = False
        if p.at("mut"):
            p.take(); mut = True
        name = p.take()
        if name[0] != "id": fail("unsupported `let` pattern")
        p.take("=")
        e = _cexpr(p)
        p.take(";")
        return ("let", name[1], mut, e)
    if p.at("if"):
        return _cif(p)
    if p.at("match"):
        p.take()
        scrut = _cexpr(p)
        p.take("{")
        arms = []
        while not p.at("}"):
            pat = _cpat(p)
            p.take("=>")
            if p.at("{"):
                body = _cblock(p)
                if p.at(","): p.take()
            else:
                body = [_csimple(p, in_arm=True)]
                if p.at(","): p.take()
                elif not p.at("}"): fail("expected `,` after a match arm")
            arms.append((pat, body))
        p.take("}")
        if p.at(";"): p.take()
        return ("match", scrut, arms)
    if p.at("for"):
        p.take(); x = p.take()
        if x[0] != "id": fail("unsupported `for` pattern")
        p.take("in")
        it = _cexpr(p)
        return ("for", x[1], it, _cblock(p))
    return _csimple(p, in_arm=False)

def _csimple(p, in_arm):
    """return / assignment / expression statement; inside a match arm no terminator is read"""
    if p.at("return"):
        p.take()
        e = _cexpr(p)
        if not in_arm: _cend(p)
        return ("return", e)
    e = _cexpr(p)
    if p.at("=") or p.at("+=") or p.at("-="):
        op = p.take()[1]
        if e[0] != "id": fail("assignment to something that is not a local")
        rhs = _cexpr(p)
        if not in_arm: _cend(p)
        return ("assign", e[1], op, rhs)
    if in_arm:
        return ("expr", e)
    if _cend(p):
        fail("expression statement with `;` has no effect in the subset")
    return ("expr", e)

def _cif(p):
    p.take("if")
    cond = _cexpr(p)
    then = _cblock(p)
    els = None
    if p.at("else"):
        p.take()
        els = [_cif(p)] if p.at("if") else _cblock(p)
    return ("if", cond, then, els)

def _cpat(p):
    tok = p.take()
    if tok[0] != "id": fail("unsupported pattern %r" % (tok[1],))
    if tok[1] == "_": return ("pwild",)
    if p.at("::"):
        p.take(); v = p.take()[1]
        return ("pctor", tok[1], v)
    if tok[1] in ("Ok", "Err") and p.at("("):
        p.take(); x = p.take()
        if x[0] != "id": fail("unsupported pattern inside %s(..)" % tok[1])
        p.take(")")
        return ("pok" if tok[1] == "Ok" else "perr", x[1])
    fail("unsupported pattern %r" % (tok[1],))

def _cexpr(p):
    a = _cexpr_and(p)
    while p.at("||"):
        p.take(); a = ("bin", "||", a, _cexpr_and(p))
    return a

def _cexpr_and(p):
    a = _cexpr_cmp(p)
    while p.at("&&"):
        p.take(); a = ("bin", "&&", a, _cexpr_cmp(p))
    return a

def _cexpr_cmp(p):
    a = _cexpr_add(p)
    if p.peek()[1] in ("==", "!=", "<", ">"):
        op = p.take()[1]
        return ("bin", op, a, _cexpr_add(p))
    return a

def _cexpr_add(p):
    a = _cexpr_unary(p)
    while p.peek()[1] in ("+", "-"):
        op = p.take()[1]; a = ("bin", op, a, _cexpr_unary(p))
    return a

def _cexpr_unary(p):
    if p.at("!"):
        p.take(); return ("not", _cexpr_unary(p))
    if p.at("&"):
        p.take()
        if p.at("mut"): fail("`&mut` is outside the subset")
        return _cexpr_unary(p)          # a shared reference is the value itself
    return _cexpr_postfix(p)

def _cargs(p):
    p.take("(")
    args = []
    while not p.at(")"):
        args.append(_cexpr(p))
        if p.at(","): p.take()
        elif not p.at(")"): fail("expected `,` or `)` in an argument list")
    p.take(")")
    return args

def _cexpr_postfix(p):
    e = _cexpr_primary(p)
    while True:
        if p.at(".") :
            p.take(); m = p.take()
            if m[0] != "id": fail("unsupported field access")
            e = ("method", e, m[1], _cargs(p))
        elif p.at("["):
            p.take()
            lo = None if p.at("..") else _cexpr_add(p)
            if not p.at(".."): fail("indexing (not slicing) is outside the subset")
            p.take("..")
            hi = None if p.at("]") else _cexpr_add(p)
            p.take("]")
            e = ("slice", e, lo, hi)
        else:
            return e

def _cexpr_primary(p):
    tok = p.take()
    if tok[0] == "str": return ("lit_str", unescape(tok[1][1:-1]))
    if tok[0] == "num": return ("num", int(tok[1]))
    if tok[1] == "(":
        e = _cexpr(p); p.take(")"); return e
    if tok[1] == "if":
        p.i -= 1
        s = _cif(p)
        return ("ifexpr",) + s[1:]
    if tok[0] != "id": fail("unsupported expression starting with %r" % (tok[1],))
    name = tok[1]
    if name in ("true", "false"): return ("bool", name == "true")
    if name == "None": return ("none",)
    if name in ("Some", "Ok", "Err") and p.at("("):
        args = _cargs(p)
        if len(args) != 1: fail("%s(..) takes one argument" % name)
        return ({"Some": "some", "Ok": "ok", "Err": "errc"}[name], args[0])
    if p.at("::"):
        p.take(); v = p.take()[1]
        return ("path", name, v)
    if p.at("!") and p.peek(1)[1] == "(":
        p.take()
        return ("macro", name, _cargs(p))
    if p.at("("):
        return ("call", name, _cargs(p))
    return ("id", name)

class CConfig:
    def __init__(self, state_var, item_name, item_var, args_name, args_var, self_name, ev_var,
                 locals, enum_name, variants, errors, funcs):
        """locals: Rust local -> (Lean field, type) with type in bool / opt / int / nat / enum;
        variants: ordered list of (Rust variant, Lean constructor); errors: message text -> Lean
        error kind; funcs: Rust fn(Option<String>) -> bool  ->  Lean function"""
        self.state_var, self.item_name, self.item_var = state_var, item_name, item_var
        self.args_name, self.args_var, self.self_name, self.ev_var = args_name, args_var, self_name, ev_var
        self.locals, self.enum_name, self.variants, self.errors, self.funcs = locals, enum_name, variants, errors, funcs

class CEnv:
    def __init__(self, vals=None, dirty=None, binds=None, fresh=0):
        self.vals, self.dirty, self.binds, self.fresh = dict(vals or {}), list(dirty or []), dict(binds or {}), fresh
    def copy(self):
        return CEnv(self.vals, self.dirty, self.binds, self.fresh)
    def set(self, name, val):
        self.vals[name] = val
        if name not in self.dirty: self.dirty.append(name)

class _Panic(Exception):
    pass

class _NeedSome(Exception):
    def __init__(self, local): self.local = local

T, F = ("T",), ("F",)

def _ctype(v):
    return {"T": "bool", "F": "bool", "b": "bool", "and": "bool", "or": "bool", "not": "bool", "getD": "bool",
            "isNone": "bool", "streq": "bool", "icmp": "bool", "app": "bool", "none": "opt", "some": "opt", "o": "opt",
            "n": "num", "ctor": "enum", "e": "enum", "s": "str", "errv": "err"}[v[0]]

def _cnot(a):
    if a == T: return F
    if a == F: return T
    if a[0] == "not": return a[1]
    return ("not", a)

def _cand(a, b):
    if a == F or b == F: return F
    if a == T: return b
    if b == T: return a
    return ("and", a, b)

def _cor(a, b):
    if a == T or b == T: return T
    if a == F: return b
    if b == F: return a
    return ("or", a, b)

def _clocal(name, env, cfg):
    if name in env.vals: return env.vals[name]
    field, ty = cfg.locals[name]
    ref = "%s.%s" % (cfg.state_var, field)
    return {"bool": ("b", ref), "opt": ("o", ref), "enum": ("e", ref),
            "int": ("n", ref, 0, "int"), "nat": ("n", ref, 0, "nat")}[ty]

def ceval(e, env, cfg, strict=True):
    """symbolic value of an expression; `strict` is False in the right operand of `&&` / `||`
    (evaluated only sometimes: a panic there cannot be lifted out)"""
    k = e[0]
    if k == "bool": return T if e[1] else F
    if k == "num": return ("n", None, e[1], None)
    if k == "none": return ("none",)
    if k == "some":
        v = ceval(e[1], env, cfg, strict)
        if _ctype(v) not in ("bool", "str"): fail("Some(..) of an unsupported value")
        return ("some", v)
    if k == "path":
        if e[1] != cfg.enum_name or e[2] not in dict(cfg.variants): fail("unknown constant %s::%s" % (e[1], e[2]))
        return ("ctor", e[2], dict(cfg.variants)[e[2]])
    if k == "id":
        name = e[1]
        if name in env.binds: return env.binds[name]
        if name in cfg.locals: return _clocal(name, env, cfg)
        if name == cfg.item_name: return ("s", cfg.item_var)
        fail("unknown variable %s" % name)
    if k == "not":
        v = ceval(e[1], env, cfg, strict)
        if _ctype(v) != "bool": fail("`!` of a non-boolean")
        return _cnot(v)
    if k == "bin":
        op = e[1]
        if op in ("&&", "||"):
            a, b = ceval(e[2], env, cfg, strict), ceval(e[3], env, cfg, False)
            if _ctype(a) != "bool" or _ctype(b) != "bool": fail("`%s` of non-booleans" % op)
            return _cand(a, b) if op == "&&" else _cor(a, b)
        a = ceval(e[2], env, cfg, strict)
        if e[3][0] == "lit_str":
            if _ctype(a) != "str" or op not in ("==", "!="): fail("unsupported comparison with a string literal")
            v = ("streq", a[1], e[3][1])
            return v if op == "==" else ("not", v)
        b = ceval(e[3], env, cfg, strict)
        if op in ("+", "-"):
            if _ctype(a) != "num" or _ctype(b) != "num" or b[1] is not None: fail("unsupported arithmetic")
            if op == "-" and a[3] != "int": fail("subtraction on an unsigned local (can panic) is outside the subset")
            return ("n", a[1], a[2] + (b[2] if op == "+" else -b[2]), a[3])
        if _ctype(a) == "num" and _ctype(b) == "num" and b[1] is None:
            if a[1] is None:
                return T if {"==": a[2] == b[2], "!=": a[2] != b[2], "<": a[2] < b[2], ">": a[2] > b[2]}[op] else F
            if op == "!=": return ("not", ("icmp", "=", a, b[2]))
            return ("icmp", {"==": "="}.get(op, op), a, b[2])
        fail("unsupported comparison")
    if k == "lit_str":
        fail("a string literal is only supported as the right-hand side of a comparison or as an error text")
    if k == "method":
        m, args = e[2], e[3]
        if m == "to_string" and not args:
            v = ceval(e[1], env, cfg, strict)
            if _ctype(v) != "str": fail("to_string of a non-string")
            return v
        r = ceval(e[1], env, cfg, strict)
        if _ctype(r) != "opt": fail("unsupported method .%s" % m)
        if m == "unwrap_or" and len(args) == 1:
            d = ceval(args[0], env, cfg, strict)
            if _ctype(d) != "bool": fail("unwrap_or of a non-boolean")
            if r[0] == "some": return r[1]
            if r[0] == "none": return d
            return ("getD", r, d)
        if m in ("is_none", "is_some") and not args:
            v = T if r[0] == "none" else F if r[0] == "some" else ("isNone", r)
            return v if m == "is_none" else _cnot(v)
        if m == "unwrap" and not args:
            if r[0] == "some": return r[1]
            if not strict: fail("unwrap() in a short-circuited operand")
            if r[0] == "none": raise _Panic()
            if e[1][0] == "id" and e[1][1] in cfg.locals: raise _NeedSome(e[1][1])
            fail("unwrap() of a compound expression")
        fail("unsupported method .%s" % m)
    if k == "call":
        if e[1] in cfg.funcs and len(e[2]) == 1:
            a = ceval(e[2][0], env, cfg, strict)
            if a[0] == "none" or (a[0] == "some" and _ctype(a[1]) == "str"):
                return ("app", cfg.funcs[e[1]], a)
        fail("unsupported call of %s" % e[1])
    fail("unsupported expression %r" % (k,))

def _cerrkind(e, env, cfg):
    """the payload of `Err(..)`: a message text (mapped to its kind) or a passed-through error"""
    while e[0] == "method" and e[2] == "to_string" and not e[3]:
        e = e[1]
    if e[0] == "macro" and e[1] == "format" and e[2] and e[2][0][0] == "lit_str":
        text = e[2][0][1]
    elif e[0] == "lit_str":
        text = e[1]
    elif e[0] == "id" and env.binds.get(e[1], ("?",))[0] == "errv":
        return ("errpass", e[1])
    else:
        fail("unsupported error value")
    if text not in cfg.errors: fail("unknown error text %r" % text)
    return ("err", cfg.errors[text])

def ctranslate(stmts, cfg, mode, binds=None):
    """mode `step`: a loop body (falling off the end = next iteration); mode `final`: code whose
    last expression is the function's result"""
    return _cexec(list(stmts), CEnv(binds=binds), cfg, mode)

def _cresult(e, env, cfg):
    if e[0] == "ok":
        v = ceval(e[1], env, cfg)
        if _ctype(v) != "bool": fail("Ok(..) of a non-boolean")
        return ("ret", v)
    if e[0] == "errc":
        return _cerrkind(e[1], env, cfg)
    fail("unsupported result expression")

def _cexec(stmts, env, cfg, mode):
    if not stmts:
        if mode == "step": return ("cont", env)
        fail("control reaches the end of the function without a result")
    s, rest = stmts[0], stmts[1:]
    try:
        return _cexec1(s, rest, env.copy(), cfg, mode)
    except _Panic:
        return ("panic",)
    except _NeedSome as need:
        # `<local>.unwrap()` of a value that is not known: split on it, panic in the `None` arm
        var = "v%d" % env.fresh
        e2 = env.copy(); e2.fresh += 1
        scrut = ropt(_clocal(need.local, env, cfg))
        e2.vals[need.local] = ("some", ("b", var))      # known, not assigned: not marked dirty
        return ("matchopt", scrut, var, _cexec(stmts, e2, cfg, mode), ("panic",))

def _cexec1(s, rest, env, cfg, mode):
    k = s[0]
    if k == "let":
        if s[3][0] == "ifexpr":
            # let x = if c { .. e1 } else { .. e2 };   ==>   if c { .. let x = e1; } else { .. let x = e2; }
            def tail(block):
                if not block or block[-1][0] != "expr": fail("`if` expression without a value")
                return list(block[:-1]) + [("let", s[1], s[2], block[-1][1])]
            if s[3][3] is None: fail("`if` expression without `else`")
            return _cexec([("if", s[3][1], tail(s[3][2]), tail(s[3][3]))] + rest, env, cfg, mode)
        if s[2]: fail("a mutable local declared inside the translated code")
        env.binds[s[1]] = ceval(s[3], env, cfg)
        return _cexec(rest, env, cfg, mode)
    if k == "assign":
        name, op = s[1], s[2]
        if name not in cfg.locals: fail("assignment to %s" % name)
        ty = cfg.locals[name][1]
        rhs = s[3] if op == "=" else ("bin", op[0], ("id", name), s[3])
        v = ceval(rhs, env, cfg)
        vt = _ctype(v)
        if vt == "num":
            if ty not in ("int", "nat") or (v[3] is not None and v[3] != ty): fail("ill-typed assignment to %s" % name)
            if ty == "nat" and v[2] < 0: fail("negative value for an unsigned local")
            v = ("n", v[1], v[2], ty)
        elif vt == "opt":
            if ty != "opt" or (v[0] == "some" and _ctype(v[1]) != "bool"): fail("ill-typed assignment to %s" % name)
        elif vt != ty:
            fail("ill-typed assignment to %s" % name)
        env.set(name, v)
        return _cexec(rest, env, cfg, mode)
    if k == "if":
        c = ceval(s[1], env, cfg)
        if _ctype(c) != "bool": fail("non-boolean condition")
        if c == T: return _cexec(list(s[2]) + rest, env, cfg, mode)
        if c == F: return _cexec(list(s[3] or []) + rest, env, cfg, mode)
        return ("ite", c, _cexec(list(s[2]) + rest, env.copy(), cfg, mode), _cexec(list(s[3] or []) + rest, env.copy(), cfg, mode))
    if k == "return":
        return _cresult(s[1], env, cfg)
    if k == "expr":
        if rest or mode != "final": fail("an expression statement that is not the function's result")
        return _cresult(s[1], env, cfg)
    if k == "match":
        scrut, arms = s[1], s[2]
        if scrut[0] == "call" and scrut[1] == cfg.self_name:
            return _cmatch_self(scrut, arms, rest, env, cfg, mode)
        if scrut[0] != "id" or scrut[1] not in cfg.locals or cfg.locals[scrut[1]][1] != "enum":
            fail("`match` on something that is neither an enum local nor the recursive call")
        v = _clocal(scrut[1], env, cfg)
        def arm_for(variant):
            for pat, body in arms:
                if pat == ("pwild",) or pat == ("pctor", cfg.enum_name, variant):
                    return body
                if pat[0] != "pctor" or pat[1] != cfg.enum_name or pat[2] not in dict(cfg.variants):
                    fail("unsupported pattern in a match on %s" % cfg.enum_name)
            fail("match on %s does not cover %s" % (cfg.enum_name, variant))
        if v[0] == "ctor":
            return _cexec(list(arm_for(v[1])) + rest, env, cfg, mode)
        return ("matchenum", v[1], [(lean, _cexec(list(arm_for(rv)) + rest, env.copy(), cfg, mode)) for rv, lean in cfg.variants])
    fail("unsupported statement %r" % (k,))

def _cmatch_self(scrut, arms, rest, env, cfg, mode):
    a = scrut[2]
    if len(a) != 1 or a[0][0] != "slice" or a[0][1] != ("id", cfg.args_name) or a[0][2] is None or a[0][3] is None:
        fail("the recursive call is not on a slice `%s[a..b]`" % cfg.args_name)
    lo, hi = ceval(a[0][2], env, cfg), ceval(a[0][3], env, cfg)
    for b in (lo, hi):
        if _ctype(b) != "num" or b[3] == "int": fail("slice bounds must be unsigned locals")
    pats = [p[0] for p, _ in arms]
    if sorted(pats) != ["perr", "pok"]: fail("the match on the recursive call must have the arms Ok(x) and Err(e)")
    trees = {}
    for pat, body in arms:
        e2 = env.copy()
        e2.binds[pat[1]] = ("b", pat[1]) if pat[0] == "pok" else ("errv", pat[1])
        trees[pat[0]] = (pat[1], _cexec(list(body) + rest, e2, cfg, mode))
    return ("matchev", rnum(lo), rnum(hi), trees["pok"], trees["perr"])

# ------------------------------------------------------------- rendering of the third executor

def _atomic(s):
    return re.match(r"^[\w.']+$", s) is not None

def _par(s):
    return s if _atomic(s) or (s[0] == "(" and _match_paren(s, 0) == len(s) - 1) else "(%s)" % s

def lean_strlit(s):
    out = ['"']
    for ch in s:
        out.append({'"': '\\"', "\\": "\\\\", "\n": "\\n", "\t": "\\t", "\r": "\\r"}.get(ch, ch))
    return "".join(out) + '".toList'

def rnum(v):
    base, off = v[1], v[2]
    if base is None: return str(off) if off >= 0 else "(%d)" % off
    if off == 0: return base
    return "%s %s %d" % (base, "+" if off > 0 else "-", abs(off))

def ropt(v):
    if v[0] == "none": return "none"
    if v[0] == "some": return "some %s" % _par(rval(v[1]))
    return v[1]

def rval(v):
    """a value as a Lean term of its own type (booleans as `Bool`)"""
    k = v[0]
    if k == "T": return "true"
    if k == "F": return "false"
    if k in ("b", "e", "s"): return v[1]
    if k == "ctor": return v[2]
    if k == "and": return "(%s && %s)" % (rval(v[1]), rval(v[2]))
    if k == "or": return "(%s || %s)" % (rval(v[1]), rval(v[2]))
    if k == "not": return "(!%s)" % _par(rval(v[1]))
    if k == "getD": return "%s.getD %s" % (_par(ropt(v[1])), _par(rval(v[2])))
    if k == "isNone": return "%s.isNone" % _par(ropt(v[1]))
    if k == "streq": return "(%s == %s)" % (v[1], lean_strlit(v[2]))
    if k == "icmp": return "decide (%s %s %d)" % (rnum(v[2]), v[1], v[3])
    if k == "app": return "%s %s" % (v[1], _par(ropt(v[2])))
    if k in ("none", "some", "o"): return ropt(v)
    if k == "n": return rnum(v)
    fail("render: value %r" % (k,))

def rprop(v, top=True):
    """a boolean value as the condition of a Lean `if`"""
    k = v[0]
    if k == "streq": return "%s = %s" % (v[1], lean_strlit(v[2]))
    if k == "icmp": return "%s %s %d" % (rnum(v[2]), v[1], v[3])
    if k in ("and", "or"):
        a, b = rprop(v[1], False), rprop(v[2], False)
        if v[1][0] in ("and", "or") and v[1][0] != k: a = "(%s)" % a
        if v[2][0] in ("and", "or") and v[2][0] != k: b = "(%s)" % b
        return a + (" ∧ " if k == "and" else " ∨ ") + b
    if k == "not":
        a = v[1]
        if a[0] == "streq": return "%s ≠ %s" % (a[1], lean_strlit(a[2]))
        if a[0] in ("icmp", "and", "or"): return "¬ (%s)" % rprop(a)
        return "%s = false" % rval(a)
    return rval(v)

def crender(expr, indent, cfg, mode):
    pad = "  " * indent
    k = expr[0]
    if k == "ite":
        return "%sif %s then\n%s\n%selse\n%s" % (pad, rprop(expr[1]), crender(expr[2], indent + 1, cfg, mode), pad, crender(expr[3], indent + 1, cfg, mode))
    if k == "matchenum":
        out = "%smatch %s with" % (pad, expr[1])
        for ctor, tree in expr[2]:
            out += "\n%s| %s =>\n%s" % (pad, ctor, crender(tree, indent + 1, cfg, mode))
        return out
    if k == "matchopt":
        return "%smatch %s with\n%s| some %s =>\n%s\n%s| none =>\n%s" % (
            pad, expr[1], pad, expr[2], crender(expr[3], indent + 1, cfg, mode), pad, crender(expr[4], indent + 1, cfg, mode))
    if k == "matchev":
        lo, hi, (okv, okt), (errv, errt) = expr[1:]
        a = cfg.args_var
        out = "%sif %s ≤ %s ∧ %s ≤ %s.length then\n" % (pad, lo, hi, hi, a)
        out += "%s  match %s ((%s.drop %s).take (%s - %s)) with\n" % (pad, cfg.ev_var, a, _par(lo), hi, _par(lo))
        out += "%s  | .ok %s =>\n%s\n" % (pad, okv, crender(okt, indent + 2, cfg, mode))
        out += "%s  | .err %s =>\n%s\n" % (pad, errv, crender(errt, indent + 2, cfg, mode))
        out += "%s  | .panic =>\n%s    .panic\n" % (pad, pad)
        out += "%selse\n%s  .panic" % (pad, pad)
        return out
    if k == "cont":
        env = expr[1]
        if not env.dirty: return "%s.cont %s" % (pad, cfg.state_var)
        return "%s.cont { %s with %s }" % (pad, cfg.state_var, ", ".join(
            "%s := %s" % (cfg.locals[n][0], rval(env.vals[n])) for n in env.dirty))
    if k == "ret":
        return "%s%s %s" % (pad, ".ret" if mode == "step" else ".ok", _par(rval(expr[1])))
    if k == "err":
        return "%s.err .%s" % (pad, expr[1])
    if k == "errpass":
        return "%s.err %s" % (pad, expr[1])
    if k == "panic":
        return "%s.panic" % pad
    fail("render: %r" % (k,))

# =============================================================================================
# fourth executor: whole straight-line FUNCTIONS over a line (`&Vec<char>`) and a hand-moved index
# (the functions of duckscript/src/parser.rs built on `parse_next_value`).
#
# The translation is INDEX FAITHFUL and total: a function `fn f(..) -> Result<T, ScriptError>`
# becomes `def fGen (..) : IOut T'` (`IOut` of DuckModel/ParserIndexed.lean: `.ok v`, `.err kind`,
# `.panic`), with `.panic` produced exactly where Rust would unwind.
#
#   statements   let [mut] x [: T] = e ;   let (a, b) = e ;   x = e ;   x.f = e ;   x += n ;   x -= n ;
#                if c {..} [else if .. | else {..}]     if let Some(x) = e {..} [else {..}] [;]
#                match e { pat => {..} | pat => stmt|expr , … } [;]
#                for _i in a..b {..}      loop {..}      break ;      return e ;
#                x.push(e) ;  x.push_str(e) ;           a trailing expression (the value of the block)
#                x = match .. {..} ;  let x = if .. {..} else {..} ;  let x = match .. {..} ;
#                let x = f(..)? ;   x = f(..)? ;      (the early return of the `Err`)
#   patterns     Ok(x)  Ok((a, b))  Err(e)  Some(x)  None  _
#   expressions  literals (bool, char, "text", 123), locals, CONSTANTS (`static N: T = literal;`),
#                None Some(e) Ok(e) Err(e) (a, b)   x.f   xs[i]   f(e, …)   Type::new()  vec![]
#                Enum::Variant   Enum::Variant(e)   Struct { f, g: e }   &e   &mut x   !e
#                e && e   e || e   == != < > <= >=   e + n   e - n
#                .len() .is_empty() .clone() .to_string() .chars().collect() .trim() .trim_start()
#                .trim_end() .trim_start_matches(c|"s") .trim_end_matches(c) .starts_with(c|"s")
#                .is_some() .is_none() .unwrap()
#
# How things are rendered:
#   * every local is a symbolic VALUE (integers as `base + constant`, so `index += 1; … index -= 1`
#     folds and needs no underflow check; strings as a concatenation of literal pieces and
#     expressions; `Option`s as `none` / `some v` / an opaque expression; a struct local as the map
#     of its fields); what is known on the path is folded;
#   * `xs[i]`                    →  `match rd xs i with | none => .panic | some x => …`
#   * `i -= 1` not known ≥ 1     →  `match decr i with | none => .panic | some i' => …`
#   * a call `f(..)` of a function listed in the configuration → a call of its Lean counterpart
#     (a `…Gen` function of the same file, or the hand model's index-faithful function), the
#     `InstructionMetaInfo` arguments dropped; `match f(..) { Ok(p) => A, Err(e) => B }` →
#     `match <call> with | .panic => .panic | .err e => B | .ok p => A`  (a tuple `p` is taken
#     apart in the pattern); a `&mut Struct` argument comes back as a second component of `.ok`;
#   * `if x.is_none()` / `if x.is_some()` / `if let Some(v) = x` on an opaque option `x` →
#     `match x with | none => … | some v => …`, the value being KNOWN in either arm (so a later
#     `x.unwrap()` is `v` and needs no panic arm); `.unwrap()` of an opaque option anywhere else →
#     the same `match` with `.panic` in the `none` arm;
#   * `for _i in a..b { body }`  →  `match iFor (<fn>BodyGen params) (b - a) <state> with …`: the
#     range is evaluated once, the STATE is the tuple of the locals the body assigns (ordered by
#     type — Nat, Bool, Char, Str, Option, List — then by declaration, so neither a renamed local
#     nor reordered declarations change it); the body becomes a definition of its own with the
#     leaves `.next state` (end of the body), `.brk state` (`break`), `.err kind`, `.panic`;
#   * `loop { body }`            →  the same with `iLoop` and the fuel given in the configuration
#     (running out of fuel is `.panic`: the equality theorem shows it never happens);
#   * `Instruction { meta_info, instruction_type: X }` → `X` (the model has no meta info here).
# =============================================================================================

FPRELUDE = {
    "dropPrefixes": "/-- `str::trim_start_matches(\"p\")` for a non-empty literal `p`: the prefix `p` removed as often as it\n"
                    "    occurs (at most `l.length` times) -/\n"
                    "def dropPrefixes (p : Str) : Nat → Str → Str\n  | 0, l => l\n"
                    "  | n + 1, l => if p.isPrefixOf l then dropPrefixes p n (l.drop p.length) else l\n\n",
}

def camel(name):
    parts = name.strip("_").split("_")
    out = parts[0] + "".join(q.capitalize() for q in parts[1:])
    if out in ("end", "at", "from", "meta", "open", "then", "do", "fun", "let", "have", "show", "by", "in", "with", "match", "if", "else", "where", "def", "at", "s"):
        out += "_"
    return out

def fn_signature(src, name):
    """(parameters as [(name, type text without blanks)], return type text) of `fn name`"""
    m = re.search(r"fn %s\s*\(" % re.escape(name), src)
    if not m: return None
    close = _match_paren(src, m.end() - 1)
    params = []
    depth, cur = 0, ""
    for ch in src[m.end():close] + ",":
        if ch in "<([": depth += 1
        elif ch in ">)]": depth -= 1
        if ch == "," and depth == 0:
            if cur.strip():
                if ":" not in cur: fail("parameter without a type in %s" % name)
                n, t = cur.split(":", 1)
                params.append((n.strip(), re.sub(r"\s+", "", t)))
            cur = ""
        else:
            cur += ch
    brace = src.index("{", close)
    ret = re.sub(r"\s+", "", src[close + 1:brace])
    if ret.startswith("->"): ret = ret[2:]
    return params, ret

def constants(src):
    """`static NAME: type = literal;` / `const NAME: type = literal;` at the top level"""
    out = {}
    for m in re.finditer(r"^(?:pub\s+)?(?:static|const)\s+([A-Z_0-9]+)\s*:\s*([^=]+?)\s*=\s*(.+?);\s*$", src, re.M):
        toks = tokenize(m.group(3))
        if len(toks) == 1 and toks[0][0] == "char": out[m.group(1)] = ("char", unescape(toks[0][1][1:-1]))
        elif len(toks) == 1 and toks[0][0] == "str": out[m.group(1)] = ("lit_str", unescape(toks[0][1][1:-1]))
        elif len(toks) == 1 and toks[0][0] == "num": out[m.group(1)] = ("num", int(toks[0][1]))
    return out

# ------------------------------------------------------------------ parser of the fourth executor

def fparse_block(text):
    p = P(tokenize(text))
    b = _fblock(p)
    if p.peek()[0] != "eof": fail("trailing tokens after the block")
    return b

def _fblock(p):
    p.take("{")
    out = []
    while not p.at("}"):
        out.append(_fstmt(p))
    p.take("}")
    return out

def _fend(p, in_arm=False):
    if in_arm: return False
    if p.at(";"):
        p.take(); return True
    if p.at("}"): return False
    fail("expected `;`, found %r" % (p.peek()[1],))

def _fskip_type(p):
    depth = 0
    while True:
        t = p.peek()
        if t[0] == "eof": fail("unterminated type annotation")
        if depth == 0 and t[1] in ("=", ";"): return
        if t[1] in ("<", "(", "["): depth += 1
        if t[1] in (">", ")", "]"): depth -= 1
        p.take()

def _fstmt(p, in_arm=False):
    if p.at("let"):
        p.take()
        mut = False
        if p.at("mut"):
            p.take(); mut = True
        if p.at("("):
            p.take(); names = []
            while not p.at(")"):
                t = p.take()
                if t[0] != "id": fail("unsupported `let` pattern")
                names.append(t[1])
                if p.at(","): p.take()
            p.take(")")
            pat = ("ptuple", names)
        else:
            t = p.take()
            if t[0] != "id": fail("unsupported `let` pattern")
            pat = ("pid", t[1])
        if p.at(":"):
            p.take(); _fskip_type(p)
        if not p.at("="): fail("`let` without an initial value")
        p.take("=")
        e = _fexpr(p)
        p.take(";")
        return ("let", pat, mut, e)
    if p.at("if"):
        s = _fif(p)
        if p.at(";"): p.take()
        return s
    if p.at("match"):
        s = _fmatch(p)
        if p.at(";"): p.take()
        return ("match",) + s
    if p.at("for"):
        p.take(); x = p.take()
        if x[1] == "(":                       # `for (k, v) in m` (fifth executor only)
            names = []
            while not p.at(")"):
                t = p.take()
                if t[0] != "id": fail("unsupported `for` pattern")
                names.append(t[1])
                if p.at(","): p.take()
            p.take(")"); p.take("in")
            return ("foreach", names, _fexpr(p, nostruct=True), _fblock(p))
        if x[0] != "id": fail("unsupported `for` pattern")
        p.take("in")
        saved = _NOSTRUCT[0]; _NOSTRUCT[0] = True
        try: lo = _fexpr_add(p)
        finally: _NOSTRUCT[0] = saved
        if not p.at(".."):                    # `for x in xs` (fifth executor only)
            return ("foreach", [x[1]], lo, _fblock(p))
        p.take(".."); hi = _fexpr_add(p)
        return ("for", x[1], lo, hi, _fblock(p))
    if p.at("loop"):
        p.take()
        return ("loop", _fblock(p))
    if p.at("while"):
        fail("`while` is outside the subset")
    if p.at("break"):
        p.take(); _fend(p, in_arm)
        return ("break",)
    if p.at("continue"):
        fail("`continue` is outside the subset")
    if p.at("return"):
        p.take(); e = _fexpr(p); _fend(p, in_arm)
        return ("return", e)
    e = _fexpr(p)
    if p.at("=") or p.at("+=") or p.at("-="):
        op = p.take()[1]
        if e[0] == "id": target = e[1]
        elif e[0] == "field" and e[1][0] == "id": target = e[1][1] + "." + e[2]
        elif e[0] == "field" and _fpath(e) is not None: target = _fpath(e)      # `a.b.c = ..` (fifth executor)
        else: fail("assignment to something that is neither a local nor a field of a local")
        rhs = _fexpr(p)
        _fend(p, in_arm)
        return ("assign", target, op, rhs)
    if in_arm: return ("expr", e)
    if _fend(p): return ("exprstmt", e)
    return ("expr", e)

def _fpath(e):
    if e[0] == "id": return e[1]
    if e[0] == "field":
        b = _fpath(e[1])
        return None if b is None else b + "." + e[2]
    return None

def _fif(p):
    p.take("if")
    if p.at("let"):
        p.take(); pat = _fpat(p); p.take("=")
        e = _fexpr(p, nostruct=True)
        then = _fblock(p)
        els = None
        if p.at("else"):
            p.take(); els = [_fif(p)] if p.at("if") else _fblock(p)
        return ("iflet", pat, e, then, els)
    cond = _fexpr(p, nostruct=True)
    then = _fblock(p)
    els = None
    if p.at("else"):
        p.take(); els = [_fif(p)] if p.at("if") else _fblock(p)
    return ("if", cond, then, els)

def _fmatch(p):
    p.take("match")
    scrut = _fexpr(p, nostruct=True)
    p.take("{")
    arms = []
    while not p.at("}"):
        pat = _fpat(p)
        p.take("=>")
        if p.at("{"):
            body = _fblock(p)
            if p.at(","): p.take()
        else:
            body = [_fstmt(p, in_arm=True)]
            if p.at(","): p.take()
            elif not p.at("}"): fail("expected `,` after a match arm")
        arms.append((pat, body))
    p.take("}")
    return (scrut, arms)

def _fpat(p):
    t = p.take()
    if t[0] != "id": fail("unsupported pattern %r" % (t[1],))
    if t[1] == "_": return ("pwild",)
    if t[1] == "None": return ("pnone",)
    if p.at("::"):
        # `Enum::Variant` / `Enum::Variant(x, _, ref y)` (fifth executor)
        p.take(); v = p.take()
        if v[0] != "id": fail("unsupported path pattern")
        subs = []
        if p.at("("):
            p.take()
            while not p.at(")"):
                x = p.take()
                if x[1] == "ref": x = p.take()
                if x[0] != "id" or x[1] == "mut": fail("unsupported pattern inside %s::%s(..)" % (t[1], v[1]))
                subs.append(x[1])
                if p.at(","): p.take()
                elif not p.at(")"): fail("unsupported pattern inside %s::%s(..)" % (t[1], v[1]))
            p.take(")")
        return ("penum", t[1], v[1], subs)
    if t[1] in ("Ok", "Err", "Some") and p.at("("):
        p.take()
        if p.at("("):
            p.take(); names = []
            while not p.at(")"):
                x = p.take()
                if x[0] != "id": fail("unsupported tuple pattern")
                names.append(x[1])
                if p.at(","): p.take()
            p.take(")"); p.take(")")
            if t[1] != "Ok": fail("tuple pattern inside %s(..)" % t[1])
            return ("poktuple", names)
        x = p.take()
        if x == ("id", "ref") and p.peek()[0] == "id" and p.peek()[1] != "mut": x = p.take()   # `Some(ref v)`: a borrow of the same value
        if x[0] != "id": fail("unsupported pattern inside %s(..)" % t[1])
        if p.at("mut"): fail("`mut` binding in a pattern")
        p.take(")")
        return ({"Ok": "pok", "Err": "perr", "Some": "psome"}[t[1]], x[1])
    fail("unsupported pattern %r" % (t[1],))

_NOSTRUCT = [False]

def _fexpr(p, nostruct=False):
    saved = _NOSTRUCT[0]
    _NOSTRUCT[0] = nostruct
    try:
        a = _fexpr_and(p)
        while p.at("||"):
            p.take(); a = ("bin", "||", a, _fexpr_and(p))
        return a
    finally:
        _NOSTRUCT[0] = saved

def _fexpr_and(p):
    a = _fexpr_cmp(p)
    while p.at("&&"):
        p.take(); a = ("bin", "&&", a, _fexpr_cmp(p))
    return a

def _fexpr_cmp(p):
    a = _fexpr_add(p)
    if p.peek()[1] in ("==", "!=", "<", ">", "<=", ">="):
        op = p.take()[1]
        return ("bin", op, a, _fexpr_add(p))
    return a

def _fexpr_add(p):
    a = _fexpr_unary(p)
    while p.peek()[1] in ("+", "-"):
        op = p.take()[1]; a = ("bin", op, a, _fexpr_unary(p))
    return a

def _fexpr_unary(p):
    if p.at("!"):
        p.take(); return ("not", _fexpr_unary(p))
    if p.at("&"):
        p.take()
        if p.at("mut"):
            p.take(); return ("refmut", _fexpr_unary(p))
        return _fexpr_unary(p)
    if p.at("*"):
        p.take(); return _fexpr_unary(p)
    return _fexpr_postfix(p)

def _fargs(p, open_="(", close=")"):
    p.take(open_)
    saved = _NOSTRUCT[0]; _NOSTRUCT[0] = False
    args = []
    while not p.at(close):
        args.append(_fexpr(p))
        if p.at(","): p.take()
        elif not p.at(close): fail("expected `,` or `%s` in an argument list" % close)
    p.take(close)
    _NOSTRUCT[0] = saved
    return args

def _fexpr_postfix(p):
    e = _fexpr_primary(p)
    while True:
        if p.at("."):
            p.take(); m = p.take()
            if m[0] == "num":
                e = ("proj", e, int(m[1]))
            elif m[0] != "id": fail("unsupported field access")
            elif p.at("::", "<") and p.peek(2)[0] == "id" and p.peek(3)[1] == ">" and p.peek(4)[1] == "(":
                p.take(); p.take(); ty = p.take()[1]; p.take(">")      # `.parse::<i32>()` (fifth executor)
                e = ("method", e, "%s::<%s>" % (m[1], ty), _fargs(p))
            elif p.at("("):
                e = ("method", e, m[1], _fargs(p))
            else:
                e = ("field", e, m[1])
        elif p.at("["):
            p.take()
            saved = _NOSTRUCT[0]; _NOSTRUCT[0] = False
            i = _fexpr(p)
            _NOSTRUCT[0] = saved
            if p.at(".."): fail("slicing is outside the subset")
            p.take("]")
            e = ("index", e, i)
        elif p.at("?"):
            p.take()
            e = ("try", e)
        else:
            return e

def _fexpr_primary(p):
    tok = p.take()
    if tok[0] == "str": return ("lit_str", unescape(tok[1][1:-1]))
    if tok[0] == "char": return ("char", unescape(tok[1][1:-1]))
    if tok[0] == "num": return ("num", int(tok[1]))
    if tok[1] == "(" and p.at(")"):
        p.take(); return ("tuple", [])
    if tok[1] == "|":                          # a closure `|a, b| e` (fifth executor only: `retain`)
        names = []
        while not p.at("|"):
            if p.at("&"): p.take()
            t = p.take()
            if t[0] != "id": fail("unsupported closure parameter")
            names.append(t[1])
            if p.at(","): p.take()
        p.take("|")
        if p.at("{"): fail("a closure with a block body")
        return ("closure", names, _fexpr(p))
    if tok[1] == "(":
        if p.at(")"):
            p.take(); return ("tuple", [])
        saved = _NOSTRUCT[0]; _NOSTRUCT[0] = False
        e = _fexpr(p)
        if p.at(","):
            items = [e]
            while p.at(","):
                p.take()
                if p.at(")"): break
                items.append(_fexpr(p))
            e = ("tuple", items)
        p.take(")")
        _NOSTRUCT[0] = saved
        return e
    if tok[1] == "if":
        p.i -= 1
        s = _fif(p)
        return ("ifexpr", s)
    if tok[1] == "match":
        p.i -= 1
        return ("matchexpr",) + _fmatch(p)
    if tok[0] != "id": fail("unsupported expression starting with %r" % (tok[1],))
    name = tok[1]
    if name in ("true", "false"): return ("bool", name == "true")
    if name == "None": return ("none",)
    if name in ("Some", "Ok", "Err") and p.at("("):
        args = _fargs(p)
        if len(args) != 1: fail("%s(..) takes one argument" % name)
        return ({"Some": "some", "Ok": "ok", "Err": "errc"}[name], args[0])
    if p.at("::"):
        p.take(); v = p.take()[1]
        if p.at("("): return ("pathcall", name, v, _fargs(p))
        return ("path", name, v)
    if p.at("!") and p.peek(1)[1] in ("(", "["):
        p.take()
        return ("macro", name, _fargs(p) if p.at("(") else _fargs(p, "[", "]"))
    if p.at("("):
        return ("call", name, _fargs(p))
    if p.at("{") and not _NOSTRUCT[0] and name[0].isupper():
        p.take(); fields = []
        while not p.at("}"):
            f = p.take()
            if f[0] != "id": fail("unsupported struct literal")
            if p.at(":"):
                p.take(); fields.append((f[1], _fexpr(p)))
            else:
                fields.append((f[1], ("id", f[1])))
            if p.at(","): p.take()
            elif not p.at("}"): fail("expected `,` in a struct literal")
        p.take("}")
        return ("struct", name, fields)
    return ("id", name)

# ------------------------------------------------------------------ values of the fourth executor
#
#   ("nat", base | None, off)          ("cond", tree)          ("char", lean text)
#   ("str", [("lit", s) | ("e", lean text)])                  ("opt", elem type | None, state)
#        state = ("none",) | ("some", value) | ("opaque", lean text)
#   ("list", elem type, lean text)     ("tuple", [values])     ("struct", rust name, {field: value})
#   ("callres", lean text, callee)     ("err", lean text)      ("ity", lean text)  (InstructionType)
#   ("res_ok", value) / ("res_err", value)                     ("dropped",)  (meta info)
# cond trees:  T | F | ("b", Bool text) | ("p", Prop text) | ("not", c) | ("and", a, b) | ("or", a, b)

RANK = {"Nat": 0, "Bool": 1, "Char": 2, "Str": 3}

def ftype(v):
    k = v[0]
    if k == "nat": return "Nat"
    if k == "cond": return "Bool"
    if k == "char": return "Char"
    if k == "str": return "Str"
    if k == "opt":
        t = v[1]
        if t is None and v[2][0] == "some": t = ftype(v[2][1])
        return None if t is None else "Option %s" % _par(t)
    if k == "list": return None if v[1] is None else "List %s" % _par(v[1])
    if k == "ity": return "InstrType"
    if k == "tuple":
        ts = [ftype(x) for x in v[1]]
        return None if None in ts else " × ".join(_par(t) if "×" in t else t for t in ts)
    fail("a value of kind %s has no Lean type here" % k)

def frank(t):
    if t in RANK: return RANK[t]
    if t is None or t.startswith("Option"): return 4
    return 5

def fnat(v):
    base, off = v[1], v[2]
    if base is None: return str(off)
    if off == 0: return base
    if off > 0: return "%s + %d" % (base, off)
    fail("negative offset")

def fstr(v):
    parts = []
    for kind, x in v[1]:
        if kind == "lit" and parts and parts[-1][0] == "lit": parts[-1] = ("lit", parts[-1][1] + x)
        elif kind == "lit" and x == "": continue
        else: parts.append((kind, x))
    if not parts: return "[]"
    out = []
    for kind, x in parts:
        out.append("[%s]" % ", ".join(lean_char(c) for c in x) if kind == "lit" else x)
    return " ++ ".join(_fpar(x) if len(out) > 1 else x for x in out)

def _fpar(s):
    if re.match(r"^[\w.'!]+$", s) and not s.startswith("!"): return s
    if s[0] == "[" and s.endswith("]") and s.count("[") == 1: return s
    if s[0] == "(" and _match_paren(s, 0) == len(s) - 1: return s
    if s[0] == "{" and s.endswith("}"): return s
    return "(%s)" % s

def fcond_bool(c):
    """a condition as a Lean `Bool` term"""
    if c == T: return "true"
    if c == F: return "false"
    k = c[0]
    if k == "b": return c[1]
    if k == "p": return "decide (%s)" % c[1]
    if k == "not": return "!%s" % _fpar(fcond_bool(c[1]))
    return "(%s %s %s)" % (fcond_bool(c[1]), "&&" if k == "and" else "||", fcond_bool(c[2]))

def fcond_prop(c):
    """a condition as the condition of a Lean `if`"""
    k = c[0]
    if c == T: return "True"
    if c == F: return "False"
    if k == "b": return c[1]
    if k == "p": return c[1]
    if k == "not":
        a = c[1]
        if a[0] == "b": return "%s = false" % a[1] if re.match(r"^[\w.']+$", a[1]) else "(%s) = false" % a[1]
        if a[0] == "p" and a[2:] and a[2][0] in ("=",):
            return "%s ≠ %s" % (a[2][1], a[2][2])
        return "¬ (%s)" % fcond_prop(a)
    a, b = fcond_prop(c[1]), fcond_prop(c[2])
    if c[1][0] in ("and", "or") and c[1][0] != k: a = "(%s)" % a
    if c[2][0] in ("and", "or") and c[2][0] != k: b = "(%s)" % b
    return a + (" ∧ " if k == "and" else " ∨ ") + b

def fval(v):
    """a value as a Lean term"""
    k = v[0]
    if k == "nat": return fnat(v)
    if k == "cond": return fcond_bool(v[1])
    if k == "char": return v[1]
    if k == "str": return fstr(v)
    if k == "opt":
        st = v[2]
        if st[0] == "none": return "none"
        if st[0] == "some": return "some %s" % _fpar(fval(st[1]))
        return st[1]
    if k == "list": return v[2]
    if k == "tuple": return "(%s)" % ", ".join(fval(x) for x in v[1])
    if k in ("err", "ity"): return v[1]
    fail("a value of kind %s cannot be rendered" % k)

class FConfig:
    def __init__(self, consts, errors, structs, variants, callees, types, loop_fuel, wrappers):
        """consts: Rust constant -> AST literal; errors: ScriptError variant -> Lean PErr constructor;
        structs: Rust struct -> {"fields": [(rust field, lean field, lean type)], "lean": type name};
        variants: (Enum, Variant) -> function from argument values to a value;
        callees: Rust fn -> dict(lean, params [(name, type)], ret, flags) — how a call is rendered;
        types: Rust type text -> Lean type (None = dropped); loop_fuel: Rust fn -> Lean fuel text
        for its `loop`; wrappers: Rust struct names whose literal is rendered as one of its fields"""
        self.consts, self.errors, self.structs, self.variants = consts, errors, structs, variants
        self.callees, self.types, self.loop_fuel, self.wrappers = callees, types, loop_fuel, wrappers
        self.prelude_used = set()      # names of FPRELUDE definitions the translated text uses

class FEnv:
    def __init__(self, vals=None, order=None):
        self.vals, self.order = dict(vals or {}), list(order or [])
    def copy(self):
        return FEnv(self.vals, self.order)
    def declare(self, name, v):
        if name in self.order: self.order.remove(name)
        self.order.append(name)
        self.vals[name] = v
    def set(self, name, v):
        if name not in self.vals: fail("assignment to the undeclared %s" % name)
        self.vals[name] = v

class FCtx:
    def __init__(self, cfg, fn_name, mode, names, leanvars, aux, mutparam=None, state=None, svar=None):
        self.cfg, self.fn_name, self.mode, self.names, self.leanvars, self.aux = cfg, fn_name, mode, names, leanvars, aux
        self.mutparam, self.state, self.svar = mutparam, state, svar
        self.leaf_types = []
    def fresh(self, rust_name, ty):
        base = camel(rust_name) or "x"
        name, k = base, 1
        while name in self.names:
            k += 1; name = "%s%d" % (base, k)
        self.names.add(name)
        self.leanvars.append((name, ty))
        return name
    def sub(self, mode, state, svar):
        c = FCtx(self.cfg, self.fn_name, mode, self.names, self.leanvars, self.aux, self.mutparam, state, svar)
        return c

def fopaque(ty, text):
    """the symbolic value of a Lean variable / expression of the given Lean type"""
    if ty == "Nat": return ("nat", text, 0)
    if ty == "Bool": return ("cond", ("b", text))
    if ty == "Char": return ("char", text)
    if ty == "Str": return ("str", [("e", text)])
    if ty is not None and ty.startswith("Option "):
        inner = ty[len("Option "):]
        if inner.startswith("(") and inner.endswith(")"): inner = inner[1:-1]
        return ("opt", inner, ("opaque", text))
    if ty is not None and ty.startswith("List "):
        inner = ty[len("List "):]
        if inner.startswith("(") and inner.endswith(")"): inner = inner[1:-1]
        return ("list", inner, text)
    if ty == "InstrType": return ("ity", text)
    fail("no symbolic value for the Lean type %s" % ty)

def fstruct_opaque(cfg, sname, text):
    return ("struct", sname, {rf: fopaque(lt, "%s.%s" % (text, lf)) for rf, lf, lt in cfg.structs[sname]["fields"]})

def fstruct_render(cfg, v):
    info = cfg.structs[v[1]]
    return "{ %s }" % ", ".join("%s := %s" % (lf, fval(v[2][rf])) for rf, lf, lt in info["fields"])

class _Guard(Exception):
    """an expression needs a check before it has a value: ("rd", xs, i) | ("decr", i) | ("unwrap", opt text, lvalue)"""
    def __init__(self, what): self.what = what

def flvalue(e):
    if e[0] == "id": return e[1]
    if e[0] == "field" and e[1][0] == "id": return e[1][1] + "." + e[2]
    return None

def fget(name, env, ctx):
    if name in env.vals: return env.vals[name]
    if "." in name:
        base, f = name.split(".", 1)
        if base in env.vals and env.vals[base][0] == "struct" and f in env.vals[base][2]:
            return env.vals[base][2][f]
    if name in ctx.cfg.consts: return feval(ctx.cfg.consts[name], env, ctx)
    fail("unknown variable %s" % name)

def fput(name, v, env):
    if "." in name:
        base, f = name.split(".", 1)
        if base not in env.vals or env.vals[base][0] != "struct" or f not in env.vals[base][2]:
            fail("assignment to the unknown field %s" % name)
        fields = dict(env.vals[base][2]); fields[f] = v
        env.vals[base] = ("struct", env.vals[base][1], fields)
    else:
        env.set(name, v)

def fcmp(op, a, b):
    lop = {"==": "=", "!=": "≠", "<": "<", ">": ">", "<=": "≤", ">=": "≥"}[op]
    if a[0] == "nat" and b[0] == "nat":
        if a[1] is None and b[1] is None:
            return T if {"==": a[2] == b[2], "!=": a[2] != b[2], "<": a[2] < b[2], ">": a[2] > b[2], "<=": a[2] <= b[2], ">=": a[2] >= b[2]}[op] else F
        x, y = fnat(a), fnat(b)
    elif a[0] == "char" and b[0] == "char":
        if op not in ("==", "!="): fail("ordering of characters")
        x, y = a[1], b[1]
    elif a[0] == "str" and b[0] == "str":
        if op not in ("==", "!="): fail("ordering of strings")
        x, y = fstr(a), fstr(b)
    else:
        fail("unsupported comparison")
    if op == "!=": return ("not", ("p", "%s = %s" % (x, y), ("=", x, y)))
    return ("p", "%s %s %s" % (x, lop, y), (lop, x, y))

def feval(e, env, ctx, strict=True):
    cfg = ctx.cfg
    k = e[0]
    if k == "bool": return ("cond", T if e[1] else F)
    if k == "num": return ("nat", None, e[1])
    if k == "char": return ("char", lean_char(e[1]))
    if k == "lit_str": return ("str", [("lit", e[1])])
    if k == "none": return ("opt", None, ("none",))
    if k == "some":
        v = feval(e[1], env, ctx, strict)
        return ("opt", ftype(v), ("some", v))
    if k == "ok": return ("res_ok", feval(e[1], env, ctx, strict))
    if k == "errc": return ("res_err", feval(e[1], env, ctx, strict))
    if k == "tuple": return ("tuple", [feval(x, env, ctx, strict) for x in e[1]])
    if k == "id": return fget(e[1], env, ctx)
    if k == "refmut":
        fail("`&mut` outside a call argument")
    if k == "field":
        name = flvalue(e)
        if name is None: fail("unsupported field access")
        return fget(name, env, ctx)
    if k == "proj":
        v = feval(e[1], env, ctx, strict)
        if v[0] != "tuple" or e[2] >= len(v[1]): fail("unsupported projection")
        return v[1][e[2]]
    if k == "not":
        v = feval(e[1], env, ctx, strict)
        if v[0] != "cond": fail("`!` of a non-boolean")
        return ("cond", _cnot(v[1]))
    if k == "index":
        if not strict: fail("indexing in a short-circuited operand")
        xs, i = feval(e[1], env, ctx), feval(e[2], env, ctx)
        if xs[0] != "str" or i[0] != "nat": fail("unsupported indexing")
        raise _Guard(("rd", fstr(xs), fnat(i), e))
    if k == "bin":
        op = e[1]
        if op in ("&&", "||"):
            a, b = feval(e[2], env, ctx, strict), feval(e[3], env, ctx, False)
            if a[0] != "cond" or b[0] != "cond": fail("`%s` of non-booleans" % op)
            return ("cond", _cand(a[1], b[1]) if op == "&&" else _cor(a[1], b[1]))
        a, b = feval(e[2], env, ctx, strict), feval(e[3], env, ctx, strict)
        if op in ("+", "-"):
            if a[0] != "nat" or b[0] != "nat" or b[1] is not None: fail("unsupported arithmetic")
            if op == "+": return ("nat", a[1], a[2] + b[2])
            if a[2] >= b[2]: return ("nat", a[1], a[2] - b[2])
            if not strict: fail("a subtraction that can underflow in a short-circuited operand")
            if a[1] is None: raise _Guard(("panic",))
            if b[2] - a[2] != 1: fail("subtraction of more than one from an index")
            raise _Guard(("decr", a[1], e))
        return ("cond", fcmp(op, a, b))
    if k == "macro":
        if e[1] == "vec" and not e[2]: return ("list", None, "[]")
        fail("unsupported macro %s!" % e[1])
    if k == "path":
        if (e[1], e[2]) in cfg.variants: return cfg.variants[(e[1], e[2])]([])
        fail("unknown constant %s::%s" % (e[1], e[2]))
    if k == "pathcall":
        if e[2] == "new" and not e[3]:
            if e[1] == "String": return ("str", [])
            if e[1] == "Vec": return ("list", None, "[]")
            if e[1] in cfg.structs:
                return ("struct", e[1], {rf: fdefault(lt) for rf, lf, lt in cfg.structs[e[1]]["fields"]})
            fail("unknown constructor %s::new()" % e[1])
        if e[1] == "ScriptError":
            if e[2] not in cfg.errors: fail("unknown error kind %s" % e[2])
            return ("err", ".%s" % cfg.errors[e[2]])
        if (e[1], e[2]) in cfg.variants:
            return cfg.variants[(e[1], e[2])]([feval(a, env, ctx, strict) for a in e[3]])
        fail("unsupported call %s::%s" % (e[1], e[2]))
    if k == "struct":
        if e[1] in cfg.wrappers:
            for f, x in e[2]:
                if f == cfg.wrappers[e[1]]: return feval(x, env, ctx, strict)
            fail("struct literal %s without the field %s" % (e[1], cfg.wrappers[e[1]]))
        fail("unsupported struct literal %s" % e[1])
    if k == "call":
        return fcall(e, env, ctx, strict)
    if k == "method":
        return fmethod(e, env, ctx, strict)
    if k in ("ifexpr", "matchexpr"):
        fail("`if` / `match` as a sub-expression")
    fail("unsupported expression %r" % (k,))

def fdefault(lt):
    if lt.startswith("Option"): return fopaque_known_none(lt)
    fail("no default for %s" % lt)

def fopaque_known_none(lt):
    v = fopaque(lt, "none")
    return ("opt", v[1], ("none",))

def fcall(e, env, ctx, strict):
    cfg = ctx.cfg
    name, args = e[1], e[2]
    if name not in cfg.callees: fail("call of the unknown function %s" % name)
    cal = cfg.callees[name]
    if len(args) != len(cal["params"]): fail("wrong number of arguments in a call of %s" % name)
    vals, mutarg = {}, None
    for (pn, pt), a in zip(cal["params"], args):
        if pt not in cfg.types: fail("parameter type %s of %s" % (pt, name))
        lt = cfg.types[pt]
        if lt is None: continue                     # meta info: dropped
        if pt.startswith("&mut"):
            if a[0] != "refmut" or a[1][0] != "id": fail("a `&mut` parameter needs `&mut <local>`, or the `&mut` parameter itself")
            mutarg = a[1][1]
            v = fget(mutarg, env, ctx)
            if v[0] != "struct": fail("`&mut` of a non-struct")
            vals[pn] = fstruct_render(cfg, v)
            continue
        if a[0] == "id" and ctx.mutparam == a[1]:
            fail("the `&mut` parameter passed on by value")
        v = feval(a, env, ctx, strict)
        if ftype(v) != lt: fail("argument %s of %s has the type %s, not %s" % (pn, name, ftype(v), lt))
        vals[pn] = fval(v)
    text = cal["render"](vals)
    return ("callres", text, name, mutarg)

def fmethod(e, env, ctx, strict):
    recv, m, args = e[1], e[2], e[3]
    if m in ("clone", "to_string", "to_owned", "as_str", "as_slice", "to_vec") and not args:
        return feval(recv, env, ctx, strict)
    if m == "collect" and not args and recv[0] == "method" and recv[2] == "chars" and not recv[3]:
        v = feval(recv[1], env, ctx, strict)           # `s.chars().collect()`: a string IS its characters
        if v[0] != "str": fail(".chars() of a non-string")
        return v
    r = feval(recv, env, ctx, strict)
    if r[0] == "opt":
        st = r[2]
        if m in ("is_none", "is_some") and not args:
            c = T if st[0] == "none" else F if st[0] == "some" else ("b", "%s.isNone" % _fpar(st[1]))
            return ("cond", c if m == "is_none" else _cnot(c))
        if m == "unwrap" and not args:
            if st[0] == "some": return st[1]
            if not strict: fail("unwrap() in a short-circuited operand")
            if st[0] == "none": raise _Guard(("panic",))
            raise _Guard(("unwrap", r, flvalue(recv), e))
        fail("unsupported method .%s of an Option" % m)
    if r[0] == "str":
        if m == "len" and not args:
            ps = [q for q in r[1] if not (q[0] == "lit" and q[1] == "")]
            if all(q[0] == "lit" for q in ps): return ("nat", None, sum(len(q[1]) for q in ps))
            return ("nat", "%s.length" % _fpar(fstr(r)), 0)
        if m == "is_empty" and not args:
            ps = [q for q in r[1] if not (q[0] == "lit" and q[1] == "")]
            if not ps: return ("cond", T)
            if any(q[0] == "lit" for q in ps): return ("cond", F)
            return ("cond", ("b", "%s.isEmpty" % _fpar(fstr(r))))
        if m in ("trim", "trim_start", "trim_end") and not args:
            return ("str", [("e", "%s %s" % ({"trim": "trim", "trim_start": "trimStart", "trim_end": "trimEnd"}[m], _fpar(fstr(r))))])
        if m in ("trim_start_matches", "starts_with") and len(args) == 1:
            a = feval(args[0], env, ctx, strict)
            if m == "starts_with":
                pre = "[%s]" % a[1] if a[0] == "char" else fstr(a) if a[0] == "str" else fail("starts_with of an unsupported pattern")
                return ("cond", ("b", "%s.isPrefixOf %s" % (_fpar(pre), _fpar(fstr(r)))))
            if a[0] == "char":
                return ("str", [("e", "%s.dropWhile (fun c => c == %s)" % (_fpar(fstr(r)), a[1]))])
            if a[0] == "str" and a[1] and all(q[0] == "lit" for q in a[1]) and fstr(a) != "[]":
                ctx.cfg.prelude_used.add("dropPrefixes")
                return ("str", [("e", "dropPrefixes %s %s.length %s" % (_fpar(fstr(a)), _fpar(fstr(r)), _fpar(fstr(r))))])
            fail("trim_start_matches of an unsupported pattern")
        if m == "trim_end_matches" and len(args) == 1:
            a = feval(args[0], env, ctx, strict)
            if a[0] == "char":
                return ("str", [("e", "(%s.reverse.dropWhile (fun c => c == %s)).reverse" % (_fpar(fstr(r)), a[1]))])
            fail("trim_end_matches of an unsupported pattern")
        fail("unsupported method .%s of a string" % m)
    if r[0] == "list":
        if m == "is_empty" and not args:
            if r[2] == "[]": return ("cond", T)
            return ("cond", ("b", "%s.isEmpty" % _fpar(r[2])))
        if m == "len" and not args: return ("nat", "%s.length" % _fpar(r[2]), 0)
        fail("unsupported method .%s of a vector" % m)
    fail("unsupported method .%s" % m)

# ------------------------------------------------------------------ execution of the fourth executor

def fassigned(stmts, out):
    """targets assigned (or pushed into) anywhere in the statements, in order of appearance"""
    def add(n):
        if n not in out: out.append(n)
    def expr(e):
        if isinstance(e, tuple):
            if e and e[0] == "call":
                for a in e[2]:
                    if a[0] == "refmut" and a[1][0] == "id": add(a[1][1] + ".*")
            if e and e[0] in ("ifexpr",): stmt(e[1])
            if e and e[0] == "matchexpr":
                for _, b in e[2]: fassigned(b, out)
            for x in e: expr(x)
        elif isinstance(e, list):
            for x in e: expr(x)
    def stmt(s):
        k = s[0]
        if k == "assign": add(s[1]); expr(s[3])
        elif k == "let": expr(s[3])
        elif k == "if": expr(s[1]); fassigned(s[2], out); fassigned(s[3] or [], out)
        elif k == "iflet": expr(s[2]); fassigned(s[3], out); fassigned(s[4] or [], out)
        elif k == "match":
            expr(s[1])
            for _, b in s[2]: fassigned(b, out)
        elif k in ("for",): fassigned(s[4], out)
        elif k == "loop": fassigned(s[1], out)
        elif k in ("exprstmt", "expr", "return"):
            e = s[1]
            if k == "exprstmt" and e[0] == "method" and e[2] in ("push", "push_str", "clear", "append", "insert", "pop", "remove", "reverse", "truncate"):
                n = flvalue(e[1])
                if n: add(n)
            expr(e)
    for s in stmts: stmt(s)
    return out

def ftranslate_fn(src, name, cfg, lean_name, aux_prefix):
    """returns the Lean text of the definitions translated from `fn name` (loop bodies first)"""
    sig = fn_signature(src, name)
    body = fn_body(src, name)
    if sig is None or body is None: fail("%s not found" % name)
    params, ret = sig
    if ret not in cfg.types or cfg.types[ret] is None: fail("return type %s of %s" % (ret, name))
    stmts = fparse_block(body)
    names, leanvars, aux = set(["s"]), [], []
    ctx = FCtx(cfg, name, "fn", names, leanvars, aux)
    ctx.aux_prefix = aux_prefix
    env = FEnv()
    lparams = []
    for pn, pt in params:
        if pt not in cfg.types: fail("parameter type %s of %s" % (pt, name))
        lt = cfg.types[pt]
        if lt is None:
            env.declare(pn, ("dropped",)); continue
        if pt.startswith("&mut"):
            if ctx.mutparam is not None: fail("two `&mut` parameters")
            sname = pt[len("&mut"):]
            ln = ctx.fresh(pn, lt)
            ctx.mutparam = pn
            env.declare(pn, fstruct_opaque(cfg, sname, ln))
        else:
            ln = ctx.fresh(pn, lt)
            env.declare(pn, fopaque(lt, ln))
        lparams.append("(%s : %s)" % (ln, lt))
    ctx.ret = cfg.types[ret]
    tree = fexec(stmts, env, ctx)
    rt = ctx.ret
    if ctx.mutparam is not None:
        rt = "%s × %s" % (_par(rt) if "×" in rt else rt, cfg.structs[[pt for pn, pt in params if pn == ctx.mutparam][0][len("&mut"):]]["lean"])
    text = "".join(aux)
    text += "/-- `%s` -/\n" % name
    text += "def %s %s : IOut %s :=\n%s\n" % (lean_name, " ".join(lparams), _par(rt), frender(tree, 1))
    return text

def fexec(stmts, env, ctx):
    if not stmts:
        if ctx.mode == "loop": return ("leaf", ".next %s" % fstate(env, ctx))
        fail("control reaches the end of %s without a result" % ctx.fn_name)
    s, rest = stmts[0], stmts[1:]
    env = env.copy()
    try:
        return fexec1(s, rest, env, ctx)
    except _Guard as g:
        w = g.what
        if w[0] == "panic":
            return ("leaf", ".panic")
        if w[0] == "rd":
            var = ctx.fresh(_hint(s, w[3]) or "c", "Char")
            return ("matchrd", w[1], w[2], var, fexec([_subst(s, w[3], ("leanvar", var, "Char"))] + rest, env, ctx))
        if w[0] == "decr":
            var = ctx.fresh("i", "Nat")
            return ("matchdecr", w[1], var, fexec([_subst(s, w[2], ("leanvar", var, "Nat"))] + rest, env, ctx))
        if w[0] == "unwrap":
            r, lv, ex = w[1], w[2], w[3]
            var = ctx.fresh("v", r[1])
            known = ("opt", r[1], ("some", fopaque(r[1], var)))
            e2 = env.copy()
            if lv is not None: fput_any(lv, known, e2)
            return ("matchopt", r[2][1], var, fexec([_subst(s, ex, ("leanvar", var, r[1]))] + rest, e2, ctx), ("leaf", ".panic"))
        raise

def fput_any(name, v, env):
    if name in env.vals or "." in name: fput(name, v, env)

def _hint(s, ex):
    """the Rust name the checked value is bound to, if the statement is `let x = <ex>;`"""
    if s[0] == "let" and s[1][0] == "pid" and s[3] is ex: return s[1][1]
    return None

def _subst(node, target, repl):
    """the AST with the sub-expression `target` (by identity) replaced"""
    if node is target: return repl
    if isinstance(node, tuple): return tuple(_subst(x, target, repl) for x in node)
    if isinstance(node, list): return [_subst(x, target, repl) for x in node]
    return node

_feval0 = feval
def feval(e, env, ctx, strict=True):
    if e[0] == "leanvar": return fopaque(e[2], e[1])
    return _feval0(e, env, ctx, strict)

def fstate(env, ctx):
    vals = [fget(n, env, ctx) for n in ctx.state]
    ctx.leaf_types.append([ftype(v) for v in vals])
    return ftuple([fval(v) for v in vals])

def ftuple(items):
    return items[0] if len(items) == 1 else "(%s)" % ", ".join(items)

def fproj(var, k, n):
    if n == 1: return var
    if k < n - 1: return "%s%s.1" % (var, ".2" * k)
    return "%s%s" % (var, ".2" * k)

def fresult(e, env, ctx):
    """the value of the function: Ok(..) / Err(..) / a call passed on"""
    if ctx.mode == "loop":
        v = feval(e, env, ctx)
        if v[0] == "res_err" and v[1][0] == "err": return ("leaf", ".err %s" % v[1][1])
        fail("a loop body can only leave the function with `return Err(..)`")
    if e[0] in ("ifexpr",): return fexec([e[1]], env, ctx)
    if e[0] == "matchexpr": return fexec([("match", e[1], e[2])], env, ctx)
    v = feval(e, env, ctx)
    if v[0] == "res_err":
        if v[1][0] != "err": fail("Err(..) of something that is not an error")
        return ("leaf", ".err %s" % v[1][1])
    if v[0] == "res_ok":
        return ("leaf", ".ok %s" % _fpar(fwith_mut(v[1], env, ctx)))
    if v[0] == "callres":
        cal = ctx.cfg.callees[v[2]]
        if cal["ret"] != ctx.ret or v[3] is not None or ctx.mutparam is not None:
            fail("the result of %s passed on with a different type" % v[2])
        return ("leaf", v[1])
    fail("unsupported result expression")

def fwith_mut(v, env, ctx):
    if ftype(v) is None: v = fcoerce(v, ctx.ret)
    if ftype(v) != ctx.ret: fail("the result has the type %s, not %s" % (ftype(v), ctx.ret))
    if ctx.mutparam is None: return fval(v)
    return "(%s, %s)" % (fval(v), fstruct_render(ctx.cfg, fget(ctx.mutparam, env, ctx)))

def fcoerce(v, ty):
    """gives `None` / `vec![]` / tuples containing them the expected type"""
    if v[0] == "opt" and v[1] is None and ty.startswith("Option "): return ("opt", fopaque(ty, "x")[1], v[2])
    if v[0] == "list" and v[1] is None and ty.startswith("List "): return ("list", fopaque(ty, "x")[1], v[2])
    if v[0] == "tuple":
        parts = _split_prod(ty)
        if len(parts) == len(v[1]): return ("tuple", [fcoerce(x, t) if ftype(x) is None else x for x, t in zip(v[1], parts)])
    return v

def _split_prod(ty):
    out, depth, cur = [], 0, ""
    for ch in ty:
        if ch == "(": depth += 1
        if ch == ")": depth -= 1
        if ch == "×" and depth == 0:
            out.append(cur.strip()); cur = ""
        else: cur += ch
    out.append(cur.strip())
    return [t[1:-1] if t.startswith("(") and t.endswith(")") and "×" in t else t for t in out]

def fsplit_opt(target_expr, env, ctx):
    """(opaque option value, lvalue) if the expression is an lvalue holding an opaque option"""
    lv = flvalue(_strip_clone(target_expr))
    if lv is None: return None
    try:
        v = fget(lv, env, ctx)
    except SystemExit:
        return None
    if v[0] == "opt" and v[2][0] == "opaque": return v, lv
    return None

def _strip_clone(e):
    while e[0] == "method" and e[2] in ("clone", "as_ref", "to_owned") and not e[3]: e = e[1]
    return e

def fexec1(s, rest, env, ctx):
    cfg = ctx.cfg
    k = s[0]
    if k == "let":
        pat, e = s[1], s[3]
        if e[0] == "ifexpr":
            i = e[1]
            def tail(block):
                if block is None: fail("`if` expression without `else`")
                if len(block) == 1 and block[0][0] in ("if", "iflet"): return [_lift_if(block[0], tail)]
                if not block or block[-1][0] != "expr": fail("`if` expression without a value")
                return list(block[:-1]) + [("let", pat, s[2], block[-1][1])]
            return fexec([_lift_if(i, tail)] + rest, env, ctx)
        if e[0] == "matchexpr":
            arms = [(p_, _arm_tail(b, lambda x: ("let", pat, s[2], x))) for p_, b in e[2]]
            return fexec([("match", e[1], arms)] + rest, env, ctx)
        if e[0] == "try":
            # let x = f(..)?;   ==>   match f(..) { Ok(t) => { let x = t; .. }, Err(e) => return Err(e) }
            arms = [(("pok", "tried"), [("let", pat, s[2], ("id", "tried"))]), (("perr", "error"), [("return", ("errc", ("id", "error")))])]
            return fexec([("match", e[1], arms)] + rest, env, ctx)
        v = feval(e, env, ctx)
        if pat[0] == "ptuple":
            if v[0] != "tuple" or len(v[1]) != len(pat[1]): fail("`let (..) =` of something that is not a tuple of that size")
            for n, x in zip(pat[1], v[1]): env.declare(n, x)
        else:
            if v[0] in ("callres", "res_ok", "res_err"): fail("a `Result` kept in a local")
            env.declare(pat[1], v)
        return fexec(rest, env, ctx)
    if k == "assign":
        name, op, rhs = s[1], s[2], s[3]
        if op == "=" and rhs[0] == "matchexpr":
            arms = [(p_, _arm_tail(b, lambda x: ("assign", name, "=", x))) for p_, b in rhs[2]]
            return fexec([("match", rhs[1], arms)] + rest, env, ctx)
        if op == "=" and rhs[0] == "try":
            arms = [(("pok", "tried"), [("assign", name, "=", ("id", "tried"))]), (("perr", "error"), [("return", ("errc", ("id", "error")))])]
            return fexec([("match", rhs[1], arms)] + rest, env, ctx)
        if op == "=" and rhs[0] == "ifexpr":
            def tail(block):
                if block is None: fail("`if` expression without `else`")
                if len(block) == 1 and block[0][0] in ("if", "iflet"): return [_lift_if(block[0], tail)]
                if not block or block[-1][0] != "expr": fail("`if` expression without a value")
                return list(block[:-1]) + [("assign", name, "=", block[-1][1])]
            return fexec([_lift_if(rhs[1], tail)] + rest, env, ctx)
        if op != "=":
            return fexec([("assign", name, "=", ("bin", op[0], _lv_expr(name), rhs))] + rest, env, ctx)
        v = feval(rhs, env, ctx)
        old = fget(name, env, ctx)
        if v[0] in ("callres", "res_ok", "res_err", "struct", "dropped"): fail("unsupported assignment to %s" % name)
        to, tn = ftype(old), ftype(v)
        if to is not None and tn is None: v = fcoerce(v, to); tn = ftype(v)
        if to is not None and tn is not None and to != tn: fail("ill-typed assignment to %s (%s := %s)" % (name, to, tn))
        fput(name, v, env)
        return fexec(rest, env, ctx)
    if k == "exprstmt":
        e = s[1]
        if e[0] == "method" and e[2] in ("push", "push_str") and len(e[3]) == 1:
            name = flvalue(e[1])
            if name is None: fail("push into something that is not a local")
            old = fget(name, env, ctx)
            a = feval(e[3][0], env, ctx)
            if old[0] == "str" and e[2] == "push" and a[0] == "char":
                m = re.match(r"^'(\\.|[^'\\])'$", a[1])
                piece = ("lit", unescape(a[1][1:-1])) if m and not a[1].startswith("'\\x") else ("e", "[%s]" % a[1])
                fput(name, ("str", old[1] + [piece]), env)
            elif old[0] == "str" and e[2] == "push_str" and a[0] == "str":
                fput(name, ("str", old[1] + a[1]), env)
            elif old[0] == "list" and e[2] == "push":
                t = ftype(a)
                if old[1] is not None and old[1] != t: fail("push of a %s into a vector of %s" % (t, old[1]))
                text = "[%s]" % fval(a) if old[2] == "[]" else "%s ++ [%s]" % (_fpar(old[2]), fval(a))
                fput(name, ("list", t, text), env)
            else:
                fail("unsupported %s into %s" % (e[2], name))
            return fexec(rest, env, ctx)
        fail("an expression statement without an effect the subset knows")
    if k == "if":
        cond = s[1]
        neg, c0 = False, cond
        while c0[0] == "not":
            neg, c0 = not neg, c0[1]
        if c0[0] == "method" and c0[2] in ("is_none", "is_some") and not c0[3]:
            sp = fsplit_opt(c0[1], env, ctx)
            if sp is not None:
                v, lv = sp
                some_first = (c0[2] == "is_some") != neg
                var = ctx.fresh("v", v[1])
                e_some, e_none = env.copy(), env.copy()
                fput(lv, ("opt", v[1], ("some", fopaque(v[1], var))), e_some)
                fput(lv, ("opt", v[1], ("none",)), e_none)
                t_some = fexec(list(s[2] if some_first else (s[3] or [])) + rest, e_some, ctx)
                t_none = fexec(list((s[3] or []) if some_first else s[2]) + rest, e_none, ctx)
                return ("matchopt", v[2][1], var, t_some, t_none)
        c = feval(cond, env, ctx)
        if c[0] != "cond": fail("non-boolean condition")
        if c[1] == T: return fexec(list(s[2]) + rest, env, ctx)
        if c[1] == F: return fexec(list(s[3] or []) + rest, env, ctx)
        return ("ite", c[1], fexec(list(s[2]) + rest, env.copy(), ctx), fexec(list(s[3] or []) + rest, env.copy(), ctx))
    if k == "iflet":
        pat, e = s[1], s[2]
        if pat[0] != "psome": fail("`if let` with a pattern other than Some(x)")
        return fmatch_opt(e, [(pat, s[3]), (("pwild",), s[4] or [])], rest, env, ctx)
    if k == "match":
        scrut, arms = s[1], s[2]
        kinds = set(p_[0] for p_, _ in arms)
        if kinds & {"pok", "perr", "poktuple"}:
            return fmatch_call(scrut, arms, rest, env, ctx)
        if kinds & {"psome", "pnone"}:
            return fmatch_opt(scrut, arms, rest, env, ctx)
        fail("unsupported `match`")
    if k == "for":
        return floop(s, rest, env, ctx, "for")
    if k == "loop":
        return floop(s, rest, env, ctx, "loop")
    if k == "break":
        if ctx.mode != "loop": fail("`break` outside a loop")
        return ("leaf", ".brk %s" % fstate(env, ctx))
    if k == "return":
        return fresult(s[1], env, ctx)
    if k == "expr":
        if rest: fail("an expression statement that is not the value of its block")
        if ctx.mode == "loop": fail("a loop body with a value")
        return fresult(s[1], env, ctx)
    fail("unsupported statement %r" % (k,))

def _lv_expr(name):
    if "." in name:
        b, f = name.split(".", 1)
        return ("field", ("id", b), f)
    return ("id", name)

def _lift_if(i, tail):
    if i[0] == "if": return ("if", i[1], tail(i[2]), tail(i[3]))
    return ("iflet", i[1], i[2], tail(i[3]), tail(i[4]))

def _arm_tail(body, mk):
    """an arm of a `match` used as a value: its last expression becomes `mk(expr)`; an arm that
    leaves (`return ..`) stays"""
    if body and body[-1][0] == "expr": return list(body[:-1]) + [mk(body[-1][1])]
    if body and body[-1][0] == "return": return list(body)
    fail("a match arm without a value")

def fmatch_opt(scrut, arms, rest, env, ctx):
    inner = _strip_clone(scrut)
    v = feval(inner, env, ctx)
    if v[0] != "opt": fail("`match` / `if let` with Some / None patterns on a non-Option")
    lv = flvalue(inner)
    def arm(kind):
        for p_, b in arms:
            if p_[0] == kind or p_[0] == "pwild": return p_, b
        fail("the match does not cover %s" % kind)
    st = v[2]
    if st[0] == "none":
        return fexec(list(arm("pnone")[1]) + rest, env, ctx)
    if st[0] == "some":
        p_, b = arm("psome")
        e2 = env.copy()
        if p_[0] == "psome": e2.declare(p_[1], st[1])
        return fexec(list(b) + rest, e2, ctx)
    p_, b = arm("psome")
    var = ctx.fresh(p_[1] if p_[0] == "psome" else "v", v[1])
    e_some, e_none = env.copy(), env.copy()
    inner_v = fopaque(v[1], var)
    if lv is not None:
        fput_any(lv, ("opt", v[1], ("some", inner_v)), e_some)
        fput_any(lv, ("opt", v[1], ("none",)), e_none)
    if p_[0] == "psome": e_some.declare(p_[1], inner_v)
    t_some = fexec(list(b) + rest, e_some, ctx)
    t_none = fexec(list(arm("pnone")[1]) + rest, e_none, ctx)
    return ("matchopt", st[1], var, t_some, t_none)

def fmatch_call(scrut, arms, rest, env, ctx):
    cfg = ctx.cfg
    v = feval(scrut, env, ctx)
    if v[0] != "callres": fail("`match` with Ok / Err patterns on something that is not a call")
    cal = cfg.callees[v[2]]
    ok = [a for a in arms if a[0][0] in ("pok", "poktuple")]
    er = [a for a in arms if a[0][0] == "perr"]
    if len(ok) != 1 or len(er) != 1 or len(arms) != 2: fail("the match on a call must have the arms Ok(..) and Err(..)")
    (okp, okb), (erp, erb) = ok[0], er[0]
    parts = _split_prod(cal["ret"])
    e_ok = env.copy()
    okb = list(okb)
    if len(parts) > 1:
        if okp[0] == "poktuple": rnames = okp[1]
        elif okb and okb[0][0] == "let" and okb[0][1][0] == "ptuple" and okb[0][3] == ("id", okp[1]) and len(okb[0][1][1]) == len(parts):
            rnames = okb[0][1][1]          # `Ok(output) => { let (a, b) = output; ..`: the pattern takes the tuple apart
        else: rnames = ["%s_%d" % (okp[1], i + 1) for i in range(len(parts))]
        if len(rnames) != len(parts): fail("tuple pattern of the wrong size")
        lvars = [ctx.fresh(n, t) for n, t in zip(rnames, parts)]
        tv = ("tuple", [fopaque(t, lv_) for t, lv_ in zip(parts, lvars)])
        if okp[0] == "poktuple":
            for n, x in zip(okp[1], tv[1]): e_ok.declare(n, x)
        else: e_ok.declare(okp[1], tv)
        pat = "(%s)" % ", ".join(lvars)
    else:
        if okp[0] == "poktuple": fail("tuple pattern on a result that is not a tuple")
        lv_ = ctx.fresh(okp[1], parts[0])
        e_ok.declare(okp[1], fopaque(parts[0], lv_))
        pat = lv_
    if v[3] is not None:
        sname = env.vals[v[3]][1]
        sv = ctx.fresh(v[3], cfg.structs[sname]["lean"])
        e_ok.vals[v[3]] = fstruct_opaque(cfg, sname, sv)
        pat = "(%s, %s)" % (pat, sv)
    ev = ctx.fresh(erp[1], "PErr")
    t_ok = fexec(okb + rest, e_ok, ctx)
    e_er = env.copy()
    e_er.declare(erp[1], ("err", ev))
    t_er = fexec(list(erb) + rest, e_er, ctx)
    return ("matchcall", v[1], pat, t_ok, ev, t_er)

def floop(s, rest, env, ctx, kind):
    cfg = ctx.cfg
    if ctx.mode == "loop": fail("nested loops")
    body = s[4] if kind == "for" else s[1]
    if kind == "for":
        if not s[1].startswith("_"): fail("the loop variable %s must be unused (`_…`)" % s[1])
        lo, hi = feval(s[2], env, ctx), feval(s[3], env, ctx)
        if lo[0] != "nat" or hi[0] != "nat": fail("range bounds must be integers")
        count = "%s - %s" % (_fpar(fnat(hi)), _fpar(fnat(lo)))
    else:
        if ctx.fn_name not in cfg.loop_fuel: fail("no fuel configured for the `loop` of %s" % ctx.fn_name)
        count = None
    targets = []
    for t in fassigned(body, []):
        if t.endswith(".*"): fail("a `&mut` call inside a loop")
        base = t.split(".", 1)[0]
        if base in env.vals and t not in targets: targets.append(t)
    if not targets: fail("a loop that assigns nothing")
    entry = {t: fget(t, env, ctx) for t in targets}
    for t, v in entry.items():
        if v[0] not in ("nat", "cond", "char", "str", "opt", "list"): fail("the loop assigns %s, which is not a scalar" % t)
    def decl_pos(t):
        base = t.split(".", 1)[0]
        sub = 0
        if "." in t:
            fields = [rf for rf, lf, lt in cfg.structs[env.vals[base][1]]["fields"]]
            sub = fields.index(t.split(".", 1)[1])
        return (env.order.index(base) if base in env.order else -1, sub)
    # first pass with the types known at the entry; a second pass when a leaf told more
    types = {t: ftype(entry[t]) for t in targets}
    for attempt in range(3):
        order = sorted(targets, key=lambda t: (frank(types[t]), decl_pos(t)))
        svar = "s"
        benv = env.copy()
        for i, t in enumerate(order):
            ty = types[t]
            pv = fopaque(ty, fproj(svar, i, len(order))) if ty is not None else entry[t]
            fput(t, pv, benv)
        snapshot_names, snapshot_vars, snapshot_aux = set(ctx.names), list(ctx.leanvars), list(ctx.aux)
        bctx = ctx.sub("loop", order, svar)
        bctx.aux_prefix = ctx.aux_prefix
        tree = fexec(list(body), benv, bctx)
        new = dict(types)
        for lt in bctx.leaf_types:
            for t, ty in zip(order, lt):
                if ty is not None:
                    if new[t] is None: new[t] = ty
                    elif new[t] != ty: fail("the loop local %s has the types %s and %s" % (t, new[t], ty))
        if new == types: break
        types = new
        ctx.names.clear(); ctx.names.update(snapshot_names)
        del ctx.leanvars[:]; ctx.leanvars.extend(snapshot_vars)
        del ctx.aux[:]; ctx.aux.extend(snapshot_aux)
    else:
        fail("the types of the loop state do not settle")
    if any(types[t] is None for t in targets): fail("the type of a loop local cannot be inferred")
    sty = " × ".join(_par(types[t]) if "×" in types[t] else types[t] for t in order)
    body_text = frender(tree, 1)
    used = [(n, ty) for n, ty in snapshot_vars if re.search(r"(?<![\w.'])%s(?![\w'])" % re.escape(n), body_text)]
    ctx.nloops = getattr(ctx, "nloops", 0) + 1
    bname = "%sBodyGen%s" % (ctx.aux_prefix, "" if ctx.nloops == 1 else str(ctx.nloops))
    what = "`for %s in %s..%s`" % (s[1], _src(s[2]), _src(s[3])) if kind == "for" else "`loop`"
    text = "/-- one iteration of the %s of `%s`; the state `s` = (%s) -/\n" % (what, ctx.fn_name, ", ".join(order))
    text += "def %s %s (s : %s) : IStep (%s) :=\n%s\n\n" % (bname, " ".join("(%s : %s)" % u for u in used), sty, sty, body_text)
    ctx.aux.append(text)
    init = ftuple([fval(fcoerce(entry[t], types[t]) if ftype(entry[t]) is None else entry[t]) for t in order])
    call = " ".join([bname] + [n for n, _ in used])
    if kind == "for":
        loop_text = "iFor (%s) (%s) %s" % (call, count, init)
    else:
        fuel = cfg.loop_fuel[ctx.fn_name](lambda n: fval(fget(n, env, ctx)))
        loop_text = "iLoop (%s) (%s) %s" % (call, fuel, init)
    rvar = ctx.fresh("st", sty)
    for i, t in enumerate(order):
        fput(t, fopaque(types[t], fproj(rvar, i, len(order))), env)
    return ("matchloop", loop_text, rvar, fexec(rest, env, ctx))

def _src(e):
    if e[0] == "id": return e[1]
    if e[0] == "num": return str(e[1])
    return "…"

def frender(t, indent):
    pad = "  " * indent
    k = t[0]
    if k == "leaf": return pad + t[1]
    if k == "ite":
        return "%sif %s then\n%s\n%selse\n%s" % (pad, fcond_prop(t[1]), frender(t[2], indent + 1), pad, frender(t[3], indent + 1))
    if k == "matchopt":
        return "%smatch %s with\n%s| none =>\n%s\n%s| some %s =>\n%s" % (pad, t[1], pad, frender(t[4], indent + 1), pad, t[2], frender(t[3], indent + 1))
    if k == "matchrd":
        return "%smatch rd %s %s with\n%s| none => .panic\n%s| some %s =>\n%s" % (pad, _fpar(t[1]), _fpar(t[2]), pad, pad, t[3], frender(t[4], indent + 1))
    if k == "matchdecr":
        return "%smatch decr %s with\n%s| none => .panic\n%s| some %s =>\n%s" % (pad, _fpar(t[1]), pad, pad, t[2], frender(t[3], indent + 1))
    if k == "matchcall":
        return "%smatch %s with\n%s| .panic => .panic\n%s| .err %s =>\n%s\n%s| .ok %s =>\n%s" % (
            pad, t[1], pad, pad, t[4], frender(t[5], indent + 1), pad, t[2], frender(t[3], indent + 1))
    if k == "matchloop":
        return "%smatch %s with\n%s| .panic => .panic\n%s| .err e => .err e\n%s| .ok %s =>\n%s" % (
            pad, t[1], pad, pad, pad, t[2], frender(t[3], indent + 1))
    fail("render: %r" % (k,))

# =============================================================================================
# fifth executor: the METHODS of a struct whose fields are `HashMap<String, _>`s
# (`impl Commands` of duckscript/src/types/command.rs: `commands`, `aliases`).
#
# A method `fn m(&mut self, p: T, …) -> R` becomes
#     def mGen {MC MA : Type} [FinMap MC CmdSpec] [FinMap MA Str] (commands : MC) (aliases : MA) (p : T') … : (MC × MA) × R'
# (`&self`: the result type is `R'` alone; `fn new() -> Self`: `MC × MA`), written against the
# ABSTRACT finite map of lean/DuckModel/FinMap.lean — every HashMap operation is a call of one of
# its operations, nothing is known about the representation:
#     m.get(&k)  FinMap.get m k        m.contains_key(&k)  FinMap.contains m k
#     m.insert(k, v);  m := FinMap.insert m k v          m.remove(&k);  m := FinMap.erase m k
#     m.remove(&k) as a value: FinMap.get m k (and m := FinMap.erase m k afterwards)
#     m.retain(|k, v| p);  m := FinMap.filter (fun k v => p) m
#     m.keys()  FinMap.keys m          `for (k, v) in &m` / m.iter()  FinMap.toList m
#     HashMap::new()  FinMap.empty
# The parser is the fourth executor's (`fparse_block`).  Subset:
#   statements   let [mut] x = e ;   x = e ;   e ; (a call with an effect)   if c {..} [else ..]
#                match opt { Some([ref] x) => .., None => .. }   (statement, `let x = match ..`, value)
#                if let Some(x) = opt {..} [else {..}]      for x in &xs {..}   for k in m.keys() {..}
#                for (k, v) in &m {..}      return e ;      a trailing expression
#   expressions  locals, parameters, self.field, None Some(e) Ok(()) Err(ScriptError::K(format!(..)))
#                true false "text" vec![] Vec::new() HashMap::new() Struct { field: e, .. }
#                ! && || == != (strings, options)   .clone() .to_string() .to_owned() .as_str() .iter()
#                .cloned() .is_some() .is_none() .push(e) .sort()  self.m(..) of a translated `&self` method
#                obj.name() / obj.aliases() (the methods of the stored object given in the configuration)
# How things are rendered: every local is a symbolic VALUE (never a Lean `let`), the two maps are
# tracked separately (so independent statements commute textually); a `match` / `if let` on an
# option whose state is not known becomes `match … with | none => … | some x => …`, what follows
# being executed in either arm; `if !c {A} else {B}` is rendered as `if c then B else A`; operands
# of `==` are put in a canonical order; a loop whose body never returns is
# `List.foldl (fun state x => …) init xs` over the things the body changes (self fields first, in
# field order, then locals in declaration order); a loop whose body may `return` is
# `match forEach (fun state x => …) xs init with | .ret r => r | .next state => …`
# (`forEach` / `LoopStep` of FinMap.lean); `break` / `continue` / `while` are outside the subset.
# `Result<(), ScriptError>` is rendered as `Bool` (`true` = `Ok(())`); every `Err` must be one of
# the error kinds given in the configuration; the message text is dropped.  `xs.sort()` on a
# `Vec<String>` is the configuration's sort function.
# =============================================================================================

class HConfig:
    def __init__(self, struct, fields, types, objs, err_kinds, sort_fn, methods):
        """struct: Rust struct name; fields: [(rust field, lean parameter, lean type variable, value type)];
        types: Rust type text -> Lean type ("RESULT_UNIT" for Result<(),ScriptError>); objs: Lean
        type -> {rust method: (lean type, lean field)}; err_kinds: accepted ScriptError variants;
        sort_fn: Lean function for `.sort()` of a List Str; methods: Rust method -> dict(lean, params, ret, selfkind)"""
        self.struct, self.fields, self.types, self.objs = struct, fields, types, objs
        self.err_kinds, self.sort_fn, self.methods = err_kinds, sort_fn, methods

HUNIT = ("unit",)

class HEnv:
    def __init__(self, vals=None, order=None, bound=None):
        self.vals, self.order, self.bound = dict(vals or {}), list(order or []), set(bound or ())
    def copy(self):
        return HEnv(self.vals, self.order, self.bound)
    def declare(self, name, v):
        if name in self.order: self.order.remove(name)
        self.order.append(name); self.vals[name] = v
    def fresh(self, rust_name):
        base = camel(rust_name) or "x"
        name, k = base, 0
        while name in self.bound:
            k += 1; name = "%s_%d" % (base, k)
        self.bound.add(name)
        return name

class HCtx:
    def __init__(self, cfg, fn_name, self_kind, ret, mode="fn", early=False, state=None):
        self.cfg, self.fn_name, self.self_kind, self.ret = cfg, fn_name, self_kind, ret
        self.mode, self.early, self.state = mode, early, state
    def full_ret(self):
        cfg = self.cfg
        st = " × ".join(f[2] for f in cfg.fields)
        if self.ret == "SELF": return st
        r = "Bool" if self.ret == "RESULT_UNIT" else self.ret
        return "(%s) × %s" % (st, _par(r) if "×" in r else r) if self.self_kind == "mut" else r

def hopaque(ty, text):
    if ty == "Str": return ("str", text)
    if ty == "Bool": return ("bool", ("b", text))
    if ty == "Unit": return HUNIT
    if ty.startswith("Option "):
        inner = ty[len("Option "):]
        if inner.startswith("(") and inner.endswith(")"): inner = inner[1:-1]
        return ("opt", inner, ("opaque", text))
    if ty.startswith("List "):
        inner = ty[len("List "):]
        if inner.startswith("(") and inner.endswith(")"): inner = inner[1:-1]
        return ("list", inner, text)
    if "×" in ty:
        parts = [q.strip() for q in _split_prod(ty)] if "_split_prod" in globals() else None
        fail("no symbolic value for the product type %s" % ty)
    return ("obj", ty, text)

def htype(v):
    k = v[0]
    if k == "str": return "Str"
    if k == "bool": return "Bool"
    if k == "unit": return "Unit"
    if k == "obj": return v[1]
    if k == "map": return v[1]
    if k == "opt":
        t = v[1]
        if t is None and v[2][0] == "some": t = htype(v[2][1])
        return None if t is None else "Option %s" % _par(t)
    if k == "list": return None if v[1] is None else "List %s" % _par(v[1])
    fail("a value of kind %s has no Lean type here" % k)

def hval(v):
    k = v[0]
    if k == "str": return v[1]
    if k == "bool": return fcond_bool(v[1])
    if k == "unit": return "()"
    if k in ("obj", "map"): return v[2]
    if k == "list": return v[2]
    if k == "opt":
        st = v[2]
        if st[0] == "none": return "none"
        if st[0] == "some": return "some %s" % _fpar(hval(st[1]))
        return st[1]
    fail("a value of kind %s cannot be rendered" % k)

def hlvalue(e):
    if e[0] == "id": return e[1]
    if e[0] == "field" and e[1] == ("id", "self"): return "self." + e[2]
    return None

HMUTATORS = ("insert", "remove", "retain", "push", "sort", "clear", "extend", "append", "pop", "truncate", "dedup", "reverse", "drain", "entry", "get_mut", "iter_mut", "values_mut")

def hassigned(node, out):
    """the locals / self fields a piece of code changes (assignment or a mutating method)"""
    if isinstance(node, tuple):
        if node and node[0] == "assign":
            n = node[1]
            if n not in out: out.append(n)
        if node and node[0] == "method" and node[2] in HMUTATORS:
            n = hlvalue(node[1])
            if n is None: fail("a mutating method on something that is neither a local nor a field of self")
            if n not in out: out.append(n)
        for x in node: hassigned(x, out)
    elif isinstance(node, list):
        for x in node: hassigned(x, out)
    return out

def hhas(node, kinds):
    if isinstance(node, tuple):
        if node and node[0] in kinds: return True
        return any(hhas(x, kinds) for x in node)
    if isinstance(node, list):
        return any(hhas(x, kinds) for x in node)
    return False

def hget(name, env):
    if name in env.vals: return env.vals[name]
    fail("unknown variable %s" % name)

def hfieldinfo(cfg, rust_field):
    for f in cfg.fields:
        if f[0] == rust_field: return f
    fail("unknown field self.%s" % rust_field)

def heq(a, b):
    """`a == b` as a condition tree; operands in a canonical order"""
    if a[0] == "str" and b[0] == "str":
        x, y = sorted([hval(a), hval(b)])
    elif a[0] == "opt" and b[0] == "opt":
        if a[2][0] != "opaque" and b[2][0] == "opaque": a, b = b, a
        if a[2][0] == "none" and b[2][0] == "none": return T
        if a[2][0] == "some" and b[2][0] == "some": return heq(a[2][1], b[2][1])
        if {a[2][0], b[2][0]} == {"none", "some"}: return F
        x, y = hval(a), hval(b)
        if a[2][0] == "opaque" and b[2][0] == "opaque": x, y = sorted([x, y])
    elif a[0] == "bool" and b[0] == "bool":
        x, y = sorted([hval(a), hval(b)])
    else:
        fail("unsupported comparison")
    if x == y: return T
    return ("p", "%s = %s" % (x, y), ("=", x, y))

def heval(e, env, ctx):
    """the value of an expression; effects (insert / remove / push …) are applied to `env`"""
    cfg = ctx.cfg
    k = e[0]
    if k == "bool": return ("bool", T if e[1] else F)
    if k == "lit_str": return ("str", "[%s]" % ", ".join(lean_char(c) for c in e[1]))
    if k == "none": return ("opt", None, ("none",))
    if k == "some":
        v = heval(e[1], env, ctx)
        return ("opt", htype(v), ("some", v))
    if k == "ok":
        v = heval(e[1], env, ctx)
        if v != HUNIT: fail("Ok(..) of something else than ()")
        return ("res_ok",)
    if k == "errc":
        x = e[1]
        if x[0] != "pathcall" or x[1] != "ScriptError" or x[2] not in cfg.err_kinds:
            fail("Err(..) of something else than ScriptError::%s(..)" % "/".join(cfg.err_kinds))
        return ("res_err",)
    if k == "tuple":
        if not e[1]: return HUNIT
        fail("tuples are outside the subset")
    if k == "id":
        if e[1] == "self": fail("`self` as a value")
        return hget(e[1], env)
    if k == "field":
        name = hlvalue(e)
        if name is None: fail("unsupported field access")
        return hget(name, env)
    if k == "not":
        v = heval(e[1], env, ctx)
        if v[0] != "bool": fail("`!` of a non-boolean")
        return ("bool", _cnot(v[1]))
    if k == "bin":
        op = e[1]
        if op in ("&&", "||"):
            a = heval(e[2], env, ctx)
            if hassigned(e[3], []): fail("an effect in a short-circuited operand")
            b = heval(e[3], env, ctx)
            if a[0] != "bool" or b[0] != "bool": fail("`%s` of non-booleans" % op)
            return ("bool", _cand(a[1], b[1]) if op == "&&" else _cor(a[1], b[1]))
        if op in ("==", "!="):
            a, b = heval(e[2], env, ctx), heval(e[3], env, ctx)
            c = heq(a, b)
            return ("bool", c if op == "==" else _cnot(c))
        fail("unsupported operator %s" % op)
    if k == "macro":
        if e[1] == "vec" and not e[2]: return ("list", None, "[]")
        fail("unsupported macro %s!" % e[1])
    if k == "pathcall":
        if e[2] == "new" and not e[3]:
            if e[1] == "String": return ("str", "[]")
            if e[1] == "Vec": return ("list", None, "[]")
            if e[1] == "HashMap": return ("map", None, "FinMap.empty")
        fail("unsupported call %s::%s" % (e[1], e[2]))
    if k == "struct":
        if e[1] not in (cfg.struct, "Self"): fail("unsupported struct literal %s" % e[1])
        got = dict(e[2])
        if sorted(got) != sorted(f[0] for f in cfg.fields): fail("struct literal %s with other fields" % e[1])
        vals = {}
        for f in cfg.fields:
            v = heval(got[f[0]], env, ctx)
            if v[0] != "map": fail("field %s of %s is not a map" % (f[0], e[1]))
            vals[f[0]] = v
        return ("selfval", vals)
    if k == "method":
        return hmethod(e, env, ctx)
    if k in ("ifexpr", "matchexpr"):
        fail("`if` / `match` as a sub-expression")
    fail("unsupported expression %r" % (k,))

def hmut(env, ctx, name, v):
    if name.startswith("self.") and ctx.self_kind != "mut": fail("a field of `&self` is changed")
    if name not in env.vals: fail("unknown variable %s" % name)
    env.vals[name] = v

def hmethod(e, env, ctx):
    cfg = ctx.cfg
    recv, m, args = e[1], e[2], e[3]
    if recv == ("id", "self"):
        if m not in cfg.methods: fail("call of the untranslated method self.%s" % m)
        cal = cfg.methods[m]
        if cal["selfkind"] != "ref": fail("call of self.%s, which is not a `&self` method" % m)
        if len(args) != len(cal["params"]): fail("wrong number of arguments in a call of self.%s" % m)
        texts = [_fpar(hval(env.vals["self." + f[0]])) for f in cfg.fields]
        for (pn, pt), a in zip(cal["params"], args):
            v = heval(a, env, ctx)
            if htype(v) != cfg.types.get(pt): fail("argument %s of self.%s has the type %s" % (pn, m, htype(v)))
            texts.append(_fpar(hval(v)))
        return hopaque(cal["ret"], "%s %s" % (cal["lean"], " ".join(texts)))
    r = heval(recv, env, ctx)
    if m in ("clone", "to_string", "to_owned", "as_str", "as_ref", "iter", "cloned", "as_slice", "to_vec", "into_iter") and not args:
        if m in ("iter", "into_iter") and r[0] == "map":
            f = hfieldinfo(cfg, hlvalue(recv)[5:]) if (hlvalue(recv) or "").startswith("self.") else fail("iteration over a map that is not a field")
            return ("list", "Str × %s" % f[3], "FinMap.toList %s" % _fpar(r[2]))
        return r
    if r[0] == "map":
        name = hlvalue(recv)
        if name is None or not name.startswith("self."): fail("a map that is not a field of self")
        f = hfieldinfo(cfg, name[5:])
        mt = _fpar(r[2])
        def key(a):
            v = heval(a, env, ctx)
            if v[0] != "str": fail("a map key that is not a string")
            return _fpar(v[1])
        if m == "get" and len(args) == 1:
            return ("opt", f[3], ("opaque", "FinMap.get %s %s" % (mt, key(args[0]))))
        if m == "contains_key" and len(args) == 1:
            return ("bool", ("b", "FinMap.contains %s %s" % (mt, key(args[0]))))
        if m == "keys" and not args:
            return ("list", "Str", "FinMap.keys %s" % mt)
        if m == "insert" and len(args) == 2:
            kk = key(args[0]); v = heval(args[1], env, ctx)
            if htype(v) != f[3]: fail("insert of a %s into %s" % (htype(v), name))
            hmut(env, ctx, name, ("map", f[2], "FinMap.insert %s %s %s" % (mt, kk, _fpar(hval(v)))))
            return ("opt", f[3], ("opaque", "FinMap.get %s %s" % (mt, kk)))
        if m == "remove" and len(args) == 1:
            kk = key(args[0])
            hmut(env, ctx, name, ("map", f[2], "FinMap.erase %s %s" % (mt, kk)))
            return ("opt", f[3], ("opaque", "FinMap.get %s %s" % (mt, kk)))
        if m == "retain" and len(args) == 1 and args[0][0] == "closure" and len(args[0][1]) == 2:
            kn, vn = args[0][1]
            inner = env.copy()
            lk, lv = inner.fresh(kn), inner.fresh(vn)
            inner.declare(kn, ("str", lk)); inner.declare(vn, hopaque(f[3], lv))
            if hassigned(args[0][2], []): fail("an effect inside a `retain` predicate")
            c = heval(args[0][2], inner, ctx)
            if c[0] != "bool": fail("a `retain` predicate that is not a boolean")
            hmut(env, ctx, name, ("map", f[2], "FinMap.filter (fun %s %s => %s) %s" % (lk, lv, fcond_bool(c[1]), mt)))
            return HUNIT
        fail("unsupported method .%s of a map" % m)
    if r[0] == "obj":
        ms = cfg.objs.get(r[1], {})
        if m in ms and not args:
            return hopaque(ms[m][0], "%s.%s" % (_fpar(r[2]), ms[m][1]))
        fail("unsupported method .%s of a %s" % (m, r[1]))
    if r[0] == "opt":
        st = r[2]
        if m in ("is_some", "is_none") and not args:
            c = F if st[0] == "none" else T if st[0] == "some" else ("b", "%s.isSome" % _fpar(st[1]))
            return ("bool", c if m == "is_some" else _cnot(c))
        fail("unsupported method .%s of an Option" % m)
    if r[0] == "list":
        name = hlvalue(recv)
        if m == "push" and len(args) == 1 and name is not None:
            v = heval(args[0], env, ctx)
            if r[1] is not None and r[1] != htype(v): fail("push of a %s" % htype(v))
            hmut(env, ctx, name, ("list", htype(v), "%s ++ [%s]" % (r[2], hval(v)) if r[2] != "[]" else "[%s]" % hval(v)))
            return HUNIT
        if m == "sort" and not args and name is not None:
            if r[1] not in ("Str", None): fail("sort of a vector of %s" % r[1])
            hmut(env, ctx, name, ("list", "Str", "%s %s" % (cfg.sort_fn, _fpar(r[2]))))
            return HUNIT
        fail("unsupported method .%s of a vector" % m)
    fail("unsupported method .%s" % m)

def hstate_text(env, ctx):
    vals = [hval(hget(n, env)) for n in ctx.state]
    return "()" if not vals else vals[0] if len(vals) == 1 else "(%s)" % ", ".join(vals)

def hresult(v, env, ctx):
    """the leaf for `return v` / the value of the function body"""
    cfg = ctx.cfg
    if ctx.ret == "SELF":
        if v[0] != "selfval": fail("%s does not return a %s" % (ctx.fn_name, cfg.struct))
        text = "(%s)" % ", ".join(hval(v[1][f[0]]) for f in cfg.fields)
    else:
        if ctx.ret == "RESULT_UNIT":
            if v[0] not in ("res_ok", "res_err"): fail("%s does not return a Result" % ctx.fn_name)
            text = "true" if v[0] == "res_ok" else "false"
        else:
            if v[0] == "opt" and v[1] is None and ctx.ret.startswith("Option "): pass
            elif v[0] == "list" and v[1] is None and ctx.ret.startswith("List "): pass
            elif htype(v) != ctx.ret: fail("%s returns a %s, not a %s" % (ctx.fn_name, htype(v), ctx.ret))
            text = hval(v)
        if ctx.self_kind == "mut":
            text = "((%s), %s)" % (", ".join(hval(env.vals["self." + f[0]]) for f in cfg.fields), text)
    if ctx.mode == "loop":
        return ("leaf", ".ret %s" % _fpar(text))
    return ("leaf", text)

def hite(c, mk_then, mk_else):
    if c == T: return mk_then()
    if c == F: return mk_else()
    if c[0] == "not": return ("ite", c[1], mk_else(), mk_then())
    return ("ite", c, mk_then(), mk_else())

def hmatch_opt(v, arms, env, ctx, k):
    """a `match` on the option value `v`; `k(env, value)` is what follows an arm"""
    none_arm = some_arm = None
    for pat, body in arms:
        if pat[0] == "pnone" and none_arm is None: none_arm = body
        elif pat[0] == "psome" and some_arm is None: some_arm = (pat[1], body)
        elif pat[0] == "pwild":
            if none_arm is None: none_arm = body
            if some_arm is None: some_arm = (None, body)
        else: fail("unsupported pattern in a `match` on an Option")
    if none_arm is None or some_arm is None: fail("a `match` on an Option without both arms")
    if v[0] != "opt": fail("`match` on something that is not an Option")
    st = v[2]
    def run_some(e2, inner):
        if some_arm[0] is not None and some_arm[0] != "_": e2.declare(some_arm[0], inner)
        return hblock(some_arm[1], e2, ctx, k)
    if st[0] == "none": return hblock(none_arm, env.copy(), ctx, k)
    if st[0] == "some": return run_some(env.copy(), st[1])
    if v[1] is None: fail("an Option of unknown type")
    e_none, e_some = env.copy(), env.copy()
    var = e_some.fresh(some_arm[0] if some_arm[0] not in (None, "_") else "x")
    return ("matchopt", st[1], var, hblock(none_arm, e_none, ctx, k), run_some(e_some, hopaque(v[1], var)))

def hvalue(e, env, ctx, k):
    """evaluates `e` (splitting the path at `match` / `if` expressions), then `k(env, value)`"""
    if e[0] == "matchexpr":
        v = heval(e[1], env, ctx)
        return hmatch_opt(v, e[2], env, ctx, k)
    if e[0] == "ifexpr":
        return hif(e[1], env, ctx, k)
    v = heval(e, env, ctx)
    return k(env, v)

def hif(s, env, ctx, k):
    if s[0] == "iflet":
        pat, e, then, els = s[1], s[2], s[3], s[4]
        v = heval(e, env, ctx)
        return hmatch_opt(v, [(pat, then), (("pwild",), els or [])], env, ctx, k)
    cond, then, els = s[1], s[2], s[3]
    c = heval(cond, env, ctx)
    if c[0] != "bool": fail("an `if` on a non-boolean")
    return hite(c[1], lambda: hblock(then, env.copy(), ctx, k), lambda: hblock(els or [], env.copy(), ctx, k))

def hblock(stmts, env, ctx, k):
    """executes a block; `k(env, value)` receives the state at its end and its value"""
    if not stmts: return k(env, HUNIT)
    s, rest = stmts[0], stmts[1:]
    kind = s[0]
    def then_rest(e2, v):
        if rest: return hblock(rest, e2, ctx, k)
        return k(e2, v)
    if kind == "let":
        if s[1][0] != "pid": fail("unsupported `let` pattern")
        def bind(e2, v):
            e2.declare(s[1][1], v)
            return hblock(rest, e2, ctx, k)
        return hvalue(s[3], env, ctx, bind)
    if kind == "assign":
        if s[2] != "=": fail("unsupported assignment %s" % s[2])
        def put(e2, v):
            if s[1] not in e2.vals: fail("assignment to the undeclared %s" % s[1])
            e2.vals[s[1]] = v
            return hblock(rest, e2, ctx, k)
        return hvalue(s[3], env, ctx, put)
    if kind == "exprstmt":
        return hvalue(s[1], env, ctx, lambda e2, v: hblock(rest, e2, ctx, k))
    if kind == "expr":
        if rest: fail("an expression that is not the value of its block")
        return hvalue(s[1], env, ctx, k)
    if kind in ("if", "iflet"):
        return hif(s, env, ctx, then_rest)
    if kind == "match":
        v = heval(s[1], env, ctx)
        return hmatch_opt(v, s[2], env, ctx, then_rest)
    if kind == "return":
        return hvalue(s[1], env, ctx, lambda e2, v: hresult(v, e2, ctx))
    if kind == "foreach":
        return hloop(s, rest, env, ctx, k)
    if kind in ("for", "loop", "break"):
        fail("`%s` is outside the subset" % kind)
    fail("unsupported statement %r" % (kind,))

def hloop(s, rest, env, ctx, k):
    cfg = ctx.cfg
    pats, it, body = s[1], s[2], s[3]
    if hassigned(it, []): fail("an effect in the sequence of a `for`")
    xs = heval(it, env, ctx)
    if xs[0] != "list" or xs[1] is None: fail("a `for` over something that is not a vector / the keys / the entries of a map")
    changed = hassigned(body, [])
    inner_decl = []
    def decls(node):
        if isinstance(node, tuple):
            if node and node[0] == "let" and node[1][0] == "pid": inner_decl.append(node[1][1])
            for x in node: decls(x)
        elif isinstance(node, list):
            for x in node: decls(x)
    decls(body)
    changed = [n for n in changed if n not in inner_decl or n in env.vals]
    for n in changed:
        if n not in env.vals: fail("the loop changes the unknown %s" % n)
    fields = ["self." + f[0] for f in cfg.fields]
    state = [n for n in fields if n in changed] + [n for n in env.order if n in changed and n not in fields]
    if hhas(body, ("break",)) or hhas(body, ("for", "loop")): fail("`break` / a nested range loop in a `for`")
    early = hhas(body, ("return",)) or hhas(body, ("try",))
    if ctx.mode == "loop" and early: fail("`return` from a nested loop")
    benv = env.copy()
    snames = []
    for n in state:
        ln = benv.fresh(n[5:] if n.startswith("self.") else n)
        snames.append(ln)
        old = env.vals[n]
        if old[0] == "map": benv.vals[n] = ("map", old[1], ln)
        elif old[0] == "list": benv.vals[n] = ("list", old[1], ln)
        else:
            t = htype(old)
            if t is None: fail("a loop state of unknown type")
            benv.vals[n] = hopaque(t, ln)
    # the loop variable(s)
    if len(pats) == 1:
        xv = benv.fresh(pats[0])
        if "×" in xs[1]: fail("a single pattern for the entries of a map")
        benv.declare(pats[0], hopaque(xs[1], xv)); xpat = xv
    else:
        parts = [q.strip() for q in xs[1].split("×")]
        if len(parts) != len(pats): fail("a tuple pattern of the wrong size")
        lvs = []
        for pn, pt in zip(pats, parts):
            lv = benv.fresh(pn); lvs.append(lv)
            if pn != "_": benv.declare(pn, hopaque(pt, lv))
        xpat = "(%s)" % ", ".join(lvs)
    lctx = HCtx(cfg, ctx.fn_name, ctx.self_kind, ctx.ret, "loop" if early else "fold", early, state)
    ends = []
    def at_end(e2, v):
        ends.append(e2)
        text = hstate_text(e2, lctx)
        return ("leaf", ".next %s" % _fpar(text) if early else text)
    tree = hblock(body, benv, lctx, at_end)
    if not state and not early:
        return hblock(rest, env, ctx, k)          # a loop without any effect
    spat = "_" if not state else snames[0] if len(snames) == 1 else "(%s)" % ", ".join(snames)
    init = hstate_text(env, HCtx(cfg, ctx.fn_name, ctx.self_kind, ctx.ret, state=state))
    # types of the state (a vector created by `vec![]` gets its type from what is pushed)
    after = {}
    for n, ln in zip(state, snames):
        old = env.vals[n]
        if old[0] == "list" and old[1] is None:
            ts = set(e2.vals[n][1] for e2 in ends if e2.vals[n][1] is not None)
            if len(ts) != 1: fail("a vector of unknown element type")
            after[n] = ("list", ts.pop(), ln)
        elif old[0] in ("map", "list"): after[n] = (old[0], old[1], ln)
        else: after[n] = hopaque(htype(old), ln)
    stypes = [htype(after[n]) for n in state]
    sty = "Unit" if not state else stypes[0] if len(state) == 1 else " × ".join(_par(t) if "×" in t else t for t in stypes)
    env = env.copy()
    if early:
        loop = "forEach (σ := %s) (ρ := %s) (fun %s %s => %s) %s %s" % (sty, ctx.full_ret(), spat, xpat, hflat(tree), _fpar(xs[2]), _fpar(init))
        for n, ln in zip(state, snames):
            env.bound.add(ln); env.vals[n] = after[n]
        return ("matchloop", loop, spat, hblock(rest, env, ctx, k))
    loop = "List.foldl (fun %s %s => %s) %s %s" % (spat, xpat, hflat(tree), _fpar(init), _fpar(xs[2]))
    if len(state) == 1:
        n = state[0]
        a = after[n]
        env.vals[n] = (a[0], a[1], "(%s)" % loop) if a[0] in ("map", "list", "obj") else hopaque(htype(a), "(%s)" % loop)
        return hblock(rest, env, ctx, k)
    for n, ln in zip(state, snames):
        env.bound.add(ln); env.vals[n] = after[n]
    return ("matchtuple", loop, spat, hblock(rest, env, ctx, k))

def hflat(t):
    """a tree on one line"""
    k = t[0]
    if k == "leaf": return t[1]
    if k == "ite": return "if %s then %s else %s" % (fcond_prop(t[1]), hflat(t[2]), hflat(t[3]))
    if k == "matchopt": return "(match %s with | none => %s | some %s => %s)" % (t[1], hflat(t[3]), t[2], hflat(t[4]))
    if k == "matchloop": return "(match %s with | .ret r => .ret r | .next %s => %s)" % (t[1], t[2], hflat(t[3]))
    if k == "matchtuple": return "(match %s with | %s => %s)" % (t[1], t[2], hflat(t[3]))
    fail("render: %r" % (k,))

def hrender(t, indent):
    pad = "  " * indent
    k = t[0]
    if k == "leaf": return pad + t[1]
    if k == "ite":
        return "%sif %s then\n%s\n%selse\n%s" % (pad, fcond_prop(t[1]), hrender(t[2], indent + 1), pad, hrender(t[3], indent + 1))
    if k == "matchopt":
        return "%smatch %s with\n%s| none =>\n%s\n%s| some %s =>\n%s" % (pad, t[1], pad, hrender(t[3], indent + 1), pad, t[2], hrender(t[4], indent + 1))
    if k == "matchloop":
        return "%smatch %s with\n%s| .ret r => r\n%s| .next %s =>\n%s" % (pad, t[1], pad, pad, t[2], hrender(t[3], indent + 1))
    if k == "matchtuple":
        return "%smatch %s with\n%s| %s =>\n%s" % (pad, t[1], pad, t[2], hrender(t[3], indent + 1))
    fail("render: %r" % (k,))

def hsignature(impl_src, name, cfg):
    """(self kind: "mut" | "ref" | None, [(param, rust type)], lean return type) of a method"""
    m = re.search(r"(fn %s\s*\()\s*(&\s*mut\s+self|&\s*self|mut\s+self|self)?\s*,?" % re.escape(name), impl_src)
    if not m: fail("%s not found" % name)
    sk = None
    if m.group(2): sk = "mut" if re.match(r"&\s*mut", m.group(2)) else "ref" if "&" in m.group(2) else fail("`self` by value in %s" % name)
    sig = fn_signature(impl_src[:m.end(1)] + impl_src[m.end():], name)
    if sig is None: fail("%s not found" % name)
    params, ret = sig
    params = [(n, t) for n, t in params]
    if ret in (cfg.struct, "Self"): lret = "SELF"
    elif ret in cfg.types: lret = cfg.types[ret]
    else: fail("return type %s of %s" % (ret, name))
    return sk, params, lret

def htranslate_method(impl_src, name, cfg, lean_name):
    sk, params, lret = hsignature(impl_src, name, cfg)
    body = fn_body(impl_src, name)
    stmts = fparse_block(body)
    env = HEnv()
    binders = "{%s : Type} %s" % (" ".join(f[2] for f in cfg.fields), " ".join("[FinMap %s %s]" % (f[2], _par(f[3]) if " " in f[3] else f[3]) for f in cfg.fields))
    lparams = []
    if sk is not None:
        for f in cfg.fields:
            env.bound.add(f[1])
            env.declare("self." + f[0], ("map", f[2], f[1]))
            lparams.append("(%s : %s)" % (f[1], f[2]))
    for pn, pt in params:
        if pt not in cfg.types or cfg.types[pt] in (None, "RESULT_UNIT"): fail("parameter type %s of %s" % (pt, name))
        ln = env.fresh(pn)
        env.declare(pn, hopaque(cfg.types[pt], ln))
        lparams.append("(%s : %s)" % (ln, cfg.types[pt]))
    ctx = HCtx(cfg, name, sk, lret)
    def done(e2, v):
        if v == HUNIT and lret != "Unit": fail("control reaches the end of %s without a value" % name)
        return hresult(v, e2, ctx)
    tree = hblock(stmts, env, ctx, done)
    text = "/-- `%s::%s` -/\n" % (cfg.struct, name)
    text += "def %s %s%s : %s :=\n%s\n" % (lean_name, binders, "".join(" " + q for q in lparams), ctx.full_ret(), hrender(tree, 1))
    return text, sk, params, lret

# =============================================================================================
# fifth executor: the RUNNER (duckscript/src/runner.rs) — code that works on a WORLD through `&mut`
# borrows and reacts to an enum with payloads.  It uses the parser of the fourth executor (extended
# with `Enum::Variant(a, _, ref b)` patterns, `.parse::<i32>()`, `()`, `for x in &xs`).
#
# What is translated: (a) whole functions (`rn_translate_fn`), (b) ONE ITERATION of the `loop` of a
# function together with the code after the loop (`rn_translate_step`): `break` continues with the
# statements after the loop, falling off the end of the body is "next iteration".
#
#   statements   let [mut] x = e ;  let (a, b) = e ;  let (a, b) = if c { ..; (x, y) } else { break; } ;
#                x = e ;  x += n ;  place = e ;   if / else if / else ;   if let PAT = e {..} [else {..}] [;]
#                match e { PAT => {..} | PAT => stmt | expr , .. } [;]   (as statement, as the value of a
#                `let`, as the value of an arm, as the value of the function)
#                f(&mut a, b, ..) ;   map.insert(k, v) ;   map.remove(&k) ;   break ;   return e ;
#                for x in &xs {..} (whole functions only; a fold over the vector, no break / return inside) ;
#                let mut r = Struct::new(..) of a configured struct ;  r.untracked_field = e (dropped)
#   patterns     Enum::Variant   Enum::Variant(x, _, ref y)   Some(x)  Some(ref x)  None  Ok(x)  Err(e)  _
#   expressions  literals, locals, parameters, x.f.g, None Some(e) Ok(e) Err(e) () (a, b), Enum::Variant(e..),
#                ScriptError::Runtime(msg, Some(meta)), format!("..{}..", e), vec![a, b], "s".to_string(),
#                n.to_string(), o.unwrap_or(d), o.is_some() / is_none() / unwrap(), e.clone(), xs.len(),
#                xs[i] (only under the test `xs.len() > i` / `i < xs.len()`), e + n, == != < > <= >=, ! && ||,
#                s.parse::<i32>(), table.get(&k), Struct { f, g: e } of the invocation context
#
# How things are rendered (the CONFIGURATION says which Rust place is which component):
#   * the WORLD is what the `&mut` borrows reach: the variables (`Vars`), and ONE value `st : σ` standing
#     for everything else a command can touch (command table, command state, env) — all Rust places
#     configured as "world" are the same Lean value, which is what the model's `CmdSem σ` says;
#   * a call `f(&mut vars, &mut state, a, b)` of a configured function is `fGen sem vars st a b`; what it
#     returns is the Rust result followed by the new variables / world (`match .. with | (r, vars2, st2) =>`),
#     a `Result<(), String>` being an `Option Str` (`none` = `Ok(())`);
#   * `commands.get_for_use(name)` followed (on EVERY path of the `Some(instance)` arm, exactly once)
#     by `instance.run(CommandInvocationContext { arguments, output_variable, line, .. })` is ONE call of
#     the parameter `sem name arguments output_variable line vars st` — `none` = no such command (the
#     `None` arm), `some (result, vars2, st2)` = the command ran; statements of the arm before the
#     `run` must be pure;
#   * `match e { Enum::V(..) => .. }` on an opaque enum value → a Lean `match` with one arm per variant in
#     the order of the configuration (`_` expanded, so reordered or spelled-out arms regenerate the same text);
#   * `if xs.len() > i {A} else {B}` → `if h : i < xs.length then A else B`, and `xs[i]` inside A is
#     `xs[i]'h`; `xs[i]` anywhere else is outside the subset (there is no panic outcome here);
#   * the halt poll `runtime.env.halt.load(..)` as the condition of an `if` → `halt polls st`; on the
#     `false` side the poll counter is one higher (`polls` = number of polls that answered `false`);
#   * `table.get(&k)` on a configured table → `<lookup function> <table> k : Option _`;
#   * `s.parse::<i32>()` → `parseI32 s : Option Int` (`Ok` = `some`); `format!` → concatenation, an
#     `i32` shown by `intToStr`, a `usize` by `natToStr`;
#   * a parameter can be FIXED in the configuration (`repl_mode = false`): the code is partially evaluated.
# Leaves of a step: `.inl state` (next iteration) / `.inr (state, end)`; `return Err(ScriptError::Runtime(m,
# Some(meta)))` is `.inr (state, .fail m meta)` with the state AT THAT POINT (so the order of effects
# before an early return is visible).  A local declared before the loop (`end_reason`) must have its
# initial value again at every `.inl` leaf (checked), so every iteration starts from the same values.
# =============================================================================================

class RnConfig:
    def __init__(self, enums, fields, types, rets, callees, lookups, poll, invctx, fixed, world_ty="σ"):
        """enums: Rust enum -> {"lean": type, "variants": [(rust, lean ctor | None, [payload Lean types], rust arity)]};
        fields: (Lean type, Rust field) -> (Lean field, Lean type);
        types: Rust parameter type -> ("vars",) | ("world",) | ("varsval",) | ("drop",) | ("val", Lean type);
        rets: Rust return type -> ("unit",) | ("tuple", [Lean types]) | ("val", Lean type) | ("resunit", Lean type) | ("step",);
        callees: Rust fn -> {"lean": name, "params": [(name, type)], "ret": Rust return type, "render": optional};
        lookups: Rust path -> (Lean text applied to the key, Lean type of the value);
        poll: (Rust path, method, Lean function); invctx: name of the invocation-context struct;
        fixed: Rust parameter -> AST literal"""
        self.enums, self.fields, self.types, self.rets, self.callees = enums, fields, types, rets, callees
        self.lookups, self.poll, self.invctx, self.fixed, self.world_ty = lookups, poll, invctx, fixed, world_ty

class RnCtx:
    def __init__(self, cfg, fn_name, mode, ret):
        self.cfg, self.fn_name, self.mode, self.ret = cfg, fn_name, mode, ret
        self.names, self.places, self.in_loop, self.post, self.loop_locals = set(), {}, False, [], {}
        self.state_keys = []            # which of "@vars", "@st" a function hands back
        self.uses_sem = False
        self.untracked, self.aux, self.lean_name, self.fold_state = set(), [], "", []
    def fresh(self, rust_name):
        base = camel(rust_name) or "x"
        name, k = base, 1
        while name in self.names:
            k += 1; name = "%s%d" % (base, k)
        self.names.add(name)
        return name
    def after(self):
        c = RnCtx(self.cfg, self.fn_name, self.mode, self.ret)
        c.__dict__.update(self.__dict__)
        c.in_loop = False
        return c

def rn_opaque(ty, text):
    if ty == "Nat": return ("nat", text, 0)
    if ty == "Bool": return ("cond", ("b", text))
    if ty == "Str": return ("str", [("e", text)])
    if ty.startswith("Option "):
        inner = ty[len("Option "):]
        if inner.startswith("(") and inner.endswith(")"): inner = inner[1:-1]
        return ("opt", inner, ("opaque", text))
    return ("o", ty, text)

def rn_type(v):
    k = v[0]
    if k == "o": return v[1]
    if k == "opt":
        t = v[1]
        if t is None and v[2][0] == "some": t = rn_type(v[2][1])
        return None if t is None else "Option %s" % _par(t)
    if k == "list": return None if v[1] is None else "List %s" % _par(v[1])
    if k in ("nat", "cond", "char", "str"): return ftype(v)
    fail("a value of kind %s has no Lean type here" % k)

def rn_str(v):
    parts = []
    for kind, x in v[1]:
        if kind == "lit" and x == "": continue
        if kind == "lit" and parts and parts[-1][0] == "lit": parts[-1] = ("lit", parts[-1][1] + x)
        else: parts.append((kind, x))
    if not parts: return "[]"
    out = [lean_strlit(x) if kind == "lit" else x for kind, x in parts]
    return " ++ ".join(_fpar(x) if len(out) > 1 else x for x in out)

def rn_val(v):
    k = v[0]
    if k == "nat": return fnat(v)
    if k == "cond": return fcond_bool(v[1])
    if k == "str": return rn_str(v)
    if k in ("o", "list"): return v[-1]
    if k == "opt":
        st = v[2]
        if st[0] == "none": return "none"
        if st[0] == "some": return "some %s" % _fpar(rn_val(st[1]))
        return st[1]
    if k == "tuple": return "(%s)" % ", ".join(rn_val(x) for x in v[1])
    fail("a value of kind %s cannot be rendered" % k)

def rn_path(e):
    """`a.b.c` as a string, for locals / fields only"""
    e = _strip_clone(e)
    if e[0] == "id": return e[1]
    if e[0] == "field":
        b = rn_path(e[1])
        return None if b is None else b + "." + e[2]
    return None

def rn_get(path, env, ctx):
    cfg = ctx.cfg
    if path in ctx.places: return env.vals[ctx.places[path]]
    if path in env.vals: return env.vals[path]
    if path in cfg.lookups: return ("table", path)
    if "." in path:
        base, f = path.rsplit(".", 1)
        b = rn_get(base, env, ctx)
        if b[0] == "o" and (b[1], f) in cfg.fields:
            lf, lt = cfg.fields[(b[1], f)]
            return rn_opaque(lt, "%s.%s" % (_fpar(b[2]), lf))
        if b[0] == "ctxpath": return ("ctxpath", path)
        fail("unknown field %s" % path)
    if any(p.startswith(path + ".") for p in list(ctx.places) + list(cfg.lookups)): return ("ctxpath", path)
    fail("unknown variable %s" % path)

def rn_cmp(op, a, b):
    if a[0] == "o" and a[1] == "Int" and b[0] == "nat" and b[1] is None:
        x, y = a[2], str(b[2])
        lop = {"==": "=", "!=": "≠", "<": "<", ">": ">", "<=": "≤", ">=": "≥"}[op]
        if op == "!=": return ("not", ("p", "%s = %s" % (x, y), ("=", x, y)))
        return ("p", "%s %s %s" % (x, lop, y), (lop, x, y))
    if a[0] == "str" and b[0] == "str":
        if op not in ("==", "!="): fail("ordering of strings")
        x, y = rn_str(a), rn_str(b)
        c = ("p", "%s = %s" % (x, y), ("=", x, y))
        return ("not", c) if op == "!=" else c
    return fcmp(op, a, b)

def rn_eval(e, env, ctx, strict=True):
    cfg = ctx.cfg
    k = e[0]
    if k == "symval": return e[1]
    if k == "bool": return ("cond", T if e[1] else F)
    if k == "num": return ("nat", None, e[1])
    if k == "lit_str": return ("str", [("lit", e[1])])
    if k == "none": return ("opt", None, ("none",))
    if k == "some":
        v = rn_eval(e[1], env, ctx, strict)
        return ("opt", rn_type(v), ("some", v))
    if k == "ok": return ("res_ok", rn_eval(e[1], env, ctx, strict))
    if k == "errc": return ("res_err", rn_eval(e[1], env, ctx, strict))
    if k == "tuple":
        if not e[1]: return ("unit",)
        return ("tuple", [rn_eval(x, env, ctx, strict) for x in e[1]])
    if k in ("id", "field"):
        path = rn_path(e)
        if path is None: fail("unsupported field access")
        return rn_get(path, env, ctx)
    if k == "refmut": fail("`&mut` outside a call argument")
    if k == "not":
        v = rn_eval(e[1], env, ctx, strict)
        if v[0] != "cond": fail("`!` of a non-boolean")
        return ("cond", _cnot(v[1]))
    if k == "index":
        xs, i = rn_eval(e[1], env, ctx, strict), rn_eval(e[2], env, ctx, strict)
        if xs[0] != "o" or not xs[1].startswith("List ") or i[0] != "nat": fail("unsupported indexing")
        h = env.vals.get(("lenfact", xs[2], fnat(i)))
        if h is None: fail("`xs[i]` outside a test `xs.len() > i` (there is no panic outcome in this translation)")
        return rn_opaque(xs[1][len("List "):], "%s[%s]'%s" % (_fpar(xs[2]), fnat(i), h))
    if k == "bin":
        op = e[1]
        if op in ("&&", "||"):
            a, b = rn_eval(e[2], env, ctx, strict), rn_eval(e[3], env, ctx, False)
            if a[0] != "cond" or b[0] != "cond": fail("`%s` of non-booleans" % op)
            return ("cond", _cand(a[1], b[1]) if op == "&&" else _cor(a[1], b[1]))
        a, b = rn_eval(e[2], env, ctx, strict), rn_eval(e[3], env, ctx, strict)
        if op == "+":
            if a[0] != "nat" or b[0] != "nat" or b[1] is not None: fail("unsupported arithmetic")
            return ("nat", a[1], a[2] + b[2])
        if op == "-": fail("subtraction is outside the subset of the fifth executor")
        return ("cond", rn_cmp(op, a, b))
    if k == "macro":
        if e[1] == "vec":
            vals = [rn_eval(a, env, ctx, strict) for a in e[2]]
            ts = set(rn_type(v) for v in vals)
            if len(ts) > 1: fail("vec! of different types")
            return ("list", ts.pop() if ts else None, "[%s]" % ", ".join(rn_val(v) for v in vals))
        if e[1] == "format":
            if not e[2] or e[2][0][0] != "lit_str": fail("format! without a literal")
            chunks, args = e[2][0][1].split("{}"), e[2][1:]
            if len(chunks) != len(args) + 1 or "{" in "".join(chunks): fail("unsupported format string")
            pieces = []
            for i, ch in enumerate(chunks):
                pieces.append(("lit", ch))
                if i < len(args): pieces += rn_show(rn_eval(args[i], env, ctx, strict))
            return ("str", pieces)
        fail("unsupported macro %s!" % e[1])
    if k in ("path", "pathcall"):
        en, vn, args = e[1], e[2], (e[3] if k == "pathcall" else [])
        if en == "ScriptError" and vn == "Runtime" and len(args) == 2:
            m, mi = rn_eval(args[0], env, ctx, strict), rn_eval(args[1], env, ctx, strict)
            if m[0] != "str" or mi[0] != "opt" or mi[2][0] != "some" or rn_type(mi[2][1]) != "Meta":
                fail("ScriptError::Runtime(..) needs a text and Some(meta info)")
            return ("scripterr", m, mi[2][1])
        if en in cfg.enums:
            for rv, lv, tys, arity in cfg.enums[en]["variants"]:
                if rv == vn:
                    if lv is None or arity != len(tys) or len(args) != arity: fail("the variant %s::%s cannot be built here" % (en, vn))
                    vals = [rn_eval(a, env, ctx, strict) for a in args]
                    for v, t in zip(vals, tys):
                        vt = rn_type(v)
                        if vt is not None and vt != t: fail("%s::%s(..) of a %s" % (en, vn, vt))
                    return ("o", cfg.enums[en]["lean"], " ".join(["." + lv] + [_fpar(rn_val(v)) for v in vals]))
            fail("unknown variant %s::%s" % (en, vn))
        if en == "String" and vn == "new" and not args: return ("str", [])
        fail("unsupported path %s::%s" % (en, vn))
    if k == "struct":
        if e[1] != cfg.invctx: fail("unsupported struct literal %s" % e[1])
        return ("invctx", {f: (rn_path(x), x) for f, x in e[2]})
    if k == "call": return rn_call(e, env, ctx, strict)
    if k == "method": return rn_method(e, env, ctx, strict)
    fail("unsupported expression %r" % (k,))

def rn_show(v):
    """the pieces `{}` shows a value as"""
    if v[0] == "str": return list(v[1])
    if v[0] == "nat": return [("e", "natToStr %s" % _fpar(fnat(v)))]
    if v[0] == "o" and v[1] == "Int": return [("e", "intToStr %s" % _fpar(v[2]))]
    fail("a value of kind %s cannot be shown" % v[0])

def rn_place_of(a, ctx, kind):
    """the state key an argument `&mut place` / `place` (a reborrow) stands for"""
    inner = a[1] if a[0] == "refmut" else a
    path = rn_path(inner)
    if path is None or path not in ctx.places: fail("a %s argument must be one of the configured places" % kind)
    key = ctx.places[path]
    if key != {"vars": "@vars", "varsval": "@vars", "world": "@st"}[kind]: fail("the place %s is not a %s" % (path, kind))
    return key

def rn_call(e, env, ctx, strict):
    cfg = ctx.cfg
    name, args = e[1], e[2]
    if name not in cfg.callees: fail("call of the unknown function %s" % name)
    if not strict: fail("a call in a short-circuited operand")
    cal = cfg.callees[name]
    if len(args) != len(cal["params"]): fail("wrong number of arguments in a call of %s" % name)
    vals, mut_vars, world = [], False, False
    for (pn, pt), a in zip(cal["params"], args):
        if pt not in cfg.types: fail("parameter type %s of %s" % (pt, name))
        role = cfg.types[pt]
        if role[0] == "drop": continue
        if role[0] in ("vars", "varsval", "world"):
            rn_place_of(a, ctx, role[0])
            if role[0] == "vars": mut_vars = True
            if role[0] == "world": world = True
            continue
        v = rn_eval(a, env, ctx, strict)
        vt = rn_type(v)
        if vt is not None and vt != role[1]: fail("argument %s of %s has the type %s, not %s" % (pn, name, vt, role[1]))
        vals.append((pn, _fpar(rn_val(v))))
    reads_vars = any(cfg.types[pt][0] in ("vars", "varsval") for pn, pt in cal["params"])
    if "render" in cal:
        text = cal["render"](dict(vals), rn_val(env.vals["@vars"]) if reads_vars else None)
    else:
        parts = [cal["lean"]]
        if world:
            parts.append("sem"); ctx.uses_sem = True
        if reads_vars: parts.append(_fpar(rn_val(env.vals["@vars"])))
        if world: parts.append(_fpar(rn_val(env.vals["@st"])))
        text = " ".join(parts + [x for _, x in vals])
    ret = cfg.rets.get(cal["ret"])
    if ret is None: fail("return type %s of %s" % (cal["ret"], name))
    comps = []                                   # (hint, Lean type | "@vars" | "@st")
    if ret[0] == "tuple": comps += [("r", t) for t in ret[1]]
    elif ret[0] in ("val", "resunit"): comps.append(("r", ret[1]))
    elif ret[0] != "unit": fail("a call of a function returning %s" % cal["ret"])
    if mut_vars: comps.append(("vars", "@vars"))
    if world: comps.append(("st", "@st"))
    if len(comps) == 1:
        if comps[0][1] == "@vars":
            env.vals["@vars"] = ("o", "Vars", text); return ("unit",)
        if comps[0][1] == "@st": fail("a call that only changes the world")
        return rn_opaque(comps[0][1], text)
    raise _Guard(("calltuple", text, comps, ret, e))

def rn_method(e, env, ctx, strict):
    cfg = ctx.cfg
    recv, m, args = e[1], e[2], e[3]
    if m in ("clone", "to_owned", "as_str", "as_ref") and not args:
        return rn_eval(recv, env, ctx, strict)
    path = rn_path(recv)
    if path is not None and cfg.poll and (path, m) == cfg.poll[:2]:
        fail("the halt poll anywhere but as the condition of an `if`")
    if path in cfg.lookups and m == "get" and len(args) == 1:
        kv = rn_eval(args[0], env, ctx, strict)
        if kv[0] != "str": fail("table lookup with a key that is not a text")
        fn, vt = cfg.lookups[path]
        return ("opt", vt, ("opaque", "%s %s" % (fn, _fpar(rn_str(kv)))))
    if path in ctx.places and ctx.places[path] == "@st" and m == "get_for_use" and len(args) == 1:
        kv = rn_eval(args[0], env, ctx, strict)
        if kv[0] != "str": fail("get_for_use of something that is not a text")
        return ("cmdlookup", rn_str(kv))
    if path in ctx.places and ctx.places[path] == "@table" and m == "insert" and len(args) == 2:
        if not strict: fail("a map update in a short-circuited operand")
        kv, vv = rn_eval(args[0], env, ctx, strict), rn_eval(args[1], env, ctx, strict)
        if kv[0] != "str" or vv[0] != "nat": fail("unsupported insert into the table")
        env.vals["@table"] = ("o", rn_type(env.vals["@table"]), "tableInsert %s %s %s" % (_fpar(rn_val(env.vals["@table"])), _fpar(rn_str(kv)), _fpar(fnat(vv))))
        return ("unit",)
    if path in ctx.places and ctx.places[path] == "@vars" and m in ("insert", "remove"):
        if not strict: fail("a map update in a short-circuited operand")
        vals = [rn_eval(a, env, ctx, strict) for a in args]
        if [v[0] for v in vals] != ["str"] * (2 if m == "insert" else 1): fail("unsupported %s" % m)
        cur = _fpar(rn_val(env.vals["@vars"]))
        env.vals["@vars"] = ("o", "Vars", "Vars.%s %s %s" % ("set" if m == "insert" else "erase", cur, " ".join(_fpar(rn_str(v)) for v in vals)))
        return ("unit",)
    r = rn_eval(recv, env, ctx, strict)
    if r[0] == "cmdinst" and m == "run" and len(args) == 1:
        if not strict: fail("a command run in a short-circuited operand")
        a = rn_eval(args[0], env, ctx, strict)
        if a[0] != "invctx": fail("run(..) of something that is not the invocation context")
        raise _Guard(("run", r, a, path, e))
    if r[0] == "cmdinst_used": fail("a command instance run twice")
    if r[0] == "opt":
        st = r[2]
        if m in ("is_none", "is_some") and not args:
            c = T if st[0] == "none" else F if st[0] == "some" else ("b", "%s.isNone" % _fpar(st[1]))
            return ("cond", c if m == "is_none" else _cnot(c))
        if m == "unwrap" and not args:
            if st[0] == "some": return st[1]
            fail("unwrap() of an option not known to be Some (there is no panic outcome in this translation)")
        if m == "unwrap_or" and len(args) == 1:
            d = rn_eval(args[0], env, ctx, strict)
            if st[0] == "some": return st[1]
            if st[0] == "none": return d
            return rn_opaque(r[1], "%s.getD %s" % (_fpar(st[1]), _fpar(rn_val(d))))
        fail("unsupported method .%s of an Option" % m)
    if r[0] == "str":
        if m in ("to_string", "to_owned") and not args: return r
        if m == "parse::<i32>" and not args: return ("resopt", "Int", "parseI32 %s" % _fpar(rn_str(r)))
        fail("unsupported method .%s of a text" % m)
    if r[0] == "nat":
        if m == "to_string" and not args: return ("str", rn_show(r))
        fail("unsupported method .%s of an integer" % m)
    if r[0] == "o" and r[1].startswith("List "):
        if m == "len" and not args: return ("nat", "%s.length" % _fpar(r[2]), 0)
        fail("unsupported method .%s of a vector" % m)
    fail("unsupported method .%s" % m)

# ------------------------------------------------------------------ execution of the fifth executor

def rn_state(env, ctx):
    if ctx.mode == "step":
        return "{ line := %s, polls := %s, vars := %s, st := %s }" % tuple(rn_val(env.vals[k]) for k in ("@line", "@polls", "@vars", "@st"))
    return [rn_val(env.vals[k]) for k in ctx.state_keys]

def rn_check_leaf(env, ctx):
    for n, v in env.vals.items():
        if isinstance(v, tuple) and v and v[0] == "cmdinst":
            fail("a command instance is looked up but not run on some path")

def rn_fold_key(tgt, ctx):
    return ctx.places.get(tgt, tgt)

def rn_next(env, ctx):
    rn_check_leaf(env, ctx)
    if ctx.mode == "fold":
        vals = [rn_val(env.vals[rn_fold_key(t_, ctx)]) for t_ in ctx.fold_state]
        return ("leaf", vals[0] if len(vals) == 1 else "(%s)" % ", ".join(vals))
    for n, v0 in ctx.loop_locals.items():
        if env.vals.get(n) != v0: fail("the local %s, declared before the loop, is changed by an iteration that goes on" % n)
    return ("leaf", ".inl %s" % rn_state(env, ctx))

def rn_result(e, env, ctx):
    if e[0] == "ifexpr": return rn_exec([e[1]], env, ctx)
    if e[0] == "matchexpr": return rn_exec([("match", e[1], e[2])], env, ctx)
    v = rn_eval(e, env, ctx)
    return rn_result_val(v, env, ctx)

def rn_result_val(v, env, ctx):
    rn_check_leaf(env, ctx)
    if ctx.mode == "step":
        if v[0] == "res_ok" and v[1][0] == "tuple" and len(v[1][1]) == 2 and v[1][1][0][0] == "ctxpath" and rn_type(v[1][1][1]) == "RunEnd":
            return ("leaf", ".inr (%s, %s)" % (rn_state(env, ctx), rn_val(v[1][1][1])))
        if v[0] == "res_err" and v[1][0] == "scripterr":
            return ("leaf", ".inr (%s, .fail %s %s)" % (rn_state(env, ctx), _fpar(rn_str(v[1][1])), _fpar(rn_val(v[1][2]))))
        fail("unsupported result of the loop's function")
    ret = ctx.ret
    comps = []
    if ret[0] == "unit":
        # a unit function cannot end in a value: a pure one here is the thrown-away value of a `match .. ;`
        if v[0] not in ("unit",) + RN_PURE: fail("a value returned from a unit function")
    elif ret[0] == "tuple":
        if v[0] != "tuple" or len(v[1]) != len(ret[1]): fail("the result is not a tuple of the right size")
        for x, t in zip(v[1], ret[1]):
            xt = rn_type(x)
            if xt is not None and xt != t: fail("a result component has the type %s, not %s" % (xt, t))
            comps.append(rn_val(x))
    elif ret[0] == "resunit":
        if v[0] == "res_ok" and v[1][0] == "unit": comps.append("none")
        elif v[0] == "res_err" and v[1][0] == "str": comps.append("some %s" % _fpar(rn_str(v[1])))
        else: fail("unsupported result of a Result<(), String> function")
    elif ret[0] == "val":
        xt = rn_type(v)
        if xt is not None and xt != ret[1]: fail("the result has the type %s, not %s" % (xt, ret[1]))
        comps.append(rn_val(v))
    elif ret[0] == "place":
        # the function returns a struct of which ONE field is modelled
        if v[0] != "ctxpath" or ctx.places.get(v[1] + "." + ret[3]) != ret[1]: fail("the result is not the struct holding %s" % ret[3])
        comps.append(rn_val(env.vals[ret[1]]))
    comps += rn_state(env, ctx)
    return ("leaf", comps[0] if len(comps) == 1 else "(%s)" % ", ".join(comps))

def rn_exec(stmts, env, ctx):
    if not stmts:
        if ctx.in_loop: return rn_next(env, ctx)
        if ctx.mode == "fn" and ctx.ret[0] == "unit": return rn_result_val(("unit",), env, ctx)
        fail("control reaches the end of %s without a result" % ctx.fn_name)
    s, rest = stmts[0], stmts[1:]
    env0 = env.copy()
    try:
        return rn_exec1(s, rest, env.copy(), ctx)
    except _Guard as g:
        w = g.what
        env = env0
        if w[0] == "calltuple":
            text, comps, ret, ex = w[1], w[2], w[3], w[4]
            hints = None
            if s[0] == "let" and s[3] is ex and s[1][0] == "ptuple" and ret[0] == "tuple" and len(s[1][1]) == len(ret[1]): hints = s[1][1]
            pats, vals = [], []
            for i, (hint, t) in enumerate(comps):
                if t in ("@vars", "@st"):
                    var = ctx.fresh(hint)
                    env.vals[t] = ("o", "Vars" if t == "@vars" else ctx.cfg.world_ty, var)
                else:
                    var = ctx.fresh(hints[i] if hints else hint)
                    if ret[0] == "resunit": vals.append(("resunit", "Str", var))
                    else: vals.append(rn_opaque(t, var))
                pats.append(var)
            value = ("unit",) if not vals else vals[0] if ret[0] != "tuple" else ("tuple", vals)
            return ("matchtuple", text, "(%s)" % ", ".join(pats), rn_exec([_subst(s, ex, ("symval", value))] + rest, env, ctx))
        if w[0] == "run":
            inst, a, ipath, ex = w[1], w[2], w[3], w[4]
            text = rn_sem_call(inst, a, env, ctx)
            r, vars2, st2 = ctx.fresh("result"), ctx.fresh("vars"), ctx.fresh("st")
            none_stmts, none_env, none_ctx = inst[2]
            t_none = rn_exec(none_stmts, none_env.copy(), none_ctx)
            env.vals["@vars"], env.vals["@st"] = ("o", "Vars", vars2), ("o", ctx.cfg.world_ty, st2)
            for n, v in list(env.vals.items()):
                if v is inst: env.vals[n] = ("cmdinst_used",)
            t_some = rn_exec([_subst(s, ex, ("symval", ("o", "CmdResult", r)))] + rest, env, ctx)
            return ("matchsem", text, "(%s, %s, %s)" % (r, vars2, st2), t_some, t_none)
        raise

def rn_sem_call(inst, a, env, ctx):
    """`instance.run(CommandInvocationContext { .. })` as a call of the parameter `sem`"""
    fields = a[1]
    want = {"state": "@st", "commands": "@st", "env": "@st", "variables": "@vars"}
    if sorted(fields) != sorted(list(want) + ["arguments", "output_variable", "instructions", "line"]):
        fail("unexpected fields of the invocation context: %s" % sorted(fields))
    for f, key in want.items():
        p = fields[f][0]
        if p is None or ctx.places.get(p) != key: fail("the field %s of the invocation context is not the %s" % (f, "world" if key == "@st" else "variables"))
    ins = rn_eval(fields["instructions"][1], env, ctx)
    if not (ins[0] == "dropped" or (ins[0] == "o" and ins[1] == "List Instruction")): fail("the field instructions of the invocation context")
    args = rn_eval(fields["arguments"][1], env, ctx)
    out = rn_eval(fields["output_variable"][1], env, ctx)
    line = rn_eval(fields["line"][1], env, ctx)
    if rn_type(args) not in (None, "List Str") or out[0] != "opt" or rn_type(out) not in (None, "Option Str") or line[0] != "nat":
        fail("ill-typed invocation context")
    ctx.uses_sem = True
    return "sem %s %s %s %s %s %s" % (_fpar(inst[1]), _fpar(rn_val(args)), _fpar(rn_val(out)), _fpar(fnat(line)),
                                     _fpar(rn_val(env.vals["@vars"])), _fpar(rn_val(env.vals["@st"])))

def rn_assign(path, v, env, ctx):
    if path in ctx.places:
        key = ctx.places[path]
        old = env.vals[key]
        if v[0] in ("o", "nat") and rn_type(v) == rn_type(old):
            env.vals[key] = v; return
        fail("ill-typed assignment to %s" % path)
    if "." in path or path not in env.vals: fail("assignment to the unknown %s" % path)
    old = env.vals[path]
    if v[0] in ("res_ok", "res_err", "cmdlookup", "cmdinst", "invctx", "resopt", "resunit", "unit"): fail("unsupported assignment to %s" % path)
    to, tn = (rn_type(old) if old[0] not in ("scripterr", "tuple") else old[0]), (rn_type(v) if v[0] not in ("scripterr", "tuple") else v[0])
    if to is not None and tn is not None and to != tn: fail("ill-typed assignment to %s (%s := %s)" % (path, to, tn))
    if tn is None and to is not None and v[0] == "opt": v = ("opt", old[1], v[2])
    env.vals[path] = v

RN_PURE = ("opt", "str", "nat", "cond", "o", "list")

def _rn_diverges(block):
    return bool(block) and block[-1][0] in ("break", "return")

def rn_exec1(s, rest, env, ctx):
    cfg = ctx.cfg
    k = s[0]
    if k == "let":
        pat, e = s[1], s[3]
        if e[0] == "ifexpr":
            def tail(block):
                if block is None: fail("`if` expression without `else`")
                if len(block) == 1 and block[0][0] in ("if", "iflet"): return [_lift_if(block[0], tail)]
                if _rn_diverges(block): return list(block)
                if not block or block[-1][0] != "expr": fail("`if` expression without a value")
                return list(block[:-1]) + [("let", pat, s[2], block[-1][1])]
            return rn_exec([_lift_if(e[1], tail)] + rest, env, ctx)
        if e[0] == "matchexpr":
            arms = [(p_, rn_arm_tail(b, lambda x: ("let", pat, s[2], x))) for p_, b in e[2]]
            return rn_exec([("match", e[1], arms)] + rest, env, ctx)
        news = getattr(cfg, "news", {})
        if e[0] == "pathcall" and e[2] == "new" and e[1] in news and pat[0] == "pid":
            # `let mut runtime = Runtime::new(..)`: the modelled fields get their initial values, the rest is not tracked
            for f, (key, ty, init) in news[e[1]]["fields"].items():
                ctx.places["%s.%s" % (pat[1], f)] = key
                env.vals[key] = ("o", ty, init)
            for f in news[e[1]]["untracked"]: ctx.untracked.add("%s.%s" % (pat[1], f))
            return rn_exec(rest, env, ctx)
        v = rn_eval(e, env, ctx)
        if pat[0] == "ptuple":
            if v[0] != "tuple" or len(v[1]) != len(pat[1]): fail("`let (..) =` of something that is not a tuple of that size")
            for n, x in zip(pat[1], v[1]): rn_declare(n, x, env, ctx)
        else:
            if v[0] in ("res_ok", "res_err", "unit", "resopt", "resunit", "cmdlookup"): fail("a value of kind %s kept in a local" % v[0])
            rn_declare(pat[1], v, env, ctx)
        return rn_exec(rest, env, ctx)
    if k == "assign":
        name, op, rhs = s[1], s[2], s[3]
        # the fourth parser keeps `a.b` only; longer places come as an expression statement (below)
        if op == "=" and rhs[0] == "matchexpr":
            arms = [(p_, rn_arm_tail(b, lambda x: ("assign", name, "=", x))) for p_, b in rhs[2]]
            return rn_exec([("match", rhs[1], arms)] + rest, env, ctx)
        if name in ctx.untracked and op == "=":
            return rn_exec(rest, env, ctx)            # a field the model does not have (`runtime.instructions = ..`)
        if op == "-=": fail("`-=` is outside the subset of the fifth executor")
        if op == "+=":
            return rn_exec([("assign", name, "=", ("bin", "+", _lv_expr(name), rhs))] + rest, env, ctx)
        rn_assign(name, rn_eval(rhs, env, ctx), env, ctx)
        return rn_exec(rest, env, ctx)
    if k == "exprstmt" or (k == "expr" and (rest or ctx.in_loop)):
        v = rn_eval(s[1], env, ctx)
        if v[0] not in ("unit",) + RN_PURE: fail("an expression statement without an effect the subset knows")
        return rn_exec(rest, env, ctx)                 # a pure value that is thrown away (`None => None,` … `;`)
    if k == "if":
        cond = s[1]
        neg, c0 = False, cond
        while c0[0] == "not": neg, c0 = not neg, c0[1]
        then_, else_ = (s[3] or [], s[2]) if neg else (s[2], s[3] or [])
        if c0[0] == "method" and cfg.poll and (rn_path(c0[1]), c0[2]) == cfg.poll[:2]:
            polls = env.vals["@polls"]
            e_false = env.copy()
            e_false.vals["@polls"] = ("nat", polls[1], polls[2] + 1)
            c = ("b", "%s %s %s" % (cfg.poll[2], _fpar(fnat(polls)), _fpar(rn_val(env.vals["@st"]))))
            return ("ite", c, rn_exec(list(then_) + rest, env.copy(), ctx), rn_exec(list(else_) + rest, e_false, ctx))
        if c0[0] == "bin" and c0[1] in (">", "<"):
            big, small = (c0[2], c0[3]) if c0[1] == ">" else (c0[3], c0[2])
            if big[0] == "method" and big[2] == "len" and not big[3]:
                xs, i = rn_eval(big[1], env, ctx), rn_eval(small, env, ctx)
                if xs[0] == "o" and xs[1].startswith("List ") and i[0] == "nat":
                    h = ctx.fresh("h")
                    e_then = env.copy()
                    e_then.vals[("lenfact", xs[2], fnat(i))] = h
                    return ("dite", h, "%s < %s.length" % (fnat(i), _fpar(xs[2])),
                            rn_exec(list(then_) + rest, e_then, ctx), rn_exec(list(else_) + rest, env.copy(), ctx))
        if c0[0] == "method" and c0[2] in ("is_none", "is_some") and not c0[3]:
            p = rn_path(c0[1])
            if p is not None and p in env.vals and env.vals[p][0] == "opt" and env.vals[p][2][0] == "opaque":
                v = env.vals[p]
                some_b, none_b = (then_, else_) if c0[2] == "is_some" else (else_, then_)
                var = ctx.fresh("v")
                e_some, e_none = env.copy(), env.copy()
                e_some.vals[p] = ("opt", v[1], ("some", rn_opaque(v[1], var)))
                e_none.vals[p] = ("opt", v[1], ("none",))
                return ("matchopt", v[2][1], var, rn_exec(list(some_b) + rest, e_some, ctx), rn_exec(list(none_b) + rest, e_none, ctx))
        c = rn_eval(c0, env, ctx)
        if c[0] != "cond": fail("non-boolean condition")
        if c[1] == T: return rn_exec(list(then_) + rest, env, ctx)
        if c[1] == F: return rn_exec(list(else_) + rest, env, ctx)
        return ("ite", c[1], rn_exec(list(then_) + rest, env.copy(), ctx), rn_exec(list(else_) + rest, env.copy(), ctx))
    if k == "iflet":
        return rn_match(s[2], [(s[1], s[3]), (("pwild",), s[4] or [])], rest, env, ctx)
    if k == "match":
        return rn_match(s[1], s[2], rest, env, ctx)
    if k == "foreach":
        return rn_foreach(s, rest, env, ctx)
    if k == "break":
        if ctx.mode == "fold": fail("`break` inside a `for x in xs`")
        if not ctx.in_loop: fail("`break` outside the loop")
        return rn_exec(list(ctx.post), env, ctx.after())
    if k == "return":
        if ctx.mode == "fold": fail("`return` inside a `for x in xs`")
        return rn_result(s[1], env, ctx)
    if k == "expr":
        return rn_result(s[1], env, ctx)
    fail("unsupported statement %r" % (k,))

def rn_foreach(s, rest, env, ctx):
    """`for x in &xs { body }`  →  `match List.foldl <fn>BodyGen <state> xs with | (a, b) => …`: the STATE is the
    tuple of the locals / places the body assigns (integers first, then by first assignment); the body becomes a
    definition of its own, `fun state x => state'`; `break` / `return` inside are outside the subset"""
    if ctx.mode != "fn" or ctx.in_loop: fail("`for x in xs` only at the top level of a function")
    xs = rn_eval(s[2], env, ctx)
    if xs[0] != "o" or not xs[1].startswith("List "): fail("`for x in xs` over something that is not a vector")
    elem_ty = xs[1][len("List "):]
    targets = []
    for tname in fassigned(s[3], []):
        if tname.endswith(".*"): fail("a `&mut` call inside a `for x in xs`")
        if (tname in ctx.places or tname in env.vals) and tname not in targets: targets.append(tname)
    if not targets: fail("a loop that assigns nothing")
    entry = [env.vals[rn_fold_key(t_, ctx)] for t_ in targets]
    types = [rn_type(v) for v in entry]
    if None in types: fail("the type of a loop local cannot be inferred")
    order = sorted(range(len(targets)), key=lambda i: (0 if types[i] == "Nat" else 1, i))
    targets, entry, types = [targets[i] for i in order], [entry[i] for i in order], [types[i] for i in order]
    benv = env.copy()
    for i, (t_, ty) in enumerate(zip(targets, types)):
        benv.vals[rn_fold_key(t_, ctx)] = rn_opaque(ty, fproj("s", i, len(targets)))
    x = ctx.fresh((s[1][0] if isinstance(s[1], list) else s[1]))
    benv.declare((s[1][0] if isinstance(s[1], list) else s[1]), rn_opaque(elem_ty, x))
    bctx = ctx.after()
    bctx.mode, bctx.in_loop, bctx.fold_state = "fold", True, targets
    tree = rn_exec(list(s[3]), benv, bctx)
    sty = " × ".join(_par(ty) if "×" in ty else ty for ty in types)
    bname = ctx.lean_name[:-3] + "BodyGen" if ctx.lean_name.endswith("Gen") else ctx.lean_name + "Body"
    ctx.aux.append("/-- one iteration of the `for %s in ..` of `%s`; the state `s` = (%s) -/\ndef %s (s : %s) (%s : %s) :\n    %s :=\n%s\n\n"
                   % ((s[1][0] if isinstance(s[1], list) else s[1]), ctx.fn_name, ", ".join(targets), bname, sty, x, elem_ty, sty, rn_render(tree, 1)))
    init = [rn_val(v) for v in entry]
    pats = []
    for t_, ty in zip(targets, types):
        var = ctx.fresh(t_.split(".")[-1])
        pats.append(var)
        env.vals[rn_fold_key(t_, ctx)] = rn_opaque(ty, var)
    call = "List.foldl %s %s %s" % (bname, init[0] if len(init) == 1 else "(%s)" % ", ".join(init), _fpar(xs[2]))
    after = rn_exec(rest, env, ctx)
    text = rn_render(after, 0)
    pats = [v if re.search(r"(?<![\w.'])%s(?![\w'])" % re.escape(v), text) else "_" for v in pats]
    return ("matchtuple", call, pats[0] if len(pats) == 1 else "(%s)" % ", ".join(pats), after)

def rn_arm_tail(body, mk):
    """an arm used as a value: its last expression becomes `mk(expr)`; a `match` / `if` in last
    position is entered; an arm that leaves stays"""
    if body and body[-1][0] == "expr": return list(body[:-1]) + [mk(body[-1][1])]
    if body and body[-1][0] in ("return", "break"): return list(body)
    if body and body[-1][0] == "match":
        return list(body[:-1]) + [("match", body[-1][1], [(p_, rn_arm_tail(b, mk)) for p_, b in body[-1][2]])]
    if body and body[-1][0] == "if" and body[-1][3] is not None:
        return list(body[:-1]) + [("if", body[-1][1], rn_arm_tail(body[-1][2], mk), rn_arm_tail(body[-1][3], mk))]
    if body and body[-1][0] == "iflet" and body[-1][4] is not None:
        return list(body[:-1]) + [("iflet", body[-1][1], body[-1][2], rn_arm_tail(body[-1][3], mk), rn_arm_tail(body[-1][4], mk))]
    fail("a match arm without a value")

def rn_declare(name, v, env, ctx):
    if name in ctx.places: fail("the place %s declared again" % name)
    env.declare(name, v)

def rn_match(scrut, arms, rest, env, ctx):
    cfg = ctx.cfg
    inner = _strip_clone(scrut)
    v = rn_eval(inner, env, ctx)
    path = rn_path(inner)
    def arm(kind):
        for p_, b in arms:
            if p_[0] == kind or p_[0] == "pwild": return p_, b
        fail("the match does not cover %s" % kind)
    if v[0] == "cmdlookup":
        p_, b = arm("psome")
        if p_[0] != "psome": fail("the looked-up command must be bound")
        np_, nb = arm("pnone")
        e_some = env.copy()
        inst = ("cmdinst", v[1], (list(nb) + rest, env.copy(), ctx))
        e_some.declare(p_[1], inst)
        return rn_exec(list(b) + rest, e_some, ctx)
    if v[0] in ("resopt", "resunit"):
        # Result as an option: resopt — Ok = some;  resunit (Result<(), String>) — Err = some
        some_k, none_k = ("pok", "perr") if v[0] == "resopt" else ("perr", "pok")
        p_, b = arm(some_k)
        np_, nb = arm(none_k)
        if np_[0] == none_k and v[0] == "resopt" and np_[1] != "_": fail("the error of parse() is not modelled")
        var = ctx.fresh(p_[1] if p_[0] == some_k and p_[1] != "_" else "v")
        e_some = env.copy()
        if p_[0] == some_k and p_[1] != "_": e_some.declare(p_[1], rn_opaque(v[1], var))
        return ("matchopt", v[2], var, rn_exec(list(b) + rest, e_some, ctx), rn_exec(list(nb) + rest, env.copy(), ctx))
    if v[0] == "opt":
        st = v[2]
        if st[0] == "none": return rn_exec(list(arm("pnone")[1]) + rest, env, ctx)
        p_, b = arm("psome")
        if st[0] == "some":
            e2 = env.copy()
            if p_[0] == "psome" and p_[1] != "_": e2.declare(p_[1], st[1])
            return rn_exec(list(b) + rest, e2, ctx)
        var = ctx.fresh(p_[1] if p_[0] == "psome" and p_[1] != "_" else "v")
        e_some, e_none = env.copy(), env.copy()
        inner_v = rn_opaque(v[1], var)
        if path is not None and path in env.vals:
            e_some.vals[path] = ("opt", v[1], ("some", inner_v))
            e_none.vals[path] = ("opt", v[1], ("none",))
        if p_[0] == "psome" and p_[1] != "_": e_some.declare(p_[1], inner_v)
        return ("matchopt", st[1], var, rn_exec(list(b) + rest, e_some, ctx), rn_exec(list(arm("pnone")[1]) + rest, e_none, ctx))
    if v[0] == "o":
        en = [n for n, info in cfg.enums.items() if info["lean"] == v[1]]
        if not en: fail("`match` on a value of type %s" % v[1])
        en = en[0]
        if v[2].startswith("."): fail("`match` on a constructor")
        out = []
        for rv, lv, tys, arity in cfg.enums[en]["variants"]:
            found = None
            for p_, b in arms:
                if p_[0] == "pwild" or (p_[0] == "penum" and p_[1] == en and p_[2] == rv):
                    found = (p_, b); break
                if p_[0] not in ("pwild", "penum") or (p_[0] == "penum" and p_[1] != en): fail("a pattern of another type in a match on %s" % en)
            if found is None: fail("the match does not cover %s::%s" % (en, rv))
            if lv is None: continue                # a variant the model does not have (cannot arise here)
            p_, b = found
            e2 = env.copy()
            names = []
            if p_[0] == "penum":
                if len(p_[3]) != arity: fail("pattern %s::%s with %d fields" % (en, rv, len(p_[3])))
                if arity != len(tys):
                    if any(x != "_" for x in p_[3]): fail("the payload of %s::%s cannot be bound" % (en, rv))
                    names = ["_"] * len(tys)
                else:
                    for x, t in zip(p_[3], tys):
                        if x == "_": names.append("_")
                        else:
                            var = ctx.fresh(x); names.append(var)
                            e2.declare(x, rn_opaque(t, var))
            else:
                names = ["_"] * len(tys)
            out.append((" ".join(["." + lv] + names), rn_exec(list(b) + rest, e2, ctx)))
        return ("matchenum", v[2], out)
    fail("unsupported `match`")

def rn_render(t, indent):
    pad = "  " * indent
    k = t[0]
    if k == "leaf": return pad + t[1]
    if k == "ite":
        return "%sif %s then\n%s\n%selse\n%s" % (pad, fcond_prop(t[1]), rn_render(t[2], indent + 1), pad, rn_render(t[3], indent + 1))
    if k == "dite":
        return "%sif %s : %s then\n%s\n%selse\n%s" % (pad, t[1], t[2], rn_render(t[3], indent + 1), pad, rn_render(t[4], indent + 1))
    if k == "matchopt":
        return "%smatch %s with\n%s| none =>\n%s\n%s| some %s =>\n%s" % (pad, t[1], pad, rn_render(t[4], indent + 1), pad, t[2], rn_render(t[3], indent + 1))
    if k == "matchsem":
        return "%smatch %s with\n%s| none =>\n%s\n%s| some %s =>\n%s" % (pad, t[1], pad, rn_render(t[4], indent + 1), pad, t[2], rn_render(t[3], indent + 1))
    if k == "matchtuple":
        return "%smatch %s with\n%s| %s =>\n%s" % (pad, t[1], pad, t[2], rn_render(t[3], indent + 1))
    if k == "matchenum":
        return "%smatch %s with\n%s" % (pad, t[1], "\n".join("%s| %s =>\n%s" % (pad, p_, rn_render(b, indent + 1)) for p_, b in t[2]))
    fail("render: %r" % (k,))

def rn_ret_type(ret, state_keys, world_ty):
    comps = []
    if ret[0] == "tuple": comps += ret[1]
    elif ret[0] in ("val", "resunit"): comps.append(ret[1] if ret[0] == "val" else "Option %s" % ret[1])
    elif ret[0] == "place": comps.append(ret[2])
    comps += [{"@vars": "Vars", "@st": world_ty}[k] for k in state_keys]
    return " × ".join(_par(c) if "×" in c else c for c in comps)

def rn_translate_fn(src, name, cfg, lean_name):
    """a whole function: `def <lean_name> [sem] [vars] [st] <value parameters> : <result> × [Vars] × [σ]`"""
    sig = fn_signature(src, name)
    body = fn_body(src, name)
    if sig is None or body is None: fail("%s not found" % name)
    params, ret = sig
    if ret not in cfg.rets: fail("return type %s of %s" % (ret, name))
    ctx = RnCtx(cfg, name, "fn", cfg.rets[ret])
    ctx.lean_name = lean_name
    ctx.names.update(["sem", "halt", "labels", "s"])
    env = FEnv()
    lvals, has_vars, has_world, vars_name = [], False, False, None
    for pn, pt in params:
        if pt not in cfg.types: fail("parameter type %s of %s" % (pt, name))
        role = cfg.types[pt]
        if role[0] == "drop":
            env.declare(pn, ("dropped",)); continue
        if role[0] in ("vars", "varsval"):
            if has_vars: fail("two parameters for the variables")
            has_vars = True
            vars_name = ctx.fresh(pn)
            ctx.places[pn] = "@vars"
            env.vals["@vars"] = ("o", "Vars", vars_name)
            if role[0] == "vars": ctx.state_keys.append("@vars")
            continue
        if role[0] == "world":
            ctx.places[pn] = "@st"; has_world = True
            continue
        if pn in cfg.fixed:
            env.declare(pn, rn_eval(cfg.fixed[pn], env, ctx)); continue
        ln = ctx.fresh(pn)
        env.declare(pn, rn_opaque(role[1], ln))
        lvals.append("(%s : %s)" % (ln, role[1]))
    if has_world:
        st = ctx.fresh("st")
        env.vals["@st"] = ("o", cfg.world_ty, st)
        ctx.state_keys.append("@st")
    ctx.state_keys.sort(key=["@vars", "@st"].index)
    tree = rn_exec(fparse_block(body), env, ctx)
    lparams = []
    if ctx.uses_sem or has_world: lparams += ["{%s : Type}" % cfg.world_ty, "(sem : CmdSem %s)" % cfg.world_ty]
    if has_vars: lparams.append("(%s : Vars)" % vars_name)
    if has_world: lparams.append("(%s : %s)" % (st, cfg.world_ty))
    lparams += lvals
    return "".join(ctx.aux) + "/-- `%s` -/\ndef %s %s :\n    %s :=\n%s\n" % (name, lean_name, " ".join(lparams), rn_ret_type(ctx.ret, ctx.state_keys, cfg.world_ty), rn_render(tree, 1))

def rn_translate_step(src, name, cfg, lean_name, places, presets, header, result_ty, rs="rs"):
    """ONE ITERATION of the single top-level `loop` of `fn name`, `break` continuing with the code after
    the loop.  places: Rust path -> "@line" | "@vars" | "@st"; presets: Rust local (declared before the
    loop) -> value it has in every iteration; locals of an enum type declared before the loop with a
    constructor as initial value are picked up from their declaration"""
    body = fn_body(src, name)
    sig = fn_signature(src, name)
    if body is None or sig is None: fail("%s not found" % name)
    stmts = fparse_block(body)
    loops = [i for i, s in enumerate(stmts) if s[0] == "loop"]
    if len(loops) != 1 or any(s[0] in ("for", "foreach") for s in stmts): fail("%s must have exactly one top-level `loop`" % name)
    pre, loop, post = stmts[:loops[0]], stmts[loops[0]], stmts[loops[0] + 1:]
    ctx = RnCtx(cfg, name, "step", ("step",))
    ctx.names.update(["sem", "halt", "labels", "is", rs])
    ctx.places = dict(places)
    ctx.uses_sem = True
    env = FEnv()
    env.vals["@line"] = ("nat", "%s.line" % rs, 0)
    env.vals["@polls"] = ("nat", "%s.polls" % rs, 0)
    env.vals["@vars"] = ("o", "Vars", "%s.vars" % rs)
    env.vals["@st"] = ("o", cfg.world_ty, "%s.st" % rs)
    for pn, pt in sig[0]:
        if pn in cfg.fixed: env.declare(pn, rn_eval(cfg.fixed[pn], env, ctx))
    for n, v in presets.items(): env.declare(n, v)
    for s in pre:
        if s[0] != "let" or s[1][0] != "pid": fail("unsupported statement before the loop of %s" % name)
        n = s[1][1]
        if n in places or n in presets: continue          # configured: how the loop's state is read
        if s[3][0] == "path" and s[3][1] in cfg.enums:
            v = rn_eval(s[3], env, ctx)
            env.declare(n, v); ctx.loop_locals[n] = v
            continue
        fail("the local %s declared before the loop of %s is not configured" % (n, name))
    ctx.in_loop, ctx.post = True, post
    tree = rn_exec(list(loop[1]), env, ctx)
    return "%s\ndef %s %s :\n    %s :=\n%s\n" % (header, lean_name, "{%s : Type} (sem : CmdSem %s) (is : List Instruction) (labels : List (Str × Nat))\n    (halt : Nat → %s → Bool) (%s : RunState %s)" % (cfg.world_ty, cfg.world_ty, cfg.world_ty, rs, cfg.world_ty), result_ty, rn_render(tree, 1))

# =============================================================================================
# seventh executor (`sb_…`): a function that BUILDS A TEXT from a list of values and hands it on
# (`parse` of duckscript_sdk/src/utils/eval.rs — the C09 path).  It uses the fourth executor's
# parser (`fparse_block`) and accepts exactly this shape:
#
#     let mut BUF = String::new();
#     for X in XS { body }                  body: if / else if / else over conditions on X,
#                                                 BUF.push('c'); BUF.push_str("text" | X | &X);
#                                                 BUF.push_str(&format!("..{}..", X));
#     let L = BUF.replace(p, "r")….;        (any number of `let`s; p one character; `.to_string()`,
#                                            `.clone()` are the identity)
#     match path::callee(&L) { Ok(v) => Ok(v[n].clone()), Err(e) => Err(..) }
#
#   conditions   X.is_empty()   X.starts_with(p)   X.ends_with(p)   X.contains(c)   X == "text"
#                !c   c && c   c || c      (p: a character or a non-empty text, c: ONE character)
#
# How things are rendered (text = `List Char`):
#   * the loop body is executed symbolically along every path; what a path appends to BUF is a
#     concatenation of literal pieces (adjacent ones merged, so `push('"'); push('"')` and
#     `push_str("\"\"")` are the same text) and of X; a condition already decided on the path is
#     folded (the second `if X.contains(" ")` of the source costs nothing); `if !c {A} else {B}`
#     is `if c then B else A`;
#   * the body up to and including its last `if` is `<name>ArgGen X` (what is written FOR the
#     value), the straight-line rest — it must not mention X — is the separator; the loop is
#     `XS.foldl (fun BUF X => BUF ++ <name>ArgGen X ++ separator) []`;
#   * `s.replace(c, "r")` → `replaceChar c r s` (generated prelude: every `c` replaced by `r`);
#   * `v[n]` → `v[n]?` with `.panic` for `none`; `Err(..)` → `.err` (the message is not modelled).
# =============================================================================================

SB_PRELUDE = (
    "/-- `str::replace(c, r)` for a one-character pattern `c`: every `c` becomes the text `r` -/\n"
    "def replaceChar (c : Char) (r : Str) (s : Str) : Str := s.flatMap fun x => if x = c then r else [x]\n\n"
    "/-- outcome of the translated function: the value, `Err(_)` (message not modelled), or a Rust panic -/\n"
    "inductive EvalOut (α : Type) where\n  | ok (a : α)\n  | err\n  | panic\nderiving DecidableEq, Repr\n\n"
    "def EvalOut.value? {α : Type} : EvalOut α → Option α\n  | .ok a => some a\n  | _ => none\n\n")

def sb_lit(s):
    return "[" + ", ".join(lean_char(c) for c in s) + "]"

def sb_pat(e, one_char=False):
    """a character or text literal used as a pattern"""
    if e[0] == "char": s = e[1]
    elif e[0] == "lit_str": s = e[1]
    else: fail("a pattern that is not a literal")
    if s == "": fail("an empty pattern")
    if one_char and len(s) != 1: fail("a pattern of more than one character where only one is supported")
    return s

def sb_cond(e, var):
    k = e[0]
    if k == "bool": return ("const", e[1])
    if k == "not": return ("not", sb_cond(e[1], var))
    if k == "bin" and e[1] in ("&&", "||"):
        return ("and" if e[1] == "&&" else "or", sb_cond(e[2], var), sb_cond(e[3], var))
    if k == "bin" and e[1] in ("==", "!="):
        a, b = e[2], e[3]
        if b == ("id", var): a, b = b, a
        if a != ("id", var) or b[0] != "lit_str": fail("a comparison outside the subset")
        c = ("atom", "%s == %s" % (camel(var), sb_lit(b[1])))
        return c if e[1] == "==" else ("not", c)
    if k == "method" and e[1] == ("id", var):
        m, args = e[2], e[3]
        if m == "is_empty" and not args: return ("atom", "%s.isEmpty" % camel(var))
        if m == "starts_with" and len(args) == 1: return ("atom", "%s.isPrefixOf %s" % (sb_lit(sb_pat(args[0])), camel(var)))
        if m == "ends_with" and len(args) == 1: return ("atom", "%s.isSuffixOf %s" % (sb_lit(sb_pat(args[0])), camel(var)))
        if m == "contains" and len(args) == 1: return ("atom", "%s.contains %s" % (camel(var), lean_char(sb_pat(args[0], True))))
    fail("a condition outside the subset")

def sb_simp(c, known):
    k = c[0]
    if k == "const": return c
    if k == "atom": return ("const", known[c[1]]) if c[1] in known else c
    if k == "not":
        a = sb_simp(c[1], known)
        if a[0] == "const": return ("const", not a[1])
        if a[0] == "not": return a[1]
        return ("not", a)
    a, b = sb_simp(c[1], known), sb_simp(c[2], known)
    unit = (k == "and")
    for x, y in ((a, b), (b, a)):
        if x[0] == "const": return y if x[1] == unit else ("const", not unit)
    return (k, a, b)

def sb_rcond(c, top=True):
    k = c[0]
    if k == "atom": return c[1] if top else "(%s)" % c[1]
    if k == "not": return "!%s" % sb_rcond(c[1], False)
    s = (" && " if k == "and" else " || ").join(sb_rcond(x, False) for x in c[1:])
    return s if top else "(%s)" % s

def sb_pieces(e, var):
    """what `push_str(e)` appends"""
    if e[0] == "lit_str": return [("lit", e[1])]
    if e == ("id", var): return [("var",)]
    if e[0] == "method" and e[2] in ("clone", "to_string", "as_str") and not e[3]: return sb_pieces(e[1], var)
    if e[0] == "macro" and e[1] == "format" and e[2] and e[2][0][0] == "lit_str":
        fmt, args = e[2][0][1], list(e[2][1:])
        if "{{" in fmt or "}}" in fmt: fail("escaped braces in format!")
        parts = fmt.split("{}")
        if len(parts) != len(args) + 1 or "{" in "".join(parts) or "}" in "".join(parts): fail("format! outside the subset")
        out = [("lit", parts[0])]
        for a, p in zip(args, parts[1:]):
            out += sb_pieces(a, var) + [("lit", p)]
        return out
    fail("a pushed text outside the subset")

def sb_exec(stmts, buf, var, pieces, known):
    if not stmts: return ("leaf", pieces)
    s, rest = stmts[0], stmts[1:]
    if s[0] == "if":
        c = sb_simp(sb_cond(s[1], var), known)
        then, els = s[2], (s[3] or [])
        if c[0] == "not": c, then, els = c[1], els, then
        if c[0] == "const": return sb_exec((then if c[1] else els) + rest, buf, var, pieces, known)
        kt, ke = dict(known), dict(known)
        if c[0] == "atom": kt[c[1]] = True; ke[c[1]] = False
        t = sb_exec(then + rest, buf, var, pieces, kt)
        e = sb_exec(els + rest, buf, var, pieces, ke)
        return t if t == e else ("ite", c, t, e)
    if s[0] in ("exprstmt", "expr") and s[1][0] == "method" and s[1][1] == ("id", buf) and len(s[1][3]) == 1:
        m, a = s[1][2], s[1][3][0]
        if m == "push":
            if a[0] != "char": fail("push of something that is not a character literal")
            return sb_exec(rest, buf, var, pieces + [("lit", a[1])], known)
        if m == "push_str":
            return sb_exec(rest, buf, var, pieces + sb_pieces(a, var), known)
    fail("a statement of the loop body outside the subset (%s)" % (s[0],))

def sb_rpieces(pieces, var):
    out = []
    for p in pieces:
        if p[0] == "lit" and p[1] == "": continue
        if p[0] == "lit" and out and out[-1][0] == "lit": out[-1] = ("lit", out[-1][1] + p[1])
        else: out.append(p)
    return " ++ ".join(sb_lit(p[1]) if p[0] == "lit" else camel(var) for p in out) if out else "[]"

def sb_render(t, var, indent):
    pad = "  " * indent
    if t[0] == "leaf": return pad + sb_rpieces(t[1], var)
    return "%sif %s then\n%s\n%selse\n%s" % (pad, sb_rcond(t[1]), sb_render(t[2], var, indent + 1), pad, sb_render(t[3], var, indent + 1))

def sb_text(e, env):
    """a text-valued expression after the loop"""
    if e[0] == "id":
        if e[1] not in env: fail("unknown local %s" % e[1])
        return env[e[1]]
    if e[0] == "method" and e[2] in ("clone", "to_string", "as_str") and not e[3]: return sb_text(e[1], env)
    if e[0] == "method" and e[2] == "replace" and len(e[3]) == 2:
        if e[3][1][0] != "lit_str": fail("replace by something that is not a literal")
        return "replaceChar %s %s %s" % (lean_char(sb_pat(e[3][0], True)), sb_lit(e[3][1][1]), _fpar(sb_text(e[1], env)))
    fail("a text expression outside the subset")

def sbtranslate_fn(src, name, callee, lean_callee, arg_name, line_name, fn_name):
    """-> Lean text of the three definitions `arg_name`, `line_name`, `fn_name`"""
    body = fn_body(src, name)
    sig = fn_signature(src, name)
    if body is None or sig is None: fail("fn %s not found" % name)
    params, ret = sig
    if [t for n, t in params] != ["&Vec<String>"] or ret != "Result<Instruction,String>":
        fail("unexpected signature of %s" % name)
    xs = params[0][0]
    stmts = fparse_block(body)
    if len(stmts) < 3: fail("unexpected shape of %s" % name)
    s0, loop, tail = stmts[0], stmts[1], stmts[2:]
    if not (s0[0] == "let" and s0[1][0] == "pid" and s0[2] and s0[3] == ("pathcall", "String", "new", [])):
        fail("the function does not start with `let mut <buffer> = String::new()`")
    buf = s0[1][1]
    if not (loop[0] == "foreach" and len(loop[1]) == 1 and loop[2] == ("id", xs)):
        fail("no `for <x> in %s` loop after the buffer" % xs)
    var, lbody = loop[1][0], loop[3]
    if var in (buf, xs): fail("shadowing")
    ifs = [i for i, s in enumerate(lbody) if s[0] == "if"]
    k = ifs[-1] + 1 if ifs else len(lbody)
    per_arg = sb_exec(lbody[:k], buf, var, [], {})
    sep = sb_exec(lbody[k:], buf, var, [], {})
    if sep[0] != "leaf" or any(p[0] != "lit" for p in sep[1]): fail("the code after the last `if` of the loop body mentions the value")
    sep_text = sb_rpieces(sep[1], var)
    step = "%s ++ %s %s" % (camel(buf), arg_name, camel(var)) + ("" if sep_text == "[]" else " ++ %s" % sep_text)
    # after the loop
    env = {buf: camel(buf)}
    lets = ["let %s := %s.foldl (fun %s %s => %s) []" % (camel(buf), camel(xs), camel(buf), camel(var), step)]
    for s in tail[:-1]:
        if not (s[0] == "let" and s[1][0] == "pid"): fail("a statement after the loop that is not a `let`")
        if s[1][1] in env or s[1][1] in (xs, var): fail("shadowing")
        lets.append("let %s := %s" % (camel(s[1][1]), sb_text(s[3], env)))
        env[s[1][1]] = camel(s[1][1])
    last = tail[-1]
    if last[0] == "expr" and last[1][0] == "matchexpr": scrut, arms = last[1][1], last[1][2]
    elif last[0] == "match": scrut, arms = last[1], last[2]
    else: fail("the function does not end with a `match`")
    if not (scrut[0] == "pathcall" and (scrut[1], scrut[2]) == callee and len(scrut[3]) == 1):
        fail("the final `match` is not on %s::%s(&line)" % callee)
    line = sb_text(scrut[3][0], env)
    ok_arm = err_arm = None
    for pat, abody in arms:
        if len(abody) != 1 or abody[0][0] != "expr": fail("a match arm that is not one expression")
        e = abody[0][1]
        if pat[0] == "pok" and ok_arm is None:
            if not (e[0] == "ok" and e[1][0] == "method" and e[1][2] == "clone" and not e[1][3] and e[1][1][0] == "index"
                    and e[1][1][1] == ("id", pat[1]) and e[1][1][2][0] == "num"):
                fail("the `Ok` arm is not `Ok(<v>[n].clone())`")
            ok_arm = (camel(pat[1]), e[1][1][2][1])
        elif pat[0] == "perr" and err_arm is None:
            if e[0] != "errc": fail("the `Err` arm does not answer `Err(..)`")
            err_arm = True
        else: fail("unexpected arms of the final `match`")
    if ok_arm is None or err_arm is None: fail("the final `match` needs an `Ok` and an `Err` arm")
    out = "def %s (%s : Str) : Str :=\n%s\n\n" % (arg_name, camel(var), sb_render(per_arg, var, 1))
    out += "def %s (%s : List Str) : Str :=\n%s\n  %s\n\n" % (line_name, camel(xs), "\n".join("  " + l for l in lets), line)
    out += "def %s (%s : List Str) : EvalOut Instruction :=\n" % (fn_name, camel(xs))
    out += "  match %s (%s %s) with\n  | .error _ => .err\n  | .ok %s =>\n" % (lean_callee, line_name, camel(xs), ok_arm[0])
    out += "    match %s[%d]? with\n    | none => .panic\n    | some v => .ok v\n" % (ok_arm[0], ok_arm[1])
    return out
