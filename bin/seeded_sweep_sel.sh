#!/bin/sh
# bin/seeded_sweep_sel.sh <pattern> [worktree]  -- like seeded_sweep.sh for the seeded changes whose id matches <pattern>
PAT="$1"; WT="${2:-/tmp/mut-sweep-sel}"
[ -d "$WT" ] || git -C /repo worktree add --detach "$WT" >/dev/null 2>&1
LOG=/verif/work/seeded-sweep-sel.log
: > "$LOG"
for d in /verif/seeded/*/; do
  id=$(basename "$d"); pid=$(echo "$id" | cut -c1-3)
  case "$id" in *$PAT*) ;; *) continue;; esac
  [ -f "$d/patch.diff" ] || continue
  r=$(CORPUS_TAG="seeded-$id" /verif/bin/mutant_check.sh "$WT" "$d/patch.diff" "$pid" quick 2>&1 | head -1)
  echo "$id $r" >> "$LOG"
done
git -C /repo worktree remove --force "$WT"
rm -rf /tmp/hm-$(basename "$WT")
echo sweep-done >> "$LOG"
