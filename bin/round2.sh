#!/bin/sh
# bin/round2.sh <Cxx>  -- self-test helper: for the three round-2 changes in /tmp/mut2-<cxx>/_out,
# first see whether the property's own quick check catches them, then confirm + store them.
PID="$1"; l=$(echo "$PID" | tr 'C' 'c'); WT=${WTROOT:-/tmp/mut2}-$l
for k in 1 2 3; do
  [ -f "$WT/_out/m$k/patch.diff" ] || continue
  r=$(/verif/bin/mutant_check.sh "$WT" "$WT/_out/m$k/patch.diff" "$PID" quick 2>&1 | head -3 | tr '\n' ' ' | cut -c1-700)
  echo "$PID-${TAG:-r2m}$k CHECK: $r" >> /verif/work/round2.log
done
for k in 1 2 3; do
  [ -f "$WT/_out/m$k/patch.diff" ] || continue
  /verif/bin/confirm_mutant.sh "$WT" m$k "$PID-${TAG:-r2m}$k" "$PID" >> /verif/work/confirm-all.log 2>&1
done
echo "$PID done" >> /verif/work/round2.log
