#!/bin/sh
# bin/seeded_sweep.sh [worktree]  -- self-test helper (never used by a registered check):
# runs the correspondence part of every seeded change's own property check against a scratch
# worktree with the change applied, records caught/missed in work/seeded-sweep.log and saves
# the inputs that exposed each change as corpus/<Cxx>/seeded-<id>.case.
WT="${1:-/tmp/mut-sweep}"
[ -d "$WT" ] || git -C /repo worktree add --detach "$WT" >/dev/null 2>&1
LOG=/verif/work/seeded-sweep.log
: > "$LOG"
for d in /verif/seeded/*/; do
  id=$(basename "$d"); pid=$(echo "$id" | cut -c1-3)
  [ -f "$d/patch.diff" ] || continue
  r=$(CORPUS_TAG="seeded-$id" /verif/bin/mutant_check.sh "$WT" "$d/patch.diff" "$pid" quick 2>&1 | head -1)
  echo "$id $r" >> "$LOG"
done
git -C /repo worktree remove --force "$WT"
rm -rf /tmp/hm-$(basename "$WT")
