#!/bin/sh
# bin/harmless_sweep.sh  -- self-test helper (never used by a registered check): every behaviour-
# preserving rewrite kept under selftest/harmless/ is applied to a scratch worktree of /repo and
# the REAL quick check of every property is run against it (scratch copy of /verif whose
# repo-link points at the worktree).  No check may report a violation.
WT=/tmp/wt-harm
[ -d "$WT" ] || git -C /repo worktree add --detach "$WT" >/dev/null 2>&1
V=/tmp/vf-harm
LOG=/verif/work/harmless-sweep.log
: > "$LOG"
mkdir -p "$V"
rsync -a --delete --exclude .git --exclude work --exclude replays /verif/ "$V/"
ln -sfn "$WT" "$V/repo-link"
for f in /verif/selftest/harmless/*.diff; do
  git -C "$WT" checkout -q -- . && git -C "$WT" apply "$f" || { echo "$(basename $f) does not apply" >> "$LOG"; continue; }
  for p in ${PROPS:-C01 C02 C03 C04 C05 C06 C07 C08 C09 C10 C11 C12 C13 C14 C15 C16 C17 C18 C19 C20}; do
    r=$(cd "$V" && VERIF_REPO="$WT" timeout 3000 bin/check "$p" quick 2>&1 | grep -E "VIOLATION|quick:|failed" | tr '\n' ' ' | cut -c1-260)
    echo "$(basename $f .diff) $r" >> "$LOG"
  done
done
git -C "$WT" checkout -q -- .
git -C /repo worktree remove --force "$WT"
rm -rf "$V"
echo done >> "$LOG"
