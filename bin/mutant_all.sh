#!/bin/sh
# bin/mutant_all.sh <worktree> <patch.diff> <owner Cxx>   -- self-test helper (never used by a registered check):
# applies the patch, builds the scratch harness ONCE against the patched worktree and runs the
# correspondence part of the owner's check; if that sees nothing, of every other property's check.
# Prints one line: "<owner> OWN failures=N" | "<owner> SIBLINGS Cxx(N) Cyy(M)" | "<owner> MISSED".
WT="$1"; PATCH="$2"; OWNER="$3"
H=/tmp/hm-$(basename "$WT")
git -C "$WT" checkout -q -- . && git -C "$WT" apply "$PATCH" || { echo "$OWNER PATCH-DOES-NOT-APPLY"; exit 2; }
mkdir -p "$H"
# the harness source as COMMITTED (HEAD), not the working tree: results must not depend on edits in progress
S=$(mktemp -d /tmp/hsrc.XXXXXX); git -C /verif archive HEAD harness | tar -x -C "$S"
rsync -a --delete --exclude target --exclude target-cli "$S/harness/" "$H/"; rm -rf "$S"
sed -i "s#\.\./repo-link#$WT#g" "$H/Cargo.toml"
B=$( (cd "$H" && CARGO_NET_OFFLINE=true cargo build --release --offline 2>&1 | grep -E '^error' -A6 | head -12) )
if [ -n "$B" ]; then echo "$OWNER HARNESS-DOES-NOT-BUILD $(echo "$B" | tr '\n' ' ' | cut -c1-300)"; git -C "$WT" checkout -q -- .; exit 0; fi
run() {
  P="$1"
  if [ "$P" = "C20" ]; then
    (cd "$H" && CARGO_NET_OFFLINE=true cargo build --release --offline --manifest-path "$WT/duckscript_cli/Cargo.toml" --target-dir "$H/target-cli" >/dev/null 2>&1)
  fi
  rm -f "/verif/work/mutall-$P.json"
  (cd /verif && VERIF_DUCK="$H/target-cli/release/duck" timeout 900 "$H/target/release/harness" check "$P" quick 1 ${VERIF_DRIVER:-/verif/lean/.lake/build/bin/driver} "/verif/work/mutall-$P.json" >/dev/null 2>&1)
  python3 - "$P" <<'PY'
import json,sys
try:
    r=json.load(open('/verif/work/mutall-%s.json'%sys.argv[1])); print(len(r['failures']))
except Exception: print("crash")
PY
}
n=$(run "$OWNER")
if [ "$n" != "0" ]; then echo "$OWNER OWN failures=$n"; git -C "$WT" checkout -q -- .; exit 0; fi
hits=""
for P in C08 C20 C19 C03 C09 C06 C02 C05 C04 C14 C10 C12 C07 C01 C11 C13 C15 C16 C17 C18; do
  [ "$P" = "$OWNER" ] && continue
  m=$(run "$P")
  [ "$m" != "0" ] && hits="$hits $P($m)"
done
if [ -n "$hits" ]; then echo "$OWNER SIBLINGS$hits"; else echo "$OWNER MISSED"; fi
git -C "$WT" checkout -q -- .
