#!/usr/bin/env python3
"""Writes MANIFEST.json from bin/obligations.json + bin/claims.json (per-property texts)."""
import json, os
ROOT = os.path.dirname(os.path.dirname(os.path.abspath(__file__)))
ob = json.load(open(os.path.join(ROOT, "bin", "obligations.json")))
claims = json.load(open(os.path.join(ROOT, "bin", "claims.json")))
props = [json.loads(l)["id"] for l in open(os.path.join(ROOT, "properties.jsonl"))]
checks, na = [], []
for pid in props:
    c = claims.get(pid)
    if c and c.get("claimed") and pid in ob and ob[pid]["theorems"]:
        checks.append({
            "property_id": pid,
            "quick_cmd": "bin/check %s quick" % pid,
            "thorough_cmd": "bin/check %s thorough" % pid,
            "evidence_file": "/verif/evidence/%s.json" % pid,
            "replay_cmd_template": "bin/check %s --replay {path}" % pid,
            "engine": "lean4-proof+correspondence",
            "level_claimed": {"category": "proof", "text": c["text"], "design_ref": c.get("design_ref", "DESIGN.md section 6 (%s)" % pid)},
            "level_note": c["note"],
            "technique": c["technique"],
        })
    else:
        na.append({"property_id": pid, "reason": (c or {}).get("na_reason", "not yet claimed: the Lean model / theorems / correspondence check for this property are still being built (see DESIGN.md section 10)")})
m = {
    "version": 1,
    "setup_cmd": "bin/setup",
    "hooks": {"guard": "duckscript_verif", "enable": "none needed: every observation point is reachable through the public API (no hook commits)", "baseline_off_cmd": "cd /repo && cargo test --workspace --no-fail-fast --offline", "source_commits": [], "add_only": True},
    "engines": [{"name": "lean4-proof+correspondence", "path": "/verif/bin/check", "serves_properties": [c["property_id"] for c in checks],
                 "kind_free_text": "Lean 4 theorems about an executable model (lake build + #print axioms audit) tied to /repo by a Rust differential harness that runs model and real code on the same generated cases, plus model fragments regenerated from the source"}],
    "checks": checks,
    "not_applicable": na,
    "notes": "See DESIGN.md. known_findings.json lists recorded findings and fixed defects (fix: commits in /repo).",
}
json.dump(m, open(os.path.join(ROOT, "MANIFEST.json"), "w"), indent=1)
print("claimed:", [c["property_id"] for c in checks])
