"""Generated/ScannerCond.lean: a TRANSLATION of `eval_condition_for_slice`
(duckscript_sdk/src/utils/condition.rs) from Rust into Lean (bin/rust2lean.py, third executor) —
the and-of-ors evaluator with parenthesised groups behind `if` / `elseif` / `while` / `not` /
`assert` (property C06).  The whole function body is parsed; its pieces are translated:

  * the `let mut` declarations before the loop          -> structure `CondSt` (fields in declaration
    order, initial values as defaults; `start_block` / `index` are `usize` = `Nat`, `counter` is
    an `i32` that does go to -1 before it is tested = `Int`)
  * the body of `for argument in arguments`             -> `condStepGen`  (one token per step; INDEX
    FAITHFUL: `start_block`, `index` and the slice `&arguments[start_block..index]` are kept, the
    recursive call is a call of the parameter `ev` on that slice, a slice out of range is `.panic`)
  * the code after the loop                             -> `condAfterGen`
  * the `arguments.is_empty()` case                     -> first arm of `evalSliceGen`

`Props/C06Translated.lean` proves that `evalSliceGen` computes, for every fuel and token list,
what the hand-written model `evalSliceF` (Sdk/Condition.lean, the one all C06 theorems are about)
computes, and never panics.  The error texts are mapped to the model's `CondErr` kinds."""
import os, re, sys
sys.path.insert(0, os.path.dirname(os.path.dirname(os.path.abspath(__file__))))
import rust2lean as r2l

FN = "eval_condition_for_slice"
ERRORS = {
    "Unexpected value: {}": "unexpectedValue", "Unexpected ')'": "unexpectedClose",
    "Unexpected 'and'": "unexpectedAnd", "Unexpected 'or'": "unexpectedOr", "Missing ')'": "missingClose",
}
MODEL_VARIANTS = {"None": ".none", "And": ".and", "Or": ".or", "Value": ".value"}   # Duck.FoundToken

def camel(name):
    parts = name.split("_")
    return parts[0] + "".join(p.capitalize() for p in parts[1:])

def walk(node, f):
    """calls f on every tuple node of an AST"""
    if isinstance(node, tuple):
        f(node)
        for x in node: walk(x, f)
    elif isinstance(node, list):
        for x in node: walk(x, f)

def ids_of(node):
    out = set()
    walk(node, lambda n: out.add(n[1]) if n[0] == "id" and len(n) == 2 else None)
    return out

def generate(repo, lean_str):
    src = open(os.path.join(repo, "duckscript_sdk/src/utils/condition.rs")).read()
    m = re.search(r"enum FoundToken\s*\{([^}]*)\}", src)
    if not m:
        r2l.fail("enum FoundToken not found")
    variants = [v.strip() for v in m.group(1).split(",") if v.strip()]
    if sorted(variants) != sorted(MODEL_VARIANTS):
        r2l.fail("FoundToken has the variants %s" % variants)
    body = r2l.fn_body(src, FN)
    if body is None:
        r2l.fail(FN + " not found")
    if not re.search(r"fn %s\(arguments: &\[String\]\) -> Result<bool, String>" % FN, src):
        r2l.fail("unexpected signature of " + FN)
    ast = r2l.cparse_block(body)
    # { if arguments.is_empty() { <empty case> } else { let mut ..; for argument in arguments { .. } <after> } }
    if len(ast) != 1 or ast[0][0] != "if" or ast[0][1] != ("method", ("id", "arguments"), "is_empty", []) or ast[0][3] is None:
        r2l.fail("the function is not `if arguments.is_empty() { .. } else { .. }`")
    empty_case, main = ast[0][2], ast[0][3]
    k = 0
    decls = []
    while k < len(main) and main[k][0] == "let" and main[k][2]:
        decls.append((main[k][1], main[k][3])); k += 1
    if k >= len(main) or main[k][0] != "for" or main[k][2] != ("id", "arguments"):
        r2l.fail("`for <x> in arguments` does not follow the declarations")
    item, loop_body, after = main[k][1], main[k][3], main[k + 1:]
    # types of the locals, as rustc infers them: integers used as slice bounds (or computed from
    # such) are usize, the other integer locals default to i32
    nat = set()
    walk([loop_body, after], lambda n: nat.update(ids_of(n[2]) | ids_of(n[3])) if n[0] == "slice" else None)
    changed = True
    while changed:
        changed = False
        def flow(n):
            nonlocal changed
            if n[0] == "assign" and n[1] not in nat and ids_of(n[3]) & nat:
                nat.add(n[1]); changed = True
        walk([loop_body, after], flow)
    locals_, fields = {}, []
    for name, init in decls:
        if init[0] == "bool": ty, lty, dflt = "bool", "Bool", "true" if init[1] else "false"
        elif init == ("none",): ty, lty, dflt = "opt", "Option Bool", "none"
        elif init[0] == "path" and init[1] == "FoundToken" and init[2] in MODEL_VARIANTS:
            ty, lty, dflt = "enum", "FoundToken", MODEL_VARIANTS[init[2]]
        elif init[0] == "num":
            ty = "nat" if name in nat else "int"
            lty, dflt = ("Nat" if ty == "nat" else "Int"), str(init[1])
        else:
            r2l.fail("unsupported initial value of %s" % name)
        locals_[name] = (camel(name), ty)
        fields.append("  %s : %s := %s" % (camel(name), lty, dflt))
    cfg = r2l.CConfig(
        state_var="st", item_name=item, item_var="argument", args_name="arguments", args_var="arguments",
        self_name=FN, ev_var="ev", locals=locals_, enum_name="FoundToken",
        variants=[(v, MODEL_VARIANTS[v]) for v in variants], errors=ERRORS, funcs={"is_true": "isTrue"},
    )
    step = r2l.ctranslate(loop_body, cfg, "step")
    fin = r2l.ctranslate(after, cfg, "final")
    nolocals = r2l.CConfig("st", item, "argument", "arguments", "arguments", FN, "ev", {}, "FoundToken", cfg.variants, ERRORS, cfg.funcs)
    empty = r2l.ctranslate(empty_case, nolocals, "final")

    text = "/- GENERATED by bin/extract.py (bin/fragments/scanner_cond.py + rust2lean.py) from\n"
    text += "   `eval_condition_for_slice` in duckscript_sdk/src/utils/condition.rs.  Do not edit. -/\n"
    text += "import DuckModel.Sdk.Condition\nnamespace Duck.Generated\nopen Duck\n\n"
    text += "/-- what the translated function answers: `Ok(b)`, `Err(<text of this kind>)`, or a Rust panic\n"
    text += "    (a slice out of range, `unwrap()` of `None`) -/\n"
    text += "inductive CondOut\n  | ok (b : Bool)\n  | err (e : CondErr)\n  | panic\nderiving DecidableEq, Repr\n\n"
    text += "/-- the mutable locals, in declaration order, with their initial values -/\n"
    text += "structure CondSt where\n" + "\n".join(fields) + "\nderiving Repr\n\n"
    text += "inductive CondStep\n  | cont (st : CondSt)\n  | ret (b : Bool)\n  | err (e : CondErr)\n  | panic\n\n"
    text += "/-- one iteration of `for %s in arguments` (ending with `index = index + 1`); `ev` stands for the\n" % item
    text += "    recursive call `%s(&arguments[a..b])` -/\n" % FN
    text += "def condStepGen (ev : List Str → CondOut) (arguments : List Str) (st : CondSt) (argument : Str) : CondStep :=\n"
    text += r2l.crender(step, 1, cfg, "step") + "\n\n"
    text += "/-- the code after the loop -/\n"
    text += "def condAfterGen (st : CondSt) : CondOut :=\n" + r2l.crender(fin, 1, cfg, "final") + "\n\n"
    text += "/-- the loop: the tokens one by one, then the code after it -/\n"
    text += "def condLoopGen (ev : List Str → CondOut) (arguments : List Str) : CondSt → List Str → CondOut\n"
    text += "  | st, [] => condAfterGen st\n  | st, argument :: rest =>\n"
    text += "    match condStepGen ev arguments st argument with\n"
    text += "    | .cont st' => condLoopGen ev arguments st' rest\n    | .ret b => .ok b\n    | .err e => .err e\n    | .panic => .panic\n\n"
    text += "/-- `%s`; the recursion (one level per parenthesis depth) is bounded by fuel -/\n" % FN
    text += "def evalSliceGen : Nat → List Str → CondOut\n  | 0, _ => .err .fuel\n  | fuel + 1, arguments =>\n"
    text += "    if arguments.isEmpty then\n" + r2l.crender(empty, 3, nolocals, "final") + "\n"
    text += "    else\n      condLoopGen (evalSliceGen fuel) arguments {} arguments\n\n"
    text += "end Duck.Generated\n"
    return "ScannerCond.lean", text
