"""Generated/Scripts.lean: the table of the standard-library commands that are themselves written
in duckscript (property C19).  For every `script.ds` under duckscript_sdk/src the sibling `mod.rs`
must consist of exactly one

    let name = pckg::concat(package, "<Name>");
    let command = create_alias_command(name, vec![<aliases>], include_str!("help.md").to_string(),
                                       "<scope>".to_string(), include_str!("script.ds").to_string(), <n>)?;

and the package is resolved through the `static PACKAGE` / `pckg::concat(parent, PACKAGE)` /
`<mod>::load(commands, PACKAGE)` chain of the parent modules.  `AliasCommand::new` prefixes the
scope name with "scope::" (types/command.rs) - that literal is read from the source as well.
Any other shape stops the extraction (and with it the check) loudly."""
import os, re

SDK = "duckscript_sdk/src"

def fail(msg):
    raise SystemExit("extract(scripts): " + msg)

def read(path):
    with open(path, encoding="utf-8", newline="") as f:
        return f.read()

def strip_ws(s):
    return re.sub(r"\s+", " ", s).strip()

CREATE_RE = re.compile(
    r'pub\(crate\) fn create\(package: &str\) -> Result<Box<dyn Command>, ScriptError> \{\s*'
    r'let name = pckg::concat\(package, "(?P<name>\w+)"\);\s*'
    r'let command = create_alias_command\(\s*name,\s*'
    r'vec!\[(?P<aliases>[^\]]*)\],\s*'
    r'include_str!\("help\.md"\)\.to_string\(\),\s*'
    r'"(?P<scope>[^"\\]*)"\.to_string\(\),\s*'
    r'include_str!\("script\.ds"\)\.to_string\(\),\s*'
    r'(?P<amount>\d+),?\s*\)\?;\s*'
    r'Ok\(Box::new\(command\)\)\s*\}')

def package_of(repo, moddir):
    """full package string handed to `create` of the command module in `moddir`"""
    src_root = os.path.join(repo, SDK, "sdk")
    rel = os.path.relpath(moddir, src_root).split(os.sep)      # e.g. ['std','collections','array_concat']
    if len(rel) != 3 or rel[0] != "std":
        fail("script command at an unexpected depth: " + moddir)
    std_mod = read(os.path.join(src_root, "std", "mod.rs"))
    m = re.search(r'static PACKAGE: &str = "(\w+)";', std_mod)
    if not m:
        fail("static PACKAGE not found in sdk/std/mod.rs")
    top = m.group(1)
    if not re.search(r"\b%s::load\(commands, PACKAGE\)\?;" % re.escape(rel[1]), std_mod):
        fail("sdk/std/mod.rs does not load package module %s with PACKAGE" % rel[1])
    pk_mod = read(os.path.join(src_root, "std", rel[1], "mod.rs"))
    m = re.search(r'static PACKAGE: &str = "(\w+)";', pk_mod)
    if not m:
        fail("static PACKAGE not found in sdk/std/%s/mod.rs" % rel[1])
    if "let package = pckg::concat(parent, PACKAGE);" not in pk_mod:
        fail("sdk/std/%s/mod.rs does not build its package with pckg::concat(parent, PACKAGE)" % rel[1])
    if not re.search(r"commands\.set\(%s::create\(&package\)\?\)\?;" % re.escape(rel[2]), pk_mod):
        fail("sdk/std/%s/mod.rs does not register %s::create(&package)?" % (rel[1], rel[2]))
    return top + "::" + m.group(1), "/".join(rel)

def lean_char(ch):
    o = ord(ch)
    if ch == "'": return "'\\''"
    if ch == "\\": return "'\\\\'"
    if ch == "\n": return "'\\n'"
    if ch == "\t": return "'\\t'"
    if ch == "\r": return "'\\r'"
    if o < 32 or o == 127: return "'\\x%02x'" % o
    return "'" + ch + "'"

def char_list(s):
    """a `List Char` literal (the kernel evaluates `"…".toList` of a long literal far too slowly
    for the per-script facts that are proved by evaluation)"""
    items = [lean_char(c) for c in s]
    lines, cur = [], []
    for it in items:
        cur.append(it)
        if len(cur) == 24 or it == "'\\n'":
            lines.append(", ".join(cur)); cur = []
    if cur:
        lines.append(", ".join(cur))
    return "[" + ",\n       ".join(lines) + "]"

def generate(repo, lean_str):
    root = os.path.join(repo, SDK)
    # pckg::concat and the "scope::" prefix
    pckg = read(os.path.join(root, "utils", "pckg.rs"))
    if 'package.push_str("::");' not in pckg or "!parent.is_empty() && !current.is_empty()" not in pckg:
        fail("utils/pckg.rs::concat has an unexpected shape")
    cmd_rs = read(os.path.join(root, "types", "command.rs"))
    m = re.search(r'let mut scope_name_with_prefix = "([^"\\]*)"\.to_string\(\);\s*scope_name_with_prefix\.push_str\(&scope_name\);', cmd_rs)
    if not m:
        fail("AliasCommand::new: scope prefix not found in types/command.rs")
    scope_prefix = m.group(1)
    if "let instructions = parser::parse_text(&raw_command)?;" not in cmd_rs:
        fail("AliasCommand::new does not parse the script with parser::parse_text")

    script_dirs, users = set(), set()
    for d, _, files in os.walk(root):
        for f in files:
            p = os.path.join(d, f)
            if f == "script.ds":
                script_dirs.add(d)
            elif f.endswith(".rs") and not f.endswith("_test.rs"):
                text = read(p)
                if os.path.relpath(p, root) == os.path.join("types", "command.rs"):
                    continue
                # a file that defines its OWN local `fn create_alias_command` (lib/alias/set: the user-level
                # `alias` command, a different struct) does not use types::command::create_alias_command
                uses = re.search(r"types::command::(\{[^}]*\bcreate_alias_command\b[^}]*\}|create_alias_command\b)", text) \
                    or re.search(r"types::command::(\*|AliasCommand\b)", text)
                if "create_alias_command(" in text and not uses and not re.search(r"\bfn create_alias_command\(", text):
                    fail("create_alias_command called but neither imported nor locally defined: " + p)
                if uses:
                    if f != "mod.rs":
                        fail("create_alias_command used outside a mod.rs: " + p)
                    users.add(d)
    if script_dirs != users:
        fail("script.ds files and create_alias_command users differ: %s" % sorted(script_dirs ^ users))
    if not script_dirs:
        fail("no script-implemented command found")

    entries = []
    for d in sorted(script_dirs):
        src = read(os.path.join(d, "mod.rs"))
        if src.count("create_alias_command(") != 1:
            fail("more than one create_alias_command call in " + d)
        m = CREATE_RE.search(src)
        if not m:
            fail("unrecognised create(..) shape in %s/mod.rs" % d)
        al_src = m.group("aliases").strip()
        aliases = re.findall(r'"([^"\\]*)"\.to_string\(\)', al_src)
        if strip_ws(al_src).rstrip(",").replace(" ", "") != ",".join('"%s".to_string()' % a for a in aliases):
            fail("unrecognised alias list in %s/mod.rs: %s" % (d, al_src))
        package, rel = package_of(repo, d)
        script = read(os.path.join(d, "script.ds"))
        entries.append({
            "dir": rel, "name": package + "::" + m.group("name"), "aliases": aliases,
            "scope": scope_prefix + m.group("scope"), "amount": int(m.group("amount")), "script": script,
        })

    t = "/- GENERATED by bin/extract.py (bin/fragments/scripts.py) from duckscript_sdk/src/sdk/std/*/*/{mod.rs,script.ds}\n"
    t += "   and duckscript_sdk/src/types/command.rs. Do not edit. -/\n"
    t += "import DuckModel.Types\nnamespace Duck.Generated\n\n"
    t += "/-- one `create_alias_command(name, aliases, help, scope_name, script, arguments_amount)` call;\n"
    t += "    `scopeName` is the stored `AliasCommand.scope_name`, i.e. already prefixed by `AliasCommand::new` -/\n"
    t += "structure ScriptCmd where\n  dir : String\n  name : Duck.Str\n  aliases : List Duck.Str\n  scopeName : Duck.Str\n"
    t += "  argumentsAmount : Nat\n  script : Duck.Str\n\n"
    names = []
    for e in entries:
        ident = "cmd_" + re.sub(r"\W", "_", e["dir"].split("/", 1)[1])
        names.append(ident)
        if "-/" in e["script"] or "/-" in e["script"]:
            fail("script text contains a Lean comment delimiter: " + e["dir"])
        t += "/- %s/script.ds as a string literal (for the reader):\n%s\n-/\n" % (e["dir"], lean_str(e["script"]))
        t += "def %s : ScriptCmd :=\n" % ident
        t += "  { dir := %s,\n    name := %s.toList,\n    aliases := [%s],\n    scopeName := %s.toList,\n    argumentsAmount := %d,\n    script :=\n      %s }\n\n" % (
            lean_str(e["dir"]), lean_str(e["name"]), ", ".join(lean_str(a) + ".toList" for a in e["aliases"]),
            lean_str(e["scope"]), e["amount"], char_list(e["script"]))
    t += "def scripts : List ScriptCmd :=\n  [%s]\n\nend Duck.Generated\n" % ",\n   ".join(names)
    return "Scripts.lean", t
