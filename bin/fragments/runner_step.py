"""Generated/RunnerStep.lean: a TRANSLATION of the runner, duckscript/src/runner.rs (bin/rust2lean.py,
fifth executor):

    update_output               -> updateOutputGen
    run_on_error_instruction    -> runOnErrorGen
    run_instruction             -> runInstructionGen
    create_runtime              -> labelTableGen (+ labelTableBodyGen: the body of its `for instruction in &instructions`,
                                                 folded over the program; of the Runtime it returns the `label_to_line`
                                                 table is what is modelled — `Runtime::new` starts it empty, checked)
    run_instructions            -> runStepGen   (ONE ITERATION of its `loop`, `break` continuing with the
                                                 code after the loop; `repl_mode` fixed to `false`, the
                                                 value `run` passes — the model has no REPL entry)

How the Rust places are read (the model's reading, Runner.lean): `runtime.context.variables` /
`variables` is `Vars`; `runtime.context.commands`, `state` (= `runtime.context.state`, moved out before
the loop and written back after it) and `runtime.env` are ONE value `st : σ` — everything else a
command can reach; `line` is `rs.line`; `instructions` is `is`; `runtime.label_to_line` is the
parameter `labels`, read with the model's `lookupLabel`; the halt flag `runtime.env.halt.load(..)` is
the oracle `halt polls st` (`polls` counts the polls that answered `false`).

CALLS.  `update_output`, `run_on_error_instruction`, `run_instruction` are calls of THEIR `…Gen`
translations (same file).  What is not translated:
  * `commands.get_for_use(name)` + `instance.run(CommandInvocationContext {..})` — the command table
    and the commands themselves (trait objects) — is ONE call of the Lean PARAMETER `sem name arguments
    output_variable line vars st` (`none` = no such command): C03 is a statement for EVERY command
    semantics, so a parameter is exactly right;
  * `bind_command_arguments(variables, instruction, meta)` is the MODEL function `Duck.bind variables
    instruction.args`: it is `expand_by_wrapper` applied to every argument, whose loop is tied to the
    source on its own (`C02_scanner_translation*`); its nested `for` loops over vectors are outside this
    executor's subset;
  * `str::parse::<i32>()` is the model's `parseI32`, `HashMap::insert / remove` on the variables are
    `Vars.set / Vars.erase`, `label_to_line.get` is `lookupLabel labels`, `label_to_line.insert` is `tableInsert`
    (defined in the generated file: the new pair in front, an older entry of that key removed).

`Props/C03Translated.lean` proves each `…Gen` function EQUAL to the hand-written function of Runner.lean
for every input.  If any of the five functions is outside the subset the whole fragment falls back
(bin/fragments/fallback/RunnerStep.lean)."""
import os, re, sys
sys.path.insert(0, os.path.dirname(os.path.dirname(os.path.abspath(__file__))))
import rust2lean as r2l

ENUMS = {   # Rust enum -> Lean type, variants in the order the Lean `match` is written: (Rust, Lean, payload types, Rust arity)
    "CommandResult": {"lean": "CmdResult", "variants": [
        ("Continue", "continue", ["Option Str"], 1), ("GoTo", "goTo", ["Option Str", "GoToValue"], 2),
        ("Error", "error", ["Str"], 1), ("Crash", "crash", ["Str"], 1), ("Exit", "exit", ["Option Str"], 1)]},
    "GoToValue": {"lean": "GoToValue", "variants": [("Label", "label", ["Str"], 1), ("Line", "line", ["Nat"], 1)]},
    "InstructionType": {"lean": "InstrType", "variants": [
        ("Empty", "empty", [], 0), ("PreProcess", "preProcess", ["Option Str", "Option (List Str)"], 1),
        ("Script", "script", ["ScriptInstr"], 1)]},
    # `Crash` is only built in REPL mode (fixed to false): the model's RunEnd has no such end
    "EndReason": {"lean": "RunEnd", "variants": [
        ("ExitCalled", "exitCalled", [], 0), ("ReachedEnd", "reachedEnd", [], 0), ("Crash", None, ["Str"], 1), ("Halted", "halted", [], 0)]},
}
RUST_ENUMS = {   # what the declarations must look like (checked on every run)
    ("duckscript/src/types/command.rs", "CommandResult"): ["Continue(Option<String>)", "GoTo(Option<String>,GoToValue)", "Error(String)", "Crash(String)", "Exit(Option<String>)"],
    ("duckscript/src/types/command.rs", "GoToValue"): ["Label(String)", "Line(usize)"],
    ("duckscript/src/types/instruction.rs", "InstructionType"): ["Empty", "PreProcess(PreProcessInstruction)", "Script(ScriptInstruction)"],
    ("duckscript/src/runner.rs", "EndReason"): ["ExitCalled", "ReachedEnd", "Crash(ScriptError)", "Halted"],
}
FIELDS = {   # (Lean type, Rust field) -> (Lean field, Lean type)
    ("Instruction", "meta_info"): ("mi", "Meta"), ("Instruction", "instruction_type"): ("ty", "InstrType"),
    ("Meta", "line"): ("line", "Option Nat"), ("Meta", "source"): ("source", "Option Str"),
    ("ScriptInstr", "label"): ("label", "Option Str"), ("ScriptInstr", "output"): ("output", "Option Str"),
    ("ScriptInstr", "command"): ("command", "Option Str"), ("ScriptInstr", "arguments"): ("args", "Option (List Str)"),
}
TYPES = {   # Rust parameter type (blanks removed) -> role
    "&mutCommands": ("world",), "&mutHashMap<String,StateValue>": ("world",), "&mutEnv": ("world",),
    "&mutHashMap<String,String>": ("vars",), "&HashMap<String,String>": ("varsval",),
    "&Vec<Instruction>": ("drop",), "&InstructionMetaInfo": ("drop",),
    "Instruction": ("val", "Instruction"), "InstructionMetaInfo": ("val", "Meta"), "&ScriptInstruction": ("val", "ScriptInstr"),
    "String": ("val", "Str"), "Option<String>": ("val", "Option Str"), "usize": ("val", "Nat"), "bool": ("val", "Bool"),
    "Vec<Instruction>": ("val", "List Instruction"), "Context": ("drop",), "Option<Env>": ("drop",),
}
TABLE_TY = "List (Str × Nat)"
RETS = {
    "": ("unit",), "(CommandResult,Option<String>)": ("tuple", ["CmdResult", "Option Str"]),
    "Result<(),String>": ("resunit", "Str"), "Vec<String>": ("val", "List Str"),
    "Runtime": ("place", "@table", TABLE_TY, "label_to_line"),       # of the Runtime returned, the label table is what is modelled
}
# `Runtime::new(..)`: the label table starts empty (checked against types/runtime.rs on every run); the other fields are
# not part of this translation (`instructions` is the parameter `is` of the step, context / env are its `rs` and `st`)
NEWS = {"Runtime": {"fields": {"label_to_line": ("@table", TABLE_TY, "[]")}, "untracked": ["instructions", "context", "env"]}}
FUNCTIONS = [("update_output", "updateOutputGen"), ("run_on_error_instruction", "runOnErrorGen"), ("run_instruction", "runInstructionGen"),
             ("create_runtime", "labelTableGen")]
CONTEXT_FIELDS = ["arguments:Vec<String>", "state:&'amutHashMap<String,StateValue>", "variables:&'amutHashMap<String,String>",
                  "output_variable:Option<String>", "instructions:&'aVec<Instruction>", "commands:&'amutCommands", "line:usize", "env:&'amutEnv"]

def check_declarations(repo):
    for (path, name), want in RUST_ENUMS.items():
        src = open(os.path.join(repo, path)).read()
        m = re.search(r"enum %s\s*\{([^}]*)\}" % name, src)
        if not m: r2l.fail("enum %s not found" % name)
        body = re.sub(r"//[^\n]*", "", m.group(1))
        got, depth, cur = [], 0, ""
        for ch in body + ",":
            if ch in "(<": depth += 1
            if ch in ")>": depth -= 1
            if ch == "," and depth == 0:
                if cur.strip(): got.append(re.sub(r"\s+", "", cur))
                cur = ""
            else: cur += ch
        if got != want: r2l.fail("enum %s has the variants %s" % (name, got))
    src = open(os.path.join(repo, "duckscript/src/types/command.rs")).read()
    m = re.search(r"pub struct CommandInvocationContext<'a>\s*\{([^}]*)\}", src)
    if not m: r2l.fail("CommandInvocationContext not found")
    fields = [re.sub(r"\s+", "", f) for f in re.findall(r"pub\s+(\w+\s*:\s*[^\n]+),", re.sub(r"//[^\n]*", "", m.group(1)))]
    if fields != CONTEXT_FIELDS: r2l.fail("CommandInvocationContext has the fields %s" % fields)
    src = open(os.path.join(repo, "duckscript/src/types/runtime.rs")).read()
    m = re.search(r"pub struct Runtime\s*\{([^}]*)\}", src)
    fields = [re.sub(r"\s+", "", f) for f in re.findall(r"pub\s+(\w+\s*:\s*[^\n]+),", re.sub(r"//[^\n]*", "", m.group(1)))] if m else []
    if fields != ["instructions:Option<Vec<Instruction>>", "label_to_line:HashMap<String,usize>", "context:Context", "env:Env"]:
        r2l.fail("Runtime has the fields %s" % fields)
    body = r2l.fn_body(src[src.index("impl Runtime"):], "new") if "impl Runtime" in src else None
    if body is None or not re.search(r"Runtime\s*\{\s*instructions:\s*None,\s*label_to_line:\s*HashMap::new\(\),", body):
        r2l.fail("Runtime::new does not start with an empty label table")

def generate(repo, lean_str):
    src = open(os.path.join(repo, "duckscript/src/runner.rs")).read()
    check_declarations(repo)
    cfg = r2l.RnConfig(enums=ENUMS, fields=FIELDS, types=TYPES, rets=RETS, callees={},
                       lookups={"runtime.label_to_line": ("lookupLabel labels", "Nat")},
                       poll=("runtime.env.halt", "load", "halt"), invctx="CommandInvocationContext",
                       fixed={"repl_mode": ("bool", False)})
    cfg.news = NEWS
    for rust, lean in FUNCTIONS:
        sig = r2l.fn_signature(src, rust)
        if sig is None: r2l.fail("%s not found" % rust)
        cfg.callees[rust] = {"lean": lean, "params": sig[0], "ret": sig[1]}
    sig = r2l.fn_signature(src, "bind_command_arguments")
    if sig is None: r2l.fail("bind_command_arguments not found")
    if [cfg.types.get(t, ("?",))[0] for n, t in sig[0]] != ["varsval", "val", "drop"] or sig[1] != "Vec<String>":
        r2l.fail("unexpected signature of bind_command_arguments")
    ins_param = sig[0][1][0]
    cfg.callees["bind_command_arguments"] = {"lean": "bind", "params": sig[0], "ret": sig[1],
        "render": lambda vals, vars_text: "bind %s %s.args" % (r2l._fpar(vars_text), r2l._fpar(vals[ins_param]))}
    # the body of bind_command_arguments must still read `instruction.arguments` only (it is rendered as `bind vars si.args`)
    bsrc = r2l.fn_body(src, "bind_command_arguments")
    if set(re.findall(r"\b%s\.(\w+)" % ins_param, bsrc)) != {"arguments"}: r2l.fail("bind_command_arguments reads more than the arguments")

    text = "/- GENERATED by bin/extract.py (bin/fragments/runner_step.py + rust2lean.py, fifth executor) from\n"
    text += "   duckscript/src/runner.rs: update_output, run_on_error_instruction, run_instruction and one iteration of\n"
    text += "   the `loop` of run_instructions (with the code after the loop; repl_mode = false).  Do not edit. -/\n"
    text += "import DuckModel.Runner\nnamespace Duck.Generated\nopen Duck\n\n"
    text += "/-- `HashMap::insert` on the label table (an association list without duplicate keys) -/\n"
    text += "def tableInsert (t : List (Str × Nat)) (k : Str) (v : Nat) : List (Str × Nat) :=\n  (k, v) :: t.filter (fun p => p.1 ≠ k)\n\n"
    for rust, lean in FUNCTIONS:
        text += r2l.rn_translate_fn(src, rust, cfg, lean) + "\n"
    places = {"line": "@line", "state": "@st", "runtime.context.state": "@st", "runtime.context.commands": "@st",
              "runtime.env": "@st", "runtime.context.variables": "@vars"}
    presets = {"instructions": ("o", "List Instruction", "is")}
    header = "/-- one iteration of the `loop` of `run_instructions` (`break` = the code after the loop): `.inl` = next\n"
    header += "    iteration with this state, `.inr` = the run ended -/"
    text += r2l.rn_translate_step(src, "run_instructions", cfg, "runStepGen", places, presets, header,
                                  "RunState σ ⊕ (RunState σ × RunEnd)")
    text += "\nend Duck.Generated\n"
    return "RunnerStep.lean", text
