"""Generated/ParserFns.lean: a TRANSLATION of the line-parser functions of duckscript/src/parser.rs
that are built on `parse_next_value` (bin/rust2lean.py, fourth executor):

    parse_next_argument, parse_arguments_with_options, parse_arguments, reparse_arguments,
    find_label, find_output_and_command, parse_pre_process_line, parse_command_line, parse_line

Each `fn f` becomes `def <f in camelCase>Gen … : IOut …` — INDEX FAITHFUL (the line, an explicit
index, `.panic` exactly where Rust would unwind: `line_text[index]` out of range, `chars[0]` on an
empty vector, an index decremented at 0, `unwrap()` of `None`; also: the fuel of the unbounded
`loop` of `parse_arguments_with_options` running out).  Every `for _i in a..b` / `loop` body becomes
a definition of its own (`…BodyGen`) over the tuple of the locals it assigns.

CALLS.  A call of one of the nine functions above is a call of ITS `…Gen` translation (same file).
A call of `parse_next_value` is a call of the hand model's index-faithful function
`Duck.iParseNextValue` (ParserIndexed.lean) with the four boolean arguments collected BY PARAMETER
NAME (read from the Rust signature) into a `PVFlags` record: that function is already tied to the
source — its loop body by `C08_scanner_translation` (`pvStepGen = pvStep`) and its index arithmetic
by `C08_next_value_refines` — so a Lean parameter standing for it would only repeat those theorems
as a hypothesis of every new one.  `InstructionMetaInfo` arguments are dropped (the parser model
attaches the meta info in `parse_lines`); `Instruction { meta_info, instruction_type: X }` is `X`.

`Props/C08TranslatedFns.lean` proves every `…Gen` function equal to the hand-written index-faithful
twin (`iFindLabel`, … in ParserIndexed.lean) for EVERY input, hence (with `C08_…_refines`) to the
suffix model all parser theorems are about (`findLabel`, `findOutputAndCommand`, `parseCommandLine`,
`parsePreProcessLine`, `parseLine`, `parseArguments`).  If ANY of the functions is outside the
subset the whole fragment falls back (bin/fragments/fallback/ParserFns.lean)."""
import os, re, sys
sys.path.insert(0, os.path.dirname(os.path.dirname(os.path.abspath(__file__))))
import rust2lean as r2l

# Rust fn -> Lean definition, in dependency order
FUNCTIONS = [
    ("parse_next_argument", "parseNextArgumentGen"),
    ("parse_arguments_with_options", "parseArgumentsWithOptionsGen"),
    ("parse_arguments", "parseArgumentsGen"),
    ("reparse_arguments", "reparseArgumentsGen"),
    ("find_label", "findLabelGen"),
    ("find_output_and_command", "findOutputAndCommandGen"),
    ("parse_pre_process_line", "parsePreProcessLineGen"),
    ("parse_command_line", "parseCommandLineGen"),
    ("parse_line", "parseLineGen"),
]
FLAGS = {"allow_quotes": "allowQuotes", "allow_control": "allowControl", "stop_on_equals": "stopOnEquals", "control_as_char": "controlAsChar"}
ERRORS = {
    "PreProcessNoCommandFound": "preProcessNoCommandFound", "ControlWithoutValidValue": "controlWithoutValidValue",
    "InvalidControlLocation": "invalidControlLocation", "MissingEndQuotes": "missingEndQuotes",
    "InvalidQuotesLocation": "invalidQuotesLocation", "EmptyLabel": "emptyLabel",
}
TYPES = {   # Rust type (blanks removed) -> Lean type; None = dropped
    "&InstructionMetaInfo": None, "InstructionMetaInfo": None,
    "&Vec<char>": "Str", "&[char]": "Str", "&str": "Str", "usize": "Nat", "bool": "Bool",
    "&mutScriptInstruction": "ScriptInstr",
    "Result<(usize,Option<String>),ScriptError>": "Nat × Option Str",
    "Result<usize,ScriptError>": "Nat",
    "Result<Option<Vec<String>>,ScriptError>": "Option (List Str)",
    "Result<Instruction,ScriptError>": "InstrType",
}
# the structs of types/instruction.rs the parser fills in, and their fields in Duck.ScriptInstr /
# the arguments of Duck.InstrType.preProcess
STRUCTS = {
    "ScriptInstruction": {"lean": "ScriptInstr", "fields": [
        ("label", "label", "Option Str"), ("output", "output", "Option Str"),
        ("command", "command", "Option Str"), ("arguments", "args", "Option (List Str)")]},
    "PreProcessInstruction": {"lean": None, "fields": [
        ("command", "cmd", "Option Str"), ("arguments", "args", "Option (List Str)")]},
}
RUST_FIELD_TYPES = {"Option Str": "Option<String>", "Option (List Str)": "Option<Vec<String>>"}

def check_structs(repo):
    """`X::new()` is rendered as "every field `None`": true when every field is an `Option`, the
    struct derives `Default` and `new()` is `Default::default()`"""
    src = open(os.path.join(repo, "duckscript/src/types/instruction.rs")).read()
    for name, info in STRUCTS.items():
        m = re.search(r"#\[derive\(([^)]*)\)\]\s*pub struct %s\s*\{([^}]*)\}" % name, src)
        if not m or "Default" not in m.group(1):
            r2l.fail("struct %s (deriving Default) not found" % name)
        fields = re.findall(r"pub\s+(\w+)\s*:\s*([^,\n]+),", re.sub(r"//[^\n]*", "", m.group(2)))
        want = [(rf, RUST_FIELD_TYPES[lt]) for rf, lf, lt in info["fields"]]
        if [(f, re.sub(r"\s+", "", t)) for f, t in fields] != want:
            r2l.fail("struct %s has the fields %s" % (name, fields))
        m = re.search(r"impl %s\s*\{.*?pub fn new\(\)\s*->\s*%s\s*\{\s*Default::default\(\)\s*\}" % (name, name), src, re.S)
        if not m:
            r2l.fail("%s::new() is not Default::default()" % name)
    m = re.search(r"pub enum InstructionType\s*\{([^}]*)\}", src)
    body = re.sub(r"//[^\n]*", "", m.group(1)) if m else ""
    if [v.strip() for v in body.split(",") if v.strip()] != ["Empty", "PreProcess(PreProcessInstruction)", "Script(ScriptInstruction)"]:
        r2l.fail("unexpected variants of InstructionType")

def generate(repo, lean_str):
    src = open(os.path.join(repo, "duckscript/src/parser.rs")).read()
    check_structs(repo)
    cfg = r2l.FConfig(consts=r2l.constants(src), errors=ERRORS, structs=STRUCTS, variants={}, callees={},
                      types=TYPES, loop_fuel={}, wrappers={"Instruction": "instruction_type"})
    def script(args):
        if len(args) != 1 or args[0][0] != "struct" or args[0][1] != "ScriptInstruction": r2l.fail("InstructionType::Script(..) of something else")
        return ("ity", ".script %s" % r2l.fstruct_render(cfg, args[0]))
    def preprocess(args):
        if len(args) != 1 or args[0][0] != "struct" or args[0][1] != "PreProcessInstruction": r2l.fail("InstructionType::PreProcess(..) of something else")
        return ("ity", ".preProcess %s %s" % (r2l._fpar(r2l.fval(args[0][2]["command"])), r2l._fpar(r2l.fval(args[0][2]["arguments"]))))
    def empty(args):
        if args: r2l.fail("InstructionType::Empty with arguments")
        return ("ity", ".empty")
    cfg.variants.update({("InstructionType", "Empty"): empty, ("InstructionType", "Script"): script, ("InstructionType", "PreProcess"): preprocess})
    # the unbounded `loop` of parse_arguments_with_options: every round but the last consumes at
    # least one character, so `line_text.len() + 1` rounds are enough (running out = `.panic`;
    # C08_fn_translation_parse_arguments_with_options + C08_arguments_never_panic: never happens)
    cfg.loop_fuel["parse_arguments_with_options"] = lambda get: "%s.length + 1" % get("line_text")

    # how calls are rendered: parse_next_value is the hand model's function, the rest this file's
    sig = r2l.fn_signature(src, "parse_next_value")
    if sig is None: r2l.fail("parse_next_value not found")
    pnv_params, pnv_ret = sig
    if pnv_ret not in TYPES: r2l.fail("return type of parse_next_value")
    flags = [n for n, t in pnv_params if t == "bool"]
    if sorted(flags) != sorted(FLAGS): r2l.fail("the boolean parameters of parse_next_value are %s" % flags)
    others = [(n, t) for n, t in pnv_params if t != "bool" and TYPES.get(t, "?") is not None]
    if [TYPES.get(t) for n, t in others] != ["Str", "Nat"]: r2l.fail("unexpected parameters of parse_next_value")
    def render_pnv(vals):
        rec = ", ".join("%s := %s" % (FLAGS[f], vals[f]) for f in sorted(FLAGS, key=list(FLAGS).index))
        return "iParseNextValue { %s } %s %s" % (rec, r2l._fpar(vals[others[0][0]]), r2l._fpar(vals[others[1][0]]))
    cfg.callees["parse_next_value"] = {"params": pnv_params, "ret": TYPES[pnv_ret], "render": render_pnv}
    for rust, lean in FUNCTIONS:
        sig = r2l.fn_signature(src, rust)
        if sig is None: r2l.fail("%s not found" % rust)
        params, ret = sig
        if ret not in TYPES or TYPES[ret] is None: r2l.fail("return type %s of %s" % (ret, rust))
        def render(vals, lean=lean, params=params):
            return " ".join([lean] + [r2l._fpar(vals[n]) for n, t in params if n in vals])
        cfg.callees[rust] = {"params": params, "ret": TYPES[ret], "render": render}

    text = "/- GENERATED by bin/extract.py (bin/fragments/parser_fns.py + rust2lean.py, fourth executor) from the\n"
    text += "   functions of duckscript/src/parser.rs that are built on `parse_next_value`.  Do not edit. -/\n"
    text += "import DuckModel.ParserIndexed\nnamespace Duck.Generated\nopen Duck\n\n"
    text += "/-- an unbounded `loop { body }` with fuel; running out of fuel is reported as `.panic` -/\n"
    text += "def iLoop {σ : Type} (body : σ → IStep σ) : Nat → σ → IOut σ\n  | 0, _ => .panic\n  | n + 1, s =>\n"
    text += "    match body s with\n    | .next s' => iLoop body n s'\n    | .brk s' => .ok s'\n    | .err e => .err e\n    | .panic => .panic\n\n"
    defs = ""
    for rust, lean in FUNCTIONS:
        defs += r2l.ftranslate_fn(src, rust, cfg, lean, lean[:-3]) + "\n"
    for name in sorted(cfg.prelude_used):
        text += r2l.FPRELUDE[name]
    text += defs + "end Duck.Generated\n"
    return "ParserFns.lean", text
