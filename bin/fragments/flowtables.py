"""Generated/FlowTables.lean: the keyword tables that the block scanners of the four
flow-control constructs hand to instruction_query::find_commands, recomputed from the
straight-line list-building code in
  ifelse::create_if_meta_info_for_line, while_mod::create_while_meta_info_for_line,
  forin::create_forin_meta_info_for_line, function::FunctionCommand::run
resolved with each command struct's name()/aliases() literals."""
import re, os

FC = "duckscript_sdk/src/sdk/std/flowcontrol"
FILES = {"ifelse": "ifelse/mod.rs", "while_mod": "while_mod/mod.rs", "forin": "forin/mod.rs",
         "function": "function/mod.rs", "end": "end/mod.rs"}
PACKAGE = "std::flowcontrol"

def fail(msg):
    raise SystemExit("extract(flowtables): " + msg)

def struct_tables(src):
    """struct name -> (full name, aliases)"""
    out = {}
    for m in re.finditer(r"impl Command for (\w+) \{(.*?)\n\}\n", src, re.S):
        st, body = m.group(1), m.group(2)
        nm = re.search(r'fn name\(&self\) -> String \{\s*pckg::concat\(&self\.package, "(\w+)"\)\s*\}', body)
        if not nm:
            continue
        al = re.search(r"fn aliases\(&self\) -> Vec<String> \{\s*vec!\[(.*?)\]\s*\}", body, re.S)
        aliases = re.findall(r'"([^"]*)"\.to_string\(\)', al.group(1)) if al else []
        out[st] = (PACKAGE + "::" + nm.group(1), aliases)
    return out

def body_of(src, header_regex):
    m = re.search(header_regex, src)
    if not m:
        fail("function not found: " + header_regex)
    i = src.index("{", m.end() - 1) if src[m.end() - 1] != "{" else m.end() - 1
    depth, j = 0, i
    while True:
        if src[j] == "{": depth += 1
        elif src[j] == "}":
            depth -= 1
            if depth == 0: break
        j += 1
    return src[i:j + 1]

def simulate(body, structs, self_struct=None):
    """interpret the list-building statements up to the find_commands call"""
    cut = body.index("instruction_query::find_commands(")
    pre = body[:cut]
    call = body[cut:]
    binding, lists = {}, {}
    # struct bindings
    for m in re.finditer(r"let (\w+) = (?:\w+::)?(\w+)\s*(?:\{[^}]*\}|::new\([^)]*\));", pre):
        pass
    stmts = re.split(r";\s*\n", pre)
    for s in stmts:
        s = " ".join(s.split())
        m = re.match(r".*?let (\w+) = (?:\w+::)?(\w+) ?(?:\{.*\}|::new\(.*\))$", s)
        if m and m.group(2) in structs:
            binding[m.group(1)] = m.group(2); continue
        m = re.match(r".*?let mut (\w+) = (\w+)\.aliases\(\)$", s)
        if m:
            lists[m.group(1)] = list(structs[resolve(m.group(2), binding, self_struct)][1]); continue
        m = re.match(r".*?(\w+)\.push\((\w+)\.name\(\)\)$", s)
        if m and m.group(1) in lists:
            lists[m.group(1)].append(structs[resolve(m.group(2), binding, self_struct)][0]); continue
        m = re.match(r".*?(\w+)\.append\(&mut (\w+)\.aliases\(\)\)$", s)
        if m and m.group(1) in lists:
            lists[m.group(1)].extend(structs[resolve(m.group(2), binding, self_struct)][1]); continue
        m = re.match(r".*?(\w+)\.push\(end::END_COMMAND_NAME\.to_string\(\)\)$", s)
        if m and m.group(1) in lists:
            lists[m.group(1)].append("end"); continue
        if re.search(r"\.(push|append)\(", s) and re.match(r".*?(\w+)\.(push|append)", s).group(1) in lists:
            fail("unrecognised list statement: " + s[:120])
    args = [a.strip() for a in re.search(r"find_commands\((.*?)\)\s*(\?|\{|;|\n)", call, re.S).group(1).split(",") if a.strip()]
    # (instructions, start_names, middle_names, end_names, start, end, allow_recursive, start_blocks, end_blocks)
    if len(args) != 9:
        fail("find_commands call has %d arguments" % len(args))
    def lst(a):
        a = a.lstrip("&")
        if a == "vec![]": return []
        if a not in lists: fail("unknown list " + a)
        return lists[a]
    if args[6] not in ("true", "false"): fail("allow_recursive is not a literal")
    return {"startNames": lst(args[1]), "middleNames": lst(args[2]), "endNames": lst(args[3]),
            "allowRecursive": args[6], "startBlocks": lst(args[7]), "endBlocks": lst(args[8])}

def resolve(var, binding, self_struct):
    if var == "self":
        if not self_struct: fail("self outside impl")
        return self_struct
    if var not in binding: fail("unbound command variable " + var)
    return binding[var]

def generate(repo, lean_str):
    srcs = {k: open(os.path.join(repo, FC, v)).read() for k, v in FILES.items()}
    structs = {}
    for s in srcs.values():
        structs.update(struct_tables(s))
    need = ["IfCommand", "ElseIfCommand", "ElseCommand", "EndIfCommand", "WhileCommand", "EndWhileCommand",
            "ForInCommand", "EndForInCommand", "FunctionCommand", "EndFunctionCommand", "ReturnCommand"]
    for n in need:
        if n not in structs: fail("command struct %s not found" % n)
    if 'END_COMMAND_NAME: &str = "end"' not in srcs["end"]:
        fail("END_COMMAND_NAME changed")
    tabs = {
        "ifTables": simulate(body_of(srcs["ifelse"], r"fn create_if_meta_info_for_line\([^)]*\)[^{]*\{"), structs),
        "whileTables": simulate(body_of(srcs["while_mod"], r"fn create_while_meta_info_for_line\([^)]*\)[^{]*\{"), structs),
        "forTables": simulate(body_of(srcs["forin"], r"fn create_forin_meta_info_for_line\([^)]*\)[^{]*\{"), structs),
    }
    fn_impl = body_of(srcs["function"], r"impl Command for FunctionCommand \{")
    fn_run = body_of(fn_impl, r"fn run\(&self, context: CommandInvocationContext\) -> CommandResult \{")
    tabs["fnTables"] = simulate(fn_run, structs, "FunctionCommand")
    def ls(l): return "[" + ", ".join("%s.toList" % lean_str(x) for x in l) + "]"
    t = "/- GENERATED by bin/extract.py (bin/fragments/flowtables.py) from duckscript_sdk/src/sdk/std/flowcontrol/*/mod.rs. Do not edit. -/\n"
    t += "import DuckModel.Types\nnamespace Duck.Generated\n\n"
    t += "structure FlowTables where\n  startNames : List Duck.Str\n  middleNames : List Duck.Str\n  endNames : List Duck.Str\n  allowRecursive : Bool\n  startBlocks : List Duck.Str\n  endBlocks : List Duck.Str\n\n"
    for name, tb in tabs.items():
        t += "def %s : FlowTables :=\n  { startNames := %s,\n    middleNames := %s,\n    endNames := %s,\n    allowRecursive := %s,\n    startBlocks := %s,\n    endBlocks := %s }\n\n" % (
            name, ls(tb["startNames"]), ls(tb["middleNames"]), ls(tb["endNames"]), tb["allowRecursive"], ls(tb["startBlocks"]), ls(tb["endBlocks"]))
    t += "/-- every spelling (aliases, then the full name) of each flow-control command -/\n"
    for st in need:
        full, al = structs[st]
        t += "def names%s : List Duck.Str := %s\n" % (st, ls(al + [full]))
    t += "def fullName%s : Duck.Str := %s.toList\n" % ("EndIf", lean_str(structs["EndIfCommand"][0]))
    t += "def fullName%s : Duck.Str := %s.toList\n" % ("EndWhile", lean_str(structs["EndWhileCommand"][0]))
    t += "def fullName%s : Duck.Str := %s.toList\n" % ("EndForIn", lean_str(structs["EndForInCommand"][0]))
    t += "def fullName%s : Duck.Str := %s.toList\n" % ("EndFunction", lean_str(structs["EndFunctionCommand"][0]))
    t += "\nend Duck.Generated\n"
    return "FlowTables.lean", t
