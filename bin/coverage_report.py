#!/usr/bin/env python3
"""bin/coverage_report.py [Cxx ...]   -- self-test helper (never used by a registered check).

Measures which source lines of the files a property is anchored in are executed by that
property's correspondence run (quick tier): builds the harness with -C instrument-coverage
(nightly toolchain, llvm-tools), runs `harness check Cxx quick`, and lists the un-executed
line ranges of the anchored files.  Output: work/coverage/Cxx.txt + a summary line per property.
Everything is built under /var/tmp/cov (removed with --clean)."""
import glob, json, os, re, subprocess, sys, fnmatch, shutil
ROOT = os.path.dirname(os.path.dirname(os.path.abspath(__file__)))
COV = "/var/tmp/cov"
BIN = COV + "/target/release/harness"
TOOLS = os.path.expanduser("~/.rustup/toolchains/nightly-x86_64-unknown-linux-gnu/lib/rustlib/x86_64-unknown-linux-gnu/bin")
def sh(cmd, **kw):
    return subprocess.run(cmd, shell=True, stdout=subprocess.PIPE, stderr=subprocess.STDOUT, text=True, **kw)
def main():
    args = sys.argv[1:]
    if "--clean" in args:
        shutil.rmtree(COV, ignore_errors=True); return
    props = {json.loads(l)["id"]: json.loads(l) for l in open(ROOT + "/properties.jsonl")}
    ids = [a for a in args if a in props] or sorted(props)
    os.makedirs(COV + "/prof", exist_ok=True); os.makedirs(ROOT + "/work/coverage", exist_ok=True)
    if not os.path.exists(BIN) or "--build" in args:
        # (build scripts and proc macros are instrumented too: their profiles go to COV, not into the crate directories)
        r = sh('LLVM_PROFILE_FILE=%s/prof/build-%%p-%%m.profraw CARGO_NET_OFFLINE=true RUSTFLAGS="-C instrument-coverage" CARGO_TARGET_DIR=%s/target cargo +nightly build --release --offline' % (COV, COV), cwd=ROOT + "/harness")
        if r.returncode: print(r.stdout[-2000:]); sys.exit(1)
    for pid in ids:
        if "--norun" not in args:
            for f in glob.glob("%s/prof/%s-*.profraw" % (COV, pid)): os.remove(f)
            tier = "thorough" if "--thorough" in args else "quick"
            sh('LLVM_PROFILE_FILE="%s/prof/%s-%%p-%%m.profraw" timeout 1500 %s check %s %s 1 lean/.lake/build/bin/driver %s/%s.json' % (COV, pid, BIN, pid, tier, COV, pid), cwd=ROOT)
        raws = glob.glob("%s/prof/%s-*.profraw" % (COV, pid))
        if not raws: print(pid, "no profile"); continue
        sh("%s/llvm-profdata merge -sparse %s -o %s/%s.profdata" % (TOOLS, " ".join(raws), COV, pid))
        r = sh("%s/llvm-cov export -format=text -instr-profile=%s/%s.profdata %s" % (TOOLS, COV, pid, BIN))
        data = json.loads(r.stdout[r.stdout.index("{"):])
        pats = props[pid]["anchors"]["files"]
        out = []; tot = cov = 0
        for f in data["data"][0]["files"]:
            name = f["filename"]
            rel = name.split("/repo/")[-1] if "/repo/" in name else None
            if rel is None and "repo-link/" in name: rel = name.split("repo-link/")[-1]
            if rel is None: continue
            if rel.endswith("_test.rs"): continue
            if not any(fnmatch.fnmatch(rel, p) or rel.startswith(p.rstrip("*")) or fnmatch.fnmatch(rel, p.rstrip("/") + "/*") for p in pats): continue
            # line -> executed? from segments: [line, col, count, hasCount, isRegionEntry, isGap]
            lines = {}
            segs = f["segments"]
            src = open(name).read().split("\n") if os.path.exists(name) else []
            for i, s in enumerate(segs):
                l0, c0, cnt, has, entry, gap = s[:6]
                if not has or gap: continue
                l1 = segs[i + 1][0] if i + 1 < len(segs) else l0
                c1 = segs[i + 1][1] if i + 1 < len(segs) else 0
                for l in range(l0, l1 + 1):
                    if l == l1 and c1 <= 1 and l != l0: continue
                    lines.setdefault(l, []).append(cnt)
            unc = sorted(l for l, cs in lines.items() if max(cs) == 0 and l - 1 < len(src) and re.search(r"\w", src[l - 1]))
            tot += len(lines); cov += len(lines) - len(unc)
            if unc:
                out.append("== %s  (%d of %d instrumented lines never executed)" % (rel, len(unc), len(lines)))
                # group into ranges
                rs = []; 
                for l in unc:
                    if rs and l == rs[-1][1] + 1: rs[-1][1] = l
                    else: rs.append([l, l])
                for a, b in rs:
                    for l in range(a, b + 1):
                        out.append("  %5d | %s" % (l, src[l - 1][:150]))
                    out.append("")
        open("%s/work/coverage/%s.txt" % (ROOT, pid), "w").write("\n".join(out) + "\n")
        print("%s anchored-file lines executed by the %s correspondence run: %d / %d (%.1f%%); uncovered listed in work/coverage/%s.txt" % (pid, "quick", cov, tot, 100.0 * cov / max(tot, 1), pid))
main()
