#!/usr/bin/env python3
"""bin/sync_obligations.py Cxx …  — (maintainer tool, never run by a check) records the
property theorems currently in lean/DuckModel/Props/Cxx.lean as the obligations of Cxx."""
import json, os, re, sys
ROOT = os.path.dirname(os.path.dirname(os.path.abspath(__file__)))
p = os.path.join(ROOT, "bin", "obligations.json")
ob = json.load(open(p))
for pid in sys.argv[1:]:
    src = open(os.path.join(ROOT, "lean", "DuckModel", "Props", pid + ".lean")).read()
    # a property's theorems may be split over Props/<pid>*.lean files imported by Props/<pid>.lean
    for sub in re.findall(r"^import DuckModel\.Props\.(%s\w+)" % pid, src, re.M):
        src += "\n" + open(os.path.join(ROOT, "lean", "DuckModel", "Props", sub + ".lean")).read()
    names = re.findall(r"^theorem\s+(%s_\w+)" % pid, src, re.M)
    e = ob.setdefault(pid, {"theorems": [], "trusted_base": [], "assumptions": [], "partial": []})
    e["theorems"] = ["Duck." + n for n in names]
    print(pid, len(names), "theorems")
json.dump(ob, open(p, "w"), indent=1)
