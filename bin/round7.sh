#!/bin/sh
# bin/round7.sh <Cxx>  -- like round2.sh for /tmp/mut7-<cxx>: check with owner + siblings, then confirm + store
PID="$1"; l=$(echo "$PID" | tr 'C' 'c'); WT=/tmp/mut7-$l
for k in 1 2 3; do
  [ -f "$WT/_out/m$k/patch.diff" ] || continue
  r=$(/verif/bin/mutant_all.sh "$WT" "$WT/_out/m$k/patch.diff" "$PID" 2>&1 | tail -1)
  echo "$PID-r7m$k CHECK: $r" >> /verif/work/round7.log
done
for k in 1 2 3; do
  [ -f "$WT/_out/m$k/patch.diff" ] || continue
  /verif/bin/confirm_mutant.sh "$WT" m$k "$PID-r7m$k" "$PID" >> /verif/work/confirm-all.log 2>&1
done
echo "$PID done" >> /verif/work/round7.log
