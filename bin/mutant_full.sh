#!/bin/sh
# bin/mutant_full.sh <worktree> <patch.diff> <Cxx> [tier]
# Self-test helper (never used by a registered check): runs the REAL bin/check of property Cxx
# against a scratch worktree of /repo with the patch applied, from a scratch copy of /verif whose
# repo-link points at that worktree — so regenerated fragments, proofs and the harness all see
# the patched source, and /repo itself is never touched.
WT="$1"; PATCH="$2"; PID="$3"; TIER="${4:-quick}"
V=/tmp/vf-$(basename "$WT")
git -C "$WT" checkout -q -- . && git -C "$WT" apply "$PATCH" || exit 2
mkdir -p "$V"
rsync -a --delete --exclude .git --exclude work --exclude replays /verif/ "$V/"
ln -sfn "$WT" "$V/repo-link"
(cd "$V" && VERIF_REPO="$WT" timeout 3000 bin/check "$PID" "$TIER" 2>&1 | cut -c1-300 | tail -8; echo "exit=$?")
[ -d "$V/replays/$PID" ] && ls "$V/replays/$PID" | head -3 && head -12 "$V/replays/$PID/"* | cut -c1-300
git -C "$WT" checkout -q -- .
