#!/usr/bin/env python3
"""self-test of the runner translation: apply one textual change to a scratch copy of runner.rs,
regenerate, build Props/C03Translated; report BREAK / ACCEPT / FALLBACK"""
import subprocess, sys, os, json, shutil
ROOT = "/var/tmp/vfI"; SCR = "/var/tmp/rsI"; F = SCR + "/duckscript/src/runner.rs"
ORIG = open("/repo/duckscript/src/runner.rs").read()

M = []
def mut(name, expect, *pairs):
    M.append((name, expect, pairs))

# ---- semantic changes (must BREAK)
mut("output variable written AFTER on_error", "BREAK",
    ("""                update_output(
                    &mut runtime.context.variables,
                    output_variable,
                    Some("false".to_string()),
                );

                let post_error_line = line + 1;
""", "                let post_error_line = line + 1;\n"),
    ("""                    return Err(ScriptError::Runtime(error, Some(meta_info.clone())));
                };
""", """                    return Err(ScriptError::Runtime(error, Some(meta_info.clone())));
                };
                update_output(
                    &mut runtime.context.variables,
                    output_variable,
                    Some("false".to_string()),
                );
"""))
mut("jump beyond the last line is an error", "BREAK",
    ("                    GoToValue::Line(line_number) => line = line_number,",
     """                    GoToValue::Line(line_number) => {
                        if instructions.len() > line_number {
                            line = line_number;
                        } else {
                            return Err(ScriptError::Runtime("Line out of range.".to_string(), Some(meta_info)));
                        }
                    }"""))
mut("Exit with non-zero code counted as success", "BREAK",
    ("                        if exit_code != 0 {", "                        if exit_code < 0 {"))
mut("Exit with non-zero code: the error is built but not returned", "BREAK",
    ("""                            return Err(ScriptError::Runtime(
                                format!("Exit with error code: {}", exit_code).to_string(),
                                Some(meta_info.clone()),
                            ));
                        }
                    }""", """                            end_reason = EndReason::ExitCalled;
                        }
                    }"""))
mut("Exit: non-zero test dropped altogether", "BREAK",
    ("""                if let Some(exit_code_str) = output {
                    if let Ok(exit_code) = exit_code_str.parse::<i32>() {
                        if exit_code != 0 {
                            return Err(ScriptError::Runtime(
                                format!("Exit with error code: {}", exit_code).to_string(),
                                Some(meta_info.clone()),
                            ));
                        }
                    }
                }
""", ""))
HALT = """        if runtime.env.halt.load(Ordering::SeqCst) {
            end_reason = EndReason::Halted;
            break;
        }

"""
FETCH_END = """        } else {
            break;
        };

"""
mut("halt poll moved after the fetch", "BREAK", (HALT, ""), (FETCH_END, FETCH_END + HALT))
mut("value of a GoTo not stored", "BREAK",
    ("""            CommandResult::GoTo(output, goto_value) => {
                update_output(&mut runtime.context.variables, output_variable, output);
""", "            CommandResult::GoTo(_output, goto_value) => {\n"))
mut("unknown label continues with the next line", "BREAK",
    ("""                        None => {
                            return Err(ScriptError::Runtime(
                                format!("Label: {} not found.", label),
                                Some(meta_info),
                            ));
                        }""", "                        None => line = line + 1,"))
mut("Continue does not advance", "BREAK", ("                line += 1;\n            }\n            CommandResult::GoTo", "            }\n            CommandResult::GoTo"))
mut("Error arm: line + 2", "BREAK", ("let post_error_line = line + 1;", "let post_error_line = line + 2;"))
mut("Crash stores the output variable", "BREAK",
    ("                let script_error = ScriptError::Runtime(error, Some(meta_info));",
     "                update_output(&mut runtime.context.variables, output_variable, None);\n                let script_error = ScriptError::Runtime(error, Some(meta_info));"))
mut("on_error failing is ignored", "BREAK",
    ("                    return Err(ScriptError::Runtime(error, Some(meta_info.clone())));\n                };",
     "                    line = line + 0;\n                };"))
mut("update_output: None leaves the variable", "BREAK",
    ("            None => variables.remove(&output_variable.unwrap()),", "            None => None,"))
mut("update_output: removes when a value is given", "BREAK",
    ("            Some(value) => variables.insert(output_variable.unwrap(), value),", "            Some(_value) => variables.remove(&output_variable.unwrap()),"))
mut("on_error: Exit of the handler is fine", "BREAK",
    ("                CommandResult::Exit(_) => Err(\"Exiting Script.\".to_string()),", "                CommandResult::Exit(_) => Ok(()),"))
mut("on_error: handler gets line 1 as default", "BREAK", ("meta_info.line.unwrap_or(0)", "meta_info.line.unwrap_or(1)"))
mut("on_error: handler named onerror", "BREAK", ('commands.get_for_use("on_error")', 'commands.get_for_use("onerror")'))
mut("run_instruction: unknown command continues", "BREAK",
    ('                    None => CommandResult::Crash(format!("Command: {} not found.", &command)),', "                    None => CommandResult::Continue(None),"))
mut("run_instruction: directive line crashes", "BREAK",
    ("        InstructionType::PreProcess(_) => CommandResult::Continue(None),", '        InstructionType::PreProcess(_) => CommandResult::Crash("x".to_string()),'))
mut("run_instruction: output variable not handed to the command", "BREAK",
    ("                            output_variable: output_variable.clone(),", "                            output_variable: None,"))
mut("run_instruction: line + 1 handed to the command", "BREAK",
    ("                            commands,\n                            line,\n", "                            commands,\n                            line: line + 1,\n"))
mut("exit code text changed", "BREAK", ('format!("Exit with error code: {}", exit_code)', 'format!("Exit code: {}", exit_code)'))
mut("reached end reported as exit", "BREAK", ("    let mut end_reason = EndReason::ReachedEnd;", "    let mut end_reason = EndReason::ExitCalled;"))

LBL = "                runtime.label_to_line.insert(label.to_string(), line);"
mut("create_runtime: lines without a label are not counted", "BREAK",
    ("            };\n        };\n\n        line += 1;\n", "            };\n            line += 1;\n        };\n"))
mut("create_runtime: label points to the next line", "BREAK", (LBL, LBL.replace("line);", "line + 1);")))
mut("create_runtime: line numbers start at 1", "BREAK", ("    let mut line = 0;\n    for instruction", "    let mut line = 1;\n    for instruction"))
mut("create_runtime: labels never recorded", "BREAK", (LBL, "                line = line + 0;"))

# ---- behaviour-preserving rewrites (same proof must ACCEPT)
mut("create_runtime: line = line + 1", "ACCEPT", ("        line += 1;\n    }\n\n    runtime.instructions", "        line = line + 1;\n    }\n\n    runtime.instructions"))
mut("create_runtime: match for the label", "ACCEPT",
    ("""            if let Some(ref label) = value.label {
                runtime.label_to_line.insert(label.to_string(), line);
            };""", """            match value.label {
                None => (),
                Some(ref name) => {
                    runtime.label_to_line.insert(name.to_string(), line);
                }
            };"""))
mut("create_runtime: enumerate()", "FALLBACK", ("    for instruction in &instructions {", "    for (_i, instruction) in instructions.iter().enumerate() {"))
mut("create_runtime: first label wins (entry API)", "FALLBACK", (LBL, "                runtime.label_to_line.entry(label.to_string()).or_insert(line);"))
mut("match arms reordered (Continue first, Exit last)", "ACCEPT",
    ("""            CommandResult::Continue(output) => {
                update_output(&mut runtime.context.variables, output_variable, output);

                line += 1;
            }
""", ""),
    ("        match command_result {\n", """        match command_result {
            CommandResult::Continue(output) => {
                update_output(&mut runtime.context.variables, output_variable, output);

                line += 1;
            }
"""))
mut("line = line + 1 for line += 1", "ACCEPT", ("                line += 1;", "                line = line + 1;"))
mut("renamed locals", "ACCEPT", ("post_error_line", "after_error"), ("exit_code_str", "code_text"), ("goto_value", "target"))
mut("if !x {A} else {B} (fetch)", "ACCEPT",
    ("""        let (instruction, meta_info) = if instructions.len() > line {
            let instruction = instructions[line].clone();
            let meta_info = instruction.meta_info.clone();
            (instruction, meta_info)
        } else {
            break;
        };""", """        let (instruction, meta_info) = if !(instructions.len() > line) {
            break;
        } else {
            let instruction = instructions[line].clone();
            let meta_info = instruction.meta_info.clone();
            (instruction, meta_info)
        };"""))
mut("line < instructions.len()", "ACCEPT", ("if instructions.len() > line {", "if line < instructions.len() {"))
mut("if exit_code == 0 {} else {return}", "ACCEPT",
    ("""                        if exit_code != 0 {
                            return Err(ScriptError::Runtime(
                                format!("Exit with error code: {}", exit_code).to_string(),
                                Some(meta_info.clone()),
                            ));
                        }""", """                        if exit_code == 0 {
                        } else {
                            return Err(ScriptError::Runtime(
                                format!("Exit with error code: {}", exit_code).to_string(),
                                Some(meta_info.clone()),
                            ));
                        }"""))
mut("if !halt {} else {break}", "ACCEPT",
    (HALT, """        if !runtime.env.halt.load(Ordering::SeqCst) {
        } else {
            end_reason = EndReason::Halted;
            break;
        }

"""))
mut("on_error: wildcard arm spelled out", "ACCEPT",
    ("                _ => Ok(()),", "                CommandResult::Continue(_) => Ok(()),\n                CommandResult::GoTo(_, _) => Ok(()),\n                CommandResult::Error(_) => Ok(()),"))
mut("update_output: match first, if let", "ACCEPT",
    ("""    if output_variable.is_some() {
        match output {
            Some(value) => variables.insert(output_variable.unwrap(), value),
            None => variables.remove(&output_variable.unwrap()),
        };
    }""", """    if let Some(name) = output_variable {
        match output {
            None => variables.remove(&name),
            Some(value) => variables.insert(name, value),
        };
    }"""))
mut("post_error_line inlined", "ACCEPT", ("                let post_error_line = line + 1;\n", ""), ("                line = post_error_line;", "                line = line + 1;"))
mut("run_instruction: if let for the command", "ACCEPT",
    ("                None => CommandResult::Continue(None),\n            }\n        }\n    };", "                _ => CommandResult::Continue(None),\n            }\n        }\n    };"))

# ---- outside the subset (must FALL BACK)
mut("while loop for the fetch", "FALLBACK", ("    loop {\n        if runtime.env.halt", "    while true {\n        if runtime.env.halt"))
mut("instructions.get(line)", "FALLBACK",
    ("""        let (instruction, meta_info) = if instructions.len() > line {
            let instruction = instructions[line].clone();
            let meta_info = instruction.meta_info.clone();
            (instruction, meta_info)
        } else {
            break;
        };""", """        let (instruction, meta_info) = match instructions.get(line) {
            Some(instruction) => (instruction.clone(), instruction.meta_info.clone()),
            None => break,
        };"""))
mut("closure: output.map(|v| v)", "FALLBACK", ("update_output(&mut runtime.context.variables, output_variable, output);\n\n                line += 1;", "update_output(&mut runtime.context.variables, output_variable, output.map(|v| v));\n\n                line += 1;"))
mut("unwrap_or_default on the exit code", "FALLBACK", ("if let Ok(exit_code) = exit_code_str.parse::<i32>() {", "if let Ok(exit_code) = exit_code_str.trim().parse::<i32>() {"))
mut("or-pattern", "FALLBACK", ("                CommandResult::Crash(error) => Err(error),\n                _ => Ok(()),", "                CommandResult::Crash(error) => Err(error),\n                CommandResult::Continue(_) | CommandResult::GoTo(_, _) | CommandResult::Error(_) => Ok(()),"))

def run(cmd, **kw):
    return subprocess.run(cmd, shell=True, capture_output=True, text=True, **kw)

base_gen = open(ROOT + "/bin/fragments/fallback/RunnerStep.lean").read()
only = sys.argv[1:] 
rows = []
for name, expect, pairs in M:
    if only and not any(o in name for o in only): continue
    src = ORIG
    ok = True
    for a, b in pairs:
        if a not in src:
            ok = False; break
        src = src.replace(a, b)
    if not ok:
        rows.append((name, expect, "PATTERN NOT FOUND")); print(rows[-1]); continue
    open(F, "w").write(src)
    r = run("VERIF_REPO=%s python3 bin/extract.py" % SCR, cwd=ROOT)
    st = json.load(open(ROOT + "/work/extract_status.json")).get("RunnerStep.lean")
    others = {k: v for k, v in json.load(open(ROOT + "/work/extract_status.json")).items() if v != "ok" and k != "RunnerStep.lean"}
    if st != "ok":
        rows.append((name, expect, "FALLBACK", st[:150])); print(rows[-1]); continue
    gen = open(ROOT + "/lean/DuckModel/Generated/RunnerStep.lean").read()
    same = gen == base_gen
    b = run("timeout 1500 lake build DuckModel.Props.C03Translated", cwd=ROOT + "/lean")
    res = "ACCEPT" if b.returncode == 0 else "BREAK"
    errs = [l for l in b.stdout.split("\n") if l.startswith("error:")]
    rows.append((name, expect, res, "byte-identical" if same else "different text", (errs[0][:140] if errs else ""), others or ""))
    print(rows[-1]); sys.stdout.flush()
open(F, "w").write(ORIG)
run("python3 bin/extract.py", cwd=ROOT)
bad = [r for r in rows if r[1] != r[2]]
print("UNEXPECTED:", bad)
