#!/bin/sh
# bin/confirm_mutant_sh.sh <worktree> <mK> <seed-id> <Cxx>  -- like confirm_mutant.sh for seeded
# changes whose demo is a shell script (_out/mK/demo.sh: exit 0 without the change, non-zero with).
WT="$1"; M="$2"; ID="$3"; PID="$4"
OUT="$WT/_out/$M"
LOG=/verif/work/confirm-$ID.log
: > "$LOG"
cd "$WT" || exit 2
git checkout -q -- .
sh "$OUT/demo.sh" >> "$LOG" 2>&1; D0=$?
git apply "$OUT/patch.diff" || { echo "patch does not apply" >> "$LOG"; exit 2; }
sh "$OUT/demo.sh" >> "$LOG" 2>&1; D1=$?
echo "## suite with patch" >> "$LOG"
CARGO_NET_OFFLINE=true timeout 3000 cargo test -p duckscript -p duckscriptsdk --offline --no-fail-fast --lib >> "$LOG" 2>&1
git checkout -q -- .
python3 - "$LOG" "$D0" "$D1" "$OUT" "$ID" "$PID" <<'PY'
import sys,re,json,os,shutil
log,d0,d1,out,sid,pid=sys.argv[1:]
txt=open(log).read()
suite=txt[txt.index("## suite with patch"):]
failed=set(re.findall(r'^test (\S+) \.\.\. FAILED',suite,re.M))
known={"sdk::std::fs::append::mod_test::run_not_exists","sdk::std::fs::mv::mod_test::run_file_to_directory","sdk::std::fs::mv::mod_test::run_directory_to_directory_rename","sdk::std::fs::mv::mod_test::run_directory_to_directory_move","sdk::std::net::ftp::list::mod_test::run_valid","sdk::std::net::ftp::nlst::mod_test::run_valid","sdk::std::net::http_client::mod_test::run_get","sdk::std::net::http_client::mod_test::run_get_to_file","sdk::std::net::http_client::mod_test::run_post","utils::io::io_test::create_empty_file_exists","utils::io::io_test::create_empty_file_not_exists","utils::io::io_test::write_to_text_file_not_exists"}
results=re.findall(r'^test result: (\w+)\. (\d+) passed; (\d+) failed',suite,re.M)
extra=failed-known
ok = d0=="0" and d1!="0" and not extra and len(results)>=2
print(sid,"demo_without=%s demo_with=%s suite=%s extra_failures=%s -> %s"%(d0,d1,results,sorted(extra),"CONFIRMED" if ok else "REJECTED"))
if ok:
    dst="/verif/seeded/"+sid
    os.makedirs(dst,exist_ok=True)
    shutil.copy(out+"/patch.diff",dst+"/patch.diff")
    shutil.copy(out+"/demo.sh",dst+"/demo.sh")
    meta=json.load(open(out+"/meta.json"))
    meta["property"]=pid
    meta["confirmed_by_lead"]={"demo_without_patch_exit":int(d0),"demo_with_patch_exit":int(d1),"suite_with_patch":results,"failing_tests_beyond_the_12_known_offline_failures":sorted(extra),
      "commands":["git apply patch.diff (scratch worktree)","sh demo.sh (with and without)","cargo test -p duckscript -p duckscriptsdk --offline --no-fail-fast --lib"]}
    json.dump(meta,open(dst+"/meta.json","w"),indent=1,ensure_ascii=False)
PY
