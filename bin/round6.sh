#!/bin/sh
# bin/round6.sh <Cxx>  -- like round2.sh for /tmp/mut6-<cxx>: check with owner + siblings, then confirm + store
PID="$1"; l=$(echo "$PID" | tr 'C' 'c'); WT=/tmp/mut6-$l
for k in 1 2 3; do
  [ -f "$WT/_out/m$k/patch.diff" ] || continue
  r=$(/verif/bin/mutant_all.sh "$WT" "$WT/_out/m$k/patch.diff" "$PID" 2>&1 | tail -1)
  echo "$PID-r6m$k CHECK: $r" >> /verif/work/round6.log
done
for k in 1 2 3; do
  [ -f "$WT/_out/m$k/patch.diff" ] || continue
  /verif/bin/confirm_mutant.sh "$WT" m$k "$PID-r6m$k" "$PID" >> /verif/work/confirm-all.log 2>&1
done
echo "$PID done" >> /verif/work/round6.log
