#!/usr/bin/env python3
"""Self-test helper (never used by a registered check; DESIGN.md 11.10, fifth executor): applies one
textual change at a time to a scratch copy of duckscript/src/types/command.rs (/var/tmp/rsJ, created
from /repo and deleted at the end), regenerates Generated/RegistryFns.lean from it and builds
Props/C15Translated.lean.  Semantic changes must BREAK the build, `ok_…` rewrites must be accepted,
`out_…` rewrites must fall back.  Usage: python3 bin/selftest_c15_translation.py [mutant …]"""
import subprocess, sys, os, json, shutil
ROOT = os.path.dirname(os.path.dirname(os.path.abspath(__file__)))
ORIG = open('/repo/duckscript/src/types/command.rs').read()
TARGET = '/var/tmp/rsJ/duckscript/src/types/command.rs'
if not os.path.exists(TARGET):
    shutil.copytree('/repo', '/var/tmp/rsJ', ignore=shutil.ignore_patterns('target', '.git'))
GET_BLOCK = '''        let command_name = match self.aliases.get(name) {
            Some(ref value) => value,
            None => name,
        };
'''
M = {
 # ---- semantic changes: must BREAK
 "F3_remove_any_alias": [('''                    if self.aliases.get(alias) == Some(&removed_name) {
                        self.aliases.remove(alias);
                    }
''', '''                    self.aliases.remove(alias);
''')],
 "set_keeps_alias_named_like_new_command": [('''        self.aliases.remove(&name);
''', '')],
 "get_names_before_aliases": [('''    pub fn get(&self, name: &str) -> Option<&CommandBox> {
        let command_name = match self.aliases.get(name) {
            Some(ref value) => value,
            None => name,
        };

        match self.commands.get(command_name) {
            Some(ref value) => Some(value),
            None => None,
        }
    }''', '''    pub fn get(&self, name: &str) -> Option<&CommandBox> {
        match self.commands.get(name) {
            Some(ref value) => Some(value),
            None => match self.aliases.get(name) {
                Some(ref target) => match self.commands.get(target) {
                    Some(ref value) => Some(value),
                    None => None,
                },
                None => None,
            },
        }
    }''')],
 "exists_ignores_aliases": [('''        let command = self.get(name);

        command.is_some()''', '''        self.commands.contains_key(name)''')],
 "set_accepts_existing_name": [('''        if self.commands.contains_key(&name) {
            return Err(ScriptError::Initialization(format!(
                "Command: {} already defined.",
                &name
            )));
        }

''', '')],
 "set_refuses_never_on_alias": [('''            if self.aliases.contains_key(alias) {''', '''            if self.commands.contains_key(alias) {''')],
 "set_alias_points_to_alias": [('''self.aliases.insert(alias.to_string(), name.clone());''', '''self.aliases.insert(alias.to_string(), alias.to_string());''')],
 "remove_by_name_only": [('''    pub fn remove(&mut self, name: &str) -> bool {
        let command_name = match self.aliases.get(name) {
            Some(ref value) => value,
            None => name,
        };
''', '''    pub fn remove(&mut self, name: &str) -> bool {
        let command_name = name;
''')],
 "remove_answers_true": [('''            None => false,
        }
    }
}''', '''            None => true,
        }
    }
}''')],
 "names_unsorted": [('''        names.sort();

''', '')],
 "names_lists_aliases": [('''for key in self.commands.keys() {''', '''for key in self.aliases.keys() {''')],
 "get_for_use_removes": [('''        match self.commands.get(command_name) {
            Some(value) => Some(value.clone()),
            None => None,
        }''', '''        match self.commands.remove(command_name) {
            Some(value) => Some(value.clone()),
            None => None,
        }''')],
 "set_insert_before_refusal_check": [('''        for alias in &aliases {
            if self.aliases.contains_key(alias) {
                return Err(ScriptError::Initialization(format!(
                    "Alias: {} for command: {} already defined.",
                    &alias, &name
                )));
            }
        }

        self.commands.insert(name.clone(), command);
''', '''        self.commands.insert(name.clone(), command.clone());
        for alias in &aliases {
            if self.aliases.contains_key(alias) {
                return Err(ScriptError::Initialization(format!(
                    "Alias: {} for command: {} already defined.",
                    &alias, &name
                )));
            }
        }

''')],
 "new_not_empty": None,
 # ---- behaviour-preserving rewrites inside the subset: must be ACCEPTED by the same proofs
 "ok_reordered_insert_and_alias_removal": [('''        self.commands.insert(name.clone(), command);
        self.aliases.remove(&name);
''', '''        self.aliases.remove(&name);
        self.commands.insert(name.clone(), command);
''')],
 "ok_reordered_lets": [('''        let name = command.name();
        let aliases = command.aliases();

        if self.commands''', '''        let aliases = command.aliases();
        let name = command.name();

        if self.commands''')],
 "ok_if_not_else": [('''                    if self.aliases.get(alias) == Some(&removed_name) {
                        self.aliases.remove(alias);
                    }
''', '''                    if !(self.aliases.get(alias) == Some(&removed_name)) {
                    } else {
                        self.aliases.remove(alias);
                    }
''')],
 "ok_ne_else": [('''                    if self.aliases.get(alias) == Some(&removed_name) {
                        self.aliases.remove(alias);
                    }
''', '''                    if self.aliases.get(alias) != Some(&removed_name) {
                    } else {
                        self.aliases.remove(alias);
                    }
''')],
 "ok_swapped_eq_operands": [('''if self.aliases.get(alias) == Some(&removed_name) {''', '''if Some(&removed_name) == self.aliases.get(alias) {''')],
 "ok_renamed_locals": [('''                let removed_name = command.name();
                let aliases = command.aliases();
                for alias in &aliases {
                    if self.aliases.get(alias) == Some(&removed_name) {
                        self.aliases.remove(alias);
                    }
                }''', '''                let gone = command.name();
                let its_aliases = command.aliases();
                for a in &its_aliases {
                    if self.aliases.get(a) == Some(&gone) {
                        self.aliases.remove(a);
                    }
                }''')],
 "ok_if_let_in_get": [('''        match self.commands.get(command_name) {
            Some(ref value) => Some(value),
            None => None,
        }
    }

    /// Return true''', '''        if let Some(value) = self.commands.get(command_name) {
            Some(value)
        } else {
            None
        }
    }

    /// Return true''')],
 "ok_exists_inlined": [('''        let command = self.get(name);

        command.is_some()''', '''        self.get(name).is_some()''')],
 "ok_not_contains_else": [('''        if self.commands.contains_key(&name) {
            return Err(ScriptError::Initialization(format!(
                "Command: {} already defined.",
                &name
            )));
        }

''', '''        if !self.commands.contains_key(&name) {
        } else {
            return Err(ScriptError::Initialization(format!(
                "Command: {} already defined.",
                &name
            )));
        }

''')],
 "ok_remove_match_arms_swapped": [("""        match self.commands.get(command_name) {
            Some(ref value) => Some(value),
            None => None,
        }""", """        match self.commands.get(command_name) {
            None => None,
            Some(ref value) => Some(value),
        }""")],
 "retain_by_target": [("""                for alias in &aliases {
                    if self.aliases.get(alias) == Some(&removed_name) {
                        self.aliases.remove(alias);
                    }
                }""", """                self.aliases.retain(|_k, v| v != &removed_name);""")],
 # ---- rewrites outside the subset: must FALL BACK
 "out_while_loop": [('''        for key in self.commands.keys() {
            names.push(key.to_string());
        }
''', '''        let mut it = self.commands.keys();
        while let Some(key) = it.next() {
            names.push(key.to_string());
        }
''')],
 "out_iterator_chain": [('''        let mut names = vec![];

        for key in self.commands.keys() {
            names.push(key.to_string());
        }
''', '''        let mut names: Vec<String> = self.commands.keys().map(|k| k.to_string()).collect();
''')],
 "out_unwrap_or": [(GET_BLOCK + '''
        match self.commands.get(command_name) {
            Some(ref value) => Some(value),''', '''        let command_name = self.aliases.get(name).map(|v| v.as_str()).unwrap_or(name);

        match self.commands.get(command_name) {
            Some(ref value) => Some(value),''')],
 "out_entry_api": [('''        self.commands.insert(name.clone(), command);
''', '''        self.commands.entry(name.clone()).or_insert(command);
''')],
}
def run(name):
    src = ORIG
    if name == "new_not_empty":
        src = src.replace('''        Commands {
            commands: HashMap::new(),
            aliases: HashMap::new(),
        }''', '''        let mut aliases = HashMap::new();
        aliases.insert("x".to_string(), "y".to_string());
        Commands {
            commands: HashMap::new(),
            aliases: aliases,
        }''')
        assert src != ORIG
    else:
        for old, new in M[name]:
            assert src.count(old) == 1, (name, old[:40], src.count(old))
            src = src.replace(old, new)
    open(TARGET, 'w').write(src)
    env = dict(os.environ, VERIF_REPO='/var/tmp/rsJ')
    subprocess.run(['python3', 'bin/extract.py'], cwd=ROOT, env=env, capture_output=True)
    st = json.load(open(ROOT + '/work/extract_status.json'))['RegistryFns.lean']
    changed = subprocess.run(['git', 'diff', '--quiet', '--', 'lean/DuckModel/Generated/RegistryFns.lean'], cwd=ROOT).returncode != 0
    b = subprocess.run('timeout 1500 lake build DuckModel.Props.C15Translated 2>&1', shell=True, cwd=ROOT + '/lean', capture_output=True, text=True)
    errs = [l for l in b.stdout.splitlines() if l.startswith('error: DuckModel')]
    print("%-42s extract=%-9s text=%-9s build=%s %s" % (name, 'ok' if st == 'ok' else 'FALLBACK', 'changed' if changed else 'identical', 'ok' if b.returncode == 0 else 'BROKEN', ('; '.join(e.split(':')[1] + ':' + e.split(':')[2] for e in errs[:3])) if errs else ''), flush=True)
    if st != 'ok': print("    ", st[:200])
names = sys.argv[1:] or list(M)
for n in names: run(n)
shutil.rmtree('/var/tmp/rsJ')
subprocess.run(['python3', 'bin/extract.py'], cwd=ROOT)
