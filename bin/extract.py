#!/usr/bin/env python3
"""Regenerates lean/DuckModel/Generated/*.lean from /repo (DESIGN.md section 4.2).
Files are only rewritten when their content changes, so lake does not rebuild needlessly."""
import os, re, sys, glob

ROOT = os.path.dirname(os.path.dirname(os.path.abspath(__file__)))
REPO = os.environ.get("VERIF_REPO", "/repo")
GEN = os.path.join(ROOT, "lean", "DuckModel", "Generated")

def write_if_changed(path, text):
    if os.path.exists(path) and open(path).read() == text:
        return
    with open(path, "w") as f:
        f.write(text)

def lean_str(s):
    out = ['"']
    for ch in s:
        if ch == '"': out.append('\\"')
        elif ch == '\\': out.append('\\\\')
        elif ch == '\n': out.append('\\n')
        elif ch == '\t': out.append('\\t')
        elif ch == '\r': out.append('\\r')
        else: out.append(ch)
    out.append('"')
    return "".join(out)

def main():
    os.makedirs(GEN, exist_ok=True)
    # filled in per fragment below
    import importlib.util
    frag_dir = os.path.join(ROOT, "bin", "fragments")
    if os.path.isdir(frag_dir):
        for f in sorted(glob.glob(os.path.join(frag_dir, "*.py"))):
            spec = importlib.util.spec_from_file_location(os.path.basename(f)[:-3], f)
            m = importlib.util.module_from_spec(spec)
            spec.loader.exec_module(m)
            name, text = m.generate(REPO, lean_str)
            write_if_changed(os.path.join(GEN, name), text)

if __name__ == "__main__":
    main()
