#!/usr/bin/env python3
"""Regenerates lean/DuckModel/Generated/*.lean from /repo (DESIGN.md section 4.2).
Files are only rewritten when their content changes, so lake does not rebuild needlessly."""
import os, re, sys, glob

ROOT = os.path.dirname(os.path.dirname(os.path.abspath(__file__)))
REPO = os.environ.get("VERIF_REPO", "/repo")
GEN = os.path.join(ROOT, "lean", "DuckModel", "Generated")

def write_if_changed(path, text):
    if os.path.exists(path) and open(path).read() == text:
        return
    with open(path, "w") as f:
        f.write(text)

def lean_str(s):
    out = ['"']
    for ch in s:
        if ch == '"': out.append('\\"')
        elif ch == '\\': out.append('\\\\')
        elif ch == '\n': out.append('\\n')
        elif ch == '\t': out.append('\\t')
        elif ch == '\r': out.append('\\r')
        else: out.append(ch)
    out.append('"')
    return "".join(out)

def main():
    """Runs every fragment generator on its own.  A generator that does not recognise the shape
    of the source raises SystemExit: its previous output is left in place and the failure is
    recorded in work/extract_status.json, so that bin/check can treat exactly the obligations
    that depend on that fragment as broken (and no others)."""
    import importlib.util, json
    os.makedirs(GEN, exist_ok=True)
    os.makedirs(os.path.join(ROOT, "work"), exist_ok=True)
    status = {}
    frag_dir = os.path.join(ROOT, "bin", "fragments")
    for f in sorted(glob.glob(os.path.join(frag_dir, "*.py"))):
        key = os.path.basename(f)
        try:
            spec = importlib.util.spec_from_file_location(key[:-3], f)
            m = importlib.util.module_from_spec(spec)
            spec.loader.exec_module(m)
            name, text = m.generate(REPO, lean_str)
            write_if_changed(os.path.join(GEN, name), text)
            status[name] = "ok"
        except SystemExit as e:
            status[guess_output(f)] = fall_back(guess_output(f), "%s" % (e,))
        except Exception as e:  # a source file moved, unreadable, …
            status[guess_output(f)] = fall_back(guess_output(f), "%r" % (e,))
    with open(os.path.join(ROOT, "work", "extract_status.json"), "w") as fh:
        json.dump(status, fh, indent=1)
    if "--bless" in sys.argv:
        # record the current (successfully regenerated) fragments as the hand-kept fallback copies
        os.makedirs(FALLBACK, exist_ok=True)
        for name, st in status.items():
            if st == "ok":
                write_if_changed(os.path.join(FALLBACK, name), open(os.path.join(GEN, name)).read())
    bad = {k: v for k, v in status.items() if v != "ok" and not v.startswith("fallback")}
    for k, v in status.items():
        if v.startswith("fallback"):
            print("%s: %s" % (k, v))
    for k, v in bad.items():
        print("%s: %s" % (k, v))
    sys.exit(1 if bad else 0)

FALLBACK = os.path.join(ROOT, "bin", "fragments", "fallback")

def fall_back(name, reason):
    """The translator does not recognise the shape of the source (a rewrite it was not written
    for).  The fragment is then NOT regenerated: the hand-kept copy bin/fragments/fallback/<name>
    (the fragment as last blessed by the maintainer of /verif) is used, and the tie between it and
    the code is carried by the correspondence check alone (DESIGN.md 11.2, 'fragments'): bin/check
    records this in the evidence and the harness's systematic probes (keyword classification,
    truthiness dictionary, CLI flag table, script commands) compare the fragment's content with
    the code's behaviour."""
    src = os.path.join(FALLBACK, name)
    if not os.path.exists(src):
        return "extraction failed: %s" % reason
    write_if_changed(os.path.join(GEN, name), open(src).read())
    return "fallback: source shape not recognised by the translator (%s); hand-kept fragment used" % reason

def guess_output(fragment_path):
    """the Generated/*.lean file a fragment writes (named in its source as the returned file name)"""
    src = open(fragment_path).read()
    m = re.findall(r'return\s+"(\w+\.lean)"', src)
    return m[-1] if m else os.path.basename(fragment_path)

if __name__ == "__main__":
    main()
