/-
  Line-protocol driver: runs the model's executable definitions on the harness's cases.
-/
import DuckModel.Wire
import DuckModel.Parser
import DuckModel.Spec.Render

namespace Duck.Driver
open Duck Duck.Wire

def bad : String := "BAD-REQUEST"

def decArgCh (x : String) : Option (Nat × Bool) :=
  match x.splitOn ":" with
  | [k, q] => k.toNat?.map fun n => (n, q == "1")
  | _ => none

def decComment (x : String) : Option (Nat × Str) :=
  match x.splitOn ":" with
  | [k, txt] => do
    let n ← k.toNat?
    let t ← decStr txt
    pure (n, t)
  | _ => none

/-- C01 item: label/output/command/args/lead/trail/afterLabel/eqBefore/eqAfter/argch/comment/crlf -/
def decItem (t : String) : Option (Spec.Choices × ScriptInstr × Bool) :=
  match t.splitOn "/" with
  | [lb, ou, cm, ar, ld, tr, al, eb, ea, ac, co, cr] => do
    let label ← decOpt lb
    let output ← decOpt ou
    let command ← decOpt cm
    let args ← decOptList ar
    let lead ← decStr ld
    let trail ← decStr tr
    let afterLabel ← al.toNat?
    let eqBefore ← eb.toNat?
    let eqAfter ← ea.toNat?
    let argch ← if ac = "-" then some [] else (ac.splitOn ",").mapM decArgCh
    let comment ← if co = "-" then some none else (decComment co).map some
    pure ({ lead := lead, trail := trail, afterLabel := afterLabel, eqBefore := eqBefore,
            eqAfter := eqAfter, args := argch, comment := comment },
          { label := label, output := output, command := command, args := args }, cr = "1")
  | _ => none

def handle (toks : List String) : String :=
  match toks with
  | ["parse", t] =>
    match decStr t with
    | some s => encParse (parseText s)
    | none => bad
  | ["c01", opn, items] =>
    match (items.splitOn ";").mapM decItem with
    | some its =>
      let text := if opn = "1" then Spec.renderScriptOpen its else Spec.renderScript its
      let dom := its.all fun x => Spec.instrOKb x.2.1 && Spec.choicesOKb x.1
      encStr text ++ " " ++ (if dom then "DOM" else "NODOM") ++ " " ++ encParse (parseText text)
    | none => bad
  | ["ws", n] =>
    match n.toNat? with
    | some k => if isWs (Char.ofNat k) then "1" else "0"
    | none => bad
  | _ => bad

partial def loop (h : IO.FS.Stream) (out : IO.FS.Stream) : IO Unit := do
  let line ← h.getLine
  if line.isEmpty then return ()
  let toks := (line.trimAscii.toString.splitOn " ")
  out.putStrLn (handle toks)
  out.flush
  loop h out

def main : IO Unit := do
  let i ← IO.getStdin
  let o ← IO.getStdout
  loop i o
  o.flush

end Duck.Driver
