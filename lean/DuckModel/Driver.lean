/-
  Line-protocol driver: runs the model's executable definitions on the harness's cases.
  One request per line in, one canonical result line out.  Each property (group) has its own
  handler module under DuckModel/Drv/; a handler returns `none` (or "UNKNOWN-OP") for
  operations it does not know.
-/
import DuckModel.Drv.Core
import DuckModel.Drv.C04
import DuckModel.Drv.C07
import DuckModel.Drv.C08I
import DuckModel.Drv.C09
import DuckModel.Drv.C10
import DuckModel.Drv.C11
import DuckModel.Drv.C12
import DuckModel.Drv.C12S
import DuckModel.Drv.C14
import DuckModel.Drv.C16
import DuckModel.Drv.C17
import DuckModel.Drv.C17P
import DuckModel.Drv.C18
import DuckModel.Drv.C19
import DuckModel.Drv.C20
import DuckModel.Drv.C15S

namespace Duck.Driver

/-- add one line per handler module -/
def handlers : List (List String → Option String) := [
  Duck.Drv.Core.handle,
  Duck.Drv.C04.handle,
  Duck.Drv.C07.handle,
  Duck.Drv.C08I.handle,
  Duck.Drv.C09.handle,
  Duck.Drv.C10.handle,
  Duck.Drv.C11.handle,
  Duck.Drv.C12.handle,
  Duck.Drv.C12S.handle,
  Duck.Drv.C14.handle,
  Duck.Drv.C16.handle,
  Duck.Drv.C17.handle,
  Duck.Drv.C17P.handle,
  Duck.Drv.C18.handle,
  Duck.Drv.C19.handle,
  Duck.Drv.C20.handle,
  Duck.Drv.C15S.handle
]

def dispatch (toks : List String) : String :=
  go handlers
where
  go : List (List String → Option String) → String
    | [] => "UNKNOWN-OP"
    | h :: rest =>
      match h toks with
      | some r => if r = "UNKNOWN-OP" then go rest else r
      | none => go rest

partial def loop (h : IO.FS.Stream) (out : IO.FS.Stream) : IO Unit := do
  let line ← h.getLine
  if line.isEmpty then return ()
  let toks := (line.trimAscii.toString.splitOn " ")
  out.putStrLn (dispatch toks)
  out.flush
  loop h out

def main : IO Unit := do
  let i ← IO.getStdin
  let o ← IO.getStdout
  loop i o
  o.flush

end Duck.Driver
