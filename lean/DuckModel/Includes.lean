/-
  C14 — a concrete path model for `!include_files` (driver side of the abstract `Fs` of
  Parser.lean).

  * paths are texts (`Str`), `/` is the separator (Unix; the harness runs on Linux);
  * `parentOf`  = `std::path::Path::parent` (a slice of the original text: the last component is
    removed, then trailing separators and `.` components; a leading `.` of a relative path is a
    component, `.` elsewhere and empty pieces are not);
  * `joinPath`  = `PathBuf::push` with a non-absolute argument;
  * `canonicalize` = `std::fs::canonicalize` on a tree WITHOUT symbolic links whose files are the
    keys of an association list: pieces are walked left to right, `.`/empty pieces and `..`
    require the current prefix to be a directory, a named piece must exist (as a file or as a
    directory = proper prefix of some file).  Relative paths depend on the process' current
    directory: not modelled (`none`, as if nothing existed there);
  * `Fs.resolve` = the rule of `include_files_preprocessor::run` (lines 20-43);
  * `Fs.read`    = `fsio::file::read_text_file`: the OS resolves the path like `canonicalize`
    does; directories and missing files cannot be read.
-/
import DuckModel.Parser

namespace Duck

/-- `str::split(sep)` : pieces between separators (always at least one piece) -/
def splitOnChar (sep : Char) : Str → List Str
  | [] => [[]]
  | c :: rest =>
    if c = sep then [] :: splitOnChar sep rest
    else
      match splitOnChar sep rest with
      | [] => [[c]]
      | p :: ps => (c :: p) :: ps

def joinSlash : List Str → Str
  | [] => []
  | [p] => p
  | p :: ps => p ++ '/' :: joinSlash ps

/-- `Components::trim_right` on the reversed list of pieces: empty pieces and `.` pieces are
    dropped from the end; with `keepFirstDot` the very first piece `.` is a component (`CurDir`) -/
def trimRightRev (keepFirstDot : Bool) : List Str → List Str
  | [] => []
  | pc :: rest =>
    if pc = [] then trimRightRev keepFirstDot rest
    else if pc = ['.'] then
      if rest.isEmpty && keepFirstDot then pc :: rest else trimRightRev keepFirstDot rest
    else pc :: rest

/-- `Path::parent` -/
def parentOf (p : Str) : Option Str :=
  let hasRoot := p.head? = some '/'
  let body := if hasRoot then p.tail else p
  let ps := if body.isEmpty then [] else splitOnChar '/' body
  match trimRightRev (!hasRoot) ps.reverse with
  | [] => none
  | _ :: restRev =>
    some ((if hasRoot then ['/'] else []) ++ joinSlash (trimRightRev (!hasRoot) restRev).reverse)

/-- `PathBuf::push(arg)` for an `arg` that is not absolute -/
def joinPath (par arg : Str) : Str :=
  if par.isEmpty then arg
  else if par.getLast? = some '/' then par ++ arg
  else par ++ '/' :: arg

/-- files of the tree: canonical absolute path ↦ text -/
abbrev Tree := List (Str × Str)

/-- components of a canonical absolute path -/
def compsOf (key : Str) : List Str := (splitOnChar '/' key).filter (fun p => !p.isEmpty)

def renderComps (cs : List Str) : Str :=
  if cs.isEmpty then ['/'] else cs.flatMap (fun c => '/' :: c)

def lookupFile (t : Tree) (cs : List Str) : Option Str :=
  match t with
  | [] => none
  | (k, v) :: rest => if compsOf k = cs then some v else lookupFile rest cs

def isFileT (t : Tree) (cs : List Str) : Bool := (lookupFile t cs).isSome

/-- a directory exists when some file lies below it (the root always exists) -/
def isDirT (t : Tree) (cs : List Str) : Bool :=
  cs.isEmpty || t.any (fun kv => cs.isPrefixOf (compsOf kv.1) && cs.length < (compsOf kv.1).length)

/-- walk the pieces of an absolute path; the stack of components is kept reversed -/
def canonGo (t : Tree) : List Str → List Str → Option (List Str)
  | st, [] => some st
  | st, pc :: rest =>
    if pc = [] ∨ pc = ['.'] then
      if isDirT t st.reverse then canonGo t st rest else none
    else if pc = ['.', '.'] then
      if isDirT t st.reverse then canonGo t st.tail rest else none
    else if isDirT t st.reverse ∧ (isFileT t (pc :: st).reverse ∨ isDirT t (pc :: st).reverse) then
      canonGo t (pc :: st) rest
    else none

def canonComps (t : Tree) (p : Str) : Option (List Str) :=
  if p.head? = some '/' then (canonGo t [] (splitOnChar '/' p)).map List.reverse else none

/-- `std::fs::canonicalize` -/
def canonicalize (t : Tree) (p : Str) : Option Str := (canonComps t p).map renderComps

/-- `read_text_file` -/
def readT (t : Tree) (p : Str) : Option Str := (canonComps t p).bind (lookupFile t)

/-- path rule of `include_files_preprocessor::run` -/
def resolveT (t : Tree) (src : Option Str) (arg : Str) : Str :=
  if arg.head? = some '/' ∨ arg.head? = some '\\' then arg
  else
    match src with
    | none => arg
    | some s =>
      match parentOf s with
      | none => arg
      | some par =>
        let joined := joinPath par arg
        match canonicalize t joined with
        | some c => c
        | none => joined

def treeFs (t : Tree) : Fs := { read := readT t, resolve := resolveT t }

/-- `parse_file(root)` over a tree of files; `fuel` bounds the include depth -/
def parseFileT (t : Tree) (fuel : Nat) (root : Str) : Except ParseFail (List Instruction) :=
  parseFileF (treeFs t) fuel root

end Duck
