/-
  "Scripted" commands used by the C03 / C10 / C13 correspondence checks: every invocation
  is logged and consumes the next result of a queue chosen by the generator
  (an exhausted queue yields `Exit(None)`, so every run terminates).
  The harness registers commands with the same behaviour in the real runner.
-/
import DuckModel.Runner

namespace Duck

structure LogEntry where
  name : Str
  args : List Str
  line : Nat
deriving DecidableEq, Repr

structure ScriptedSt where
  queue : List CmdResult
  log : List LogEntry := []
  invocations : Nat := 0
  /-- the halt flag is raised by the k-th invocation (1-based), if any -/
  haltAt : Option Nat := none
  halted : Bool := false
deriving Repr

/-- `names` = registered command names (incl. `on_error` when it is registered) -/
def scriptedSem (names : List Str) : CmdSem ScriptedSt :=
  fun name args _out line vars s =>
    if names.contains name then
      let inv := s.invocations + 1
      let halted := s.halted || (s.haltAt == some inv)
      let log := s.log ++ [{ name := name, args := args, line := line }]
      match s.queue with
      | [] => some (.exit none, vars, { s with log := log, invocations := inv, halted := halted })
      | r :: q => some (r, vars, { s with queue := q, log := log, invocations := inv, halted := halted })
    else none

def scriptedHalt : Nat → ScriptedSt → Bool := fun _ s => s.halted

end Duck
