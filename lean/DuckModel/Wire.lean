/-
  Line protocol shared with the Rust harness.
  request : `<op> <tok> <tok> …`    response: `<tok> <tok> …`
  strings : `h` + hex of the UTF-8 bytes (empty string = `h`);  none = `-`
  lists   : `[` items separated by `,` `]`
-/
import DuckModel.Types

namespace Duck.Wire

def hexDigit (n : Nat) : Char :=
  if n < 10 then Char.ofNat (48 + n) else Char.ofNat (87 + n)

def hexOfBytes (b : ByteArray) : String :=
  String.ofList (b.toList.flatMap fun x => [hexDigit (x.toNat / 16), hexDigit (x.toNat % 16)])

def encStr (s : Str) : String := "h" ++ hexOfBytes (String.ofList s).toUTF8

def encOpt (s : Option Str) : String :=
  match s with
  | none => "-"
  | some v => encStr v

def encList (l : List Str) : String := "[" ++ ",".intercalate (l.map encStr) ++ "]"

def encOptList (l : Option (List Str)) : String :=
  match l with
  | none => "-"
  | some v => encList v

def encOptNat (n : Option Nat) : String :=
  match n with
  | none => "-"
  | some v => toString v

def hexVal (c : Char) : Option Nat :=
  if '0' ≤ c ∧ c ≤ '9' then some (c.toNat - 48)
  else if 'a' ≤ c ∧ c ≤ 'f' then some (c.toNat - 87)
  else none

def bytesOfHex : List Char → Option (List UInt8)
  | [] => some []
  | [_] => none
  | a :: b :: rest => do
    let x ← hexVal a
    let y ← hexVal b
    let r ← bytesOfHex rest
    pure (UInt8.ofNat (x * 16 + y) :: r)

def decStr (t : String) : Option Str :=
  match t.toList with
  | 'h' :: hex => do
    let bs ← bytesOfHex hex
    let s ← String.fromUTF8? (ByteArray.mk bs.toArray)
    pure s.toList
  | _ => none

def decOpt (t : String) : Option (Option Str) :=
  if t = "-" then some none else (decStr t).map some

def decList (t : String) : Option (List Str) :=
  match t.toList with
  | '[' :: rest =>
    match rest.reverse with
    | ']' :: mid =>
      let inner := String.ofList mid.reverse
      if inner.isEmpty then some [] else (inner.splitOn ",").mapM decStr
    | _ => none
  | _ => none

def decOptList (t : String) : Option (Option (List Str)) :=
  if t = "-" then some none else (decList t).map some

def encMeta (m : Meta) : String := encOptNat m.line ++ ":" ++ encOpt m.source

def encInstr (i : Instruction) : String :=
  match i.ty with
  | .empty => "E:" ++ encMeta i.mi
  | .preProcess c a => "P:" ++ encMeta i.mi ++ ":" ++ encOpt c ++ ":" ++ encOptList a
  | .script s =>
    "S:" ++ encMeta i.mi ++ ":" ++ encOpt s.label ++ ":" ++ encOpt s.output ++ ":" ++
      encOpt s.command ++ ":" ++ encOptList s.args

def encPErr (k : PErr) : String :=
  match k with
  | .errorReadingFile f => "ErrorReadingFile:" ++ encStr f
  | .preProcessNoCommandFound => "PreProcessNoCommandFound"
  | .controlWithoutValidValue => "ControlWithoutValidValue"
  | .invalidControlLocation => "InvalidControlLocation"
  | .missingEndQuotes => "MissingEndQuotes"
  | .invalidQuotesLocation => "InvalidQuotesLocation"
  | .emptyLabel => "EmptyLabel"
  | .unknownPreProcessorCommand => "UnknownPreProcessorCommand"

def encParse (r : Except ParseFail (List Instruction)) : String :=
  match r with
  | .ok is => "OK " ++ toString is.length ++ " " ++ ";".intercalate (is.map encInstr)
  | .error e => "ERR " ++ encPErr e.kind ++ " " ++ encMeta e.mi

/-- sorted `hK=hV,…` (hash-map observables are sorted on both sides) -/
def encVars (m : List (Str × Str)) : String :=
  let items := m.map fun (k, v) => encStr k ++ "=" ++ encStr v
  let sorted := items.toArray.qsort (· < ·) |>.toList
  if sorted.isEmpty then "-" else ",".intercalate sorted

def decVars (t : String) : Option (List (Str × Str)) :=
  if t = "-" then some [] else
    (t.splitOn ",").mapM fun kv =>
      match kv.splitOn "=" with
      | [k, v] => do pure ((← decStr k), (← decStr v))
      | _ => none

def decResult (t : String) : Option CmdResult :=
  match t.splitOn "/" with
  | ["C", v] => (decOpt v).map .continue
  | ["GL", v, l] => do pure (.goTo (← decOpt v) (.label (← decStr l)))
  | ["GN", v, n] => do pure (.goTo (← decOpt v) (.line (← n.toNat?)))
  | ["E", m] => (decStr m).map .error
  | ["X", m] => (decStr m).map .crash
  | ["Q", v] => (decOpt v).map .exit
  | _ => none

def decQueue (t : String) : Option (List CmdResult) :=
  if t = "-" then some [] else (t.splitOn ",").mapM decResult

end Duck.Wire
