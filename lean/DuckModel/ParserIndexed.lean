/-
  INDEX-FAITHFUL twin of the parser model (duckscript/src/parser.rs).

  `DuckModel/Parser.lean` is written in suffix form ("what is left of the line"), so the
  hand-moved index of the Rust code is invisible there.  This file transcribes the same
  functions literally over the line `line : List Char` (`Vec<char>`; `line[i]?` is the
  bounds-checked read) and an explicit `index : Nat` (`usize`), with an outcome `panic`
  produced exactly where the Rust code would unwind:

    * `line_text[index]` with `index >= line_text.len()`          (`rd`),
    * `index -= 1` with `index == 0` (usize underflow; debug builds) (`decr`),
    * `chars[0]` on an empty vector in `parse_line`.

  `for _i in index..end_index { … }` evaluates the range ONCE with the initial `index`:
  the loop runs `end_index - index` iterations (none when `index >= end_index`), whatever
  the body does to `index`; `break` leaves early (`iFor`).

  One model-only convention: the unbounded `loop` of `parse_arguments_with_options` takes
  fuel `line.length + 1`; running out of fuel is reported as `panic` too (conservative), so
  the no-panic theorems (Props/C08Indexed.lean) also say that the fuel is never exhausted.
-/
import DuckModel.Chars
import DuckModel.Types
import DuckModel.Parser

namespace Duck

/-- outcome of an index-faithful function -/
inductive IOut (α : Type) where
  | ok (a : α)
  | err (e : PErr)
  | panic
deriving DecidableEq, Repr

/-- outcome of one loop iteration -/
inductive IStep (σ : Type) where
  | next (s : σ)
  | brk (s : σ)
  | err (e : PErr)
  | panic

/-- `for _i in a..b { body }` with `n = b - a` iterations; `s` = the mutable locals -/
def iFor {σ : Type} (body : σ → IStep σ) : Nat → σ → IOut σ
  | 0, s => .ok s
  | n + 1, s =>
    match body s with
    | .next s' => iFor body n s'
    | .brk s' => .ok s'
    | .err e => .err e
    | .panic => .panic

/-- `line_text[index]`: `none` = index out of bounds = panic -/
def rd (line : Str) (index : Nat) : Option Char := line[index]?

/-- `index - 1` on `usize`: `none` = underflow = panic -/
def decr (index : Nat) : Option Nat := if index = 0 then none else some (index - 1)

/-- lift of a suffix-model result -/
def liftE {α : Type} : Except PErr α → IOut α
  | .ok a => .ok a
  | .error e => .err e

/-! ### `parse_next_value` -/

/-- mutable locals of `parse_next_value` (parser.rs:273-279) -/
structure IPV where
  argument : Str := []
  index : Nat
  inArgument : Bool := false
  usingQuotes : Bool := false
  inControl : Bool := false
  foundEnd : Bool := false
  foundVariablePrefix : Bool := false
deriving DecidableEq, Repr

/-- body of the character loop of `parse_next_value` (parser.rs:281-361) -/
def ipvBody (fl : PVFlags) (line : Str) (endIndex : Nat) (s0 : IPV) : IStep IPV :=
  match rd line s0.index with
  | none => .panic
  | some character =>
    let s : IPV := { s0 with index := s0.index + 1 }
    if s.inArgument then
      if s.inControl then
        if s.foundVariablePrefix then
          if character = '{' then
            .next { s with argument := s.argument ++ ['\\', '$', '{'], inControl := false,
                           foundVariablePrefix := false }
          else .err .controlWithoutValidValue
        else if character = '\\' ∨ character = '"' then
          .next { s with argument := s.argument ++ [character], inControl := false }
        else if character = 'n' then
          .next { s with argument := s.argument ++ ['\n'], inControl := false }
        else if character = 'r' then
          .next { s with argument := s.argument ++ ['\r'], inControl := false }
        else if character = 't' then
          .next { s with argument := s.argument ++ ['\t'], inControl := false }
        else if character = '$' then .next { s with foundVariablePrefix := true }
        else .err .controlWithoutValidValue
      else if character = '\\' then
        if fl.controlAsChar then .next { s with argument := s.argument ++ [character] }
        else if fl.allowControl then .next { s with inControl := true, foundVariablePrefix := false }
        else .err .invalidControlLocation
      else if s.usingQuotes ∧ character = '"' then .brk { s with foundEnd := true }
      else if s.usingQuotes = false ∧
          (character = ' ' ∨ character = '#' ∨ (fl.stopOnEquals ∧ character = '=')) then
        if character = ' ' ∨ character = '=' then
          match decr s.index with                       -- index -= 1
          | none => .panic
          | some i => .brk { s with index := i, foundEnd := true }
        else if character = '#' then .brk { s with index := endIndex, foundEnd := true }
        else .brk { s with foundEnd := true }
      else .next { s with argument := s.argument ++ [character] }
    else if character = '#' then .brk { s with index := endIndex }
    else if character ≠ ' ' then
      if character = '"' then
        if fl.allowQuotes then .next { s with inArgument := true, usingQuotes := true }
        else .err .invalidQuotesLocation
      else if character = '\\' then
        if fl.controlAsChar then
          .next { s with inArgument := true, argument := s.argument ++ [character] }
        else if fl.allowControl then .next { s with inArgument := true, inControl := true }
        else .err .invalidControlLocation
      else .next { s with inArgument := true, argument := s.argument ++ [character] }
    else .next s

/-- code after the loop (parser.rs:364-378) -/
def ipvFinish (s : IPV) : IOut (Nat × Option Str) :=
  if s.inArgument ∧ s.foundEnd = false ∧ (s.inControl ∨ s.usingQuotes) then
    if s.inControl then .err .controlWithoutValidValue else .err .missingEndQuotes
  else if s.argument.isEmpty then
    if s.usingQuotes then .ok (s.index, some s.argument) else .ok (s.index, none)
  else .ok (s.index, some s.argument)

/-- `parse_next_value(line_text, start_index, flags)`: next index and the value -/
def iParseNextValue (fl : PVFlags) (line : Str) (startIndex : Nat) : IOut (Nat × Option Str) :=
  let endIndex := line.length
  if startIndex ≥ endIndex then .ok (startIndex, none)
  else
    match iFor (ipvBody fl line endIndex) (endIndex - startIndex) { index := startIndex } with
    | .panic => .panic
    | .err e => .err e
    | .ok s => ipvFinish s

/-! ### `parse_arguments_with_options` -/

/-- the `loop` of `parse_arguments_with_options`; first argument = fuel -/
def iArgsLoop (cac : Bool) (line : Str) : Nat → Nat → List Str → IOut (List Str)
  | 0, _, _ => .panic
  | fuel + 1, index, arguments =>
    match iParseNextValue (argFlags cac) line index with
    | .panic => .panic
    | .err e => .err e
    | .ok (_, none) => .ok arguments
    | .ok (nextIndex, some argument) => iArgsLoop cac line fuel nextIndex (arguments ++ [argument])

def iParseArgumentsWith (cac : Bool) (line : Str) (startIndex : Nat) : IOut (Option (List Str)) :=
  match iArgsLoop cac line (line.length + 1) startIndex [] with
  | .panic => .panic
  | .err e => .err e
  | .ok arguments => if arguments.isEmpty then .ok none else .ok (some arguments)

/-- `parse_arguments` -/
def iParseArguments (line : Str) (startIndex : Nat) : IOut (Option (List Str)) :=
  iParseArgumentsWith false line startIndex
/-- `reparse_arguments` -/
def iReparseArguments (line : Str) (startIndex : Nat) : IOut (Option (List Str)) :=
  iParseArgumentsWith true line startIndex

/-! ### `find_label` -/

structure IFL where
  index : Nat
  label : Option Str := none
deriving DecidableEq, Repr

/-- body of the loop of `find_label` (parser.rs:395-423) -/
def iflBody (line : Str) (s0 : IFL) : IStep IFL :=
  match rd line s0.index with
  | none => .panic
  | some character =>
    let s : IFL := { s0 with index := s0.index + 1 }
    if character = ':' then
      match iParseNextValue nameFlags line s.index with
      | .panic => .panic
      | .err e => .err e
      | .ok (nextIndex, none) => .brk { s with index := nextIndex }
      | .ok (nextIndex, some labelValue) =>
        if labelValue.isEmpty then .err .emptyLabel
        else .brk { index := nextIndex, label := some (':' :: labelValue) }
    else if character ≠ ' ' then
      match decr s.index with                           -- index -= 1
      | none => .panic
      | some i => .brk { s with index := i }
    else .next s

/-- `find_label`: next index and the label -/
def iFindLabel (line : Str) (startIndex : Nat) : IOut (Nat × Option Str) :=
  let endIndex := line.length
  if startIndex ≥ endIndex then .ok (startIndex, none)
  else
    match iFor (iflBody line) (endIndex - startIndex) { index := startIndex } with
    | .panic => .panic
    | .err e => .err e
    | .ok s => .ok (s.index, s.label)

/-! ### `find_output_and_command` -/

structure IOC where
  index : Nat
  output : Option Str := none
deriving DecidableEq, Repr

/-- body of the loop that looks for `=` (parser.rs:446-455); `value` = the first token -/
def iocBody (line : Str) (value : Str) (s0 : IOC) : IStep IOC :=
  match rd line s0.index with
  | none => .panic
  | some character =>
    let s : IOC := { s0 with index := s0.index + 1 }
    if character ≠ ' ' then
      if character = '=' then .brk { s with output := some value } else .brk s
    else .next s

/-- `find_output_and_command` on a fresh instruction: (next index, output, command) -/
def iFindOutputAndCommand (line : Str) (startIndex : Nat) : IOut (Nat × Option Str × Option Str) :=
  match iParseNextValue outputFlags line startIndex with
  | .panic => .panic
  | .err e => .err e
  | .ok (nextIndex, none) => .ok (nextIndex, none, none)
  | .ok (nextIndex, some value) =>
    let endIndex := line.length
    match iFor (iocBody line value) (endIndex - nextIndex) { index := nextIndex } with
    | .panic => .panic
    | .err e => .err e
    | .ok s =>
      if s.output.isSome then
        match iParseNextValue nameFlags line s.index with
        | .panic => .panic
        | .err e => .err e
        | .ok (_, none) => .ok (s.index, s.output, none)
        | .ok (nextIndex2, some cmd) => .ok (nextIndex2, s.output, some cmd)
      else .ok (nextIndex, none, some value)

/-! ### `parse_command_line` -/

def iParseCommandLine (line : Str) (startIndex : Nat) : IOut InstrType :=
  let endIndex := line.length
  if line.isEmpty ∨ startIndex ≥ endIndex then .ok .empty
  else
    match iFindLabel line startIndex with
    | .panic => .panic
    | .err e => .err e
    | .ok (index1, label) =>
      match iFindOutputAndCommand line index1 with
      | .panic => .panic
      | .err e => .err e
      | .ok (index2, output, command) =>
        match iParseArguments line index2 with
        | .panic => .panic
        | .err e => .err e
        | .ok args =>
          if label.isNone ∧ output.isNone ∧ command.isNone then .ok .empty
          else .ok (.script { label := label, output := output, command := command, args := args })

/-! ### `parse_pre_process_line` -/

structure IPP where
  command : Str := []
  index : Nat
deriving DecidableEq, Repr

/-- body of the command-name loop (parser.rs:105-114) -/
def ippBody (line : Str) (s0 : IPP) : IStep IPP :=
  match rd line s0.index with
  | none => .panic
  | some character =>
    let s : IPP := { s0 with index := s0.index + 1 }
    if character = ' ' then
      if !s.command.isEmpty then .brk s else .next s
    else .next { s with command := s.command ++ [character] }

def iParsePreProcessLine (line : Str) (startIndex : Nat) : IOut InstrType :=
  if line.isEmpty then .err .preProcessNoCommandFound
  else
    let endIndex := line.length
    match iFor (ippBody line) (endIndex - startIndex) { index := startIndex } with
    | .panic => .panic
    | .err e => .err e
    | .ok s =>
      if s.command.isEmpty then .err .preProcessNoCommandFound
      else
        match iParseArguments line s.index with
        | .panic => .panic
        | .err e => .err e
        | .ok args => .ok (.preProcess (some s.command) args)

/-! ### `parse_line` -/

/-- `parse_line` without the meta info; `chars[0]` is a checked read too -/
def iParseLine (lineText : Str) : IOut InstrType :=
  let chars := trim lineText
  if chars.isEmpty ∨ chars.head? = some '#' then .ok .empty
  else
    match rd chars 0 with
    | none => .panic
    | some c0 =>
      if c0 = '!' then iParsePreProcessLine chars 1 else iParseCommandLine chars 0

end Duck
