/-
  `array_join` (std/collections/array_join/script.ds) run from source: the parse, the three
  command conditions (`not is_array`, `not array_is_empty` - a SCRIPT command inside `not` inside
  `if` -, `not is_empty`), the loop that appends `${item}${separator}`.
-/
import DuckModel.Lemmas.ScriptStepLemmas
import DuckModel.Lemmas.ScriptStringLemmas
import DuckModel.Lemmas.ScriptLoopMapContainsValueFinal

namespace Duck.ScriptRun
open Duck Duck.Alias Duck.Coll Duck.Spec Duck.Generated Duck.Reser

def jScope : Str := "scope::array_join".toList
def aieScope : Str := "scope::array_is_empty".toList
def jArg1 : Str := "scope::array_join::argument::1".toList
def jArg2 : Str := "scope::array_join::argument::2".toList
def jString : Str := "scope::array_join::string".toList
def jItem : Str := "scope::array_join::item".toList
def jSepLen : Str := "scope::array_join::separatorlen".toList
def jStrLen : Str := "scope::array_join::stringlen".toList
def jOffset : Str := "scope::array_join::offset".toList

/-- the parse of array_join/script.ds -/
def ajIs : List Instruction :=
  [emptyI 1,
   mkI 2 none "if" (some [[.lit "not".toList], [.lit "is_array".toList], [.var jArg1]]),
   mkI 3 none "trigger_error" (some [[.lit sMsg]]),
   mkI 4 none "end" none,
   emptyI 5,
   mkI 6 none "if" (some [[.lit "not".toList], [.lit "array_is_empty".toList], [.var jArg1]]),
   mkI 7 none "for" (some [[.lit jItem], [.lit "in".toList], [.var jArg1]]),
   mkI 8 (some jString) "set" (some [[.var jString, .var jItem, .var jArg2]]),
   mkI 9 none "end" none,
   emptyI 10,
   mkI 11 none "if" (some [[.lit "not".toList], [.lit "is_empty".toList], [.var jArg2]]),
   mkI 12 (some jSepLen) "strlen" (some [[.var jArg2]]),
   mkI 13 (some jStrLen) "strlen" (some [[.var jString]]),
   mkI 14 (some jOffset) "calc" (some [[.var jStrLen], [.lit "-".toList], [.var jSepLen]]),
   mkI 15 (some jString) "substring" (some [[.var jString], [.lit "0".toList], [.var jOffset]]),
   mkI 16 none "end" none,
   mkI 17 none "end" none,
   emptyI 18,
   mkI 19 none "set" (some [[.var jString]])]

theorem aj_parses : parseText cmd_collections_array_join.script = .ok ajIs := parsesTo_eq (by decide +kernel)
theorem aj_findIf1 : findCommands ifTables ajIs (1 + 1) = .ok ⟨[], 3⟩ := findsTo_eq (by decide +kernel)
theorem aj_findIf5 : findCommands ifTables ajIs (5 + 1) = .ok ⟨[], 16⟩ := findsTo_eq (by decide +kernel)
theorem aj_findFor : findCommands forTables ajIs (6 + 1) = .ok ⟨[], 8⟩ := findsTo_eq (by decide +kernel)
theorem aj_findIf10 : findCommands ifTables ajIs (10 + 1) = .ok ⟨[], 15⟩ := findsTo_eq (by decide +kernel)
theorem aj_findScript : findScript "array_join".toList = some cmd_collections_array_join := by rfl
theorem aie_findScript : findScript "array_is_empty".toList = some cmd_collections_array_is_empty := by rfl
theorem fs_strlen : findScript "strlen".toList = none := by decide +kernel
theorem rn_strlen : resolveNative "strlen".toList = some .length := by decide +kernel
theorem fs_substring : findScript "substring".toList = none := by decide +kernel
theorem rn_substring : resolveNative "substring".toList = some .substring := by decide +kernel
theorem fs_is_empty : findScript "is_empty".toList = none := by decide +kernel
theorem rn_is_empty : resolveNative "is_empty".toList = some .isEmpty := by decide +kernel

def jKey (n : Nat) : Str := jScope ++ "::".toList ++ natToStr n

theorem flowKey_jKey (s : ScriptSt) (h : s.ctx = jScope) (n : Nat) : flowKey s n = jKey n := by
  unfold flowKey jKey; rw [h]

theorem get_endTable_jKey (s : ScriptSt) (hctx : s.ctx = jScope) (n : Nat) (v : Str)
    (h : s.endTable.get (jKey n) = some v) : s.endTable.get (flowKey s n) = some v := by
  rw [flowKey_jKey s hctx]; exact h

theorem jKey_under (n : Nat) : underPrefix jScope (jKey n) = true := by
  unfold jKey
  rw [List.append_assoc, underPrefix_append]
  simp [sep, List.isPrefixOf]

theorem jKey_inj {a b : Nat} (h : jKey a = jKey b) : a = b := by
  unfold jKey at h
  exact natToStr_inj (List.append_cancel_left h)

theorem get_put_jKey_ne {α : Type} (m : KV α) (a b : Nat) (v : α) (h : b ≠ a) :
    (m.put (jKey a) v).get (jKey b) = m.get (jKey b) := by
  rw [KV.get_put, if_neg (fun e => h (jKey_inj e))]

/-! ### `array_is_empty`, nested -/

def aieLen : Value → Option Nat := fun v => match v with | .list l => some l.length | _ => none

theorem aie_run (d G : Nat) (X : Str) (vars : Vars) (s : ScriptSt)
    (hne : X ≠ Coll.handleName s.coll.next) :
    runScriptCmdF d (G + 2 + 2) "array_is_empty".toList [X] vars s =
      (match (tget s.coll.tbl X).bind aieLen with
        | some n => .continue (some (boolStr (n = 0)))
        | none => .error (collErrMsg .arrayLength (pubSt aieScope [X] s).coll.tbl [X]),
       clear aieScope vars, mieSt s X) := by
  have h := sizeScript_runF "array_is_empty".toList "array_length".toList cmd_collections_array_is_empty .arrayLength aieLen
    (by rfl) (parsesTo_eq (by decide +kernel)) rfl (by decide) (by decide)
    (by decide +kernel) (by decide +kernel)
    (by intro s key rest
        simp only [Coll.exec, cmdArrayLength, aieLen]
        cases hv : tget s.tbl key with
        | none => rfl
        | some v => cases v <;> rfl)
    d G [X] vars s
  show runScriptCmdF d (G + 4) _ _ _ _ = _
  rw [h]
  simp only
  have hb : (tget (pubSt cmd_collections_array_is_empty.scopeName [X] s).coll.tbl X).bind aieLen =
      (tget s.coll.tbl X).bind aieLen := by
    simp only [pubSt, tget_tinsert]
    rw [if_neg hne]
  rw [hb]
  rfl

/-! ### `not <script command> …` as the condition of an `if` -/

theorem evalCond_not_script (F d : Nat) (is : List Instruction) (cmd : Str) (vals : List Str) (sc : Generated.ScriptCmd)
    (hc : cmdOK cmd = true) (hsc : Safe cmd = true) (hs : ∀ v ∈ vals, Safe v = true)
    (hp1 : positionOK (cmd :: vals) = true) (hp : positionOK vals = true)
    (hfs : findScript cmd = some sc)
    (vars : Vars) (s : ScriptSt) (v : Option Str) (vars' : Vars) (s' : ScriptSt)
    (hrun : runScriptCmdF d (F + 2) cmd vals vars s = (.continue v, vars', s')) :
    evalCond (nestedOf (bodySem (F + 2) (d + 2)) (F + 2)) is ("not".toList :: cmd :: vals) vars s =
      (.ok (!isTrue v), vars', s') := by
  have hnot : isCommand "not".toList = true := by decide +kernel
  have hs' : ∀ x ∈ cmd :: vals, Safe x = true := by
    intro x hx
    rcases List.mem_cons.mp hx with rfl | hx
    · exact hsc
    · exact hs x hx
  simp only [evalCond, hnot, if_true, evalParse_ok "not".toList (cmd :: vals) (by decide) hs' hp1]
  have hnested : nestedOf (bodySem (F + 2) (d + 2)) (F + 2) (is ++ [condI "not".toList (cmd :: vals)])
      ((is ++ [condI "not".toList (cmd :: vals)]).length - 1) vars s =
      (none, some (boolStr (!isTrue v)), vars', s') := by
    unfold nestedOf
    have hget : (is ++ [condI "not".toList (cmd :: vals)])[(is ++ [condI "not".toList (cmd :: vals)]).length - 1]? =
        some (condI "not".toList (cmd :: vals)) := getElem_last _ _
    have hflow : runFlowF (nestedOf (bodySem (F + 2) (d + 1)) (F + 2)) (is ++ [condI "not".toList (cmd :: vals)]) 2 .notC
        (cmd :: vals) ((is ++ [condI "not".toList (cmd :: vals)]).length - 1) vars s =
        (.continue (some (boolStr (!isTrue v))), vars', s') := by
      rw [runNot_script F d _ cmd vals sc hc hs hp hfs _ vars s, hrun]
    rw [eval_flow_continue (F + 2) (d + 1) _ (F + 1) _ 0 none vars s _ _ "not".toList .notC hget rfl fs_not rn_not rf_not
      (cmd :: vals) (bind_ok vars (cmd :: vals) hs') _ vars' s' hflow]
    rw [eval_end _ _ F _ _ _ _ _ (by simp)]
    rfl
  rw [hnested]
  simp [isTrue_boolStr]

/-- `if not array_is_empty X` on a live array (no else branches) -/
theorem runIf_not_aie (G d : Nat) (is : List Instruction) (line stop : Nat) (s : ScriptSt) (vars : Vars) (X : Str)
    (l : List Item) (hX : ArgOK X = true)
    (hfind : findCommands ifTables is (line + 1) = .ok ⟨[], stop⟩)
    (hcI : IfCacheOK s.ifMeta (flowKey s line) stop)
    (hT : tget s.coll.tbl X = some (.list l)) (hne : X ≠ Coll.handleName s.coll.next) :
    runFlowF (nestedOf (bodySem (G + 2 + 2) (d + 2)) (G + 2 + 2)) is 2 .ifC ["not".toList, "array_is_empty".toList, X] line vars s =
      if l = [] then (.goTo none (.line (stop + 1)), clear aieScope vars, mieSt (ifSt s line stop) X)
      else (.continue none, clear aieScope vars,
        { mieSt (ifSt s line stop) X with ifStack := ifEntry line stop s.ctx :: s.ifStack }) := by
  obtain ⟨h1, h2, h3⟩ := argOK_parts hX
  have hrun := aie_run d G X vars (ifSt s line stop) hne
  have hb : (tget (ifSt s line stop).coll.tbl X).bind aieLen = some l.length := by
    show (tget s.coll.tbl X).bind aieLen = _
    rw [hT]; rfl
  rw [hb] at hrun
  have hcond := evalCond_not_script (G + 2) d is "array_is_empty".toList [X] cmd_collections_array_is_empty
    (by decide) (by decide) (by intro v hv; simp at hv; subst hv; exact h1)
    (by simp [positionOK, h3]; decide) (by simp [positionOK, h2, h3]) aie_findScript vars (ifSt s line stop) _ _ _ hrun
  rw [isTrue_boolStr] at hcond
  rw [runIf_simple _ is 1 "not".toList ["array_is_empty".toList, X] line stop vars s hfind hcI _ _ _ hcond]
  cases l with
  | nil => simp
  | cons x r =>
    have e1 : (!decide ((x :: r).length = 0)) = true := by simp
    have e2 : ¬ (x :: r) = [] := by simp
    simp only [e1, e2, if_true, if_false]
    rfl

/-- `if not is_empty X` (no else branches) -/
theorem runIf_not_is_empty (F d : Nat) (is : List Instruction) (line stop : Nat) (s : ScriptSt) (vars : Vars) (X : Str)
    (hX : ArgOK X = true)
    (hfind : findCommands ifTables is (line + 1) = .ok ⟨[], stop⟩)
    (hcI : IfCacheOK s.ifMeta (flowKey s line) stop) :
    runFlowF (nestedOf (bodySem (F + 2) (d + 1)) (F + 2)) is 2 .ifC ["not".toList, "is_empty".toList, X] line vars s =
      if X = [] then (.goTo none (.line (stop + 1)), vars, ifSt s line stop)
      else (.continue none, vars, { ifSt s line stop with ifStack := ifEntry line stop s.ctx :: s.ifStack }) := by
  obtain ⟨h1, h2, h3⟩ := argOK_parts hX
  have hcond := evalCond_not_native F d is "is_empty".toList [X] .isEmpty (by decide) (by decide)
    (by intro v hv; simp at hv; subst hv; exact h1)
    (by simp [positionOK, h3]; decide) (by simp [positionOK, h2, h3])
    fs_is_empty rn_is_empty vars (ifSt s line stop) (some (boolStr (decide (X = [])))) vars (ifSt s line stop)
    (by simp only [runNative, runIsEmpty_one])
  rw [isTrue_boolStr] at hcond
  rw [runIf_simple _ is 1 "not".toList ["is_empty".toList, X] line stop vars s hfind hcI _ vars (ifSt s line stop) hcond]
  by_cases hx : X = []
  · simp [hx]
  · simp only [hx, decide_false, Bool.not_false, if_true, if_false]
    rfl

end Duck.ScriptRun
