/-
  `array_concat` (std/collections/array_concat/script.ds) run from source, SUCCESS path, for every
  argument list whose elements name live arrays: the validation loop (`if not is_array` false for
  every argument), `array`, the NESTED loops (`for arg in ${arguments}` / `for item in ${arg}` /
  `array_push`), the tail.  Inductions over the arguments that are left (validation loop, outer
  loop) and over the cells that are left (inner loop).
-/
import DuckModel.Lemmas.ScriptStepLemmas

namespace Duck.ScriptRun
open Duck Duck.Alias Duck.Coll Duck.Spec Duck.Generated Duck.Reser

/-! ### keys of the flow-control tables, the invariant of caches and `end` table -/

def aKey (n : Nat) : Str := aScope ++ "::".toList ++ natToStr n

theorem flowKey_aKey (s : ScriptSt) (h : s.ctx = aScope) (n : Nat) : flowKey s n = aKey n := by
  unfold flowKey aKey; rw [h]

theorem get_endTable_aKey (s : ScriptSt) (hctx : s.ctx = aScope) (n : Nat) (v : Str)
    (h : s.endTable.get (aKey n) = some v) : s.endTable.get (flowKey s n) = some v := by
  rw [flowKey_aKey s hctx]; exact h

theorem aKey_under (n : Nat) : underPrefix aScope (aKey n) = true := by
  unfold aKey
  rw [List.append_assoc, underPrefix_append]
  simp [sep, List.isPrefixOf]

theorem aKey_inj {a b : Nat} (h : aKey a = aKey b) : a = b := by
  unfold aKey at h
  exact natToStr_inj (List.append_cancel_left h)

theorem get_put_aKey_ne {α : Type} (m : KV α) (a b : Nat) (v : α) (h : b ≠ a) :
    (m.put (aKey a) v).get (aKey b) = m.get (aKey b) := by
  rw [KV.get_put, if_neg (fun e => h (aKey_inj e))]

structure AInv (st0 : ScriptSt) (IM : KV (Nat × List Nat)) (FM : KV Nat) (ET : KV Str) : Prop where
  ifMeta : ∀ k, underPrefix aScope k = false → IM.get k = st0.ifMeta.get k
  forMeta : ∀ k, underPrefix aScope k = false → FM.get k = st0.forMeta.get k
  endTable : ∀ k, underPrefix aScope k = false → ET.get k = st0.endTable.get k
  c1 : CacheOK FM (aKey 1) 5
  c2 : IfCacheOK IM (aKey 2) 4
  c9 : CacheOK FM (aKey 9) 13
  c10 : CacheOK FM (aKey 10) 12

theorem AInv.afterIf {st0 : ScriptSt} {IM : KV (Nat × List Nat)} {FM : KV Nat} {ET : KV Str}
    (h : AInv st0 IM FM ET) : AInv st0 (ifMetaAfter IM (aKey 2) 4) FM (ET.put (aKey 4) fullNameEndIf) := by
  refine ⟨?_, h.forMeta, ?_, h.c1, ifCacheOK_ifMetaAfter _ _ _ h.c2, h.c9, h.c10⟩
  · intro k hk
    rw [get_ifMetaAfter_frame aScope IM (aKey 2) 4 (aKey_under 2) k hk]; exact h.ifMeta k hk
  · intro k hk
    rw [get_put_frame aScope ET (aKey 4) _ (aKey_under 4) k hk]; exact h.endTable k hk

theorem cacheOK_forMetaAfter_ne (m : KV Nat) (key : Str) (stop : Nat) (k : Str) (n : Nat) (hne : k ≠ key)
    (h : CacheOK m k n) : CacheOK (forMetaAfter m key stop) k n := by
  unfold CacheOK
  rw [get_forMetaAfter_ne m key stop k hne]; exact h

theorem AInv.afterFor {st0 : ScriptSt} {IM : KV (Nat × List Nat)} {FM : KV Nat} {ET : KV Str}
    (h : AInv st0 IM FM ET) (line stop : Nat)
    (hl : line = 1 ∧ stop = 5 ∨ line = 9 ∧ stop = 13 ∨ line = 10 ∧ stop = 12) :
    AInv st0 IM (forMetaAfter FM (aKey line) stop) (ET.put (aKey stop) fullNameEndForIn) := by
  refine ⟨h.ifMeta, ?_, ?_, ?_, h.c2, ?_, ?_⟩
  · intro k hk
    rw [get_forMetaAfter_frame aScope FM (aKey line) stop (aKey_under line) k hk]; exact h.forMeta k hk
  · intro k hk
    rw [get_put_frame aScope ET (aKey stop) _ (aKey_under stop) k hk]; exact h.endTable k hk
  · rcases hl with ⟨rfl, rfl⟩ | ⟨rfl, rfl⟩ | ⟨rfl, rfl⟩
    · exact cacheOK_forMetaAfter _ _ _ h.c1
    · exact cacheOK_forMetaAfter_ne _ _ _ _ _ (fun e => by have := aKey_inj e; omega) h.c1
    · exact cacheOK_forMetaAfter_ne _ _ _ _ _ (fun e => by have := aKey_inj e; omega) h.c1
  · rcases hl with ⟨rfl, rfl⟩ | ⟨rfl, rfl⟩ | ⟨rfl, rfl⟩
    · exact cacheOK_forMetaAfter_ne _ _ _ _ _ (fun e => by have := aKey_inj e; omega) h.c9
    · exact cacheOK_forMetaAfter _ _ _ h.c9
    · exact cacheOK_forMetaAfter_ne _ _ _ _ _ (fun e => by have := aKey_inj e; omega) h.c9
  · rcases hl with ⟨rfl, rfl⟩ | ⟨rfl, rfl⟩ | ⟨rfl, rfl⟩
    · exact cacheOK_forMetaAfter_ne _ _ _ _ _ (fun e => by have := aKey_inj e; omega) h.c10
    · exact cacheOK_forMetaAfter_ne _ _ _ _ _ (fun e => by have := aKey_inj e; omega) h.c10
    · exact cacheOK_forMetaAfter _ _ _ h.c10

theorem forSt_aKey (s : ScriptSt) (hctx : s.ctx = aScope) (line stop : Nat) :
    forSt s line stop = { s with forMeta := forMetaAfter s.forMeta (aKey line) stop,
                                 endTable := s.endTable.put (aKey stop) fullNameEndForIn } := by
  unfold forSt
  rw [flowKey_aKey s hctx, flowKey_aKey s hctx]

theorem ifSt_aKey (s : ScriptSt) (hctx : s.ctx = aScope) (line stop : Nat) :
    ifSt s line stop = { s with ifMeta := ifMetaAfter s.ifMeta (aKey line) stop,
                                endTable := s.endTable.put (aKey stop) fullNameEndIf } := by
  unfold ifSt
  rw [flowKey_aKey s hctx, flowKey_aKey s hctx]

theorem ac_findFor9 : findCommands forTables acIs (9 + 1) = .ok ⟨[], 13⟩ := findsTo_eq (by decide +kernel)
theorem ac_findFor10 : findCommands forTables acIs (10 + 1) = .ok ⟨[], 12⟩ := findsTo_eq (by decide +kernel)
theorem fs_array_push : findScript "array_push".toList = none := by decide +kernel
theorem rn_array_push : resolveNative "array_push".toList = some (.coll .arrayPush) := by decide +kernel
theorem fs_array : findScript "array".toList = none := by decide +kernel
theorem rn_array : resolveNative "array".toList = some (.coll .array) := by decide +kernel

theorem aArg_under : underPrefix aScope aArg = true := by decide
theorem aItem_under : underPrefix aScope aItem = true := by decide
theorem aArray_under : underPrefix aScope aArray = true := by decide

/-! ### the validation loop -/

theorem ac_bind_for_args (vars : Vars) (hA : Str) (h : vars.get aArgs = some hA) :
    bind vars ((some [[Seg.lit aArg], [Seg.lit "in".toList], [Seg.var aArgs]]).map fun a => a.map renderTemplate) =
      [aArg, "in".toList, hA] := by
  rw [bind_mk _ _ (by decide)]
  simp [tmplValue, Seg.value, h]

/-- the state after `if not is_array …` looked its block up -/
def acAfterIf (s : ScriptSt) : ScriptSt :=
  { s with ifMeta := ifMetaAfter s.ifMeta (aKey 2) 4, endTable := s.endTable.put (aKey 4) fullNameEndIf }

/-- lines 2 and 5 of one validation iteration whose argument names an array -/
theorem ac_val_iter (F d : Nat) (s : ScriptSt) (vars : Vars) (X : Str) (l : List Item) (hX : ArgOK X = true)
    (hctx : s.ctx = aScope) (hL : tget s.coll.tbl X = some (.list l)) (hvA : vars.get aArg = some X)
    (hc2 : IfCacheOK s.ifMeta (aKey 2) 4) (he5 : s.endTable.get (aKey 5) = some fullNameEndForIn)
    (i : Nat) (fs : List ForCall) (hfs : s.forStack = ⟨i, 1, 5, aScope⟩ :: fs) (fuel poll : Nat) (fo : Option Str) :
    evalInstructions (bodySem (F + 2) (d + 2) acIs) (fun _ => false) acIs (fuel + 2) 2 poll fo vars s =
      evalInstructions (bodySem (F + 2) (d + 2) acIs) (fun _ => false) acIs fuel 1 (poll + 1 + 1) none vars (acAfterIf s) := by
  have hb2 : bind vars
      ((some [[Seg.lit "not".toList], [Seg.lit "is_array".toList], [Seg.var aArg]]).map fun a => a.map renderTemplate) =
      ["not".toList, "is_array".toList, X] := by
    rw [bind_mk _ _ (by decide)]
    simp [tmplValue, Seg.value, hvA]
  have hif := runIf_not_is_array F d acIs 2 4 s vars X hX ac_findIf (by rw [flowKey_aKey s hctx]; exact hc2)
  rw [hL] at hif
  simp only [Bool.not_true, Bool.false_eq_true, if_false] at hif
  rw [ifSt_aKey s hctx] at hif
  rw [show fuel + 2 = fuel + 1 + 1 by omega,
    eval_flow_goto (F + 2) (d + 1) acIs (fuel + 1) 2 poll fo vars s _ _ "if".toList .ifC
      (show acIs[2]? = some (mkI 3 none "if" (some [[.lit "not".toList], [.lit "is_array".toList], [.var aArg]])) from rfl)
      rfl fs_if rn_if rf_if _ hb2 none _ _ _ hif]
  exact eval_end_for (F + 2) (d + 1) acIs 5 _ _ (show acIs[5]? = some (mkI 6 none "end" none) from rfl) rfl rfl vars
    (acAfterIf s) ⟨i, 1, 5, aScope⟩ fs
    (by rw [flowKey_aKey (acAfterIf s) hctx]
        show (s.endTable.put (aKey 4) fullNameEndIf).get (aKey 5) = _
        rw [get_put_aKey_ne _ 4 5 _ (by omega)]; exact he5)
    hfs rfl hctx.symm fuel (poll + 1) none

/-- what the validation loop leaves -/
structure AValPost (st0 s s' : ScriptSt) (fs : List ForCall) (vars vars' : Vars) : Prop where
  ctx : s'.ctx = aScope
  inv : AInv st0 s'.ifMeta s'.forMeta s'.endTable
  forStack : s'.forStack = fs
  ifStack : s'.ifStack = s.ifStack
  coll : s'.coll = s.coll
  args : vars'.get aArgs = vars.get aArgs
  clr : clear aScope vars' = clear aScope vars

/-- the validation loop over arguments that all name arrays: 3 instructions per argument left -/
theorem ac_val_loop (d : Nat) (st0 : ScriptSt) (hA : Str) (L : List Str) (fs : List ForCall) :
    ∀ (rem pre : List Str) (X : Str) (s : ScriptSt) (vars : Vars) (poll : Nat) (fo : Option Str),
      L = pre ++ X :: rem → s.ctx = aScope → AInv st0 s.ifMeta s.forMeta s.endTable →
      s.endTable.get (aKey 5) = some fullNameEndForIn → s.forStack = ⟨pre.length + 1, 1, 5, aScope⟩ :: fs →
      tget s.coll.tbl hA = some (.list (L.map .str)) →
      (∀ x ∈ X :: rem, ArgOK x = true ∧ ∃ l, tget s.coll.tbl x = some (.list l)) →
      vars.get aArgs = some hA → vars.get aArg = some X →
      ∃ vars' s' poll' fo',
        (∀ F fuel, evalInstructions (bodySem (F + 2) (d + 2) acIs) (fun _ => false) acIs (fuel + 3 * rem.length + 3) 2 poll fo vars s =
          evalInstructions (bodySem (F + 2) (d + 2) acIs) (fun _ => false) acIs fuel 6 poll' fo' vars' s') ∧
        AValPost st0 s s' fs vars vars' := by
  intro rem
  induction rem with
  | nil =>
    intro pre X s vars poll fo hLe hctx hinv he5 hfs hTA hall hvAs hvA
    obtain ⟨hX, l, hl⟩ := hall X (by simp)
    have hnext : nextIteration (acAfterIf s) hA (pre.length + 1) = none := by
      simp [nextIteration, acAfterIf, hTA, hLe]
    refine ⟨vars, { acAfterIf s with forStack := fs }, poll + 1 + 1 + 1, none, ?_, ?_⟩
    · intro F fuel
      rw [show fuel + 3 * ([] : List Str).length + 3 = fuel + 1 + 2 by simp,
        ac_val_iter F d s vars X l hX hctx hl hvA hinv.c2 he5 _ fs hfs (fuel + 1) poll fo]
      exact eval_for_done (F + 2) (d + 1) acIs 1 _ _
        (show acIs[1]? = some (mkI 2 none "for" (some [[.lit aArg], [.lit "in".toList], [.var aArgs]])) from rfl) rfl
        vars (acAfterIf s) aArg hA (ac_bind_for_args vars hA hvAs) ⟨pre.length + 1, 1, 5, aScope⟩ fs hfs rfl hctx.symm
        hnext fuel _ none
    · exact ⟨hctx, hinv.afterIf, rfl, rfl, rfl, rfl, rfl⟩
  | cons Y rem ih =>
    intro pre X s vars poll fo hLe hctx hinv he5 hfs hTA hall hvAs hvA
    obtain ⟨hX, l, hl⟩ := hall X (by simp)
    have hnext : nextIteration (acAfterIf s) hA (pre.length + 1) = some Y := by
      simp [nextIteration, acAfterIf, hTA, hLe, Item.render]
    obtain ⟨vars', s', poll', fo', hrun, hpost⟩ := ih (pre ++ [X]) Y
      { acAfterIf s with forStack := ⟨pre.length + 1 + 1, 1, 5, aScope⟩ :: fs } (vars.set aArg Y)
      (poll + 1 + 1 + 1) none (by rw [hLe]; simp) hctx hinv.afterIf
      (by show (s.endTable.put (aKey 4) fullNameEndIf).get (aKey 5) = _
          rw [get_put_aKey_ne _ 4 5 _ (by omega)]; exact he5)
      (by simp) hTA (fun x hx => hall x (List.mem_cons_of_mem _ hx))
      (by rw [get_set, if_neg (by decide)]; exact hvAs) (by rw [get_set, if_pos rfl])
    refine ⟨vars', s', poll', fo', ?_, ?_⟩
    · intro F fuel
      rw [show fuel + 3 * (Y :: rem).length + 3 = fuel + 3 * rem.length + 3 + 1 + 2 by simp; omega,
        ac_val_iter F d s vars X l hX hctx hl hvA hinv.c2 he5 _ fs hfs _ poll fo]
      rw [eval_for_next (F + 2) (d + 1) acIs 1 _ _
        (show acIs[1]? = some (mkI 2 none "for" (some [[.lit aArg], [.lit "in".toList], [.var aArgs]])) from rfl) rfl rfl
        vars (acAfterIf s) aArg hA Y (ac_bind_for_args vars hA hvAs) ⟨pre.length + 1, 1, 5, aScope⟩ fs hfs rfl hctx.symm
        hnext (fuel + 3 * rem.length + 3) _ none]
      exact hrun F fuel
    · exact ⟨hpost.ctx, hpost.inv, hpost.forStack, hpost.ifStack, hpost.coll,
        by rw [hpost.args, get_set, if_neg (by decide)],
        by rw [hpost.clr, clear_set_under _ _ _ _ aArg_under]⟩

end Duck.ScriptRun
