/-
  C17 — lemmas about the JSON text layer (`Sdk/JsonText.lean`): the reader undoes the compact
  writer (strings: every character; documents: no number leaf, strictly increasing keys, at most
  127 nested containers), white space around the document is skipped, the normalisation of
  `Sdk/Encode.lean` maps into that class.
-/
import DuckModel.Sdk.JsonText
import DuckModel.Lemmas.EncodeLemmas

namespace Duck.Enc
-- equality of documents is decidable (used to evaluate the examples in the kernel)
deriving instance DecidableEq for Json, JList, JFields
end Duck.Enc

namespace Duck.JsonText
open Duck Duck.Enc

/-! ## strings -/

theorem hex4_ctrl : ∀ n : Fin 32,
    hex4 '0' '0' (lowerHexDigit (n.val / 16)) (lowerHexDigit (n.val % 16)) = some n.val := by decide

theorem parseChars_quote (rest : List Char) : parseChars ('"' :: rest) = some ([], rest) := by
  rw [parseChars.eq_def]; simp

/-- a two-character escape -/
theorem parseChars_short (e ch : Char) (T : List Char) (hu : e ≠ 'u') (h : unescape e = some ch) :
    parseChars ('\\' :: e :: T) = consRes ch (parseChars T) := by
  rw [parseChars.eq_def]
  simp [hu, h]

/-- a `\u00XX` escape of a control character -/
theorem parseChars_ctrl (n : Nat) (hn : n < 32) (T : List Char) :
    parseChars ('\\' :: 'u' :: '0' :: '0' :: lowerHexDigit (n / 16) :: lowerHexDigit (n % 16) :: T) =
      consRes (Char.ofNat n) (parseChars T) := by
  rw [parseChars.eq_def]
  have h4 := hex4_ctrl ⟨n, hn⟩
  simp only at h4
  simp only [h4]
  have h1 : ¬ (0xDC00 ≤ n ∧ n ≤ 0xDFFF) := by omega
  have h2 : ¬ (0xD800 ≤ n ∧ n ≤ 0xDBFF) := by omega
  simp [h1, h2]

/-- a character written raw -/
theorem parseChars_raw (c : Char) (T : List Char) (h1 : c ≠ '"') (h2 : c ≠ '\\') (h3 : ¬ c.toNat < 32) :
    parseChars (c :: T) = consRes c (parseChars T) := by
  rw [parseChars.eq_def]
  simp [h1, h2, h3]

theorem parseChars_esc (c : Char) (T : List Char) :
    parseChars (escChar c ++ T) = consRes c (parseChars T) := by
  unfold escChar
  split
  · rename_i h; subst h
    exact parseChars_short '"' '"' T (by decide) (by decide)
  split
  · rename_i _ h; subst h
    exact parseChars_short '\\' '\\' T (by decide) (by decide)
  have hc : Char.ofNat c.toNat = c := Char.ofNat_toNat c
  split
  · rename_i h; rw [h] at hc; rw [← hc]
    exact parseChars_short 'b' _ T (by decide) (by decide)
  split
  · rename_i h; rw [h] at hc; rw [← hc]
    exact parseChars_short 't' _ T (by decide) (by decide)
  split
  · rename_i h; rw [h] at hc; rw [← hc]
    exact parseChars_short 'n' _ T (by decide) (by decide)
  split
  · rename_i h; rw [h] at hc; rw [← hc]
    exact parseChars_short 'f' _ T (by decide) (by decide)
  split
  · rename_i h; rw [h] at hc; rw [← hc]
    exact parseChars_short 'r' _ T (by decide) (by decide)
  split
  · rename_i h
    have := parseChars_ctrl c.toNat h T
    rw [hc] at this
    exact this
  · rename_i h1 h2 _ _ _ _ _ h3
    exact parseChars_raw c T h1 h2 h3

theorem parseChars_print : ∀ (s : Str) (rest : List Char),
    parseChars (printChars s ++ '"' :: rest) = some (s, rest)
  | [], rest => by simp [printChars, parseChars_quote]
  | c :: r, rest => by
    simp only [printChars, List.append_assoc]
    rw [parseChars_esc, parseChars_print r rest]
    rfl

theorem printString_append (s : Str) (rest : List Char) :
    printString s ++ rest = '"' :: (printChars s ++ '"' :: rest) := by
  simp [printString]

theorem parseString_print (s : Str) (rest : List Char) :
    parseString (printString s ++ rest) = some (s, rest) := by
  rw [printString_append]
  simp [parseString, parseChars_print]

/-! ## white space -/

theorem skipWs_cons {c : Char} (h : isWs c = false) (r : List Char) : skipWs (c :: r) = c :: r := by
  simp [skipWs, h]

theorem skipWs_append : ∀ (w s : List Char), (∀ c ∈ w, isWs c = true) → skipWs (w ++ s) = skipWs s
  | [], _, _ => rfl
  | c :: w, s, h => by
    have hc : isWs c = true := h c (by simp)
    simp only [List.cons_append, skipWs, hc, if_true]
    exact skipWs_append w s (fun x hx => h x (by simp [hx]))

theorem skipWs_all : ∀ (w : List Char), (∀ c ∈ w, isWs c = true) → skipWs w = [] := by
  intro w h
  have := skipWs_append w [] h
  simpa [skipWs] using this

theorem skipWs_printString (s : Str) (rest : List Char) :
    skipWs (printString s ++ rest) = printString s ++ rest := by
  rw [printString_append]; exact skipWs_cons (by decide) _

/-! ## the order of keys, `BTreeMap::insert` -/

theorem ltStr_irrefl : ∀ a : Str, ltStr a a = false
  | [] => rfl
  | c :: r => by simp [ltStr, ltStr_irrefl r]

theorem ltStr_asymm : ∀ a b : Str, ltStr a b = true → ltStr b a = false
  | [], [], h => by simp [ltStr] at h
  | [], _ :: _, _ => rfl
  | _ :: _, [], h => by simp [ltStr] at h
  | x :: xs, y :: ys, h => by
    simp only [ltStr, Bool.or_eq_true, decide_eq_true_eq, Bool.and_eq_true] at h
    simp only [ltStr, Bool.or_eq_false_iff, decide_eq_false_iff_not, Bool.and_eq_false_iff]
    rcases h with h | ⟨h1, h2⟩
    · refine ⟨by omega, Or.inl ?_⟩
      intro e; subst e; omega
    · subst h1
      exact ⟨by omega, Or.inr (ltStr_asymm xs ys h2)⟩

theorem ltStr_ne {a b : Str} (h : ltStr a b = true) : a ≠ b := by
  intro e; subst e; rw [ltStr_irrefl] at h; cases h

/-- concatenation of field lists -/
def appF : JFields → JFields → JFields
  | .nil, g => g
  | .cons k v t, g => .cons k v (appF t g)

theorem appF_nil : ∀ a : JFields, appF a .nil = a
  | .nil => rfl
  | .cons k v t => by simp [appF, appF_nil t]

theorem appF_assoc : ∀ a b c : JFields, appF (appF a b) c = appF a (appF b c)
  | .nil, _, _ => rfl
  | .cons k v t, b, c => by simp [appF, appF_assoc t b c]

theorem keysGt_appF (k : Str) : ∀ a b : JFields, keysGt k (appF a b) = (keysGt k a && keysGt k b)
  | .nil, _ => by simp [appF, keysGt]
  | .cons k' v t, b => by simp [appF, keysGt, keysGt_appF k t b, Bool.and_assoc]

/-- every key of `a` is smaller than `k` -/
def keysLt (k : Str) : JFields → Bool
  | .nil => true
  | .cons k' _ t => ltStr k' k && keysLt k t

theorem keysLt_of_sorted (k : Str) (v : Json) (t : JFields) : ∀ a : JFields,
    sortedF (appF a (.cons k v t)) = true → keysLt k a = true
  | .nil, _ => rfl
  | .cons k' v' a, h => by
    simp only [appF, sortedF, keysGt_appF, keysGt, Bool.and_eq_true] at h
    simp only [keysLt, Bool.and_eq_true]
    exact ⟨h.1.2.1, keysLt_of_sorted k v t a h.2⟩

/-- inserting a key greater than all present ones appends the member -/
theorem insertF_last (k : Str) (v : Json) : ∀ a : JFields, keysLt k a = true →
    insertF k v a = appF a (.cons k v .nil)
  | .nil, _ => rfl
  | .cons k' v' a, h => by
    simp only [keysLt, Bool.and_eq_true] at h
    have h1 : k ≠ k' := fun e => ltStr_ne h.1 e.symm
    have h2 : ltStr k k' = false := ltStr_asymm _ _ h.1
    simp [insertF, h1, h2, appF, insertF_last k v a h.2]

/-! ## fuel: the call depth of the reader on a printed document -/

mutual
  def sizeV : Json → Nat
    | .null => 1
    | .bool _ => 1
    | .num _ => 1
    | .str _ => 1
    | .arr l => 1 + sizeL l
    | .obj f => 1 + sizeF f
  def sizeL : JList → Nat
    | .nil => 0
    | .cons h t => sizeV h + sizeT t
  def sizeT : JList → Nat
    | .nil => 1
    | .cons h t => 1 + sizeV h + sizeT t
  def sizeF : JFields → Nat
    | .nil => 0
    | .cons _ v t => 1 + sizeV v + sizeFT t
  def sizeFT : JFields → Nat
    | .nil => 1
    | .cons _ v t => 2 + sizeV v + sizeFT t
end


theorem tokFacts :
    isWs '[' = false ∧ isWs ']' = false ∧ isWs '{' = false ∧ isWs '}' = false ∧ isWs ',' = false ∧
    isWs ':' = false ∧ isWs '"' = false ∧ isWs 'n' = false ∧ isWs 't' = false ∧ isWs 'f' = false ∧
    isDigit '[' = false ∧ isDigit '{' = false ∧ isDigit '"' = false := by decide

theorem pItems_nil_step (g rem : Nat) (rest : List Char) :
    pItems (g + 1) rem (']' :: rest) = .ok (.nil, rest) := by
  rw [pItems]
  simp [skipWs, tokFacts]

theorem pItems_cons_step (g rem : Nat) (S X rest : List Char) (h : Json) (t : JList)
    (hv : pValue g rem S = .ok (h, X)) (ht : pItems g rem X = .ok (t, rest)) :
    pItems (g + 1) rem (',' :: S) = .ok (.cons h t, rest) := by
  rw [pItems]
  simp [skipWs, tokFacts, hv, ht]

theorem pValue_arr_nil_step (g rem : Nat) (rest : List Char) (hrem : 1 < rem) :
    pValue (g + 1) rem ('[' :: ']' :: rest) = .ok (.arr .nil, rest) := by
  rw [pValue]
  have : ¬ rem ≤ 1 := by omega
  simp [skipWs, tokFacts, this]

theorem pValue_arr_cons_step (g rem : Nat) (h : Json) (t : JList) (S X rest : List Char)
    (hrem : 1 < rem) (c1 : Char) (r1 : List Char) (e : S = c1 :: r1) (hws : isWs c1 = false)
    (hne : c1 ≠ ']')
    (hv : pValue g (rem - 1) S = .ok (h, X)) (ht : pItems g (rem - 1) X = .ok (t, rest)) :
    pValue (g + 1) rem ('[' :: S) = .ok (.arr (.cons h t), rest) := by
  rw [pValue]
  have : ¬ rem ≤ 1 := by omega
  subst e
  simp [skipWs, tokFacts, this, hws, hne, hv, ht]

theorem pFields_nil_step (g rem : Nat) (acc : JFields) (rest : List Char) :
    pFields (g + 1) rem acc ('}' :: rest) = .ok (acc, rest) := by
  rw [pFields]
  simp [skipWs, tokFacts]

theorem pFields_cons_step (g rem : Nat) (acc : JFields) (Y : List Char) :
    pFields (g + 1) rem acc (',' :: Y) = pField g rem acc Y := by
  rw [pFields]
  simp [skipWs, tokFacts]

theorem pField_step (g rem : Nat) (acc : JFields) (k : Str) (v : Json) (S X : List Char)
    (hv : pValue g rem S = .ok (v, X)) :
    pField (g + 1) rem acc (printString k ++ ':' :: S) = pFields g rem (insertF k v acc) X := by
  rw [pField, printString_append]
  simp [skipWs, tokFacts, parseChars_print, hv]

theorem pValue_obj_nil_step (g rem : Nat) (rest : List Char) (hrem : 1 < rem) :
    pValue (g + 1) rem ('{' :: '}' :: rest) = .ok (.obj .nil, rest) := by
  rw [pValue]
  have : ¬ rem ≤ 1 := by omega
  simp [skipWs, tokFacts, this]

theorem pValue_obj_cons_step (g rem : Nat) (k : Str) (Z rest : List Char) (fs : JFields)
    (hrem : 1 < rem) (hf : pField g (rem - 1) .nil (printString k ++ Z) = .ok (fs, rest)) :
    pValue (g + 1) rem ('{' :: (printString k ++ Z)) = .ok (.obj fs, rest) := by
  rw [pValue]
  rw [printString_append] at hf ⊢
  have : ¬ rem ≤ 1 := by omega
  simp [skipWs, tokFacts, this, hf]

theorem pValue_str_step (g rem : Nat) (s : Str) (rest : List Char) :
    pValue (g + 1) rem (printString s ++ rest) = .ok (.str s, rest) := by
  rw [pValue, printString_append]
  simp [skipWs, tokFacts, parseChars_print]

theorem pValue_null_step (g rem : Nat) (rest : List Char) :
    pValue (g + 1) rem ('n' :: 'u' :: 'l' :: 'l' :: rest) = .ok (.null, rest) := by
  rw [pValue]
  simp [skipWs, tokFacts, stripPrefix]

theorem pValue_bool_step (g rem : Nat) (b : Bool) (rest : List Char) :
    pValue (g + 1) rem (boolText b ++ rest) = .ok (.bool b, rest) := by
  rw [pValue]
  cases b <;> simp [boolText, skipWs, tokFacts, stripPrefix]



/-! ## numbers -/

/-- what may follow a number token: not a digit, not a fraction or exponent mark -/
def followOK : List Char → Bool
  | [] => true
  | c :: _ => !isDigit c && !(c = '.' || c = 'e' || c = 'E')

theorem digit_facts {c : Char} (h : isDigit c = true) :
    isWs c = false ∧ c ≠ 'n' ∧ c ≠ 't' ∧ c ≠ 'f' ∧ c ≠ '-' ∧ c ≠ ']' := by
  refine ⟨?_, ?_, ?_, ?_, ?_, ?_⟩
  · cases hw : isWs c with
    | false => rfl
    | true =>
      simp only [isWs, Bool.or_eq_true, decide_eq_true_eq] at hw
      rcases hw with ((rfl | rfl) | rfl) | rfl <;> exact absurd h (by decide)
  all_goals (intro e; subst e; exact absurd h (by decide))

theorem spanDigits_append : ∀ (ds rest : List Char), ds.all isDigit = true → followOK rest = true →
    spanDigits (ds ++ rest) = (ds, rest)
  | [], [], _, _ => rfl
  | [], c :: r, _, h => by
    simp only [followOK, Bool.and_eq_true, Bool.not_eq_true'] at h
    simp [spanDigits, h.1]
  | d :: ds, rest, hd, h => by
    simp only [List.all_cons, Bool.and_eq_true] at hd
    simp [spanDigits, hd.1, spanDigits_append ds rest hd.2 h]

theorem parseNumber_canon (neg : Bool) (ds rest : List Char) (hc : canonDigits ds = true)
    (hf : followOK rest = true) :
    parseNumber neg (ds ++ rest) = parseNumber.parseNumberEnd neg ds rest := by
  cases ds with
  | nil => simp [canonDigits] at hc
  | cons d0 more =>
    simp only [canonDigits, Bool.and_eq_true, Bool.not_eq_true', Bool.and_eq_false_iff,
      decide_eq_false_iff_not, Bool.not_eq_false'] at hc
    have hz : ¬ (d0 = '0' ∧ more ≠ []) := by
      rintro ⟨h0, hm⟩
      rcases hc.2 with h | h
      · exact h h0
      · exact hm (List.isEmpty_iff.1 h)
    unfold parseNumber
    simp only [spanDigits_append _ rest hc.1 hf, hz, if_false]
    cases rest with
    | nil => rfl
    | cons c r =>
      simp only [followOK, Bool.and_eq_true, Bool.not_eq_true', Bool.or_eq_false_iff,
        decide_eq_false_iff_not] at hf
      have : ¬ (c = '.' ∨ c = 'e' ∨ c = 'E') := by
        rintro (h | h | h)
        · exact hf.2.1.1 h
        · exact hf.2.1.2 h
        · exact hf.2.2 h
      simp [this]

theorem canonDigits_head {c : Char} {ds : List Char} (h : canonDigits (c :: ds) = true) :
    isDigit c = true := by
  simp only [canonDigits, List.all_cons, Bool.and_eq_true] at h
  exact h.1.1

theorem pValue_num_step (g rem : Nat) (t : Str) (rest : List Char) (ht : IntText t = true)
    (hf : followOK rest = true) : pValue (g + 1) rem (t ++ rest) = .ok (.num t, rest) := by
  cases t with
  | nil => simp [IntText] at ht
  | cons c ds =>
    by_cases hm : c = '-'
    · subst hm
      simp only [IntText, if_true, Bool.and_eq_true, decide_eq_true_eq] at ht
      rw [pValue]
      have hv : ¬ digitsValue 0 ds = 0 := by omega
      simp [skipWs, (by decide : isWs '-' = false), parseNumber_canon true ds rest ht.1.1 hf,
        parseNumber.parseNumberEnd, hv, ht.2]
    · simp only [IntText, hm, if_false, Bool.and_eq_true, decide_eq_true_eq] at ht
      have hd := canonDigits_head ht.1
      obtain ⟨h1, h2, h3, h4, _, _⟩ := digit_facts hd
      rw [pValue]
      have := parseNumber_canon false (c :: ds) rest ht.1 hf
      simp only [List.cons_append] at this
      simp [skipWs, h1, h2, h3, h4, hm, hd, this, parseNumber.parseNumberEnd, ht.2]


theorem intText_head {t : Str} (h : IntText t = true) :
    ∃ c r, t = c :: r ∧ isWs c = false ∧ c ≠ ']' := by
  cases t with
  | nil => simp [IntText] at h
  | cons c ds =>
    refine ⟨c, ds, rfl, ?_⟩
    by_cases hm : c = '-'
    · subst hm; exact ⟨by decide, by decide⟩
    · simp only [IntText, hm, if_false, Bool.and_eq_true] at h
      obtain ⟨h1, _, _, _, _, h6⟩ := digit_facts (canonDigits_head h.1)
      exact ⟨h1, h6⟩

theorem intText_length {t : Str} (h : IntText t = true) : 1 ≤ t.length := by
  cases t with
  | nil => simp [IntText] at h
  | cons c ds => simp

theorem followOK_itemsTail (t : JList) (rest : List Char) :
    followOK (printItemsTail t ++ ']' :: rest) = true := by
  cases t <;> simp [printItemsTail, followOK, isDigit]

theorem followOK_fieldsTail (t : JFields) (rest : List Char) :
    followOK (printFieldsTail t ++ '}' :: rest) = true := by
  cases t <;> simp [printFieldsTail, followOK, isDigit]

theorem followOK_ws (w : List Char) (hw : ∀ c ∈ w, isWs c = true) : followOK w = true := by
  cases w with
  | nil => rfl
  | cons c r =>
    have h := hw c (by simp)
    simp only [isWs, Bool.or_eq_true, decide_eq_true_eq] at h
    rcases h with ((rfl | rfl) | rfl) | rfl <;> simp [followOK, isDigit]

/-! ## the reader undoes the writer -/

theorem printJson_head (d : Json) (hn : ExactNums d = true) (X : List Char) :
    ∃ c r, printJson d ++ X = c :: r ∧ isWs c = false ∧ c ≠ ']' := by
  cases d with
  | null => exact ⟨'n', 'u' :: 'l' :: 'l' :: X, by simp [printJson], by decide, by decide⟩
  | bool b =>
    cases b
    · exact ⟨'f', 'a' :: 'l' :: 's' :: 'e' :: X, by simp [printJson, boolText], by decide, by decide⟩
    · exact ⟨'t', 'r' :: 'u' :: 'e' :: X, by simp [printJson, boolText], by decide, by decide⟩
  | num t =>
    obtain ⟨c, r, e, h1, h2⟩ := intText_head (by simpa [ExactNums] using hn)
    exact ⟨c, r ++ X, by simp [printJson, e], h1, h2⟩
  | str s => exact ⟨'"', printChars s ++ '"' :: X, by simp [printJson, printString], by decide, by decide⟩
  | arr l => exact ⟨'[', printItems l ++ ']' :: X, by simp [printJson], by decide, by decide⟩
  | obj f => exact ⟨'{', printFields f ++ '}' :: X, by simp [printJson], by decide, by decide⟩

theorem sizeT_pos : ∀ t : JList, 1 ≤ sizeT t
  | .nil => by simp [sizeT]
  | .cons _ _ => by simp [sizeT]; omega

theorem sizeFT_pos : ∀ t : JFields, 1 ≤ sizeFT t
  | .nil => by simp [sizeFT]
  | .cons _ _ _ => by simp [sizeFT]; omega

mutual
  /-- `pValue` on a printed document (any continuation `rest`, fuel at least the call depth,
      `remaining_depth` above the nesting) -/
  theorem pValue_print : ∀ (d : Json) (f rem : Nat) (rest : List Char),
      ExactNums d = true → SortedKeys d = true → sizeV d ≤ f → depth d < rem →
      followOK rest = true → pValue f rem (printJson d ++ rest) = .ok (d, rest)
    | .null, f, rem, rest, _, _, hf, _, _ => by
      obtain ⟨g, rfl⟩ : ∃ g, f = g + 1 := ⟨f - 1, by simp only [sizeV] at hf; omega⟩
      simpa [printJson] using pValue_null_step g rem rest
    | .bool b, f, rem, rest, _, _, hf, _, _ => by
      obtain ⟨g, rfl⟩ : ∃ g, f = g + 1 := ⟨f - 1, by simp only [sizeV] at hf; omega⟩
      simpa [printJson] using pValue_bool_step g rem b rest
    | .num t, f, rem, rest, hn, _, hf, _, hfo => by
      obtain ⟨g, rfl⟩ : ∃ g, f = g + 1 := ⟨f - 1, by simp only [sizeV] at hf; omega⟩
      simpa [printJson] using pValue_num_step g rem t rest (by simpa [ExactNums] using hn) hfo
    | .str s, f, rem, rest, _, _, hf, _, _ => by
      obtain ⟨g, rfl⟩ : ∃ g, f = g + 1 := ⟨f - 1, by simp only [sizeV] at hf; omega⟩
      simpa [printJson] using pValue_str_step g rem s rest
    | .arr .nil, f, rem, rest, _, _, hf, hd, _ => by
      obtain ⟨g, rfl⟩ : ∃ g, f = g + 1 := ⟨f - 1, by simp only [sizeV] at hf; omega⟩
      simp only [depth, depthL] at hd
      simpa [printJson, printItems] using pValue_arr_nil_step g rem rest (by omega)
    | .arr (.cons h t), f, rem, rest, hn, hs, hf, hd, _ => by
      simp only [ExactNums, ExactNumsL, Bool.and_eq_true] at hn
      simp only [SortedKeys, SortedKeysL, Bool.and_eq_true] at hs
      simp only [sizeV, sizeL] at hf
      simp only [depth, depthL] at hd
      have hp := sizeT_pos t
      obtain ⟨g, rfl⟩ : ∃ g, f = g + 1 := ⟨f - 1, by omega⟩
      have hv := pValue_print h g (rem - 1) (printItemsTail t ++ ']' :: rest) hn.1 hs.1 (by omega) (by omega)
        (followOK_itemsTail t rest)
      have ht := pItems_print t g (rem - 1) rest hn.2 hs.2 (by omega) (by omega)
      obtain ⟨c1, r1, e, hws, hne⟩ := printJson_head h hn.1 (printItemsTail t ++ ']' :: rest)
      have := pValue_arr_cons_step g rem h t _ _ rest (by omega) c1 r1 e hws hne hv ht
      simpa [printJson, printItems, List.append_assoc] using this
    | .obj .nil, f, rem, rest, _, _, hf, hd, _ => by
      obtain ⟨g, rfl⟩ : ∃ g, f = g + 1 := ⟨f - 1, by simp only [sizeV] at hf; omega⟩
      simp only [depth, depthF] at hd
      simpa [printJson, printFields] using pValue_obj_nil_step g rem rest (by omega)
    | .obj (.cons k v t), f, rem, rest, hn, hs, hf, hd, _ => by
      simp only [ExactNums, ExactNumsF, Bool.and_eq_true] at hn
      simp only [SortedKeys, SortedKeysF, Bool.and_eq_true] at hs
      simp only [sizeV, sizeF] at hf
      simp only [depth, depthF] at hd
      have hp := sizeFT_pos t
      obtain ⟨g, rfl⟩ : ∃ g, f = g + 2 := ⟨f - 2, by omega⟩
      have hv := pValue_print v g (rem - 1) (printFieldsTail t ++ '}' :: rest) hn.1 hs.2.1 (by omega) (by omega)
        (followOK_fieldsTail t rest)
      have ht := pFields_print t g (rem - 1) (.cons k v .nil) rest hn.2 hs.2.2 (by simpa [appF] using hs.1)
        (by omega) (by omega)
      have h1 := pField_step g (rem - 1) .nil k v _ _ hv
      rw [show insertF k v .nil = .cons k v .nil from rfl, ht] at h1
      have := pValue_obj_cons_step (g + 1) rem k _ rest _ (by omega) h1
      simpa [printJson, printFields, appF, List.append_assoc] using this
  theorem pItems_print : ∀ (t : JList) (f rem : Nat) (rest : List Char),
      ExactNumsL t = true → SortedKeysL t = true → sizeT t ≤ f → depthL t < rem →
      pItems f rem (printItemsTail t ++ ']' :: rest) = .ok (t, rest)
    | .nil, f, rem, rest, _, _, hf, _ => by
      obtain ⟨g, rfl⟩ : ∃ g, f = g + 1 := ⟨f - 1, by simp only [sizeT] at hf; omega⟩
      simpa [printItemsTail] using pItems_nil_step g rem rest
    | .cons h t, f, rem, rest, hn, hs, hf, hd => by
      simp only [ExactNumsL, Bool.and_eq_true] at hn
      simp only [SortedKeysL, Bool.and_eq_true] at hs
      simp only [sizeT] at hf
      simp only [depthL] at hd
      have hp := sizeT_pos t
      obtain ⟨g, rfl⟩ : ∃ g, f = g + 1 := ⟨f - 1, by omega⟩
      have hv := pValue_print h g rem (printItemsTail t ++ ']' :: rest) hn.1 hs.1 (by omega) (by omega)
        (followOK_itemsTail t rest)
      have ht := pItems_print t g rem rest hn.2 hs.2 (by omega) (by omega)
      have := pItems_cons_step g rem _ _ rest h t hv ht
      simpa [printItemsTail, List.append_assoc] using this
  theorem pFields_print : ∀ (t : JFields) (f rem : Nat) (acc : JFields) (rest : List Char),
      ExactNumsF t = true → SortedKeysF t = true → sortedF (appF acc t) = true → sizeFT t ≤ f →
      depthF t < rem →
      pFields f rem acc (printFieldsTail t ++ '}' :: rest) = .ok (appF acc t, rest)
    | .nil, f, rem, acc, rest, _, _, _, hf, _ => by
      obtain ⟨g, rfl⟩ : ∃ g, f = g + 1 := ⟨f - 1, by simp only [sizeFT] at hf; omega⟩
      simpa [printFieldsTail, appF_nil] using pFields_nil_step g rem acc rest
    | .cons k v t, f, rem, acc, rest, hn, hs, hso, hf, hd => by
      simp only [ExactNumsF, Bool.and_eq_true] at hn
      simp only [SortedKeysF, Bool.and_eq_true] at hs
      simp only [sizeFT] at hf
      simp only [depthF] at hd
      have hp := sizeFT_pos t
      obtain ⟨g, rfl⟩ : ∃ g, f = g + 2 := ⟨f - 2, by omega⟩
      have hv := pValue_print v g rem (printFieldsTail t ++ '}' :: rest) hn.1 hs.1 (by omega) (by omega)
        (followOK_fieldsTail t rest)
      have hins := insertF_last k v acc (keysLt_of_sorted k v t acc hso)
      have ht := pFields_print t g rem (appF acc (.cons k v .nil)) rest hn.2 hs.2
        (by rw [appF_assoc]; simpa [appF] using hso) (by omega) (by omega)
      have h1 := pField_step g rem acc k v _ _ hv
      rw [hins, ht, appF_assoc] at h1
      have h2 := pFields_cons_step (g + 1) rem acc
        (printString k ++ ':' :: (printJson v ++ (printFieldsTail t ++ '}' :: rest)))
      rw [h1] at h2
      simpa [printFieldsTail, appF, List.append_assoc] using h2
end

/-! ## the fuel `parseJsonE` gives is enough -/

theorem printString_length (s : Str) : (printString s).length = (printChars s).length + 2 := by
  simp [printString]

mutual
  theorem sizeV_le : ∀ d : Json, ExactNums d = true → sizeV d ≤ (printJson d).length
    | .null, _ => by simp [sizeV, printJson]
    | .bool b, _ => by cases b <;> simp [sizeV, printJson, boolText]
    | .num t, hn => by
      have := intText_length (t := t) (by simpa [ExactNums] using hn)
      simpa [sizeV, printJson] using this
    | .str s, _ => by simp [sizeV, printJson, printString_length]
    | .arr .nil, _ => by simp [sizeV, sizeL, printJson, printItems]
    | .arr (.cons h t), hn => by
      simp only [ExactNums, ExactNumsL, Bool.and_eq_true] at hn
      have h1 := sizeV_le h hn.1
      have h2 := sizeT_le t hn.2
      simp only [sizeV, sizeL, printJson, printItems, List.length_cons, List.length_append,
        List.length_nil]
      omega
    | .obj .nil, _ => by simp [sizeV, sizeF, printJson, printFields]
    | .obj (.cons k v t), hn => by
      simp only [ExactNums, ExactNumsF, Bool.and_eq_true] at hn
      have h1 := sizeV_le v hn.1
      have h2 := sizeFT_le t hn.2
      simp only [sizeV, sizeF, printJson, printFields, List.length_cons, List.length_append,
        List.length_nil, printString_length]
      omega
  theorem sizeT_le : ∀ t : JList, ExactNumsL t = true → sizeT t ≤ (printItemsTail t).length + 1
    | .nil, _ => by simp [sizeT, printItemsTail]
    | .cons h t, hn => by
      simp only [ExactNumsL, Bool.and_eq_true] at hn
      have h1 := sizeV_le h hn.1
      have h2 := sizeT_le t hn.2
      simp only [sizeT, printItemsTail, List.length_cons, List.length_append]
      omega
  theorem sizeFT_le : ∀ t : JFields, ExactNumsF t = true → sizeFT t ≤ (printFieldsTail t).length + 1
    | .nil, _ => by simp [sizeFT, printFieldsTail]
    | .cons k v t, hn => by
      simp only [ExactNumsF, Bool.and_eq_true] at hn
      have h1 := sizeV_le v hn.1
      have h2 := sizeFT_le t hn.2
      simp only [sizeFT, printFieldsTail, List.length_cons, List.length_append, printString_length]
      omega
end

theorem pValue_skip (f rem : Nat) (w s : List Char) (hw : ∀ c ∈ w, isWs c = true) :
    pValue f rem (w ++ s) = pValue f rem s := by
  cases f with
  | zero => simp [pValue]
  | succ g => rw [pValue, pValue, skipWs_append w s hw]

/-- `from_str` of the compact text, white space before and after it -/
theorem parseJsonE_print (d : Json) (w w' : List Char) (hw : ∀ c ∈ w, isWs c = true)
    (hw' : ∀ c ∈ w', isWs c = true) (hn : ExactNums d = true) (hs : SortedKeys d = true)
    (hd : depth d ≤ 127) : parseJsonE (w ++ printJson d ++ w') = .ok d := by
  unfold parseJsonE
  rw [List.append_assoc, pValue_skip _ _ w _ hw]
  have hsz := sizeV_le d hn
  rw [pValue_print d _ depthLimit w' hn hs (by simp only [List.length_append]; omega)
    (by unfold depthLimit; omega) (followOK_ws w' hw')]
  simp [skipWs_all w' hw']

/-! ## the normalisation maps into the class -/

mutual
  theorem strLeaves_exactNums : ∀ d : Json, StrLeaves d = true → ExactNums d = true
    | .null, h => by simp [StrLeaves] at h
    | .bool _, h => by simp [StrLeaves] at h
    | .num _, h => by simp [StrLeaves] at h
    | .str _, _ => by simp [ExactNums]
    | .arr l, h => by simp only [StrLeaves] at h; simpa [ExactNums] using strLeavesL_exactNums l h
    | .obj f, h => by simp only [StrLeaves] at h; simpa [ExactNums] using strLeavesF_exactNums f h
  theorem strLeavesL_exactNums : ∀ l : JList, StrLeavesL l = true → ExactNumsL l = true
    | .nil, _ => by simp [ExactNumsL]
    | .cons h t, hh => by
      simp only [StrLeavesL, Bool.and_eq_true] at hh
      simp [ExactNumsL, strLeaves_exactNums h hh.1, strLeavesL_exactNums t hh.2]
  theorem strLeavesF_exactNums : ∀ l : JFields, StrLeavesF l = true → ExactNumsF l = true
    | .nil, _ => by simp [ExactNumsF]
    | .cons _ v t, hh => by
      simp only [StrLeavesF, Bool.and_eq_true] at hh
      simp [ExactNumsF, strLeaves_exactNums v hh.1, strLeavesF_exactNums t hh.2]
end

theorem stringDoc_textDoc (d : Json) (h : StringDoc d = true) : TextDoc d = true := by
  simp only [StringDoc, Bool.and_eq_true] at h
  simp [TextDoc, strLeaves_exactNums d h.1, h.2]

mutual
  theorem norm_strLeaves : ∀ (d j : Json), norm d = some j → StrLeaves j = true
    | .null, _, h => by simp [norm] at h
    | .bool _, _, h => by simp only [norm, Option.some.injEq] at h; subst h; simp [StrLeaves]
    | .num _, _, h => by simp only [norm, Option.some.injEq] at h; subst h; simp [StrLeaves]
    | .str _, _, h => by simp only [norm, Option.some.injEq] at h; subst h; simp [StrLeaves]
    | .arr l, _, h => by
      simp only [norm, Option.some.injEq] at h; subst h; simpa [StrLeaves] using normL_strLeaves l
    | .obj f, _, h => by
      simp only [norm, Option.some.injEq] at h; subst h; simpa [StrLeaves] using normF_strLeaves f
  theorem normL_strLeaves : ∀ l : JList, StrLeavesL (normL l) = true
    | .nil => by simp [normL, StrLeavesL]
    | .cons h t => by
      simp only [normL]
      cases hh : norm h with
      | none => exact normL_strLeaves t
      | some j => simp [StrLeavesL, norm_strLeaves h j hh, normL_strLeaves t]
  theorem normF_strLeaves : ∀ l : JFields, StrLeavesF (normF l) = true
    | .nil => by simp [normF, StrLeavesF]
    | .cons k v t => by
      simp only [normF]
      cases hh : norm v with
      | none => exact normF_strLeaves t
      | some j => simp [StrLeavesF, norm_strLeaves v j hh, normF_strLeaves t]
end

mutual
  theorem norm_depth : ∀ (d j : Json), norm d = some j → depth j ≤ depth d
    | .null, _, h => by simp [norm] at h
    | .bool _, _, h => by simp only [norm, Option.some.injEq] at h; subst h; simp [depth]
    | .num _, _, h => by simp only [norm, Option.some.injEq] at h; subst h; simp [depth]
    | .str _, _, h => by simp only [norm, Option.some.injEq] at h; subst h; simp [depth]
    | .arr l, _, h => by
      simp only [norm, Option.some.injEq] at h; subst h
      have := normL_depth l
      simp only [depth]; omega
    | .obj f, _, h => by
      simp only [norm, Option.some.injEq] at h; subst h
      have := normF_depth f
      simp only [depth]; omega
  theorem normL_depth : ∀ l : JList, depthL (normL l) ≤ depthL l
    | .nil => by simp [normL]
    | .cons h t => by
      have ht := normL_depth t
      simp only [normL]
      cases hh : norm h with
      | none => simp only [depthL]; omega
      | some j =>
        have := norm_depth h j hh
        simp only [depthL]; omega
  theorem normF_depth : ∀ l : JFields, depthF (normF l) ≤ depthF l
    | .nil => by simp [normF]
    | .cons k v t => by
      have ht := normF_depth t
      simp only [normF]
      cases hh : norm v with
      | none => simp only [depthF]; omega
      | some j =>
        have := norm_depth v j hh
        simp only [depthF]; omega
end

theorem keysGt_normF (k : Str) : ∀ f : JFields, keysGt k f = true → keysGt k (normF f) = true
  | .nil, _ => by simp [normF, keysGt]
  | .cons k' v t, h => by
    simp only [keysGt, Bool.and_eq_true] at h
    simp only [normF]
    cases norm v with
    | none => exact keysGt_normF k t h.2
    | some j => simp [keysGt, h.1, keysGt_normF k t h.2]

theorem sortedF_normF : ∀ f : JFields, sortedF f = true → sortedF (normF f) = true
  | .nil, _ => by simp [normF, sortedF]
  | .cons k v t, h => by
    simp only [sortedF, Bool.and_eq_true] at h
    simp only [normF]
    cases norm v with
    | none => exact sortedF_normF t h.2
    | some j => simp [sortedF, keysGt_normF k t h.1, sortedF_normF t h.2]

mutual
  theorem norm_sortedKeys : ∀ (d j : Json), norm d = some j → SortedKeys d = true →
      SortedKeys j = true
    | .null, _, h, _ => by simp [norm] at h
    | .bool _, _, h, _ => by simp only [norm, Option.some.injEq] at h; subst h; simp [SortedKeys]
    | .num _, _, h, _ => by simp only [norm, Option.some.injEq] at h; subst h; simp [SortedKeys]
    | .str _, _, h, _ => by simp only [norm, Option.some.injEq] at h; subst h; simp [SortedKeys]
    | .arr l, _, h, hs => by
      simp only [norm, Option.some.injEq] at h; subst h
      simp only [SortedKeys] at hs ⊢
      exact normL_sortedKeys l hs
    | .obj f, _, h, hs => by
      simp only [norm, Option.some.injEq] at h; subst h
      simp only [SortedKeys, Bool.and_eq_true] at hs ⊢
      exact ⟨sortedF_normF f hs.1, normF_sortedKeys f hs.2⟩
  theorem normL_sortedKeys : ∀ l : JList, SortedKeysL l = true → SortedKeysL (normL l) = true
    | .nil, _ => by simp [normL, SortedKeysL]
    | .cons h t, hs => by
      simp only [SortedKeysL, Bool.and_eq_true] at hs
      simp only [normL]
      cases hh : norm h with
      | none => exact normL_sortedKeys t hs.2
      | some j => simp [SortedKeysL, norm_sortedKeys h j hh hs.1, normL_sortedKeys t hs.2]
  theorem normF_sortedKeys : ∀ l : JFields, SortedKeysF l = true → SortedKeysF (normF l) = true
    | .nil, _ => by simp [normF, SortedKeysF]
    | .cons k v t, hs => by
      simp only [SortedKeysF, Bool.and_eq_true] at hs
      simp only [normF]
      cases hh : norm v with
      | none => exact normF_sortedKeys t hs.2
      | some j => simp [SortedKeysF, norm_sortedKeys v j hh hs.1, normF_sortedKeys t hs.2]
end

end Duck.JsonText
