/-
  `set_from_array` (std/collections/set_from_array/script.ds) run from source, for every input:
  validation (`if not is_array …` through the condition evaluator), `set_new`, the loop invariant
  of `for next_value in ${argument::1}` / `set_put`, the closed form of the body.
-/
import DuckModel.Lemmas.ScriptCondLemmas

namespace Duck.ScriptRun
open Duck Duck.Alias Duck.Coll Duck.Spec Duck.Generated Duck.Reser

def sScope : Str := "scope::set_from_array".toList
def sArg1 : Str := "scope::set_from_array::argument::1".toList
def sSet : Str := "scope::set_from_array::set".toList
def sNext : Str := "scope::set_from_array::next_value".toList
def sMsg : Str := "Invalid input, non array handle or array not found.".toList

/-- the parse of set_from_array/script.ds -/
def sfaIs : List Instruction :=
  [emptyI 1,
   mkI 2 none "if" (some [[.lit "not".toList], [.lit "is_array".toList], [.var sArg1]]),
   mkI 3 none "trigger_error" (some [[.lit sMsg]]),
   mkI 4 none "end" none,
   emptyI 5,
   mkI 6 (some sSet) "set_new" none,
   mkI 7 none "for" (some [[.lit sNext], [.lit "in".toList], [.var sArg1]]),
   mkI 8 none "set_put" (some [[.var sSet], [.var sNext]]),
   mkI 9 none "end" none,
   emptyI 10,
   mkI 11 none "set" (some [[.var sSet]])]

theorem sfa_parses : parseText cmd_collections_set_from_array.script = .ok sfaIs :=
  parsesTo_eq (by decide +kernel)

theorem sfa_findFor : findCommands forTables sfaIs (6 + 1) = .ok ⟨[], 8⟩ := findsTo_eq (by decide +kernel)
theorem sfa_findIf : findCommands ifTables sfaIs (1 + 1) = .ok ⟨[], 3⟩ := findsTo_eq (by decide +kernel)

theorem fs_set_put : findScript "set_put".toList = none := by decide +kernel
theorem rn_set_put : resolveNative "set_put".toList = some (.coll .setPut) := by decide +kernel
theorem fs_set_new : findScript "set_new".toList = none := by decide +kernel
theorem rn_set_new : resolveNative "set_new".toList = some (.coll .setNew) := by decide +kernel
theorem fs_is_array : findScript "is_array".toList = none := by decide +kernel
theorem rn_is_array : resolveNative "is_array".toList = some (.coll .isArray) := by decide +kernel
theorem fs_trigger : findScript "trigger_error".toList = none := by decide +kernel
theorem rn_trigger : resolveNative "trigger_error".toList = some .triggerError := by decide +kernel

theorem sSet_under : underPrefix sScope sSet = true := by decide
theorem sNext_under : underPrefix sScope sNext = true := by decide

/-- `set_put h x` on a live set -/
theorem exec_setPut (c : Coll.St) (h x : Str) (cur : List Str) (hget : tget c.tbl h = some (.set cur)) :
    Coll.exec c .setPut [h, x] =
      ({ c with tbl := tinsert (tremove c.tbl h) h (.set (sinsert cur x)) }, .val (some sTrue)) := by
  simp [Coll.exec, cmdSetPut, mutateSet, hget, sinsertAll, okTrue]

/-- the body's state with the table `T` and the for-in call stack `stack` -/
def sfaSt (s : ScriptSt) (T : Table) (stack : List ForCall) : ScriptSt :=
  { s with coll := { tbl := T, next := s.coll.next }, forStack := stack }

/-- the table during the loop: the new set holds `acc`, every other lookup as at loop entry -/
structure SInvT (T0 : Table) (hS : Str) (T : Table) (acc : List Str) : Prop where
  set : tget T hS = some (.set acc)
  other : ∀ k, k ≠ hS → tget T k = tget T0 k

structure SInvV (vars0 vars : Vars) (X hS : Str) : Prop where
  set : vars.get sSet = some hS
  arg : vars.get sArg1 = some X
  clr : clear sScope vars = clear sScope vars0

/-- the table after `set_put hS x` for each `x` in turn (the set holds `acc` before) -/
def setPutAll (hS : Str) : Table → List Str → List Str → Table
  | T, _, [] => T
  | T, acc, x :: xs => setPutAll hS (tinsert (tremove T hS) hS (.set (sinsert acc x))) (sinsert acc x) xs

/-- from the loop body (line 7) with the current cell in `next_value` and the entry at the next
    iteration to the line after `end` (line 9), entry popped: 3 instructions per cell left -/
theorem sfa_loop (F d : Nat) (s : ScriptSt) (X hS : Str) (L : List Item) (T0 : Table)
    (hctx : s.ctx = sScope) (hend : s.endTable.get (flowKey s 8) = some fullNameEndForIn)
    (hL : tget T0 X = some (.list L)) (hXS : X ≠ hS) (vars0 : Vars) :
    ∀ (rem pre : List Item) (x : Item) (acc : List Str) (T : Table) (vars : Vars) (poll : Nat) (fo : Option Str)
      (fuel : Nat),
      L = pre ++ x :: rem → SInvT T0 hS T acc → SInvV vars0 vars X hS → vars.get sNext = some x.render →
      ∃ vars' poll' fo',
        evalInstructions (bodySem F (d + 1) sfaIs) (fun _ => false) sfaIs (fuel + 3 * rem.length + 3) 7 poll fo vars
          (sfaSt s T (⟨pre.length + 1, 6, 8, sScope⟩ :: s.forStack)) =
        evalInstructions (bodySem F (d + 1) sfaIs) (fun _ => false) sfaIs fuel 9 poll' fo' vars'
          (sfaSt s (setPutAll hS T acc (x.render :: rem.map Item.render)) s.forStack) ∧
        SInvT T0 hS (setPutAll hS T acc (x.render :: rem.map Item.render))
          ((rem.map Item.render).foldl sinsert (sinsert acc x.render)) ∧ SInvV vars0 vars' X hS := by
  intro rem
  induction rem with
  | nil =>
    intro pre x acc T vars poll fo fuel hLe hT hV hx
    -- line 7: set_put ${set} ${next_value}
    have hb7 : bind vars ((some [[Seg.var sSet], [Seg.var sNext]]).map fun a => a.map renderTemplate) = [hS, x.render] := by
      rw [bind_mk vars _ (by decide)]
      simp [tmplValue, Seg.value, hV.set, hx]
    have hput : runNative (.coll .setPut) [hS, x.render] vars (sfaSt s T (⟨pre.length + 1, 6, 8, sScope⟩ :: s.forStack)) =
        (.continue (some sTrue), vars,
          sfaSt s (tinsert (tremove T hS) hS (.set (sinsert acc x.render))) (⟨pre.length + 1, 6, 8, sScope⟩ :: s.forStack)) := by
      simp only [runNative, runColl, sfaSt]
      rw [exec_setPut _ hS x.render acc hT.set]
    have e7 := eval_native_continue F (d + 1) sfaIs (fuel + 2) 7 poll fo vars
      (sfaSt s T (⟨pre.length + 1, 6, 8, sScope⟩ :: s.forStack)) _ _ "set_put".toList (.coll .setPut)
      (show sfaIs[7]? = some (mkI 8 none "set_put" (some [[.var sSet], [.var sNext]])) from rfl) rfl fs_set_put rn_set_put
      _ hb7 (some sTrue) vars _ hput
    -- line 8: end
    have e8 := eval_flow_goto F d sfaIs (fuel + 1) 8 (poll + 1) (some sTrue)
      (Vars.updateOutput vars none (some sTrue))
      (sfaSt s (tinsert (tremove T hS) hS (.set (sinsert acc x.render))) (⟨pre.length + 1, 6, 8, sScope⟩ :: s.forStack))
      _ _ "end".toList .endC
      (show sfaIs[8]? = some (mkI 9 none "end" none) from rfl) rfl fs_end rn_end rf_end
      [] rfl none _ _ 6
      (runEnd_for _ _ 8 _ _ ⟨pre.length + 1, 6, 8, sScope⟩ s.forStack hend rfl rfl hctx.symm)
    -- line 6: for, no cell left
    have hb6 : bind (Vars.updateOutput vars none (some sTrue))
        ((some [[Seg.lit sNext], [Seg.lit "in".toList], [Seg.var sArg1]]).map fun a => a.map renderTemplate) =
        [sNext, "in".toList, X] := by
      rw [bind_mk _ _ (by decide)]
      simp [tmplValue, Seg.value, Vars.updateOutput, hV.arg]
    have hTX : tget (tinsert (tremove T hS) hS (.set (sinsert acc x.render))) X = some (.list L) := by
      rw [tget_tinsert, if_neg hXS, tget_tremove, if_neg hXS, hT.other X hXS, hL]
    have hnext : nextIteration (sfaSt s (tinsert (tremove T hS) hS (.set (sinsert acc x.render)))
        (⟨pre.length + 1, 6, 8, sScope⟩ :: s.forStack)) X (pre.length + 1) = none := by
      simp [nextIteration, sfaSt, hTX, hLe]
    have hfor := runFor_resume (nestedOf (bodySem F d) F) sfaIs 1 sNext X 6
      (Vars.updateOutput vars none (some sTrue))
      (sfaSt s (tinsert (tremove T hS) hS (.set (sinsert acc x.render))) (⟨pre.length + 1, 6, 8, sScope⟩ :: s.forStack))
      ⟨pre.length + 1, 6, 8, sScope⟩ s.forStack rfl rfl hctx.symm
    rw [hnext] at hfor
    have e6 := eval_flow_goto F d sfaIs fuel 6 (poll + 1 + 1) none
      (Vars.updateOutput vars none (some sTrue))
      (sfaSt s (tinsert (tremove T hS) hS (.set (sinsert acc x.render))) (⟨pre.length + 1, 6, 8, sScope⟩ :: s.forStack))
      _ _ "for".toList .forIn
      (show sfaIs[6]? = some (mkI 7 none "for" (some [[.lit sNext], [.lit "in".toList], [.var sArg1]])) from rfl)
      rfl fs_for rn_for rf_for _ hb6 none _ _ 9 hfor
    refine ⟨vars, poll + 1 + 1 + 1, none, ?_, ?_, hV⟩
    · show evalInstructions _ _ _ (fuel + 2 + 1) 7 poll fo vars _ = _
      rw [e7, e8, e6]
      rfl
    · show SInvT T0 hS (tinsert (tremove T hS) hS (.set (sinsert acc x.render))) _
      refine ⟨by rw [tget_tinsert, if_pos rfl]; rfl, ?_⟩
      intro k hk
      rw [tget_tinsert, if_neg hk, tget_tremove, if_neg hk, hT.other k hk]
  | cons y rem ih =>
    intro pre x acc T vars poll fo fuel hLe hT hV hx
    have hb7 : bind vars ((some [[Seg.var sSet], [Seg.var sNext]]).map fun a => a.map renderTemplate) = [hS, x.render] := by
      rw [bind_mk vars _ (by decide)]
      simp [tmplValue, Seg.value, hV.set, hx]
    have hput : runNative (.coll .setPut) [hS, x.render] vars (sfaSt s T (⟨pre.length + 1, 6, 8, sScope⟩ :: s.forStack)) =
        (.continue (some sTrue), vars,
          sfaSt s (tinsert (tremove T hS) hS (.set (sinsert acc x.render))) (⟨pre.length + 1, 6, 8, sScope⟩ :: s.forStack)) := by
      simp only [runNative, runColl, sfaSt]
      rw [exec_setPut _ hS x.render acc hT.set]
    have e7 := eval_native_continue F (d + 1) sfaIs (fuel + 3 * rem.length + 3 + 2) 7 poll fo vars
      (sfaSt s T (⟨pre.length + 1, 6, 8, sScope⟩ :: s.forStack)) _ _ "set_put".toList (.coll .setPut)
      (show sfaIs[7]? = some (mkI 8 none "set_put" (some [[.var sSet], [.var sNext]])) from rfl) rfl fs_set_put rn_set_put
      _ hb7 (some sTrue) vars _ hput
    have e8 := eval_flow_goto F d sfaIs (fuel + 3 * rem.length + 3 + 1) 8 (poll + 1) (some sTrue)
      (Vars.updateOutput vars none (some sTrue))
      (sfaSt s (tinsert (tremove T hS) hS (.set (sinsert acc x.render))) (⟨pre.length + 1, 6, 8, sScope⟩ :: s.forStack))
      _ _ "end".toList .endC
      (show sfaIs[8]? = some (mkI 9 none "end" none) from rfl) rfl fs_end rn_end rf_end
      [] rfl none _ _ 6
      (runEnd_for _ _ 8 _ _ ⟨pre.length + 1, 6, 8, sScope⟩ s.forStack hend rfl rfl hctx.symm)
    have hb6 : bind (Vars.updateOutput vars none (some sTrue))
        ((some [[Seg.lit sNext], [Seg.lit "in".toList], [Seg.var sArg1]]).map fun a => a.map renderTemplate) =
        [sNext, "in".toList, X] := by
      rw [bind_mk _ _ (by decide)]
      simp [tmplValue, Seg.value, Vars.updateOutput, hV.arg]
    have hTX : tget (tinsert (tremove T hS) hS (.set (sinsert acc x.render))) X = some (.list L) := by
      rw [tget_tinsert, if_neg hXS, tget_tremove, if_neg hXS, hT.other X hXS, hL]
    have hnext : nextIteration (sfaSt s (tinsert (tremove T hS) hS (.set (sinsert acc x.render)))
        (⟨pre.length + 1, 6, 8, sScope⟩ :: s.forStack)) X (pre.length + 1) = some y.render := by
      simp [nextIteration, sfaSt, hTX, hLe]
    have hfor := runFor_resume (nestedOf (bodySem F d) F) sfaIs 1 sNext X 6
      (Vars.updateOutput vars none (some sTrue))
      (sfaSt s (tinsert (tremove T hS) hS (.set (sinsert acc x.render))) (⟨pre.length + 1, 6, 8, sScope⟩ :: s.forStack))
      ⟨pre.length + 1, 6, 8, sScope⟩ s.forStack rfl rfl hctx.symm
    rw [hnext] at hfor
    have e6 := eval_flow_continue F d sfaIs (fuel + 3 * rem.length + 3) 6 (poll + 1 + 1) none
      (Vars.updateOutput vars none (some sTrue))
      (sfaSt s (tinsert (tremove T hS) hS (.set (sinsert acc x.render))) (⟨pre.length + 1, 6, 8, sScope⟩ :: s.forStack))
      _ _ "for".toList .forIn
      (show sfaIs[6]? = some (mkI 7 none "for" (some [[.lit sNext], [.lit "in".toList], [.var sArg1]])) from rfl)
      rfl fs_for rn_for rf_for _ hb6 none _ _ hfor
    have hT' : SInvT T0 hS (tinsert (tremove T hS) hS (.set (sinsert acc x.render))) (sinsert acc x.render) := by
      refine ⟨by rw [tget_tinsert, if_pos rfl], ?_⟩
      intro k hk
      rw [tget_tinsert, if_neg hk, tget_tremove, if_neg hk, hT.other k hk]
    have hV' : SInvV vars0 (((Vars.updateOutput vars none (some sTrue)).set sNext y.render).updateOutput none none) X hS := by
      refine ⟨?_, ?_, ?_⟩
      · simp only [Vars.updateOutput, get_set]
        rw [if_neg (by decide)]; exact hV.set
      · simp only [Vars.updateOutput, get_set]
        rw [if_neg (by decide)]; exact hV.arg
      · simp only [Vars.updateOutput]
        rw [clear_set_under _ _ _ _ sNext_under]
        exact hV.clr
    obtain ⟨vars', poll', fo', hrun, hfinT, hfinV⟩ := ih (pre ++ [x]) y (sinsert acc x.render) _ _
      (poll + 1 + 1 + 1) none fuel (by rw [hLe]; simp) hT' hV' (by simp [Vars.updateOutput, get_set])
    refine ⟨vars', poll', fo', ?_, ?_, hfinV⟩
    · show evalInstructions _ _ _ (fuel + 3 * (rem.length + 1) + 3) 7 poll fo vars _ = _
      rw [show fuel + 3 * (rem.length + 1) + 3 = fuel + 3 * rem.length + 3 + 2 + 1 by omega, e7, e8, e6]
      rw [show setPutAll hS T acc (x.render :: List.map Item.render (y :: rem)) =
        setPutAll hS (tinsert (tremove T hS) hS (.set (sinsert acc x.render))) (sinsert acc x.render)
          (y.render :: rem.map Item.render) from rfl, ← hrun]
      simp [List.length_append, sfaSt]
    · show SInvT T0 hS (setPutAll hS (tinsert (tremove T hS) hS (.set (sinsert acc x.render))) (sinsert acc x.render)
          (y.render :: rem.map Item.render)) _
      simpa using hfinT

/-! ### the body -/

theorem argOK_parts {a : Str} (h : ArgOK a = true) : Safe a = true ∧ firstOK a = true ∧ lastOK a = true := by
  unfold ArgOK at h
  simp only [Bool.and_eq_true] at h
  exact ⟨h.1.1, h.1.2, h.2⟩

/-- `is_array X` as a native run -/
theorem run_isArray (X : Str) (vars : Vars) (s : ScriptSt) :
    runNative (.coll .isArray) [X] vars s =
      (.continue (some (boolStr (match tget s.coll.tbl X with | some (.list _) => true | _ => false))), vars, s) := by
  simp only [runNative, runColl, Coll.exec, cmdIsArray]
  cases hv : tget s.coll.tbl X with
  | none => rfl
  | some v => cases v <;> rfl

/-- line 1, `if not is_array ${argument::1}`, as one step of the instruction loop -/
theorem sfa_if (F d : Nat) (s : ScriptSt) (vars : Vars) (X : Str) (hX : ArgOK X = true)
    (hv : vars.get sArg1 = some X) (hcI : IfCacheOK s.ifMeta (flowKey s 1) 3) :
    runFlowF (nestedOf (bodySem (F + 2) (d + 1)) (F + 2)) sfaIs 2 .ifC ["not".toList, "is_array".toList, X] 1 vars s =
      if !(match tget s.coll.tbl X with | some (.list _) => true | _ => false) then
        (.continue none, vars, { ifSt s 1 3 with ifStack := ifEntry 1 3 s.ctx :: s.ifStack })
      else (.goTo none (.line (3 + 1)), vars, ifSt s 1 3) := by
  obtain ⟨h1, h2, h3⟩ := argOK_parts hX
  have hcond := evalCond_not_native F d sfaIs "is_array".toList [X] (.coll .isArray) (by decide) (by decide)
    (by intro v hv; simp at hv; subst hv; exact h1)
    (by simp [positionOK, h3]; decide) (by simp [positionOK, h2, h3])
    fs_is_array rn_is_array vars (ifSt s 1 3) _ vars (ifSt s 1 3) (run_isArray X vars (ifSt s 1 3))
  rw [isTrue_boolStr] at hcond
  rw [runIf_simple _ sfaIs 1 "not".toList ["is_array".toList, X] 1 3 vars s sfa_findIf hcI _ vars (ifSt s 1 3) hcond]
  rfl

theorem sfa_bind_if (vars : Vars) (X : Str) (hv : vars.get sArg1 = some X) :
    bind vars ((some [[Seg.lit "not".toList], [Seg.lit "is_array".toList], [Seg.var sArg1]]).map fun a => a.map renderTemplate) =
      ["not".toList, "is_array".toList, X] := by
  rw [bind_mk vars _ (by decide)]
  simp [tmplValue, Seg.value, hv]

/-- the argument names no array: `trigger_error` inside the `if` block; the block's if-call
    entry stays on the stack -/
theorem sfa_body_err (F d : Nat) (s : ScriptSt) (vars : Vars) (X : Str) (hX : ArgOK X = true)
    (hv : vars.get sArg1 = some X) (hcI : IfCacheOK s.ifMeta (flowKey s 1) 3)
    (hnl : ∀ l, tget s.coll.tbl X ≠ some (.list l)) (fuel : Nat) :
    scriptBody (bodySem (F + 2) (d + 2) sfaIs) (fun _ => false) (fuel + 3) sfaIs vars s =
      (.error sMsg, vars, { ifSt s 1 3 with ifStack := ifEntry 1 3 s.ctx :: s.ifStack }) := by
  unfold scriptBody
  rw [eval_skip _ _ _ 0 _ _ _ _ _ (show sfaIs[0]? = some (emptyI 1) from rfl) rfl]
  have hif := sfa_if F d s vars X hX hv hcI
  have hna : (match tget s.coll.tbl X with | some (.list _) => true | _ => false) = false := by
    cases hv' : tget s.coll.tbl X with
    | none => rfl
    | some v =>
      cases v with
      | list l => exact absurd hv' (hnl l)
      | _ => rfl
  rw [hna] at hif
  simp only [Bool.not_false, if_true] at hif
  rw [eval_flow_continue (F + 2) (d + 1) sfaIs (fuel + 1) 1 _ none vars s _ _ "if".toList .ifC
    (show sfaIs[1]? = some (mkI 2 none "if" (some [[.lit "not".toList], [.lit "is_array".toList], [.var sArg1]])) from rfl)
    rfl fs_if rn_if rf_if _ (sfa_bind_if vars X hv) none _ _ hif]
  have hb : bind (Vars.updateOutput vars none none) ((some [[Seg.lit sMsg]]).map fun a => a.map renderTemplate) = [sMsg] := by
    rw [bind_mk _ _ (by decide +kernel)]
    simp [tmplValue, Seg.value]
  rw [eval_native_error (F + 2) (d + 2) sfaIs fuel 2 _ none _ _ _ _ "trigger_error".toList .triggerError
    (show sfaIs[2]? = some (mkI 3 none "trigger_error" (some [[.lit sMsg]])) from rfl) rfl fs_trigger rn_trigger
    _ hb sMsg _ _ rfl]
  rfl

/-- lines 9-11: the result is the handle of the new set -/
theorem sfa_tail (F d : Nat) (s : ScriptSt) (vars : Vars) (hS : Str) (hset : vars.get sSet = some hS)
    (_hne : hS ≠ []) (fuel poll : Nat) (fo : Option Str) :
    evalInstructions (bodySem F d sfaIs) (fun _ => false) sfaIs (fuel + 3) 9 poll fo vars s =
      some (.finished (some hS), vars, s) := by
  rw [eval_skip _ _ _ 9 _ _ _ _ _ (show sfaIs[9]? = some (emptyI 10) from rfl) rfl]
  have hb : bind vars ((some [[Seg.var sSet]]).map fun a => a.map renderTemplate) = [hS] := by
    rw [bind_mk vars _ (by decide)]
    simp [tmplValue, Seg.value, hset]
  rw [eval_native_continue F d sfaIs (fuel + 1) 10 (poll + 1) fo vars s _ _ "set".toList .set
    (show sfaIs[10]? = some (mkI 11 none "set" (some [[.var sSet]])) from rfl) rfl fs_set rn_set
    _ hb (some hS) vars s rfl]
  rw [eval_end _ _ _ 11 _ _ _ _ rfl]
  rfl

/-- the state after `set_new` -/
def sfaMid (s : ScriptSt) : ScriptSt :=
  { ifSt s 1 3 with coll := { tbl := tinsert s.coll.tbl (Coll.handleName s.coll.next) (.set []),
                              next := s.coll.next + 1 } }

/-- the state a successful body leaves, with the table `T` -/
def sfaAfter (s : ScriptSt) (T : Table) : ScriptSt :=
  { s with coll := { tbl := T, next := s.coll.next + 1 },
           ifMeta := ifMetaAfter s.ifMeta (flowKey s 1) 3,
           forMeta := forMetaAfter s.forMeta (flowKey s 6) 8,
           endTable := (s.endTable.put (flowKey s 3) fullNameEndIf).put (flowKey s 8) fullNameEndForIn }

/-- the table a successful body leaves: the new empty set, then one `set_put` per cell -/
def sfaTbl (s : ScriptSt) (L : List Item) : Table :=
  setPutAll (Coll.handleName s.coll.next) (tinsert s.coll.tbl (Coll.handleName s.coll.next) (.set [])) []
    (L.map Item.render)

theorem handleName_ne_nil (k : Nat) : Coll.handleName k ≠ [] := by
  simp [Coll.handleName, handlePrefix]

/-- the argument names an array of `n` cells: `3·n + 8` instructions; the new set (the next
    allocator name) holds the cells, every other lookup is unchanged -/
theorem sfa_body_ok (F d : Nat) (s : ScriptSt) (vars : Vars) (X : Str) (L : List Item) (hX : ArgOK X = true)
    (hctx : s.ctx = sScope) (hv : vars.get sArg1 = some X)
    (hcI : IfCacheOK s.ifMeta (flowKey s 1) 3) (hcF : CacheOK s.forMeta (flowKey s 6) 8)
    (hstale : NoStaleFor sScope s.forStack)
    (hL : tget s.coll.tbl X = some (.list L))
    (hfree : tget s.coll.tbl (Coll.handleName s.coll.next) = none) (fuel : Nat) :
    ∃ vars',
      scriptBody (bodySem (F + 2) (d + 2) sfaIs) (fun _ => false) (fuel + 3 * L.length + 8) sfaIs vars s =
        (.finished (some (Coll.handleName s.coll.next)), vars', sfaAfter s (sfaTbl s L)) ∧
      SInvT (tinsert s.coll.tbl (Coll.handleName s.coll.next) (.set [])) (Coll.handleName s.coll.next) (sfaTbl s L)
        ((L.map Item.render).foldl sinsert []) ∧
      clear sScope vars' = clear sScope vars := by
  have hXS : X ≠ Coll.handleName s.coll.next := by
    intro e; rw [e, hfree] at hL; cases hL
  unfold scriptBody
  rw [show fuel + 3 * L.length + 8 = fuel + 3 * L.length + 7 + 1 by omega,
    eval_skip _ _ _ 0 _ _ _ _ _ (show sfaIs[0]? = some (emptyI 1) from rfl) rfl]
  -- line 1: if → past the block
  have hif := sfa_if F d s vars X hX hv hcI
  rw [hL] at hif
  simp only [Bool.not_true, Bool.false_eq_true, if_false] at hif
  rw [show fuel + 3 * L.length + 7 = fuel + 3 * L.length + 6 + 1 by omega,
    eval_flow_goto (F + 2) (d + 1) sfaIs _ 1 _ none vars s _ _ "if".toList .ifC
    (show sfaIs[1]? = some (mkI 2 none "if" (some [[.lit "not".toList], [.lit "is_array".toList], [.var sArg1]])) from rfl)
    rfl fs_if rn_if rf_if _ (sfa_bind_if vars X hv) none _ _ _ hif]
  -- line 4 (empty), line 5: set = set_new
  rw [show fuel + 3 * L.length + 6 = fuel + 3 * L.length + 5 + 1 by omega,
    eval_skip _ _ _ 4 _ _ _ _ _ (show sfaIs[4]? = some (emptyI 5) from rfl) rfl]
  have hnew : runNative (.coll .setNew) [] vars (ifSt s 1 3) =
      (.continue (some (Coll.handleName s.coll.next)), vars, sfaMid s) := by
    simp [runNative, runColl, Coll.exec, cmdSetNew, putHandle, sinsertAll, ifSt, sfaMid]
  rw [show fuel + 3 * L.length + 5 = fuel + 3 * L.length + 4 + 1 by omega,
    eval_native_continue (F + 2) (d + 2) sfaIs _ 5 _ none vars _ _ _ "set_new".toList (.coll .setNew)
    (show sfaIs[5]? = some (mkI 6 (some sSet) "set_new" none) from rfl) rfl fs_set_new rn_set_new
    [] rfl _ _ _ hnew]
  -- line 6: the first `for`
  have hargs : (Vars.updateOutput vars (some sSet) (some (Coll.handleName s.coll.next))).get sArg1 = some X := by
    simp only [Vars.updateOutput, get_set]
    rw [if_neg (by decide)]; exact hv
  have hb6 : bind (Vars.updateOutput vars (some sSet) (some (Coll.handleName s.coll.next)))
      ((some [[Seg.lit sNext], [Seg.lit "in".toList], [Seg.var sArg1]]).map fun a => a.map renderTemplate) =
      [sNext, "in".toList, X] := by
    rw [bind_mk _ _ (by decide)]
    simp [tmplValue, Seg.value, hargs]
  have hfor := runFor_first (nestedOf (bodySem (F + 2) (d + 1)) (F + 2)) sfaIs 1 sNext X 6 8
    (Vars.updateOutput vars (some sSet) (some (Coll.handleName s.coll.next)))
    (sfaMid s)
    (by show popFor 6 s.ctx false s.forStack = _
        rw [hctx]; exact popFor_noStale 6 sScope s.forStack hstale)
    sfa_findFor hcF
  have hclr1 : clear sScope (Vars.updateOutput vars (some sSet) (some (Coll.handleName s.coll.next))) = clear sScope vars :=
    clear_set_under _ _ _ _ sSet_under
  have hT0 : SInvT (tinsert s.coll.tbl (Coll.handleName s.coll.next) (.set [])) (Coll.handleName s.coll.next)
      (tinsert s.coll.tbl (Coll.handleName s.coll.next) (.set [])) [] :=
    ⟨by rw [tget_tinsert, if_pos rfl], fun _ _ => rfl⟩
  have hLT : tget (tinsert s.coll.tbl (Coll.handleName s.coll.next) (.set [])) X = some (.list L) := by
    rw [tget_tinsert, if_neg hXS, hL]
  cases L with
  | nil =>
    have hnext : nextIteration (sfaMid s) X 0 = none := by
      simp [nextIteration, sfaMid, hLT]
    rw [hnext] at hfor
    rw [show fuel + 3 * ([] : List Item).length + 4 = fuel + 3 + 1 by simp,
      eval_flow_goto (F + 2) (d + 1) sfaIs _ 6 _ _ _ _ _ _ "for".toList .forIn
      (show sfaIs[6]? = some (mkI 7 none "for" (some [[.lit sNext], [.lit "in".toList], [.var sArg1]])) from rfl)
      rfl fs_for rn_for rf_for _ hb6 none _ _ 9 hfor]
    rw [sfa_tail (F + 2) (d + 2) _ _ (Coll.handleName s.coll.next) (by simp [Vars.updateOutput, get_set])
      (handleName_ne_nil _)]
    exact ⟨_, rfl, hT0, hclr1⟩
  | cons x rem =>
    have hnext : nextIteration (sfaMid s) X 0 = some x.render := by
      simp [nextIteration, sfaMid, hLT]
    rw [hnext] at hfor
    rw [show fuel + 3 * (x :: rem).length + 4 = fuel + 3 + 3 * rem.length + 3 + 1 by simp; omega,
      eval_flow_continue (F + 2) (d + 1) sfaIs _ 6 _ _ _ _ _ _ "for".toList .forIn
      (show sfaIs[6]? = some (mkI 7 none "for" (some [[.lit sNext], [.lit "in".toList], [.var sArg1]])) from rfl)
      rfl fs_for rn_for rf_for _ hb6 none _ _ hfor]
    obtain ⟨vars', poll', fo', hrun, hfinT, hfinV⟩ := sfa_loop (F + 2) (d + 1)
      (sfaAfter s (tinsert s.coll.tbl (Coll.handleName s.coll.next) (.set [])))
      X (Coll.handleName s.coll.next) (x :: rem) (tinsert s.coll.tbl (Coll.handleName s.coll.next) (.set []))
      hctx (by simp [sfaAfter, flowKey, KV.get_put]) hLT hXS vars rem [] x [] _ _ (0 + 1 + 1 + 1 + 1 + 1) none (fuel + 3)
      rfl hT0
      (show SInvV vars (((Vars.updateOutput vars (some sSet) (some (Coll.handleName s.coll.next))).set sNext x.render).updateOutput none none)
          X (Coll.handleName s.coll.next) from
        ⟨by simp only [Vars.updateOutput, get_set]; rw [if_neg (by decide)]; simp,
         by simp only [Vars.updateOutput, get_set]; rw [if_neg (by decide), if_neg (by decide)]; exact hv,
         by simp only [Vars.updateOutput]
            rw [clear_set_under _ _ _ _ sNext_under]; exact hclr1⟩)
      (by simp [Vars.updateOutput, get_set])
    have hrun' := hrun
    simp only [List.length_nil, Nat.zero_add, Nat.reduceAdd, sfaAfter, sfaSt, sfaMid, ifSt, flowKey, hctx] at hrun' ⊢
    rw [hrun', sfa_tail (F + 2) (d + 2) _ _ _ hfinV.set (handleName_ne_nil _)]
    refine ⟨vars', ?_, by simpa [sfaTbl] using hfinT, hfinV.clr⟩
    simp [flowKey, hctx, sfaTbl]

/-! ### the whole call -/

theorem sfa_findScript : findScript "set_from_array".toList = some cmd_collections_set_from_array := by rfl

/-- number of cells of the array named by `a` (0 when `a` names no array) -/
def arrLen (t : Table) (a : Str) : Nat :=
  match tget t a with
  | some (.list l) => l.length
  | _ => 0

/-- the state a call ends in whose argument names no array -/
def sfaErrFinal (args : List Str) (st : ScriptSt) : ScriptSt :=
  { ifSt (pubSt sScope args st) 1 3 with
    ifStack := ifEntry 1 3 sScope :: st.ifStack,
    coll := { tbl := tremove (pubSt sScope args st).coll.tbl (Coll.handleName st.coll.next),
              next := st.coll.next + 1 },
    ctx := st.ctx }

/-- the state a call ends in whose argument names the array `L` -/
def sfaOkFinal (args : List Str) (st : ScriptSt) (L : List Item) : ScriptSt :=
  { sfaAfter (pubSt sScope args st) (sfaTbl (pubSt sScope args st) L) with
    coll := { tbl := tremove (sfaTbl (pubSt sScope args st) L) (Coll.handleName st.coll.next),
              next := st.coll.next + 2 },
    ctx := st.ctx }

theorem sfa_alias (F depth fuel : Nat) (a : Str) (rest : List Str) (vars : Vars) (st : ScriptSt)
    (hfree : tget st.coll.tbl (Coll.handleName st.coll.next) = none)
    (hfree1 : tget st.coll.tbl (Coll.handleName (st.coll.next + 1)) = none)
    (hne : a ≠ Coll.handleName st.coll.next) (hok : ArgOK a = true)
    (hstale : NoStaleFor sScope st.forStack)
    (hcI : IfCacheOK st.ifMeta "scope::set_from_array::1".toList 3)
    (hcF : CacheOK st.forMeta "scope::set_from_array::6".toList 8) :
    aliasRun handleOps 1 (scriptBody (bodySem (F + 2) (depth + 2) sfaIs) (fun _ => false)
      (fuel + 3 * arrLen st.coll.tbl a + 8) sfaIs) sScope (a :: rest) vars st =
      match tget st.coll.tbl a with
      | some (.list L) => (.continue (some (Coll.handleName (st.coll.next + 1))), clear sScope vars,
          sfaOkFinal (a :: rest) st L)
      | _ => (.error sMsg, clear sScope vars, sfaErrFinal (a :: rest) st) := by
  have ha : Vars.get (pubVars sScope (a :: rest) vars st) sArg1 = some a := by
    rw [show sArg1 = argKey sScope 1 by decide, get_pubVars_arg]
    exact get_publishArgs_first sScope a rest 0 vars
  have hpub : tget (pubSt sScope (a :: rest) st).coll.tbl a = tget st.coll.tbl a := by
    simp only [pubSt, tget_tinsert]
    rw [if_neg hne]
  have hnl : (∀ l, tget st.coll.tbl a ≠ some (.list l)) →
      aliasRun handleOps 1 (scriptBody (bodySem (F + 2) (depth + 2) sfaIs) (fun _ => false)
        (fuel + 3 * arrLen st.coll.tbl a + 8) sfaIs) sScope (a :: rest) vars st =
      (.error sMsg, clear sScope vars, sfaErrFinal (a :: rest) st) := by
    intro hnl
    have hlen : arrLen st.coll.tbl a = 0 := by
      unfold arrLen
      cases hv : tget st.coll.tbl a with
      | none => rfl
      | some v =>
        cases v with
        | list l => exact absurd hv (hnl l)
        | _ => rfl
    have hbody := sfa_body_err F depth (pubSt sScope (a :: rest) st) (pubVars sScope (a :: rest) vars st) a hok ha
      hcI (by rw [hpub]; exact hnl) (fuel + 5)
    rw [hlen]
    rw [aliasRun_handleOps 1 _ sScope (a :: rest) vars st (by simp) (by simp) _ _ _ hbody rfl]
    rfl
  cases hv : tget st.coll.tbl a with
  | none => exact hnl (by intro l; rw [hv]; intro e; cases e)
  | some v =>
    cases v with
    | list L =>
      have hlen : arrLen st.coll.tbl a = L.length := by simp [arrLen, hv]
      obtain ⟨vars', hbody, _, hclr⟩ := sfa_body_ok F depth (pubSt sScope (a :: rest) st)
        (pubVars sScope (a :: rest) vars st) a L hok rfl ha hcI hcF hstale (by rw [hpub]; exact hv)
        (by simp only [pubSt, tget_tinsert]
            rw [if_neg (by intro e; have := congrArg List.length e; simp [Coll.handleName, handlePrefix] at this
                           exact absurd (Nat.repr_injective (String.toList_inj.mp (List.append_cancel_left e))) (by omega))]
            exact hfree1)
        fuel
      rw [hlen]
      rw [aliasRun_handleOps 1 _ sScope (a :: rest) vars st (by simp) (by simp) _ _ _ hbody hclr]
      rfl
    | map m => exact hnl (by intro l; rw [hv]; intro e; cases e)
    | set x => exact hnl (by intro l; rw [hv]; intro e; cases e)
    | other g => exact hnl (by intro l; rw [hv]; intro e; cases e)

/-- the closed form of `set_from_array` run from source -/
theorem sfa_runF (depth fuel : Nat) (a : Str) (rest : List Str) (vars : Vars) (st : ScriptSt)
    (hfree : tget st.coll.tbl (Coll.handleName st.coll.next) = none)
    (hfree1 : tget st.coll.tbl (Coll.handleName (st.coll.next + 1)) = none)
    (hne : a ≠ Coll.handleName st.coll.next) (hok : ArgOK a = true)
    (hstale : NoStaleFor sScope st.forStack)
    (hcI : IfCacheOK st.ifMeta "scope::set_from_array::1".toList 3)
    (hcF : CacheOK st.forMeta "scope::set_from_array::6".toList 8) :
    runScriptCmdF (depth + 2) (fuel + 3 * arrLen st.coll.tbl a + 8) "set_from_array".toList (a :: rest) vars st =
      match tget st.coll.tbl a with
      | some (.list L) => (.continue (some (Coll.handleName (st.coll.next + 1))), clear sScope vars,
          sfaOkFinal (a :: rest) st L)
      | _ => (.error sMsg, clear sScope vars, sfaErrFinal (a :: rest) st) := by
  rw [runScriptCmdF_entry (depth + 2) _ "set_from_array".toList cmd_collections_set_from_array _ sfa_findScript sfa_parses]
  exact sfa_alias (fuel + 3 * arrLen st.coll.tbl a + 6) depth fuel a rest vars st hfree hfree1 hne hok hstale hcI hcF

theorem setPutAll_inv (T0 : Table) (hS : Str) : ∀ (xs : List Str) (T : Table) (acc : List Str),
    SInvT T0 hS T acc → SInvT T0 hS (setPutAll hS T acc xs) (xs.foldl sinsert acc)
  | [], _, _, h => h
  | x :: xs, T, acc, h => by
    apply setPutAll_inv T0 hS xs
    refine ⟨by rw [tget_tinsert, if_pos rfl], ?_⟩
    intro k hk
    rw [tget_tinsert, if_neg hk, tget_tremove, if_neg hk, h.other k hk]

theorem sfaTbl_inv (s : ScriptSt) (L : List Item) :
    SInvT (tinsert s.coll.tbl (Coll.handleName s.coll.next) (.set [])) (Coll.handleName s.coll.next) (sfaTbl s L)
      ((L.map Item.render).foldl sinsert []) :=
  setPutAll_inv _ _ _ _ _ ⟨by rw [tget_tinsert, if_pos rfl], fun _ _ => rfl⟩

/-- is the first argument a live array -/
def headIsArray (t : Table) (args : List Str) : Bool :=
  match args with
  | a :: _ => (match tget t a with | some (.list _) => true | _ => false)
  | [] => false

end Duck.ScriptRun
