/-
  Lemmas relating the index-faithful parser model (ParserIndexed.lean) to the suffix
  model (Parser.lean).

  Dictionary: the suffix `r` of `line` stands for the index `line.length - r.length`
  (`liftIdx`); every "what is left" returned by the suffix model is a suffix of its input
  (`…_suffix`), so `line.drop (line.length - r.length) = r`.
-/
import DuckModel.ParserIndexed

namespace Duck

/-! ### lists -/

theorem drop_resIdx {line r : Str} (h : r <:+ line) : line.drop (line.length - r.length) = r :=
  (List.suffix_iff_eq_drop.mp h).symm

theorem suffix_of_drop {line r : Str} {i : Nat} (h : r <:+ line.drop i) : r <:+ line :=
  h.trans (List.drop_suffix i line)

theorem resIdx_le (line r : Str) : line.length - r.length ≤ line.length := Nat.sub_le _ _

theorem resIdx_drop (line : Str) {i : Nat} (h : i ≤ line.length) :
    line.length - (line.drop i).length = i := by
  rw [List.length_drop]; omega

theorem decr_succ (i : Nat) : decr (i + 1) = some i := by simp [decr]

theorem rd_lt {line : Str} {i : Nat} (h : i < line.length) : rd line i = some line[i] := by
  simp [rd, h]

theorem rd_none_iff {line : Str} {i : Nat} : rd line i = none ↔ line.length ≤ i := by
  simp [rd]

/-! ### lifting -/

/-- lift of a suffix-model result whose first component is "what is left" -/
def liftIdx (line : Str) {α : Type} : Except PErr (Str × α) → IOut (Nat × α)
  | .ok (r, v) => .ok (line.length - r.length, v)
  | .error e => .err e

theorem liftE_ne_panic {α : Type} (x : Except PErr α) : liftE x ≠ .panic := by
  cases x <;> simp [liftE]

theorem liftIdx_ne_panic (line : Str) {α : Type} (x : Except PErr (Str × α)) :
    liftIdx line x ≠ .panic := by
  rcases x with e | ⟨r, v⟩ <;> simp [liftIdx]

/-! ### "what is left" is a suffix of the input (suffix model) -/

theorem pvStep_brk_suffix {fl : PVFlags} {st st' : PVSt} {c : Char} {rest r : Str} {fe : Bool}
    (h : pvStep fl st c rest = .brk st' r fe) : r <:+ c :: rest := by
  unfold pvStep at h
  repeat' split at h
  all_goals first
    | (cases h; first | exact List.nil_suffix | exact List.suffix_cons _ _ | exact List.suffix_refl _)
    | cases h

theorem pvLoop_suffix (fl : PVFlags) : ∀ (l : Str) (st st' : PVSt) (r : Str) (fe : Bool),
    pvLoop fl st l = .ok (st', r, fe) → r <:+ l := by
  intro l
  induction l with
  | nil =>
    intro st st' r fe h
    simp [pvLoop] at h
    rw [← h.2.1]
    exact List.suffix_refl _
  | cons c rest ih =>
    intro st st' r fe h
    rw [pvLoop] at h
    cases hs : pvStep fl st c rest with
    | cont st2 =>
      rw [hs] at h
      exact (ih st2 st' r fe h).trans (List.suffix_cons _ _)
    | brk st2 r2 fe2 =>
      rw [hs] at h
      simp at h
      obtain ⟨_, rfl, _⟩ := h
      exact pvStep_brk_suffix hs
    | err e => rw [hs] at h; simp at h

theorem pvFinish_rest {st : PVSt} {r r' : Str} {fe : Bool} {v : Option Str}
    (h : pvFinish st r fe = .ok (r', v)) : r' = r := by
  unfold pvFinish at h
  repeat' split at h
  all_goals first | (cases h; rfl) | cases h

theorem parseNextValue_suffix {fl : PVFlags} {l r : Str} {v : Option Str}
    (h : parseNextValue fl l = .ok (r, v)) : r <:+ l := by
  cases l with
  | nil =>
    simp [parseNextValue] at h
    rw [← h.1]; exact List.suffix_refl _
  | cons c rest =>
    simp only [parseNextValue] at h
    cases hl : pvLoop fl {} (c :: rest) with
    | error e => rw [hl] at h; simp at h
    | ok x =>
      obtain ⟨st, r2, fe⟩ := x
      rw [hl] at h
      simp only at h
      rw [pvFinish_rest h]
      exact pvLoop_suffix fl _ _ _ _ _ hl

/-- outside an argument the step either stops at once (leaving the state as it is),
    or goes on, or fails -/
theorem pvStep_notInArg (fl : PVFlags) (st : PVSt) (c : Char) (rest : Str) (h : st.inArg = false) :
    pvStep fl st c rest = .brk st [] false ∨ (∃ st2, pvStep fl st c rest = .cont st2) ∨
      (∃ e, pvStep fl st c rest = .err e) := by
  unfold pvStep
  simp only [h, Bool.false_eq_true, ↓reduceIte]
  repeat' split
  all_goals simp

/-- a scan that starts outside an argument and ends in a different state consumed something -/
theorem pvLoop_progress (fl : PVFlags) (l : Str) (st st' : PVSt) (r : Str) (fe : Bool)
    (hin : st.inArg = false) (h : pvLoop fl st l = .ok (st', r, fe)) :
    st' = st ∨ r.length < l.length := by
  cases l with
  | nil => simp [pvLoop] at h; exact Or.inl h.1.symm
  | cons c rest =>
    rw [pvLoop] at h
    rcases pvStep_notInArg fl st c rest hin with hs | ⟨st2, hs⟩ | ⟨e, hs⟩
    · rw [hs] at h; simp at h; exact Or.inl h.1.symm
    · rw [hs] at h
      have := (pvLoop_suffix fl _ _ _ _ _ h).length_le
      right; simp only [List.length_cons]; omega
    · rw [hs] at h; simp at h

/-- a value costs at least one character -/
theorem parseNextValue_some_lt {fl : PVFlags} {l r a : Str}
    (h : parseNextValue fl l = .ok (r, some a)) : r.length < l.length := by
  cases l with
  | nil => simp [parseNextValue] at h
  | cons c rest =>
    simp only [parseNextValue] at h
    cases hl : pvLoop fl {} (c :: rest) with
    | error e => rw [hl] at h; simp at h
    | ok x =>
      obtain ⟨st, r2, fe⟩ := x
      rw [hl] at h
      simp only at h
      have hr := pvFinish_rest h
      subst hr
      rcases pvLoop_progress fl _ _ _ _ _ rfl hl with hst | hlt
      · subst hst; simp [pvFinish] at h
      · exact hlt

theorem findLabel_suffix : ∀ (l : Str) {r : Str} {v : Option Str},
    findLabel l = .ok (r, v) → r <:+ l := by
  intro l
  induction l with
  | nil => intro r v h; simp [findLabel] at h; rw [← h.1]; exact List.suffix_refl _
  | cons c rest ih =>
    intro r v h
    rw [findLabel] at h
    split at h
    · cases hp : parseNextValue nameFlags rest with
      | error e => rw [hp] at h; simp at h
      | ok x =>
        obtain ⟨r2, v2⟩ := x
        have hs := (parseNextValue_suffix hp).trans (List.suffix_cons c rest)
        rw [hp] at h
        cases v2 with
        | none => simp at h; rw [← h.1]; exact hs
        | some w =>
          simp only at h
          split at h
          · simp at h
          · simp at h; rw [← h.1]; exact hs
    · split at h
      · simp at h; rw [← h.1]; exact List.suffix_refl _
      · exact (ih h).trans (List.suffix_cons _ _)

theorem skipToEquals_suffix : ∀ l : Str, (skipToEquals l).2 <:+ l := by
  intro l
  induction l with
  | nil => simp [skipToEquals]
  | cons c rest ih =>
    rw [skipToEquals]
    split
    · exact List.suffix_cons _ _
    · exact ih.trans (List.suffix_cons _ _)

theorem findOutputAndCommand_suffix {l r : Str} {x : Option Str × Option Str}
    (h : findOutputAndCommand l = .ok (r, x)) : r <:+ l := by
  unfold findOutputAndCommand at h
  cases hp : parseNextValue outputFlags l with
  | error e => rw [hp] at h; simp at h
  | ok y =>
    obtain ⟨r1, v1⟩ := y
    have hs1 := parseNextValue_suffix hp
    rw [hp] at h
    cases v1 with
    | none => simp at h; rw [← h.1]; exact hs1
    | some v =>
      simp only at h
      have hs2 := (skipToEquals_suffix r1).trans hs1
      cases hk : skipToEquals r1 with
      | mk b afterEq =>
        rw [hk] at h hs2
        cases b with
        | false => simp at h; rw [← h.1]; exact hs1
        | true =>
          simp only at h
          cases hq : parseNextValue nameFlags afterEq with
          | error e => rw [hq] at h; simp at h
          | ok z =>
            obtain ⟨r2, v2⟩ := z
            rw [hq] at h
            cases v2 with
            | none => simp at h; rw [← h.1]; exact hs2
            | some w => simp at h; rw [← h.1]; exact (parseNextValue_suffix hq).trans hs2

theorem ppCommand_suffix : ∀ (l acc : Str), (ppCommand acc l).2 <:+ l := by
  intro l
  induction l with
  | nil => intro acc; simp [ppCommand]
  | cons c rest ih =>
    intro acc
    rw [ppCommand]
    split
    · split
      · exact (ih acc).trans (List.suffix_cons _ _)
      · exact List.suffix_cons _ _
    · exact (ih _).trans (List.suffix_cons _ _)

/-! ### `parse_next_value` -/

/-- the index state that corresponds to a suffix-model state -/
def IPV.ofSt (st : PVSt) (index : Nat) (fe : Bool) : IPV :=
  { argument := st.arg, index := index, inArgument := st.inArg, usingQuotes := st.usingQuotes,
    inControl := st.inControl, foundEnd := fe, foundVariablePrefix := st.foundVar }

def liftPVStep (len i : Nat) : PVStep → IStep IPV
  | .cont st' => .next (IPV.ofSt st' (i + 1) false)
  | .brk st' r fe => .brk (IPV.ofSt st' (len - r.length) fe)
  | .err e => .err e

/-- one iteration: the index body does what the suffix step does -/
theorem ipvBody_refines (fl : PVFlags) (line : Str) (st : PVSt) (i : Nat) (c : Char) (rest : Str)
    (hc : rd line i = some c) (hrest : rest.length + (i + 1) = line.length) :
    ipvBody fl line line.length (IPV.ofSt st i false) =
      liftPVStep line.length i (pvStep fl st c rest) := by
  have e1 : line.length - rest.length = i + 1 := by omega
  have e2 : line.length - (rest.length + 1) = i := by omega
  obtain ⟨arg, inArg, uq, ic, fv⟩ := st
  cases inArg <;> cases uq <;> cases ic <;> cases fv <;>
    simp only [ipvBody, pvStep, IPV.ofSt, hc, decr_succ, apply_ite (liftPVStep line.length i),
      Bool.false_eq_true, ↓reduceIte, false_and, true_and] <;>
    (repeat' (split <;> try simp only [*])) <;>
    simp_all [liftPVStep, IPV.ofSt]

theorem ipv_loop_refines (fl : PVFlags) (line : Str) : ∀ (n i : Nat) (st : PVSt),
    i + n = line.length →
    iFor (ipvBody fl line line.length) n (IPV.ofSt st i false) =
      match pvLoop fl st (line.drop i) with
      | .error e => .err e
      | .ok (st', r, fe) => .ok (IPV.ofSt st' (line.length - r.length) fe) := by
  intro n
  induction n with
  | zero =>
    intro i st h
    have : line.drop i = [] := List.drop_of_length_le (by omega)
    have hi : line.length - 0 = i := by omega
    simp only [this, pvLoop, iFor, List.length_nil, hi]
  | succ n ih =>
    intro i st h
    have hi : i < line.length := by omega
    rw [List.drop_eq_getElem_cons hi, pvLoop, iFor,
      ipvBody_refines fl line st i line[i] (line.drop (i + 1)) (rd_lt hi)
        (by rw [List.length_drop]; omega)]
    cases hs : pvStep fl st line[i] (line.drop (i + 1)) with
    | cont st2 => simp only [liftPVStep]; exact ih (i + 1) st2 (by omega)
    | brk st2 r fe => simp only [liftPVStep]
    | err e => simp only [liftPVStep]

theorem ipvFinish_refines (line : Str) (st : PVSt) (r : Str) (fe : Bool) :
    ipvFinish (IPV.ofSt st (line.length - r.length) fe) = liftIdx line (pvFinish st r fe) := by
  unfold ipvFinish pvFinish
  simp only [IPV.ofSt, apply_ite (liftIdx line)]
  repeat' (split <;> try simp only [*])
  all_goals simp_all [liftIdx]

/-- beyond the end of the line `parse_next_value` answers at once -/
theorem iParseNextValue_beyond (fl : PVFlags) (line : Str) (start : Nat) (h : line.length ≤ start) :
    iParseNextValue fl line start = .ok (start, none) := by
  simp [iParseNextValue, h]

theorem iParseNextValue_refines (fl : PVFlags) (line : Str) (start : Nat) (h : start ≤ line.length) :
    iParseNextValue fl line start = liftIdx line (parseNextValue fl (line.drop start)) := by
  by_cases he : start = line.length
  · subst he
    rw [iParseNextValue_beyond fl line _ (Nat.le_refl _), List.drop_length]
    simp [parseNextValue, liftIdx]
  · have hlt : start < line.length := by omega
    have hloop := ipv_loop_refines fl line (line.length - start) start {} (by omega)
    have hofs : (IPV.ofSt {} start false) = { index := start } := rfl
    rw [hofs] at hloop
    unfold iParseNextValue
    simp only [ge_iff_le, Nat.not_le.mpr hlt, ↓reduceIte, hloop]
    rw [List.drop_eq_getElem_cons hlt] at *
    simp only [parseNextValue]
    cases hl : pvLoop fl {} (line[start] :: line.drop (start + 1)) with
    | error e => simp [liftIdx]
    | ok x =>
      obtain ⟨st, r, fe⟩ := x
      simp only
      exact ipvFinish_refines line st r fe

end Duck
