/-
  Helper lemmas for the C04 simulation theorem — part 8: while loops and for/in loops.
-/
import DuckModel.Lemmas.SimIf

namespace Duck
open Duck.Spec Duck.Generated

/-! ### while -/

theorem stmt_while (is : List Instruction) (fuel : Nat) (hB : BlockSim is fuel)
    (kw : Str) (cond : List Str) (body : Block) (kwEnd : Str)
    (hW : StmtSimFor is fuel (.whileLoop kw cond body kwEnd)) :
    StmtSimFor is (fuel + 1) (.whileLoop kw cond body kwEnd) := by
  intro lo s t t' hwf hs hat hc hrel hfor hsafe hex
  have hnf := Stmt.noFn_of_simple2 _ hs
  have hscan : findCommands whileTables is (lo + 1) = .ok ⟨[], lo + 1 + body.flatten.length⟩ := by
    obtain ⟨pre, post, hpl, his⟩ := hat
    have := C04_scan_while pre post kw cond body kwEnd hwf hnf
    simp only at this
    rw [hpl, ← his] at this
    rw [this]
    simp only [flatten_while, List.length_cons, List.length_append, List.length_nil]
    congr 2
    omega
  have hat0 := hat
  have hwf0 := hwf
  have hs0 := hs
  have hfor0 := hfor
  rw [flatten_while] at hat
  simp only [flatten_while, List.length_cons, List.length_append, List.length_nil] at hfor ⊢
  simp only [Stmt.wf, Stmt.simple2, Bool.and_eq_true] at hwf hs
  obtain ⟨⟨hkw, hbwf⟩, hkend⟩ := hwf
  obtain ⟨hcs, hbs⟩ := hs
  have hi := At.head hat
  have hat' := At.tail hat
  generalize hstopdef : lo + 1 + body.flatten.length = stop at hscan
  have hhi : lo + (body.flatten.length + (0 + 1) + 1) = stop + 1 := by omega
  rw [hhi] at hfor ⊢
  cases fuel with
  | zero => simp [execStmt, evalCond] at hex
  | succ f =>
    simp only [execStmt] at hex
    simp only [safeStmt, Bool.and_eq_true] at hsafe
    obtain ⟨hcsafe, hsafe'⟩ := hsafe
    cases hec : evalCond is (f + 1) cond t with
    | none => rw [hec] at hex; simp at hex
    | some pr =>
      obtain ⟨bv, t1⟩ := pr
      rw [hec] at hex hsafe'
      obtain ⟨em, rfl, hbne, hev⟩ := cond_sim is f cond t t1 bv hcs hcsafe hrel.tfns hrel.tsfns hec
      have hv : CondSays is (bind t.vars (some cond)) t.vars s.emitted bv em :=
        ⟨hbne, fun f' hf' s' h1 h2 => hev f' hf' is s' h1 (h2.trans hrel.emitted)⟩
      cases bv with
      | false =>
        simp only [TOut.normal.injEq] at hex
        subst hex
        obtain ⟨M, hstep1, hcache1⟩ := step_while_false is lo t.vars s _ kw cond [] stop em hi hkw
          hrel.sfns hc hscan hv
        exact ⟨_, hstep1,
          SimCore.opener stop fullNameEndWhile (hcache1.of_eq rfl rfl rfl rfl) hrel rfl rfl rfl rfl rfl
            rfl (by omega) (by omega),
          Garb.refl _ _ _ _, Garb.refl _ _ _ _, rfl⟩
      | true =>
        simp only [Bool.and_eq_true] at hex hsafe'
        cases hb : execBlock is (f + 1) body (withEm t em) with
        | returning v t1 => rw [hb] at hex; simp at hex
        | failed => rw [hb] at hex; simp at hex
        | outOfFuel => rw [hb] at hex; simp at hex
        | normal t1 =>
          rw [hb] at hex
          have hsafe2 := hsafe'.2
          rw [hb] at hsafe2
          simp only at hex hsafe2
          obtain ⟨M, hstep1, hcache1⟩ := step_while_true is lo t.vars s _ kw cond [] stop em hi hkw
            hrel.sfns hc hscan hv
          have hopen : SimCore is lo (stop + 1)
              (fun x => Stmt.assigns x (.whileLoop kw cond body kwEnd)) s t (withEm t em)
              { s with whileMeta := M, endTable := s.endTable.put (lineKey s stop) fullNameEndWhile,
                       emitted := em,
                       whileStack := { start := lo, stop := stop, ctx := s.lineCtx } :: s.whileStack } :=
            SimCore.opener stop fullNameEndWhile (hcache1.of_eq rfl rfl rfl rfl) hrel rfl rfl rfl rfl rfl
              rfl (by omega) (by omega)
          obtain ⟨s2, hst2, hcore2, hif2, hwh2, hfor2⟩ :=
            hB body (lo + 1)
              { s with whileMeta := M, endTable := s.endTable.put (lineKey s stop) fullNameEndWhile,
                       emitted := em,
                       whileStack := { start := lo, stop := stop, ctx := s.lineCtx } :: s.whileStack }
              (withEm t em) t1 hbwf hbs hat'.left hopen.cache hopen.rel
              (hfor.mono (by omega) (by omega)) hsafe'.1 hb
          rw [hstopdef] at hst2 hcore2 hif2 hwh2
          obtain ⟨G, hG1, hG2⟩ := hwh2
          have hend2 : s2.endTable.get (lineKey s2 stop) = some fullNameEndWhile := by
            rw [lineKey_congr hcore2.frame.ctx, hcore2.frame.endT stop (.inr (by omega))]
            exact KV.get_put_self _ _ _
          have hiend := At.head hat'.right
          rw [hstopdef] at hiend
          have hstep3 := step_endWhile is stop t1.vars s2 _ kwEnd G
            { start := lo, stop := stop, ctx := s.lineCtx } s.whileStack hiend hkend hend2 hG1 rfl
            (hcore2.frame.ctx).symm (fun e he => by have := hG2 e he; omega)
          simp only at hstep3
          obtain ⟨s4, hst4, hcore4, hif4, hwh4, hfor4⟩ :=
            hW lo { s2 with whileStack := { start := lo, stop := stop, ctx := s.lineCtx } :: s.whileStack }
              t1 t' hwf0 hs0 hat0 (hcore2.cache.of_eq rfl rfl rfl rfl) (hcore2.rel.of_eq rfl rfl rfl rfl)
              (by
                have : ({ s2 with whileStack := { start := lo, stop := stop, ctx := s.lineCtx } ::
                    s.whileStack } : Sdk).forStack = s.forStack := hfor2
                rw [this]; exact hfor0) hsafe2 hex
          simp only [flatten_while, List.length_cons, List.length_append, List.length_nil] at hst4 hcore4 hif4 hwh4
          rw [hhi] at hst4 hcore4 hif4 hwh4
          refine ⟨s4, ((hstep1.trans hst2).trans hstep3).trans hst4, ?_, ?_, ?_, ?_⟩
          · refine (hopen.trans (hcore2.mono' (by omega) (by omega) ?_)).trans (hcore4.core_left rfl)
            intro x hx
            simp only [Stmt.assigns] at hx
            exact hx
          · exact (hif2.mono (by omega) (by omega)).trans hif4
          · exact Garb.cons _ hwh4 (by simp only; omega)
          · rw [hfor4]; exact hfor2

/-! ### binding of the for line -/

theorem handleVar_inv {w hn : Str} (h : handleVar? w = some hn) :
    w = '$' :: '{' :: (hn ++ ['}']) ∧ KeyOK hn := by
  unfold handleVar? at h
  split at h
  · rename_i rest
    split at h
    · rename_i nameRev hrev
      dsimp only at h
      split at h
      · rename_i hcond
        injection h with h
        subst h
        have hrest : rest = nameRev.reverse ++ ['}'] := by
          have := congrArg List.reverse hrev
          simpa using this
        refine ⟨by rw [hrest], ?_⟩
        simp only [Bool.and_eq_true, List.all_eq_true] at hcond
        intro c hc
        have := hcond.2 c hc
        simp at this
        obtain ⟨⟨⟨⟨⟨⟨⟨⟨⟨_, _⟩, _⟩, h4⟩, _⟩, h6⟩, h7⟩, h8⟩, h9⟩, h10⟩ := this
        exact ⟨h4, h6, h7, h8, h9, h10⟩
      · cases h
    · cases h
  · cases h

theorem bind_handle (vars : Vars) (w hn : Str) (h : handleVar? w = some hn) :
    bind vars (some [w]) = [(vars.get hn).getD []] := by
  obtain ⟨rfl, hk⟩ := handleVar_inv h
  have := bind_templates vars [[Seg.var hn]] (by
    intro t ht s hs
    simp at ht
    subst ht
    simp at hs
    subst hs
    exact hk)
  simpa [renderTemplate, Seg.render, tmplValue, Seg.value] using this

theorem bind_for (vars : Vars) (x w hn : Str) (hx : isLiteral x = true) (h : handleVar? w = some hn) :
    bind vars (some [x, "in".toList, w]) = [x, "in".toList, (vars.get hn).getD []] := by
  rw [bind_cons_literal vars x _ hx, bind_cons_literal vars "in".toList _ (by decide),
    bind_handle vars w hn h]

theorem get_bind_idx (o : Option (List Str)) (k : Nat) :
    o.bind (fun l => l[k]?) = (o.getD [])[k]? := by
  cases o <;> simp

/-! ### for/in -/

/-- the machine stands on the `for` line with the loop's own entry on top of the for stack -/
def ForSim (is : List Instruction) (fuel : Nat) : Prop :=
  ∀ (kw x handle hn : Str) (body : Block) (kwEnd : Str) (lo : Nat) (own : ForCall) (K : List ForCall)
    (L items : List Str) (s : Sdk) (t t' : TState),
    isForKw kw = true → body.wf = true → isEndForKw kwEnd = true → isLiteral x = true →
    body.simple2 = true → handleVar? handle = some hn → x ≠ hn → body.assigns hn = false →
    At is lo (Stmt.forIn kw x handle body kwEnd).flatten →
    s.forStack = own :: K → own.start = lo → own.stop = lo + 1 + body.flatten.length →
    own.ctx = s.lineCtx →
    (t.sdk.handles.get ((t.vars.get hn).getD [])).getD [] = L → L.drop own.iteration = items →
    s.endTable.get (lineKey s (lo + 1 + body.flatten.length)) = some fullNameEndForIn →
    CacheOK is s → Rel s t → ForOK lo (lo + 1 + body.flatten.length + 1) K →
    safeFor is fuel x items body t = true →
    execFor is fuel x items body t = .normal t' →
    ∃ s', Steps is lo t.vars s (lo + 1 + body.flatten.length + 1) t'.vars s' ∧
      SimCore is lo (lo + 1 + body.flatten.length + 1) (fun y => x == y || Block.assigns y body) s t t' s' ∧
      Garb IfCall.current lo (lo + 1 + body.flatten.length + 1) s.ifStack s'.ifStack ∧
      Garb WhileCall.stop lo (lo + 1 + body.flatten.length + 1) s.whileStack s'.whileStack ∧
      s'.forStack = K

/-- one pass through the body (the loop variable is already set), the end line, and the rest of
    the loop -/
theorem for_iter (is : List Instruction) (f : Nat) (hB : BlockSim is f) (hF : ForSim is f)
    (kw x handle hn : Str) (body : Block) (kwEnd : Str) (lo : Nat) (own : ForCall) (K : List ForCall)
    (L rest : List Str) (s1 : Sdk) (t0 t1 t' : TState)
    (hkw : isForKw kw = true) (hbwf : body.wf = true) (hkend : isEndForKw kwEnd = true)
    (hx : isLiteral x = true) (hbs : body.simple2 = true) (hh : handleVar? handle = some hn)
    (hxn : x ≠ hn) (hbn : body.assigns hn = false)
    (hat : At is lo (Stmt.forIn kw x handle body kwEnd).flatten)
    (hst : s1.forStack = own :: K) (hos : own.start = lo)
    (hop : own.stop = lo + 1 + body.flatten.length) (hctx : own.ctx = s1.lineCtx)
    (hL : t0.sdk.handles.get ((t0.vars.get hn).getD []) = some L) (hdrop : L.drop own.iteration = rest)
    (hend : s1.endTable.get (lineKey s1 (lo + 1 + body.flatten.length)) = some fullNameEndForIn)
    (hc : CacheOK is s1) (hrel : Rel s1 t0) (hfor : ForOK lo (lo + 1 + body.flatten.length + 1) K)
    (hsb : safeBlock is f body t0 = true) (hsr : safeFor is f x rest body t1 = true)
    (hb : execBlock is f body t0 = .normal t1) (hr : execFor is f x rest body t1 = .normal t') :
    ∃ s', Steps is (lo + 1) t0.vars s1 (lo + 1 + body.flatten.length + 1) t'.vars s' ∧
      SimCore is lo (lo + 1 + body.flatten.length + 1) (fun y => x == y || Block.assigns y body) s1 t0 t' s' ∧
      Garb IfCall.current lo (lo + 1 + body.flatten.length + 1) s1.ifStack s'.ifStack ∧
      Garb WhileCall.stop lo (lo + 1 + body.flatten.length + 1) s1.whileStack s'.whileStack ∧
      s'.forStack = K := by
  have hat0 := hat
  rw [flatten_for] at hat
  have hat' := At.tail hat
  obtain ⟨s2, hst2, hcore2, hif2, hwh2, hfor2⟩ :=
    hB body (lo + 1) s1 t0 t1 hbwf hbs hat'.left hc hrel
      (by
        rw [hst]
        intro e he
        rcases List.mem_cons.mp he with rfl | he
        · omega
        · have := hfor e he; omega) hsb hb
  have hend2 : s2.endTable.get (lineKey s2 (lo + 1 + body.flatten.length)) = some fullNameEndForIn := by
    rw [lineKey_congr hcore2.frame.ctx, hcore2.frame.endT _ (.inr (by omega))]
    exact hend
  have hiend := At.head hat'.right
  have hstep3 := step_endFor is (lo + 1 + body.flatten.length) t1.vars s2 _ kwEnd own K hiend hkend hend2
    (hfor2.trans hst) hop (hctx.trans (hcore2.frame.ctx).symm)
  rw [hos] at hstep3
  have hvar : t1.vars.get hn = t0.vars.get hn := hcore2.varsF hn hbn
  obtain ⟨s4, hst4, hcore4, hif4, hwh4, hfor4⟩ :=
    hF kw x handle hn body kwEnd lo own K L rest s2 t1 t' hkw hbwf hkend hx hbs hh hxn hbn hat0
      (hfor2.trans hst) hos hop (hctx.trans (hcore2.frame.ctx).symm)
      (by rw [hvar, hcore2.mono _ _ hL]; rfl) hdrop hend2 hcore2.cache hcore2.rel hfor hsr hr
  refine ⟨s4, (hst2.trans hstep3).trans hst4, ?_, ?_, ?_, hfor4⟩
  · refine (hcore2.mono' (by omega) (by omega) ?_).trans hcore4
    intro y hy
    simp only [Bool.or_eq_false_iff] at hy
    exact hy.2
  · exact (hif2.mono (by omega) (by omega)).trans hif4
  · exact (hwh2.mono (by omega) (by omega)).trans hwh4

theorem drop_some_of_ne {o : Option (List Str)} {L : List Str} {k : Nat} {a : Str} {tl : List Str}
    (hL : o.getD [] = L) (hd : L.drop k = a :: tl) : o = some L := by
  cases o with
  | none => simp at hL; subst hL; simp at hd
  | some l => simp at hL; rw [hL]

theorem for_step (is : List Instruction) (f : Nat) (hB : BlockSim is f) (hF : ForSim is f) :
    ForSim is (f + 1) := by
  intro kw x handle hn body kwEnd lo own K L items s t t' hkw hbwf hkend hx hbs hh hxn hbn hat hst hos
    hop hctx hL hdrop hend hc hrel hfor hsafe hex
  have hat0 := hat
  rw [flatten_for] at hat
  have hi := At.head hat
  have hbind := bind_for t.vars x handle hn hx hh
  have hidx : (s.handles.get ((t.vars.get hn).getD [])).bind (fun l => l[own.iteration]?) =
      L[own.iteration]? := by
    rw [get_bind_idx, hrel.handles, hL]
  cases items with
  | nil =>
    simp only [execFor, TOut.normal.injEq] at hex
    subst hex
    have hnone : L[own.iteration]? = none := by
      have := drop_nil_facts L own.iteration hdrop
      exact List.getElem?_eq_none (by omega)
    have hstep := step_for_next_none is lo t.vars s _ kw x handle _ own K hi hkw hbind hst hos hctx
      (hidx.trans hnone)
    rw [hop] at hstep
    exact ⟨_, hstep, (SimCore.refl hc hrel).core_right rfl, Garb.refl _ _ _ _, Garb.refl _ _ _ _, rfl⟩
  | cons val rest =>
    obtain ⟨hlt, hget, hdrop'⟩ := drop_cons_facts L own.iteration val rest hdrop
    have hLsome := drop_some_of_ne hL hdrop
    have hstep := step_for_next_some is lo t.vars s _ kw x handle _ own K val hi hkw hbind hst hos hctx
      (hidx.trans hget)
    simp only [execFor] at hex
    simp only [safeFor, Bool.and_eq_true] at hsafe
    cases hb : execBlock is f body { t with vars := t.vars.set x val } with
    | returning v t1 => rw [hb] at hex; simp at hex
    | failed => rw [hb] at hex; simp at hex
    | outOfFuel => rw [hb] at hex; simp at hex
    | normal t1 =>
      rw [hb] at hex
      have hsafe2 := hsafe.2
      rw [hb] at hsafe2
      simp only at hex hsafe2
      have hvar0 : (t.vars.set x val).get hn = t.vars.get hn := Vars.get_set_ne _ _ _ _ hxn
      obtain ⟨s4, hst4, hcore4, hif4, hwh4, hfor4⟩ :=
        for_iter is f hB hF kw x handle hn body kwEnd lo
          { own with iteration := own.iteration + 1, ctx := s.lineCtx } K L rest
          { s with forStack := { own with iteration := own.iteration + 1, ctx := s.lineCtx } :: K }
          { t with vars := t.vars.set x val } t1 t' hkw hbwf hkend hx hbs hh hxn hbn hat0 rfl hos hop rfl
          (by simp only; rw [hvar0]; exact hLsome) hdrop' hend (hc.of_eq rfl rfl rfl rfl)
          ⟨hrel.handles, hrel.next, hrel.emitted, hrel.sfns, hrel.tsfns, hrel.tfns, hrel.hok⟩ hfor
          hsafe.1 hsafe2 hb hex
      refine ⟨s4, hstep.trans hst4, ?_, hif4, hwh4, hfor4⟩
      have h0 : SimCore is lo (lo + 1 + body.flatten.length + 1) (fun y => x == y || Block.assigns y body)
          s t { t with vars := t.vars.set x val }
          { s with forStack := { own with iteration := own.iteration + 1, ctx := s.lineCtx } :: K } := by
        refine ⟨hc.of_eq rfl rfl rfl rfl,
          ⟨hrel.handles, hrel.next, hrel.emitted, hrel.sfns, hrel.tsfns, hrel.tfns, hrel.hok⟩,
          Frame.of_eq rfl rfl rfl, fun _ _ h => h, ?_⟩
        intro y hy
        simp only [Bool.or_eq_false_iff, beq_eq_false_iff_ne] at hy
        exact Vars.get_set_ne _ _ _ _ hy.1
      exact h0.trans hcore4

theorem stmt_for (is : List Instruction) (fuel : Nat)
    (hall : ∀ m, m < fuel + 1 → BlockSim is m ∧ ForSim is m)
    (kw x handle : Str) (body : Block) (kwEnd : Str) :
    StmtSimFor is (fuel + 1) (.forIn kw x handle body kwEnd) := by
  intro lo s t t' hwf hs hat hc hrel hfor hsafe hex
  have hnf := Stmt.noFn_of_simple2 _ hs
  have hscan : findCommands forTables is (lo + 1) = .ok ⟨[], lo + 1 + body.flatten.length⟩ := by
    obtain ⟨pre, post, hpl, his⟩ := hat
    have := C04_scan_for pre post kw x handle body kwEnd hwf hnf
    simp only at this
    rw [hpl, ← his] at this
    rw [this]
    simp only [flatten_for, List.length_cons, List.length_append, List.length_nil]
    congr 2
    omega
  have hat0 := hat
  rw [flatten_for] at hat
  simp only [flatten_for, List.length_cons, List.length_append, List.length_nil] at hfor ⊢
  simp only [Stmt.wf, Stmt.simple2, Bool.and_eq_true] at hwf hs
  obtain ⟨⟨hkw, hbwf⟩, hkend⟩ := hwf
  obtain ⟨⟨⟨hx, hxne⟩, hbs⟩, hhandle⟩ := hs
  cases hh : handleVar? handle with
  | none => rw [hh] at hhandle; simp at hhandle
  | some hn =>
    rw [hh] at hhandle
    simp only [Bool.and_eq_true, bne_iff_ne, ne_eq, Bool.not_eq_true'] at hhandle
    obtain ⟨hxn, hbn⟩ := hhandle
    have hi := At.head hat
    have hhi : lo + (body.flatten.length + (0 + 1) + 1) = lo + 1 + body.flatten.length + 1 := by omega
    rw [hhi] at hfor ⊢
    have hbind := bind_for t.vars x handle hn hx hh
    have habs : ∀ e ∈ s.forStack, e.start ≠ lo ∧ e.stop ≠ lo := by
      intro e he
      have := hfor e he
      omega
    simp only [execStmt, bind_handle t.vars handle hn hh] at hex
    simp only [safeStmt, bind_handle t.vars handle hn hh] at hsafe
    generalize hLdef : (t.sdk.handles.get ((t.vars.get hn).getD [])).getD [] = L at hex hsafe
    have hidx : (s.handles.get ((t.vars.get hn).getD [])).bind (fun l => l[0]?) = L[0]? := by
      rw [get_bind_idx, hrel.handles, hLdef]
    cases fuel with
    | zero => simp [execFor] at hex
    | succ f =>
      obtain ⟨hB, hF⟩ := hall f (by omega)
      cases L with
      | nil =>
        simp only [execFor, TOut.normal.injEq] at hex
        subst hex
        obtain ⟨M, hstep1, hcache1⟩ := step_for_first_none is lo t.vars s _ kw x handle _ [] _ hi hkw
          hbind hc hscan habs (hidx.trans rfl)
        exact ⟨_, hstep1,
          SimCore.opener0 (lo + 1 + body.flatten.length) fullNameEndForIn hcache1 hrel rfl rfl rfl rfl
            rfl rfl (by omega) (by omega),
          Garb.refl _ _ _ _, Garb.refl _ _ _ _, rfl⟩
      | cons val rest =>
        obtain ⟨M, hstep1, hcache1⟩ := step_for_first_some is lo t.vars s _ kw x handle _ [] _ val hi hkw
          hbind hc hscan habs (hidx.trans rfl)
        simp only [execFor] at hex
        simp only [safeFor, Bool.and_eq_true] at hsafe
        cases hb : execBlock is f body { t with vars := t.vars.set x val } with
        | returning v t1 => rw [hb] at hex; simp at hex
        | failed => rw [hb] at hex; simp at hex
        | outOfFuel => rw [hb] at hex; simp at hex
        | normal t1 =>
          rw [hb] at hex
          have hsafe2 := hsafe.2
          rw [hb] at hsafe2
          simp only at hex hsafe2
          have hvar0 : (t.vars.set x val).get hn = t.vars.get hn := Vars.get_set_ne _ _ _ _ hxn
          have hLsome : t.sdk.handles.get ((t.vars.get hn).getD []) = some (val :: rest) :=
            drop_some_of_ne (k := 0) hLdef rfl
          obtain ⟨s4, hst4, hcore4, hif4, hwh4, hfor4⟩ :=
            for_iter is f hB hF kw x handle hn body kwEnd lo
              { iteration := 1, start := lo, stop := lo + 1 + body.flatten.length, ctx := s.lineCtx }
              s.forStack (val :: rest) rest
              { s with forMeta := M,
                       endTable := s.endTable.put (lineKey s (lo + 1 + body.flatten.length)) fullNameEndForIn,
                       forStack := { iteration := 1, start := lo, stop := lo + 1 + body.flatten.length,
                                     ctx := s.lineCtx } :: s.forStack }
              { t with vars := t.vars.set x val } t1 t' hkw hbwf hkend hx hbs hh hxn hbn hat0 rfl rfl rfl rfl
              (by simp only; rw [hvar0]; exact hLsome) rfl (KV.get_put_self _ _ _)
              (hcache1.of_eq rfl rfl rfl rfl)
              ⟨hrel.handles, hrel.next, hrel.emitted, hrel.sfns, hrel.tsfns, hrel.tfns, hrel.hok⟩ hfor
              hsafe.1 hsafe2 hb hex
          refine ⟨s4, hstep1.trans hst4, ?_, hif4, hwh4, hfor4⟩
          have h0 : SimCore is lo (lo + 1 + body.flatten.length + 1)
              (fun y => Stmt.assigns y (.forIn kw x handle body kwEnd))
              s t { t with vars := t.vars.set x val }
              { s with forMeta := M,
                       endTable := s.endTable.put (lineKey s (lo + 1 + body.flatten.length)) fullNameEndForIn,
                       forStack := { iteration := 1, start := lo, stop := lo + 1 + body.flatten.length,
                                     ctx := s.lineCtx } :: s.forStack } := by
            refine ⟨hcache1.of_eq rfl rfl rfl rfl,
              ⟨hrel.handles, hrel.next, hrel.emitted, hrel.sfns, hrel.tsfns, hrel.tfns, hrel.hok⟩,
              ⟨fun l hl => ?_, rfl, rfl⟩, fun _ _ h => h, ?_⟩
            · refine KV.get_put_ne _ _ _ _ (fun e => ?_)
              have := lineKey_inj e
              omega
            · intro y hy
              simp only [Stmt.assigns, Bool.or_eq_false_iff, beq_eq_false_iff_ne] at hy
              exact Vars.get_set_ne _ _ _ _ hy.1
          exact h0.trans hcore4

end Duck
