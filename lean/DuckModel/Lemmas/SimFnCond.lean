/-
  C05 simulation (functions) — part 2: conditions when functions are defined.  `evalCondition`
  asks `resolveCmd` about the first bound word (and `not` about the first word of its condition):
  these must not be function names.  Copies of the C04 lemmas (Lemmas/SimCond.lean, SimFlow.lean)
  with `s.fns = []` replaced by "the heads are not functions" / "the functions are the
  environment's".
-/
import DuckModel.Lemmas.SimFnDefs

namespace Duck
open Duck.Spec Duck.Generated Duck.Reser

/-- with nested fuel `f ≥ thr` the condition evaluates to `res` and leaves `em` in `emitted`;
    with less fuel it either does the same or ends in an error -/
def CondEvalsToF (args : List Str) (E : List (List Str)) (n thr : Nat) (res : Except Unit Bool)
    (em : List (List Str)) : Prop :=
  ∀ (f : Nat) (is : List Instruction) (vars : Vars) (s : Sdk),
    (∀ w ∈ args.take n, s.fns.get w = none) → s.emitted = E →
    ((evalCondition (evalInstrsF f) is args vars s).1 = .error () ∨
      evalCondition (evalInstrsF f) is args vars s = (res, vars, { s with emitted := em })) ∧
    (thr ≤ f → evalCondition (evalInstrsF f) is args vars s = (res, vars, { s with emitted := em }))

theorem CondEvalsToF.mono {args : List Str} {E : List (List Str)} {n n' thr thr' : Nat}
    {res : Except Unit Bool} {em : List (List Str)} (h : CondEvalsToF args E n thr res em)
    (hle : thr ≤ thr') (hn : n ≤ n') : CondEvalsToF args E n' thr' res em :=
  fun f is vars s h1 h2 =>
    have h1' : ∀ w ∈ args.take n, s.fns.get w = none := fun w hw =>
      h1 w ((List.take_sublist_take_left hn).subset hw)
    ⟨(h f is vars s h1' h2).1, fun hf => (h f is vars s h1' h2).2 (by omega)⟩

theorem condEvalsF_value (h : Str) (rest : List Str) (E : List (List Str))
    (hn : (resolveCmd {} h).isNone = true) :
    CondEvalsToF (h :: rest) E 1 0 (condVal (h :: rest)) E := by
  intro f is vars s hf hE
  have := evalCondition_slice (evalInstrsF f) is h rest vars s
    (resolveCmd_none_env hn (hf h (by simp)))
  have hs : ({ s with emitted := E } : Sdk) = s := by subst hE; rfl
  rw [hs]
  exact ⟨.inr this, fun _ => this⟩

theorem condEvalsF_pure (cmd : Str) (vals : List Str) (E : List (List Str))
    (hp : isPureCondCmd cmd = true) (hs : ∀ x ∈ vals, Safe x = true)
    (hpos : positionOK vals = true) :
    ∃ res em, CondEvalsToF (cmd :: vals) E 0 2 res em := by
  obtain ⟨c, hres, hc⟩ := pureCondCmd_inv hp
  have hcm : cmdOK cmd = true :=
    (condNames_ok cmd (resolve_condName hres (by rcases hc with h | h | h <;> simp [h]))).1
  obtain ⟨r, em, hrun, hr⟩ := pure_cmd c hc vals E
  rcases hr with ⟨v, rfl⟩ | ⟨e, rfl⟩
  · refine ⟨.ok (isTrue v), em, fun f is vars s hf hE => ?_⟩
    have hres' := resolveCmd_of_empty s hres
    have hhi : ∀ f', evalCondition (evalInstrsF (f' + 2)) is (cmd :: vals) vars s =
        (.ok (isTrue v), vars, { s with emitted := em }) := fun f' =>
      evalCondition_cmd_continue f' is cmd vals vars s c v vars _ hcm hs hpos hres'
        (hrun _ _ none _ vars s hE)
    by_cases hlow : f ≤ 1
    · exact ⟨.inl (evalCondition_cmd_low f hlow is cmd vals vars s c hcm hs hpos hres'),
        fun h2 => by omega⟩
    · obtain ⟨f', rfl⟩ : ∃ f', f = f' + 2 := ⟨f - 2, by omega⟩
      exact ⟨.inr (hhi f'), fun _ => hhi f'⟩
  · refine ⟨.error (), em, fun f is vars s hf hE => ?_⟩
    have hres' := resolveCmd_of_empty s hres
    have hhi : ∀ f', evalCondition (evalInstrsF (f' + 1)) is (cmd :: vals) vars s =
        (.error (), vars, { s with emitted := em }) := fun f' =>
      evalCondition_cmd_error f' is cmd vals vars s c e vars _ hcm hs hpos hres'
        (hrun _ _ none _ vars s hE)
    cases f with
    | zero =>
      exact ⟨.inl (evalCondition_cmd_low 0 (by omega) is cmd vals vars s c hcm hs hpos hres'),
        fun h2 => by omega⟩
    | succ f' => exact ⟨.inr (hhi f'), fun _ => hhi f'⟩

theorem condEvalsF_not (n : Str) (vals : List Str) (E : List (List Str)) (thr : Nat)
    (res' : Except Unit Bool) (em' : List (List Str))
    (hn : isNotCmd n = true) (hs : ∀ x ∈ vals, Safe x = true) (hpos : positionOK vals = true)
    (hne : vals.isEmpty = false) (hthr : thr ≤ 2) (m : Nat) (hin : CondEvalsToF vals E m thr res' em') :
    ∃ res em, CondEvalsToF (n :: vals) E (m + 1) 3 res em := by
  have hres := notCmd_inv hn
  have hcm : cmdOK n = true := (condNames_ok n (resolve_condName hres (by simp))).1
  refine ⟨(negRes res'), em',
    fun f is vars s hf hE => ?_⟩
  have hres' := resolveCmd_of_empty s hres
  -- what happens with fuel `f' + 2`, given what the inner condition does with `f' + 1`
  have key : ∀ f',
      ((evalCondition (evalInstrsF (f' + 2)) is (n :: vals) vars s).1 = .error () ∨
        evalCondition (evalInstrsF (f' + 2)) is (n :: vals) vars s =
          ((negRes res'), vars,
            { s with emitted := em' })) ∧
      (thr ≤ f' + 1 → evalCondition (evalInstrsF (f' + 2)) is (n :: vals) vars s =
          ((negRes res'), vars,
            { s with emitted := em' })) := by
    intro f'
    have hinner := hin (f' + 1) (is ++ [condInstr n vals]) vars s
      (fun w hw => hf w (by simp [List.take_succ_cons, hw])) hE
    have hexp : evalCondition (evalInstrsF (f' + 1)) (is ++ [condInstr n vals]) vals vars s =
          (res', vars, { s with emitted := em' }) →
        evalCondition (evalInstrsF (f' + 2)) is (n :: vals) vars s =
          ((negRes res'), vars,
            { s with emitted := em' }) := by
      intro he
      cases res' with
      | ok p =>
        have hrun : runCmdF (evalInstrsF (f' + 1)) (is ++ [condInstr n vals]) 3 .notC vals none
            is.length vars s =
            (.continue (some (if p then "false".toList else "true".toList)), vars,
              { s with emitted := em' }) := by
          rw [runCmdF_not _ _ _ _ _ _ _ hne, he]; rfl
        rw [evalCondition_cmd_continue f' is n vals vars s .notC _ vars _ hcm hs hpos hres' hrun,
          isTrue_not]
        rfl
      | error u =>
        have hrun : runCmdF (evalInstrsF (f' + 1)) (is ++ [condInstr n vals]) 3 .notC vals none
            is.length vars s = (errR, vars, { s with emitted := em' }) := by
          rw [runCmdF_not _ _ _ _ _ _ _ hne, he]; rfl
        exact evalCondition_cmd_error (f' + 1) is n vals vars s .notC _ vars _ hcm hs hpos hres' hrun
    refine ⟨?_, fun h2 => hexp (hinner.2 h2)⟩
    rcases hinner.1 with herr | he
    · left
      generalize hR : evalCondition (evalInstrsF (f' + 1)) (is ++ [condInstr n vals]) vals vars s = R
        at herr
      obtain ⟨r0, v0, s0⟩ := R
      simp only at herr
      subst herr
      have hrun : runCmdF (evalInstrsF (f' + 1)) (is ++ [condInstr n vals]) 3 .notC vals none
          is.length vars s = (errR, v0, s0) := by
        rw [runCmdF_not _ _ _ _ _ _ _ hne, hR]; rfl
      rw [evalCondition_cmd_error (f' + 1) is n vals vars s .notC _ v0 s0 hcm hs hpos hres' hrun]
    · exact .inr (hexp he)
  by_cases hlow : f ≤ 1
  · exact ⟨.inl (evalCondition_cmd_low f hlow is n vals vars s .notC hcm hs hpos hres'),
      fun h2 => by omega⟩
  · obtain ⟨f', rfl⟩ : ∃ f', f = f' + 2 := ⟨f - 2, by omega⟩
    exact ⟨(key f').1, fun h3 => (key f').2 (by omega)⟩

/-! ### every condition of the simple2 fragment with safe bound arguments -/

theorem cond_evalF (cond : List Str) (vars : Vars) (E : List (List Str))
    (h2 : condSimple2 cond = true) (hsafe : condArgsSafe (bind vars (some cond)) = true) :
    (bind vars (some cond)).isEmpty = false ∧ (bind vars (some cond)).head? = cond.head? ∧
      ∃ n res em, CondEvalsToF (bind vars (some cond)) E n 3 res em ∧
        ∀ w ∈ (bind vars (some cond)).take n, w ∈ cond.take 2 := by
  simp only [condSimple2, Bool.or_eq_true] at h2
  rcases h2 with (h2 | h2) | h2
  · cases cond with
    | nil => simp [condSimple] at h2
    | cons h restW =>
      simp only [condSimple, Bool.and_eq_true] at h2
      rw [bind_cons_literal vars h restW h2.1.1]
      exact ⟨rfl, rfl, 1, _, _, (condEvalsF_value h _ E h2.2).mono (by omega) (by omega),
        fun w hw => by simp at hw; subst hw; simp⟩
  · cases cond with
    | nil => simp [cmdCond] at h2
    | cons h restW =>
      simp only [cmdCond, Bool.and_eq_true] at h2
      rw [bind_cons_literal vars h restW h2.1] at hsafe ⊢
      simp only [condArgsSafe, h2.2, if_true, Bool.and_eq_true, List.all_eq_true] at hsafe
      obtain ⟨res, em, hce⟩ := condEvalsF_pure h (bind vars (some restW)) E h2.2 hsafe.1 hsafe.2
      exact ⟨rfl, rfl, 0, res, em, hce.mono (by omega) (by omega), fun w hw => by simp at hw⟩
  · cases cond with
    | nil => simp [notCond] at h2
    | cons n restW =>
      simp only [notCond, Bool.and_eq_true, Bool.or_eq_true] at h2
      obtain ⟨⟨hlit, hnot⟩, hinner⟩ := h2
      have hnp : isPureCondCmd n = false := by
        simp [isPureCondCmd, notCmd_inv hnot]
      rw [bind_cons_literal vars n restW hlit] at hsafe ⊢
      simp only [condArgsSafe, hnp, Bool.false_eq_true, if_false, hnot, if_true, Bool.and_eq_true,
        List.all_eq_true] at hsafe
      obtain ⟨⟨hs, hpos⟩, hin⟩ := hsafe
      refine ⟨rfl, rfl, ?_⟩
      rcases hinner with hv | hc
      · cases restW with
        | nil => simp [condSimple] at hv
        | cons h restW' =>
          simp only [condSimple, Bool.and_eq_true] at hv
          rw [bind_cons_literal vars h restW' hv.1.1] at hs hpos ⊢
          obtain ⟨res, em, hce⟩ := condEvalsF_not n (h :: bind vars (some restW')) E 0 _ _ hnot hs hpos
            rfl (by omega) 1 (condEvalsF_value h _ E hv.2)
          exact ⟨2, res, em, hce, fun w hw => by
            simp at hw
            rcases hw with rfl | rfl <;> simp⟩
      · cases restW with
        | nil => simp [cmdCond] at hc
        | cons c restW' =>
          simp only [cmdCond, Bool.and_eq_true] at hc
          rw [bind_cons_literal vars c restW' hc.1] at hs hpos hin ⊢
          simp only [hc.2, if_true] at hin
          obtain ⟨res', em', hce'⟩ := condEvalsF_pure c (bind vars (some restW')) E hc.2
            (fun x hx => hs x (by simp [hx])) hin
          obtain ⟨res, em, hce⟩ := condEvalsF_not n (c :: bind vars (some restW')) E 2 _ _ hnot hs hpos
            rfl (by omega) 0 hce'
          exact ⟨1, res, em, hce, fun w hw => by simp at hw; subst hw; simp⟩

/-- tree side: the verdict and the new tree state -/
theorem evalCond_of_evalsF (is : List Instruction) (fuel : Nat) (cond : List Str) (t t1 : TState) (b : Bool)
    (n : Nat) (res : Except Unit Bool) (em : List (List Str))
    (hne : (bind t.vars (some cond)).isEmpty = false)
    (hf : ∀ w, (bind t.vars (some cond)).head? = some w → lookupFn t.fns w = none)
    (hsf : ∀ w ∈ (bind t.vars (some cond)).take n, t.sdk.fns.get w = none)
    (hce : CondEvalsToF (bind t.vars (some cond)) t.sdk.emitted n 3 res em)
    (hex : evalCond is (fuel + 1) cond t = some (b, t1)) :
    res = .ok b ∧ t1 = { t with sdk := { t.sdk with emitted := em } } := by
  have h := (hce fuel is t.vars t.sdk hsf rfl).1
  unfold evalCond at hex
  simp only [bind_mkArgs] at hex
  cases hb : bind t.vars (some cond) with
  | nil => rw [hb] at hne; simp at hne
  | cons first rest =>
    rw [hb] at hex h
    have hl : lookupFn t.fns first = none := hf first (by rw [hb]; rfl)
    simp only [hl] at hex
    rcases h with h | h
    · generalize evalCondition (evalInstrsF fuel) is (first :: rest) t.vars t.sdk = R at h hex
      obtain ⟨r0, v0, s0⟩ := R
      simp only at h
      subst h
      simp at hex
    · rw [h] at hex
      cases res with
      | error u => simp at hex
      | ok b' =>
        simp only [Option.some.injEq, Prod.mk.injEq] at hex
        exact ⟨by rw [hex.1], hex.2.symm⟩

theorem condNoFn_take {names : List Str} {cond : List Str} (h : condNoFn names cond = true) :
    ∀ w ∈ cond.take 2, names.contains w = false := by
  intro w hw
  rcases cond with _ | ⟨a, _ | ⟨b, rest⟩⟩
  · simp at hw
  · simp at hw
    subst hw
    simpa [condNoFn] using h
  · simp only [condNoFn, Bool.and_eq_true, Bool.not_eq_true'] at h
    simp at hw
    rcases hw with rfl | rfl
    · exact h.1
    · exact h.2

theorem EnvOK.not_name {is : List Instruction} {E : Nat → Prop} {F : FEnv} (h : EnvOK is E F)
    {w : Str} (hw : F.names.contains w = false) :
    lookupFn F.tf w = none ∧ F.sf.get w = none ∧ F.tsf.get w = none := by
  have hl : lookupFn F.tf w = none := by
    cases hl : lookupFn F.tf w with
    | none => rfl
    | some fd =>
      have := (h.names w).2 (by rw [hl]; simp)
      rw [hw] at this
      cases this
  exact ⟨hl, h.undef w hl⟩

/-- a condition of the fragment, evaluated by the tree interpreter with verdict `b`: the new tree
    state, and what the machine's `evalCondition` returns on the same bound words in any machine
    state with the environment's functions and the same `emitted`, for every nested fuel ≥ 3 -/
theorem cond_simF (is : List Instruction) (E : Nat → Prop) (F : FEnv) (henv : EnvOK is E F)
    (fuel : Nat) (cond : List Str) (t t1 : TState) (b : Bool)
    (h2 : condSimple2 cond = true) (hnf : condNoFn F.names cond = true)
    (hsafe : condArgsSafe (bind t.vars (some cond)) = true)
    (hf : t.fns = F.tf) (hsf : t.sdk.fns = F.tsf)
    (hex : evalCond is (fuel + 1) cond t = some (b, t1)) :
    ∃ em, t1 = withEm t em ∧ (bind t.vars (some cond)).isEmpty = false ∧
      ∀ f, 3 ≤ f → ∀ (is' : List Instruction) (s' : Sdk), s'.fns = F.sf →
        s'.emitted = t.sdk.emitted →
        evalCondition (evalInstrsF f) is' (bind t.vars (some cond)) t.vars s' =
          (.ok b, t.vars, { s' with emitted := em }) := by
  obtain ⟨hne, hhead, n, res, em, hce, hwords⟩ := cond_evalF cond t.vars t.sdk.emitted h2 hsafe
  have hnot : ∀ w ∈ (bind t.vars (some cond)).take n,
      lookupFn F.tf w = none ∧ F.sf.get w = none ∧ F.tsf.get w = none :=
    fun w hw => henv.not_name (condNoFn_take hnf w (hwords w hw))
  have hfirst : ∀ w, (bind t.vars (some cond)).head? = some w → lookupFn t.fns w = none := by
    intro w hw
    rw [hhead] at hw
    rw [hf]
    refine (henv.not_name (condNoFn_take hnf w ?_)).1
    cases cond with
    | nil => simp at hw
    | cons a rest => simp at hw; subst hw; simp
  obtain ⟨hres, ht1⟩ := evalCond_of_evalsF is fuel cond t t1 b n res em hne hfirst
    (fun w hw => by rw [hsf]; exact (hnot w hw).2.2) hce hex
  subst hres
  exact ⟨em, ht1, hne, fun f hf3 is' s' h1 h2 =>
    (hce f is' t.vars s' (fun w hw => by rw [h1]; exact (hnot w hw).2.1) h2).2 hf3⟩


/-! ### the flow lines that evaluate a condition, with functions defined -/

/-- what the step lemmas need to know about the condition on the line -/
def CondSaysF (is : List Instruction) (args : List Str) (v : Vars) (E : List (List Str)) (b : Bool)
    (em : List (List Str)) (sf : KV FnInfo) : Prop :=
  args.isEmpty = false ∧
    ∀ f, 3 ≤ f → ∀ (s' : Sdk), s'.fns = sf → s'.emitted = E →
      evalCondition (evalInstrsF f) is args v s' = (.ok b, v, { s' with emitted := em })

theorem step_if_trueF (is : List Instruction) (lo : Nat) (v : Vars) (s : Sdk) (mi : Meta)
    (kwIf : Str) (cond : List Str) (mid : List Nat) (stop : Nat) (em : List (List Str))
    (hi : is[lo]? = some ⟨mi, .script (mkInstr none kwIf cond)⟩) (hk : isIfKw kwIf = true)
    (hc : CacheOK is s)
    (hscan : findCommands ifTables is (lo + 1) = .ok ⟨mid, stop⟩)
    (hv : CondSaysF is (bind v (some cond)) v s.emitted true em s.fns) :
    ∃ M, Steps is lo v s (lo + 1) v
        { s with ifMeta := M, endTable := s.endTable.put (lineKey s stop) fullNameEndIf,
                 emitted := em,
                 ifStack := { current := (match mid with | [] => stop | e :: _ => e), passed := true,
                              elseIdx := 0, start := lo, stop := stop, elses := mid,
                              ctx := s.lineCtx } :: s.ifStack } ∧
      CacheOK is { s with ifMeta := M, endTable := s.endTable.put (lineKey s stop) fullNameEndIf } := by
  obtain ⟨M, hmeta, hcache⟩ := ifMetaFor_ok is s lo mid stop hc hscan
  refine ⟨M, Steps.singleF (fun f hf3 p => ?_), hcache⟩
  have hev := hv.2 f hf3
    { s with ifMeta := M, endTable := s.endTable.put (lineKey s stop) fullNameEndIf } rfl rfl
  apply runStep_cmd_continue _ is lo p v s mi none kwIf cond .ifC none v _ hi (resolve_if hk s)
  simp only [runCmdF, runCmd, hv.1, Bool.false_eq_true, if_false, hmeta, hev, if_true]
  rfl

theorem step_if_false_nilF (is : List Instruction) (lo : Nat) (v : Vars) (s : Sdk) (mi : Meta)
    (kwIf : Str) (cond : List Str) (stop : Nat) (em : List (List Str))
    (hi : is[lo]? = some ⟨mi, .script (mkInstr none kwIf cond)⟩) (hk : isIfKw kwIf = true)
    (hc : CacheOK is s)
    (hscan : findCommands ifTables is (lo + 1) = .ok ⟨[], stop⟩)
    (hv : CondSaysF is (bind v (some cond)) v s.emitted false em s.fns) :
    ∃ M, Steps is lo v s (stop + 1) v
        { s with ifMeta := M, endTable := s.endTable.put (lineKey s stop) fullNameEndIf,
                 emitted := em } ∧
      CacheOK is { s with ifMeta := M, endTable := s.endTable.put (lineKey s stop) fullNameEndIf } := by
  obtain ⟨M, hmeta, hcache⟩ := ifMetaFor_ok is s lo [] stop hc hscan
  refine ⟨M, Steps.singleF (fun f hf3 p => ?_), hcache⟩
  have hev := hv.2 f hf3
    { s with ifMeta := M, endTable := s.endTable.put (lineKey s stop) fullNameEndIf } rfl rfl
  apply runStep_cmd_goto _ is lo p v s mi none kwIf cond .ifC none (stop + 1) v _ hi (resolve_if hk s)
  simp only [runCmdF, runCmd, hv.1, Bool.false_eq_true, if_false, hmeta, hev]

theorem step_if_false_consF (is : List Instruction) (lo : Nat) (v : Vars) (s : Sdk) (mi : Meta)
    (kwIf : Str) (cond : List Str) (e : Nat) (rest : List Nat) (stop : Nat) (em : List (List Str))
    (hi : is[lo]? = some ⟨mi, .script (mkInstr none kwIf cond)⟩) (hk : isIfKw kwIf = true)
    (hc : CacheOK is s)
    (hscan : findCommands ifTables is (lo + 1) = .ok ⟨e :: rest, stop⟩)
    (hv : CondSaysF is (bind v (some cond)) v s.emitted false em s.fns) :
    ∃ M, Steps is lo v s e v
        { s with ifMeta := M, endTable := s.endTable.put (lineKey s stop) fullNameEndIf,
                 emitted := em,
                 ifStack := { current := e, passed := false, elseIdx := 0, start := lo, stop := stop,
                              elses := e :: rest, ctx := s.lineCtx } :: s.ifStack } ∧
      CacheOK is { s with ifMeta := M, endTable := s.endTable.put (lineKey s stop) fullNameEndIf } := by
  obtain ⟨M, hmeta, hcache⟩ := ifMetaFor_ok is s lo (e :: rest) stop hc hscan
  refine ⟨M, Steps.singleF (fun f hf3 p => ?_), hcache⟩
  have hev := hv.2 f hf3
    { s with ifMeta := M, endTable := s.endTable.put (lineKey s stop) fullNameEndIf } rfl rfl
  apply runStep_cmd_goto _ is lo p v s mi none kwIf cond .ifC none e v _ hi (resolve_if hk s)
  simp only [runCmdF, runCmd, hv.1, Bool.false_eq_true, if_false, hmeta, hev]

theorem step_elif_trueF (is : List Instruction) (l : Nat) (v : Vars) (s : Sdk) (mi : Meta)
    (kw : Str) (cond : List Str) (G : List IfCall) (own : IfCall) (K : List IfCall)
    (em : List (List Str))
    (hi : is[l]? = some ⟨mi, .script (mkInstr none kw cond)⟩) (hk : isElifKw kw = true)
    (hst : s.ifStack = G ++ own :: K) (ho : own.current = l) (hctx : own.ctx = s.lineCtx)
    (hG : ∀ e ∈ G, e.current ≠ l) (hp : own.passed = false)
    (hv : CondSaysF is (bind v (some cond)) v s.emitted true em s.fns) :
    Steps is l v s (l + 1) v
      { s with emitted := em,
               ifStack := { own with current := elifNext own, passed := true, ctx := s.lineCtx } :: K } := by
  refine Steps.singleF (fun f hf3 p => ?_)
  have hev := hv.2 f hf3 { s with ifStack := K } rfl rfl
  apply runStep_cmd_continue _ is l p v s mi none kw cond .elseIf none v _ hi
    (resolve_elif hk s)
  simp only [runCmdF, runCmd, hv.1, Bool.false_eq_true, if_false, hst,
    popIf_garb l s.lineCtx G own K ho hctx hG, hp, hev, if_true]
  rfl

theorem step_elif_false_moreF (is : List Instruction) (l : Nat) (v : Vars) (s : Sdk) (mi : Meta)
    (kw : Str) (cond : List Str) (G : List IfCall) (own : IfCall) (K : List IfCall)
    (em : List (List Str))
    (hi : is[l]? = some ⟨mi, .script (mkInstr none kw cond)⟩) (hk : isElifKw kw = true)
    (hst : s.ifStack = G ++ own :: K) (ho : own.current = l) (hctx : own.ctx = s.lineCtx)
    (hG : ∀ e ∈ G, e.current ≠ l) (hp : own.passed = false)
    (hv : CondSaysF is (bind v (some cond)) v s.emitted false em s.fns)
    (hmore : own.elseIdx + 1 < own.elses.length) :
    Steps is l v s (own.elses[own.elseIdx + 1]?.getD 0) v
      { s with emitted := em,
               ifStack := { own with current := own.elses[own.elseIdx + 1]?.getD 0, passed := false,
                                     elseIdx := own.elseIdx + 1, ctx := s.lineCtx } :: K } := by
  refine Steps.singleF (fun f hf3 p => ?_)
  have hev := hv.2 f hf3 { s with ifStack := K } rfl rfl
  apply runStep_cmd_goto _ is l p v s mi none kw cond .elseIf none _ v _ hi
    (resolve_elif hk s)
  simp only [runCmdF, runCmd, hv.1, Bool.false_eq_true, if_false, hst,
    popIf_garb l s.lineCtx G own K ho hctx hG, hp, hev, hmore, if_true]

theorem step_elif_false_lastF (is : List Instruction) (l : Nat) (v : Vars) (s : Sdk) (mi : Meta)
    (kw : Str) (cond : List Str) (G : List IfCall) (own : IfCall) (K : List IfCall)
    (em : List (List Str))
    (hi : is[l]? = some ⟨mi, .script (mkInstr none kw cond)⟩) (hk : isElifKw kw = true)
    (hst : s.ifStack = G ++ own :: K) (ho : own.current = l) (hctx : own.ctx = s.lineCtx)
    (hG : ∀ e ∈ G, e.current ≠ l) (hp : own.passed = false)
    (hv : CondSaysF is (bind v (some cond)) v s.emitted false em s.fns)
    (hlast : ¬ own.elseIdx + 1 < own.elses.length) :
    Steps is l v s (own.stop + 1) v { s with emitted := em, ifStack := K } := by
  refine Steps.singleF (fun f hf3 p => ?_)
  have hev := hv.2 f hf3 { s with ifStack := K } rfl rfl
  apply runStep_cmd_goto _ is l p v s mi none kw cond .elseIf none _ v _ hi
    (resolve_elif hk s)
  simp only [runCmdF, runCmd, hv.1, Bool.false_eq_true, if_false, hst,
    popIf_garb l s.lineCtx G own K ho hctx hG, hp, hev, hlast]

theorem step_while_trueF (is : List Instruction) (lo : Nat) (v : Vars) (s : Sdk) (mi : Meta)
    (kw : Str) (cond : List Str) (mid : List Nat) (stop : Nat) (em : List (List Str))
    (hi : is[lo]? = some ⟨mi, .script (mkInstr none kw cond)⟩) (hk : isWhileKw kw = true)
    (hc : CacheOK is s)
    (hscan : findCommands whileTables is (lo + 1) = .ok ⟨mid, stop⟩)
    (hv : CondSaysF is (bind v (some cond)) v s.emitted true em s.fns) :
    ∃ M, Steps is lo v s (lo + 1) v
        { s with whileMeta := M, endTable := s.endTable.put (lineKey s stop) fullNameEndWhile,
                 emitted := em,
                 whileStack := { start := lo, stop := stop, ctx := s.lineCtx } :: s.whileStack } ∧
      CacheOK is { s with whileMeta := M, endTable := s.endTable.put (lineKey s stop) fullNameEndWhile } := by
  obtain ⟨M, hmeta, hcache⟩ := whileMetaFor_ok is s lo mid stop hc hscan
  refine ⟨M, Steps.singleF (fun f hf3 p => ?_), hcache⟩
  have hev := hv.2 f hf3
    { s with whileMeta := M, endTable := s.endTable.put (lineKey s stop) fullNameEndWhile } rfl rfl
  apply runStep_cmd_continue _ is lo p v s mi none kw cond .whileC none v _ hi (resolve_while hk s)
  simp only [runCmdF, runCmd, hv.1, Bool.false_eq_true, if_false, hmeta, hev, if_true]

theorem step_while_falseF (is : List Instruction) (lo : Nat) (v : Vars) (s : Sdk) (mi : Meta)
    (kw : Str) (cond : List Str) (mid : List Nat) (stop : Nat) (em : List (List Str))
    (hi : is[lo]? = some ⟨mi, .script (mkInstr none kw cond)⟩) (hk : isWhileKw kw = true)
    (hc : CacheOK is s)
    (hscan : findCommands whileTables is (lo + 1) = .ok ⟨mid, stop⟩)
    (hv : CondSaysF is (bind v (some cond)) v s.emitted false em s.fns) :
    ∃ M, Steps is lo v s (stop + 1) v
        { s with whileMeta := M, endTable := s.endTable.put (lineKey s stop) fullNameEndWhile,
                 emitted := em } ∧
      CacheOK is { s with whileMeta := M, endTable := s.endTable.put (lineKey s stop) fullNameEndWhile } := by
  obtain ⟨M, hmeta, hcache⟩ := whileMetaFor_ok is s lo mid stop hc hscan
  refine ⟨M, Steps.singleF (fun f hf3 p => ?_), hcache⟩
  have hev := hv.2 f hf3
    { s with whileMeta := M, endTable := s.endTable.put (lineKey s stop) fullNameEndWhile } rfl rfl
  apply runStep_cmd_goto _ is lo p v s mi none kw cond .whileC none _ v _ hi (resolve_while hk s)
  simp only [runCmdF, runCmd, hv.1, Bool.false_eq_true, if_false, hmeta, hev]

end Duck
