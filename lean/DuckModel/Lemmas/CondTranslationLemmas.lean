/-
  Helper lemmas for Props/C06Translated.lean: the index-faithful translation of
  `eval_condition_for_slice` (Generated/ScannerCond.lean) refines the hand-written model
  (Sdk/Condition.lean).
-/
import DuckModel.Sdk.Condition
import DuckModel.Generated.ScannerCond

namespace Duck
open Duck.Generated

/-- the model's answer as an answer of the translated function (which can also panic) -/
def Generated.CondOut.ofExcept : Except CondErr Bool → CondOut
  | .ok b => .ok b
  | .error e => .err e

/-- extending the slice `[s, i)` by the token at `i` -/
theorem slice_snoc {α : Type} (args : List α) (s i : Nat) (a : α) (rest : List α) (hs : s ≤ i)
    (h : args.drop i = a :: rest) :
    (args.drop s).take (i + 1 - s) = (args.drop s).take (i - s) ++ [a] := by
  have e1 : i + 1 - s = (i - s) + 1 := by omega
  have e2 : (args.drop s)[i - s]? = some a := by
    rw [List.getElem?_drop]
    have e3 : s + (i - s) = i := by omega
    rw [e3]
    have e4 := congrArg (fun l => l[0]?) h
    simpa [List.getElem?_drop] using e4
  rw [e1, List.take_add_one, e2]; rfl

theorem drop_cons_lt {α : Type} {args : List α} {i : Nat} {a : α} {rest : List α}
    (h : args.drop i = a :: rest) : i < args.length := by
  by_cases hlt : i < args.length
  · exact hlt
  · rw [List.drop_of_length_le (by omega)] at h; cases h

theorem drop_succ_of_drop_cons {α : Type} {args : List α} {i : Nat} {a : α} {rest : List α}
    (h : args.drop i = a :: rest) : args.drop (i + 1) = rest := by
  have : args.drop (i + 1) = (args.drop i).drop 1 := by rw [List.drop_drop]
  rw [this, h]; rfl

/-- the refinement relation: same booleans / accumulators / token state, the same counter, and
    while a group is open the model's `block` is the slice `[start_block, index)` -/
structure CondRel (args : List Str) (g : CondSt) (m : CSt) : Prop where
  searching : g.searchingBlockEnd = m.searching
  counter : g.counter = (m.counter : Int)
  total : g.totalEvaluated = m.total
  part : g.partialEvaluated = m.part
  found : g.foundToken = m.found
  closed : m.searching = false → m.counter = 0
  block : 0 < m.counter →
    g.startBlock ≤ g.index ∧ m.block = (args.drop g.startBlock).take (g.index - g.startBlock)

/-- related step results; a continuing step has consumed one token -/
def CondStepRel (args : List Str) (i : Nat) : CondStep → CStep → Prop
  | .cont g, .cont m => CondRel args g m ∧ g.index = i + 1
  | .ret b, .ret b' => b = b'
  | .err e, .err e' => e = e'
  | _, _ => False

theorem tokOpen_lit : "(".toList = tokOpen := rfl
theorem tokClose_lit : ")".toList = tokClose := rfl
theorem tokAnd_lit : "and".toList = tokAnd := rfl
theorem tokOr_lit : "or".toList = tokOr := rfl

section step
variable (ev' : List Str → CondOut) (ev : List Str → Except CondErr Bool)
  (args : List Str) (g : CondSt) (m : CSt) (a : Str) (rest : List Str)

/-- `(` -/
theorem condStep_refines_open (hr : CondRel args g m) (hd : args.drop g.index = a :: rest)
    (ha : a = tokOpen) :
    CondStepRel args g.index (condStepGen ev' args g a) (cStep ev m a) := by
  obtain ⟨gs, gsb, gc, gi, gt, gp, gf⟩ := g
  obtain ⟨ms, mc, mb, mt, mp, mf⟩ := m
  obtain ⟨h1, h2, h3, h4, h5, h7, h6⟩ := hr
  simp only at h1 h2 h3 h4 h5 h6 h7 hd
  subst h1 h2 h3 h4 h5 ha
  simp only [condStepGen, cStep, tokOpen_lit, if_true]
  by_cases hc : mc = 0
  · subst hc
    simp [CondStepRel]
    constructor <;> simp
  · have hpos : 0 < mc := by omega
    obtain ⟨hle, hb⟩ := h6 hpos
    simp [hc, CondStepRel]
    constructor <;> simp
    refine ⟨by omega, ?_⟩
    rw [hb, slice_snoc args gsb gi tokOpen rest hle hd]

/-- `)` -/
theorem condStep_refines_close (hev : ∀ l, ev' l = CondOut.ofExcept (ev l))
    (hr : CondRel args g m) (hd : args.drop g.index = a :: rest) (ha : a = tokClose) :
    CondStepRel args g.index (condStepGen ev' args g a) (cStep ev m a) := by
  obtain ⟨gs, gsb, gc, gi, gt, gp, gf⟩ := g
  obtain ⟨ms, mc, mb, mt, mp, mf⟩ := m
  obtain ⟨h1, h2, h3, h4, h5, h7, h6⟩ := hr
  simp only at h1 h2 h3 h4 h5 h6 h7 hd
  subst h1 h2 h3 h4 h5 ha
  have hlt := drop_cons_lt hd
  have hne : tokClose ≠ tokOpen := by decide
  simp only [condStepGen, cStep, tokOpen_lit, tokClose_lit, hne, if_true, if_false]
  by_cases hc0 : mc = 0
  · subst hc0
    simp only [if_true]
    split
    · exfalso; omega
    · split
      · simp only [CondStepRel]
      · exfalso; omega
  · by_cases hc1 : mc = 1
    · subst hc1
      obtain ⟨hle, hb⟩ := h6 (by omega)
      have hlen : gi ≤ args.length := by omega
      have e3 : ((1 : Nat) = 0) = False := by simp
      simp only [e3, if_false, if_true]
      split
      · simp only [hle, hlen, and_self, if_true, hev, ← hb]
        cases ev mb with
        | error e => simp [CondOut.ofExcept, CondStepRel]
        | ok evaluated =>
          simp only [CondOut.ofExcept, foldAtom]
          cases evaluated <;> rcases gp with _ | _ | _ <;> cases gf <;>
            simp [CondStepRel] <;> constructor <;> simp
      · exfalso; omega
    · obtain ⟨hle, hb⟩ := h6 (by omega)
      simp only [hc0, hc1, if_false]
      split
      · exfalso; omega
      · split
        · exfalso; omega
        · simp only [CondStepRel]
          refine ⟨⟨rfl, ?_, rfl, rfl, rfl, ?_, ?_⟩, trivial⟩
          · simp only; omega
          · intro h; have := h7 h; omega
          · intro _
            refine ⟨by simp only; omega, ?_⟩
            simp only
            rw [hb, slice_snoc args gsb gi tokClose rest hle hd]

/-- a token inside an open group -/
theorem condStep_refines_inside (hr : CondRel args g m) (hd : args.drop g.index = a :: rest)
    (ho : a ≠ tokOpen) (hc : a ≠ tokClose) (hs : m.searching = true) :
    CondStepRel args g.index (condStepGen ev' args g a) (cStep ev m a) := by
  obtain ⟨gs, gsb, gc, gi, gt, gp, gf⟩ := g
  obtain ⟨ms, mc, mb, mt, mp, mf⟩ := m
  obtain ⟨h1, h2, h3, h4, h5, h7, h6⟩ := hr
  simp only at h1 h2 h3 h4 h5 h6 h7 hd hs
  subst h1 h2 h3 h4 h5 hs
  simp only [condStepGen, cStep, tokOpen_lit, tokClose_lit, ho, hc, if_true, if_false,
    Bool.true_eq_false, CondStepRel]
  refine ⟨⟨rfl, rfl, rfl, rfl, rfl, by simp, ?_⟩, trivial⟩
  intro hpos
  obtain ⟨hle, hb⟩ := h6 hpos
  refine ⟨by simp only; omega, ?_⟩
  simp only
  rw [hb, slice_snoc args gsb gi a rest hle hd]

/-- `and`, `or`, a value outside groups -/
theorem condStep_refines_outside (hr : CondRel args g m) (hd : args.drop g.index = a :: rest)
    (ho : a ≠ tokOpen) (hc : a ≠ tokClose) (hs : m.searching = false) :
    CondStepRel args g.index (condStepGen ev' args g a) (cStep ev m a) := by
  obtain ⟨gs, gsb, gc, gi, gt, gp, gf⟩ := g
  obtain ⟨ms, mc, mb, mt, mp, mf⟩ := m
  obtain ⟨h1, h2, h3, h4, h5, h7, h6⟩ := hr
  simp only at h1 h2 h3 h4 h5 h6 h7 hd hs
  subst h1 h2 h3 h4 h5 hs
  simp only [condStepGen, cStep, tokOpen_lit, tokClose_lit, tokAnd_lit, tokOr_lit, ho, hc,
    if_true, if_false, Bool.false_eq_true]
  have hz : mc = 0 := h7 rfl
  subst hz
  have keep : ∀ (t p : Option Bool) (f : FoundToken),
      CondRel args ⟨false, gsb, 0, gi + 1, t, p, f⟩ ⟨false, 0, mb, t, p, f⟩ :=
    fun t p f => ⟨rfl, rfl, rfl, rfl, rfl, fun _ => rfl, fun h => absurd h (Nat.lt_irrefl 0)⟩
  by_cases hand : a = tokAnd
  · subst hand
    simp only [if_true]
    cases gf
    case value =>
      rcases gt with _ | _ | _ <;> rcases gp with _ | _ | _ <;>
        first
          | (simp [CondStepRel]; done)
          | (simp [CondStepRel]; exact keep _ _ _)
    all_goals simp [CondStepRel]
  · simp only [hand, if_false]
    by_cases hor : a = tokOr
    · subst hor
      simp only [if_true]
      cases gf
      case value => simp [CondStepRel]; exact keep _ _ _
      all_goals simp [CondStepRel]
    · simp only [hor, if_false, foldAtom]
      generalize isTrue (some a) = v
      cases v <;> rcases gp with _ | _ | _ <;> cases gf <;>
        first
          | (simp [CondStepRel]; done)
          | (simp [CondStepRel]; exact keep _ _ _)

/-- one token: the translated step refines the model's step -/
theorem condStep_refines (hev : ∀ l, ev' l = CondOut.ofExcept (ev l))
    (hr : CondRel args g m) (hd : args.drop g.index = a :: rest) :
    CondStepRel args g.index (condStepGen ev' args g a) (cStep ev m a) := by
  by_cases ho : a = tokOpen
  · exact condStep_refines_open ev' ev args g m a rest hr hd ho
  · by_cases hc : a = tokClose
    · exact condStep_refines_close ev' ev args g m a rest hev hr hd hc
    · cases hs : m.searching
      · exact condStep_refines_outside ev' ev args g m a rest hr hd ho hc hs
      · exact condStep_refines_inside ev' ev args g m a rest hr hd ho hc hs

/-- the code after the loop -/
theorem condAfter_refines (hr : CondRel args g m) :
    condAfterGen g = CondOut.ofExcept (cLoop ev m []) := by
  obtain ⟨gs, gsb, gc, gi, gt, gp, gf⟩ := g
  obtain ⟨ms, mc, mb, mt, mp, mf⟩ := m
  obtain ⟨h1, h2, h3, h4, h5, h7, h6⟩ := hr
  simp only at h1 h2 h3 h4 h5
  subst h1 h2 h3 h4 h5
  simp only [condAfterGen, cLoop]
  cases gs <;> rcases gt with _ | _ | _ <;> rcases gp with _ | _ | _ <;> simp [CondOut.ofExcept]

/-- the loop over the remaining tokens -/
theorem condLoop_refines (hev : ∀ l, ev' l = CondOut.ofExcept (ev l)) :
    ∀ (rest : List Str) (g : CondSt) (m : CSt), CondRel args g m → args.drop g.index = rest →
      condLoopGen ev' args g rest = CondOut.ofExcept (cLoop ev m rest) := by
  intro rest
  induction rest with
  | nil => intro g m hr _; rw [condLoopGen]; exact condAfter_refines ev args g m hr
  | cons a rest ih =>
    intro g m hr hd
    have hstep := condStep_refines ev' ev args g m a rest hev hr hd
    rw [condLoopGen, cLoop]
    cases hg : condStepGen ev' args g a <;> cases hm : cStep ev m a <;>
      rw [hg, hm] at hstep <;> simp only [CondStepRel] at hstep
    · obtain ⟨hr', hi⟩ := hstep
      simp only
      apply ih _ _ hr'
      rw [hi]; exact drop_succ_of_drop_cons hd
    · subst hstep; rfl
    · subst hstep; rfl

end step

/-- the initial states are related -/
theorem condRel_init (args : List Str) : CondRel args {} {} :=
  ⟨rfl, rfl, rfl, rfl, rfl, fun _ => rfl, fun h => absurd h (Nat.lt_irrefl 0)⟩

end Duck
