/-
  Lemmas about `parseLinesWith` / `parseText` and about the lines of a rendered script.
-/
import DuckModel.Lemmas.RenderLemmas

namespace Duck
open Duck.Spec

/-! ### parseLinesWith -/

/-- a line that parses and is neither an include directive nor an unknown directive -/
def LineGood (l : Str) : Prop :=
  ∃ ty, parseLine l = .ok ty ∧ ∀ c a, ty = .preProcess c a → c = some printName

theorem parseLinesWith_nil (inc : Str → Except ParseFail (List Instruction)) (fs : Fs)
    (src : Option Str) (n : Nat) : parseLinesWith inc fs src n [] = .ok [] := by
  simp [parseLinesWith]

theorem parseLinesWith_cons_good (inc : Str → Except ParseFail (List Instruction)) (fs : Fs)
    (src : Option Str) (n : Nat) (l : Str) (ls : List Str) (ty : InstrType)
    (h : parseLine l = .ok ty) (hp : ∀ c a, ty = .preProcess c a → c = some printName) :
    parseLinesWith inc fs src n (l :: ls) =
      match parseLinesWith inc fs src (n + 1) ls with
      | .error e => .error e
      | .ok r => .ok (⟨{ line := some n, source := src }, ty⟩ :: r) := by
  rw [parseLinesWith]
  simp only [h]
  cases ty with
  | preProcess c a =>
    have := hp c a rfl
    subst this
    simp [runPre]
    cases parseLinesWith inc fs src (n + 1) ls <;> rfl
  | empty => rfl
  | script i => rfl

theorem parseLinesWith_cons_error (inc : Str → Except ParseFail (List Instruction)) (fs : Fs)
    (src : Option Str) (n : Nat) (l : Str) (ls : List Str) (k : PErr)
    (h : parseLine l = .error k) :
    parseLinesWith inc fs src n (l :: ls) = .error ⟨k, { line := some n, source := src }⟩ := by
  rw [parseLinesWith]
  simp only [h]

theorem parseLinesWith_cons_unknown (inc : Str → Except ParseFail (List Instruction)) (fs : Fs)
    (src : Option Str) (n : Nat) (l : Str) (ls : List Str) (c : Str) (a : Option (List Str))
    (h : parseLine l = .ok (.preProcess (some c) a)) (h1 : c ≠ printName) (h2 : c ≠ includeName) :
    parseLinesWith inc fs src n (l :: ls) =
      .error ⟨.unknownPreProcessorCommand, { line := some n, source := src }⟩ := by
  rw [parseLinesWith]
  simp only [h]
  simp [runPre, h1, h2]

theorem lineGood_of_ok (inc : Str → Except ParseFail (List Instruction)) (fs : Fs)
    (src : Option Str) (n : Nat) (l : Str) (ls : List Str) (is : List Instruction)
    (hp : parseLinesWith inc fs src n (l :: ls) = .ok is)
    (hno : ∀ a, parseLine l ≠ .ok (.preProcess (some includeName) a)) : LineGood l := by
  rw [parseLinesWith] at hp
  cases hpl : parseLine l with
  | error k => simp [hpl] at hp
  | ok ty =>
    refine ⟨ty, hpl, ?_⟩
    intro c a hty
    subst hty
    simp only [hpl] at hp
    cases c with
    | none => simp [runPre] at hp
    | some c =>
      by_cases h1 : c = printName
      · rw [h1]
      by_cases h2 : c = includeName
      · subst h2; exact absurd hpl (hno a)
      simp [runPre, h1, h2] at hp

theorem one_per_line (inc : Str → Except ParseFail (List Instruction)) (fs : Fs)
    (src : Option Str) (ls : List Str) :
    ∀ (n : Nat) (is : List Instruction), parseLinesWith inc fs src n ls = .ok is →
    (∀ l ∈ ls, ∀ a, parseLine l ≠ .ok (.preProcess (some includeName) a)) →
    is.length = ls.length ∧
      ∀ k (hk : k < is.length), (is[k]).mi = { line := some (n + k), source := src } := by
  induction ls with
  | nil =>
    intro n is hp _
    rw [parseLinesWith_nil] at hp
    cases hp
    simp
  | cons l ls ih =>
    intro n is hp hno
    obtain ⟨ty, hty, hpp⟩ := lineGood_of_ok inc fs src n l ls is hp (hno l (by simp))
    rw [parseLinesWith_cons_good inc fs src n l ls ty hty hpp] at hp
    cases hrec : parseLinesWith inc fs src (n + 1) ls with
    | error e => simp [hrec] at hp
    | ok r =>
      simp only [hrec] at hp
      cases hp
      obtain ⟨h1, h2⟩ := ih (n + 1) r hrec (fun l' hl' => hno l' (by simp [hl']))
      refine ⟨by simp [h1], ?_⟩
      intro k hk
      cases k with
      | zero => simp
      | succ k =>
        have := h2 k (by simpa using hk)
        simp only [List.getElem_cons_succ]
        rw [this]
        congr 2
        omega

theorem parseLinesWith_error_after_good (inc : Str → Except ParseFail (List Instruction)) (fs : Fs)
    (src : Option Str) (pre rest : List Str) (e : ParseFail) (m : Nat) :
    ∀ n, (∀ l ∈ pre, LineGood l) → m = n + pre.length →
      parseLinesWith inc fs src m rest = .error e →
      parseLinesWith inc fs src n (pre ++ rest) = .error e := by
  induction pre with
  | nil =>
    intro n _ hm h
    simp at hm
    subst hm
    simpa using h
  | cons l pre ih =>
    intro n hpre hm h
    obtain ⟨ty, hty, hpp⟩ := hpre l (by simp)
    rw [List.cons_append, parseLinesWith_cons_good inc fs src n l _ ty hty hpp]
    rw [ih (n + 1) (fun l' hl' => hpre l' (by simp [hl'])) (by simp at hm; omega) h]

/-! ### no line feed inside a rendered line -/

def NoLF (l : Str) : Prop := ∀ x ∈ l, x ≠ '\n'

theorem noLF_nil : NoLF [] := by simp [NoLF]

theorem noLF_append (a b : Str) : NoLF (a ++ b) ↔ NoLF a ∧ NoLF b := by
  simp only [NoLF, List.mem_append]
  constructor
  · intro h; exact ⟨fun x hx => h x (Or.inl hx), fun x hx => h x (Or.inr hx)⟩
  · rintro ⟨h1, h2⟩ x (hx | hx)
    · exact h1 x hx
    · exact h2 x hx

theorem noLF_cons (c : Char) (a : Str) : NoLF (c :: a) ↔ c ≠ '\n' ∧ NoLF a := by
  simp [NoLF]

theorem noLF_spaces (k : Nat) : NoLF (spaces k) := by
  intro x hx; rw [mem_spaces hx]; decide

theorem noLF_of_nonws (l : Str) (h : ∀ c ∈ l, isWs c = false) : NoLF l := by
  intro x hx; exact (isWs_false_ne (h x hx)).2.1

theorem noLF_name {n : Str} (h : NameOK n) : NoLF n :=
  noLF_of_nonws n (fun c hc => (h.2.1 c hc).1)

theorem noLF_escChar (c : Char) : NoLF (escChar c) := by
  unfold escChar
  repeat' split
  all_goals simp [NoLF]
  all_goals assumption

theorem noLF_escape (s : Str) : NoLF (escape s) := by
  induction s with
  | nil => exact noLF_nil
  | cons c t ih => rw [escape_cons, noLF_append]; exact ⟨noLF_escChar c, ih⟩

theorem noLF_renderArg (q : Bool) (a : Str) : NoLF (renderArg q a) := by
  unfold renderArg
  split
  · rw [noLF_cons, noLF_append, noLF_cons]
    exact ⟨by decide, noLF_escape a, by decide, noLF_nil⟩
  · exact noLF_escape a

theorem noLF_renderArgs (ch : List (Nat × Bool)) (as : List Str) :
    ∀ k, NoLF (renderArgs ch k as) := by
  induction as with
  | nil => intro k; exact noLF_nil
  | cons a as ih =>
    intro k
    simp only [renderArgs, noLF_append]
    exact ⟨⟨noLF_spaces _, noLF_renderArg _ _⟩, ih (k + 1)⟩

theorem noLF_renderLine (ch : Choices) (i : ScriptInstr) (hi : InstrOK i) (hc : ChoicesOK ch) :
    NoLF (renderLine ch i) := by
  obtain ⟨label, output, command, args⟩ := i
  obtain ⟨hlab, hout, hcmd, _, _⟩ := hi
  simp only at hlab hout hcmd
  have hlead : NoLF ch.lead := fun c h => (hc.lead c h).2
  have htrail : NoLF ch.trail := fun c h => (hc.trail c h).2
  have hcm : NoLF (renderComment ch.comment) := by
    cases hcc : ch.comment with
    | none => exact noLF_nil
    | some p =>
      obtain ⟨k, t⟩ := p
      simp only [renderComment, noLF_append, noLF_cons]
      exact ⟨noLF_spaces k, by decide, hc.comment k t hcc⟩
  have hL : ∀ l, label = some l → NoLF l := by
    intro l h
    obtain ⟨n, rfl, hn⟩ := hlab l h
    rw [noLF_cons]; exact ⟨by decide, noLF_name hn⟩
  have hO : ∀ o, output = some o → NoLF o := fun o h => noLF_name (hout o h).1
  have hC : ∀ c, command = some c → NoLF c := fun c h => noLF_name (hcmd c h).1
  have hA := noLF_renderArgs ch.args (args.getD []) 0
  have hsp := noLF_spaces
  have heq : ('=' : Char) ≠ '\n' := by decide
  cases label <;> cases output <;> cases command <;>
    simp [renderLine, renderBody, renderCore, noLF_append, noLF_cons, *]

/-! ### the lines of a rendered script -/

theorem parseLine_congr (a b : Str) (h : trim a = trim b) : parseLine a = parseLine b := by
  unfold parseLine; rw [h]

theorem lines_line_term (l rest : Str) (crlf : Bool) (h : NoLF l) :
    ∃ p, lines (l ++ (if crlf then ['\r', '\n'] else ['\n']) ++ rest) = p :: lines rest ∧
      trim p = trim l := by
  cases crlf with
  | true =>
    refine ⟨l, ?_, rfl⟩
    have e : l ++ (if true = true then ['\r', '\n'] else ['\n']) ++ rest =
        (l ++ ['\r']) ++ '\n' :: rest := by simp
    rw [e, lines_append_LF _ _ (by
      intro x hx
      rcases List.mem_append.mp hx with hx | hx
      · exact h x hx
      · simp at hx; subst hx; decide), stripCr_append_cr]
  | false =>
    refine ⟨stripCr l, ?_, trim_stripCr l⟩
    have e : l ++ (if false = true then ['\r', '\n'] else ['\n']) ++ rest = l ++ '\n' :: rest := by
      simp
    rw [e, lines_append_LF _ _ h]

theorem expected_not_pre (i : ScriptInstr) :
    ∀ c a, expected i = .preProcess c a → c = some printName := by
  intro c a h
  unfold expected at h
  split at h <;> cases h

theorem script_roundtrip (inc : Str → Except ParseFail (List Instruction)) (fs : Fs)
    (items : List (Choices × ScriptInstr × Bool))
    (h : ∀ x ∈ items, InstrOK x.2.1 ∧ ChoicesOK x.1) :
    ∀ n, parseLinesWith inc fs none n (lines (renderScript items)) = .ok (numbered n items) := by
  induction items with
  | nil => intro n; simp [renderScript, lines, linesAux, numbered, parseLinesWith]
  | cons x rest ih =>
    intro n
    obtain ⟨ch, i, crlf⟩ := x
    obtain ⟨hi, hc⟩ := h (ch, i, crlf) (by simp)
    obtain ⟨p, hp, htp⟩ := lines_line_term (renderLine ch i) (renderScript rest) crlf
      (noLF_renderLine ch i hi hc)
    have hpl : parseLine p = .ok (expected i) := by
      rw [parseLine_congr p _ htp]; exact line_roundtrip ch i hi hc
    simp only [renderScript]
    rw [hp, parseLinesWith_cons_good inc fs none n p _ _ hpl (expected_not_pre i),
      ih (fun y hy => h y (by simp [hy])) (n + 1)]
    simp [numbered]

theorem script_roundtrip_open (inc : Str → Except ParseFail (List Instruction)) (fs : Fs)
    (items : List (Choices × ScriptInstr × Bool))
    (h : ∀ x ∈ items, InstrOK x.2.1 ∧ ChoicesOK x.1)
    (hlast : ∀ x, items.getLast? = some x → renderLine x.1 x.2.1 ≠ []) :
    ∀ n, parseLinesWith inc fs none n (lines (renderScriptOpen items)) = .ok (numbered n items) := by
  induction items with
  | nil => intro n; simp [renderScriptOpen, lines, linesAux, numbered, parseLinesWith]
  | cons x rest ih =>
    intro n
    obtain ⟨ch, i, crlf⟩ := x
    obtain ⟨hi, hc⟩ := h (ch, i, crlf) (by simp)
    have hpl0 := line_roundtrip ch i hi hc
    cases rest with
    | nil =>
      have hne : renderLine ch i ≠ [] := hlast (ch, i, crlf) (by simp)
      simp only [renderScriptOpen]
      rw [lines_noLF _ (noLF_renderLine ch i hi hc) hne,
        parseLinesWith_cons_good inc fs none n _ _ _ hpl0 (expected_not_pre i), parseLinesWith_nil]
      simp [numbered]
    | cons y rest' =>
      obtain ⟨p, hp, htp⟩ := lines_line_term (renderLine ch i) (renderScriptOpen (y :: rest')) crlf
        (noLF_renderLine ch i hi hc)
      have hpl : parseLine p = .ok (expected i) := by
        rw [parseLine_congr p _ htp]; exact hpl0
      simp only [renderScriptOpen]
      rw [hp, parseLinesWith_cons_good inc fs none n p _ _ hpl (expected_not_pre i),
        ih (fun z hz => h z (by simp [hz])) (fun z hz => hlast z (by simpa using hz)) (n + 1)]
      simp [numbered]

end Duck
