/-
  The decidable domain checks of Spec/Render.lean imply the domain predicates
  (used to show that the hypotheses of the property theorems are satisfiable).
-/
import DuckModel.Spec.Render

namespace Duck
open Duck.Spec

theorem nameOK_of_b (s : Str) (h : nameOKb s = true) : NameOK s := by
  simp [nameOKb] at h
  obtain ⟨⟨h1, h2⟩, h3⟩ := h
  exact ⟨h1, fun c hc => ⟨(h2 c hc).1.1, (h2 c hc).1.2, (h2 c hc).2⟩, h3⟩

theorem noEq_of_b (s : Str) (h : noEqb s = true) : NoEq s := by
  simp [noEqb] at h
  exact fun c hc => h c hc

theorem firstOK_of_b (s : Str) (h : firstOKb s = true) : FirstOK s := by
  simp [firstOKb] at h
  exact h

theorem labelOK_of_b (l : Str)
    (h : (match l with
      | ':' :: n => nameOKb n
      | _ => false) = true) : ∃ n, l = ':' :: n ∧ NameOK n := by
  split at h
  · rename_i n; exact ⟨n, rfl, nameOK_of_b n h⟩
  · cases h

theorem instrOK_of_b (i : ScriptInstr) (h : instrOKb i = true) : InstrOK i := by
  obtain ⟨label, output, command, args⟩ := i
  simp only [instrOKb, Bool.and_eq_true] at h
  obtain ⟨⟨⟨⟨hl, ho⟩, hc⟩, ha1⟩, ha2⟩ := h
  refine ⟨?_, ?_, ?_, ?_, ?_⟩
  · intro l hl'
    simp only at hl'
    subst hl'
    simp only at hl
    exact labelOK_of_b l hl
  · intro o ho'
    simp only at ho'
    subst ho'
    simp only [Bool.and_eq_true, Bool.or_eq_true] at ho
    obtain ⟨⟨h1, h2⟩, h3⟩ := ho
    refine ⟨nameOK_of_b o h1, noEq_of_b o h2, ?_⟩
    intro hn
    simp only at hn
    subst hn
    simp at h3
    exact firstOK_of_b o h3
  · intro c hc'
    simp only at hc'
    subst hc'
    simp only [Bool.and_eq_true, Bool.or_eq_true] at hc
    obtain ⟨h1, h2⟩ := hc
    refine ⟨nameOK_of_b c h1, ?_⟩
    intro hn
    simp only at hn
    subst hn
    simp only [Option.isSome_none, Bool.false_eq_true, false_or] at h2
    obtain ⟨h2, h3⟩ := h2
    refine ⟨noEq_of_b c h2, ?_⟩
    intro hn
    simp only at hn
    subst hn
    simp at h3
    exact firstOK_of_b c h3
  · intro hn
    simp only at hn ⊢
    subst hn
    simpa using ha1
  · simpa using ha2

theorem choicesOK_of_b (ch : Choices) (h : choicesOKb ch = true) : ChoicesOK ch := by
  simp only [choicesOKb, Bool.and_eq_true, List.all_eq_true] at h
  obtain ⟨⟨h1, h2⟩, h3⟩ := h
  refine ⟨?_, ?_, ?_⟩
  · intro c hc; simpa using h1 c hc
  · intro c hc; simpa using h2 c hc
  · intro k t hk c hc
    rw [hk] at h3
    simp only [List.all_eq_true] at h3
    simpa using h3 c hc

end Duck
