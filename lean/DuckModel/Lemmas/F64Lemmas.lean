/-
  Lemmas about the binary64 model (Sdk/F64.lean): round-half-even integer division, the 53-bit
  window, monotonicity and exactness of rounding, the clamps of `Lit.toF64`.
  Everything is stated over `Nat` / `Int` cross-multiplication (no rationals).
-/
import DuckModel.Sdk.F64
import DuckModel.Spec.F64Order
import DuckModel.Spec.F64Grammar
import DuckModel.Sdk.Strings
import DuckModel.Lemmas.StringsLemmas
import Mathlib.Tactic.Linarith
import Mathlib.Tactic.Ring

namespace Duck.F64

/-! ### `rne`: nearest natural, ties to even -/

/-- `k = rne N D` lies within half a unit of `N / D`, and is even when exactly half a unit away -/
theorem rne_bounds (N D : Nat) (hD : 0 < D) :
    2 * rne N D * D ≤ 2 * N + D ∧ 2 * N ≤ 2 * rne N D * D + D ∧
    (2 * rne N D * D = 2 * N + D → rne N D % 2 = 0) ∧
    (2 * N = 2 * rne N D * D + D → rne N D % 2 = 0) := by
  have hN : D * (N / D) + N % D = N := Nat.div_add_mod N D
  have hr : N % D < D := Nat.mod_lt N hD
  generalize N / D = k at *
  generalize N % D = r at *
  subst hN
  unfold rne
  simp only [Nat.mul_add_mod_self_left, Nat.mod_eq_of_lt hr]
  have hk : (D * k + r) / D = k := by
    rw [Nat.mul_add_div hD, Nat.div_eq_of_lt hr]; simp
  rw [hk]
  split
  · refine ⟨by nlinarith, by nlinarith, ?_, ?_⟩ <;> intro h <;> exfalso <;> nlinarith
  · split
    · refine ⟨by nlinarith, by nlinarith, ?_, ?_⟩ <;> intro h <;> exfalso <;> nlinarith
    · have hD2 : D = 2 * r := by omega
      split
      · refine ⟨by nlinarith, by nlinarith, ?_, ?_⟩
        · intro h; exfalso; nlinarith
        · intro _; assumption
      · refine ⟨by nlinarith, by nlinarith, ?_, ?_⟩
        · intro _; omega
        · intro h; exfalso; nlinarith

theorem rne_exact (D k : Nat) (hD : 0 < D) : rne (D * k) D = k := by
  unfold rne
  simp [Nat.mul_mod_right, hD, Nat.mul_div_cancel_left k hD]

theorem rne_zero (D : Nat) : rne 0 D = 0 := by
  unfold rne; simp

/-- rounding to nearest-even is monotone on fractions -/
theorem rne_mono {N1 D1 N2 D2 : Nat} (h1 : 0 < D1) (h2 : 0 < D2) (h : N1 * D2 ≤ N2 * D1) :
    rne N1 D1 ≤ rne N2 D2 := by
  obtain ⟨a1, _, c1, _⟩ := rne_bounds N1 D1 h1
  obtain ⟨_, b2, _, d2⟩ := rne_bounds N2 D2 h2
  generalize rne N1 D1 = k1 at *
  generalize rne N2 D2 = k2 at *
  by_contra hlt
  have hk : k2 + 1 ≤ k1 := by omega
  have hP : 0 < D1 * D2 := Nat.mul_pos h1 h2
  -- 2 k1 P ≤ 2 N1 D2 + P ≤ 2 N2 D1 + P ≤ 2 k2 P + 2 P
  have e1 : 2 * k1 * (D1 * D2) ≤ 2 * (N1 * D2) + D1 * D2 := by nlinarith
  have e2 : 2 * (N2 * D1) ≤ 2 * k2 * (D1 * D2) + D1 * D2 := by nlinarith
  have e3 : (k2 + 1) * (D1 * D2) ≤ k1 * (D1 * D2) := Nat.mul_le_mul_right _ hk
  have hk1 : k1 * (D1 * D2) = (k2 + 1) * (D1 * D2) := by nlinarith
  have hkk : k1 = k2 + 1 := Nat.eq_of_mul_eq_mul_right hP hk1
  have q1 : 2 * k1 * (D1 * D2) = 2 * (N1 * D2) + D1 * D2 := by nlinarith
  have q2 : 2 * (N2 * D1) = 2 * k2 * (D1 * D2) + D1 * D2 := by nlinarith
  have p1 : 2 * k1 * D1 = 2 * N1 + D1 := by
    apply Nat.eq_of_mul_eq_mul_right h2; nlinarith
  have p2 : 2 * N2 = 2 * k2 * D2 + D2 := by
    apply Nat.eq_of_mul_eq_mul_right h1; nlinarith
  have := c1 p1
  have := d2 p2
  omega

/-! ### the 53-bit window -/

/-- the value `roundScaled` denotes: the rounded mantissa times its power of two -/
def roundVal (N d : Nat) : Nat := rne N (d * 2 ^ scaleExp N d) * 2 ^ scaleExp N d

theorem div_le_div_cross {N1 d1 N2 d2 : Nat} (h1 : 0 < d1) (h2 : 0 < d2) (h : N1 * d2 ≤ N2 * d1) :
    N1 / d1 ≤ N2 / d2 := by
  rw [Nat.le_div_iff_mul_le h2]
  have : N1 / d1 * d1 ≤ N1 := Nat.div_mul_le_self N1 d1
  have h3 : N1 / d1 * d2 * d1 ≤ N2 * d1 := by nlinarith
  exact Nat.le_of_mul_le_mul_right h3 h1

theorem log2_mono {a b : Nat} (h : a ≤ b) : a.log2 ≤ b.log2 := by
  by_cases ha : a = 0
  · subst ha; simp
  · have hb : b ≠ 0 := by omega
    rw [Nat.le_log2 hb]
    exact Nat.le_trans (Nat.log2_self_le ha) h

theorem scaleExp_mono {N1 d1 N2 d2 : Nat} (h1 : 0 < d1) (h2 : 0 < d2) (h : N1 * d2 ≤ N2 * d1) :
    scaleExp N1 d1 ≤ scaleExp N2 d2 := by
  unfold scaleExp
  have := log2_mono (div_le_div_cross h1 h2 h)
  omega

/-- below the top of the window: N / (d · 2^E) < 2^53 -/
theorem lt_window (N d : Nat) (hd : 0 < d) : N < d * 2 ^ scaleExp N d * 2 ^ 53 := by
  have h1 : N / d < 2 ^ ((N / d).log2 + 1) := Nat.lt_log2_self
  have h2 : (N / d).log2 + 1 ≤ scaleExp N d + 53 := by unfold scaleExp; omega
  have h3 : N / d < 2 ^ (scaleExp N d + 53) :=
    Nat.lt_of_lt_of_le h1 (Nat.pow_le_pow_right (by decide) h2)
  rw [Nat.div_lt_iff_lt_mul hd] at h3
  rw [Nat.pow_add] at h3
  calc N < 2 ^ scaleExp N d * 2 ^ 53 * d := h3
    _ = d * 2 ^ scaleExp N d * 2 ^ 53 := by ring

/-- at or above the bottom of the window when the window is not at the floor -/
theorem ge_window (N d : Nat) (hd : 0 < d) (hE : 0 < scaleExp N d) :
    d * 2 ^ scaleExp N d * 2 ^ 52 ≤ N := by
  have hk : N / d ≠ 0 := by
    intro h0; unfold scaleExp at hE; rw [h0] at hE; simp at hE
  have hl : (N / d).log2 = scaleExp N d + 52 := by unfold scaleExp at *; omega
  have h1 : 2 ^ (scaleExp N d + 52) ≤ N / d := by rw [← hl]; exact Nat.log2_self_le hk
  rw [Nat.le_div_iff_mul_le hd, Nat.pow_add] at h1
  calc d * 2 ^ scaleExp N d * 2 ^ 52 = 2 ^ scaleExp N d * 2 ^ 52 * d := by ring
    _ ≤ N := h1

theorem mant_le (N d : Nat) (hd : 0 < d) : rne N (d * 2 ^ scaleExp N d) ≤ 2 ^ 53 := by
  have hD : 0 < d * 2 ^ scaleExp N d := Nat.mul_pos hd (Nat.pow_pos (by decide))
  have := rne_mono (N1 := N) (N2 := d * 2 ^ scaleExp N d * 2 ^ 53) hD hD
    (Nat.mul_le_mul_right _ (Nat.le_of_lt (lt_window N d hd)))
  rwa [rne_exact _ _ hD] at this

theorem mant_ge (N d : Nat) (hd : 0 < d) (hE : 0 < scaleExp N d) :
    2 ^ 52 ≤ rne N (d * 2 ^ scaleExp N d) := by
  have hD : 0 < d * 2 ^ scaleExp N d := Nat.mul_pos hd (Nat.pow_pos (by decide))
  have := rne_mono (N1 := d * 2 ^ scaleExp N d * 2 ^ 52) (N2 := N) hD hD
    (Nat.mul_le_mul_right _ (ge_window N d hd hE))
  rwa [rne_exact _ _ hD] at this

/-- THE KEY FACT: rounding to 53 significant bits is monotone on fractions -/
theorem roundVal_mono {N1 d1 N2 d2 : Nat} (h1 : 0 < d1) (h2 : 0 < d2) (h : N1 * d2 ≤ N2 * d1) :
    roundVal N1 d1 ≤ roundVal N2 d2 := by
  have hE := scaleExp_mono h1 h2 h
  unfold roundVal
  rcases Nat.eq_or_lt_of_le hE with heq | hlt
  · rw [heq]
    apply Nat.mul_le_mul_right
    apply rne_mono (Nat.mul_pos h1 (Nat.pow_pos (by decide))) (Nat.mul_pos h2 (Nat.pow_pos (by decide)))
    calc N1 * (d2 * 2 ^ scaleExp N2 d2) = N1 * d2 * 2 ^ scaleExp N2 d2 := by ring
      _ ≤ N2 * d1 * 2 ^ scaleExp N2 d2 := Nat.mul_le_mul_right _ h
      _ = N2 * (d1 * 2 ^ scaleExp N2 d2) := by ring
  · have a := mant_le N1 d1 h1
    have b := mant_ge N2 d2 h2 (by omega)
    have hp : 2 ^ (scaleExp N1 d1 + 1) ≤ 2 ^ scaleExp N2 d2 := Nat.pow_le_pow_right (by decide) hlt
    calc rne N1 (d1 * 2 ^ scaleExp N1 d1) * 2 ^ scaleExp N1 d1
        ≤ 2 ^ 53 * 2 ^ scaleExp N1 d1 := Nat.mul_le_mul_right _ a
      _ = 2 ^ 52 * 2 ^ (scaleExp N1 d1 + 1) := by rw [Nat.pow_succ]; ring
      _ ≤ 2 ^ 52 * 2 ^ scaleExp N2 d2 := Nat.mul_le_mul_left _ hp
      _ ≤ rne N2 (d2 * 2 ^ scaleExp N2 d2) * 2 ^ scaleExp N2 d2 := Nat.mul_le_mul_right _ b

/-- a natural with at most 53 significant bits is returned unchanged -/
theorem roundVal_exact (M F d : Nat) (hM : M < 2 ^ 53) (hd : 0 < d) :
    roundVal (M * 2 ^ F * d) d = M * 2 ^ F := by
  unfold roundVal
  have hk : M * 2 ^ F * d / d = M * 2 ^ F := Nat.mul_div_cancel _ hd
  have hE : scaleExp (M * 2 ^ F * d) d ≤ F := by
    unfold scaleExp
    rw [hk]
    by_cases h0 : M * 2 ^ F = 0
    · rw [h0]; simp
    · have : (M * 2 ^ F).log2 < 53 + F := by
        rw [Nat.log2_lt h0, Nat.pow_add]
        exact Nat.mul_lt_mul_of_lt_of_le hM (Nat.le_refl _) (Nat.pow_pos (by decide))
      omega
  generalize scaleExp (M * 2 ^ F * d) d = E at *
  obtain ⟨G, rfl⟩ := Nat.exists_eq_add_of_le hE
  have : M * 2 ^ (E + G) * d = d * 2 ^ E * (M * 2 ^ G) := by rw [Nat.pow_add]; ring
  rw [this, rne_exact _ _ (Nat.mul_pos hd (Nat.pow_pos (by decide))), Nat.pow_add]
  ring

theorem roundVal_zero (d : Nat) : roundVal 0 d = 0 := by
  unfold roundVal; rw [rne_zero]; simp

/-- what `roundScaled` returns: a mantissa below 2^53, at least 2^52 unless the exponent is the
    floor, denoting `roundVal` -/
theorem roundScaled_spec (N d : Nat) (hd : 0 < d) :
    (roundScaled N d).1 < 2 ^ 53 ∧ (0 < (roundScaled N d).2 → 2 ^ 52 ≤ (roundScaled N d).1) ∧
    (roundScaled N d).1 * 2 ^ (roundScaled N d).2 = roundVal N d := by
  have hle := mant_le N d hd
  have hge := mant_ge N d hd
  unfold roundScaled roundVal
  simp only
  generalize rne N (d * 2 ^ scaleExp N d) = M at *
  generalize scaleExp N d = E at *
  split
  · rename_i hM
    subst hM
    refine ⟨Nat.pow_lt_pow_right (by decide) (by decide), fun _ => Nat.le_refl _, ?_⟩
    show 2 ^ 52 * 2 ^ (E + 1) = 2 ^ 53 * 2 ^ E
    rw [Nat.pow_succ]; ring
  · rename_i hM
    exact ⟨by omega, hge, rfl⟩

/-! ### the key of a rounded value -/

theorem key_fin (neg : Bool) (M E : Nat) :
    (F64.fin neg M ((E : Int) - 1074)).key = sgn neg (M * 2 ^ E) := by
  simp [F64.key, sgn]

/-- overflow exactly when the rounded value reaches 2^1024 (scaled: 2^2098) -/
theorem roundToF64_inf_iff (neg : Bool) (num den : Nat) (hd : 0 < den) :
    2 ^ 2098 ≤ roundVal (num * 2 ^ 1074) den ↔ roundToF64 neg num den = .inf neg := by
  obtain ⟨h1, h2, h3⟩ := roundScaled_spec (num * 2 ^ 1074) den hd
  unfold roundToF64
  simp only
  generalize roundScaled (num * 2 ^ 1074) den = r at *
  rw [← h3]
  constructor
  · intro h
    rw [if_pos]
    by_contra hE
    have hE' : r.2 ≤ 2045 := by omega
    have hp : 2 ^ r.2 ≤ 2 ^ 2045 := Nat.pow_le_pow_right (by decide) hE'
    have hpos : 0 < 2 ^ 2045 := Nat.two_pow_pos 2045
    have : r.1 * 2 ^ r.2 < 2 ^ 53 * 2 ^ 2045 := Nat.mul_lt_mul_of_lt_of_le h1 hp hpos
    have e : (2 : Nat) ^ 2098 = 2 ^ 53 * 2 ^ 2045 := by
      rw [show (2098 : Nat) = 53 + 2045 from rfl, Nat.pow_add]
    rw [← e] at this
    exact absurd h (Nat.not_le.mpr this)
  · intro h
    split at h
    · rename_i hE
      have hp : 2 ^ 2046 ≤ 2 ^ r.2 := Nat.pow_le_pow_right (by decide) hE
      calc 2 ^ 2098 = 2 ^ 52 * 2 ^ 2046 := by
            rw [show (2098 : Nat) = 52 + 2046 from rfl, Nat.pow_add]
        _ ≤ r.1 * 2 ^ r.2 := Nat.mul_le_mul (h2 (by omega)) hp
    · cases h

/-- the key of a rounded value is the rounded magnitude, capped at the key of infinity -/
theorem key_roundToF64 (neg : Bool) (num den : Nat) (hd : 0 < den) :
    (roundToF64 neg num den).key = sgn neg (min (roundVal (num * 2 ^ 1074) den) (2 ^ 2098)) := by
  by_cases h : 2 ^ 2098 ≤ roundVal (num * 2 ^ 1074) den
  · rw [(roundToF64_inf_iff neg num den hd).mp h, Nat.min_eq_right h]
    cases neg <;> simp [F64.key, sgn]
  · have hne : roundToF64 neg num den ≠ .inf neg := fun e => h ((roundToF64_inf_iff neg num den hd).mpr e)
    obtain ⟨_, _, h3⟩ := roundScaled_spec (num * 2 ^ 1074) den hd
    unfold roundToF64 at hne ⊢
    simp only at hne ⊢
    split
    · rename_i hE; rw [if_pos hE] at hne; exact absurd rfl hne
    · rw [key_fin, h3, Nat.min_eq_left (Nat.le_of_lt (Nat.not_le.mp h))]

theorem roundToF64_not_nan (neg : Bool) (num den : Nat) : (roundToF64 neg num den).isNan = false := by
  unfold roundToF64; simp only; split <;> rfl

theorem roundToF64_zero (neg : Bool) (den : Nat) : roundToF64 neg 0 den = .fin neg 0 (-1074) := by
  unfold roundToF64 roundScaled scaleExp
  simp [rne_zero]

/-- a magnitude that rounds to zero gives the signed zero -/
theorem roundToF64_eq_zero (neg : Bool) (num den : Nat) (hd : 0 < den)
    (h : roundVal (num * 2 ^ 1074) den = 0) : roundToF64 neg num den = .fin neg 0 (-1074) := by
  obtain ⟨_, h2, h3⟩ := roundScaled_spec (num * 2 ^ 1074) den hd
  unfold roundToF64
  simp only
  generalize roundScaled (num * 2 ^ 1074) den = r at *
  rw [h] at h3
  have hm : r.1 = 0 := by
    rcases Nat.mul_eq_zero.mp h3 with h | h
    · exact h
    · exact absurd h (Nat.ne_of_gt (Nat.pow_pos (by decide)))
  have he : r.2 = 0 := by
    by_contra hne
    have := h2 (by omega)
    rw [hm] at this
    exact absurd this (by decide)
  rw [hm, he]; simp

/-! ### monotonicity of the signed rounding -/

theorem scaled_cross {a1 d1 a2 d2 : Nat} (h : a1 * d2 ≤ a2 * d1) :
    a1 * 2 ^ 1074 * d2 ≤ a2 * 2 ^ 1074 * d1 := by
  calc a1 * 2 ^ 1074 * d2 = a1 * d2 * 2 ^ 1074 := by ring
    _ ≤ a2 * d1 * 2 ^ 1074 := Nat.mul_le_mul_right _ h
    _ = a2 * 2 ^ 1074 * d1 := by ring

theorem key_mono_pos {a1 d1 a2 d2 : Nat} (h1 : 0 < d1) (h2 : 0 < d2) (h : a1 * d2 ≤ a2 * d1) :
    min (roundVal (a1 * 2 ^ 1074) d1) (2 ^ 2098) ≤ min (roundVal (a2 * 2 ^ 1074) d2) (2 ^ 2098) := by
  have := roundVal_mono h1 h2 (scaled_cross h)
  generalize 2 ^ 2098 = B
  omega

/-- round-to-nearest-even into binary64 is monotone on signed fractions -/
theorem round_monotone (n1 n2 : Bool) (a1 d1 a2 d2 : Nat) (h1 : 0 < d1) (h2 : 0 < d2)
    (h : sgn n1 a1 * (d2 : Int) ≤ sgn n2 a2 * (d1 : Int)) :
    (roundToF64 n1 a1 d1).le (roundToF64 n2 a2 d2) = true := by
  unfold F64.le
  rw [roundToF64_not_nan, roundToF64_not_nan, key_roundToF64 _ _ _ h1, key_roundToF64 _ _ _ h2]
  simp only [Bool.not_false, Bool.true_and, decide_eq_true_eq]
  cases n1 <;> cases n2 <;> simp only [sgn, Bool.false_eq_true, if_false, if_true] at h ⊢
  · have h' : a1 * d2 ≤ a2 * d1 := by exact_mod_cast h
    have := key_mono_pos h1 h2 h'
    exact_mod_cast this
  · -- a1/d1 ≤ -(a2/d2): both are zero
    have hz : (a1 : Int) * d2 + a2 * d1 ≤ 0 := by linarith
    have p1 : (0 : Int) ≤ (a1 : Int) * d2 := by positivity
    have p2 : (0 : Int) ≤ (a2 : Int) * d1 := by positivity
    have z1 : a1 * d2 = 0 := by
      have : (a1 : Int) * d2 = 0 := by linarith
      exact_mod_cast this
    have z2 : a2 * d1 = 0 := by
      have : (a2 : Int) * d1 = 0 := by linarith
      exact_mod_cast this
    have e1 : a1 = 0 := by
      rcases Nat.mul_eq_zero.mp z1 with h | h
      · exact h
      · omega
    have e2 : a2 = 0 := by
      rcases Nat.mul_eq_zero.mp z2 with h | h
      · exact h
      · omega
    subst e1; subst e2
    simp [roundVal_zero]
  · have p1 : (0 : Int) ≤ ((min (roundVal (a1 * 2 ^ 1074) d1) (2 ^ 2098) : Nat) : Int) := Int.natCast_nonneg _
    have p2 : (0 : Int) ≤ ((min (roundVal (a2 * 2 ^ 1074) d2) (2 ^ 2098) : Nat) : Int) := Int.natCast_nonneg _
    linarith
  · have h' : a2 * d1 ≤ a1 * d2 := by
      have : (a2 : Int) * d1 ≤ (a1 : Int) * d2 := by linarith
      exact_mod_cast this
    have := key_mono_pos h2 h1 h'
    have : ((min (roundVal (a2 * 2 ^ 1074) d2) (2 ^ 2098) : Nat) : Int) ≤
        ((min (roundVal (a1 * 2 ^ 1074) d1) (2 ^ 2098) : Nat) : Int) := by exact_mod_cast this
    linarith

/-! ### literals: the clamps of `Lit.toF64` never change the value -/

theorem toF64Exact_dec (neg : Bool) (mant : Nat) (exp : Int) :
    (Lit.dec neg mant exp).toF64Exact = roundToF64 neg (mant * 10 ^ exp.toNat) (10 ^ (-exp).toNat) := by
  simp only [Lit.toF64Exact]
  split
  · rename_i h
    have : (-exp).toNat = 0 := by omega
    rw [this]; rfl
  · rename_i h
    have : exp.toNat = 0 := by omega
    rw [this]; simp

theorem pow10_pos (k : Nat) : 0 < 10 ^ k := Nat.pow_pos (by decide)

theorem two_le_ten_1024 : (2 : Nat) ^ 1024 ≤ 10 ^ 401 := by decide +kernel
theorem two_le_ten_1076 : (2 : Nat) ^ 1076 ≤ 10 ^ 401 := by decide +kernel
theorem roundVal_quarter : roundVal 1 4 = 0 := by decide +kernel

theorem overflow_clamp (neg : Bool) (mant k : Nat) (hm : mant ≠ 0) (hk : 401 ≤ k) :
    roundToF64 neg (mant * 10 ^ k) 1 = .inf neg := by
  apply (roundToF64_inf_iff neg _ 1 (by decide)).mp
  have hx : roundVal (2 ^ 52 * 2 ^ 2046 * 1) 1 = 2 ^ 52 * 2 ^ 2046 :=
    roundVal_exact (2 ^ 52) 2046 1 (Nat.pow_lt_pow_right (by decide) (by decide)) (by decide)
  have e1 : (2 : Nat) ^ 2098 = 2 ^ 52 * 2 ^ 2046 := by
    rw [show (2098 : Nat) = 52 + 2046 from rfl, Nat.pow_add]
  have e2 : (2 : Nat) ^ 2098 = 2 ^ 1024 * 2 ^ 1074 := by
    rw [show (2098 : Nat) = 1024 + 1074 from rfl, Nat.pow_add]
  rw [e1, ← hx]
  apply roundVal_mono (by decide) (by decide)
  rw [← e1, e2]
  have h10 : 10 ^ 401 ≤ 10 ^ k := Nat.pow_le_pow_right (by decide) hk
  have h1 : 2 ^ 1024 ≤ mant * 10 ^ k :=
    calc 2 ^ 1024 ≤ 10 ^ 401 := two_le_ten_1024
      _ ≤ 10 ^ k := h10
      _ = 1 * 10 ^ k := (Nat.one_mul _).symm
      _ ≤ mant * 10 ^ k := Nat.mul_le_mul_right _ (by omega)
  calc 2 ^ 1024 * 2 ^ 1074 * 1 * 1 = 2 ^ 1024 * 2 ^ 1074 := by simp
    _ ≤ mant * 10 ^ k * 2 ^ 1074 := Nat.mul_le_mul_right _ h1
    _ = mant * 10 ^ k * 2 ^ 1074 * 1 := by simp

theorem underflow_clamp (neg : Bool) (mant k : Nat) (hk : 401 + (mant.log2 + 1) ≤ k) :
    roundToF64 neg mant (10 ^ k) = .fin neg 0 (-1074) := by
  apply roundToF64_eq_zero neg mant (10 ^ k) (pow10_pos k)
  have h0 : roundVal (mant * 2 ^ 1074) (10 ^ k) ≤ roundVal 1 4 := by
    apply roundVal_mono (pow10_pos k) (by decide)
    have hm : mant < 2 ^ (mant.log2 + 1) := Nat.lt_log2_self
    have h2 : 2 ^ (mant.log2 + 1) ≤ 10 ^ (mant.log2 + 1) := Nat.pow_le_pow_left (by decide) _
    have h3 : 10 ^ (401 + (mant.log2 + 1)) ≤ 10 ^ k := Nat.pow_le_pow_right (by decide) hk
    rw [Nat.pow_add] at h3
    have e : (2 : Nat) ^ 1076 = 2 ^ 1074 * 4 := by
      rw [show (1076 : Nat) = 1074 + 2 from rfl, Nat.pow_add]
    calc mant * 2 ^ 1074 * 4 = mant * (2 ^ 1074 * 4) := by ring
      _ = mant * 2 ^ 1076 := by rw [e]
      _ ≤ 10 ^ (mant.log2 + 1) * 10 ^ 401 :=
          Nat.mul_le_mul (Nat.le_trans (Nat.le_of_lt hm) h2) two_le_ten_1076
      _ = 10 ^ 401 * 10 ^ (mant.log2 + 1) := Nat.mul_comm _ _
      _ ≤ 10 ^ k := h3
      _ = 1 * 10 ^ k := (Nat.one_mul _).symm
  rw [roundVal_quarter] at h0
  omega

/-- the executable reader (clamped) and the clamp-free definition agree on every literal -/
theorem toF64_eq_exact (l : Lit) : l.toF64 = l.toF64Exact := by
  cases l with
  | nan => rfl
  | inf n => rfl
  | dec neg mant exp =>
    rw [toF64Exact_dec]
    simp only [Lit.toF64]
    split
    · rename_i h; subst h; simp [roundToF64_zero]
    · rename_i hm
      split
      · rename_i he
        have h0 : (-exp).toNat = 0 := by omega
        rw [h0, Nat.pow_zero]
        exact (overflow_clamp neg mant exp.toNat hm (by omega)).symm
      · split
        · rename_i he
          have h0 : exp.toNat = 0 := by omega
          rw [h0, Nat.pow_zero, Nat.mul_one]
          exact (underflow_clamp neg mant (-exp).toNat (by omega)).symm
        · split
          · rename_i h
            have : (-exp).toNat = 0 := by omega
            rw [this]; rfl
          · rename_i h
            have : exp.toNat = 0 := by omega
            rw [this]; simp

/-! ### keys of read literals -/

/-- the key of infinity as an integer, kept symbolic in proofs -/
def bigKey : Int := ((2 ^ 2098 : Nat) : Int)

theorem bigKey_pos : 0 < bigKey := by
  unfold bigKey; exact_mod_cast Nat.two_pow_pos 2098

theorem key_inf (neg : Bool) : (F64.inf neg).key = if neg then -bigKey else bigKey := rfl

theorem sgn_abs_le (neg : Bool) (v B : Nat) (h : v ≤ B) : -(B : Int) ≤ sgn neg v ∧ sgn neg v ≤ (B : Int) := by
  cases neg <;> simp [sgn] <;> omega

theorem key_dec (neg : Bool) (mant : Nat) (exp : Int) :
    (Lit.dec neg mant exp).toF64.key =
      sgn neg (min (roundVal (mant * 10 ^ exp.toNat * 2 ^ 1074) (10 ^ (-exp).toNat)) (2 ^ 2098)) := by
  rw [toF64_eq_exact, toF64Exact_dec, key_roundToF64 _ _ _ (pow10_pos _)]

theorem key_dec_bounds (neg : Bool) (mant : Nat) (exp : Int) :
    -bigKey ≤ (Lit.dec neg mant exp).toF64.key ∧ (Lit.dec neg mant exp).toF64.key ≤ bigKey := by
  rw [key_dec]
  exact sgn_abs_le neg _ _ (Nat.min_le_right _ _)

theorem dec_not_nan (neg : Bool) (mant : Nat) (exp : Int) : (Lit.dec neg mant exp).toF64.isNan = false := by
  rw [toF64_eq_exact, toF64Exact_dec, roundToF64_not_nan]

theorem sgn_mul (neg : Bool) (a b : Nat) : sgn neg a * (b : Int) = sgn neg (a * b) := by
  cases neg <;> simp [sgn]

/-- monotonicity, on literals: the exact order `≤` is carried to the keys -/
theorem dec_key_mono (n1 n2 : Bool) (m1 m2 : Nat) (e1 e2 : Int)
    (h : (Lit.dec n1 m1 e1).num * ((Lit.dec n2 m2 e2).den : Int) ≤ (Lit.dec n2 m2 e2).num * ((Lit.dec n1 m1 e1).den : Int)) :
    (Lit.dec n1 m1 e1).toF64.key ≤ (Lit.dec n2 m2 e2).toF64.key := by
  have := round_monotone n1 n2 (m1 * 10 ^ e1.toNat) (10 ^ (-e1).toNat) (m2 * 10 ^ e2.toNat) (10 ^ (-e2).toNat)
    (pow10_pos _) (pow10_pos _) h
  rw [← toF64Exact_dec, ← toF64Exact_dec, ← toF64_eq_exact, ← toF64_eq_exact] at this
  unfold F64.le at this
  rw [dec_not_nan, dec_not_nan] at this
  simpa using this

/-- SOUNDNESS on literals: a strict IEEE order between the rounded values is a strict order between
    the exact values -/
theorem lit_lt_sound (la lb : Lit) (h : F64.lt la.toF64 lb.toF64 = true) : la.exactLt lb := by
  have hB := bigKey_pos
  cases la with
  | nan => simp [Lit.toF64, F64.lt, F64.isNan] at h
  | inf na =>
    cases lb with
    | nan => simp [Lit.toF64, F64.lt, F64.isNan] at h
    | inf nb =>
      simp only [Lit.toF64, F64.lt, F64.isNan, key_inf, Bool.not_false, Bool.true_and, decide_eq_true_eq] at h
      cases na <;> cases nb <;> simp [Lit.exactLt] at h ⊢ <;> omega
    | dec n2 m2 e2 =>
      have hb := key_dec_bounds n2 m2 e2
      simp only [F64.lt, dec_not_nan, Bool.not_false, Bool.true_and, Bool.and_true, decide_eq_true_eq] at h
      have : (Lit.inf na).toF64 = F64.inf na := rfl
      rw [this, key_inf] at h
      simp only [F64.isNan, Bool.not_false, Bool.true_and, decide_eq_true_eq] at h
      cases na
      · simp at h; omega
      · simp [Lit.exactLt]
  | dec n1 m1 e1 =>
    cases lb with
    | nan => simp [Lit.toF64, F64.lt, F64.isNan] at h
    | inf nb =>
      have hb := key_dec_bounds n1 m1 e1
      simp only [F64.lt, dec_not_nan, Bool.not_false, Bool.true_and, decide_eq_true_eq] at h
      have : (Lit.inf nb).toF64 = F64.inf nb := rfl
      rw [this, key_inf] at h
      simp only [F64.isNan, Bool.not_false, Bool.true_and, decide_eq_true_eq] at h
      cases nb
      · simp [Lit.exactLt]
      · simp at h; omega
    | dec n2 m2 e2 =>
      simp only [F64.lt, dec_not_nan, Bool.not_false, Bool.true_and, decide_eq_true_eq] at h
      show (Lit.dec n1 m1 e1).num * ((Lit.dec n2 m2 e2).den : Int) < (Lit.dec n2 m2 e2).num * ((Lit.dec n1 m1 e1).den : Int)
      by_contra hn
      have := dec_key_mono n2 n1 m2 m1 e2 e1 (by omega)
      omega

/-! ### representable literals: the answer IS the exact order -/

theorem sgn_lt_scale (n1 n2 : Bool) (x y c : Nat) (hc : 0 < c) :
    sgn n1 (x * c) < sgn n2 (y * c) ↔ sgn n1 x < sgn n2 y := by
  have hc' : (0 : Int) < (c : Int) := by exact_mod_cast hc
  have hx : (0 : Int) ≤ (x : Int) := Int.natCast_nonneg _
  have hy : (0 : Int) ≤ (y : Int) := Int.natCast_nonneg _
  cases n1 <;> cases n2 <;> simp only [sgn, Bool.false_eq_true, if_false, if_true] <;> push_cast <;>
    constructor <;> intro h <;> nlinarith

theorem key_representable (neg : Bool) (mant : Nat) (exp : Int) (M F : Nat) (hM : M < 2 ^ 53)
    (hB : M * 2 ^ F < 2 ^ 2098)
    (hv : mant * 10 ^ exp.toNat * 2 ^ 1074 = M * 2 ^ F * 10 ^ (-exp).toNat) :
    (Lit.dec neg mant exp).toF64.key = sgn neg (M * 2 ^ F) := by
  rw [key_dec, hv, roundVal_exact M F _ hM (pow10_pos _), Nat.min_eq_left (Nat.le_of_lt hB)]

theorem lt_eq_of_not_nan (a b : F64) (ha : a.isNan = false) (hb : b.isNan = false) :
    F64.lt a b = decide (a.key < b.key) := by
  simp [F64.lt, ha, hb]

theorem sgn_abs_lt (neg : Bool) (v : Nat) (h : v < 2 ^ 2098) : -bigKey < sgn neg v ∧ sgn neg v < bigKey := by
  have h' : (v : Int) < bigKey := by unfold bigKey; exact_mod_cast h
  cases neg <;> simp [sgn] <;> omega

theorem lit_lt_exact (la lb : Lit) (ra : la.Representable) (rb : lb.Representable) :
    F64.lt la.toF64 lb.toF64 = decide (la.exactLt lb) := by
  have hBig := bigKey_pos
  cases la with
  | nan => exact absurd ra (by simp [Lit.Representable])
  | inf na =>
    cases lb with
    | nan => exact absurd rb (by simp [Lit.Representable])
    | inf nb =>
      rw [lt_eq_of_not_nan _ _ rfl rfl]
      simp only [Lit.toF64, key_inf]
      cases na <;> cases nb <;> simp [Lit.exactLt] <;> omega
    | dec n2 m2 e2 =>
      obtain ⟨M, F, hM, hB, hv⟩ := rb
      have hk := key_representable n2 m2 e2 M F hM hB hv
      have hb := sgn_abs_lt n2 (M * 2 ^ F) hB
      rw [lt_eq_of_not_nan _ _ rfl (dec_not_nan _ _ _), hk]
      have : (Lit.inf na).toF64 = F64.inf na := rfl
      rw [this, key_inf]
      cases na <;> simp [Lit.exactLt] <;> omega
  | dec n1 m1 e1 =>
    obtain ⟨M1, F1, hM1, hB1, hv1⟩ := ra
    have hk1 := key_representable n1 m1 e1 M1 F1 hM1 hB1 hv1
    cases lb with
    | nan => exact absurd rb (by simp [Lit.Representable])
    | inf nb =>
      have hb := sgn_abs_lt n1 (M1 * 2 ^ F1) hB1
      rw [lt_eq_of_not_nan _ _ (dec_not_nan _ _ _) rfl, hk1]
      have : (Lit.inf nb).toF64 = F64.inf nb := rfl
      rw [this, key_inf]
      cases nb <;> simp [Lit.exactLt] <;> omega
    | dec n2 m2 e2 =>
      obtain ⟨M2, F2, hM2, hB2, hv2⟩ := rb
      have hk2 := key_representable n2 m2 e2 M2 F2 hM2 hB2 hv2
      rw [lt_eq_of_not_nan _ _ (dec_not_nan _ _ _) (dec_not_nan _ _ _), hk1, hk2]
      have hd1 := pow10_pos (-e1).toNat
      have hd2 := pow10_pos (-e2).toNat
      have hP : 0 < 2 ^ 1074 := Nat.two_pow_pos 1074
      have key : sgn n1 (M1 * 2 ^ F1) < sgn n2 (M2 * 2 ^ F2) ↔
          (Lit.dec n1 m1 e1).num * ((Lit.dec n2 m2 e2).den : Int) < (Lit.dec n2 m2 e2).num * ((Lit.dec n1 m1 e1).den : Int) := by
        simp only [Lit.num, Lit.den, sgn_mul]
        clear hk1 hk2 hB1 hB2 hM1 hM2
        generalize 10 ^ (-e1).toNat = d1 at *
        generalize 10 ^ (-e2).toNat = d2 at *
        generalize m1 * 10 ^ e1.toNat = a1 at *
        generalize m2 * 10 ^ e2.toNat = a2 at *
        generalize M1 * 2 ^ F1 = V1 at *
        generalize M2 * 2 ^ F2 = V2 at *
        generalize 2 ^ 1074 = P at *
        rw [← sgn_lt_scale n1 n2 (a1 * d2) (a2 * d1) P hP]
        have x1 : a1 * d2 * P = V1 * (d1 * d2) := by
          calc a1 * d2 * P = a1 * P * d2 := by ring
            _ = V1 * d1 * d2 := by rw [hv1]
            _ = V1 * (d1 * d2) := by ring
        have x2 : a2 * d1 * P = V2 * (d1 * d2) := by
          calc a2 * d1 * P = a2 * P * d1 := by ring
            _ = V2 * d2 * d1 := by rw [hv2]
            _ = V2 * (d1 * d2) := by ring
        rw [x1, x2, sgn_lt_scale n1 n2 V1 V2 (d1 * d2) (Nat.mul_pos hd1 hd2)]
      exact decide_eq_decide.mpr key

/-! ### integer literals (what `str::parse::<i64>` accepts) are `f64` literals with exponent 0 -/

theorem isDigit_eq : Strings.isDigit = isDigit := rfl
theorem digitsVal_eq : Strings.digitsVal = digitsVal := rfl

theorem takeWhile_all_digits {l : List Char} (h : l.all isDigit = true) :
    l.takeWhile isDigit = l ∧ l.dropWhile isDigit = [] := by
  induction l with
  | nil => simp
  | cons c r ih =>
    simp only [List.all_cons, Bool.and_eq_true] at h
    simp [h.1, ih h.2]

theorem foldl_digits_lt (l : List Char) (hall : l.all isDigit = true) (acc : Nat) :
    l.foldl (fun acc c => acc * 10 + (c.toNat - 48)) acc < (acc + 1) * 10 ^ l.length := by
  induction l generalizing acc with
  | nil => simp
  | cons c r ih =>
    simp only [List.all_cons, Bool.and_eq_true] at hall
    have hc : c.toNat - 48 ≤ 9 := by
      have := hall.1
      simp only [isDigit, Bool.and_eq_true, decide_eq_true_eq] at this
      omega
    have := ih hall.2 (acc * 10 + (c.toNat - 48))
    simp only [List.foldl_cons, List.length_cons]
    calc _ < (acc * 10 + (c.toNat - 48) + 1) * 10 ^ r.length := this
      _ ≤ ((acc + 1) * 10) * 10 ^ r.length := Nat.mul_le_mul_right _ (by omega)
      _ = (acc + 1) * 10 ^ (r.length + 1) := by rw [Nat.pow_succ]; ring

theorem digitsVal_lt (l : List Char) (hall : l.all isDigit = true) : digitsVal l < 10 ^ l.length := by
  have := foldl_digits_lt l hall 0
  simpa [digitsVal] using this

theorem parseLit_digits (c : Char) (r : List Char) (neg : Bool) (l : List Char) (hne : l ≠ [])
    (hall : l.all isDigit = true) (hl : l = (if c = '-' ∨ c = '+' then r else c :: r))
    (hneg : neg = decide (c = '-')) :
    parseLit (c :: r) = some (.dec neg (digitsVal l) 0) := by
  obtain ⟨htw, hdw⟩ := takeWhile_all_digits hall
  unfold parseLit parseBody
  simp only [← hl, htw, hdw]
  rw [if_neg hne]
  have : ¬ (l.length + 0 = 0) := by
    have := List.length_pos_iff.mpr hne
    omega
  simp [hneg, hne]

theorem parseLit_of_parseInt {s : Str} {v : Int} (h : Strings.parseInt s = some v) :
    ∃ neg n, parseLit s = some (.dec neg n 0) ∧ sgn neg n = v ∧ n < 10 ^ s.length := by
  cases s with
  | nil => simp [Strings.parseInt] at h
  | cons c r =>
    simp only [Strings.parseInt] at h
    by_cases hp : c = '+'
    · subst hp
      simp only [if_true] at h
      cases hd : Strings.parseDigits r with
      | none => simp [hd] at h
      | some n =>
        simp [hd] at h
        unfold Strings.parseDigits at hd
        split at hd
        · rename_i hc
          cases hd
          rw [isDigit_eq] at hc
          exact ⟨false, _, parseLit_digits '+' r false r hc.1 hc.2 (by simp) (by decide), by
            rw [← h, digitsVal_eq]; rfl,
            Nat.lt_of_lt_of_le (digitsVal_lt r hc.2) (Nat.pow_le_pow_right (by decide) (by simp))⟩
        · cases hd
    · rw [if_neg hp] at h
      by_cases hm : c = '-'
      · subst hm
        simp only [if_true] at h
        cases hd : Strings.parseDigits r with
        | none => simp [hd] at h
        | some n =>
          simp [hd] at h
          unfold Strings.parseDigits at hd
          split at hd
          · rename_i hc
            cases hd
            rw [isDigit_eq] at hc
            exact ⟨true, _, parseLit_digits '-' r true r hc.1 hc.2 (by simp) (by decide), by
              rw [← h, digitsVal_eq]; rfl,
              Nat.lt_of_lt_of_le (digitsVal_lt r hc.2) (Nat.pow_le_pow_right (by decide) (by simp))⟩
          · cases hd
      · rw [if_neg hm] at h
        cases hd : Strings.parseDigits (c :: r) with
        | none => simp [hd] at h
        | some n =>
          simp [hd] at h
          unfold Strings.parseDigits at hd
          split at hd
          · rename_i hc
            cases hd
            rw [isDigit_eq] at hc
            exact ⟨false, _, parseLit_digits c r false (c :: r) hc.1 hc.2 (by simp [hp, hm]) (by simp [hm]), by
              rw [← h, digitsVal_eq]; rfl, digitsVal_lt (c :: r) hc.2⟩
          · cases hd

/-- an integer of magnitude at most 2^53 is a binary64 value -/
theorem int_representable (neg : Bool) (n : Nat) (h : n ≤ 2 ^ 53) : (Lit.dec neg n 0).Representable := by
  have e0 : (0 : Int).toNat = 0 := rfl
  have e1 : (-(0 : Int)).toNat = 0 := rfl
  have hlt : (2 : Nat) ^ 53 * 2 ^ 1074 < 2 ^ 2098 := by
    rw [← Nat.pow_add]; exact Nat.pow_lt_pow_right (by decide) (by decide)
  rcases Nat.eq_or_lt_of_le h with heq | hlt'
  · refine ⟨2 ^ 52, 1075, Nat.pow_lt_pow_right (by decide) (by decide), ?_, ?_⟩
    · rw [← Nat.pow_add]; exact Nat.pow_lt_pow_right (by decide) (by decide)
    · rw [e0, e1, heq, Nat.pow_zero, Nat.mul_one, Nat.mul_one, ← Nat.pow_add, ← Nat.pow_add]
  · refine ⟨n, 1074, hlt', ?_, ?_⟩
    · have hpos : 0 < 2 ^ 1074 := Nat.two_pow_pos 1074
      have h1 : n * 2 ^ 1074 < 2 ^ 53 * 2 ^ 1074 := Nat.mul_lt_mul_of_pos_right hlt' hpos
      exact Nat.lt_trans h1 hlt
    · rw [e0, e1, Nat.pow_zero, Nat.mul_one, Nat.mul_one]

theorem exactLt_int (n1 n2 : Bool) (a b : Nat) :
    (Lit.dec n1 a 0).exactLt (Lit.dec n2 b 0) ↔ sgn n1 a < sgn n2 b := by
  show (Lit.dec n1 a 0).num * ((Lit.dec n2 b 0).den : Int) < (Lit.dec n2 b 0).num * ((Lit.dec n1 a 0).den : Int) ↔ _
  simp [Lit.num, Lit.den]

/-! ### canonical form; the two commands on read literals -/

/-- the form of every value `roundToF64` returns: 53-bit mantissa, exponent range of binary64,
    mantissa below 2^52 only at the smallest exponent (subnormals and zeros) -/
def F64.Canonical : F64 → Prop
  | .fin _ m e => m < 2 ^ 53 ∧ -1074 ≤ e ∧ e ≤ 971 ∧ (m < 2 ^ 52 → e = -1074)
  | _ => True

theorem roundToF64_canonical (neg : Bool) (num den : Nat) (hd : 0 < den) :
    (roundToF64 neg num den).Canonical := by
  obtain ⟨h1, h2, _⟩ := roundScaled_spec (num * 2 ^ 1074) den hd
  unfold roundToF64
  simp only
  generalize roundScaled (num * 2 ^ 1074) den = r at *
  split
  · trivial
  · rename_i hE
    refine ⟨h1, by omega, by omega, ?_⟩
    intro hm
    by_contra hne
    have := h2 (by omega)
    omega

open Duck.Strings in
theorem compare_parsed {a b : Str} {la lb : Lit} (ha : parseLit a = some la) (hb : parseLit b = some lb) :
    lessThan [a, b] = .bool (F64.lt la.toF64 lb.toF64) ∧
    greaterThan [a, b] = .bool (F64.lt lb.toF64 la.toF64) := by
  simp [lessThan, greaterThan, compareWith, parseF64, ha, hb, F64.gt]

/-! ### plain decimals of at most 15 significant digits: rounding is STRICTLY monotone -/

/-- if the larger fraction does not round strictly higher, the two fractions are within one unit in
    the last place of the larger one: (a₂/d₂ − a₁/d₁) · 2^1074 ≤ 2^E₂ -/
theorem close_of_not_lt {a1 d1 a2 d2 : Nat} (h1 : 0 < d1) (h2 : 0 < d2) (hlt : a1 * d2 < a2 * d1)
    (h : roundVal (a2 * 2 ^ 1074) d2 ≤ roundVal (a1 * 2 ^ 1074) d1) :
    a2 * d1 * 2 ^ 1074 ≤ a1 * d2 * 2 ^ 1074 + d1 * d2 * 2 ^ scaleExp (a2 * 2 ^ 1074) d2 := by
  have hE := scaleExp_mono h1 h2 (scaled_cross (Nat.le_of_lt hlt))
  have hp : 2 ^ scaleExp (a1 * 2 ^ 1074) d1 ≤ 2 ^ scaleExp (a2 * 2 ^ 1074) d2 :=
    Nat.pow_le_pow_right (by decide) hE
  have b1 := (rne_bounds (a1 * 2 ^ 1074) (d1 * 2 ^ scaleExp (a1 * 2 ^ 1074) d1)
    (Nat.mul_pos h1 (Nat.two_pow_pos _))).1
  have b2 := (rne_bounds (a2 * 2 ^ 1074) (d2 * 2 ^ scaleExp (a2 * 2 ^ 1074) d2)
    (Nat.mul_pos h2 (Nat.two_pow_pos _))).2.1
  unfold roundVal at h
  generalize scaleExp (a1 * 2 ^ 1074) d1 = E1 at *
  generalize scaleExp (a2 * 2 ^ 1074) d2 = E2 at *
  generalize rne (a1 * 2 ^ 1074) (d1 * 2 ^ E1) = v1 at *
  generalize rne (a2 * 2 ^ 1074) (d2 * 2 ^ E2) = v2 at *
  generalize 2 ^ E1 = p1 at *
  generalize 2 ^ E2 = p2 at *
  generalize 2 ^ 1074 = P at *
  -- x1 = v1 p1, x2 = v2 p2
  have c1 : 2 * (v1 * p1) * d1 * d2 ≤ 2 * (a1 * P) * d2 + d1 * d2 * p1 := by nlinarith
  have c2 : 2 * (a2 * P) * d1 ≤ 2 * (v2 * p2) * d2 * d1 + d1 * d2 * p2 := by nlinarith
  have c3 : (v2 * p2) * (d1 * d2) ≤ (v1 * p1) * (d1 * d2) := Nat.mul_le_mul_right _ h
  have c4 : d1 * d2 * p1 ≤ d1 * d2 * p2 := Nat.mul_le_mul_left _ hp
  nlinarith

theorem pow15_facts : (10 : Nat) ^ 15 < 2 ^ 50 ∧ (10 : Nat) ^ 15 * 10 ^ 15 < 2 ^ 1074 := by
  constructor
  · decide
  · decide +kernel

/-- two distinct decimals m/10^s with m < 10^15, s ≤ 15 never round to the same double -/
theorem decimal15_strict {m1 s1 m2 s2 : Nat} (hm1 : m1 < 10 ^ 15) (hm2 : m2 < 10 ^ 15)
    (hs1 : s1 ≤ 15) (hs2 : s2 ≤ 15) (hlt : m1 * 10 ^ s2 < m2 * 10 ^ s1) :
    roundVal (m1 * 2 ^ 1074) (10 ^ s1) < roundVal (m2 * 2 ^ 1074) (10 ^ s2) := by
  by_contra hn
  have hn' := Nat.le_of_not_lt hn
  have hc := close_of_not_lt (pow10_pos s1) (pow10_pos s2) hlt hn'
  have hd1 : 10 ^ s1 ≤ 10 ^ 15 := Nat.pow_le_pow_right (by decide) hs1
  have hd2 : 10 ^ s2 ≤ 10 ^ 15 := Nat.pow_le_pow_right (by decide) hs2
  have hP : 0 < 2 ^ 1074 := Nat.two_pow_pos 1074
  -- a unit g of the coarser grid separates the two cross products
  have hg : ∃ g, 0 < g ∧ m1 * 10 ^ s2 + g ≤ m2 * 10 ^ s1 ∧
      (m1 * 10 ^ s2 < 10 ^ 15 * g ∨ m2 * 10 ^ s1 < 10 ^ 15 * g) := by
    rcases Nat.le_total s2 s1 with hle | hle
    · obtain ⟨t, rfl⟩ := Nat.exists_eq_add_of_le hle
      refine ⟨10 ^ s2, pow10_pos _, ?_, Or.inl ?_⟩
      · have h' : m1 * 10 ^ s2 < m2 * 10 ^ t * 10 ^ s2 := by
          calc m1 * 10 ^ s2 < m2 * 10 ^ (s2 + t) := hlt
            _ = m2 * 10 ^ t * 10 ^ s2 := by rw [Nat.pow_add]; ring
        have h'' : m1 + 1 ≤ m2 * 10 ^ t := Nat.lt_of_mul_lt_mul_right h'
        calc m1 * 10 ^ s2 + 10 ^ s2 = (m1 + 1) * 10 ^ s2 := by ring
          _ ≤ m2 * 10 ^ t * 10 ^ s2 := Nat.mul_le_mul_right _ h''
          _ = m2 * 10 ^ (s2 + t) := by rw [Nat.pow_add]; ring
      · exact Nat.mul_lt_mul_of_pos_right hm1 (pow10_pos _)
    · obtain ⟨t, rfl⟩ := Nat.exists_eq_add_of_le hle
      refine ⟨10 ^ s1, pow10_pos _, ?_, Or.inr ?_⟩
      · have h' : m1 * 10 ^ t * 10 ^ s1 < m2 * 10 ^ s1 := by
          calc m1 * 10 ^ t * 10 ^ s1 = m1 * 10 ^ (s1 + t) := by rw [Nat.pow_add]; ring
            _ < m2 * 10 ^ s1 := hlt
        have h'' : m1 * 10 ^ t + 1 ≤ m2 := Nat.lt_of_mul_lt_mul_right h'
        calc m1 * 10 ^ (s1 + t) + 10 ^ s1 = (m1 * 10 ^ t + 1) * 10 ^ s1 := by rw [Nat.pow_add]; ring
          _ ≤ m2 * 10 ^ s1 := Nat.mul_le_mul_right _ h''
      · exact Nat.mul_lt_mul_of_pos_right hm2 (pow10_pos _)
  obtain ⟨g, hg0, hgap, hsmall⟩ := hg
  rcases Nat.eq_zero_or_pos (scaleExp (m2 * 2 ^ 1074) (10 ^ s2)) with hE | hE
  · -- the window at the floor: the gap would be below 2^-1074
    rw [hE, Nat.pow_zero, Nat.mul_one] at hc
    have hdd : 10 ^ s1 * 10 ^ s2 ≤ 10 ^ 15 * 10 ^ 15 := Nat.mul_le_mul hd1 hd2
    have hbig := pow15_facts.2
    have h1 : (m1 * 10 ^ s2 + 1) * 2 ^ 1074 ≤ m2 * 10 ^ s1 * 2 ^ 1074 :=
      Nat.mul_le_mul_right _ (by omega)
    generalize 2 ^ 1074 = P at *
    generalize m1 * 10 ^ s2 = L at *
    generalize m2 * 10 ^ s1 = R at *
    nlinarith
  · have hw := ge_window (m2 * 2 ^ 1074) (10 ^ s2) (pow10_pos s2) hE
    generalize scaleExp (m2 * 2 ^ 1074) (10 ^ s2) = E at *
    -- d1 d2 2^E 2^52 ≤ R P
    have hw' : 10 ^ s1 * 10 ^ s2 * 2 ^ E * 2 ^ 52 ≤ m2 * 10 ^ s1 * 2 ^ 1074 := by
      calc 10 ^ s1 * 10 ^ s2 * 2 ^ E * 2 ^ 52 = 10 ^ s1 * (10 ^ s2 * 2 ^ E * 2 ^ 52) := by ring
        _ ≤ 10 ^ s1 * (m2 * 2 ^ 1074) := Nat.mul_le_mul_left _ hw
        _ = m2 * 10 ^ s1 * 2 ^ 1074 := by ring
    have key : (m2 * 10 ^ s1 * 2 ^ 52) * 2 ^ 1074 ≤ (m1 * 10 ^ s2 * 2 ^ 52 + m2 * 10 ^ s1) * 2 ^ 1074 := by
      have := Nat.mul_le_mul_right (2 ^ 52) hc
      generalize 2 ^ 1074 = P at *
      generalize 10 ^ s1 * 10 ^ s2 * 2 ^ E = W at *
      generalize m1 * 10 ^ s2 = L at *
      generalize m2 * 10 ^ s1 = R at *
      generalize 2 ^ 52 = Q at *
      nlinarith
    have key' := Nat.le_of_mul_le_mul_right key hP
    have h52 : (10 : Nat) ^ 15 + 1 < 2 ^ 52 := by decide
    generalize m1 * 10 ^ s2 = L at *
    generalize m2 * 10 ^ s1 = R at *
    rcases hsmall with hs | hs <;> omega

theorem decimal15_lt_big (m s : Nat) (hm : m < 10 ^ 15) :
    roundVal (m * 2 ^ 1074) (10 ^ s) < 2 ^ 2098 := by
  have hx : roundVal (1 * 2 ^ 1124 * 1) 1 = 1 * 2 ^ 1124 :=
    roundVal_exact 1 1124 1 (Nat.one_lt_two_pow (by decide)) (by decide)
  have e : (2 : Nat) ^ 1124 = 2 ^ 50 * 2 ^ 1074 := by
    rw [show (1124 : Nat) = 50 + 1074 from rfl, Nat.pow_add]
  have hle : roundVal (m * 2 ^ 1074) (10 ^ s) ≤ roundVal (1 * 2 ^ 1124 * 1) 1 := by
    apply roundVal_mono (pow10_pos s) (by decide)
    have h50 := pow15_facts.1
    have h1 : m * 2 ^ 1074 ≤ 2 ^ 50 * 2 ^ 1074 := Nat.mul_le_mul_right _ (by omega)
    have h2 : 1 ≤ 10 ^ s := pow10_pos s
    calc m * 2 ^ 1074 * 1 = m * 2 ^ 1074 := Nat.mul_one _
      _ ≤ 2 ^ 50 * 2 ^ 1074 := h1
      _ = 2 ^ 1124 * 1 := by rw [e, Nat.mul_one]
      _ ≤ 2 ^ 1124 * 10 ^ s := Nat.mul_le_mul_left _ h2
      _ = 1 * 2 ^ 1124 * 1 * 10 ^ s := by rw [Nat.one_mul, Nat.mul_one]
  rw [hx, Nat.one_mul] at hle
  exact Nat.lt_of_le_of_lt hle (Nat.pow_lt_pow_right (by decide) (by decide))

theorem key_decimal15 (n : Bool) (m : Nat) (e : Int) (hm : m < 10 ^ 15) (he : e ≤ 0) :
    (Lit.dec n m e).toF64.key = sgn n (roundVal (m * 2 ^ 1074) (10 ^ (-e).toNat)) := by
  have h0 : e.toNat = 0 := by omega
  rw [key_dec, h0, Nat.pow_zero, Nat.mul_one,
    Nat.min_eq_left (Nat.le_of_lt (decimal15_lt_big m _ hm))]

/-- on decimals of at most 15 digits the IEEE order of the rounded values IS the exact order -/
theorem lit_lt_decimal15 (la lb : Lit) (ca : la.Decimal15) (cb : lb.Decimal15) :
    F64.lt la.toF64 lb.toF64 = decide (la.exactLt lb) := by
  cases la with
  | nan => exact absurd ca (by simp [Lit.Decimal15])
  | inf _ => exact absurd ca (by simp [Lit.Decimal15])
  | dec n1 m1 e1 =>
  cases lb with
  | nan => exact absurd cb (by simp [Lit.Decimal15])
  | inf _ => exact absurd cb (by simp [Lit.Decimal15])
  | dec n2 m2 e2 =>
  obtain ⟨hm1, hl1, hu1⟩ := ca
  obtain ⟨hm2, hl2, hu2⟩ := cb
  rw [lt_eq_of_not_nan _ _ (dec_not_nan _ _ _) (dec_not_nan _ _ _),
    key_decimal15 n1 m1 e1 hm1 hu1, key_decimal15 n2 m2 e2 hm2 hu2]
  apply decide_eq_decide.mpr
  show _ ↔ (Lit.dec n1 m1 e1).num * ((Lit.dec n2 m2 e2).den : Int) < (Lit.dec n2 m2 e2).num * ((Lit.dec n1 m1 e1).den : Int)
  have z1 : e1.toNat = 0 := by omega
  have z2 : e2.toNat = 0 := by omega
  simp only [Lit.num, Lit.den, sgn_mul, z1, z2, Nat.pow_zero, Nat.mul_one]
  have hs1 : (-e1).toNat ≤ 15 := by omega
  have hs2 : (-e2).toNat ≤ 15 := by omega
  generalize (-e1).toNat = s1 at *
  generalize (-e2).toNat = s2 at *
  have f1 : m1 * 10 ^ s2 < m2 * 10 ^ s1 → roundVal (m1 * 2 ^ 1074) (10 ^ s1) < roundVal (m2 * 2 ^ 1074) (10 ^ s2) :=
    decimal15_strict hm1 hm2 hs1 hs2
  have f2 : m2 * 10 ^ s1 < m1 * 10 ^ s2 → roundVal (m2 * 2 ^ 1074) (10 ^ s2) < roundVal (m1 * 2 ^ 1074) (10 ^ s1) :=
    decimal15_strict hm2 hm1 hs2 hs1
  have f3 : m1 * 10 ^ s2 = m2 * 10 ^ s1 → roundVal (m1 * 2 ^ 1074) (10 ^ s1) = roundVal (m2 * 2 ^ 1074) (10 ^ s2) := by
    intro h
    exact Nat.le_antisymm
      (roundVal_mono (pow10_pos _) (pow10_pos _) (scaled_cross (Nat.le_of_eq h)))
      (roundVal_mono (pow10_pos _) (pow10_pos _) (scaled_cross (Nat.le_of_eq h.symm)))
  have zero : ∀ m s, m < 10 ^ 15 → s ≤ 15 → (roundVal (m * 2 ^ 1074) (10 ^ s) = 0 ↔ m = 0) := by
    intro m s hm hs
    constructor
    · intro h
      by_contra hne
      have := decimal15_strict (m1 := 0) (s1 := 0) (m2 := m) (s2 := s) (Nat.pow_pos (by decide)) hm
        (by omega) hs (by simp; omega)
      rw [Nat.zero_mul, roundVal_zero] at this
      omega
    · intro h; subst h; rw [Nat.zero_mul, roundVal_zero]
  have g1 := zero m1 s1 hm1 hs1
  have g2 := zero m2 s2 hm2 hs2
  have k1 : m1 * 10 ^ s2 = 0 ↔ m1 = 0 := by
    have := pow10_pos s2
    constructor
    · intro h; rcases Nat.mul_eq_zero.mp h with h | h <;> omega
    · intro h; subst h; simp
  have k2 : m2 * 10 ^ s1 = 0 ↔ m2 = 0 := by
    have := pow10_pos s1
    constructor
    · intro h; rcases Nat.mul_eq_zero.mp h with h | h <;> omega
    · intro h; subst h; simp
  generalize roundVal (m1 * 2 ^ 1074) (10 ^ s1) = x1 at *
  generalize roundVal (m2 * 2 ^ 1074) (10 ^ s2) = x2 at *
  generalize m1 * 10 ^ s2 = L at *
  generalize m2 * 10 ^ s1 = R at *
  cases n1 <;> cases n2 <;> simp only [sgn, Bool.false_eq_true, if_false, if_true] <;> omega

/-! ### nearest: no 53-bit value is closer to the fraction than the rounded one -/

theorem rne_cases (N D : Nat) :
    (rne N D = N / D ∧ 2 * (N % D) ≤ D) ∨ (rne N D = N / D + 1 ∧ D ≤ 2 * (N % D)) := by
  unfold rne
  split
  · left; exact ⟨rfl, by omega⟩
  · split
    · right; exact ⟨rfl, by omega⟩
    · split
      · left; exact ⟨rfl, by omega⟩
      · right; exact ⟨rfl, by omega⟩

/-- a natural with at most 53 significant bits is not strictly inside the cell
    (k · 2^E, (k+1) · 2^E) of the grid used for N / d -/
theorem grid_gap (N d M F : Nat) (hd : 0 < d) (hM : M < 2 ^ 53) :
    M * 2 ^ F * d ≤ N / (d * 2 ^ scaleExp N d) * (d * 2 ^ scaleExp N d) ∨
    (N / (d * 2 ^ scaleExp N d) + 1) * (d * 2 ^ scaleExp N d) ≤ M * 2 ^ F * d := by
  have hw := ge_window N d hd
  generalize scaleExp N d = E at *
  rcases Nat.lt_or_ge F E with hlt | hge
  · -- finer grid: the value is below 2^52 · 2^E ≤ k · 2^E
    left
    have hE : 0 < E := by omega
    have hk : 2 ^ 52 ≤ N / (d * 2 ^ E) := by
      rw [Nat.le_div_iff_mul_le (Nat.mul_pos hd (Nat.two_pow_pos _))]
      calc 2 ^ 52 * (d * 2 ^ E) = d * 2 ^ E * 2 ^ 52 := by ring
        _ ≤ N := hw hE
    obtain ⟨G, rfl⟩ := Nat.exists_eq_add_of_le hlt
    have h1 : M * 2 ^ F ≤ 2 ^ 52 * 2 ^ (F + 1 + G) := by
      have : M * 2 ^ F ≤ 2 ^ 53 * 2 ^ F := Nat.mul_le_mul_right _ (Nat.le_of_lt hM)
      have e : (2 : Nat) ^ 53 * 2 ^ F = 2 ^ 52 * 2 ^ (F + 1) := by
        rw [show (53 : Nat) = 52 + 1 from rfl, Nat.pow_succ, Nat.pow_succ]; ring
      have : 2 ^ (F + 1) ≤ 2 ^ (F + 1 + G) := Nat.pow_le_pow_right (by decide) (by omega)
      have := Nat.mul_le_mul_left (2 ^ 52) this
      omega
    calc M * 2 ^ F * d ≤ 2 ^ 52 * 2 ^ (F + 1 + G) * d := Nat.mul_le_mul_right _ h1
      _ = 2 ^ 52 * (d * 2 ^ (F + 1 + G)) := by ring
      _ ≤ N / (d * 2 ^ (F + 1 + G)) * (d * 2 ^ (F + 1 + G)) := Nat.mul_le_mul_right _ hk
  · -- same or coarser grid: a multiple of 2^E
    obtain ⟨G, rfl⟩ := Nat.exists_eq_add_of_le hge
    have e : M * 2 ^ (E + G) * d = M * 2 ^ G * (d * 2 ^ E) := by rw [Nat.pow_add]; ring
    rw [e]
    rcases Nat.lt_or_ge (N / (d * 2 ^ E)) (M * 2 ^ G) with h | h
    · right; exact Nat.mul_le_mul_right _ h
    · left; exact Nat.mul_le_mul_right _ h

/-- CORRECT ROUNDING: among all naturals with at most 53 significant bits (all binary64 values
    scaled by 2^1074, and the same grid continued beyond the overflow threshold), none is closer
    to N / d than `roundVal N d`; distances are compared multiplied by d -/
theorem roundVal_nearest (N d M F : Nat) (hd : 0 < d) (hM : M < 2 ^ 53) :
    ((N : Int) - ((roundVal N d * d : Nat) : Int)).natAbs ≤ ((N : Int) - ((M * 2 ^ F * d : Nat) : Int)).natAbs := by
  have hg := grid_gap N d M F hd hM
  have hc := rne_cases N (d * 2 ^ scaleExp N d)
  have hx : roundVal N d * d = rne N (d * 2 ^ scaleExp N d) * (d * 2 ^ scaleExp N d) := by
    unfold roundVal; ring
  rw [hx]
  have hD : 0 < d * 2 ^ scaleExp N d := Nat.mul_pos hd (Nat.two_pow_pos _)
  have hN : d * 2 ^ scaleExp N d * (N / (d * 2 ^ scaleExp N d)) + N % (d * 2 ^ scaleExp N d) = N :=
    Nat.div_add_mod N _
  have hr : N % (d * 2 ^ scaleExp N d) < d * 2 ^ scaleExp N d := Nat.mod_lt N hD
  generalize d * 2 ^ scaleExp N d = D at *
  generalize M * 2 ^ F * d = Y at *
  generalize N / D = k at *
  generalize N % D = r at *
  have e1 : (k + 1) * D = k * D + D := by ring
  have e2 : D * k = k * D := Nat.mul_comm _ _
  rw [e1] at hg
  rw [e2] at hN
  rcases hc with ⟨hv, ht⟩ | ⟨hv, ht⟩ <;> rw [hv]
  · generalize k * D = KD at *
    omega
  · rw [e1]
    generalize k * D = KD at *
    omega

/-! ### the reader accepts every well-formed literal and returns its denotation -/

theorem isDec_eq : isDec = isDigit := rfl

theorem decVal_eq (l : List Char) : decVal l = digitsVal l := by
  unfold decVal digitsVal
  have : ∀ acc, l.foldl (fun acc c => 10 * acc + (c.toNat - '0'.toNat)) acc =
      l.foldl (fun acc c => acc * 10 + (c.toNat - 48)) acc := by
    induction l with
    | nil => intro acc; rfl
    | cons c r ih => intro acc; simp only [List.foldl_cons]; rw [Nat.mul_comm 10 acc]; exact ih _
  exact this 0

/-- a run of digits followed by a non-digit (or nothing) is cut exactly there -/
theorem span_digits (l rest : List Char) (hall : l.all isDigit = true)
    (hrest : ∀ c r, rest = c :: r → isDigit c = false) :
    (l ++ rest).takeWhile isDigit = l ∧ (l ++ rest).dropWhile isDigit = rest := by
  induction l with
  | nil =>
    cases rest with
    | nil => simp
    | cons c r => simp [hrest c r rfl]
  | cons c r ih =>
    simp only [List.all_cons, Bool.and_eq_true] at hall
    simp [hall.1, ih hall.2]

theorem digit_ne {c : Char} (h : isDigit c = true) : c ≠ '-' ∧ c ≠ '+' ∧ c ≠ '.' ∧ c ≠ 'e' ∧ c ≠ 'E' := by
  refine ⟨?_, ?_, ?_, ?_, ?_⟩ <;> (intro hc; subst hc; revert h; decide)

/-- the exponent part, as the reader sees it after the mantissa -/
theorem expText_head (c : NumCst) : ∀ x r, c.expText = x :: r → isDigit x = false ∧ x ≠ '.' := by
  intro x r h
  unfold NumCst.expText at h
  cases hx : c.exp with
  | none => rw [hx] at h; simp [expTextOf] at h
  | some t =>
    obtain ⟨up, es, ed⟩ := t
    rw [hx] at h
    cases up <;> simp [expTextOf] at h <;> (obtain ⟨rfl, _⟩ := h; exact ⟨by decide, by decide⟩)

theorem parseBody_num (neg : Bool) (c : NumCst) (hwf : c.WF) :
    parseBody neg (c.ip ++ ((match c.frac with | none => [] | some f => '.' :: f) ++ c.expText)) =
      some (.dec neg (decVal (c.ip ++ c.fracDigits)) (c.expVal - (c.fracDigits.length : Int))) := by
  obtain ⟨hip, hfp, hne, hexp⟩ := hwf
  rw [isDec_eq] at hip hfp
  rw [decVal_eq]
  have hE := expText_head c
  -- the tail after the mantissa, read by the exponent part of the reader
  have tail : ∀ (mant : Nat) (k : Nat),
      (match c.expText with
        | [] => some (Lit.dec neg mant (-(k : Int)))
        | e :: r3 =>
          if e = 'e' ∨ e = 'E' then
            let sg : Bool × List Char := match r3 with
              | x :: r' => if x = '-' then (true, r') else if x = '+' then (false, r') else (false, r3)
              | [] => (false, r3)
            if sg.2 ≠ [] ∧ sg.2.all isDigit = true then
              let ev : Int := digitsVal sg.2
              some (Lit.dec neg mant ((if sg.1 then -ev else ev) - (k : Int)))
            else none
          else none) = some (Lit.dec neg mant (c.expVal - (k : Int))) := by
    intro mant k
    unfold NumCst.expText NumCst.expVal
    cases hx : c.exp with
    | none => simp [expTextOf, expValOf]
    | some t =>
      obtain ⟨up, es, ed⟩ := t
      obtain ⟨hed, hall⟩ := hexp up es ed hx
      rw [isDec_eq] at hall
      have hmark : ((if up = true then 'E' else 'e') = 'e' ∨ (if up = true then 'E' else 'e') = 'E') := by
        cases up <;> simp
      simp only [expTextOf, hmark, if_true]
      cases ed with
      | nil => exact absurd rfl hed
      | cons d ds =>
        have hd : isDigit d = true := by
          simp only [List.all_cons, Bool.and_eq_true] at hall; exact hall.1
        obtain ⟨n1, n2, _, _, _⟩ := digit_ne hd
        cases es with
        | none => simp [expValOf, signText, n1, n2, hall, decVal_eq]
        | some b => cases b <;> simp [expValOf, signText, hall, decVal_eq]
  unfold parseBody
  cases hf : c.frac with
  | none =>
    have hfd : c.fracDigits = [] := by simp [NumCst.fracDigits, hf]
    rw [hfd, List.append_nil] at hne ⊢
    simp only [List.nil_append]
    obtain ⟨htw, hdw⟩ := span_digits c.ip c.expText hip (fun x r h => (hE x r h).1)
    have hbody : c.ip ++ c.expText ≠ [] := by
      intro h; exact hne (List.append_eq_nil_iff.mp h).1
    rw [if_neg hbody]
    simp only [htw, hdw]
    have hlen : ¬ (c.ip.length + 0 = 0) := by
      intro h; exact hne (List.length_eq_zero_iff.mp (by omega))
    cases hx : c.expText with
    | nil =>
      have t := tail (digitsVal c.ip) 0
      rw [hx] at t
      simp only [List.length_nil, List.append_nil]
      rw [if_neg hlen]
      exact t
    | cons x r =>
      have hxd := (hE x r hx).2
      have t := tail (digitsVal c.ip) 0
      rw [hx] at t
      simp only [hxd, if_false, List.length_nil, List.append_nil]
      rw [if_neg hlen]
      exact t
  | some f =>
    have hfd : c.fracDigits = f := by simp [NumCst.fracDigits, hf]
    rw [hfd] at hne hfp ⊢
    obtain ⟨htw, hdw⟩ := span_digits c.ip ('.' :: f ++ c.expText) hip
      (fun x r h => by simp at h; rw [← h.1]; decide)
    obtain ⟨htw2, hdw2⟩ := span_digits f c.expText hfp (fun x r h => (hE x r h).1)
    have hbody : c.ip ++ ('.' :: f ++ c.expText) ≠ [] := by simp
    simp only [List.cons_append] at htw hdw hbody ⊢
    rw [if_neg hbody]
    simp only [htw, hdw, if_true, htw2, hdw2]
    have hlen : ¬ (c.ip.length + f.length = 0) := by
      intro h
      have h1 : c.ip = [] := List.length_eq_zero_iff.mp (by omega)
      have h2 : f = [] := List.length_eq_zero_iff.mp (by omega)
      exact hne (by rw [h1, h2]; rfl)
    rw [if_neg hlen]
    exact tail (digitsVal (c.ip ++ f)) f.length

/-- the reader returns the denotation of every well-formed numeric literal, however it is written -/
theorem parseLit_render (c : NumCst) (hwf : c.WF) : parseLit c.render = some c.denote := by
  have hb := fun neg => parseBody_num neg c hwf
  obtain ⟨hip, _, hne, _⟩ := hwf
  rw [isDec_eq] at hip
  unfold NumCst.render NumCst.denote
  have hhead : ∃ x r, c.ip ++ ((match c.frac with | none => [] | some f => '.' :: f) ++ c.expText) = x :: r ∧
      x ≠ '-' ∧ x ≠ '+' := by
    cases hi : c.ip with
    | cons d ds =>
      have hd : isDigit d = true := by
        rw [hi] at hip; simp only [List.all_cons, Bool.and_eq_true] at hip; exact hip.1
      exact ⟨d, _, List.cons_append, (digit_ne hd).1, (digit_ne hd).2.1⟩
    | nil =>
      cases hf : c.frac with
      | none => rw [hi] at hne; simp [NumCst.fracDigits, hf] at hne
      | some f => exact ⟨'.', _, rfl, by decide, by decide⟩
  generalize c.ip ++ ((match c.frac with | none => [] | some f => '.' :: f) ++ c.expText) = body at *
  obtain ⟨x, r, hxr, n1, n2⟩ := hhead
  cases hs : c.sign with
  | none =>
    have := hb false
    rw [hxr] at this ⊢
    simp [signText, parseLit, n1, n2, this]
  | some b =>
    cases b with
    | false => have := hb false; simp [signText, parseLit, this]
    | true => have := hb true; simp [signText, parseLit, this]

/-! ### the reader accepts nothing else -/

theorem exp_tail_complete (neg : Bool) (mant k : Nat) (t : List Char) (l : Lit)
    (h : (match t with
        | [] => some (Lit.dec neg mant (-(k : Int)))
        | e :: r3 =>
          if e = 'e' ∨ e = 'E' then
            let sg : Bool × List Char := match r3 with
              | x :: r' => if x = '-' then (true, r') else if x = '+' then (false, r') else (false, r3)
              | [] => (false, r3)
            if sg.2 ≠ [] ∧ sg.2.all isDigit = true then
              let ev : Int := digitsVal sg.2
              some (Lit.dec neg mant ((if sg.1 then -ev else ev) - (k : Int)))
            else none
          else none) = some l) :
    ∃ ex, (∀ up es ed, ex = some (up, es, ed) → ed ≠ [] ∧ ed.all isDec = true) ∧ t = expTextOf ex ∧
      l = .dec neg mant (expValOf ex - (k : Int)) := by
  cases t with
  | nil =>
    refine ⟨none, by simp, rfl, ?_⟩
    simp at h; rw [← h]; simp [expValOf]
  | cons e r3 =>
    simp only at h
    by_cases he : e = 'e' ∨ e = 'E'
    · rw [if_pos he] at h
      have hmark : e = (if decide (e = 'E') = true then 'E' else 'e') := by
        rcases he with he | he <;> subst he <;> decide
      cases r3 with
      | nil => simp at h
      | cons x r' =>
        by_cases hm : x = '-'
        · subst hm
          simp only [if_true] at h
          split at h
          · rename_i hc
            refine ⟨some (decide (e = 'E'), some true, r'), ?_, ?_, ?_⟩
            · intro up es ed hq; cases hq; exact ⟨hc.1, by rw [isDec_eq]; exact hc.2⟩
            · simp only [expTextOf, signText]; rw [← hmark]; rfl
            · cases h; simp [expValOf, decVal_eq]
          · cases h
        · by_cases hp : x = '+'
          · subst hp
            simp only [hm, if_false, if_true] at h
            split at h
            · rename_i hc
              refine ⟨some (decide (e = 'E'), some false, r'), ?_, ?_, ?_⟩
              · intro up es ed hq; cases hq; exact ⟨hc.1, by rw [isDec_eq]; exact hc.2⟩
              · simp only [expTextOf, signText]; rw [← hmark]; rfl
              · cases h; simp [expValOf, decVal_eq]
            · cases h
          · simp only [hm, hp, if_false] at h
            split at h
            · rename_i hc
              refine ⟨some (decide (e = 'E'), none, x :: r'), ?_, ?_, ?_⟩
              · intro up es ed hq; cases hq; exact ⟨hc.1, by rw [isDec_eq]; exact hc.2⟩
              · simp only [expTextOf, signText]; rw [← hmark]; rfl
              · cases h; simp [expValOf, decVal_eq]
            · cases h
    · rw [if_neg he] at h; cases h

/-- whatever `parseBody` accepts is the rendering of a well-formed unsigned numeric literal (and the
    result is its denotation), or it went to the `inf` / `nan` words -/
theorem parseBody_complete (neg : Bool) (body : Str) (l : Lit) (h : parseBody neg body = some l) :
    parseInfNan neg body = some l ∨
    ∃ c : NumCst, c.sign = none ∧ c.WF ∧ body = c.render ∧
      l = .dec neg (decVal (c.ip ++ c.fracDigits)) (c.expVal - (c.fracDigits.length : Int)) := by
  unfold parseBody at h
  split at h
  · cases h
  · have hsplit := List.takeWhile_append_dropWhile (p := isDigit) (l := body)
    have hipd : (body.takeWhile isDigit).all isDigit = true := by
      rw [List.all_eq_true]; exact fun c hc => Strings.takeWhile_all_ws isDigit body c hc
    generalize body.takeWhile isDigit = ip at *
    generalize body.dropWhile isDigit = r0 at *
    simp only at h
    cases r0 with
    | nil =>
      simp only [List.length_nil, List.append_nil] at h
      split at h
      · left; exact h
      · rename_i hlen
        right
        refine ⟨⟨none, ip, none, none⟩, rfl, ⟨by rw [isDec_eq]; exact hipd, by simp [NumCst.fracDigits], ?_, by simp⟩, ?_, ?_⟩
        · simp only [NumCst.fracDigits, Option.getD_none, List.append_nil]
          intro h0; rw [h0] at hlen; exact hlen rfl
        · simp [NumCst.render, signText, NumCst.expText, expTextOf, ← hsplit]
        · simp only [Option.some.injEq] at h
          rw [← h]
          simp [NumCst.fracDigits, NumCst.expVal, expValOf, decVal_eq]
    | cons d r1 =>
      by_cases hd : d = '.'
      · subst hd
        simp only [if_true] at h
        have hsplit2 := List.takeWhile_append_dropWhile (p := isDigit) (l := r1)
        have hfd : (r1.takeWhile isDigit).all isDigit = true := by
          rw [List.all_eq_true]; exact fun c hc => Strings.takeWhile_all_ws isDigit r1 c hc
        generalize r1.takeWhile isDigit = f at *
        generalize r1.dropWhile isDigit = r2 at *
        split at h
        · left; exact h
        · rename_i hlen
          right
          obtain ⟨ex, hex, ht, hl⟩ := exp_tail_complete neg (digitsVal (ip ++ f)) f.length r2 l h
          refine ⟨⟨none, ip, some f, ex⟩, rfl, ⟨by rw [isDec_eq]; exact hipd, by rw [isDec_eq]; simpa [NumCst.fracDigits] using hfd, ?_, hex⟩, ?_, ?_⟩
          · simp only [NumCst.fracDigits, Option.getD_some]
            intro h0
            have h1 := List.append_eq_nil_iff.mp h0
            rw [h1.1, h1.2] at hlen; exact hlen rfl
          · simp only [NumCst.render, signText, NumCst.expText, List.nil_append]
            rw [← ht, ← hsplit, ← hsplit2]; simp
          · rw [hl]; simp [NumCst.fracDigits, NumCst.expVal, decVal_eq]
      · simp only [hd, if_false, List.length_nil, List.append_nil] at h
        split at h
        · left; exact h
        · rename_i hlen
          right
          obtain ⟨ex, hex, ht, hl⟩ := exp_tail_complete neg (digitsVal ip) 0 (d :: r1) l h
          refine ⟨⟨none, ip, none, ex⟩, rfl, ⟨by rw [isDec_eq]; exact hipd, by simp [NumCst.fracDigits], ?_, hex⟩, ?_, ?_⟩
          · simp only [NumCst.fracDigits, Option.getD_none, List.append_nil]
            intro h0; rw [h0] at hlen; exact hlen rfl
          · simp only [NumCst.render, signText, NumCst.expText, List.nil_append]
            rw [← ht, ← hsplit]
          · rw [hl]; simp [NumCst.fracDigits, NumCst.expVal, decVal_eq]

theorem lower_char (x c : Char) (h : asciiLowerChar x = c) : x = c ∨ x = upperOf c := by
  unfold asciiLowerChar at h
  split at h
  · rename_i hu
    right
    have hb : ∀ n, n < 91 → 65 ≤ n → (Char.ofNat (n + 32)).toNat = n + 32 := by decide
    have h1 : 'A'.toNat = 65 := rfl
    have h2 : 'Z'.toNat = 90 := rfl
    have hx := hb x.toNat (by omega) (by omega)
    rw [h] at hx
    unfold upperOf
    rw [hx, Nat.add_sub_cancel, Char.ofNat_toNat]
  · left; exact h

theorem lower_word (w b : List Char) (h : asciiLower b = w) : b ∈ caseVariants w := by
  induction w generalizing b with
  | nil =>
    cases b with
    | nil => simp [caseVariants]
    | cons x xs => simp [asciiLower] at h
  | cons c r ih =>
    cases b with
    | nil => simp [asciiLower] at h
    | cons x xs =>
      simp only [asciiLower, List.map_cons, List.cons.injEq] at h
      have hr := ih xs h.2
      simp only [caseVariants, List.mem_flatMap]
      refine ⟨xs, hr, ?_⟩
      rcases lower_char x c h.1 with hx | hx <;> simp [hx]

theorem parseInfNan_complete (neg : Bool) (body : Str) (l : Lit) (h : parseInfNan neg body = some l) :
    (l = .nan ∧ body ∈ caseVariants "nan".toList) ∨
    (l = .inf neg ∧ (body ∈ caseVariants "inf".toList ∨ body ∈ caseVariants "infinity".toList)) := by
  unfold parseInfNan at h
  simp only at h
  split at h
  · rename_i hw
    left; cases h; exact ⟨rfl, lower_word _ _ hw⟩
  · split at h
    · rename_i hw
      right; cases h
      exact ⟨rfl, hw.elim (fun hw => Or.inl (lower_word _ _ hw)) (fun hw => Or.inr (lower_word _ _ hw))⟩
    · cases h

/-- every casing of the three words, with every sign, is read as the word (finite: evaluated) -/
theorem words_accepted :
    ((caseVariants "nan".toList).all fun w =>
      parseLit w == some .nan && parseLit ('+' :: w) == some .nan && parseLit ('-' :: w) == some .nan) = true ∧
    ((caseVariants "inf".toList ++ caseVariants "infinity".toList).all fun w =>
      parseLit w == some (.inf false) && parseLit ('+' :: w) == some (.inf false) &&
        parseLit ('-' :: w) == some (.inf true)) = true := by
  decide +kernel

theorem parseLit_word {s : Str} {l : Lit} (h : WordLit s l) : parseLit s = some l := by
  obtain ⟨h1, h2⟩ := words_accepted
  rw [List.all_eq_true] at h1 h2
  cases h with
  | nan sg w hw =>
    have := h1 w hw
    simp only [Bool.and_eq_true, beq_iff_eq] at this
    rcases sg with _ | b
    · exact this.1.1
    · cases b
      · exact this.1.2
      · exact this.2
  | inf sg w hw =>
    have := h2 w (by rw [List.mem_append]; exact hw)
    simp only [Bool.and_eq_true, beq_iff_eq] at this
    rcases sg with _ | b
    · exact this.1.1
    · cases b
      · exact this.1.2
      · exact this.2

theorem parseLit_complete (s : Str) (l : Lit) (h : parseLit s = some l) :
    (∃ c : NumCst, c.WF ∧ s = c.render ∧ l = c.denote) ∨ WordLit s l := by
  cases s with
  | nil => simp [parseLit] at h
  | cons c0 r =>
    simp only [parseLit] at h
    -- the sign that was written, and the body that was read
    have key : ∀ (sg : Option Bool) (body : Str), c0 :: r = signText sg ++ body →
        parseBody (sg == some true) body = some l →
        (∃ c : NumCst, c.WF ∧ c0 :: r = c.render ∧ l = c.denote) ∨ WordLit (c0 :: r) l := by
      intro sg body hs hb
      rcases parseBody_complete _ body l hb with hw | ⟨c, hsn, hwf, hbody, hl⟩
      · right
        rw [hs]
        rcases parseInfNan_complete _ body l hw with ⟨rfl, hm⟩ | ⟨rfl, hm⟩
        · exact WordLit.nan sg body hm
        · exact WordLit.inf sg body hm
      · left
        refine ⟨{ c with sign := sg }, hwf, ?_, ?_⟩
        · rw [hs, hbody]
          simp [NumCst.render, hsn, signText, NumCst.expText]
        · rw [hl]; rfl
    by_cases hm : c0 = '-'
    · subst hm
      simp only [true_or, if_true, decide_true] at h
      exact key (some true) r rfl h
    · by_cases hp : c0 = '+'
      · subst hp
        simp only [or_true, if_true] at h
        exact key (some false) r rfl (by simpa using h)
      · simp only [hm, hp, or_self, if_false, decide_false] at h
        exact key none (c0 :: r) rfl (by simpa using h)

end Duck.F64
