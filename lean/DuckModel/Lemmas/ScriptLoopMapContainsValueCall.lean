/-
  `map_contains_value` run from source, part 4: the lines before the loop (`not map_is_empty …`
  runs the SCRIPT `map_is_empty` from its source, nested), the three ways a body ends (no map /
  empty map / the loop), the wrapper, the order-independence of the answer.
-/
import DuckModel.Lemmas.ScriptLoopMapContainsValueBody

namespace Duck.ScriptRun
open Duck Duck.Alias Duck.Coll Duck.Spec Duck.Generated Duck.Reser

/-! ### sorting keeps the elements -/

theorem mem_insertSorted (x y : Str) (l : List Str) : y ∈ insertSorted x l ↔ y = x ∨ y ∈ l := by
  induction l with
  | nil => simp [insertSorted]
  | cons z r ih =>
    unfold insertSorted
    by_cases h : strLe x z = true
    · simp [h]
    · simp only [h, if_false, Bool.false_eq_true, List.mem_cons, ih]
      constructor
      · rintro (h1 | h1 | h1) <;> simp [h1]
      · rintro (h1 | h1 | h1) <;> simp [h1]

theorem mem_sortStr (y : Str) (l : List Str) : y ∈ sortStr l ↔ y ∈ l := by
  induction l with
  | nil => simp [sortStr]
  | cons x r ih => simp [sortStr, mem_insertSorted, ih]

theorem length_insertSorted (x : Str) (l : List Str) : (insertSorted x l).length = l.length + 1 := by
  induction l with
  | nil => rfl
  | cons z r ih =>
    unfold insertSorted
    by_cases h : strLe x z = true
    · simp [h]
    · simp [h, ih]

theorem length_sortStr (l : List Str) : (sortStr l).length = l.length := by
  induction l with
  | nil => rfl
  | cons x r ih => simp [sortStr, length_insertSorted, ih]

theorem mget_isSome_of_mem (m : List (Str × Item)) (k : Str) (h : k ∈ m.map Prod.fst) : (mget m k).isSome = true := by
  induction m with
  | nil => simp at h
  | cons p r ih =>
    obtain ⟨k', w⟩ := p
    simp only [mget]
    by_cases e : k' = k
    · simp [e]
    · simp only [e, if_false]
      apply ih
      simp only [List.map_cons, List.mem_cons] at h
      rcases h with h | h
      · exact absurd h.symm e
      · exact h

theorem mget_of_mem_nodup (m : List (Str × Item)) (hn : (m.map Prod.fst).Nodup) (kv : Str × Item) (h : kv ∈ m) :
    mget m kv.1 = some kv.2 := by
  induction m with
  | nil => simp at h
  | cons p r ih =>
    obtain ⟨k', w⟩ := p
    simp only [List.map_cons, List.nodup_cons] at hn
    simp only [mget]
    rcases List.mem_cons.mp h with h | h
    · subst h; simp
    · have hne : k' ≠ kv.1 := by
        intro e
        apply hn.1
        rw [e]
        exact List.mem_map.mpr ⟨kv, h, rfl⟩
      simp only [hne, if_false]
      exact ih hn.2 h

/-- the ANSWER does not depend on the order of the keys: over ANY list with the elements of the
    map's keys (the ascending one the model's `map_keys` makes, the hash order of the code), "some
    key carries the value" is "the value occurs among the map's values" -/
theorem any_hitB_eq (m : List (Str × Item)) (hn : (m.map Prod.fst).Nodup) (v : Str) (K : List Str)
    (hK : ∀ k, k ∈ K ↔ k ∈ m.map Prod.fst) :
    K.any (hitB m v) = (m.map fun kv => kv.2.render).contains v := by
  rw [Bool.eq_iff_iff]
  simp only [List.any_eq_true, List.contains_iff_mem, List.mem_map, hitB, decide_eq_true_eq]
  constructor
  · rintro ⟨k, hk, hv⟩
    obtain ⟨kv, hkv, rfl⟩ := List.mem_map.mp ((hK k).mp hk)
    rw [mget_of_mem_nodup m hn kv hkv] at hv
    exact ⟨kv, hkv, by simpa using hv⟩
  · rintro ⟨kv, hkv, hv⟩
    refine ⟨kv.1, (hK kv.1).mpr (List.mem_map.mpr ⟨kv, hkv, rfl⟩), ?_⟩
    rw [mget_of_mem_nodup m hn kv hkv]
    simp [hv]

/-! ### `map_is_empty`, nested -/

/-- the state a nested `map_is_empty X` leaves: its temporary argument array put and removed
    again, one allocator name drawn -/
def mieSt (s : ScriptSt) (X : Str) : ScriptSt :=
  { s with coll := { tbl := tremove (tinsert s.coll.tbl (Coll.handleName s.coll.next) (.list [.str X]))
                            (Coll.handleName s.coll.next),
                     next := s.coll.next + 1 } }

def mieLen : Value → Option Nat := fun v => match v with | .map m => some m.length | _ => none

theorem mie_run (d G : Nat) (X : Str) (vars : Vars) (s : ScriptSt)
    (hfree : tget s.coll.tbl (Coll.handleName s.coll.next) = none) :
    runScriptCmdF d (G + 2 + 2) "map_is_empty".toList [X] vars s =
      (match (tget s.coll.tbl X).bind mieLen with
        | some n => .continue (some (boolStr (n = 0)))
        | none => .error (collErrMsg .mapSize (pubSt mieScope [X] s).coll.tbl [X]),
       clear mieScope vars, mieSt s X) := by
  have h := sizeScript_runF "map_is_empty".toList "map_size".toList cmd_collections_map_is_empty .mapSize mieLen
    (by rfl) (parsesTo_eq (by decide +kernel)) rfl (by decide) (by decide)
    (by decide +kernel) (by decide +kernel)
    (by intro s key rest
        simp only [Coll.exec, cmdMapSize, mieLen]
        cases hv : tget s.tbl key with
        | none => rfl
        | some v => cases v <;> rfl)
    d G [X] vars s
  show runScriptCmdF d (G + 4) _ _ _ _ = _
  rw [h]
  simp only
  rw [bind_len_pub cmd_collections_map_is_empty.scopeName X [] s mieLen hfree (Or.inr fun _ => rfl)]
  rfl

/-! ### the lines before the loop -/

theorem mcv_bind_not (vars : Vars) (a : Str) (hv : vars.get mArg1 = some a) :
    bind vars ((some [[Seg.lit "map_is_empty".toList], [Seg.var mArg1]]).map fun a => a.map renderTemplate) =
      ["map_is_empty".toList, a] := by
  rw [bind_mk _ _ (by decide)]
  simp [tmplValue, Seg.value, hv]

theorem mie_findScript : findScript "map_is_empty".toList = some cmd_collections_map_is_empty := by rfl

/-- line 2 as a flow command -/
theorem mcv_not (G d : Nat) (s : ScriptSt) (vars : Vars) (a : Str) (hX : ArgOK a = true)
    (hfree : tget s.coll.tbl (Coll.handleName s.coll.next) = none) :
    runFlowF (nestedOf (bodySem (G + 2 + 2) (d + 1)) (G + 2 + 2)) mcvIs 2 .notC ["map_is_empty".toList, a] 2 vars s =
      match (tget s.coll.tbl a).bind mieLen with
      | some n => (.continue (some (boolStr (!decide (n = 0)))), clear mieScope vars, mieSt s a)
      | none => (flowErr, clear mieScope vars, mieSt s a) := by
  obtain ⟨h1, h2, h3⟩ := argOK_parts hX
  rw [runNot_script (G + 2) d mcvIs "map_is_empty".toList [a] cmd_collections_map_is_empty (by decide)
    (by intro v hv; simp at hv; subst hv; exact h1) (by simp [positionOK, h2, h3]) mie_findScript 2 vars s,
    mie_run d G a vars s hfree]
  cases (tget s.coll.tbl a).bind mieLen with
  | none => rfl
  | some n => simp only [isTrue_boolStr]

/-- lines 0-2 when the argument names no map: `not map_is_empty …` answers an error -/
theorem mcv_pre_err (G d : Nat) (s : ScriptSt) (vars : Vars) (a : Str) (hX : ArgOK a = true)
    (hv : vars.get mArg1 = some a) (hfree : tget s.coll.tbl (Coll.handleName s.coll.next) = none)
    (hnm : (tget s.coll.tbl a).bind mieLen = none) (fuel : Nat) :
    evalInstructions (bodySem (G + 2 + 2) (d + 2) mcvIs) (fun _ => false) mcvIs (fuel + 3) 0 0 none vars s =
      some (.error (msg "flow control error"), clear mieScope (vars.set mFound sFalse), mieSt s a) := by
  rw [show fuel + 3 = fuel + 2 + 1 by omega,
    eval_skip _ _ _ 0 _ _ _ _ _ (show mcvIs[0]? = some (emptyI 1) from rfl) rfl]
  have hb1 : bind vars ((some [[Seg.lit "false".toList]]).map fun a => a.map renderTemplate) = [sFalse] := by
    rw [bind_mk _ _ (by decide)]; rfl
  rw [eval_native_continue (G + 2 + 2) (d + 2) mcvIs (fuel + 1) 1 _ none vars s _ _ "set".toList .set
    (show mcvIs[1]? = some (mkI 2 (some mFound) "set" (some [[.lit "false".toList]])) from rfl) rfl fs_set rn_set
    _ hb1 (some sFalse) vars s rfl]
  have hv' : (Vars.updateOutput vars (some mFound) (some sFalse)).get mArg1 = some a := by
    simp only [Vars.updateOutput, get_set]; rw [if_neg (by decide)]; exact hv
  have hnot := mcv_not G d s (Vars.updateOutput vars (some mFound) (some sFalse)) a hX hfree
  rw [hnm] at hnot
  rw [eval_flow_error (G + 2 + 2) (d + 1) mcvIs fuel 2 _ _ _ _ _ _ "not".toList .notC
    (show mcvIs[2]? = some (mkI 3 (some mNotEmpty) "not" (some [[.lit "map_is_empty".toList], [.var mArg1]])) from rfl)
    rfl fs_notc rn_notc rf_notc _ (mcv_bind_not _ a hv') _ _ _ hnot]
  rfl

/-- the variables after line 2 -/
def mcvVars2 (vars : Vars) (ne : Bool) : Vars :=
  (clear mieScope (vars.set mFound sFalse)).set mNotEmpty (boolStr ne)

/-- lines 0-3 when the argument names a map of `n` entries -/
theorem mcv_pre_map (G d : Nat) (s : ScriptSt) (vars : Vars) (a : Str) (hX : ArgOK a = true)
    (hv : vars.get mArg1 = some a) (hfree : tget s.coll.tbl (Coll.handleName s.coll.next) = none)
    (n : Nat) (hm : (tget s.coll.tbl a).bind mieLen = some n) (fuel : Nat) :
    evalInstructions (bodySem (G + 2 + 2) (d + 2) mcvIs) (fun _ => false) mcvIs (fuel + 4) 0 0 none vars s =
      evalInstructions (bodySem (G + 2 + 2) (d + 2) mcvIs) (fun _ => false) mcvIs fuel 4 (0 + 1 + 1 + 1 + 1)
        (some (boolStr (!decide (n = 0)))) (mcvVars2 vars (!decide (n = 0))) (mieSt s a) := by
  rw [show fuel + 4 = fuel + 3 + 1 by omega,
    eval_skip _ _ _ 0 _ _ _ _ _ (show mcvIs[0]? = some (emptyI 1) from rfl) rfl]
  have hb1 : bind vars ((some [[Seg.lit "false".toList]]).map fun a => a.map renderTemplate) = [sFalse] := by
    rw [bind_mk _ _ (by decide)]; rfl
  rw [show fuel + 3 = fuel + 2 + 1 by omega,
    eval_native_continue (G + 2 + 2) (d + 2) mcvIs (fuel + 2) 1 _ none vars s _ _ "set".toList .set
    (show mcvIs[1]? = some (mkI 2 (some mFound) "set" (some [[.lit "false".toList]])) from rfl) rfl fs_set rn_set
    _ hb1 (some sFalse) vars s rfl]
  have hv' : (Vars.updateOutput vars (some mFound) (some sFalse)).get mArg1 = some a := by
    simp only [Vars.updateOutput, get_set]; rw [if_neg (by decide)]; exact hv
  have hnot := mcv_not G d s (Vars.updateOutput vars (some mFound) (some sFalse)) a hX hfree
  rw [hm] at hnot
  rw [show fuel + 2 = fuel + 1 + 1 by omega,
    eval_flow_continue (G + 2 + 2) (d + 1) mcvIs (fuel + 1) 2 _ _ _ _ _ _ "not".toList .notC
    (show mcvIs[2]? = some (mkI 3 (some mNotEmpty) "not" (some [[.lit "map_is_empty".toList], [.var mArg1]])) from rfl)
    rfl fs_notc rn_notc rf_notc _ (mcv_bind_not _ a hv') _ _ _ hnot]
  rw [eval_skip _ _ _ 3 _ _ _ _ _ (show mcvIs[3]? = some (emptyI 4) from rfl) rfl]
  rfl


theorem get_mcvVars2 (vars : Vars) (ne : Bool) (k : Str) (hk : k ≠ mNotEmpty) (hu : underPrefix mieScope k = false) :
    (mcvVars2 vars ne).get k = (vars.set mFound sFalse).get k := by
  unfold mcvVars2
  rw [get_set, if_neg hk, get_clear, hu]
  rfl

theorem clear_comm (A B : Str) (m : Vars) : clear A (clear B m) = clear B (clear A m) := by
  unfold clear
  rw [List.filter_filter, List.filter_filter]
  apply List.filter_congr
  intro p _
  exact Bool.and_comm _ _

theorem clear_mcvVars2 (vars : Vars) (ne : Bool) :
    clear mScope (mcvVars2 vars ne) = clear mScope (clear mieScope vars) := by
  unfold mcvVars2
  rw [clear_set_under _ _ _ _ mNotEmpty_under, clear_comm, clear_set_under _ _ _ _ mFound_under, clear_comm]

/-- the state at the first iteration of the loop (keys `K`) -/
def mcvS5 (s : ScriptSt) (a : Str) (K : List Str) : ScriptSt :=
  { s with
    coll := { tbl := tinsert (mieSt s a).coll.tbl (Coll.handleName (s.coll.next + 1)) (.list (K.map .str)),
              next := s.coll.next + 1 + 1 },
    ifMeta := ifMetaAfter s.ifMeta (mKey 4) 16,
    forMeta := forMetaAfter s.forMeta (mKey 8) 15,
    endTable := (s.endTable.put (mKey 16) fullNameEndIf).put (mKey 15) fullNameEndForIn,
    ifStack := ifEntry 4 16 mScope :: s.ifStack,
    forStack := ⟨1, 8, 15, mScope⟩ :: s.forStack }

def mcvVars5 (vars : Vars) (v hK x : Str) : Vars :=
  ((((mcvVars2 vars true).set mValue v).set mKH hK).set mItem x)

theorem tget_mieSt (s : ScriptSt) (X k : Str) (hfree : tget s.coll.tbl (Coll.handleName s.coll.next) = none) :
    tget (mieSt s X).coll.tbl k = tget s.coll.tbl k := by
  simp only [mieSt, tget_tremove, tget_tinsert]
  by_cases e : k = Coll.handleName s.coll.next
  · simp [e, hfree]
  · simp [e]

/-- lines 4-8 for a non-empty map: `if` passes, `value`, `map_keys`, the first `for` -/
theorem mcv_pre_loop (F d : Nat) (s : ScriptSt) (vars : Vars) (a v x : Str) (m : List (Str × Item)) (rem : List Str)
    (hctx : s.ctx = mScope) (hv1 : vars.get mArg1 = some a) (hv2 : vars.get mArg2 = some v)
    (hfree : tget s.coll.tbl (Coll.handleName s.coll.next) = none)
    (hT : tget s.coll.tbl a = some (.map m)) (hK : sortStr (m.map Prod.fst) = x :: rem)
    (hstale : NoStaleFor mScope s.forStack)
    (hc4 : IfCacheOK s.ifMeta (mKey 4) 16) (hc8 : CacheOK s.forMeta (mKey 8) 15)
    (fuel poll : Nat) (fo : Option Str) :
    evalInstructions (bodySem F (d + 1) mcvIs) (fun _ => false) mcvIs (fuel + 5) 4 poll fo (mcvVars2 vars true) (mieSt s a) =
      evalInstructions (bodySem F (d + 1) mcvIs) (fun _ => false) mcvIs fuel 9 (poll + 1 + 1 + 1 + 1 + 1) none
        (mcvVars5 vars v (Coll.handleName (s.coll.next + 1)) x) (mcvS5 s a (x :: rem)) := by
  -- line 4: if ${not_empty}
  have hb4 : bind (mcvVars2 vars true) ((some [[Seg.var mNotEmpty]]).map fun a => a.map renderTemplate) = [boolStr true] := by
    rw [bind_mk _ _ (by decide)]
    simp [tmplValue, Seg.value, mcvVars2, get_set]
  have hif := runIf_bool (nestedOf (bodySem F d) F) mcvIs true 4 16 (mcvVars2 vars true) (mieSt s a) mcv_findIf4
    (by rw [flowKey_mKey (mieSt s a) hctx]; exact hc4)
  simp only [if_true] at hif
  rw [show fuel + 5 = fuel + 4 + 1 by omega,
    eval_flow_continue F d mcvIs (fuel + 4) 4 poll fo _ _ _ _ "if".toList .ifC
      (show mcvIs[4]? = some (mkI 5 none "if" (some [[.var mNotEmpty]])) from rfl) rfl fs_if rn_if rf_if
      _ hb4 none _ _ hif]
  -- line 5: value = set ${argument::2}
  have hb5 : bind (Vars.updateOutput (mcvVars2 vars true) none none)
      ((some [[Seg.var mArg2]]).map fun a => a.map renderTemplate) = [v] := by
    rw [bind_mk _ _ (by decide)]
    simp only [tmplValue, Seg.value, Vars.updateOutput, List.map_cons, List.map_nil, List.flatMap_cons,
      List.flatMap_nil, List.append_nil]
    rw [get_mcvVars2 vars true mArg2 (by decide) (by decide), get_set, if_neg (by decide), hv2]; rfl
  rw [show fuel + 4 = fuel + 3 + 1 by omega,
    eval_native_continue F (d + 1) mcvIs (fuel + 3) 5 _ _ _ _ _ _ "set".toList .set
      (show mcvIs[5]? = some (mkI 6 (some mValue) "set" (some [[.var mArg2]])) from rfl) rfl fs_set rn_set
      _ hb5 (some v) _ _ rfl]
  -- line 6: key_array_handle = map_keys ${argument::1}
  have hb6 : bind (Vars.updateOutput (Vars.updateOutput (mcvVars2 vars true) none none) (some mValue) (some v))
      ((some [[Seg.var mArg1]]).map fun a => a.map renderTemplate) = [a] := by
    rw [bind_mk _ _ (by decide)]
    simp only [tmplValue, Seg.value, Vars.updateOutput, List.map_cons, List.map_nil, List.flatMap_cons,
      List.flatMap_nil, List.append_nil]
    rw [get_set, if_neg (by decide), get_mcvVars2 vars true mArg1 (by decide) (by decide), get_set,
      if_neg (by decide), hv1]; rfl
  have hkeys : runNative (.coll .mapKeys) [a]
      (Vars.updateOutput (Vars.updateOutput (mcvVars2 vars true) none none) (some mValue) (some v))
      { ifSt (mieSt s a) 4 16 with ifStack := ifEntry 4 16 (mieSt s a).ctx :: (mieSt s a).ifStack } =
      (.continue (some (Coll.handleName (s.coll.next + 1))),
       Vars.updateOutput (Vars.updateOutput (mcvVars2 vars true) none none) (some mValue) (some v),
       { ifSt (mieSt s a) 4 16 with
         ifStack := ifEntry 4 16 (mieSt s a).ctx :: (mieSt s a).ifStack,
         coll := { tbl := tinsert (mieSt s a).coll.tbl (Coll.handleName (s.coll.next + 1))
                            (.list ((sortStr (m.map Prod.fst)).map .str)),
                   next := s.coll.next + 1 + 1 } }) := by
    have hT3 : tget (mieSt s a).coll.tbl a = some (.map m) := by rw [tget_mieSt s a a hfree]; exact hT
    exact (run_mapKeys a m _
      { ifSt (mieSt s a) 4 16 with ifStack := ifEntry 4 16 (mieSt s a).ctx :: (mieSt s a).ifStack } hT3).trans rfl
  rw [show fuel + 3 = fuel + 2 + 1 by omega,
    eval_native_continue F (d + 1) mcvIs (fuel + 2) 6 _ _ _ _ _ _ "map_keys".toList (.coll .mapKeys)
      (show mcvIs[6]? = some (mkI 7 (some mKH) "map_keys" (some [[.var mArg1]])) from rfl) rfl fs_map_keys rn_map_keys
      _ hb6 _ _ _ hkeys]
  -- line 7 (empty), line 8: the first `for`
  rw [show fuel + 2 = fuel + 1 + 1 by omega,
    eval_skip _ _ _ 7 _ _ _ _ _ (show mcvIs[7]? = some (emptyI 8) from rfl) rfl]
  rw [hK]
  have hfor := runFor_first (nestedOf (bodySem F d) F) mcvIs 1 mItem (Coll.handleName (s.coll.next + 1)) 8 15
    (Vars.updateOutput (Vars.updateOutput (Vars.updateOutput (mcvVars2 vars true) none none) (some mValue) (some v))
      (some mKH) (some (Coll.handleName (s.coll.next + 1))))
    { ifSt (mieSt s a) 4 16 with
      ifStack := ifEntry 4 16 (mieSt s a).ctx :: (mieSt s a).ifStack,
      coll := { tbl := tinsert (mieSt s a).coll.tbl (Coll.handleName (s.coll.next + 1)) (.list ((x :: rem).map .str)),
                next := s.coll.next + 1 + 1 } }
    (by show popFor 8 s.ctx false s.forStack = _
        rw [hctx]; exact popFor_noStale 8 mScope s.forStack hstale)
    mcv_findFor
    (by show CacheOK s.forMeta (flowKey (mieSt s a) 8) 15
        rw [flowKey_mKey (mieSt s a) hctx]; exact hc8)
  have hnext : nextIteration
      { ifSt (mieSt s a) 4 16 with
        ifStack := ifEntry 4 16 (mieSt s a).ctx :: (mieSt s a).ifStack,
        coll := { tbl := tinsert (mieSt s a).coll.tbl (Coll.handleName (s.coll.next + 1)) (.list ((x :: rem).map .str)),
                  next := s.coll.next + 1 + 1 } }
      (Coll.handleName (s.coll.next + 1)) 0 = some x := by
    simp [nextIteration, tget_tinsert, Item.render]
  rw [hnext] at hfor
  have hb8 := mcv_bind_for
    (Vars.updateOutput (Vars.updateOutput (Vars.updateOutput (mcvVars2 vars true) none none) (some mValue) (some v))
      (some mKH) (some (Coll.handleName (s.coll.next + 1))))
    (Coll.handleName (s.coll.next + 1)) (by simp [Vars.updateOutput, get_set])
  rw [eval_flow_continue F d mcvIs fuel 8 _ _ _ _ _ _ "for".toList .forIn
      (show mcvIs[8]? = some (mkI 9 none "for" (some [[.lit mItem], [.lit "in".toList], [.var mKH]])) from rfl) rfl
      fs_for rn_for rf_for _ hb8 none _ _ hfor]
  simp only [mcvS5, mcvVars5, mieSt, ifSt, flowKey, mKey, hctx, Vars.updateOutput]


/-! ### the three ways a body ends -/

/-- what a body leaves, relative to the state `s` and the variables `vars` it started from -/
structure MBodyPost (h0 : Str) (s s' : ScriptSt) (vars vars' : Vars) (alloc : Nat) (pushed : List IfCall) : Prop where
  inv : MInv s s'.ifMeta s'.forMeta s'.endTable
  forStack : s'.forStack = s.forStack
  ifStack : s'.ifStack = pushed ++ s.ifStack
  next : s'.coll.next = s.coll.next + alloc
  tbl : ∀ k, k ≠ h0 → tget s'.coll.tbl k = tget s.coll.tbl k
  clr : clear mScope vars' = clear mScope (clear mieScope vars)

theorem ifSt_mKey (s : ScriptSt) (hctx : s.ctx = mScope) (line stop : Nat) :
    ifSt s line stop = { s with ifMeta := ifMetaAfter s.ifMeta (mKey line) stop,
                                endTable := s.endTable.put (mKey stop) fullNameEndIf } := by
  unfold ifSt
  rw [flowKey_mKey s hctx, flowKey_mKey s hctx]

/-- the argument names no map -/
theorem mcv_body_err (G d : Nat) (s : ScriptSt) (vars : Vars) (a : Str) (hX : ArgOK a = true)
    (hv : vars.get mArg1 = some a) (hfree : tget s.coll.tbl (Coll.handleName s.coll.next) = none)
    (hnm : (tget s.coll.tbl a).bind mieLen = none) (N fuel : Nat) (hN : N = fuel + 3) :
    scriptBody (bodySem (G + 2 + 2) (d + 2) mcvIs) (fun _ => false) N mcvIs vars s =
      (.error (msg "flow control error"), clear mieScope (vars.set mFound sFalse), mieSt s a) := by
  subst hN
  unfold scriptBody
  rw [mcv_pre_err G d s vars a hX hv hfree hnm fuel]
  rfl

theorem mcv_post_err (h0 : Str) (s : ScriptSt) (vars : Vars) (a : Str)
    (hfree : tget s.coll.tbl (Coll.handleName s.coll.next) = none) (hinv : MInv s s.ifMeta s.forMeta s.endTable) :
    MBodyPost h0 s (mieSt s a) vars (clear mieScope (vars.set mFound sFalse)) 1 [] := by
  refine ⟨hinv, rfl, rfl, rfl, fun k _ => tget_mieSt s a k hfree, ?_⟩
  rw [clear_comm, clear_set_under _ _ _ _ mFound_under, clear_comm]

/-- the state an empty map leaves -/
def mcvEmptySt (s : ScriptSt) (a kh : Str) : ScriptSt :=
  { s with coll := { tbl := tremove (mieSt s a).coll.tbl kh, next := s.coll.next + 1 },
           ifMeta := ifMetaAfter s.ifMeta (mKey 4) 16,
           endTable := s.endTable.put (mKey 16) fullNameEndIf }

/-- the argument names an empty map: `if ${not_empty}` jumps behind its block, the tail releases
    whatever `key_array_handle` holds -/
theorem mcv_body_empty (G d : Nat) (s : ScriptSt) (vars : Vars) (a : Str) (hX : ArgOK a = true)
    (hctx : s.ctx = mScope)
    (hv : vars.get mArg1 = some a) (hfree : tget s.coll.tbl (Coll.handleName s.coll.next) = none)
    (hT : tget s.coll.tbl a = some (.map [])) (hc4 : IfCacheOK s.ifMeta (mKey 4) 16)
    (N fuel : Nat) (hN : N = fuel + 9) :
    scriptBody (bodySem (G + 2 + 2) (d + 2) mcvIs) (fun _ => false) N mcvIs vars s =
      (.finished (some sFalse), mcvVars2 vars false, mcvEmptySt s a ((vars.get mKH).getD [])) := by
  subst hN
  unfold scriptBody
  have hm : (tget s.coll.tbl a).bind mieLen = some 0 := by rw [hT]; rfl
  rw [show fuel + 9 = fuel + 5 + 4 by omega, mcv_pre_map G d s vars a hX hv hfree 0 hm (fuel + 5)]
  simp only [decide_true, Bool.not_true]
  have hb4 : bind (mcvVars2 vars false) ((some [[Seg.var mNotEmpty]]).map fun a => a.map renderTemplate) = [boolStr false] := by
    rw [bind_mk _ _ (by decide)]
    simp [tmplValue, Seg.value, mcvVars2, get_set]
  have hif := runIf_bool (nestedOf (bodySem (G + 2 + 2) (d + 1)) (G + 2 + 2)) mcvIs false 4 16 (mcvVars2 vars false) (mieSt s a)
    mcv_findIf4 (by rw [flowKey_mKey (mieSt s a) hctx]; exact hc4)
  simp only [Bool.false_eq_true, if_false] at hif
  rw [show fuel + 5 = fuel + 4 + 1 by omega,
    eval_flow_goto (G + 2 + 2) (d + 1) mcvIs (fuel + 4) 4 _ _ _ _ _ _ "if".toList .ifC
      (show mcvIs[4]? = some (mkI 5 none "if" (some [[.var mNotEmpty]])) from rfl) rfl fs_if rn_if rf_if
      _ hb4 none _ _ 17 hif]
  rw [mcv_tail17 (G + 2 + 2) (d + 2) _ _ sFalse ((vars.get mKH).getD [])
    (by rw [get_mcvVars2 vars false mFound (by decide) (by decide), get_set, if_pos rfl])
    (by rw [get_mcvVars2 vars false mKH (by decide) (by decide), get_set, if_neg (by decide)])]
  rw [ifSt_mKey (mieSt s a) hctx]
  rfl

theorem mcv_post_empty (h0 : Str) (s : ScriptSt) (vars : Vars) (a kh : Str)
    (hfree : tget s.coll.tbl (Coll.handleName s.coll.next) = none) (hinv : MInv s s.ifMeta s.forMeta s.endTable)
    (hkh : kh ≠ h0 → tget s.coll.tbl kh = none) :
    MBodyPost h0 s (mcvEmptySt s a kh) vars (mcvVars2 vars false) 1 [] := by
  refine ⟨hinv.afterIf 4 16 (Or.inl ⟨rfl, rfl⟩), rfl, rfl, rfl, ?_, clear_mcvVars2 vars false⟩
  intro k hk0
  show tget (tremove (mieSt s a).coll.tbl kh) k = _
  rw [tget_tremove, tget_mieSt s a k hfree]
  by_cases e : k = kh
  · rw [if_pos e, e, hkh (fun e' => hk0 (e.trans e'))]
  · rw [if_neg e]

/-- the argument names a map with entries: the loop over its keys -/
theorem mcv_body_loop (h0 : Str) (d : Nat) (s : ScriptSt) (vars : Vars) (a v : Str) (m : List (Str × Item)) (hX : ArgOK a = true)
    (hctx : s.ctx = mScope) (hv1 : vars.get mArg1 = some a) (hv2 : vars.get mArg2 = some v)
    (hfree : tget s.coll.tbl (Coll.handleName s.coll.next) = none)
    (hfree1 : tget s.coll.tbl (Coll.handleName (s.coll.next + 1)) = none)
    (hT : tget s.coll.tbl a = some (.map m)) (hne : m ≠ [])
    (hstale : NoStaleFor mScope s.forStack) (hinv : MInv s s.ifMeta s.forMeta s.endTable) :
    ∃ vars' s',
      (∀ G N fuel, N = fuel + 6 * m.length + 16 →
        scriptBody (bodySem (G + 2 + 2) (d + 2) mcvIs) (fun _ => false) N mcvIs vars s =
          (.finished (some (boolStr ((sortStr (m.map Prod.fst)).any (hitB m v)))), vars', s')) ∧
      MBodyPost h0 s s' vars vars' 2
        ((if (sortStr (m.map Prod.fst)).any (hitB m v) then [ifEntry 12 14 mScope] else []) ++ [ifEntry 4 16 mScope]) := by
  have hlen := length_sortStr (m.map Prod.fst)
  cases hK : sortStr (m.map Prod.fst) with
  | nil =>
    rw [hK] at hlen
    cases m with
    | nil => exact absurd rfl hne
    | cons p r => simp at hlen
  | cons x rem =>
    rw [hK] at hlen
    have hmlen : m.length = rem.length + 1 := by simpa using hlen.symm
    have hTa5 : tget (tinsert (mieSt s a).coll.tbl (Coll.handleName (s.coll.next + 1)) (.list ((x :: rem).map .str))) a =
        some (.map m) := by
      rw [tget_tinsert, if_neg (by intro e; rw [e, hfree1] at hT; cases hT), tget_mieSt s a a hfree, hT]
    obtain ⟨vars', s', hrun, hpost⟩ := mcv_loop (d + 1) s a v (Coll.handleName (s.coll.next + 1)) m (x :: rem)
      (tinsert (mieSt s a).coll.tbl (Coll.handleName (s.coll.next + 1)) (.list ((x :: rem).map .str)))
      s.forStack (clear mieScope vars) hTa5 (by rw [tget_tinsert, if_pos rfl])
      (by intro k hk
          apply mget_isSome_of_mem
          rw [← mem_sortStr, hK]; exact hk)
      rem [] x (mcvS5 s a (x :: rem)) (mcvVars5 vars v (Coll.handleName (s.coll.next + 1)) x)
      (0 + 1 + 1 + 1 + 1 + 1 + 1 + 1 + 1 + 1) none rfl hctx
      ((hinv.afterIf 4 16 (Or.inl ⟨rfl, rfl⟩)).afterFor)
      (by simp [mcvS5, KV.get_put])
      (by show ((s.endTable.put (mKey 16) fullNameEndIf).put (mKey 15) fullNameEndForIn).get (mKey 16) = _
          rw [get_put_mKey_ne _ 15 16 _ (by omega), KV.get_put, if_pos rfl])
      rfl (fun _ => rfl)
      ⟨by simp only [mcvVars5, get_set]
          rw [if_neg (by decide), if_neg (by decide), if_neg (by decide),
            get_mcvVars2 vars true mArg1 (by decide) (by decide), get_set, if_neg (by decide), hv1],
       by unfold mcvVars5
          rw [get_set, if_neg (by decide), get_set, if_neg (by decide), get_set, if_pos rfl],
       by unfold mcvVars5
          rw [get_set, if_neg (by decide), get_set, if_pos rfl],
       by simp only [mcvVars5]
          rw [clear_set_under _ _ _ _ mItem_under, clear_set_under _ _ _ _ mKH_under,
            clear_set_under _ _ _ _ mValue_under, clear_mcvVars2]⟩
      (by simp [mcvVars5, get_set])
    refine ⟨vars', s', ?_, ?_⟩
    · intro G N fuel hN
      subst hN
      unfold scriptBody
      have hm : (tget s.coll.tbl a).bind mieLen = some m.length := by rw [hT]; rfl
      rw [show fuel + 6 * m.length + 16 = fuel + 6 * rem.length + 13 + 5 + 4 by omega,
        mcv_pre_map G d s vars a hX hv1 hfree m.length hm _]
      have hnz : (!decide (m.length = 0)) = true := by
        cases m with
        | nil => exact absurd rfl hne
        | cons p r => simp
      rw [hnz]
      rw [mcv_pre_loop (G + 2 + 2) (d + 1) s vars a v x m rem hctx hv1 hv2 hfree hT hK hstale hinv.c4 hinv.c8
        (fuel + 6 * rem.length + 13)]
      rw [hrun (G + 2 + 2) fuel]
      rfl
    · refine ⟨hpost.inv, hpost.forStack, ?_, ?_, ?_, hpost.clr⟩
      · rw [hpost.ifStack]; simp [mcvS5]
      · rw [hpost.next]; rfl
      · intro k _
        by_cases e : k = Coll.handleName (s.coll.next + 1)
        · rw [e, hpost.gone, hfree1]
        · rw [hpost.other k e, tget_tinsert, if_neg e, tget_mieSt s a k hfree]

end Duck.ScriptRun
