/-
  `array_join` run from source, part 3: the ways a body ends (no array / empty array / cells with
  an empty or a non-empty separator), the wrapper, one call.
-/
import DuckModel.Lemmas.ScriptLoopArrayJoinBody

namespace Duck.ScriptRun
open Duck Duck.Alias Duck.Coll Duck.Spec Duck.Generated Duck.Reser

structure JInv (st0 : ScriptSt) (IM : KV (Nat × List Nat)) (FM : KV Nat) (ET : KV Str) : Prop where
  ifMeta : ∀ k, underPrefix jScope k = false → IM.get k = st0.ifMeta.get k
  forMeta : ∀ k, underPrefix jScope k = false → FM.get k = st0.forMeta.get k
  endTable : ∀ k, underPrefix jScope k = false → ET.get k = st0.endTable.get k
  c1 : IfCacheOK IM (jKey 1) 3
  c5 : IfCacheOK IM (jKey 5) 16
  c10 : IfCacheOK IM (jKey 10) 15
  c6 : CacheOK FM (jKey 6) 8

theorem ifCacheOK_ifMetaAfter_ne (m : KV (Nat × List Nat)) (key : Str) (stop : Nat) (k : Str) (n : Nat) (hne : k ≠ key)
    (h : IfCacheOK m k n) : IfCacheOK (ifMetaAfter m key stop) k n := by
  unfold IfCacheOK
  rw [get_ifMetaAfter_ne m key stop k hne]; exact h

theorem JInv.afterIf {st0 : ScriptSt} {IM : KV (Nat × List Nat)} {FM : KV Nat} {ET : KV Str}
    (h : JInv st0 IM FM ET) (line stop : Nat)
    (hl : line = 1 ∧ stop = 3 ∨ line = 5 ∧ stop = 16 ∨ line = 10 ∧ stop = 15) :
    JInv st0 (ifMetaAfter IM (jKey line) stop) FM (ET.put (jKey stop) fullNameEndIf) := by
  refine ⟨?_, h.forMeta, ?_, ?_, ?_, ?_, h.c6⟩
  · intro k hk
    rw [get_ifMetaAfter_frame jScope IM (jKey line) stop (jKey_under line) k hk]; exact h.ifMeta k hk
  · intro k hk
    rw [get_put_frame jScope ET (jKey stop) _ (jKey_under stop) k hk]; exact h.endTable k hk
  · rcases hl with ⟨rfl, rfl⟩ | ⟨rfl, rfl⟩ | ⟨rfl, rfl⟩
    · exact ifCacheOK_ifMetaAfter _ _ _ h.c1
    · exact ifCacheOK_ifMetaAfter_ne _ _ _ _ _ (fun e => by have := jKey_inj e; omega) h.c1
    · exact ifCacheOK_ifMetaAfter_ne _ _ _ _ _ (fun e => by have := jKey_inj e; omega) h.c1
  · rcases hl with ⟨rfl, rfl⟩ | ⟨rfl, rfl⟩ | ⟨rfl, rfl⟩
    · exact ifCacheOK_ifMetaAfter_ne _ _ _ _ _ (fun e => by have := jKey_inj e; omega) h.c5
    · exact ifCacheOK_ifMetaAfter _ _ _ h.c5
    · exact ifCacheOK_ifMetaAfter_ne _ _ _ _ _ (fun e => by have := jKey_inj e; omega) h.c5
  · rcases hl with ⟨rfl, rfl⟩ | ⟨rfl, rfl⟩ | ⟨rfl, rfl⟩
    · exact ifCacheOK_ifMetaAfter_ne _ _ _ _ _ (fun e => by have := jKey_inj e; omega) h.c10
    · exact ifCacheOK_ifMetaAfter_ne _ _ _ _ _ (fun e => by have := jKey_inj e; omega) h.c10
    · exact ifCacheOK_ifMetaAfter _ _ _ h.c10

theorem JInv.afterFor {st0 : ScriptSt} {IM : KV (Nat × List Nat)} {FM : KV Nat} {ET : KV Str}
    (h : JInv st0 IM FM ET) : JInv st0 IM (forMetaAfter FM (jKey 6) 8) (ET.put (jKey 8) fullNameEndForIn) := by
  refine ⟨h.ifMeta, ?_, ?_, h.c1, h.c5, h.c10, cacheOK_forMetaAfter _ _ _ h.c6⟩
  · intro k hk
    rw [get_forMetaAfter_frame jScope FM (jKey 6) 8 (jKey_under 6) k hk]; exact h.forMeta k hk
  · intro k hk
    rw [get_put_frame jScope ET (jKey 8) _ (jKey_under 8) k hk]; exact h.endTable k hk

theorem ifSt_jKey (s : ScriptSt) (hctx : s.ctx = jScope) (line stop : Nat) :
    ifSt s line stop = { s with ifMeta := ifMetaAfter s.ifMeta (jKey line) stop,
                                endTable := s.endTable.put (jKey stop) fullNameEndIf } := by
  unfold ifSt
  rw [flowKey_jKey s hctx, flowKey_jKey s hctx]

theorem forSt_jKey (s : ScriptSt) (hctx : s.ctx = jScope) (line stop : Nat) :
    forSt s line stop = { s with forMeta := forMetaAfter s.forMeta (jKey line) stop,
                                 endTable := s.endTable.put (jKey stop) fullNameEndForIn } := by
  unfold forSt
  rw [flowKey_jKey s hctx, flowKey_jKey s hctx]

theorem aj_bind_if1 (vars : Vars) (X : Str) (hv : vars.get jArg1 = some X) :
    bind vars ((some [[Seg.lit "not".toList], [Seg.lit "is_array".toList], [Seg.var jArg1]]).map fun a => a.map renderTemplate) =
      ["not".toList, "is_array".toList, X] := by
  rw [bind_mk vars _ (by decide)]
  simp [tmplValue, Seg.value, hv]

theorem aj_bind_if5 (vars : Vars) (X : Str) (hv : vars.get jArg1 = some X) :
    bind vars ((some [[Seg.lit "not".toList], [Seg.lit "array_is_empty".toList], [Seg.var jArg1]]).map fun a => a.map renderTemplate) =
      ["not".toList, "array_is_empty".toList, X] := by
  rw [bind_mk vars _ (by decide)]
  simp [tmplValue, Seg.value, hv]

theorem aj_bind_if10 (vars : Vars) (X : Str) (hv : vars.get jArg2 = some X) :
    bind vars ((some [[Seg.lit "not".toList], [Seg.lit "is_empty".toList], [Seg.var jArg2]]).map fun a => a.map renderTemplate) =
      ["not".toList, "is_empty".toList, X] := by
  rw [bind_mk vars _ (by decide)]
  simp [tmplValue, Seg.value, hv]

/-- what a body leaves -/
structure JBodyPost (s s' : ScriptSt) (alloc : Nat) (pushed : List IfCall) : Prop where
  inv : JInv s s'.ifMeta s'.forMeta s'.endTable
  forStack : s'.forStack = s.forStack
  ifStack : s'.ifStack = pushed ++ s.ifStack
  next : s'.coll.next = s.coll.next + alloc
  tbl : LookupEq s'.coll.tbl s.coll.tbl

/-- the argument names no array: `trigger_error` inside the first `if` block -/
theorem aj_body_err (G d : Nat) (s : ScriptSt) (vars : Vars) (a : Str) (hX : ArgOK a = true) (hctx : s.ctx = jScope)
    (hv : vars.get jArg1 = some a) (hinv : JInv s s.ifMeta s.forMeta s.endTable)
    (hnl : ∀ l, tget s.coll.tbl a ≠ some (.list l)) (N fuel : Nat) (hN : N = fuel + 3) :
    scriptBody (bodySem (G + 2 + 2) (d + 3) ajIs) (fun _ => false) N ajIs vars s =
      (.error sMsg, vars, { ifSt s 1 3 with ifStack := ifEntry 1 3 s.ctx :: s.ifStack }) ∧
    JBodyPost s { ifSt s 1 3 with ifStack := ifEntry 1 3 s.ctx :: s.ifStack } 0 [ifEntry 1 3 jScope] := by
  constructor
  · subst hN
    unfold scriptBody
    rw [eval_skip _ _ _ 0 _ _ _ _ _ (show ajIs[0]? = some (emptyI 1) from rfl) rfl]
    have hif := runIf_not_is_array (G + 2) (d + 1) ajIs 1 3 s vars a hX aj_findIf1
      (by rw [flowKey_jKey s hctx]; exact hinv.c1)
    have hna : (match tget s.coll.tbl a with | some (.list _) => true | _ => false) = false := by
      cases hv' : tget s.coll.tbl a with
      | none => rfl
      | some v =>
        cases v with
        | list l => exact absurd hv' (hnl l)
        | _ => rfl
    simp only [hna, Bool.not_false, if_true] at hif
    rw [eval_flow_continue (G + 2 + 2) (d + 2) ajIs (fuel + 1) 1 _ none vars s _ _ "if".toList .ifC
      (show ajIs[1]? = some (mkI 2 none "if" (some [[.lit "not".toList], [.lit "is_array".toList], [.var jArg1]])) from rfl)
      rfl fs_if rn_if rf_if _ (aj_bind_if1 vars a hv) none _ _ hif]
    have hb : bind (Vars.updateOutput vars none none) ((some [[Seg.lit sMsg]]).map fun a => a.map renderTemplate) = [sMsg] := by
      rw [bind_mk _ _ (by decide +kernel)]
      simp [tmplValue, Seg.value]
    rw [eval_native_error (G + 2 + 2) (d + 3) ajIs fuel 2 _ none _ _ _ _ "trigger_error".toList .triggerError
      (show ajIs[2]? = some (mkI 3 none "trigger_error" (some [[.lit sMsg]])) from rfl) rfl fs_trigger rn_trigger
      _ hb sMsg _ _ rfl]
    rfl
  · rw [ifSt_jKey s hctx]
    exact ⟨hinv.afterIf 1 3 (Or.inl ⟨rfl, rfl⟩), rfl, by rw [hctx]; rfl, rfl, fun _ => rfl⟩

/-- lines 0, 1, 4 when the argument names an array -/
theorem aj_pre (G d : Nat) (s : ScriptSt) (vars : Vars) (a : Str) (l : List Item) (hX : ArgOK a = true)
    (hctx : s.ctx = jScope) (hv : vars.get jArg1 = some a) (hc1 : IfCacheOK s.ifMeta (jKey 1) 3)
    (hT : tget s.coll.tbl a = some (.list l)) (fuel : Nat) :
    evalInstructions (bodySem (G + 2 + 2) (d + 3) ajIs) (fun _ => false) ajIs (fuel + 3) 0 0 none vars s =
      evalInstructions (bodySem (G + 2 + 2) (d + 3) ajIs) (fun _ => false) ajIs fuel 5 (0 + 1 + 1 + 1) none vars (ifSt s 1 3) := by
  rw [show fuel + 3 = fuel + 1 + 1 + 1 by omega,
    eval_skip _ _ _ 0 _ _ _ _ _ (show ajIs[0]? = some (emptyI 1) from rfl) rfl]
  have hif := runIf_not_is_array (G + 2) (d + 1) ajIs 1 3 s vars a hX aj_findIf1
    (by rw [flowKey_jKey s hctx]; exact hc1)
  rw [hT] at hif
  simp only [Bool.not_true, Bool.false_eq_true, if_false] at hif
  rw [eval_flow_goto (G + 2 + 2) (d + 2) ajIs (fuel + 1) 1 _ none vars s _ _ "if".toList .ifC
    (show ajIs[1]? = some (mkI 2 none "if" (some [[.lit "not".toList], [.lit "is_array".toList], [.var jArg1]])) from rfl)
    rfl fs_if rn_if rf_if _ (aj_bind_if1 vars a hv) none _ _ _ hif]
  rw [eval_skip _ _ _ 4 _ _ _ _ _ (show ajIs[4]? = some (emptyI 5) from rfl) rfl]

theorem get_clear_aie (vars : Vars) (k : Str) (hk : underPrefix aieScope k = false) :
    (clear aieScope vars).get k = vars.get k := by
  rw [get_clear, hk]; rfl

/-- the argument names an EMPTY array -/
theorem aj_body_empty (G d : Nat) (s : ScriptSt) (vars : Vars) (a : Str) (hX : ArgOK a = true) (hctx : s.ctx = jScope)
    (hv : vars.get jArg1 = some a) (hinv : JInv s s.ifMeta s.forMeta s.endTable)
    (hfree : tget s.coll.tbl (Coll.handleName s.coll.next) = none)
    (hT : tget s.coll.tbl a = some (.list [])) (N fuel : Nat) (hN : N = fuel + 7) :
    scriptBody (bodySem (G + 2 + 2) (d + 3) ajIs) (fun _ => false) N ajIs vars s =
      (.finished (some ((vars.get jString).getD [])), clear aieScope vars, mieSt (ifSt (ifSt s 1 3) 5 16) a) ∧
    JBodyPost s (mieSt (ifSt (ifSt s 1 3) 5 16) a) 1 [] := by
  have hne : a ≠ Coll.handleName s.coll.next := by intro e; rw [e, hfree] at hT; cases hT
  have hctx1 : (ifSt s 1 3).ctx = jScope := hctx
  constructor
  · subst hN
    unfold scriptBody
    rw [show fuel + 7 = fuel + 3 + 1 + 3 by omega, aj_pre G d s vars a [] hX hctx hv hinv.c1 hT]
    have hc5' : IfCacheOK (ifSt s 1 3).ifMeta (flowKey (ifSt s 1 3) 5) 16 := by
      rw [flowKey_jKey (ifSt s 1 3) hctx1]
      show IfCacheOK (ifMetaAfter s.ifMeta (flowKey s 1) 3) (jKey 5) 16
      rw [flowKey_jKey s hctx]
      exact (hinv.afterIf 1 3 (Or.inl ⟨rfl, rfl⟩)).c5
    have hif := runIf_not_aie G d ajIs 5 16 (ifSt s 1 3) vars a [] hX aj_findIf5 hc5' hT hne
    simp only [if_true] at hif
    rw [eval_flow_goto (G + 2 + 2) (d + 2) ajIs (fuel + 3) 5 _ none vars _ _ _ "if".toList .ifC
      (show ajIs[5]? = some (mkI 6 none "if" (some [[.lit "not".toList], [.lit "array_is_empty".toList], [.var jArg1]])) from rfl)
      rfl fs_if rn_if rf_if _ (aj_bind_if5 vars a hv) none _ _ _ hif]
    rw [aj_tail, get_clear_aie vars jString (by decide)]
    rfl
  · rw [ifSt_jKey _ hctx1, ifSt_jKey s hctx]
    refine ⟨(hinv.afterIf 1 3 (Or.inl ⟨rfl, rfl⟩)).afterIf 5 16 (Or.inr (Or.inl ⟨rfl, rfl⟩)), rfl, rfl, rfl, ?_⟩
    intro k
    exact tget_mieSt _ a k hfree

end Duck.ScriptRun
