/-
  `map_contains_value` run from source, part 2: the native callees, the invariant of the
  flow-control state, one iteration of the loop (a hit / a miss), the loop, the tail.
-/
import DuckModel.Lemmas.ScriptLoopMapContainsValue

namespace Duck.ScriptRun
open Duck Duck.Alias Duck.Coll Duck.Spec Duck.Generated Duck.Reser

/-! ### native callees -/

theorem run_mapGet (a x : Str) (m : List (Str × Item)) (vars : Vars) (s : ScriptSt)
    (hT : tget s.coll.tbl a = some (.map m)) :
    runNative (.coll .mapGet) [a, x] vars s =
      (.continue ((mget m x).map Item.render), vars,
        { s with coll := { tbl := tinsert (tremove s.coll.tbl a) a (.map m), next := s.coll.next } }) := by
  simp only [runNative, runColl, Coll.exec, cmdMapGet]
  rw [mutateMap_map s.coll.tbl a _ m hT]

theorem run_release (h : Str) (vars : Vars) (s : ScriptSt) :
    runNative (.coll .release) [h] vars s =
      (.continue (some (boolStr (tget s.coll.tbl h).isSome)), vars,
        { s with coll := { tbl := tremove s.coll.tbl h, next := s.coll.next } }) := by
  simp only [runNative, runColl, Coll.exec, cmdRelease]

theorem run_mapKeys (a : Str) (m : List (Str × Item)) (vars : Vars) (s : ScriptSt)
    (hT : tget s.coll.tbl a = some (.map m)) :
    runNative (.coll .mapKeys) [a] vars s =
      (.continue (some (Coll.handleName s.coll.next)), vars,
        { s with coll := { tbl := tinsert s.coll.tbl (Coll.handleName s.coll.next)
                                    (.list ((sortStr (m.map Prod.fst)).map .str)),
                           next := s.coll.next + 1 } }) := by
  simp only [runNative, runColl, Coll.exec, cmdMapKeys, hT, putHandle]

theorem fs_map_get : findScript "map_get".toList = none := by decide +kernel
theorem rn_map_get : resolveNative "map_get".toList = some (.coll .mapGet) := by decide +kernel
theorem fs_equals : findScript "equals".toList = none := by decide +kernel
theorem rn_equals : resolveNative "equals".toList = some .equals := by decide +kernel
theorem fs_release : findScript "release".toList = none := by decide +kernel
theorem rn_release : resolveNative "release".toList = some (.coll .release) := by decide +kernel
theorem fs_map_keys : findScript "map_keys".toList = none := by decide +kernel
theorem rn_map_keys : resolveNative "map_keys".toList = some (.coll .mapKeys) := by decide +kernel
theorem fs_notc : findScript "not".toList = none := by decide +kernel
theorem rn_notc : resolveNative "not".toList = none := by decide +kernel
theorem rf_notc : resolveFlow "not".toList = some .notC := by decide +kernel

/-! ### keys of the flow-control tables -/

def mKey (n : Nat) : Str := mScope ++ "::".toList ++ natToStr n

theorem flowKey_mKey (s : ScriptSt) (h : s.ctx = mScope) (n : Nat) : flowKey s n = mKey n := by
  unfold flowKey mKey; rw [h]

theorem get_endTable_mKey (s : ScriptSt) (hctx : s.ctx = mScope) (n : Nat) (v : Str)
    (h : s.endTable.get (mKey n) = some v) : s.endTable.get (flowKey s n) = some v := by
  rw [flowKey_mKey s hctx]; exact h

theorem mKey_under (n : Nat) : underPrefix mScope (mKey n) = true := by
  unfold mKey
  rw [List.append_assoc, underPrefix_append]
  simp [sep, List.isPrefixOf]

theorem mKey_inj {a b : Nat} (h : mKey a = mKey b) : a = b := by
  unfold mKey at h
  exact natToStr_inj (List.append_cancel_left h)

theorem get_ifMetaAfter_ne (m : KV (Nat × List Nat)) (key : Str) (stop : Nat) (k : Str) (h : k ≠ key) :
    (ifMetaAfter m key stop).get k = m.get k := by
  unfold ifMetaAfter
  cases m.get key with
  | some _ => rfl
  | none => simp only [KV.get_put]; rw [if_neg h]

/-- what every state of a `map_contains_value` body keeps true of the block-position caches and
    the `end` table, relative to the state `st0` the body started in: untouched outside the
    command's own prefix, the cached block ends of its three flow lines right -/
structure MInv (st0 : ScriptSt) (IM : KV (Nat × List Nat)) (FM : KV Nat) (ET : KV Str) : Prop where
  ifMeta : ∀ k, underPrefix mScope k = false → IM.get k = st0.ifMeta.get k
  forMeta : ∀ k, underPrefix mScope k = false → FM.get k = st0.forMeta.get k
  endTable : ∀ k, underPrefix mScope k = false → ET.get k = st0.endTable.get k
  c4 : IfCacheOK IM (mKey 4) 16
  c12 : IfCacheOK IM (mKey 12) 14
  c8 : CacheOK FM (mKey 8) 15

theorem MInv.afterIf {st0 : ScriptSt} {IM : KV (Nat × List Nat)} {FM : KV Nat} {ET : KV Str}
    (h : MInv st0 IM FM ET) (line stop : Nat) (hl : line = 4 ∧ stop = 16 ∨ line = 12 ∧ stop = 14) :
    MInv st0 (ifMetaAfter IM (mKey line) stop) FM (ET.put (mKey stop) fullNameEndIf) := by
  refine ⟨?_, h.forMeta, ?_, ?_, ?_, h.c8⟩
  · intro k hk
    rw [get_ifMetaAfter_frame mScope IM (mKey line) stop (mKey_under line) k hk]; exact h.ifMeta k hk
  · intro k hk
    rw [get_put_frame mScope ET (mKey stop) _ (mKey_under stop) k hk]; exact h.endTable k hk
  · rcases hl with ⟨rfl, rfl⟩ | ⟨rfl, rfl⟩
    · exact ifCacheOK_ifMetaAfter _ _ _ h.c4
    · unfold IfCacheOK
      rw [get_ifMetaAfter_ne _ _ _ _ (fun e => by have := mKey_inj e; omega)]; exact h.c4
  · rcases hl with ⟨rfl, rfl⟩ | ⟨rfl, rfl⟩
    · unfold IfCacheOK
      rw [get_ifMetaAfter_ne _ _ _ _ (fun e => by have := mKey_inj e; omega)]; exact h.c12
    · exact ifCacheOK_ifMetaAfter _ _ _ h.c12

theorem MInv.afterFor {st0 : ScriptSt} {IM : KV (Nat × List Nat)} {FM : KV Nat} {ET : KV Str}
    (h : MInv st0 IM FM ET) :
    MInv st0 IM (forMetaAfter FM (mKey 8) 15) (ET.put (mKey 15) fullNameEndForIn) := by
  refine ⟨h.ifMeta, ?_, ?_, h.c4, h.c12, cacheOK_forMetaAfter _ _ _ h.c8⟩
  · intro k hk
    rw [get_forMetaAfter_frame mScope FM (mKey 8) 15 (mKey_under 8) k hk]; exact h.forMeta k hk
  · intro k hk
    rw [get_put_frame mScope ET (mKey 15) _ (mKey_under 15) k hk]; exact h.endTable k hk

/-! ### the variables of the body during the loop -/

structure MVars (vars0 vars : Vars) (a v hK : Str) : Prop where
  arg1 : vars.get mArg1 = some a
  value : vars.get mValue = some v
  kh : vars.get mKH = some hK
  clr : clear mScope vars = clear mScope vars0

theorem mNext_under : underPrefix mScope mNext = true := by decide
theorem mFound_under : underPrefix mScope mFound = true := by decide
theorem mItem_under : underPrefix mScope mItem = true := by decide
theorem mValue_under : underPrefix mScope mValue = true := by decide
theorem mKH_under : underPrefix mScope mKH = true := by decide
theorem mNotEmpty_under : underPrefix mScope mNotEmpty = true := by decide

/-! ### one iteration -/

/-- the state after lines 9-12 of an iteration: `map_get` took the map out and put it back, the
    inner `if` looked its block up (and pushed its entry when the value was found) -/
def mcvAfterIf (s : ScriptSt) (a : Str) (m : List (Str × Item)) (b : Bool) : ScriptSt :=
  { s with coll := { tbl := tinsert (tremove s.coll.tbl a) a (.map m), next := s.coll.next },
           ifMeta := ifMetaAfter s.ifMeta (mKey 12) 14,
           endTable := s.endTable.put (mKey 14) fullNameEndIf,
           ifStack := if b then ifEntry 12 14 mScope :: s.ifStack else s.ifStack }

/-- lines 9-12: `map_get`, `equals`, `if ${found}` -/
theorem mcv_iter_head (F d : Nat) (s : ScriptSt) (vars : Vars) (a x v : Str) (m : List (Str × Item)) (it : Item)
    (hctx : s.ctx = mScope) (hT : tget s.coll.tbl a = some (.map m)) (hit : mget m x = some it)
    (hv1 : vars.get mArg1 = some a) (hvI : vars.get mItem = some x) (hvV : vars.get mValue = some v)
    (hc12 : IfCacheOK s.ifMeta (mKey 12) 14) (fuel poll : Nat) (fo : Option Str) :
    evalInstructions (bodySem F (d + 1) mcvIs) (fun _ => false) mcvIs (fuel + 4) 9 poll fo vars s =
      evalInstructions (bodySem F (d + 1) mcvIs) (fun _ => false) mcvIs fuel
        (if it.render = v then 13 else 15) (poll + 1 + 1 + 1 + 1) none
        ((vars.set mNext it.render).set mFound (boolStr (it.render = v)))
        (mcvAfterIf s a m (decide (it.render = v))) := by
  -- line 9: next_value = map_get ${argument::1} ${item}
  have hb9 : bind vars ((some [[Seg.var mArg1], [Seg.var mItem]]).map fun a => a.map renderTemplate) = [a, x] := by
    rw [bind_mk vars _ (by decide)]
    simp [tmplValue, Seg.value, hv1, hvI]
  have hget := run_mapGet a x m vars s hT
  rw [hit, Option.map_some] at hget
  rw [show fuel + 4 = fuel + 3 + 1 by omega,
    eval_native_continue F (d + 1) mcvIs (fuel + 3) 9 poll fo vars s _ _ "map_get".toList (.coll .mapGet)
      (show mcvIs[9]? = some (mkI 10 (some mNext) "map_get" (some [[.var mArg1], [.var mItem]])) from rfl) rfl
      fs_map_get rn_map_get _ hb9 _ _ _ hget]
  -- line 10: found = equals ${next_value} ${value}
  have hb10 : bind (Vars.updateOutput vars (some mNext) (some it.render))
      ((some [[Seg.var mNext], [Seg.var mValue]]).map fun a => a.map renderTemplate) = [it.render, v] := by
    rw [bind_mk _ _ (by decide)]
    simp only [tmplValue, Seg.value, Vars.updateOutput, get_set, List.map_cons, List.map_nil, List.flatMap_cons,
      List.flatMap_nil, List.append_nil, if_true]
    rw [if_neg (by decide), hvV]; rfl
  rw [show fuel + 3 = fuel + 2 + 1 by omega,
    eval_native_continue F (d + 1) mcvIs (fuel + 2) 10 _ _ _ _ _ _ "equals".toList .equals
      (show mcvIs[10]? = some (mkI 11 (some mFound) "equals" (some [[.var mNext], [.var mValue]])) from rfl) rfl
      fs_equals rn_equals _ hb10 (some (boolStr (it.render = v))) _ _ rfl]
  -- line 11 (empty), line 12: if ${found}
  rw [show fuel + 2 = fuel + 1 + 1 by omega,
    eval_skip _ _ _ 11 _ _ _ _ _ (show mcvIs[11]? = some (emptyI 12) from rfl) rfl]
  have hb12 : bind (Vars.updateOutput (Vars.updateOutput vars (some mNext) (some it.render)) (some mFound)
        (some (boolStr (it.render = v))))
      ((some [[Seg.var mFound]]).map fun a => a.map renderTemplate) = [boolStr (it.render = v)] := by
    rw [bind_mk _ _ (by decide)]
    simp [tmplValue, Seg.value, Vars.updateOutput, get_set]
  have hk12 : flowKey { s with coll := { tbl := tinsert (tremove s.coll.tbl a) a (.map m), next := s.coll.next } } 12 = mKey 12 :=
    flowKey_mKey _ hctx 12
  have hk14 : flowKey { s with coll := { tbl := tinsert (tremove s.coll.tbl a) a (.map m), next := s.coll.next } } 14 = mKey 14 :=
    flowKey_mKey _ hctx 14
  have hif := runIf_bool (nestedOf (bodySem F d) F) mcvIs (decide (it.render = v)) 12 14
    (Vars.updateOutput (Vars.updateOutput vars (some mNext) (some it.render)) (some mFound) (some (boolStr (it.render = v))))
    { s with coll := { tbl := tinsert (tremove s.coll.tbl a) a (.map m), next := s.coll.next } }
    mcv_findIf12 (by rw [hk12]; exact hc12)
  by_cases hb : it.render = v
  · simp only [hb, decide_true, if_true] at hif hb12 ⊢
    rw [eval_flow_continue F d mcvIs fuel 12 _ _ _ _ _ _ "if".toList .ifC
      (show mcvIs[12]? = some (mkI 13 none "if" (some [[.var mFound]])) from rfl) rfl fs_if rn_if rf_if
      _ hb12 none _ _ hif]
    simp only [mcvAfterIf, ifSt, flowKey, mKey, hctx, Vars.updateOutput, if_true]
  · simp only [hb, decide_false, if_false, Bool.false_eq_true] at hif hb12 ⊢
    rw [eval_flow_goto F d mcvIs fuel 12 _ _ _ _ _ _ "if".toList .ifC
      (show mcvIs[12]? = some (mkI 13 none "if" (some [[.var mFound]])) from rfl) rfl fs_if rn_if rf_if
      _ hb12 none _ _ 15 hif]
    simp only [mcvAfterIf, ifSt, flowKey, mKey, hctx, Vars.updateOutput, Bool.false_eq_true, if_false]


theorem mcv_iter_head_hit (F d : Nat) (s : ScriptSt) (vars : Vars) (a x v : Str) (m : List (Str × Item)) (it : Item)
    (hctx : s.ctx = mScope) (hT : tget s.coll.tbl a = some (.map m)) (hit : mget m x = some it)
    (hv1 : vars.get mArg1 = some a) (hvI : vars.get mItem = some x) (hvV : vars.get mValue = some v)
    (hc12 : IfCacheOK s.ifMeta (mKey 12) 14) (hb : it.render = v) (fuel poll : Nat) (fo : Option Str) :
    evalInstructions (bodySem F (d + 1) mcvIs) (fun _ => false) mcvIs (fuel + 4) 9 poll fo vars s =
      evalInstructions (bodySem F (d + 1) mcvIs) (fun _ => false) mcvIs fuel 13 (poll + 1 + 1 + 1 + 1) none
        ((vars.set mNext v).set mFound (boolStr true)) (mcvAfterIf s a m true) := by
  have h := mcv_iter_head F d s vars a x v m it hctx hT hit hv1 hvI hvV hc12 fuel poll fo
  simp only [hb, if_true, decide_true] at h
  exact h

theorem mcv_iter_head_miss (F d : Nat) (s : ScriptSt) (vars : Vars) (a x v : Str) (m : List (Str × Item)) (it : Item)
    (hctx : s.ctx = mScope) (hT : tget s.coll.tbl a = some (.map m)) (hit : mget m x = some it)
    (hv1 : vars.get mArg1 = some a) (hvI : vars.get mItem = some x) (hvV : vars.get mValue = some v)
    (hc12 : IfCacheOK s.ifMeta (mKey 12) 14) (hb : ¬ it.render = v) (fuel poll : Nat) (fo : Option Str) :
    evalInstructions (bodySem F (d + 1) mcvIs) (fun _ => false) mcvIs (fuel + 4) 9 poll fo vars s =
      evalInstructions (bodySem F (d + 1) mcvIs) (fun _ => false) mcvIs fuel 15 (poll + 1 + 1 + 1 + 1) none
        ((vars.set mNext it.render).set mFound (boolStr false)) (mcvAfterIf s a m false) := by
  have h := mcv_iter_head F d s vars a x v m it hctx hT hit hv1 hvI hvV hc12 fuel poll fo
  simp only [hb, if_false, decide_false] at h
  exact h

theorem mcv_bind_for (vars : Vars) (hK : Str) (hkh : vars.get mKH = some hK) :
    bind vars ((some [[Seg.lit mItem], [Seg.lit "in".toList], [Seg.var mKH]]).map fun a => a.map renderTemplate) =
      [mItem, "in".toList, hK] := by
  rw [bind_mk _ _ (by decide)]
  simp [tmplValue, Seg.value, hkh]

/-- lines 13-15 and the `for` line after a hit: the key array is released, its next cell does
    not exist, the loop is left (entry popped) -/
theorem mcv_hit_rest (F d : Nat) (s : ScriptSt) (vars : Vars) (hK : Str) (i : Nat) (fs : List ForCall)
    (hctx : s.ctx = mScope) (hkh : vars.get mKH = some hK)
    (he14 : s.endTable.get (mKey 14) = some fullNameEndIf) (he15 : s.endTable.get (mKey 15) = some fullNameEndForIn)
    (hfs : s.forStack = ⟨i, 8, 15, mScope⟩ :: fs) (fuel poll : Nat) (fo : Option Str) :
    evalInstructions (bodySem F (d + 1) mcvIs) (fun _ => false) mcvIs (fuel + 4) 13 poll fo vars s =
      evalInstructions (bodySem F (d + 1) mcvIs) (fun _ => false) mcvIs fuel 16 (poll + 1 + 1 + 1 + 1) none vars
        { s with coll := { tbl := tremove s.coll.tbl hK, next := s.coll.next }, forStack := fs } := by
  have hb13 : bind vars ((some [[Seg.var mKH]]).map fun a => a.map renderTemplate) = [hK] := by
    rw [bind_mk _ _ (by decide)]
    simp [tmplValue, Seg.value, hkh]
  have e13 := eval_native_continue F (d + 1) mcvIs (fuel + 3) 13 poll fo vars s _ _ "release".toList (.coll .release)
    (show mcvIs[13]? = some (mkI 14 none "release" (some [[.var mKH]])) from rfl) rfl fs_release rn_release
    _ hb13 _ _ _ (run_release hK vars s)
  have e14 := eval_flow_continue F d mcvIs (fuel + 2) 14 (poll + 1) (some (boolStr (tget s.coll.tbl hK).isSome)) vars
    { s with coll := { tbl := tremove s.coll.tbl hK, next := s.coll.next } } _ _ "end".toList .endC
    (show mcvIs[14]? = some (mkI 15 none "end" none) from rfl) rfl fs_end rn_end rf_end [] rfl none _ _
    (runEnd_if _ _ 14 _ _
      (get_endTable_mKey { s with coll := { tbl := tremove s.coll.tbl hK, next := s.coll.next } } hctx 14 _ he14))
  have e15 := eval_flow_goto F d mcvIs (fuel + 1) 15 (poll + 1 + 1) none vars
    { s with coll := { tbl := tremove s.coll.tbl hK, next := s.coll.next } } _ _ "end".toList .endC
    (show mcvIs[15]? = some (mkI 16 none "end" none) from rfl) rfl fs_end rn_end rf_end [] rfl none _ _ 8
    (runEnd_for _ _ 15 _ _ ⟨i, 8, 15, mScope⟩ fs
      (get_endTable_mKey { s with coll := { tbl := tremove s.coll.tbl hK, next := s.coll.next } } hctx 15 _ he15)
      hfs rfl hctx.symm)
  have hnext : nextIteration { s with coll := { tbl := tremove s.coll.tbl hK, next := s.coll.next } } hK i = none := by
    simp [nextIteration, tget_tremove]
  have hfor := runFor_resume (nestedOf (bodySem F d) F) mcvIs 1 mItem hK 8 vars
    { s with coll := { tbl := tremove s.coll.tbl hK, next := s.coll.next } } ⟨i, 8, 15, mScope⟩ fs hfs rfl hctx.symm
  rw [hnext] at hfor
  have e8 := eval_flow_goto F d mcvIs fuel 8 (poll + 1 + 1 + 1) none vars
    { s with coll := { tbl := tremove s.coll.tbl hK, next := s.coll.next } } _ _ "for".toList .forIn
    (show mcvIs[8]? = some (mkI 9 none "for" (some [[.lit mItem], [.lit "in".toList], [.var mKH]])) from rfl) rfl
    fs_for rn_for rf_for _ (mcv_bind_for vars hK hkh) none _ _ 16 hfor
  rw [show fuel + 4 = fuel + 3 + 1 by omega, e13]
  show evalInstructions _ _ _ (fuel + 2 + 1) 14 (poll + 1) _ vars _ = _
  rw [e14]
  show evalInstructions _ _ _ (fuel + 1 + 1) 15 (poll + 1 + 1) none vars _ = _
  rw [e15, e8]

/-- line 15 and the `for` line after a miss, another key is left -/
theorem mcv_miss_next (F d : Nat) (s : ScriptSt) (vars : Vars) (hK y : Str) (i : Nat) (fs : List ForCall)
    (hctx : s.ctx = mScope) (hkh : vars.get mKH = some hK)
    (he15 : s.endTable.get (mKey 15) = some fullNameEndForIn)
    (hfs : s.forStack = ⟨i, 8, 15, mScope⟩ :: fs) (hnext : nextIteration s hK i = some y)
    (fuel poll : Nat) (fo : Option Str) :
    evalInstructions (bodySem F (d + 1) mcvIs) (fun _ => false) mcvIs (fuel + 2) 15 poll fo vars s =
      evalInstructions (bodySem F (d + 1) mcvIs) (fun _ => false) mcvIs fuel 9 (poll + 1 + 1) none (vars.set mItem y)
        { s with forStack := ⟨i + 1, 8, 15, mScope⟩ :: fs } := by
  have e15 := eval_flow_goto F d mcvIs (fuel + 1) 15 poll fo vars s _ _ "end".toList .endC
    (show mcvIs[15]? = some (mkI 16 none "end" none) from rfl) rfl fs_end rn_end rf_end [] rfl none _ _ 8
    (runEnd_for _ _ 15 _ _ ⟨i, 8, 15, mScope⟩ fs (get_endTable_mKey s hctx 15 _ he15) hfs rfl hctx.symm)
  have hfor := runFor_resume (nestedOf (bodySem F d) F) mcvIs 1 mItem hK 8 vars s ⟨i, 8, 15, mScope⟩ fs hfs rfl hctx.symm
  rw [hnext] at hfor
  have e8 := eval_flow_continue F d mcvIs fuel 8 (poll + 1) none vars s _ _ "for".toList .forIn
    (show mcvIs[8]? = some (mkI 9 none "for" (some [[.lit mItem], [.lit "in".toList], [.var mKH]])) from rfl) rfl
    fs_for rn_for rf_for _ (mcv_bind_for vars hK hkh) none _ _ hfor
  rw [show fuel + 2 = fuel + 1 + 1 by omega, e15, e8]
  rfl

/-- line 15 and the `for` line after a miss on the last key: the loop is left -/
theorem mcv_miss_last (F d : Nat) (s : ScriptSt) (vars : Vars) (hK : Str) (i : Nat) (fs : List ForCall)
    (hctx : s.ctx = mScope) (hkh : vars.get mKH = some hK)
    (he15 : s.endTable.get (mKey 15) = some fullNameEndForIn)
    (hfs : s.forStack = ⟨i, 8, 15, mScope⟩ :: fs) (hnext : nextIteration s hK i = none)
    (fuel poll : Nat) (fo : Option Str) :
    evalInstructions (bodySem F (d + 1) mcvIs) (fun _ => false) mcvIs (fuel + 2) 15 poll fo vars s =
      evalInstructions (bodySem F (d + 1) mcvIs) (fun _ => false) mcvIs fuel 16 (poll + 1 + 1) none vars
        { s with forStack := fs } := by
  have e15 := eval_flow_goto F d mcvIs (fuel + 1) 15 poll fo vars s _ _ "end".toList .endC
    (show mcvIs[15]? = some (mkI 16 none "end" none) from rfl) rfl fs_end rn_end rf_end [] rfl none _ _ 8
    (runEnd_for _ _ 15 _ _ ⟨i, 8, 15, mScope⟩ fs (get_endTable_mKey s hctx 15 _ he15) hfs rfl hctx.symm)
  have hfor := runFor_resume (nestedOf (bodySem F d) F) mcvIs 1 mItem hK 8 vars s ⟨i, 8, 15, mScope⟩ fs hfs rfl hctx.symm
  rw [hnext] at hfor
  have e8 := eval_flow_goto F d mcvIs fuel 8 (poll + 1) none vars s _ _ "for".toList .forIn
    (show mcvIs[8]? = some (mkI 9 none "for" (some [[.lit mItem], [.lit "in".toList], [.var mKH]])) from rfl) rfl
    fs_for rn_for rf_for _ (mcv_bind_for vars hK hkh) none _ _ 16 hfor
  rw [show fuel + 2 = fuel + 1 + 1 by omega, e15, e8]

/-! ### the tail -/

/-- lines 17-19: `release ${key_array_handle}` (whatever that variable holds), `set ${found}` -/
theorem mcv_tail17 (F d : Nat) (s : ScriptSt) (vars : Vars) (fnd kh : Str) (hfound : vars.get mFound = some fnd)
    (hkh : (vars.get mKH).getD [] = kh) (fuel poll : Nat) (fo : Option Str) :
    evalInstructions (bodySem F d mcvIs) (fun _ => false) mcvIs (fuel + 4) 17 poll fo vars s =
      some (.finished (some fnd), vars,
        { s with coll := { tbl := tremove s.coll.tbl kh, next := s.coll.next } }) := by
  subst hkh
  rw [show fuel + 4 = fuel + 3 + 1 by omega,
    eval_skip _ _ _ 17 _ _ _ _ _ (show mcvIs[17]? = some (emptyI 18) from rfl) rfl]
  have hb18 : bind vars ((some [[Seg.var mKH]]).map fun a => a.map renderTemplate) = [(vars.get mKH).getD []] := by
    rw [bind_mk _ _ (by decide)]
    simp [tmplValue, Seg.value]
  rw [show fuel + 3 = fuel + 2 + 1 by omega,
    eval_native_continue F d mcvIs (fuel + 2) 18 _ fo vars s _ _ "release".toList (.coll .release)
      (show mcvIs[18]? = some (mkI 19 none "release" (some [[.var mKH]])) from rfl) rfl fs_release rn_release
      _ hb18 _ _ _ (run_release _ vars s)]
  have hb19 : bind (Vars.updateOutput vars none (some (boolStr (tget s.coll.tbl ((vars.get mKH).getD [])).isSome)))
      ((some [[Seg.var mFound]]).map fun a => a.map renderTemplate) = [fnd] := by
    rw [bind_mk _ _ (by decide)]
    simp [tmplValue, Seg.value, Vars.updateOutput, hfound]
  rw [show fuel + 2 = fuel + 1 + 1 by omega,
    eval_native_continue F d mcvIs (fuel + 1) 19 _ _ _ _ _ _ "set".toList .set
      (show mcvIs[19]? = some (mkI 20 none "set" (some [[.var mFound]])) from rfl) rfl fs_set rn_set
      _ hb19 (some fnd) _ _ rfl]
  rw [eval_end _ _ _ 20 _ _ _ _ rfl]
  rfl

/-- line 16 (`end` of the outer `if`) and the tail -/
theorem mcv_tail16 (F d : Nat) (s : ScriptSt) (vars : Vars) (fnd kh : Str) (hctx : s.ctx = mScope)
    (hfound : vars.get mFound = some fnd) (hkh : (vars.get mKH).getD [] = kh)
    (he16 : s.endTable.get (mKey 16) = some fullNameEndIf)
    (fuel poll : Nat) (fo : Option Str) :
    evalInstructions (bodySem F (d + 1) mcvIs) (fun _ => false) mcvIs (fuel + 5) 16 poll fo vars s =
      some (.finished (some fnd), vars,
        { s with coll := { tbl := tremove s.coll.tbl kh, next := s.coll.next } }) := by
  rw [show fuel + 5 = fuel + 4 + 1 by omega,
    eval_flow_continue F d mcvIs (fuel + 4) 16 poll fo vars s _ _ "end".toList .endC
      (show mcvIs[16]? = some (mkI 17 none "end" none) from rfl) rfl fs_end rn_end rf_end [] rfl none _ _
      (runEnd_if _ _ 16 _ _ (get_endTable_mKey s hctx 16 _ he16))]
  exact mcv_tail17 F (d + 1) s vars fnd kh hfound hkh fuel _ _

end Duck.ScriptRun
