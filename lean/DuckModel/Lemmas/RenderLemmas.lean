/-
  Lemmas about whole rendered lines: trimming and `parseLine`.
-/
import DuckModel.Lemmas.LineLemmas

namespace Duck
open Duck.Spec

/-! ### `parseLine` through the trimmed text -/

theorem parseLine_of_trim_nil (l : Str) (h : trim l = []) : parseLine l = .ok .empty := by
  unfold parseLine; simp only [h]

theorem parseLine_of_trim_hash (l r : Str) (h : trim l = '#' :: r) : parseLine l = .ok .empty := by
  unfold parseLine; simp only [h]; simp

theorem parseLine_of_trim_bang (l r : Str) (h : trim l = '!' :: r) :
    parseLine l = parsePreProcessLine r := by
  unfold parseLine; simp only [h]; simp

theorem parseLine_of_trim_cmd (l : Str) (c : Char) (r : Str) (h : trim l = c :: r) (h1 : c ≠ '#')
    (h2 : c ≠ '!') : parseLine l = parseCommandLine (c :: r) := by
  unfold parseLine; simp only [h]; simp [h1, h2]

/-! ### no trailing white space in rendered pieces -/

theorem NoTrail.nil : NoTrail [] := rfl

theorem NoTrail.append' (a b : Str) (ha : NoTrail a) (hb : NoTrail b) : NoTrail (a ++ b) := by
  cases b with
  | nil => simpa using ha
  | cons c t => exact NoTrail.append a (c :: t) hb (by simp)

theorem escChar_nonws (c x : Char) (hc : isWs c = false) (hx : x ∈ escChar c) : isWs x = false := by
  unfold escChar at hx
  repeat' split at hx
  all_goals simp at hx
  all_goals (try (rcases hx with rfl | rfl <;> decide))
  subst hx; exact hc

theorem escape_nonws (s : Str) (h : ∀ c ∈ s, isWs c = false) : ∀ x ∈ escape s, isWs x = false := by
  induction s with
  | nil => simp [escape]
  | cons c t ih =>
    intro x hx
    rw [escape_cons] at hx
    rcases List.mem_append.mp hx with hx | hx
    · exact escChar_nonws c x (h c (by simp)) hx
    · exact ih (fun y hy => h y (by simp [hy])) x hx

theorem escape_append (a b : Str) : escape (a ++ b) = escape a ++ escape b := by
  simp [escape, List.flatMap_append]

theorem escChar_ne_nil (c : Char) : escChar c ≠ [] := by
  unfold escChar
  repeat' split
  all_goals simp

/-- the escaped text of a character that is not white space does not end in white space: its last
    character is the character itself, or the second character of `\\` / `\"` -/
theorem noTrail_escChar (c : Char) (hc : isWs c = false) : NoTrail (escChar c) :=
  NoTrail.of_all_nonws _ (fun x hx => escChar_nonws c x hc hx)

/-- the escaped text of `s` does not end in white space when the last character of `s` is not white
    space (white space in the middle is harmless) -/
theorem noTrail_escape (s : Str) (h : ∀ c, s.getLast? = some c → isWs c = false) :
    NoTrail (escape s) := by
  cases hl : s.getLast? with
  | none =>
    have : s = [] := by simpa using hl
    subst this; exact NoTrail.nil
  | some c =>
    obtain ⟨ys, rfl⟩ := List.getLast?_eq_some_iff.mp hl
    rw [escape_append]
    have e : escape [c] = escChar c := by simp [escape]
    rw [e]
    exact NoTrail.append _ _ (noTrail_escChar c (h c hl)) (escChar_ne_nil c)

theorem noTrail_renderArg (q : Bool) (a : Str) : NoTrail (renderArg q a) := by
  unfold renderArg
  split
  · have : '"' :: (escape a ++ ['"']) = ('"' :: escape a) ++ ['"'] := by simp
    rw [this]
    exact NoTrail.append_singleton _ _ (by decide)
  · rename_i hcond
    have hcu : canUnquote a = true := by
      cases hq : canUnquote a <;> simp [hq] at hcond ⊢
    obtain ⟨_, _, _, hlast, _, _⟩ := (canUnquote_iff a).mp hcu
    exact noTrail_escape a hlast

theorem renderArg_ne_nil (q : Bool) (a : Str) : renderArg q a ≠ [] := by
  obtain ⟨c, r, h, _⟩ := renderArg_head q a
  rw [h]; simp

theorem noTrail_renderArgs (ch : List (Nat × Bool)) (as : List Str) :
    ∀ k, NoTrail (renderArgs ch k as) := by
  induction as with
  | nil => intro k; exact NoTrail.nil
  | cons a as ih =>
    intro k
    have : renderArgs ch k (a :: as) =
        spaces ((argChoice ch k).1 + 1) ++ (renderArg (argChoice ch k).2 a ++ renderArgs ch (k + 1) as) := by
      simp [renderArgs]
    rw [this]
    refine NoTrail.append _ _ (NoTrail.append' _ _ (noTrail_renderArg _ _) (ih (k + 1))) ?_
    have := renderArg_ne_nil (argChoice ch k).2 a
    simp [this]

theorem noTrail_name {n : Str} (h : NameOK n) : NoTrail n :=
  NoTrail.of_all_nonws n (fun c hc => (h.2.1 c hc).1)

/-! ### the first character of a rendered body -/

theorem first_char (label : Option Str) (al : Nat) (nm rest : Str) (hl : LabelOK label)
    (hn : NameOK nm) (hf : label = none → FirstOK nm) :
    ∃ x r, lblPart label al ++ (nm ++ rest) = x :: r ∧ isWs x = false ∧ x ≠ '#' ∧ x ≠ '!' := by
  cases label with
  | some l =>
    obtain ⟨n, rfl, _⟩ := hl l rfl
    exact ⟨':', n ++ spaces (al + 1) ++ (nm ++ rest), by simp [lblPart], by decide, by decide, by decide⟩
  | none =>
    obtain ⟨x, t, rfl, hws, hh, _⟩ := nameOK_head hn
    have := (hf rfl).2
    exact ⟨x, t ++ rest, by simp [lblPart], hws, hh, by simpa using this⟩

/-! ### trimming a rendered line -/

theorem trim_rendered_none (lead trail x : Str) (hl : ∀ c ∈ lead, isWs c = true)
    (ht : ∀ c ∈ trail, isWs c = true) :
    trim (lead ++ (x ++ renderComment none) ++ trail) = trim x := by
  simp only [renderComment, List.append_nil]
  unfold trim
  rw [List.append_assoc, trimStart_append_ws lead _ hl]
  have := trim_append_ws x trail ht
  unfold trim at this
  exact this

theorem trim_rendered_some (lead trail : Str) (c : Char) (r : Str) (k : Nat) (t : Str)
    (hl : ∀ c ∈ lead, isWs c = true) (hc : isWs c = false) :
    trim (lead ++ ((c :: r) ++ renderComment (some (k, t))) ++ trail) =
      (c :: r) ++ (spaces k ++ '#' :: trimEnd (t ++ trail)) := by
  have hh : trimEnd ('#' :: (t ++ trail)) = '#' :: trimEnd (t ++ trail) :=
    trimEnd_cons_nonws _ _ (by decide)
  have e : lead ++ ((c :: r) ++ renderComment (some (k, t))) ++ trail =
      lead ++ c :: ((r ++ spaces k) ++ '#' :: (t ++ trail)) := by
    simp [renderComment]
  rw [e, trim_lead_cons lead c _ hl hc, trimEnd_append_ne_nil _ _ (by rw [hh]; simp), hh]
  simp

/-- a rendered body that starts with a visible character, with any comment, lead and trail -/
theorem parseLine_rendered (lead trail body : Str) (cm : Option (Nat × Str)) (R : InstrType)
    (hl : ∀ c ∈ lead, isWs c = true) (ht : ∀ c ∈ trail, isWs c = true)
    (hx : ∃ x r, body = x :: r ∧ isWs x = false ∧ x ≠ '#' ∧ x ≠ '!')
    (hparse : ∀ t, EolTail t → parseCommandLine (body ++ t) = .ok R)
    (htrim : parseCommandLine (trimEnd body) = .ok R) :
    parseLine (lead ++ (body ++ renderComment cm) ++ trail) = .ok R := by
  obtain ⟨x, r, rfl, hws, h1, h2⟩ := hx
  cases cm with
  | none =>
    have e := trim_rendered_none lead trail (x :: r) hl ht
    have e2 : trim (x :: r) = x :: trimEnd r := by
      unfold trim; rw [trimStart_cons_nonws x r hws, trimEnd_cons_nonws x r hws]
    rw [parseLine_of_trim_cmd _ x (trimEnd r) (by rw [e, e2]) h1 h2]
    rw [trimEnd_cons_nonws x r hws] at htrim
    exact htrim
  | some p =>
    obtain ⟨k, t⟩ := p
    have e := trim_rendered_some lead trail x r k t hl hws
    rw [parseLine_of_trim_cmd _ x (r ++ (spaces k ++ '#' :: trimEnd (t ++ trail)))
      (by rw [e]; simp) h1 h2]
    exact hparse _ (EolTail.spaces_append k (EolTail.hash _))

/-- an all-empty instruction renders to a blank or comment-only line -/
theorem parseLine_comment_only (lead trail : Str) (cm : Option (Nat × Str))
    (hl : ∀ c ∈ lead, isWs c = true) (ht : ∀ c ∈ trail, isWs c = true) :
    parseLine (lead ++ renderComment cm ++ trail) = .ok .empty := by
  cases cm with
  | none =>
    apply parseLine_of_trim_nil
    apply trim_ws
    intro c hc
    simp [renderComment] at hc
    rcases hc with hc | hc
    · exact hl c hc
    · exact ht c hc
  | some p =>
    obtain ⟨k, t⟩ := p
    have e : lead ++ renderComment (some (k, t)) ++ trail = (lead ++ spaces k) ++ '#' :: (t ++ trail) := by
      simp [renderComment]
    rw [e]
    apply parseLine_of_trim_hash _ (trimEnd (t ++ trail))
    apply trim_lead_cons _ _ _ _ (by decide)
    intro c hc
    rcases List.mem_append.mp hc with hc | hc
    · exact hl c hc
    · exact spaces_ws k c hc

/-! ### C01: one rendered line -/

theorem line_roundtrip (ch : Choices) (i : ScriptInstr) (hi : InstrOK i) (hc : ChoicesOK ch) :
    parseLine (renderLine ch i) = .ok (expected i) := by
  obtain ⟨label, output, command, args⟩ := i
  obtain ⟨hlab, hout, hcmd, hargs1, hargs2⟩ := hi
  simp only at hlab hout hcmd hargs1 hargs2
  have hl : LabelOK label := hlab
  have hlead : ∀ c ∈ ch.lead, isWs c = true := fun c h => (hc.lead c h).1
  have htrail : ∀ c ∈ ch.trail, isWs c = true := fun c h => (hc.trail c h).1
  unfold renderLine
  cases command with
  | some c =>
    obtain ⟨hc1, hc2⟩ := hcmd c rfl
    have hexp : expected ⟨label, output, some c, args⟩ = .script ⟨label, output, some c, args⟩ := by
      simp [expected]
    have hbody : renderBody ch ⟨label, output, some c, args⟩ =
        (lblPart label ch.afterLabel ++
          (outPart output ch.eqBefore ch.eqAfter ++ (c ++ renderArgs ch.args 0 (args.getD [])))) ++
        renderComment ch.comment := by
      cases label <;> cases output <;> simp [renderBody, renderCore, lblPart, outPart]
    rw [hbody, hexp]
    have hparse : ∀ t, EolTail t → parseCommandLine ((lblPart label ch.afterLabel ++
          (outPart output ch.eqBefore ch.eqAfter ++ (c ++ renderArgs ch.args 0 (args.getD [])))) ++ t) =
        .ok (.script ⟨label, output, some c, args⟩) := by
      intro t ht
      have := parseCommandLine_cmd label ch.afterLabel output ch.eqBefore ch.eqAfter c ch.args args
        hl hout ⟨hc1, hc2⟩ hargs2 ht
      simpa [List.append_assoc] using this
    refine parseLine_rendered _ _ _ _ _ hlead htrail ?_ hparse ?_
    · cases output with
      | some o =>
        obtain ⟨ho1, _, ho3⟩ := hout o rfl
        simp only [outPart, List.append_assoc]
        exact first_char label _ o _ hl ho1 ho3
      | none =>
        simp only [outPart, List.nil_append]
        exact first_char label _ c _ hl hc1 (fun h => (hc2 rfl).2 h)
    · have hnt : NoTrail (lblPart label ch.afterLabel ++
          (outPart output ch.eqBefore ch.eqAfter ++ (c ++ renderArgs ch.args 0 (args.getD [])))) := by
        rw [← List.append_assoc]
        refine NoTrail.append _ _ (NoTrail.append' _ _ (noTrail_name hc1) (noTrail_renderArgs _ _ _)) ?_
        have := hc1.1
        simp [this]
      rw [hnt]
      simpa using hparse [] EolTail.nil
  | none =>
    have hargs : args = none := hargs1 rfl
    subst hargs
    cases output with
    | some o =>
      obtain ⟨ho1, ho2, ho3⟩ := hout o rfl
      have hexp : expected ⟨label, some o, none, none⟩ = .script ⟨label, some o, none, none⟩ := by
        simp [expected]
      have hbody : renderBody ch ⟨label, some o, none, none⟩ =
          (lblPart label ch.afterLabel ++ (o ++ (spaces ch.eqBefore ++ '=' :: spaces ch.eqAfter))) ++
            renderComment ch.comment := by
        cases label <;> simp [renderBody, renderCore, lblPart]
      rw [hbody, hexp]
      refine parseLine_rendered _ _ _ _ _ hlead htrail ?_ ?_ ?_
      · exact first_char label _ o _ hl ho1 ho3
      · intro t ht
        have := parseCommandLine_output_only label ch.afterLabel o ch.eqBefore hl ho1 ho2 ho3
          (EolTail.spaces_append ch.eqAfter ht)
        simpa [List.append_assoc] using this
      · have e : lblPart label ch.afterLabel ++ (o ++ (spaces ch.eqBefore ++ '=' :: spaces ch.eqAfter)) =
            ((lblPart label ch.afterLabel ++ (o ++ spaces ch.eqBefore)) ++ ['=']) ++ spaces ch.eqAfter := by
          simp
        rw [e, trimEnd_append_ws _ _ (spaces_ws _), NoTrail.append_singleton _ _ (by decide)]
        have := parseCommandLine_output_only label ch.afterLabel o ch.eqBefore hl ho1 ho2 ho3
          EolTail.nil
        simpa [List.append_assoc] using this
    | none =>
      cases label with
      | some l =>
        obtain ⟨n, rfl, hn⟩ := hl l rfl
        have hexp : expected ⟨some (':' :: n), none, none, none⟩ =
            .script ⟨some (':' :: n), none, none, none⟩ := by
          simp [expected]
        have hbody : renderBody ch ⟨some (':' :: n), none, none, none⟩ =
            (':' :: n) ++ renderComment ch.comment := by
          simp [renderBody, renderCore]
        rw [hbody, hexp]
        refine parseLine_rendered _ _ _ _ _ hlead htrail ?_ ?_ ?_
        · exact ⟨':', n, rfl, by decide, by decide, by decide⟩
        · intro t ht
          exact parseCommandLine_label_only n hn ht
        · have hnt : NoTrail (':' :: n) := by
            have := NoTrail.append [':'] n (noTrail_name hn) hn.1
            simpa using this
          rw [hnt]
          simpa using parseCommandLine_label_only n hn EolTail.nil
      | none =>
        have hexp : expected ⟨none, none, none, none⟩ = .empty := by simp [expected]
        have hbody : renderBody ch ⟨none, none, none, none⟩ = renderComment ch.comment := by
          simp [renderBody, renderCore]
        rw [hbody, hexp]
        exact parseLine_comment_only _ _ _ hlead htrail

end Duck
