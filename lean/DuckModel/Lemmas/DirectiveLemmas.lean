/-
  C14 (run level) — the definitions and lemmas behind Props/C14Run.lean.

  A pre-processor instruction (`!include_files …`, `!print …`) is a no-op of the runner: it
  changes neither variables nor state and moves to the next line.  Removing some of them from an
  instruction list (`is.filter keep`, where `keep` only rejects pre-processor instructions)
  shifts the absolute indexes of the remaining instructions: index `k` becomes
  `posIn keep is k` = the number of kept instructions before `k`.

  * index lemmas for `posIn`,
  * the label table of the filtered list is the label table of the list, mapped through `posIn`
    (through the declarative reading `IsLabelLine` / `NoLabelLine` of C03),
  * one `runStep` on a kept instruction (or past the end) is the same step on both lists
    (`runStep_corr`); one `runStep` on a dropped instruction is a stutter (`runStep_dropped`),
  * the two simulations of `runLoop` (`runLoop_filter_forward`, `runLoop_filter_backward`).
-/
import DuckModel.Runner
import DuckModel.Spec.Machine
import DuckModel.Lemmas.RunnerLabels
import DuckModel.Lemmas.RunnerLemmas
import DuckModel.Lemmas.IncludeLemmas

namespace Duck
open Duck.Spec

/-! ### definitions -/

/-- a pre-processor (directive) instruction -/
def isPreProcess (i : Instruction) : Bool :=
  match i.ty with
  | .preProcess _ _ => true
  | _ => false

/-- the instruction list without ANY pre-processor instruction -/
def dropDirectives (is : List Instruction) : List Instruction := is.filter (fun i => !isPreProcess i)

/-- a selection of instructions that only ever rejects pre-processor instructions -/
def DropsOnlyDirectives (keep : Instruction → Bool) : Prop :=
  ∀ i, keep i = false → isPreProcess i = true

/-- the index, in `is.filter keep`, that corresponds to index `k` of `is`:
    the number of kept instructions before `k` -/
def posIn (keep : Instruction → Bool) : List Instruction → Nat → Nat
  | [], _ => 0
  | _ :: _, 0 => 0
  | i :: rest, k + 1 => (if keep i then 1 else 0) + posIn keep rest k

/-- the commands do not look at the absolute line index they are handed -/
def LineInsensitive {σ : Type} (sem : CmdSem σ) : Prop :=
  ∀ name args out (l l' : Nat) vars s, sem name args out l vars s = sem name args out l' vars s

/-- the commands never ask for a jump to an absolute line index -/
def NoAbsoluteJumps {σ : Type} (sem : CmdSem σ) : Prop :=
  ∀ name args out (l : Nat) vars s v n vars' s',
    sem name args out l vars s ≠ some (.goTo v (.line n), vars', s')

/-- the halt oracle looks at the state only, not at the number of the poll -/
def StateOnlyHalt {σ : Type} (halt : Nat → σ → Bool) : Prop :=
  ∀ (k k' : Nat) (s : σ), halt k s = halt k' s

/-- corresponding runner states: same variables, same state, corresponding lines
    (the poll counters are NOT related: the longer list is polled more often) -/
def Corr {σ : Type} (pos : Nat → Nat) (a b : RunState σ) : Prop :=
  b.line = pos a.line ∧ b.vars = a.vars ∧ b.st = a.st

/-- corresponding results of one `runStep` -/
def StepCorr {σ : Type} (pos : Nat → Nat) :
    RunState σ ⊕ (RunState σ × RunEnd) → RunState σ ⊕ (RunState σ × RunEnd) → Prop
  | .inl a, .inl b => Corr pos a b
  | .inr (a, e), .inr (b, e') => Corr pos a b ∧ e = e'
  | _, _ => False

/-- the run did not stop for lack of fuel -/
def Finished {σ : Type} (x : RunState σ × RunEnd) : Prop := x.2 ≠ .outOfFuel

instance {σ : Type} (x : RunState σ × RunEnd) : Decidable (Finished x) := by
  unfold Finished
  exact inferInstance

/-- two finished runs end the same way: same variables, same state, same kind of end (for a
    failure: same message and same meta info of the failing instruction).  The final line and
    the poll counter are not compared (they are indexes into / counts over different lists). -/
def SameOutcome {σ : Type} (x y : RunState σ × RunEnd) : Prop :=
  x.1.vars = y.1.vars ∧ x.1.st = y.1.st ∧ x.2 = y.2

theorem dropsOnly_notPre : DropsOnlyDirectives (fun i => !isPreProcess i) := by
  intro i h
  simpa using h

theorem dropsOnly_notDirective : DropsOnlyDirectives (fun i => !isDirective i) := by
  intro i h
  obtain ⟨mi, ty⟩ := i
  cases ty with
  | preProcess c a => rfl
  | empty => simp [isDirective] at h
  | script si => simp [isDirective] at h

theorem hasLabel_keep (keep : Instruction → Bool) (hD : DropsOnlyDirectives keep)
    (i : Instruction) (l : Str) (h : HasLabel i l) : keep i = true := by
  cases hk : keep i with
  | true => rfl
  | false =>
    have hp := hD i hk
    obtain ⟨si, hs, _⟩ := h
    unfold isPreProcess at hp
    rw [hs] at hp
    simp at hp

/-- the parse-level equivalence in the form the run-level theorem consumes (the statement of
    `C14_inline_equiv`; `∃ ty, lineOutcome l = .ok ty` is `LineWellFormed l` unfolded): when the
    inlining succeeds and every inlined line is accepted on its own, the parse succeeds and its
    non-include-directive instructions are the instructions of the inlined lines -/
theorem inline_strip (fs : Fs) (fuel : Nat) (root : Str) (ls : List (Meta × Str))
    (hin : Spec.inline (worldOf fs) fuel root = (ls, none))
    (hok : ∀ p ∈ ls, ∃ ty, lineOutcome p.2 = .ok ty) :
    ∃ is, parseFileF fs fuel root = .ok is ∧ stripDirectives is = ls.map instrOf := by
  have h := parseFileF_eq_inline fs fuel root
  rw [hin] at h
  obtain ⟨is', his', _, _⟩ := parseEach_all_ok ls hok
  simp only [parseInlined, his'] at h
  cases hp : parseFileF fs fuel root with
  | error e => simp [hp, mapOk] at h
  | ok is =>
    simp only [hp, mapOk, Except.ok.injEq] at h
    refine ⟨is, rfl, ?_⟩
    rw [h]
    exact parseEach_map ls is' his'

/-! ### the index map -/

theorem posIn_zero (keep : Instruction → Bool) (is : List Instruction) : posIn keep is 0 = 0 := by
  cases is <;> rfl

theorem posIn_eq_take (keep : Instruction → Bool) (is : List Instruction) :
    ∀ k, posIn keep is k = ((is.take k).filter keep).length := by
  induction is with
  | nil => intro k; simp [posIn]
  | cons i rest ih =>
    intro k
    cases k with
    | zero => simp [posIn]
    | succ k =>
      rw [posIn, ih k, List.take_succ_cons, List.filter_cons]
      cases keep i <;> simp <;> omega

theorem posIn_getElem_keep (keep : Instruction → Bool) (is : List Instruction) :
    ∀ (k : Nat) (i : Instruction), is[k]? = some i → keep i = true →
      (is.filter keep)[posIn keep is k]? = some i ∧ posIn keep is (k + 1) = posIn keep is k + 1 := by
  induction is with
  | nil => intro k i h; simp at h
  | cons j rest ih =>
    intro k i h hk
    cases k with
    | zero =>
      simp at h
      subst h
      simp [posIn, posIn_zero, hk]
    | succ k =>
      have h' : rest[k]? = some i := by simpa using h
      obtain ⟨h1, h2⟩ := ih k i h' hk
      rw [posIn, posIn, h2]
      cases hj : keep j with
      | true =>
        simp only [if_true, List.filter_cons, hj]
        refine ⟨?_, by omega⟩
        rw [Nat.add_comm 1, List.getElem?_cons_succ]
        exact h1
      | false =>
        simp only [Bool.false_eq_true, if_false, List.filter_cons, hj, Nat.zero_add]
        exact ⟨h1, trivial⟩

theorem posIn_succ_drop (keep : Instruction → Bool) (is : List Instruction) :
    ∀ (k : Nat) (i : Instruction), is[k]? = some i → keep i = false →
      posIn keep is (k + 1) = posIn keep is k := by
  induction is with
  | nil => intro k i h; simp at h
  | cons j rest ih =>
    intro k i h hk
    cases k with
    | zero =>
      simp at h
      subst h
      simp [posIn, posIn_zero, hk]
    | succ k =>
      have h' : rest[k]? = some i := by simpa using h
      rw [posIn, posIn, ih k i h' hk]

theorem posIn_getElem_none (keep : Instruction → Bool) (is : List Instruction) :
    ∀ (k : Nat), is[k]? = none → (is.filter keep)[posIn keep is k]? = none := by
  induction is with
  | nil => intro k _; simp
  | cons j rest ih =>
    intro k h
    cases k with
    | zero => simp at h
    | succ k =>
      have h' : rest[k]? = none := by simpa using h
      have := ih k h'
      rw [posIn, List.filter_cons]
      cases hj : keep j with
      | true =>
        simp only [if_true]
        rw [Nat.add_comm 1, List.getElem?_cons_succ]
        exact this
      | false =>
        simp only [Bool.false_eq_true, if_false, Nat.zero_add]
        exact this

/-! ### labels -/

theorem noLabelLine_filter (keep : Instruction → Bool) (is : List Instruction) (l : Str)
    (h : NoLabelLine is l) : NoLabelLine (is.filter keep) l := by
  induction is with
  | nil => simpa using h
  | cons i rest ih =>
    rw [noLabelLine_cons] at h
    rw [List.filter_cons]
    split
    · rw [noLabelLine_cons]
      exact ⟨h.1, ih h.2⟩
    · exact ih h.2

theorem isLabelLine_filter (keep : Instruction → Bool) (hD : DropsOnlyDirectives keep)
    (is : List Instruction) (l : Str) :
    ∀ k, IsLabelLine is l k → IsLabelLine (is.filter keep) l (posIn keep is k) := by
  induction is with
  | nil => intro k h; exact absurd h (not_isLabelLine_nil l k)
  | cons i rest ih =>
    intro k h
    rw [isLabelLine_cons] at h
    rcases h with ⟨k', rfl, h'⟩ | ⟨rfl, hl, hno⟩
    · have := ih k' h'
      rw [posIn, List.filter_cons]
      cases hi : keep i with
      | true =>
        simp only [if_true]
        rw [isLabelLine_cons]
        exact Or.inl ⟨posIn keep rest k', by omega, this⟩
      | false =>
        simp only [Bool.false_eq_true, if_false, Nat.zero_add]
        exact this
    · have hk := hasLabel_keep keep hD i l hl
      rw [posIn_zero, List.filter_cons, hk]
      simp only [if_true]
      rw [isLabelLine_cons]
      exact Or.inr ⟨rfl, hl, noLabelLine_filter keep rest l hno⟩

/-- the label table of the filtered list is the label table of the list, re-indexed -/
theorem lookupLabel_filter (keep : Instruction → Bool) (hD : DropsOnlyDirectives keep)
    (is : List Instruction) (l : Str) :
    lookupLabel (labelTable (is.filter keep)) l =
      (lookupLabel (labelTable is) l).map (posIn keep is) := by
  cases h : lookupLabel (labelTable is) l with
  | none =>
    rw [lookup_labelTable_none] at h
    simp only [Option.map_none]
    rw [lookup_labelTable_none]
    exact noLabelLine_filter keep is l h
  | some k =>
    rw [lookup_labelTable_some] at h
    simp only [Option.map_some]
    rw [lookup_labelTable_some]
    exact isLabelLine_filter keep hD is l k h

/-! ### one instruction -/

variable {σ : Type}

theorem runInstruction_line (sem : CmdSem σ) (hL : LineInsensitive sem) (vars : Vars) (s : σ)
    (i : Instruction) (l l' : Nat) :
    runInstruction sem vars s i l = runInstruction sem vars s i l' := by
  obtain ⟨mi, ty⟩ := i
  cases ty with
  | empty => rfl
  | preProcess _ _ => rfl
  | script si =>
    obtain ⟨lab, out, cmd, args⟩ := si
    cases cmd with
    | none => rfl
    | some c =>
      simp only [runInstruction]
      rw [hL c _ out l l']

theorem runInstruction_no_line (sem : CmdSem σ) (hN : NoAbsoluteJumps sem) (vars : Vars) (s : σ)
    (i : Instruction) (l : Nat) (v : Option Str) (n : Nat) (out : Option Str) (vars' : Vars)
    (s' : σ) : runInstruction sem vars s i l ≠ (.goTo v (.line n), out, vars', s') := by
  obtain ⟨mi, ty⟩ := i
  cases ty with
  | empty => simp [runInstruction]
  | preProcess _ _ => simp [runInstruction]
  | script si =>
    obtain ⟨lab, o, cmd, args⟩ := si
    cases cmd with
    | none => simp [runInstruction]
    | some c =>
      simp only [runInstruction]
      cases hs : sem c (bind vars args) o l vars s with
      | none => simp
      | some r =>
        obtain ⟨r, v1, s1⟩ := r
        intro h
        simp only [Prod.mk.injEq] at h
        obtain ⟨rfl, _, rfl, rfl⟩ := h
        exact hN _ _ _ _ _ _ _ _ _ _ hs

theorem runInstruction_pre (sem : CmdSem σ) (vars : Vars) (s : σ) (i : Instruction) (l : Nat)
    (h : isPreProcess i = true) : runInstruction sem vars s i l = (.continue none, none, vars, s) := by
  obtain ⟨mi, ty⟩ := i
  cases ty with
  | empty => simp [isPreProcess] at h
  | preProcess _ _ => rfl
  | script si => simp [isPreProcess] at h

/-! ### one step -/

/-- a step on a dropped instruction is a stutter: next line, nothing else changes -/
theorem runStep_dropped (sem : CmdSem σ) (is : List Instruction) (labels : List (Str × Nat))
    (halt : Nat → σ → Bool) (rs : RunState σ) (i : Instruction)
    (hh : halt rs.polls rs.st = false) (hi : is[rs.line]? = some i) (hp : isPreProcess i = true) :
    runStep sem is labels halt rs =
      .inl { line := rs.line + 1, polls := rs.polls + 1, vars := rs.vars, st := rs.st } := by
  unfold runStep
  simp only [hh, Bool.false_eq_true, if_false, hi, runInstruction_pre sem _ _ i _ hp,
    Vars.updateOutput]

/-- a step on a kept instruction, or past the end, is the same step on both lists -/
theorem runStep_corr (sem : CmdSem σ) (hL : LineInsensitive sem) (hN : NoAbsoluteJumps sem)
    (halt : Nat → σ → Bool) (hH : StateOnlyHalt halt)
    (keep : Instruction → Bool) (hD : DropsOnlyDirectives keep) (is : List Instruction)
    (rs rs' : RunState σ) (hc : Corr (posIn keep is) rs rs')
    (hk : ∀ i, is[rs.line]? = some i → keep i = true) :
    StepCorr (posIn keep is) (runStep sem is (labelTable is) halt rs)
      (runStep sem (is.filter keep) (labelTable (is.filter keep)) halt rs') := by
  obtain ⟨k, p, vars0, s0⟩ := rs
  obtain ⟨k', p', vars, s⟩ := rs'
  obtain ⟨h1, h2, h3⟩ := hc
  simp only at h1 h2 h3 hk
  subst h1 h2 h3
  unfold runStep
  simp only [hH p' p s]
  cases hh : halt p s with
  | true => simp [StepCorr, Corr]
  | false =>
    simp only [Bool.false_eq_true, if_false]
    cases hi : is[k]? with
    | none =>
      simp only [posIn_getElem_none keep is k hi]
      simp [StepCorr, Corr]
    | some i =>
      obtain ⟨hi', hsucc⟩ := posIn_getElem_keep keep is k i hi (hk i hi)
      simp only [hi']
      rw [runInstruction_line sem hL vars s i (posIn keep is k) k]
      have hnl := runInstruction_no_line sem hN vars s i k
      rcases hr : runInstruction sem vars s i k with ⟨result, out, v1, s1⟩
      rw [hr] at hnl
      cases result with
      | «continue» v => simp [StepCorr, Corr, hsucc]
      | error e =>
        simp only
        rcases runOnError sem (Vars.updateOutput v1 out (some "false".toList)) s1 e i.mi with
          ⟨_ | msg, v2, s2⟩
        · simp [StepCorr, Corr, hsucc]
        · simp [StepCorr, Corr]
      | crash e => simp [StepCorr, Corr]
      | exit v =>
        simp only
        cases v.bind parseI32 with
        | none => simp [StepCorr, Corr]
        | some code =>
          simp only
          by_cases hcode : code ≠ 0
          · simp [StepCorr, Corr, hcode]
          · simp [StepCorr, Corr, hcode]
      | goTo v g =>
        cases g with
        | line n => exact absurd rfl (hnl v n out v1 s1)
        | label l =>
          simp only
          rw [lookupLabel_filter keep hD is l]
          cases lookupLabel (labelTable is) l with
          | none => simp [StepCorr, Corr]
          | some t => simp [StepCorr, Corr]

/-! ### the two simulations -/

/-- a finished run of the list is, with the same fuel, a run of the filtered list ending the
    same way -/
theorem runLoop_filter_forward (sem : CmdSem σ) (hL : LineInsensitive sem)
    (hN : NoAbsoluteJumps sem) (halt : Nat → σ → Bool) (hH : StateOnlyHalt halt)
    (keep : Instruction → Bool) (hD : DropsOnlyDirectives keep) (is : List Instruction)
    (fuel : Nat) :
    ∀ (rs rs' r : RunState σ) (e : RunEnd), Corr (posIn keep is) rs rs' →
      runLoop sem is (labelTable is) halt fuel rs = (r, e) → e ≠ .outOfFuel →
      ∃ r', runLoop sem (is.filter keep) (labelTable (is.filter keep)) halt fuel rs' = (r', e) ∧
        Corr (posIn keep is) r r' := by
  induction fuel with
  | zero =>
    intro rs rs' r e _ h he
    rw [runLoop_zero] at h
    exact absurd (Prod.mk.inj h).2.symm he
  | succ fuel ih =>
    intro rs rs' r e hc h he
    by_cases hdrop : ∃ i, is[rs.line]? = some i ∧ keep i = false
    · obtain ⟨i, hi, hki⟩ := hdrop
      cases hh : halt rs.polls rs.st with
      | true =>
        rw [runLoop_succ, runStep_halt_true sem is _ halt rs hh] at h
        obtain ⟨rfl, rfl⟩ := Prod.mk.inj h
        refine ⟨rs', ?_, hc⟩
        rw [runLoop_succ, runStep_halt_true sem _ _ halt rs' (by rw [hH _ rs.polls, hc.2.2]; exact hh)]
      | false =>
        rw [runLoop_succ, runStep_dropped sem is _ halt rs i hh hi (hD i hki)] at h
        have hc' : Corr (posIn keep is)
            { line := rs.line + 1, polls := rs.polls + 1, vars := rs.vars, st := rs.st } rs' := by
          refine ⟨?_, hc.2.1, hc.2.2⟩
          rw [hc.1]
          exact (posIn_succ_drop keep is rs.line i hi hki).symm
        obtain ⟨r', hr', hcr⟩ := ih _ rs' r e hc' h he
        exact ⟨r', runLoop_fuel_mono sem _ _ halt fuel 1 rs' r' e hr' he, hcr⟩
    · have hk : ∀ i, is[rs.line]? = some i → keep i = true := by
        intro i hi
        cases hki : keep i with
        | true => rfl
        | false => exact absurd ⟨i, hi, hki⟩ hdrop
      have hs := runStep_corr sem hL hN halt hH keep hD is rs rs' hc hk
      rw [runLoop_succ] at h ⊢
      cases h1 : runStep sem is (labelTable is) halt rs with
      | inl a =>
        cases h2 : runStep sem (is.filter keep) (labelTable (is.filter keep)) halt rs' with
        | inl b =>
          rw [h1, h2] at hs
          rw [h1] at h
          exact ih a b r e hs h he
        | inr q => rw [h1, h2] at hs; exact absurd hs (by simp [StepCorr])
      | inr q =>
        obtain ⟨a, ea⟩ := q
        cases h2 : runStep sem (is.filter keep) (labelTable (is.filter keep)) halt rs' with
        | inl b => rw [h1, h2] at hs; exact absurd hs (by simp [StepCorr])
        | inr q' =>
          obtain ⟨b, eb⟩ := q'
          rw [h1, h2] at hs
          rw [h1] at h
          obtain ⟨rfl, rfl⟩ := Prod.mk.inj h
          obtain ⟨hab, rfl⟩ := hs
          exact ⟨b, rfl, hab⟩

/-- a finished run of the filtered list with fuel `f'` is a run of the list ending the same
    way; between two steps of the filtered list the list makes at most `length` stutter steps,
    so `f' * (length + 1)` steps are enough (the bound below is the one the induction needs) -/
theorem runLoop_filter_backward (sem : CmdSem σ) (hL : LineInsensitive sem)
    (hN : NoAbsoluteJumps sem) (halt : Nat → σ → Bool) (hH : StateOnlyHalt halt)
    (keep : Instruction → Bool) (hD : DropsOnlyDirectives keep) (is : List Instruction)
    (f' : Nat) :
    ∀ (n : Nat) (rs rs' r' : RunState σ) (e : RunEnd), is.length - rs.line ≤ n →
      Corr (posIn keep is) rs rs' →
      runLoop sem (is.filter keep) (labelTable (is.filter keep)) halt f' rs' = (r', e) →
      e ≠ .outOfFuel →
      ∃ f r, f + is.length ≤ f' * (is.length + 1) + (is.length - rs.line) ∧
        runLoop sem is (labelTable is) halt f rs = (r, e) ∧ Corr (posIn keep is) r r' := by
  induction f' with
  | zero =>
    intro n rs rs' r' e _ _ h he
    rw [runLoop_zero] at h
    exact absurd (Prod.mk.inj h).2.symm he
  | succ f' ih =>
    have hm : (f' + 1) * (is.length + 1) = f' * (is.length + 1) + (is.length + 1) :=
      Nat.succ_mul _ _
    have kept : ∀ (rs rs' r' : RunState σ) (e : RunEnd),
        (∀ i, is[rs.line]? = some i → keep i = true) → Corr (posIn keep is) rs rs' →
        runLoop sem (is.filter keep) (labelTable (is.filter keep)) halt (f' + 1) rs' = (r', e) →
        e ≠ .outOfFuel →
        ∃ f r, f + is.length ≤ (f' + 1) * (is.length + 1) + (is.length - rs.line) ∧
          runLoop sem is (labelTable is) halt f rs = (r, e) ∧ Corr (posIn keep is) r r' := by
      intro rs rs' r' e hk hc h he
      have hs := runStep_corr sem hL hN halt hH keep hD is rs rs' hc hk
      rw [runLoop_succ] at h
      cases h2 : runStep sem (is.filter keep) (labelTable (is.filter keep)) halt rs' with
      | inl b =>
        rw [h2] at h
        cases h1 : runStep sem is (labelTable is) halt rs with
        | inr q => rw [h1, h2] at hs; obtain ⟨a, ea⟩ := q; exact absurd hs (by simp [StepCorr])
        | inl a =>
          rw [h1, h2] at hs
          obtain ⟨f, r, hf, hrun, hcr⟩ := ih (is.length - a.line) a b r' e (Nat.le_refl _) hs h he
          exact ⟨f + 1, r, by omega, by rw [runLoop_succ, h1]; exact hrun, hcr⟩
      | inr q' =>
        obtain ⟨b, eb⟩ := q'
        rw [h2] at h
        obtain ⟨rfl, rfl⟩ := Prod.mk.inj h
        cases h1 : runStep sem is (labelTable is) halt rs with
        | inl a => rw [h1, h2] at hs; exact absurd hs (by simp [StepCorr])
        | inr q =>
          obtain ⟨a, ea⟩ := q
          rw [h1, h2] at hs
          obtain ⟨hab, rfl⟩ := hs
          exact ⟨1, a, by omega, by rw [runLoop_succ, h1], hab⟩
    intro n
    induction n with
    | zero =>
      intro rs rs' r' e hn hc h he
      refine kept rs rs' r' e ?_ hc h he
      intro i hi
      have := (List.getElem?_eq_some_iff.1 hi).1
      omega
    | succ n ihn =>
      intro rs rs' r' e hn hc h he
      by_cases hdrop : ∃ i, is[rs.line]? = some i ∧ keep i = false
      · obtain ⟨i, hi, hki⟩ := hdrop
        have hlt : rs.line < is.length := (List.getElem?_eq_some_iff.1 hi).1
        cases hh : halt rs.polls rs.st with
        | true =>
          rw [runLoop_succ,
            runStep_halt_true sem _ _ halt rs' (by rw [hH _ rs.polls, hc.2.2]; exact hh)] at h
          obtain ⟨rfl, rfl⟩ := Prod.mk.inj h
          exact ⟨1, rs, by omega, by rw [runLoop_succ, runStep_halt_true sem is _ halt rs hh], hc⟩
        | false =>
          have hc' : Corr (posIn keep is)
              { line := rs.line + 1, polls := rs.polls + 1, vars := rs.vars, st := rs.st } rs' := by
            refine ⟨?_, hc.2.1, hc.2.2⟩
            rw [hc.1]
            exact (posIn_succ_drop keep is rs.line i hi hki).symm
          obtain ⟨f, r, hf, hrun, hcr⟩ := ihn _ rs' r' e (by simp only; omega) hc' h he
          refine ⟨f + 1, r, by simp only at hf; omega, ?_, hcr⟩
          rw [runLoop_succ, runStep_dropped sem is _ halt rs i hh hi (hD i hki)]
          exact hrun
      · refine kept rs rs' r' e ?_ hc h he
        intro i hi
        cases hki : keep i with
        | true => rfl
        | false => exact absurd ⟨i, hi, hki⟩ hdrop

end Duck
