/-
  `array_contains` run from source, part 3: the body and the call.
-/
import DuckModel.Lemmas.ScriptLoopArrayContainsLoop

namespace Duck.ScriptRun
open Duck Duck.Alias Duck.Coll Duck.Spec Duck.Generated Duck.Reser

/-- the answer of `array_contains a v` -/
def kcResT (t : Table) (a v : Str) : Str :=
  match tget t a with
  | some (.list l) => kcRes v (l.map Item.render) 0
  | _ => sFalse

/-- was the value found -/
def kcHit (t : Table) (a v : Str) : Bool :=
  match tget t a with
  | some (.list l) => (indexOfStr v (l.map Item.render) 0).isSome
  | _ => false

theorem kc_body (d : Nat) (s : ScriptSt) (vars : Vars) (a v : Str)
    (hctx : s.ctx = kScope) (hv1 : vars.get kArg1 = some a) (hv2 : vars.get kArg2 = some v)
    (hstale : NoStaleFor kScope s.forStack) (hinv : KInv s s.ifMeta s.forMeta s.endTable)
    (hE : ∀ l, tget s.coll.tbl [] ≠ some (.list l)) (hlen : arrLen s.coll.tbl a < Calc.two53) :
    ∃ vars' s',
      (∀ F N fuel, N = fuel + 7 * arrLen s.coll.tbl a + 12 →
        scriptBody (bodySem F (d + 1) kcIs) (fun _ => false) N kcIs vars s =
          (.finished (some (kcResT s.coll.tbl a v)), vars', s')) ∧
      KPost s s s' s.forStack (kcHit s.coll.tbl a v) vars vars' := by
  have hpop : popFor 5 s.ctx false s.forStack = (none, s.forStack) := by
    rw [hctx]; exact popFor_noStale 5 kScope s.forStack hstale
  -- the variables after lines 1-4
  have hb1 : bind vars ((some [[Seg.lit "false".toList]]).map fun a => a.map renderTemplate) = [sFalse] := by
    rw [bind_mk _ _ (by decide)]; rfl
  have hb2 : bind (Vars.updateOutput vars (some kIndex) (some sFalse)) ((some [[Seg.var kArg2]]).map fun a => a.map renderTemplate) = [v] := by
    rw [bind_mk _ _ (by decide)]
    simp only [tmplValue, Seg.value, Vars.updateOutput, List.map_cons, List.map_nil, List.flatMap_cons, List.flatMap_nil,
      List.append_nil]
    rw [get_set, if_neg (by decide), hv2]; rfl
  have hb4 : bind (Vars.updateOutput (Vars.updateOutput vars (some kIndex) (some sFalse)) (some kValue) (some v)) ((some [[Seg.lit "0".toList]]).map fun a => a.map renderTemplate) =
      ["0".toList] := by
    rw [bind_mk _ _ (by decide)]; rfl
  have hpre : ∀ F fuel, evalInstructions (bodySem F (d + 1) kcIs) (fun _ => false) kcIs (fuel + 5) 0 0 none vars s =
      evalInstructions (bodySem F (d + 1) kcIs) (fun _ => false) kcIs fuel 5 (0 + 1 + 1 + 1 + 1 + 1) (some "0".toList)
        (((vars.set kIndex sFalse).set kValue v).set kCounter "0".toList) s := by
    intro F fuel
    rw [show fuel + 5 = fuel + 1 + 1 + 1 + 1 + 1 by omega,
      eval_skip _ _ _ 0 _ _ _ _ _ (show kcIs[0]? = some (emptyI 1) from rfl) rfl,
      eval_native_continue F (d + 1) kcIs _ 1 _ none vars s _ _ "set".toList .set
        (show kcIs[1]? = some (mkI 2 (some kIndex) "set" (some [[.lit "false".toList]])) from rfl) rfl fs_set rn_set
        _ hb1 (some sFalse) vars s rfl,
      eval_native_continue F (d + 1) kcIs _ 2 _ _ (Vars.updateOutput vars (some kIndex) (some sFalse)) s _ _ "set".toList .set
        (show kcIs[2]? = some (mkI 3 (some kValue) "set" (some [[.var kArg2]])) from rfl) rfl fs_set rn_set
        _ hb2 (some v) _ s rfl,
      eval_skip _ _ _ 3 _ _ _ _ _ (show kcIs[3]? = some (emptyI 4) from rfl) rfl,
      eval_native_continue F (d + 1) kcIs _ 4 _ _ (Vars.updateOutput (Vars.updateOutput vars (some kIndex) (some sFalse)) (some kValue) (some v)) s _ _ "set".toList .set
        (show kcIs[4]? = some (mkI 5 (some kCounter) "set" (some [[.lit "0".toList]])) from rfl) rfl fs_set rn_set
        _ hb4 (some "0".toList) _ s rfl]
    rfl
  have hv1' : (((vars.set kIndex sFalse).set kValue v).set kCounter "0".toList).get kArg1 = some a := by
    rw [get_set, if_neg (by decide), get_set, if_neg (by decide), get_set, if_neg (by decide)]; exact hv1
  have hb5 := kc_bind_for (((vars.set kIndex sFalse).set kValue v).set kCounter "0".toList)
  rw [hv1', Option.getD_some] at hb5
  have hclr3 : clear kScope (((vars.set kIndex sFalse).set kValue v).set kCounter "0".toList) = clear kScope vars := by
    rw [clear_set_under _ _ _ _ kCounter_under, clear_set_under _ _ _ _ kValue_under, clear_set_under _ _ _ _ kIndex_under]
  have hdone : nextIteration s a 0 = none → kcResT s.coll.tbl a v = sFalse ∧ kcHit s.coll.tbl a v = false ∧
      arrLen s.coll.tbl a = 0 := by
    intro hn
    unfold nextIteration at hn
    unfold kcResT kcHit arrLen
    cases hv : tget s.coll.tbl a with
    | none => exact ⟨rfl, rfl, rfl⟩
    | some w =>
      rw [hv] at hn
      cases w with
      | list l =>
        cases l with
        | nil => exact ⟨rfl, rfl, rfl⟩
        | cons x r => simp at hn
      | _ => exact ⟨rfl, rfl, rfl⟩
  cases hn : nextIteration s a 0 with
  | none =>
    obtain ⟨h1, h2, h3⟩ := hdone hn
    refine ⟨((vars.set kIndex sFalse).set kValue v).set kCounter "0".toList, forSt s 5 14, ?_, ?_⟩
    · intro F N fuel hN
      subst hN
      unfold scriptBody
      rw [h1, h3, show fuel + 7 * 0 + 12 = fuel + 3 + 3 + 1 + 5 by omega, hpre F,
        eval_for_first_done F d kcIs 5 14 _ _
          (show kcIs[5]? = some (mkI 6 none "for" (some [[.lit kNext], [.lit "in".toList], [.var kArg1]])) from rfl) rfl
          _ s kNext a hb5 hpop kc_findFor (by rw [flowKey_kKey s hctx]; exact hinv.c5) hn _ _ _,
        kc_tail F (d + 1) _ _ sFalse
          (by rw [get_set, if_neg (by decide), get_set, if_neg (by decide), get_set, if_pos rfl])]
      rfl
    · rw [h2]
      refine ⟨?_, rfl, rfl, rfl, rfl, hclr3⟩
      show KInv s s.ifMeta (forMetaAfter s.forMeta (flowKey s 5) 14) (s.endTable.put (flowKey s 14) fullNameEndForIn)
      rw [flowKey_kKey s hctx, flowKey_kKey s hctx]
      exact hinv.afterFor
  | some x0 =>
    -- a live array with at least one cell
    have hlist : ∃ x rem, tget s.coll.tbl a = some (.list (x :: rem)) ∧ x.render = x0 := by
      unfold nextIteration at hn
      cases hv : tget s.coll.tbl a with
      | none => rw [hv] at hn; cases hn
      | some w =>
        rw [hv] at hn
        cases w with
        | list l =>
          cases l with
          | nil => simp at hn
          | cons x r => exact ⟨x, r, rfl, by simpa using hn⟩
        | _ => cases hn
    obtain ⟨x, rem, hT, hx⟩ := hlist
    have hal : arrLen s.coll.tbl a = rem.length + 1 := by simp [arrLen, hT]
    obtain ⟨vars', s', hrun, hpost⟩ := kc_loop d s a v (x :: rem) s.forStack vars rem [] x
      { forSt s 5 14 with forStack := ⟨1, 5, 14, s.ctx⟩ :: s.forStack }
      ((((vars.set kIndex sFalse).set kValue v).set kCounter "0".toList).set kNext x0) (0 + 1 + 1 + 1 + 1 + 1 + 1) none
      rfl hctx
      (by show KInv s s.ifMeta (forMetaAfter s.forMeta (flowKey s 5) 14) (s.endTable.put (flowKey s 14) fullNameEndForIn)
          rw [flowKey_kKey s hctx, flowKey_kKey s hctx]
          exact hinv.afterFor)
      (by show (s.endTable.put (flowKey s 14) fullNameEndForIn).get (kKey 14) = _
          rw [flowKey_kKey s hctx, KV.get_put, if_pos rfl])
      (by rw [hctx]; rfl) hT hE (by rw [← hal] at *; simpa [arrLen, hT] using hlen)
      (by rw [get_set, if_neg (by decide)]; exact hv1')
      ⟨by rw [get_set, if_neg (by decide), get_set, if_neg (by decide), get_set, if_pos rfl],
       by rw [get_set, if_neg (by decide), get_set, if_pos rfl]; exact congrArg some natStr_zero.symm,
       by rw [get_set, if_neg (by decide), get_set, if_neg (by decide), get_set, if_neg (by decide), get_set, if_pos rfl],
       by rw [clear_set_under _ _ _ _ kNext_under]; exact hclr3⟩
      (by rw [get_set, if_pos rfl, hx])
    have hres : kcResT s.coll.tbl a v = kcRes v ((x :: rem).map Item.render) ([] : List Item).length := by
      unfold kcResT; rw [hT]; rfl
    have hhit : kcHit s.coll.tbl a v = (indexOfStr v ((x :: rem).map Item.render) ([] : List Item).length).isSome := by
      unfold kcHit; rw [hT]; rfl
    refine ⟨vars', s', ?_, ?_⟩
    · intro F N fuel hN
      subst hN
      unfold scriptBody
      rw [hal, show fuel + 7 * (rem.length + 1) + 12 = fuel + 7 * rem.length + 13 + 1 + 5 by omega, hpre F,
        eval_for_first_next F d kcIs 5 14 _ _
          (show kcIs[5]? = some (mkI 6 none "for" (some [[.lit kNext], [.lit "in".toList], [.var kArg1]])) from rfl) rfl rfl
          _ s kNext a x0 hb5 hpop kc_findFor (by rw [flowKey_kKey s hctx]; exact hinv.c5) hn _ _ _,
        hrun F fuel, hres]
      rfl
    · rw [hhit]
      exact ⟨hpost.inv, hpost.forStack, hpost.ifStack, hpost.coll, hpost.ctx, hpost.clr⟩


theorem kc_entry (depth fuel : Nat) (args : List Str) (vars : Vars) (st : ScriptSt) :
    runScriptCmdF depth fuel "array_contains".toList args vars st =
      aliasRun handleOps 2 (scriptBody (bodySem fuel depth kcIs) (fun _ => false) fuel kcIs) kScope args vars st :=
  runScriptCmdF_entry depth fuel _ _ _ kc_findScript kc_parses args vars st

theorem kc_keys : kKey 5 = "scope::array_contains::5".toList ∧ kKey 8 = "scope::array_contains::8".toList := by
  decide +kernel

/-- what one call leaves -/
structure KCallPost (st : ScriptSt) (vars : Vars) (a v : Str) (r : CmdResult × Vars × ScriptSt) : Prop where
  res : r.1 = .continue (some (kcResT st.coll.tbl a v))
  tbl : LookupEq r.2.2.coll.tbl st.coll.tbl
  frame : LoopFrame kScope 1 (clear kScope vars) (if kcHit st.coll.tbl a v then [ifEntry 8 11 kScope] else []) st r
  c5 : CacheOK r.2.2.forMeta (kKey 5) 14
  c8 : IfCacheOK r.2.2.ifMeta (kKey 8) 11

/-- one call with at least two arguments, uniformly in the instruction budget -/
theorem kc_call (depth : Nat) (a v : Str) (rest : List Str) (vars : Vars) (st : ScriptSt)
    (hfree : tget st.coll.tbl (Coll.handleName st.coll.next) = none)
    (hne : a ≠ Coll.handleName st.coll.next)
    (hstale : NoStaleFor kScope st.forStack)
    (hc5 : CacheOK st.forMeta (kKey 5) 14) (hc8 : IfCacheOK st.ifMeta (kKey 8) 11)
    (hE : ∀ l, tget st.coll.tbl [] ≠ some (.list l)) (hlen : arrLen st.coll.tbl a < Calc.two53) :
    ∃ r, (∀ k, runScriptCmdF (depth + 1) (k + 7 * arrLen st.coll.tbl a + 12) "array_contains".toList
            (a :: v :: rest) vars st = r) ∧
      KCallPost st vars a v r := by
  have ha1 : Vars.get (pubVars kScope (a :: v :: rest) vars st) kArg1 = some a := by
    rw [show kArg1 = argKey kScope 1 by decide, get_pubVars_arg]
    exact get_publishArgs_first kScope a (v :: rest) 0 vars
  have ha2 : Vars.get (pubVars kScope (a :: v :: rest) vars st) kArg2 = some v := by
    rw [show kArg2 = argKey kScope 2 by decide, get_pubVars_arg]
    exact get_publishArgs_second kScope a v rest 0 vars
  have hTa : tget (pubSt kScope (a :: v :: rest) st).coll.tbl a = tget st.coll.tbl a := by
    simp only [pubSt, tget_tinsert]; rw [if_neg hne]
  have hal : arrLen (pubSt kScope (a :: v :: rest) st).coll.tbl a = arrLen st.coll.tbl a := by
    unfold arrLen; rw [hTa]
  have hE' : ∀ l, tget (pubSt kScope (a :: v :: rest) st).coll.tbl [] ≠ some (.list l) := by
    intro l
    simp only [pubSt, tget_tinsert]
    rw [if_neg (fun e => handleName_ne_nil _ e.symm)]
    exact hE l
  obtain ⟨vars', s', hrun, hpost⟩ := kc_body depth (pubSt kScope (a :: v :: rest) st) (pubVars kScope (a :: v :: rest) vars st)
    a v rfl ha1 ha2 hstale ⟨fun _ _ => rfl, fun _ _ => rfl, fun _ _ => rfl, hc5, hc8⟩ hE' (by rw [hal]; exact hlen)
  have hres : kcResT (pubSt kScope (a :: v :: rest) st).coll.tbl a v = kcResT st.coll.tbl a v := by
    unfold kcResT; rw [hTa]
  have hhit : kcHit (pubSt kScope (a :: v :: rest) st).coll.tbl a v = kcHit st.coll.tbl a v := by
    unfold kcHit; rw [hTa]
  refine ⟨(.continue (some (kcResT st.coll.tbl a v)), clear kScope vars,
    { s' with coll := { tbl := tremove s'.coll.tbl (Coll.handleName st.coll.next), next := s'.coll.next },
              ctx := st.ctx }), ?_, ?_⟩
  · intro k
    rw [kc_entry, ← hres]
    exact aliasRun_handleOps 2 _ kScope (a :: v :: rest) vars st (by simp) (by simp) _ _ _
      (hrun _ _ k (by rw [hal])) hpost.clr
  · refine ⟨rfl, ?_, ⟨rfl, ?_, rfl, ?_, hpost.forStack, hpost.inv.ifMeta, hpost.inv.forMeta, hpost.inv.endTable⟩,
      hpost.inv.c5, hpost.inv.c8⟩
    · intro h
      show tget (tremove s'.coll.tbl _) h = _
      rw [hpost.coll]
      simp only [pubSt, tget_tremove, tget_tinsert]
      by_cases e : h = Coll.handleName st.coll.next
      · simp [e, hfree]
      · simp [e]
    · show s'.coll.next = _
      rw [hpost.coll]; rfl
    · show s'.ifStack = _
      rw [hpost.ifStack, hhit]; rfl

end Duck.ScriptRun
