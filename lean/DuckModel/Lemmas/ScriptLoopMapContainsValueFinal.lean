/-
  `map_contains_value` run from source, part 5: the wrapper `AliasCommand::run` around the body,
  and what one call leaves (`McvCallPost`), uniformly in the instruction budget.
-/
import DuckModel.Lemmas.ScriptLoopMapContainsValueCall

namespace Duck.ScriptRun
open Duck Duck.Alias Duck.Coll Duck.Spec Duck.Generated Duck.Reser

/-- `aliasRun_handleOps` for a body that ALSO removed variables outside the command's prefix
    (a nested script command clears its own prefix in the same variable map): the leak detector
    still cannot fire -/
theorem aliasRun_handleOps_le (amount : Nat) (body : Vars → ScriptSt → BodyResult × Vars × ScriptSt)
    (scope : Str) (args : List Str) (vars : Vars) (st : ScriptSt)
    (hn : ¬ args.length < amount) (hne : args ≠ [])
    (br : BodyResult) (vars2 : Vars) (st2 : ScriptSt)
    (hb : body (pubVars scope args vars st) (pubSt scope args st) = (br, vars2, st2))
    (hlen : (clear scope vars2).length ≤ vars.length) :
    aliasRun handleOps amount body scope args vars st =
      (resultOf br, clear scope vars2,
        { st2 with
          coll := { tbl := tremove st2.coll.tbl (Coll.handleName st.coll.next), next := st2.coll.next },
          ctx := st.ctx }) := by
  rw [aliasRun_run handleOps amount body scope args vars st hn]
  have hp : publish handleOps scope args vars (handleOps.setCtx st scope) =
      (some (Coll.handleName st.coll.next), pubVars scope args vars st, pubSt scope args st) := by
    cases args with
    | nil => exact absurd rfl hne
    | cons a r => simp [publish, handleOps, putHandle, pubVars, pubSt]
  simp only [hp, hb, cleanup]
  have : ¬ vars.length < (clear scope vars2).length := by omega
  simp [this, handleOps]

/-- number of entries of the map named by `a` (0 when `a` names no map) -/
def mapLen (t : Table) (a : Str) : Nat :=
  match tget t a with
  | some (.map m) => m.length
  | _ => 0

/-- the answer of `map_contains_value a v` run from source -/
def mcvRes (t : Table) (a v : Str) : CmdResult :=
  match tget t a with
  | some (.map m) => .continue (some (boolStr ((sortStr (m.map Prod.fst)).any (hitB m v))))
  | _ => .error (msg "flow control error")

/-- allocator names drawn: the argument array, the argument array of the nested `map_is_empty`,
    the key array (only for a map with entries) -/
def mcvAlloc (t : Table) (a : Str) : Nat :=
  match tget t a with
  | some (.map (_ :: _)) => 3
  | _ => 2

/-- the if-call entries that stay on the if call stack (`end_if` never pops): the outer block's
    for a map with entries, the inner block's when the value was found -/
def mcvPushed (t : Table) (a v : Str) : List IfCall :=
  match tget t a with
  | some (.map (p :: r)) =>
    (if (sortStr ((p :: r).map Prod.fst)).any (hitB (p :: r) v) then [ifEntry 12 14 mScope] else []) ++ [ifEntry 4 16 mScope]
  | _ => []

/-- what one call leaves -/
structure McvCallPost (st : ScriptSt) (vars : Vars) (a v : Str) (r : CmdResult × Vars × ScriptSt) : Prop where
  res : r.1 = mcvRes st.coll.tbl a v
  tbl : LookupEq r.2.2.coll.tbl st.coll.tbl
  frame : LoopFrame mScope (mcvAlloc st.coll.tbl a) (clear mScope (clear mieScope vars)) (mcvPushed st.coll.tbl a v) st r
  c4 : IfCacheOK r.2.2.ifMeta (mKey 4) 16
  c12 : IfCacheOK r.2.2.ifMeta (mKey 12) 14
  c8 : CacheOK r.2.2.forMeta (mKey 8) 15

theorem get_publishArgs_other (scope : Str) (args : List Str) (i : Nat) (m : Vars) (k : Str)
    (h : ∀ j, k ≠ argKey scope j) : Vars.get (publishArgs scope i args m) k = Vars.get m k := by
  induction args generalizing i m with
  | nil => rfl
  | cons a rest ih =>
    simp only [publishArgs]
    rw [ih, get_set, if_neg (h _)]

theorem mKH_ne_argKey (j : Nat) : mKH ≠ argKey mScope j := by
  intro e
  have e' : mScope ++ "::key_array_handle".toList = mScope ++ ("::argument::".toList ++ natToStr j) := e
  have := List.append_cancel_left e'
  simp at this

theorem mcv_alias_post (st : ScriptSt) (vars : Vars) (a v : Str) (rest : List Str)
    (hfree : tget st.coll.tbl (Coll.handleName st.coll.next) = none)
    (br : BodyResult) (vars' : Vars) (s' : ScriptSt) (alloc : Nat) (pushed : List IfCall)
    (hpost : MBodyPost (Coll.handleName st.coll.next) (pubSt mScope (a :: v :: rest) st) s'
      (pubVars mScope (a :: v :: rest) vars st) vars' alloc pushed)
    (hres : resultOf br = mcvRes st.coll.tbl a v) (halloc : alloc + 1 = mcvAlloc st.coll.tbl a)
    (hpushed : pushed = mcvPushed st.coll.tbl a v) :
    McvCallPost st vars a v
      (resultOf br, clear mScope vars',
        { s' with coll := { tbl := tremove s'.coll.tbl (Coll.handleName st.coll.next), next := s'.coll.next },
                  ctx := st.ctx }) := by
  have hclr : clear mScope vars' = clear mScope (clear mieScope vars) := by
    rw [hpost.clr, clear_comm, clear_pubVars, clear_comm]
  refine ⟨hres, ?_, ⟨hclr, ?_, rfl, ?_, hpost.forStack, hpost.inv.ifMeta, hpost.inv.forMeta, hpost.inv.endTable⟩,
    hpost.inv.c4, hpost.inv.c12, hpost.inv.c8⟩
  · intro k
    show tget (tremove s'.coll.tbl _) k = _
    rw [tget_tremove]
    by_cases e : k = Coll.handleName st.coll.next
    · rw [if_pos e, e, hfree]
    · rw [if_neg e, hpost.tbl k e]
      simp only [pubSt, tget_tinsert]
      rw [if_neg e]
  · show s'.coll.next = _
    rw [hpost.next, ← halloc]
    show st.coll.next + 1 + alloc = _
    omega
  · show s'.ifStack = _
    rw [hpost.ifStack, hpushed]; rfl

theorem mcv_alias_len (vars vars' : Vars) (st : ScriptSt) (args : List Str)
    (hclr : clear mScope vars' = clear mScope (clear mieScope (pubVars mScope args vars st))) :
    (clear mScope vars').length ≤ vars.length := by
  rw [hclr, clear_comm, clear_pubVars]
  exact Nat.le_trans (clear_length_le _ _) (clear_length_le _ _)


theorem mcv_entry (depth fuel : Nat) (args : List Str) (vars : Vars) (st : ScriptSt) :
    runScriptCmdF depth fuel "map_contains_value".toList args vars st =
      aliasRun handleOps 2 (scriptBody (bodySem fuel depth mcvIs) (fun _ => false) fuel mcvIs) mScope args vars st :=
  runScriptCmdF_entry depth fuel _ _ _ mcv_findScript mcv_parses args vars st

section call
variable (depth : Nat) (a v : Str) (rest : List Str) (vars : Vars) (st : ScriptSt)
  (hfree : tget st.coll.tbl (Coll.handleName st.coll.next) = none)
  (hfree1 : tget st.coll.tbl (Coll.handleName (st.coll.next + 1)) = none)
  (hok : ArgOK a = true)
  (hc4 : IfCacheOK st.ifMeta (mKey 4) 16) (hc12 : IfCacheOK st.ifMeta (mKey 12) 14)
  (hc8 : CacheOK st.forMeta (mKey 8) 15)
include hfree hfree1 hok hc4 hc12 hc8

theorem mcv_pub_facts :
    Vars.get (pubVars mScope (a :: v :: rest) vars st) mArg1 = some a ∧
    Vars.get (pubVars mScope (a :: v :: rest) vars st) mArg2 = some v ∧
    (Vars.get (pubVars mScope (a :: v :: rest) vars st) mKH).getD [] = (vars.get mKH).getD [] ∧
    tget (pubSt mScope (a :: v :: rest) st).coll.tbl (Coll.handleName (pubSt mScope (a :: v :: rest) st).coll.next) = none ∧
    MInv (pubSt mScope (a :: v :: rest) st) (pubSt mScope (a :: v :: rest) st).ifMeta
      (pubSt mScope (a :: v :: rest) st).forMeta (pubSt mScope (a :: v :: rest) st).endTable := by
  have hS : Coll.handleName (st.coll.next + 1) ≠ Coll.handleName st.coll.next :=
    fun e => by have := Coll.handleName_inj e; omega
  refine ⟨?_, ?_, ?_, ?_, ⟨fun _ _ => rfl, fun _ _ => rfl, fun _ _ => rfl, hc4, hc12, hc8⟩⟩
  · rw [show mArg1 = argKey mScope 1 by decide, get_pubVars_arg]
    exact get_publishArgs_first mScope a (v :: rest) 0 vars
  · rw [show mArg2 = argKey mScope 2 by decide, get_pubVars_arg]
    exact get_publishArgs_second mScope a v rest 0 vars
  · unfold pubVars
    rw [get_set, if_neg (by decide), get_publishArgs_other mScope _ 0 vars mKH mKH_ne_argKey]
  · show tget (tinsert st.coll.tbl _ _) (Coll.handleName (st.coll.next + 1)) = none
    rw [tget_tinsert, if_neg hS, hfree1]

/-- the argument names no map -/
theorem mcv_call_err (hnm : ∀ m, tget st.coll.tbl a ≠ some (.map m)) :
    ∃ r, (∀ k, runScriptCmdF (depth + 2) (k + 6 * mapLen st.coll.tbl a + 16) "map_contains_value".toList
            (a :: v :: rest) vars st = r) ∧
      McvCallPost st vars a v r := by
  obtain ⟨ha1, _, _, hfreeS, hinv⟩ := mcv_pub_facts a v rest vars st hfree hfree1 hok hc4 hc12 hc8
  have hnm' : (tget (pubSt mScope (a :: v :: rest) st).coll.tbl a).bind mieLen = none := by
    simp only [pubSt, tget_tinsert]
    by_cases e : a = Coll.handleName st.coll.next
    · simp [e, mieLen]
    · rw [if_neg e]
      cases hv : tget st.coll.tbl a with
      | none => rfl
      | some w =>
        cases w with
        | map m => exact absurd hv (hnm m)
        | _ => rfl
  have hres : resultOf (.error (msg "flow control error")) = mcvRes st.coll.tbl a v := by
    unfold mcvRes
    cases hv : tget st.coll.tbl a with
    | none => rfl
    | some w =>
      cases w with
      | map m => exact absurd hv (hnm m)
      | _ => rfl
  have halloc : 1 + 1 = mcvAlloc st.coll.tbl a := by
    unfold mcvAlloc
    cases hv : tget st.coll.tbl a with
    | none => rfl
    | some w =>
      cases w with
      | map m => exact absurd hv (hnm m)
      | _ => rfl
  have hpushed : [] = mcvPushed st.coll.tbl a v := by
    unfold mcvPushed
    cases hv : tget st.coll.tbl a with
    | none => rfl
    | some w =>
      cases w with
      | map m => exact absurd hv (hnm m)
      | _ => rfl
  have hpost := mcv_post_err (Coll.handleName st.coll.next) (pubSt mScope (a :: v :: rest) st)
    (pubVars mScope (a :: v :: rest) vars st) a hfreeS hinv
  refine ⟨_, ?_, mcv_alias_post st vars a v rest hfree _ _ _ 1 [] hpost hres halloc hpushed⟩
  intro k
  rw [mcv_entry]
  obtain ⟨G, hG⟩ : ∃ G, k + 6 * mapLen st.coll.tbl a + 16 = G + 2 + 2 := ⟨k + 6 * mapLen st.coll.tbl a + 12, by omega⟩
  rw [hG]
  exact aliasRun_handleOps_le 2 _ mScope (a :: v :: rest) vars st (by simp) (by simp) _ _ _
    (mcv_body_err G depth _ _ a hok ha1 hfreeS hnm' (G + 2 + 2) (G + 1) (by omega))
    (mcv_alias_len vars _ st _ hpost.clr)


/-- the argument names an empty map -/
theorem mcv_call_empty (hv : tget st.coll.tbl a = some (.map []))
    (hkh : tget st.coll.tbl ((vars.get mKH).getD []) = none) :
    ∃ r, (∀ k, runScriptCmdF (depth + 2) (k + 6 * mapLen st.coll.tbl a + 16) "map_contains_value".toList
            (a :: v :: rest) vars st = r) ∧
      McvCallPost st vars a v r := by
  obtain ⟨ha1, _, hkh', hfreeS, hinv⟩ := mcv_pub_facts a v rest vars st hfree hfree1 hok hc4 hc12 hc8
  have hne : a ≠ Coll.handleName st.coll.next := by
    intro e; rw [e, hfree] at hv; cases hv
  have hT : tget (pubSt mScope (a :: v :: rest) st).coll.tbl a = some (.map []) := by
    simp only [pubSt, tget_tinsert]
    rw [if_neg hne, hv]
  have hpost := mcv_post_empty (Coll.handleName st.coll.next) (pubSt mScope (a :: v :: rest) st)
    (pubVars mScope (a :: v :: rest) vars st) a ((Vars.get (pubVars mScope (a :: v :: rest) vars st) mKH).getD [])
    hfreeS hinv
    (by rw [hkh']
        intro e
        simp only [pubSt, tget_tinsert]
        rw [if_neg e, hkh])
  refine ⟨_, ?_, mcv_alias_post st vars a v rest hfree (.finished (some sFalse)) _ _ 1 [] hpost
    (by simp [mcvRes, hv, resultOf, sortStr, boolStr]) (by simp [mcvAlloc, hv]) (by simp [mcvPushed, hv])⟩
  intro k
  rw [mcv_entry]
  obtain ⟨G, hG⟩ : ∃ G, k + 6 * mapLen st.coll.tbl a + 16 = G + 2 + 2 := ⟨k + 6 * mapLen st.coll.tbl a + 12, by omega⟩
  rw [hG]
  exact aliasRun_handleOps_le 2 _ mScope (a :: v :: rest) vars st (by simp) (by simp) _ _ _
    (mcv_body_empty G depth _ _ a hok rfl ha1 hfreeS hT hc4 (G + 2 + 2) (G - 5) (by omega))
    (mcv_alias_len vars _ st _ hpost.clr)

/-- the argument names a map with entries -/
theorem mcv_call_loop (hfree2 : tget st.coll.tbl (Coll.handleName (st.coll.next + 2)) = none)
    (hstale : NoStaleFor mScope st.forStack)
    (p : Str × Item) (m : List (Str × Item)) (hv : tget st.coll.tbl a = some (.map (p :: m))) :
    ∃ r, (∀ k, runScriptCmdF (depth + 2) (k + 6 * mapLen st.coll.tbl a + 16) "map_contains_value".toList
            (a :: v :: rest) vars st = r) ∧
      McvCallPost st vars a v r := by
  obtain ⟨ha1, ha2, _, hfreeS, hinv⟩ := mcv_pub_facts a v rest vars st hfree hfree1 hok hc4 hc12 hc8
  have hne : a ≠ Coll.handleName st.coll.next := by
    intro e; rw [e, hfree] at hv; cases hv
  have hT : tget (pubSt mScope (a :: v :: rest) st).coll.tbl a = some (.map (p :: m)) := by
    simp only [pubSt, tget_tinsert]
    rw [if_neg hne, hv]
  have hS2 : Coll.handleName (st.coll.next + 1 + 1) ≠ Coll.handleName st.coll.next :=
    fun e => by have := Coll.handleName_inj e; omega
  obtain ⟨vars', s', hrun, hpost⟩ := mcv_body_loop (Coll.handleName st.coll.next) depth (pubSt mScope (a :: v :: rest) st)
    (pubVars mScope (a :: v :: rest) vars st) a v (p :: m) hok rfl ha1 ha2 hfreeS
    (by show tget (tinsert st.coll.tbl _ _) (Coll.handleName (st.coll.next + 1 + 1)) = none
        rw [tget_tinsert, if_neg hS2]; exact hfree2)
    hT (by simp) hstale hinv
  refine ⟨_, ?_, mcv_alias_post st vars a v rest hfree
    (.finished (some (boolStr ((sortStr ((p :: m).map Prod.fst)).any (hitB (p :: m) v))))) vars' s' 2 _ hpost
    (by unfold mcvRes; rw [hv]; rfl) (by unfold mcvAlloc; rw [hv]) (by unfold mcvPushed; rw [hv])⟩
  intro k
  rw [mcv_entry]
  have hml : mapLen st.coll.tbl a = (p :: m).length := by simp [mapLen, hv]
  obtain ⟨G, hG⟩ : ∃ G, k + 6 * mapLen st.coll.tbl a + 16 = G + 2 + 2 := ⟨k + 6 * mapLen st.coll.tbl a + 12, by omega⟩
  rw [hG]
  exact aliasRun_handleOps_le 2 _ mScope (a :: v :: rest) vars st (by simp) (by simp) _ _ _
    (hrun G (G + 2 + 2) k (by rw [← hG, hml]))
    (mcv_alias_len vars _ st _ hpost.clr)

end call

/-- one call with at least two arguments, uniformly in the instruction budget: every budget of
    at least `6·(entries of the map) + 16` instructions gives the same run `r` -/
theorem mcv_call (depth : Nat) (a v : Str) (rest : List Str) (vars : Vars) (st : ScriptSt)
    (hfree : tget st.coll.tbl (Coll.handleName st.coll.next) = none)
    (hfree1 : tget st.coll.tbl (Coll.handleName (st.coll.next + 1)) = none)
    (hfree2 : tget st.coll.tbl (Coll.handleName (st.coll.next + 2)) = none)
    (hok : ArgOK a = true)
    (hstale : NoStaleFor mScope st.forStack)
    (hc4 : IfCacheOK st.ifMeta (mKey 4) 16) (hc12 : IfCacheOK st.ifMeta (mKey 12) 14)
    (hc8 : CacheOK st.forMeta (mKey 8) 15)
    (hkh : tget st.coll.tbl ((vars.get mKH).getD []) = none) :
    ∃ r, (∀ k, runScriptCmdF (depth + 2) (k + 6 * mapLen st.coll.tbl a + 16) "map_contains_value".toList
            (a :: v :: rest) vars st = r) ∧
      McvCallPost st vars a v r := by
  cases hv : tget st.coll.tbl a with
  | none => exact mcv_call_err depth a v rest vars st hfree hfree1 hok hc4 hc12 hc8 (by intro m; rw [hv]; intro e; cases e)
  | some w =>
    cases w with
    | map m =>
      cases m with
      | nil => exact mcv_call_empty depth a v rest vars st hfree hfree1 hok hc4 hc12 hc8 hv hkh
      | cons p m => exact mcv_call_loop depth a v rest vars st hfree hfree1 hok hc4 hc12 hc8 hfree2 hstale p m hv
    | list l => exact mcv_call_err depth a v rest vars st hfree hfree1 hok hc4 hc12 hc8 (by intro m; rw [hv]; intro e; cases e)
    | set x => exact mcv_call_err depth a v rest vars st hfree hfree1 hok hc4 hc12 hc8 (by intro m; rw [hv]; intro e; cases e)
    | other g => exact mcv_call_err depth a v rest vars st hfree hfree1 hok hc4 hc12 hc8 (by intro m; rw [hv]; intro e; cases e)

theorem mcv_keys : mKey 4 = "scope::map_contains_value::4".toList ∧ mKey 12 = "scope::map_contains_value::12".toList ∧
    mKey 8 = "scope::map_contains_value::8".toList := by decide +kernel

end Duck.ScriptRun
