/-
  `array_join` run from source, part 2: the loop, the block that cuts the trailing separator,
  the tail.
-/
import DuckModel.Lemmas.ScriptLoopArrayJoin

namespace Duck.ScriptRun
open Duck Duck.Alias Duck.Coll Duck.Spec Duck.Generated Duck.Reser

theorem jString_under : underPrefix jScope jString = true := by decide
theorem jItem_under : underPrefix jScope jItem = true := by decide
theorem jSepLen_under : underPrefix jScope jSepLen = true := by decide
theorem jStrLen_under : underPrefix jScope jStrLen = true := by decide
theorem jOffset_under : underPrefix jScope jOffset = true := by decide

/-- what the loop appends: every cell followed by the separator -/
def joinAll (sep : Str) : List Str → Str
  | [] => []
  | x :: r => x ++ sep ++ joinAll sep r

theorem joinAll_eq (sep : Str) : ∀ (xs : List Str), xs ≠ [] → joinAll sep xs = joinStr sep xs ++ sep
  | [], h => absurd rfl h
  | [x], _ => by simp [joinAll, joinStr]
  | x :: y :: r, _ => by
    have ih := joinAll_eq sep (y :: r) (by simp)
    simp only [joinAll] at ih ⊢
    simp only [joinStr, ih, List.append_assoc]

/-- the variables of the body during and after the loop -/
structure JV (vars0 vars : Vars) (X sep acc : Str) : Prop where
  arg1 : vars.get jArg1 = some X
  arg2 : vars.get jArg2 = some sep
  str : (vars.get jString).getD [] = acc
  clr : clear jScope vars = clear jScope vars0

theorem aj_bind_for (vars : Vars) (X : Str) (h : vars.get jArg1 = some X) :
    bind vars ((some [[Seg.lit jItem], [Seg.lit "in".toList], [Seg.var jArg1]]).map fun a => a.map renderTemplate) =
      [jItem, "in".toList, X] := by
  rw [bind_mk _ _ (by decide)]
  simp [tmplValue, Seg.value, h]

/-- from the body line (7) with the current cell in `item` and the entry at the next iteration to
    the line after `end` (9), entry popped: 3 instructions per cell left -/
theorem aj_loop (d : Nat) (s : ScriptSt) (X sep : Str) (L : List Item) (hctx : s.ctx = jScope)
    (hend : s.endTable.get (flowKey s 8) = some fullNameEndForIn)
    (hL : tget s.coll.tbl X = some (.list L)) (vars0 : Vars) :
    ∀ (rem pre : List Item) (x : Item) (acc : Str) (vars : Vars) (poll : Nat) (fo : Option Str),
      L = pre ++ x :: rem → JV vars0 vars X sep acc → vars.get jItem = some x.render →
      ∃ vars' poll',
        (∀ F fuel, evalInstructions (bodySem F (d + 1) ajIs) (fun _ => false) ajIs (fuel + 3 * rem.length + 3) 7 poll fo vars
            { s with forStack := ⟨pre.length + 1, 6, 8, jScope⟩ :: s.forStack } =
          evalInstructions (bodySem F (d + 1) ajIs) (fun _ => false) ajIs fuel 9 poll' none vars' s) ∧
        JV vars0 vars' X sep (acc ++ joinAll sep ((x :: rem).map Item.render)) := by
  intro rem
  induction rem with
  | nil =>
    intro pre x acc vars poll fo hLe hV hx
    have hb7 : bind vars ((some [[Seg.var jString, Seg.var jItem, Seg.var jArg2]]).map fun a => a.map renderTemplate) =
        [acc ++ x.render ++ sep] := by
      rw [bind_mk vars _ (by decide)]
      simp [tmplValue, Seg.value, hV.str, hx, hV.arg2]
    have hV' : JV vars0 (vars.set jString (acc ++ x.render ++ sep)) X sep (acc ++ x.render ++ sep) :=
      ⟨by rw [get_set, if_neg (by decide)]; exact hV.arg1, by rw [get_set, if_neg (by decide)]; exact hV.arg2,
       by rw [get_set, if_pos rfl]; rfl, by rw [clear_set_under _ _ _ _ jString_under]; exact hV.clr⟩
    have hnext : nextIteration { s with forStack := ⟨pre.length + 1, 6, 8, jScope⟩ :: s.forStack } X (pre.length + 1) = none := by
      simp [nextIteration, hL, hLe]
    refine ⟨vars.set jString (acc ++ x.render ++ sep), poll + 1 + 1 + 1, ?_, ?_⟩
    · intro F fuel
      rw [show fuel + 3 * ([] : List Item).length + 3 = fuel + 1 + 1 + 1 by simp,
        eval_native_continue F (d + 1) ajIs (fuel + 1 + 1) 7 poll fo vars _ _ _ "set".toList .set
          (show ajIs[7]? = some (mkI 8 (some jString) "set" (some [[.var jString, .var jItem, .var jArg2]])) from rfl) rfl
          fs_set rn_set _ hb7 (some (acc ++ x.render ++ sep)) vars _ rfl]
      rw [eval_end_for F d ajIs 8 _ _ (show ajIs[8]? = some (mkI 9 none "end" none) from rfl) rfl rfl _
        { s with forStack := ⟨pre.length + 1, 6, 8, jScope⟩ :: s.forStack } ⟨pre.length + 1, 6, 8, jScope⟩ s.forStack
        hend rfl rfl hctx.symm (fuel + 1) (poll + 1) _]
      exact eval_for_done F d ajIs 6 _ _
        (show ajIs[6]? = some (mkI 7 none "for" (some [[.lit jItem], [.lit "in".toList], [.var jArg1]])) from rfl) rfl
        (vars.set jString (acc ++ x.render ++ sep)) { s with forStack := ⟨pre.length + 1, 6, 8, jScope⟩ :: s.forStack }
        jItem X (aj_bind_for _ X hV'.arg1) ⟨pre.length + 1, 6, 8, jScope⟩ s.forStack rfl rfl hctx.symm hnext fuel _ none
    · simpa [joinAll, List.append_assoc] using hV'
  | cons y rem ih =>
    intro pre x acc vars poll fo hLe hV hx
    have hb7 : bind vars ((some [[Seg.var jString, Seg.var jItem, Seg.var jArg2]]).map fun a => a.map renderTemplate) =
        [acc ++ x.render ++ sep] := by
      rw [bind_mk vars _ (by decide)]
      simp [tmplValue, Seg.value, hV.str, hx, hV.arg2]
    have hV' : JV vars0 (vars.set jString (acc ++ x.render ++ sep)) X sep (acc ++ x.render ++ sep) :=
      ⟨by rw [get_set, if_neg (by decide)]; exact hV.arg1, by rw [get_set, if_neg (by decide)]; exact hV.arg2,
       by rw [get_set, if_pos rfl]; rfl, by rw [clear_set_under _ _ _ _ jString_under]; exact hV.clr⟩
    have hnext : nextIteration { s with forStack := ⟨pre.length + 1, 6, 8, jScope⟩ :: s.forStack } X (pre.length + 1) =
        some y.render := by
      simp [nextIteration, hL, hLe]
    have hV'' : JV vars0 ((vars.set jString (acc ++ x.render ++ sep)).set jItem y.render) X sep (acc ++ x.render ++ sep) :=
      ⟨by rw [get_set, if_neg (by decide)]; exact hV'.arg1, by rw [get_set, if_neg (by decide)]; exact hV'.arg2,
       by rw [get_set, if_neg (by decide)]; exact hV'.str, by rw [clear_set_under _ _ _ _ jItem_under]; exact hV'.clr⟩
    obtain ⟨vars', poll', hrun, hfin⟩ := ih (pre ++ [x]) y (acc ++ x.render ++ sep) _ (poll + 1 + 1 + 1) none
      (by rw [hLe]; simp) hV'' (by rw [get_set, if_pos rfl])
    refine ⟨vars', poll', ?_, ?_⟩
    · intro F fuel
      rw [show fuel + 3 * (y :: rem).length + 3 = fuel + 3 * rem.length + 3 + 1 + 1 + 1 by simp; omega,
        eval_native_continue F (d + 1) ajIs (fuel + 3 * rem.length + 3 + 1 + 1) 7 poll fo vars _ _ _ "set".toList .set
          (show ajIs[7]? = some (mkI 8 (some jString) "set" (some [[.var jString, .var jItem, .var jArg2]])) from rfl) rfl
          fs_set rn_set _ hb7 (some (acc ++ x.render ++ sep)) vars _ rfl]
      rw [eval_end_for F d ajIs 8 _ _ (show ajIs[8]? = some (mkI 9 none "end" none) from rfl) rfl rfl _
        { s with forStack := ⟨pre.length + 1, 6, 8, jScope⟩ :: s.forStack } ⟨pre.length + 1, 6, 8, jScope⟩ s.forStack
        hend rfl rfl hctx.symm (fuel + 3 * rem.length + 3 + 1) (poll + 1) _]
      refine (eval_for_next F d ajIs 6 _ _
        (show ajIs[6]? = some (mkI 7 none "for" (some [[.lit jItem], [.lit "in".toList], [.var jArg1]])) from rfl) rfl rfl
        (vars.set jString (acc ++ x.render ++ sep)) { s with forStack := ⟨pre.length + 1, 6, 8, jScope⟩ :: s.forStack }
        jItem X y.render (aj_bind_for _ X hV'.arg1) ⟨pre.length + 1, 6, 8, jScope⟩ s.forStack rfl rfl hctx.symm hnext
        (fuel + 3 * rem.length + 3) (poll + 1 + 1) none).trans ?_
      have := hrun F fuel
      simp only [List.length_append, List.length_cons, List.length_nil] at this
      exact this
    · simpa [joinAll, List.append_assoc] using hfin

/-- lines 17-19: the result is `string` (empty when it was never set) -/
theorem aj_tail (F d : Nat) (s : ScriptSt) (vars : Vars) (fuel poll : Nat) (fo : Option Str) :
    evalInstructions (bodySem F d ajIs) (fun _ => false) ajIs (fuel + 3) 17 poll fo vars s =
      some (.finished (some ((vars.get jString).getD [])), vars, s) := by
  rw [eval_skip _ _ _ 17 _ _ _ _ _ (show ajIs[17]? = some (emptyI 18) from rfl) rfl]
  have hb : bind vars ((some [[Seg.var jString]]).map fun a => a.map renderTemplate) = [(vars.get jString).getD []] := by
    rw [bind_mk vars _ (by decide)]
    simp [tmplValue, Seg.value]
  rw [eval_native_continue F d ajIs (fuel + 1) 18 (poll + 1) fo vars s _ _ "set".toList .set
    (show ajIs[18]? = some (mkI 19 none "set" (some [[.var jString]])) from rfl) rfl fs_set rn_set
    _ hb (some ((vars.get jString).getD [])) vars s rfl]
  rw [eval_end _ _ _ 19 _ _ _ _ rfl]
  rfl

/-- lines 11-14: the trailing separator is cut off at the byte offset `strlen` and `calc` compute -/
theorem aj_trim (F d : Nat) (s : ScriptSt) (vars : Vars) (J sep : Str) (hsep : sep ≠ [])
    (hv2 : vars.get jArg2 = some sep) (hstr : vars.get jString = some (J ++ sep))
    (hsize : (utf8Encode (J ++ sep)).length < Calc.two53) (fuel poll : Nat) (fo : Option Str) :
    evalInstructions (bodySem F d ajIs) (fun _ => false) ajIs (fuel + 4) 11 poll fo vars s =
      evalInstructions (bodySem F d ajIs) (fun _ => false) ajIs fuel 15 (poll + 1 + 1 + 1 + 1) (some J)
        ((((vars.set jSepLen (natStr (utf8Encode sep).length)).set jStrLen (natStr (utf8Encode (J ++ sep)).length)).set
          jOffset (natStr (utf8Encode J).length)).set jString J) s := by
  have hlenJ : (utf8Encode (J ++ sep)).length = (utf8Encode J).length + (utf8Encode sep).length := by
    rw [utf8Encode_append, List.length_append]
  have hb11 : bind vars ((some [[Seg.var jArg2]]).map fun a => a.map renderTemplate) = [sep] := by
    rw [bind_mk _ _ (by decide)]
    simp [tmplValue, Seg.value, hv2]
  rw [show fuel + 4 = fuel + 1 + 1 + 1 + 1 by omega,
    eval_native_continue F d ajIs (fuel + 1 + 1 + 1) 11 poll fo vars s _ _ "strlen".toList .length
      (show ajIs[11]? = some (mkI 12 (some jSepLen) "strlen" (some [[.var jArg2]])) from rfl) rfl fs_strlen rn_strlen
      _ hb11 (some (natStr (utf8Encode sep).length)) vars s (by simp only [runNative, runLength_one])]
  have hb12 : bind (Vars.updateOutput vars (some jSepLen) (some (natStr (utf8Encode sep).length)))
      ((some [[Seg.var jString]]).map fun a => a.map renderTemplate) = [J ++ sep] := by
    rw [bind_mk _ _ (by decide)]
    simp only [tmplValue, Seg.value, Vars.updateOutput, List.map_cons, List.map_nil, List.flatMap_cons, List.flatMap_nil,
      List.append_nil]
    rw [get_set, if_neg (by decide), hstr]; rfl
  rw [eval_native_continue F d ajIs (fuel + 1 + 1) 12 _ _ _ s _ _ "strlen".toList .length
      (show ajIs[12]? = some (mkI 13 (some jStrLen) "strlen" (some [[.var jString]])) from rfl) rfl fs_strlen rn_strlen
      _ hb12 (some (natStr (utf8Encode (J ++ sep)).length)) (Vars.updateOutput vars (some jSepLen) (some (natStr (utf8Encode sep).length))) s (by simp only [runNative, runLength_one])]
  have hb13 : bind (Vars.updateOutput (Vars.updateOutput vars (some jSepLen) (some (natStr (utf8Encode sep).length)))
        (some jStrLen) (some (natStr (utf8Encode (J ++ sep)).length)))
      ((some [[Seg.var jStrLen], [Seg.lit "-".toList], [Seg.var jSepLen]]).map fun a => a.map renderTemplate) =
      [natStr (utf8Encode (J ++ sep)).length, "-".toList, natStr (utf8Encode sep).length] := by
    rw [bind_mk _ _ (by decide)]
    simp only [tmplValue, Seg.value, Vars.updateOutput, List.map_cons, List.map_nil, List.flatMap_cons, List.flatMap_nil,
      List.append_nil]
    rw [get_set, if_pos rfl, get_set, if_neg (by decide), get_set, if_pos rfl]; rfl
  have hcalc : runCalc [natStr (utf8Encode (J ++ sep)).length, "-".toList, natStr (utf8Encode sep).length] =
      .continue (some (natStr (utf8Encode J).length)) := by
    have e : (utf8Encode (J ++ sep)).length - (utf8Encode sep).length = (utf8Encode J).length := by omega
    rw [runCalc_sub _ _ hsize (by omega), e]
  rw [eval_native_continue F d ajIs (fuel + 1) 13 _ _ _ s _ _ "calc".toList .calc
      (show ajIs[13]? = some (mkI 14 (some jOffset) "calc" (some [[.var jStrLen], [.lit "-".toList], [.var jSepLen]])) from rfl)
      rfl fs_calc rn_calc _ hb13 (some (natStr (utf8Encode J).length)) (Vars.updateOutput (Vars.updateOutput vars (some jSepLen) (some (natStr (utf8Encode sep).length))) (some jStrLen) (some (natStr (utf8Encode (J ++ sep)).length))) s (by simp only [runNative, hcalc])]
  have hb14 : bind (Vars.updateOutput (Vars.updateOutput (Vars.updateOutput vars (some jSepLen) (some (natStr (utf8Encode sep).length)))
        (some jStrLen) (some (natStr (utf8Encode (J ++ sep)).length))) (some jOffset) (some (natStr (utf8Encode J).length)))
      ((some [[Seg.var jString], [Seg.lit "0".toList], [Seg.var jOffset]]).map fun a => a.map renderTemplate) =
      [J ++ sep, "0".toList, natStr (utf8Encode J).length] := by
    rw [bind_mk _ _ (by decide)]
    simp only [tmplValue, Seg.value, Vars.updateOutput, List.map_cons, List.map_nil, List.flatMap_cons, List.flatMap_nil,
      List.append_nil]
    rw [get_set, if_neg (by decide), get_set, if_neg (by decide), get_set, if_neg (by decide), hstr, get_set, if_pos rfl]; rfl
  have hsub : runSubstring [J ++ sep, "0".toList, natStr (utf8Encode J).length] = .continue (some J) :=
    runSubstring_prefix J sep hsep (by unfold Calc.two53 at hsize; omega)
  rw [eval_native_continue F d ajIs fuel 14 _ _ _ s _ _ "substring".toList .substring
      (show ajIs[14]? = some (mkI 15 (some jString) "substring" (some [[.var jString], [.lit "0".toList], [.var jOffset]])) from rfl)
      rfl fs_substring rn_substring _ hb14 (some J) (Vars.updateOutput (Vars.updateOutput (Vars.updateOutput vars (some jSepLen) (some (natStr (utf8Encode sep).length))) (some jStrLen) (some (natStr (utf8Encode (J ++ sep)).length))) (some jOffset) (some (natStr (utf8Encode J).length))) s (by simp only [runNative, hsub])]
  rfl

end Duck.ScriptRun
