/-
  `array_contains` run from source, part 2: a hit, the loop, the body, the call.
-/
import DuckModel.Lemmas.ScriptLoopArrayContains

namespace Duck.ScriptRun
open Duck Duck.Alias Duck.Coll Duck.Spec Duck.Generated Duck.Reser

theorem kArg1_under : underPrefix kScope kArg1 = true := by decide
theorem kIndex_under : underPrefix kScope kIndex = true := by decide
theorem kCounter_under : underPrefix kScope kCounter = true := by decide
theorem kFound_under : underPrefix kScope kFound = true := by decide
theorem kNext_under : underPrefix kScope kNext = true := by decide
theorem kValue_under : underPrefix kScope kValue = true := by decide

/-- lines 9-14 and the `for` line after a hit: `index` takes the counter, the handle variable is
    unset, the counter is advanced, the `for` line reads an empty handle and leaves the loop -/
theorem kc_hit_rest (F d : Nat) (s : ScriptSt) (vars : Vars) (c i : Nat) (fs : List ForCall)
    (hctx : s.ctx = kScope) (hvC : vars.get kCounter = some (natStr c)) (hc : c + 1 < Calc.two53)
    (he11 : s.endTable.get (kKey 11) = some fullNameEndIf) (he14 : s.endTable.get (kKey 14) = some fullNameEndForIn)
    (hfs : s.forStack = ⟨i, 5, 14, kScope⟩ :: fs) (hE : ∀ l, tget s.coll.tbl [] ≠ some (.list l))
    (fuel poll : Nat) (fo : Option Str) :
    evalInstructions (bodySem F (d + 1) kcIs) (fun _ => false) kcIs (fuel + 7) 9 poll fo vars s =
      evalInstructions (bodySem F (d + 1) kcIs) (fun _ => false) kcIs fuel 15 (poll + 1 + 1 + 1 + 1 + 1 + 1 + 1) none
        (((vars.set kIndex (natStr c)).erase kArg1).set kCounter (natStr (c + 1))) { s with forStack := fs } := by
  have hb9 : bind vars ((some [[Seg.var kCounter]]).map fun a => a.map renderTemplate) = [natStr c] := by
    rw [bind_mk _ _ (by decide)]
    simp [tmplValue, Seg.value, hvC]
  rw [show fuel + 7 = fuel + 1 + 3 + 1 + 1 + 1 by omega,
    eval_native_continue F (d + 1) kcIs (fuel + 1 + 3 + 1 + 1) 9 poll fo vars s _ _ "set".toList .set
      (show kcIs[9]? = some (mkI 10 (some kIndex) "set" (some [[.var kCounter]])) from rfl) rfl fs_set rn_set
      _ hb9 (some (natStr c)) vars s rfl]
  rw [eval_native_continue F (d + 1) kcIs (fuel + 1 + 3 + 1) 10 _ _ _ s _ _ "set".toList .set
      (show kcIs[10]? = some (mkI 11 (some kArg1) "set" none) from rfl) rfl fs_set rn_set
      [] rfl none _ s rfl]
  rw [eval_end_if F d kcIs 11 _ _ (show kcIs[11]? = some (mkI 12 none "end" none) from rfl) rfl rfl rfl _ s
    (get_endTable_kKey s hctx 11 _ he11) (fuel + 1 + 3) _ _]
  have hvC' : (Vars.updateOutput (Vars.updateOutput vars (some kIndex) (some (natStr c))) (some kArg1) none).get kCounter =
      some (natStr c) := by
    simp only [Vars.updateOutput]
    rw [get_erase, if_neg (by decide), get_set, if_neg (by decide)]; exact hvC
  rw [kc_count F d s _ c i fs hctx hvC' hc he14 hfs (fuel + 1) _ none]
  have hb5 := kc_bind_for ((Vars.updateOutput (Vars.updateOutput vars (some kIndex) (some (natStr c))) (some kArg1) none).set
    kCounter (natStr (c + 1)))
  have hg : (((Vars.updateOutput (Vars.updateOutput vars (some kIndex) (some (natStr c))) (some kArg1) none).set
      kCounter (natStr (c + 1))).get kArg1).getD [] = [] := by
    simp only [Vars.updateOutput]
    rw [get_set, if_neg (by decide), get_erase, if_pos rfl]; rfl
  rw [hg] at hb5
  have hnext : nextIteration s [] i = none := by
    unfold nextIteration
    cases hv : tget s.coll.tbl [] with
    | none => rfl
    | some w =>
      cases w with
      | list l => exact absurd hv (hE l)
      | _ => rfl
  exact eval_for_done F d kcIs 5 _ _
    (show kcIs[5]? = some (mkI 6 none "for" (some [[.lit kNext], [.lit "in".toList], [.var kArg1]])) from rfl) rfl
    _ s kNext [] hb5 ⟨i, 5, 14, kScope⟩ fs hfs rfl hctx.symm hnext fuel _ none

/-- the answer: the index of the first cell equal to the value, counted from `c`, else `false` -/
def kcRes (v : Str) (xs : List Str) (c : Nat) : Str :=
  match indexOfStr v xs c with
  | some i => natStr i
  | none => sFalse

/-- what the loop (and the tail after it) leaves -/
structure KPost (st0 s s' : ScriptSt) (fs : List ForCall) (hit : Bool) (vars0 vars' : Vars) : Prop where
  inv : KInv st0 s'.ifMeta s'.forMeta s'.endTable
  forStack : s'.forStack = fs
  ifStack : s'.ifStack = (if hit then [ifEntry 8 11 kScope] else []) ++ s.ifStack
  coll : s'.coll = s.coll
  ctx : s'.ctx = s.ctx
  clr : clear kScope vars' = clear kScope vars0

theorem KVars.set_other {vars0 vars : Vars} {v : Str} {c : Nat} (h : KVars vars0 vars v c) (k x : Str)
    (hu : underPrefix kScope k = true) (h1 : kValue ≠ k) (h2 : kCounter ≠ k) (h3 : kIndex ≠ k) :
    KVars vars0 (vars.set k x) v c := by
  refine ⟨?_, ?_, ?_, ?_⟩
  · rw [get_set, if_neg h1]; exact h.value
  · rw [get_set, if_neg h2]; exact h.counter
  · rw [get_set, if_neg h3]; exact h.index
  · rw [clear_set_under _ _ _ _ hu]; exact h.clr

/-- the loop: from the body line with the current cell in `next_value` and the entry at the next
    iteration to the END OF THE BODY, within `7·(cells left) + 13` instructions -/
theorem kc_loop (d : Nat) (st0 : ScriptSt) (X v : Str) (L : List Item) (fs : List ForCall) (vars0 : Vars) :
    ∀ (rem pre : List Item) (x : Item) (s : ScriptSt) (vars : Vars) (poll : Nat) (fo : Option Str),
      L = pre ++ x :: rem → s.ctx = kScope → KInv st0 s.ifMeta s.forMeta s.endTable →
      s.endTable.get (kKey 14) = some fullNameEndForIn →
      s.forStack = ⟨pre.length + 1, 5, 14, kScope⟩ :: fs →
      tget s.coll.tbl X = some (.list L) → (∀ l, tget s.coll.tbl [] ≠ some (.list l)) → L.length < Calc.two53 →
      vars.get kArg1 = some X → KVars vars0 vars v pre.length → vars.get kNext = some x.render →
      ∃ vars' s',
        (∀ F fuel, evalInstructions (bodySem F (d + 1) kcIs) (fun _ => false) kcIs (fuel + 7 * rem.length + 13) 6 poll fo vars s =
          some (.finished (some (kcRes v ((x :: rem).map Item.render) pre.length)), vars', s')) ∧
        KPost st0 s s' fs (indexOfStr v ((x :: rem).map Item.render) pre.length).isSome vars0 vars' := by
  intro rem
  induction rem with
  | nil =>
    intro pre x s vars poll fo hLe hctx hinv he14 hfs hTX hE hlen hvX hV hvN
    have hc : pre.length + 1 < Calc.two53 := by rw [hLe] at hlen; simp at hlen; omega
    have he14' : ∀ b, (kcAfterIf s b).endTable.get (kKey 14) = some fullNameEndForIn := by
      intro b
      show (s.endTable.put (kKey 11) fullNameEndIf).get (kKey 14) = _
      rw [get_put_kKey_ne _ 11 14 _ (by omega)]; exact he14
    by_cases hb : x.render = v
    · have hres : indexOfStr v ([x].map Item.render) pre.length = some pre.length := by simp [indexOfStr, hb]
      refine ⟨(((vars.set kFound (boolStr true)).set kIndex (natStr pre.length)).erase kArg1).set kCounter (natStr (pre.length + 1)),
        { kcAfterIf s true with forStack := fs }, ?_, ?_⟩
      · intro F fuel
        rw [show fuel + 7 * ([] : List Item).length + 13 = fuel + 3 + 7 + 3 by simp,
          kc_iter_head F d s vars x.render v true (by simp [hb]) hctx hvN hV.value hinv.c8 (fuel + 3 + 7) poll fo]
        simp only [if_true]
        rw [kc_hit_rest F d (kcAfterIf s true) _ pre.length _ fs hctx
          (by rw [get_set, if_neg (by decide)]; exact hV.counter) hc
          (by show (s.endTable.put (kKey 11) fullNameEndIf).get (kKey 11) = _
              rw [KV.get_put, if_pos rfl])
          (he14' true) hfs hE (fuel + 3) _ none]
        rw [kc_tail F (d + 1) _ _ (natStr pre.length)
          (by rw [get_set, if_neg (by decide), get_erase, if_neg (by decide), get_set, if_pos rfl])]
        have hk : kcRes v ([x].map Item.render) pre.length = natStr pre.length := by unfold kcRes; rw [hres]
        rw [hk]
      · rw [hres]
        refine ⟨hinv.afterIf, rfl, by simp [kcAfterIf], rfl, rfl, ?_⟩
        rw [clear_set_under _ _ _ _ kCounter_under, clear_erase_under _ _ _ kArg1_under,
          clear_set_under _ _ _ _ kIndex_under, clear_set_under _ _ _ _ kFound_under]
        exact hV.clr
    · have hres : indexOfStr v ([x].map Item.render) pre.length = none := by simp [indexOfStr, hb]
      have hnext : nextIteration (kcAfterIf s false) X (pre.length + 1) = none := by
        simp [nextIteration, kcAfterIf, hTX, hLe]
      have hb5 := kc_bind_for ((vars.set kFound (boolStr false)).set kCounter (natStr (pre.length + 1)))
      rw [get_set, if_neg (by decide), get_set, if_neg (by decide), hvX, Option.getD_some] at hb5
      refine ⟨(vars.set kFound (boolStr false)).set kCounter (natStr (pre.length + 1)),
        { kcAfterIf s false with forStack := fs }, ?_, ?_⟩
      · intro F fuel
        rw [show fuel + 7 * ([] : List Item).length + 13 = fuel + 3 + 3 + 1 + 3 + 3 by simp,
          kc_iter_head F d s vars x.render v false (by simp [hb]) hctx hvN hV.value hinv.c8 _ poll fo]
        simp only [Bool.false_eq_true, if_false]
        rw [kc_count F d (kcAfterIf s false) _ pre.length _ fs hctx
          (by rw [get_set, if_neg (by decide)]; exact hV.counter) hc (he14' false) hfs _ _ none]
        rw [eval_for_done F d kcIs 5 _ _
          (show kcIs[5]? = some (mkI 6 none "for" (some [[.lit kNext], [.lit "in".toList], [.var kArg1]])) from rfl) rfl
          _ (kcAfterIf s false) kNext X hb5 ⟨pre.length + 1, 5, 14, kScope⟩ fs hfs rfl hctx.symm hnext (fuel + 3 + 3) _ none]
        rw [kc_tail F (d + 1) _ _ sFalse
          (by rw [get_set, if_neg (by decide), get_set, if_neg (by decide)]; exact hV.index)]
        have hk : kcRes v ([x].map Item.render) pre.length = sFalse := by unfold kcRes; rw [hres]
        rw [hk]
      · rw [hres]
        refine ⟨hinv.afterIf, rfl, by simp [kcAfterIf], rfl, rfl, ?_⟩
        rw [clear_set_under _ _ _ _ kCounter_under, clear_set_under _ _ _ _ kFound_under]
        exact hV.clr
  | cons y rem ih =>
    intro pre x s vars poll fo hLe hctx hinv he14 hfs hTX hE hlen hvX hV hvN
    have hc : pre.length + 1 < Calc.two53 := by rw [hLe] at hlen; simp at hlen; omega
    have he14' : ∀ b, (kcAfterIf s b).endTable.get (kKey 14) = some fullNameEndForIn := by
      intro b
      show (s.endTable.put (kKey 11) fullNameEndIf).get (kKey 14) = _
      rw [get_put_kKey_ne _ 11 14 _ (by omega)]; exact he14
    by_cases hb : x.render = v
    · have hres : indexOfStr v ((x :: y :: rem).map Item.render) pre.length = some pre.length := by
        simp [indexOfStr, hb]
      refine ⟨(((vars.set kFound (boolStr true)).set kIndex (natStr pre.length)).erase kArg1).set kCounter (natStr (pre.length + 1)),
        { kcAfterIf s true with forStack := fs }, ?_, ?_⟩
      · intro F fuel
        rw [show fuel + 7 * (y :: rem).length + 13 = fuel + 7 * (y :: rem).length + 3 + 7 + 3 by omega,
          kc_iter_head F d s vars x.render v true (by simp [hb]) hctx hvN hV.value hinv.c8 _ poll fo]
        simp only [if_true]
        rw [kc_hit_rest F d (kcAfterIf s true) _ pre.length _ fs hctx
          (by rw [get_set, if_neg (by decide)]; exact hV.counter) hc
          (by show (s.endTable.put (kKey 11) fullNameEndIf).get (kKey 11) = _
              rw [KV.get_put, if_pos rfl])
          (he14' true) hfs hE _ _ none]
        rw [kc_tail F (d + 1) _ _ (natStr pre.length)
          (by rw [get_set, if_neg (by decide), get_erase, if_neg (by decide), get_set, if_pos rfl])]
        have hk : kcRes v ((x :: y :: rem).map Item.render) pre.length = natStr pre.length := by unfold kcRes; rw [hres]
        rw [hk]
      · rw [hres]
        refine ⟨hinv.afterIf, rfl, by simp [kcAfterIf], rfl, rfl, ?_⟩
        rw [clear_set_under _ _ _ _ kCounter_under, clear_erase_under _ _ _ kArg1_under,
          clear_set_under _ _ _ _ kIndex_under, clear_set_under _ _ _ _ kFound_under]
        exact hV.clr
    · have hres : indexOfStr v ((x :: y :: rem).map Item.render) pre.length =
          indexOfStr v ((y :: rem).map Item.render) (pre.length + 1) := by
        simp [indexOfStr, hb]
      have hnext : nextIteration (kcAfterIf s false) X (pre.length + 1) = some y.render := by
        simp [nextIteration, kcAfterIf, hTX, hLe]
      have hb5 := kc_bind_for ((vars.set kFound (boolStr false)).set kCounter (natStr (pre.length + 1)))
      rw [get_set, if_neg (by decide), get_set, if_neg (by decide), hvX, Option.getD_some] at hb5
      have hV' : KVars vars0 (((vars.set kFound (boolStr false)).set kCounter (natStr (pre.length + 1))).set kNext y.render) v
          (pre ++ [x]).length := by
        refine ⟨?_, ?_, ?_, ?_⟩
        · rw [get_set, if_neg (by decide), get_set, if_neg (by decide), get_set, if_neg (by decide)]; exact hV.value
        · rw [get_set, if_neg (by decide), get_set, if_pos rfl]; simp
        · rw [get_set, if_neg (by decide), get_set, if_neg (by decide), get_set, if_neg (by decide)]; exact hV.index
        · rw [clear_set_under _ _ _ _ kNext_under, clear_set_under _ _ _ _ kCounter_under,
            clear_set_under _ _ _ _ kFound_under]
          exact hV.clr
      obtain ⟨vars', s', hrun, hpost⟩ := ih (pre ++ [x]) y
        { kcAfterIf s false with forStack := ⟨pre.length + 1 + 1, 5, 14, kScope⟩ :: fs }
        (((vars.set kFound (boolStr false)).set kCounter (natStr (pre.length + 1))).set kNext y.render)
        (poll + 1 + 1 + 1 + 1 + 1 + 1 + 1) none (by rw [hLe]; simp) hctx hinv.afterIf (he14' false) (by simp) hTX hE hlen
        (by rw [get_set, if_neg (by decide), get_set, if_neg (by decide), get_set, if_neg (by decide)]; exact hvX)
        hV' (by rw [get_set, if_pos rfl])
      refine ⟨vars', s', ?_, ?_⟩
      · intro F fuel
        rw [show fuel + 7 * (y :: rem).length + 13 = fuel + 7 * rem.length + 13 + 1 + 3 + 3 by simp; omega,
          kc_iter_head F d s vars x.render v false (by simp [hb]) hctx hvN hV.value hinv.c8 _ poll fo]
        simp only [Bool.false_eq_true, if_false]
        rw [kc_count F d (kcAfterIf s false) _ pre.length _ fs hctx
          (by rw [get_set, if_neg (by decide)]; exact hV.counter) hc (he14' false) hfs _ _ none]
        rw [eval_for_next F d kcIs 5 _ _
          (show kcIs[5]? = some (mkI 6 none "for" (some [[.lit kNext], [.lit "in".toList], [.var kArg1]])) from rfl) rfl rfl
          _ (kcAfterIf s false) kNext X y.render hb5 ⟨pre.length + 1, 5, 14, kScope⟩ fs hfs rfl hctx.symm hnext
          (fuel + 7 * rem.length + 13) _ none]
        have hk : kcRes v ((x :: y :: rem).map Item.render) pre.length =
            kcRes v ((y :: rem).map Item.render) (pre.length + 1) := by unfold kcRes; rw [hres]
        rw [hk]
        have := hrun F fuel
        simp only [List.length_append, List.length_cons, List.length_nil] at this
        exact this
      · rw [hres]
        have hp := hpost
        simp only [List.length_append, List.length_cons, List.length_nil] at hp
        exact ⟨hp.inv, hp.forStack, by rw [hp.ifStack]; simp [kcAfterIf], hp.coll, hp.ctx, hp.clr⟩

end Duck.ScriptRun
