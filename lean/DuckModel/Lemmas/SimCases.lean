/-
  Helper lemmas for the C04 simulation theorem — part 6: the per-fuel simulation statements and
  the cases straight line / block.
-/
import DuckModel.Lemmas.SimCore
namespace Duck
open Duck.Spec Duck.Generated

def StmtSimFor (is : List Instruction) (fuel : Nat) (st : Stmt) : Prop :=
  ∀ (lo : Nat) (s : Sdk) (t t' : TState), st.wf = true → st.simple2 = true → At is lo st.flatten →
    CacheOK is s → Rel s t → ForOK lo (lo + st.flatten.length) s.forStack →
    safeStmt is fuel st t = true →
    execStmt is fuel st t = .normal t' →
    Sim is lo (lo + st.flatten.length) (fun x => Stmt.assigns x st) s t t'

theorem line_core (is : List Instruction) (lo hi : Nat) (A : Str → Bool) (s : Sdk) (t : TState)
    (V : Vars) (hd : KV (List Str)) (nx : Nat) (em : List (List Str))
    (hc : CacheOK is s) (hrel : Rel s t)
    (hcases : (hd = t.sdk.handles ∧ nx = t.sdk.nextHandle) ∨
      (∃ items, hd = t.sdk.handles.put (handleName t.sdk.nextHandle) items ∧ nx = t.sdk.nextHandle + 1))
    (hV : ∀ x, A x = false → V.get x = t.vars.get x) :
    SimCore is lo hi A s t
      { t with vars := V, sdk := { t.sdk with handles := hd, nextHandle := nx, emitted := em } }
      { s with handles := hd, nextHandle := nx, emitted := em } := by
  refine ⟨hc.of_eq rfl rfl rfl rfl, ⟨rfl, rfl, rfl, hrel.sfns, hrel.tsfns, hrel.tfns, ?_⟩,
    Frame.of_eq rfl rfl rfl, ?_, hV⟩
  · rcases hcases with ⟨rfl, rfl⟩ | ⟨items, rfl, rfl⟩
    · exact hrel.hok
    · exact hrel.hok.put items
  · intro k l hk
    rcases hcases with ⟨rfl, rfl⟩ | ⟨items, rfl, rfl⟩
    · exact hk
    · exact hrel.hok.put_mono items k l hk

theorem stmt_line (is : List Instruction) (fuel : Nat) (l : Line) : StmtSimFor is (fuel + 1) (.line l) := by
  intro lo s t t' hwf hs hat hc hrel hfor _ hex
  have hl : lookupFn t.fns l.cmd = none := by rw [hrel.tfns]; rfl
  simp only [Stmt.simple2, Bool.and_eq_true] at hs
  obtain ⟨c, hres, hsc⟩ := isSimpleCmd_resolve hs.1
  simp only [Stmt.flatten] at hat
  have hi := At.head hat
  obtain ⟨r, hd, nx, em, hrun, hcases, hng, hne⟩ :=
    simple_cmd c hsc (bind t.vars (some l.args)) t.sdk.handles t.sdk.nextHandle t.sdk.emitted
  have htree := hrun (evalInstrsF fuel) is l.out 0 t.vars t.sdk rfl rfl rfl
  have hmach := fun nested => hrun nested is l.out lo t.vars s hrel.handles hrel.next hrel.emitted
  simp only [execStmt, hl, execLine, resolveCmd_of_empty t.sdk hres, bind_mkArgs,
    htree] at hex
  have hA : ∀ val x, (fun x => Stmt.assigns x (.line l)) x = false →
      (Vars.updateOutput t.vars l.out val).get x = t.vars.get x := by
    intro val x hx
    apply Vars.get_updateOutput_ne
    simp only [Stmt.assigns] at hx
    intro e
    rw [e] at hx
    simp at hx
  simp only [Stmt.flatten, List.length_singleton]
  cases r with
  | «continue» val =>
    simp only [TOut.normal.injEq] at hex
    subst hex
    exact ⟨_, Steps.single (fun nested p =>
        runStep_cmd_continue nested is lo p t.vars s _ l.out l.cmd l.args c val t.vars _ hi
          (resolveCmd_of_empty s hres) (hmach nested)),
      line_core is lo (lo + 1) _ s t _ hd nx em hc hrel hcases (hA val), Garb.refl _ _ _ _,
      Garb.refl _ _ _ _, rfl⟩
  | error e =>
    simp only [TOut.normal.injEq] at hex
    subst hex
    exact ⟨_, Steps.single (fun nested p =>
        runStep_cmd_error nested is lo p t.vars s _ l.out l.cmd l.args c e t.vars _ hi
          (resolveCmd_of_empty s hres) (hmach nested) hrel.sfns),
      line_core is lo (lo + 1) _ s t _ hd nx em hc hrel hcases (hA _), Garb.refl _ _ _ _,
      Garb.refl _ _ _ _, rfl⟩
  | crash e => simp at hex
  | «exit» v => simp at hex
  | goTo v g => simp at hex

def StmtSim (is : List Instruction) (fuel : Nat) : Prop := ∀ st, StmtSimFor is fuel st

def BlockSim (is : List Instruction) (fuel : Nat) : Prop :=
  ∀ (b : Block) (lo : Nat) (s : Sdk) (t t' : TState), b.wf = true → b.simple2 = true →
    At is lo b.flatten → CacheOK is s → Rel s t → ForOK lo (lo + b.flatten.length) s.forStack →
    safeBlock is fuel b t = true →
    execBlock is fuel b t = .normal t' →
    Sim is lo (lo + b.flatten.length) (fun x => Block.assigns x b) s t t'

theorem Sim.seq {is : List Instruction} {lo mid hi : Nat} {A1 A2 A : Str → Bool} {s : Sdk}
    {t t1 t2 : TState} (h1 : Sim is lo mid A1 s t t1)
    (h2 : ∀ s1, CacheOK is s1 → Rel s1 t1 → s1.forStack = s.forStack → Sim is mid hi A2 s1 t1 t2)
    (hlm : lo ≤ mid) (hmh : mid ≤ hi) (hA1 : ∀ x, A x = false → A1 x = false)
    (hA2 : ∀ x, A x = false → A2 x = false) : Sim is lo hi A s t t2 := by
  obtain ⟨s1, hst1, hcore1, hif1, hwh1, hfor1⟩ := h1
  obtain ⟨s2, hst2, hcore2, hif2, hwh2, hfor2⟩ := h2 s1 hcore1.cache hcore1.rel hfor1
  exact ⟨s2, hst1.trans hst2,
    (hcore1.mono' (Nat.le_refl _) hmh hA1).trans (hcore2.mono' hlm (Nat.le_refl _) hA2),
    (hif1.mono (Nat.le_refl _) hmh).trans (hif2.mono hlm (Nat.le_refl _)),
    (hwh1.mono (Nat.le_refl _) hmh).trans (hwh2.mono hlm (Nat.le_refl _)),
    hfor2.trans hfor1⟩

theorem block_step (is : List Instruction) (fuel : Nat) (hS : StmtSim is fuel) (hB : BlockSim is fuel) :
    BlockSim is (fuel + 1) := by
  intro b lo s t t' hwf hs hat hc hrel hfor hsafe hex
  cases b with
  | nil =>
    simp only [execBlock, TOut.normal.injEq] at hex
    subst hex
    simp only [Block.flatten, List.length_nil, Nat.add_zero]
    exact ⟨s, Steps.refl _ _ _ _, SimCore.refl hc hrel, Garb.refl _ _ _ _, Garb.refl _ _ _ _, rfl⟩
  | cons st rest =>
    simp only [Block.wf, Block.simple2, Bool.and_eq_true] at hwf hs
    simp only [Block.flatten, List.length_append, ← Nat.add_assoc] at hat hfor ⊢
    simp only [execBlock] at hex
    simp only [safeBlock, Bool.and_eq_true] at hsafe
    cases h1 : execStmt is fuel st t with
    | normal t1 =>
      rw [h1] at hex
      have hsafe2 := hsafe.2
      rw [h1] at hsafe2
      have S1 := hS st lo s t t1 hwf.1 hs.1 hat.left hc hrel
        (hfor.mono (Nat.le_refl _) (by omega)) hsafe.1 h1
      refine Sim.seq S1 (fun s1 hc1 hr1 hf1 =>
        hB rest _ s1 t1 t' hwf.2 hs.2 hat.right hc1 hr1
          (by rw [hf1]; exact hfor.mono (by omega) (Nat.le_refl _)) hsafe2 hex)
        (by omega) (by omega) ?_ ?_
      · intro x hx; simp only [Block.assigns, Bool.or_eq_false_iff] at hx; exact hx.1
      · intro x hx; simp only [Block.assigns, Bool.or_eq_false_iff] at hx; exact hx.2
    | returning v t1 => rw [h1] at hex; simp at hex
    | failed => rw [h1] at hex; simp at hex
    | outOfFuel => rw [h1] at hex; simp at hex
end Duck
