/-
  C05 simulation (functions) — part 6: while loops and for/in loops, with both outcomes.
-/
import DuckModel.Lemmas.SimFnIf

namespace Duck
open Duck.Spec Duck.Generated Duck.Fn

/-! ### while -/

theorem stmt_whileF (c : Ctx) (hc : CtxOK c) (fuel : Nat) (hB : BlockSimF c fuel) (hS : StmtSimF c fuel)
    (kw : Str) (cond : List Str) (body : Block) (kwEnd : Str) (inFor : Bool) (lo : Nat) (s : Sdk)
    (t : TState) (o : TOut)
    (hwf : (Stmt.whileLoop kw cond body kwEnd).wf = true)
    (hs : (Stmt.whileLoop kw cond body kwEnd).fnFrag c.F.names c.callable c.F.fa c.rets inFor = true)
    (hat : At c.is lo (Stmt.whileLoop kw cond body kwEnd).flatten)
    (hpre : Pre c lo (lo + (Stmt.whileLoop kw cond body kwEnd).flatten.length) s t)
    (hsafe : fsafeStmt c.is (fuel + 1) (.whileLoop kw cond body kwEnd) t = true)
    (hex : execStmt c.is (fuel + 1) (.whileLoop kw cond body kwEnd) t = o) :
    SimOut c.is c.E c.F c.B lo (lo + (Stmt.whileLoop kw cond body kwEnd).flatten.length)
      (fun x => Stmt.assignsF c.F.fa x (.whileLoop kw cond body kwEnd)) inFor s t o := by
  have hnf := Stmt.noFn_of_fnFrag _ _ _ _ _ _ hs
  have hscan : findCommands whileTables c.is (lo + 1) = .ok ⟨[], lo + 1 + body.flatten.length⟩ := by
    obtain ⟨pre, post, hpl, his⟩ := hat
    have := C04_scan_while pre post kw cond body kwEnd hwf hnf
    simp only at this
    rw [hpl, ← his] at this
    rw [this]
    simp only [flatten_while, List.length_cons, List.length_append, List.length_nil]
    congr 2
    omega
  have hat0 := hat
  have hwf0 := hwf
  have hs0 := hs
  have hpre00 := hpre
  rw [flatten_while] at hat
  simp only [flatten_while, List.length_cons, List.length_append, List.length_nil] at hpre ⊢
  simp only [Stmt.wf, Stmt.fnFrag, Bool.and_eq_true] at hwf hs
  obtain ⟨⟨hkw, hbwf⟩, hkend⟩ := hwf
  obtain ⟨⟨hcs, hcnf⟩, hbs⟩ := hs
  have hi := At.head hat
  have hat' := At.tail hat
  generalize hstopdef : lo + 1 + body.flatten.length = stop at hscan
  have hhi : lo + (body.flatten.length + (0 + 1) + 1) = stop + 1 := by omega
  rw [hhi] at hpre ⊢
  have hBlo : c.B ≤ lo := hpre.bound
  have hA1 : ∀ x, Stmt.assignsF c.F.fa x (.whileLoop kw cond body kwEnd) = false →
      Block.assignsF c.F.fa x body = false := by
    intro x hx
    simp only [Stmt.assignsF] at hx
    exact hx
  cases fuel with
  | zero => simp only [execStmt, evalCond] at hex; subst hex; trivial
  | succ f =>
    simp only [execStmt] at hex
    simp only [fsafeStmt, Bool.and_eq_true] at hsafe
    obtain ⟨hcsafe, hsafe'⟩ := hsafe
    cases hec : evalCond c.is (f + 1) cond t with
    | none => rw [hec] at hex; simp only at hex; subst hex; trivial
    | some pr =>
      obtain ⟨bv, t1⟩ := pr
      rw [hec] at hex hsafe'
      obtain ⟨em, rfl, hbne, hev⟩ := cond_simF c.is c.E c.F hc.env f cond t t1 bv hcs hcnf hcsafe
        hpre.rel.tfns hpre.rel.tsfns hec
      have hv : CondSaysF c.is (bind t.vars (some cond)) t.vars s.emitted bv em s.fns :=
        ⟨hbne, fun f' hf' s' h1 h2 => hev f' hf' c.is s' (h1.trans hpre.rel.sfns)
          (h2.trans hpre.rel.emitted)⟩
      cases bv with
      | false =>
        simp only at hex
        subst hex
        obtain ⟨M, hstep1, hcache1⟩ := step_while_falseF c.is lo t.vars s _ kw cond [] stop em hi hkw
          hpre.cache hscan hv
        exact ⟨_, hstep1,
          SimCoreF.opener stop fullNameEndWhile (hcache1.of_eq rfl rfl rfl rfl) hpre.rel rfl rfl rfl rfl rfl
            rfl (by omega) (by omega),
          GarbF.refl _ _ _ _ _, GarbF.refl _ _ _ _ _, rfl, rfl, rfl⟩
      | true =>
        simp only [Bool.and_eq_true] at hex hsafe'
        obtain ⟨M, hstep1, hcache1⟩ := step_while_trueF c.is lo t.vars s _ kw cond [] stop em hi hkw
          hpre.cache hscan hv
        have hopen : SimCoreF c.is c.E c.F c.B lo (stop + 1)
            (fun x => Stmt.assignsF c.F.fa x (.whileLoop kw cond body kwEnd)) s t (withEm t em)
            { s with whileMeta := M, endTable := s.endTable.put (lineKey s stop) fullNameEndWhile,
                     emitted := em,
                     whileStack := { start := lo, stop := stop, ctx := s.lineCtx } :: s.whileStack } :=
          SimCoreF.opener stop fullNameEndWhile (hcache1.of_eq rfl rfl rfl rfl) hpre.rel rfl rfl rfl rfl rfl
            rfl (by omega) (by omega)
        have hwh1 : GarbF WhileCall.stop c.B lo (stop + 1) s.whileStack
            ({ start := lo, stop := stop, ctx := s.lineCtx } :: s.whileStack) :=
          ⟨[_], rfl, fun e he => by
            simp at he; subst he
            exact .inr ⟨by show lo ≤ stop; omega, by show stop < stop + 1; omega⟩⟩
        have hpre1 : Pre c (lo + 1) (lo + 1 + body.flatten.length)
            { s with whileMeta := M, endTable := s.endTable.put (lineKey s stop) fullNameEndWhile,
                     emitted := em,
                     whileStack := { start := lo, stop := stop, ctx := s.lineCtx } :: s.whileStack }
            (withEm t em) :=
          hpre.after hc hopen rfl (by omega) (by omega)
        have S := hB body inFor (lo + 1) _ (withEm t em) _ hbwf hbs hat'.left hpre1 hsafe'.1 rfl
        cases hb : execBlock c.is (f + 1) body (withEm t em) with
        | returning v t1 =>
          rw [hb] at hex S
          simp only at hex
          subst hex
          obtain ⟨hif, hret⟩ := S
          exact ⟨hif, SimRet.prefix (ta := withEm t em) hstep1 hopen (GarbF.refl _ _ _ _ _) hwh1 rfl rfl rfl
            hret (by omega) (by omega) hA1⟩
        | failed => rw [hb] at hex; simp only at hex; subst hex; trivial
        | outOfFuel => rw [hb] at hex; simp only at hex; subst hex; trivial
        | normal t1 =>
          rw [hb] at hex S
          have hsafe2 := hsafe'.2
          rw [hb] at hsafe2
          simp only at hex hsafe2
          obtain ⟨s2, hat2⟩ := S
          rw [hstopdef] at hat2
          obtain ⟨G, hG1, hG2⟩ := hat2.whS
          have hend2 : s2.endTable.get (lineKey s2 stop) = some fullNameEndWhile := by
            rw [hat2.core.frame.keep stop (by omega) (by omega)]
            exact KV.get_put_self _ _ _
          have hiend := At.head hat'.right
          rw [hstopdef] at hiend
          have hstep3 := step_endWhile c.is stop t1.vars s2 _ kwEnd G
            { start := lo, stop := stop, ctx := s.lineCtx } s.whileStack hiend hkend hend2 hG1 rfl
            (hat2.core.frame.ctx).symm
            (fun e he => by have := hG2 e he; unfold InR at this; omega)
          simp only at hstep3
          -- the state after one full iteration
          have hcore3 : SimCoreF c.is c.E c.F c.B lo (stop + 1)
              (fun x => Stmt.assignsF c.F.fa x (.whileLoop kw cond body kwEnd)) s t t1
              { s2 with whileStack := { start := lo, stop := stop, ctx := s.lineCtx } :: s.whileStack } :=
            hopen.trans ((hat2.core.sub (by omega) (by omega) hA1).core_right rfl)
          have hif3 : GarbF IfCall.current c.B lo (stop + 1) s.ifStack s2.ifStack :=
            hat2.ifS.mono (fun _ h => h.sub (by omega) (by omega))
          have hpre3 : Pre c lo (lo + (Stmt.whileLoop kw cond body kwEnd).flatten.length)
              { s2 with whileStack := { start := lo, stop := stop, ctx := s.lineCtx } :: s.whileStack } t1 := by
            simp only [flatten_while, List.length_cons, List.length_append, List.length_nil]
            rw [hhi]
            exact hpre.after hc hcore3 hat2.forS (Nat.le_refl _) (Nat.le_refl _)
          have S4 := hS (.whileLoop kw cond body kwEnd) inFor lo _ t1 o hwf0 hs0 hat0 hpre3 hsafe2 hex
          simp only [flatten_while, List.length_cons, List.length_append, List.length_nil] at S4
          rw [hhi] at S4
          have hsteps3 := (hstep1.trans hat2.steps).trans hstep3
          cases o with
          | normal t' =>
            obtain ⟨s4, hat4⟩ := S4
            exact ⟨s4, SimAt.prefix (ta := t1) hsteps3 hcore3 hif3 hwh1 hat2.forS hat2.fnS hat2.scS hat4
              (Nat.le_refl _) (Nat.le_refl _) (fun _ h => h)⟩
          | returning v t' =>
            obtain ⟨hif, hret⟩ := S4
            exact ⟨hif, SimRet.prefix (ta := t1) hsteps3 hcore3 hif3 hwh1 hat2.forS hat2.fnS hat2.scS hret
              (Nat.le_refl _) (Nat.le_refl _) (fun _ h => h)⟩
          | failed => trivial
          | outOfFuel => trivial

/-! ### for/in -/

/-- what has to be shown for an outcome of a for/in loop whose own entry is on the stack above `K`:
    a for/in body never lets a `return` through (it is not in the fragment) -/
def ForOut (c : Ctx) (st lo hi : Nat) (A : Str → Bool) (K : List ForCall) (s : Sdk) (t : TState) (o : TOut) :
    Prop :=
  match o with
  | .normal t' => ∃ s', Steps c.is st t.vars s hi t'.vars s' ∧
      SimCoreF c.is c.E c.F c.B lo hi A s t t' s' ∧
      GarbF IfCall.current c.B lo hi s.ifStack s'.ifStack ∧
      GarbF WhileCall.stop c.B lo hi s.whileStack s'.whileStack ∧
      s'.forStack = K ∧ s'.fnStack = s.fnStack ∧ s'.scopeStack = s.scopeStack
  | .returning _ _ => False
  | _ => True

def ForSimF (c : Ctx) (fuel : Nat) : Prop :=
  ∀ (kw x handle hn : Str) (body : Block) (kwEnd : Str) (lo : Nat) (own : ForCall) (K : List ForCall)
    (L items : List Str) (s : Sdk) (t : TState) (o : TOut),
    isForKw kw = true → body.wf = true → isEndForKw kwEnd = true → isLiteral x = true →
    body.fnFrag c.F.names c.callable c.F.fa c.rets true = true → handleVar? handle = some hn → x ≠ hn →
    body.assignsF c.F.fa hn = false →
    At c.is lo (Stmt.forIn kw x handle body kwEnd).flatten →
    s.forStack = own :: K → own.start = lo → own.stop = lo + 1 + body.flatten.length →
    own.ctx = s.lineCtx →
    (t.sdk.handles.get ((t.vars.get hn).getD [])).getD [] = L → L.drop own.iteration = items →
    s.endTable.get (lineKey s (lo + 1 + body.flatten.length)) = some fullNameEndForIn →
    Pre c lo (lo + 1 + body.flatten.length + 1) { s with forStack := K } t →
    fsafeFor c.is fuel x items body t = true →
    execFor c.is fuel x items body t = o →
    ForOut c lo lo (lo + 1 + body.flatten.length + 1) (fun y => x == y || Block.assignsF c.F.fa y body) K s t o

/-- one pass through the body (the loop variable is already set), the end line, and the rest of
    the loop -/
theorem for_iterF (c : Ctx) (hc : CtxOK c) (f : Nat) (hB : BlockSimF c f) (hF : ForSimF c f)
    (kw x handle hn : Str) (body : Block) (kwEnd : Str) (lo : Nat) (own : ForCall) (K : List ForCall)
    (L rest : List Str) (s1 : Sdk) (t0 : TState) (o : TOut)
    (hkw : isForKw kw = true) (hbwf : body.wf = true) (hkend : isEndForKw kwEnd = true)
    (hx : isLiteral x = true) (hbs : body.fnFrag c.F.names c.callable c.F.fa c.rets true = true)
    (hh : handleVar? handle = some hn)
    (hxn : x ≠ hn) (hbn : body.assignsF c.F.fa hn = false)
    (hat : At c.is lo (Stmt.forIn kw x handle body kwEnd).flatten)
    (hst : s1.forStack = own :: K) (hos : own.start = lo)
    (hop : own.stop = lo + 1 + body.flatten.length) (hctx : own.ctx = s1.lineCtx)
    (hL : t0.sdk.handles.get ((t0.vars.get hn).getD []) = some L) (hdrop : L.drop own.iteration = rest)
    (hend : s1.endTable.get (lineKey s1 (lo + 1 + body.flatten.length)) = some fullNameEndForIn)
    (hpre : Pre c lo (lo + 1 + body.flatten.length + 1) { s1 with forStack := K } t0)
    (hsb : fsafeBlock c.is f body t0 = true)
    (hsr : ∀ t1, execBlock c.is f body t0 = .normal t1 → fsafeFor c.is f x rest body t1 = true)
    (hex : (match execBlock c.is f body t0 with
            | .normal t => execFor c.is f x rest body t
            | o => o) = o) :
    ForOut c (lo + 1) lo (lo + 1 + body.flatten.length + 1)
      (fun y => x == y || Block.assignsF c.F.fa y body) K s1 t0 o := by
  have hat0 := hat
  rw [flatten_for] at hat
  have hat' := At.tail hat
  have hBlo : c.B ≤ lo := hpre.bound
  have hpre1 : Pre c (lo + 1) (lo + 1 + body.flatten.length) s1 t0 := by
    refine ⟨hpre.cache.core rfl, hpre.rel.core rfl, ?_, by omega,
      fun k h1 h2 => hpre.noEnd k (by omega) (by omega), hpre.depth, ?_⟩
    · rw [hst]
      intro e he
      rcases List.mem_cons.mp he with rfl | he
      · omega
      · have := hpre.forOK e he; omega
    · exact hpre.endFn
  have S := hB body true (lo + 1) s1 t0 _ hbwf hbs hat'.left hpre1 hsb rfl
  cases hb : execBlock c.is f body t0 with
  | returning v t1 =>
    rw [hb] at S
    exact absurd S.1 (by simp)
  | failed => rw [hb] at hex; simp only at hex; subst hex; trivial
  | outOfFuel => rw [hb] at hex; simp only at hex; subst hex; trivial
  | normal t1 =>
    rw [hb] at hex S
    simp only at hex
    obtain ⟨s2, hat2⟩ := S
    have hend2 : s2.endTable.get (lineKey s2 (lo + 1 + body.flatten.length)) = some fullNameEndForIn := by
      rw [hat2.core.frame.keep _ (by omega) (by omega)]
      exact hend
    have hiend := At.head hat'.right
    have hstep3 := step_endFor c.is (lo + 1 + body.flatten.length) t1.vars s2 _ kwEnd own K hiend hkend hend2
      (hat2.forS.trans hst) hop (hctx.trans (hat2.core.frame.ctx).symm)
    rw [hos] at hstep3
    have hvar : t1.vars.get hn = t0.vars.get hn := hat2.core.varsF hn hbn
    have hcore2 : SimCoreF c.is c.E c.F c.B lo (lo + 1 + body.flatten.length + 1)
        (fun y => x == y || Block.assignsF c.F.fa y body) s1 t0 t1 s2 :=
      hat2.core.sub (by omega) (by omega) (fun y hy => by
        simp only [Bool.or_eq_false_iff] at hy
        exact hy.2)
    have hpre2 : Pre c lo (lo + 1 + body.flatten.length + 1) { s2 with forStack := K } t1 := by
      have := hpre.after hc (s' := { s2 with forStack := K })
        ((hcore2.core_left (s0 := { s1 with forStack := K }) rfl).core_right rfl) rfl
        (Nat.le_refl _) (Nat.le_refl _)
      exact this
    have S4 := hF kw x handle hn body kwEnd lo own K L rest s2 t1 o hkw hbwf hkend hx hbs hh hxn hbn hat0
      (hat2.forS.trans hst) hos hop (hctx.trans (hat2.core.frame.ctx).symm)
      (by rw [hvar, hat2.core.mono _ _ hL]; rfl) hdrop hend2 hpre2 (hsr t1 hb) hex
    cases o with
    | normal t' =>
      obtain ⟨s4, hst4, hcore4, hif4, hwh4, hfor4, hfn4, hsc4⟩ := S4
      exact ⟨s4, (hat2.steps.trans hstep3).trans hst4, hcore2.trans hcore4,
        (hat2.ifS.mono (fun _ h => h.sub (by omega) (by omega))).trans hif4,
        (hat2.whS.mono (fun _ h => h.sub (by omega) (by omega))).trans hwh4, hfor4,
        hfn4.trans hat2.fnS, hsc4.trans hat2.scS⟩
    | returning v t' => exact S4
    | failed => trivial
    | outOfFuel => trivial

theorem for_stepF (c : Ctx) (hc : CtxOK c) (f : Nat) (hB : BlockSimF c f) (hF : ForSimF c f) :
    ForSimF c (f + 1) := by
  intro kw x handle hn body kwEnd lo own K L items s t o hkw hbwf hkend hx hbs hh hxn hbn hat hst hos
    hop hctx hL hdrop hend hpre hsafe hex
  have hat0 := hat
  rw [flatten_for] at hat
  have hi := At.head hat
  have hbind := bind_for t.vars x handle hn hx hh
  have hidx : (s.handles.get ((t.vars.get hn).getD [])).bind (fun l => l[own.iteration]?) =
      L[own.iteration]? := by
    rw [get_bind_idx]
    have : s.handles = t.sdk.handles := hpre.rel.handles
    rw [this, hL]
  cases items with
  | nil =>
    simp only [execFor] at hex
    subst hex
    have hnone : L[own.iteration]? = none := by
      have := drop_nil_facts L own.iteration hdrop
      exact List.getElem?_eq_none (by omega)
    have hstep := step_for_next_none c.is lo t.vars s _ kw x handle _ own K hi hkw hbind hst hos hctx
      (hidx.trans hnone)
    rw [hop] at hstep
    exact ⟨_, hstep, (SimCoreF.refl (s := s) (hpre.cache.core rfl) (hpre.rel.core rfl)).core_right rfl,
      GarbF.refl _ _ _ _ _, GarbF.refl _ _ _ _ _, rfl, rfl, rfl⟩
  | cons val rest =>
    obtain ⟨hlt, hget, hdrop'⟩ := drop_cons_facts L own.iteration val rest hdrop
    have hLsome := drop_some_of_ne hL hdrop
    have hstep := step_for_next_some c.is lo t.vars s _ kw x handle _ own K val hi hkw hbind hst hos hctx
      (hidx.trans hget)
    simp only [execFor] at hex
    simp only [fsafeFor, Bool.and_eq_true] at hsafe
    have hvar0 : (t.vars.set x val).get hn = t.vars.get hn := Vars.get_set_ne _ _ _ _ hxn
    have hrel0 : RelF c.F { s with forStack := K } { t with vars := t.vars.set x val } :=
      ⟨hpre.rel.handles, hpre.rel.next, hpre.rel.emitted, hpre.rel.sfns, hpre.rel.tsfns, hpre.rel.tfns,
        hpre.rel.hok⟩
    have hpre0 : Pre c lo (lo + 1 + body.flatten.length + 1)
        { ({ s with forStack := { own with iteration := own.iteration + 1, ctx := s.lineCtx } :: K } : Sdk)
            with forStack := K }
        { t with vars := t.vars.set x val } :=
      ⟨hpre.cache, hrel0, hpre.forOK, hpre.bound, hpre.noEnd, hpre.depth, hpre.endFn⟩
    have S := for_iterF c hc f hB hF kw x handle hn body kwEnd lo
      { own with iteration := own.iteration + 1, ctx := s.lineCtx } K L rest
      { s with forStack := { own with iteration := own.iteration + 1, ctx := s.lineCtx } :: K }
      { t with vars := t.vars.set x val } o hkw hbwf hkend hx hbs hh hxn hbn hat0 rfl hos hop rfl
      (by simp only; rw [hvar0]; exact hLsome) hdrop' hend hpre0 hsafe.1
      (fun t1 hb => by
        have := hsafe.2
        rw [hb] at this
        exact this) hex
    cases o with
    | normal t' =>
      obtain ⟨s4, hst4, hcore4, hif4, hwh4, hfor4, hfn4, hsc4⟩ := S
      refine ⟨s4, hstep.trans hst4, ?_, hif4, hwh4, hfor4, hfn4, hsc4⟩
      have h0 : SimCoreF c.is c.E c.F c.B lo (lo + 1 + body.flatten.length + 1)
          (fun y => x == y || Block.assignsF c.F.fa y body)
          s t { t with vars := t.vars.set x val }
          { s with forStack := { own with iteration := own.iteration + 1, ctx := s.lineCtx } :: K } := by
        refine ⟨hpre.cache.core rfl, hrel0.core rfl, FrameF.of_eq rfl rfl, fun _ _ h => h, ?_, rfl⟩
        intro y hy
        simp only [Bool.or_eq_false_iff, beq_eq_false_iff_ne] at hy
        exact Vars.get_set_ne _ _ _ _ hy.1
      exact h0.trans hcore4
    | returning v t' => exact S
    | failed => trivial
    | outOfFuel => trivial

theorem stmt_forF (c : Ctx) (hc : CtxOK c) (fuel : Nat)
    (hall : ∀ m, m < fuel + 1 → BlockSimF c m ∧ ForSimF c m)
    (kw x handle : Str) (body : Block) (kwEnd : Str) (inFor : Bool) (lo : Nat) (s : Sdk)
    (t : TState) (o : TOut)
    (hwf : (Stmt.forIn kw x handle body kwEnd).wf = true)
    (hs : (Stmt.forIn kw x handle body kwEnd).fnFrag c.F.names c.callable c.F.fa c.rets inFor = true)
    (hat : At c.is lo (Stmt.forIn kw x handle body kwEnd).flatten)
    (hpre : Pre c lo (lo + (Stmt.forIn kw x handle body kwEnd).flatten.length) s t)
    (hsafe : fsafeStmt c.is (fuel + 1) (.forIn kw x handle body kwEnd) t = true)
    (hex : execStmt c.is (fuel + 1) (.forIn kw x handle body kwEnd) t = o) :
    SimOut c.is c.E c.F c.B lo (lo + (Stmt.forIn kw x handle body kwEnd).flatten.length)
      (fun y => Stmt.assignsF c.F.fa y (.forIn kw x handle body kwEnd)) inFor s t o := by
  have hnf := Stmt.noFn_of_fnFrag _ _ _ _ _ _ hs
  have hscan : findCommands forTables c.is (lo + 1) = .ok ⟨[], lo + 1 + body.flatten.length⟩ := by
    obtain ⟨pre, post, hpl, his⟩ := hat
    have := C04_scan_for pre post kw x handle body kwEnd hwf hnf
    simp only at this
    rw [hpl, ← his] at this
    rw [this]
    simp only [flatten_for, List.length_cons, List.length_append, List.length_nil]
    congr 2
    omega
  have hat0 := hat
  rw [flatten_for] at hat
  simp only [flatten_for, List.length_cons, List.length_append, List.length_nil] at hpre ⊢
  simp only [Stmt.wf, Stmt.fnFrag, Bool.and_eq_true] at hwf hs
  obtain ⟨⟨hkw, hbwf⟩, hkend⟩ := hwf
  obtain ⟨⟨⟨hx, hxne⟩, hbs⟩, hhandle⟩ := hs
  cases hh : handleVar? handle with
  | none => rw [hh] at hhandle; simp at hhandle
  | some hn =>
    rw [hh] at hhandle
    simp only [Bool.and_eq_true, bne_iff_ne, ne_eq, Bool.not_eq_true'] at hhandle
    obtain ⟨hxn, hbn⟩ := hhandle
    have hi := At.head hat
    have hhi : lo + (body.flatten.length + (0 + 1) + 1) = lo + 1 + body.flatten.length + 1 := by omega
    rw [hhi] at hpre ⊢
    have hbind := bind_for t.vars x handle hn hx hh
    have habs : ∀ e ∈ s.forStack, e.start ≠ lo ∧ e.stop ≠ lo := by
      intro e he
      have := hpre.forOK e he
      omega
    simp only [execStmt, bind_handle t.vars handle hn hh] at hex
    simp only [fsafeStmt, bind_handle t.vars handle hn hh] at hsafe
    generalize hLdef : (t.sdk.handles.get ((t.vars.get hn).getD [])).getD [] = L at hex hsafe
    have hidx : (s.handles.get ((t.vars.get hn).getD [])).bind (fun l => l[0]?) = L[0]? := by
      rw [get_bind_idx]
      have : s.handles = t.sdk.handles := hpre.rel.handles
      rw [this, hLdef]
    cases fuel with
    | zero => simp only [execFor] at hex; subst hex; trivial
    | succ f =>
      obtain ⟨hB, hF⟩ := hall f (by omega)
      cases L with
      | nil =>
        simp only [execFor] at hex
        subst hex
        obtain ⟨M, hstep1, hcache1⟩ := step_for_first_none c.is lo t.vars s _ kw x handle _ [] _ hi hkw
          hbind hpre.cache hscan habs (hidx.trans rfl)
        exact ⟨_, hstep1,
          SimCoreF.opener0 (lo + 1 + body.flatten.length) fullNameEndForIn hcache1 hpre.rel rfl rfl rfl
            rfl rfl rfl (by omega) (by omega),
          GarbF.refl _ _ _ _ _, GarbF.refl _ _ _ _ _, rfl, rfl, rfl⟩
      | cons val rest =>
        obtain ⟨M, hstep1, hcache1⟩ := step_for_first_some c.is lo t.vars s _ kw x handle _ [] _ val hi hkw
          hbind hpre.cache hscan habs (hidx.trans rfl)
        simp only [execFor] at hex
        simp only [fsafeFor, Bool.and_eq_true] at hsafe
        have hvar0 : (t.vars.set x val).get hn = t.vars.get hn := Vars.get_set_ne _ _ _ _ hxn
        have hLsome : t.sdk.handles.get ((t.vars.get hn).getD []) = some (val :: rest) :=
          drop_some_of_ne (k := 0) hLdef rfl
        have h0 : SimCoreF c.is c.E c.F c.B lo (lo + 1 + body.flatten.length + 1)
            (fun y => Stmt.assignsF c.F.fa y (.forIn kw x handle body kwEnd))
            s t { t with vars := t.vars.set x val }
            { s with forMeta := M,
                     endTable := s.endTable.put (lineKey s (lo + 1 + body.flatten.length)) fullNameEndForIn,
                     forStack := { iteration := 1, start := lo, stop := lo + 1 + body.flatten.length,
                                   ctx := s.lineCtx } :: s.forStack } := by
          refine ⟨hcache1.of_eq rfl rfl rfl rfl,
            ⟨hpre.rel.handles, hpre.rel.next, hpre.rel.emitted, hpre.rel.sfns, hpre.rel.tsfns,
              hpre.rel.tfns, hpre.rel.hok⟩,
            ⟨fun l hl => ?_, rfl⟩, fun _ _ h => h, ?_, rfl⟩
          · refine endT_put_ne s _ l _ (fun e => hl ?_)
            subst e
            exact .inl ⟨by omega, by omega⟩
          · intro y hy
            simp only [Stmt.assignsF, Bool.or_eq_false_iff, beq_eq_false_iff_ne] at hy
            exact Vars.get_set_ne _ _ _ _ hy.1
        have hpre0 : Pre c lo (lo + 1 + body.flatten.length + 1)
            { s with forMeta := M,
                     endTable := s.endTable.put (lineKey s (lo + 1 + body.flatten.length)) fullNameEndForIn }
            { t with vars := t.vars.set x val } :=
          hpre.after hc (h0.core_right rfl) rfl (Nat.le_refl _) (Nat.le_refl _)
        have S := for_iterF c hc f hB hF kw x handle hn body kwEnd lo
          { iteration := 1, start := lo, stop := lo + 1 + body.flatten.length, ctx := s.lineCtx }
          s.forStack (val :: rest) rest
          { s with forMeta := M,
                   endTable := s.endTable.put (lineKey s (lo + 1 + body.flatten.length)) fullNameEndForIn,
                   forStack := { iteration := 1, start := lo, stop := lo + 1 + body.flatten.length,
                                 ctx := s.lineCtx } :: s.forStack }
          { t with vars := t.vars.set x val } o hkw hbwf hkend hx hbs hh hxn hbn hat0 rfl rfl rfl rfl
          (by simp only; rw [hvar0]; exact hLsome) rfl (KV.get_put_self _ _ _) hpre0 hsafe.1
          (fun t1 hb => by
            have := hsafe.2
            rw [hb] at this
            exact this) hex
        cases o with
        | normal t' =>
          obtain ⟨s4, hst4, hcore4, hif4, hwh4, hfor4, hfn4, hsc4⟩ := S
          exact ⟨s4, hstep1.trans hst4,
            h0.trans (hcore4.mono' (fun _ h => h) (fun y hy => by
              simp only [Stmt.assignsF] at hy
              exact hy)),
            hif4, hwh4, hfor4, hfn4, hsc4⟩
        | returning v t' => exact False.elim S
        | failed => trivial
        | outOfFuel => trivial

end Duck
