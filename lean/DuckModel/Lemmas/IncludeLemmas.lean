/-
  C14 — definitions that tie the parser model to the inlining specification, and the lemmas
  behind Props/C14.lean.
-/
import DuckModel.Parser
import DuckModel.Includes
import DuckModel.Spec.Inline
import DuckModel.Lemmas.ParserLemmas

namespace Duck
open Duck.Spec

/-! ### bridging definitions -/

/-- the lines the parser treats as include directives, with the files they list -/
def includeDirective (l : Str) : Option (List Str) :=
  match parseLine l with
  | .ok (.preProcess (some c) a) => if c = includeName then some (a.getD []) else none
  | _ => none

/-- the specification's world over an abstract file system: paths written in a directive of
    `f` are resolved with `f` as the including file -/
def worldOf (fs : Fs) : World :=
  { read := fs.read, resolve := fun f a => fs.resolve (some f) a, directive := includeDirective }

def isDirective (i : Instruction) : Bool :=
  match i.ty with
  | .preProcess (some c) _ => decide (c = includeName)
  | _ => false

/-- the instruction list without the (run-time no-op) include directive instructions -/
def stripDirectives (is : List Instruction) : List Instruction := is.filter (fun i => !isDirective i)

def mapOk {ε α β : Type} (f : α → β) : Except ε α → Except ε β
  | .ok a => .ok (f a)
  | .error e => .error e

/-- first failure wins, otherwise concatenation -/
def seqE (a b : Except ParseFail (List Instruction)) : Except ParseFail (List Instruction) :=
  match a with
  | .error e => .error e
  | .ok x =>
    match b with
    | .error e => .error e
    | .ok y => .ok (x ++ y)

/-- what a line that is not an include directive gives when it is parsed on its own:
    its instruction type, or the error kind (malformed line, `!` without command, unknown
    directive) -/
def lineOutcome (l : Str) : Except PErr InstrType :=
  match parseLine l with
  | .error k => .error k
  | .ok (.preProcess none _) => .error .preProcessNoCommandFound
  | .ok (.preProcess (some c) a) =>
    if c = printName then .ok (.preProcess (some c) a) else .error .unknownPreProcessorCommand
  | .ok ty => .ok ty

/-- parse the inlined lines one by one, each instruction carrying its provenance;
    the first line that fails fails everything, with its provenance -/
def parseEach : List (Meta × Str) → Except ParseFail (List Instruction)
  | [] => .ok []
  | (m, l) :: rest =>
    match lineOutcome l with
    | .error k => .error ⟨k, m⟩
    | .ok ty =>
      match parseEach rest with
      | .error e => .error e
      | .ok r => .ok (⟨m, ty⟩ :: r)

def stopFail : Stop → ParseFail
  | .missing p => ⟨.errorReadingFile p, {}⟩
  | .depth => depthExceeded

/-- the parse the property demands for an inlining result -/
def parseInlined (x : Inlined) : Except ParseFail (List Instruction) :=
  match parseEach x.1 with
  | .error e => .error e
  | .ok is =>
    match x.2 with
    | none => .ok is
    | some s => .error (stopFail s)

/-- where an instruction claims to come from is a line of a readable file that parses to it -/
def Provenance (fs : Fs) (i : Instruction) : Prop :=
  ∃ f text k l, i.mi = { line := some k, source := some f } ∧ fs.read f = some text ∧
    1 ≤ k ∧ k ≤ (lines text).length ∧ (lines text)[k - 1]? = some l ∧ parseLine l = .ok i.ty

/-! ### seqE / mapOk algebra -/

theorem seqE_ok_nil_left (b : Except ParseFail (List Instruction)) : seqE (.ok []) b = b := by
  cases b <;> rfl

theorem seqE_assoc (a b c : Except ParseFail (List Instruction)) :
    seqE (seqE a b) c = seqE a (seqE b c) := by
  cases a <;> cases b <;> cases c <;> simp [seqE]

theorem mapOk_strip_seqE (a b : Except ParseFail (List Instruction)) :
    mapOk stripDirectives (seqE a b) = seqE (mapOk stripDirectives a) (mapOk stripDirectives b) := by
  cases a <;> cases b <;> simp [seqE, mapOk, stripDirectives]

theorem seqE_ok_iff (a b : Except ParseFail (List Instruction)) (is : List Instruction) :
    seqE a b = .ok is ↔ ∃ x y, a = .ok x ∧ b = .ok y ∧ is = x ++ y := by
  cases a <;> cases b <;> simp [seqE, eq_comm]

/-! ### the parser's loop in sequence form -/

/-- what one line contributes in `parse_lines` -/
def lineStep (inc : Str → Except ParseFail (List Instruction)) (fs : Fs) (src : Option Str)
    (n : Nat) (l : Str) : Except ParseFail (List Instruction) :=
  match parseLine l with
  | .error k => .error ⟨k, { line := some n, source := src }⟩
  | .ok ty =>
    match ty with
    | .preProcess cmd args =>
      match runPre inc fs { line := some n, source := src } cmd args with
      | .error e => .error e
      | .ok added => .ok (⟨{ line := some n, source := src }, ty⟩ :: added)
    | _ => .ok [⟨{ line := some n, source := src }, ty⟩]

theorem parseLinesWith_cons_seq (inc : Str → Except ParseFail (List Instruction)) (fs : Fs)
    (src : Option Str) (n : Nat) (l : Str) (ls : List Str) :
    parseLinesWith inc fs src n (l :: ls) =
      seqE (lineStep inc fs src n l) (parseLinesWith inc fs src (n + 1) ls) := by
  rw [parseLinesWith, lineStep]
  cases hpl : parseLine l with
  | error k => simp [seqE]
  | ok ty =>
    cases ty with
    | empty => simp only [seqE]; cases parseLinesWith inc fs src (n + 1) ls <;> rfl
    | script s => simp only [seqE]; cases parseLinesWith inc fs src (n + 1) ls <;> rfl
    | preProcess cmd args =>
      simp only
      cases runPre inc fs { line := some n, source := src } cmd args with
      | error e => simp [seqE]
      | ok added =>
        simp only [seqE]
        cases parseLinesWith inc fs src (n + 1) ls <;> simp

theorem includeFiles_cons_seq (inc : Str → Except ParseFail (List Instruction)) (fs : Fs)
    (src : Option Str) (a : Str) (as : List Str) :
    includeFiles inc fs src (a :: as) =
      seqE (inc (fs.resolve src a)) (includeFiles inc fs src as) := by
  rw [includeFiles]
  cases inc (fs.resolve src a) with
  | error e => simp [seqE]
  | ok is => simp only [seqE]; cases includeFiles inc fs src as <;> rfl

theorem printName_ne_includeName : printName ≠ includeName := by decide

/-! ### specification side -/

theorem parseEach_append (a b : List (Meta × Str)) :
    parseEach (a ++ b) = seqE (parseEach a) (parseEach b) := by
  induction a with
  | nil => simp [parseEach, seqE_ok_nil_left]
  | cons x a ih =>
    obtain ⟨m, l⟩ := x
    simp only [List.cons_append, parseEach]
    cases lineOutcome l with
    | error k => simp [seqE]
    | ok ty =>
      simp only [ih]
      cases parseEach a <;> cases parseEach b <;> simp [seqE]

theorem parseInlined_seq (a b : Inlined) :
    parseInlined (a.seq b) = seqE (parseInlined a) (parseInlined b) := by
  obtain ⟨al, as⟩ := a
  obtain ⟨bl, bs⟩ := b
  cases as with
  | some s =>
    simp only [Inlined.seq, parseInlined]
    cases parseEach al <;> simp [seqE]
  | none =>
    simp only [Inlined.seq, parseInlined, parseEach_append]
    cases parseEach al <;> cases parseEach bl <;> cases bs <;> simp [seqE]

theorem parseInlined_nil : parseInlined ([], none) = .ok [] := rfl

/-! ### the master equation -/

theorem includeFiles_eq_inlineArgs (inc : Str → Except ParseFail (List Instruction))
    (incS : Str → Inlined) (fs : Fs) (src : Option Str)
    (H : ∀ f, mapOk stripDirectives (inc f) = parseInlined (incS f)) (as : List Str) :
    mapOk stripDirectives (includeFiles inc fs src as) =
      parseInlined (inlineArgs incS (fun a => fs.resolve src a) as) := by
  induction as with
  | nil => simp [includeFiles, inlineArgs, mapOk, stripDirectives, parseInlined, parseEach]
  | cons a as ih =>
    rw [includeFiles_cons_seq, mapOk_strip_seqE, H, ih]
    simp only [inlineArgs]
    rw [parseInlined_seq]

theorem lineStep_eq_spec (inc : Str → Except ParseFail (List Instruction))
    (incS : Str → Inlined) (fs : Fs) (file : Str)
    (H : ∀ f, mapOk stripDirectives (inc f) = parseInlined (incS f)) (n : Nat) (l : Str) :
    mapOk stripDirectives (lineStep inc fs (some file) n l) =
      parseInlined (match includeDirective l with
        | some args => inlineArgs incS (fun a => fs.resolve (some file) a) args
        | none => ([({ line := some n, source := some file }, l)], none)) := by
  unfold lineStep includeDirective
  cases hpl : parseLine l with
  | error k => simp [mapOk, parseInlined, parseEach, lineOutcome, hpl]
  | ok ty =>
    cases ty with
    | empty => simp [mapOk, parseInlined, parseEach, lineOutcome, hpl, stripDirectives, isDirective]
    | script s => simp [mapOk, parseInlined, parseEach, lineOutcome, hpl, stripDirectives, isDirective]
    | preProcess cmd args =>
      cases cmd with
      | none => simp [runPre, mapOk, parseInlined, parseEach, lineOutcome, hpl]
      | some c =>
        by_cases h1 : c = includeName
        · subst h1
          have hne : includeName ≠ printName := fun h => printName_ne_includeName h.symm
          simp only [runPre, hne, if_false, if_true]
          have := includeFiles_eq_inlineArgs inc incS fs (some file) H (args.getD [])
          rw [← this]
          cases includeFiles inc fs (some file) (args.getD []) with
          | error e => simp [mapOk]
          | ok added => simp [mapOk, stripDirectives, isDirective]
        · by_cases h2 : c = printName
          · subst h2
            simp [runPre, mapOk, parseInlined, parseEach, lineOutcome, hpl, stripDirectives,
              isDirective, h1]
          · simp [runPre, mapOk, parseInlined, parseEach, lineOutcome, hpl, h1, h2]

theorem parseLinesWith_eq_inlineLines (inc : Str → Except ParseFail (List Instruction))
    (incS : Str → Inlined) (fs : Fs) (file : Str)
    (H : ∀ f, mapOk stripDirectives (inc f) = parseInlined (incS f)) (ls : List Str) :
    ∀ n, mapOk stripDirectives (parseLinesWith inc fs (some file) n ls) =
      parseInlined (inlineLines (worldOf fs) incS file n ls) := by
  induction ls with
  | nil => intro n; simp [parseLinesWith, inlineLines, mapOk, stripDirectives, parseInlined, parseEach]
  | cons l ls ih =>
    intro n
    rw [parseLinesWith_cons_seq, mapOk_strip_seqE, ih (n + 1), lineStep_eq_spec inc incS fs file H]
    simp only [inlineLines, worldOf]
    cases includeDirective l with
    | some args => simp only []; rw [parseInlined_seq]
    | none => simp only []; rw [parseInlined_seq]

theorem parseFileF_eq_inline (fs : Fs) :
    ∀ (fuel : Nat) (file : Str),
      mapOk stripDirectives (parseFileF fs fuel file) = parseInlined (inline (worldOf fs) fuel file) := by
  intro fuel
  induction fuel with
  | zero => intro file; simp [parseFileF, Spec.inline, mapOk, parseInlined, parseEach, stopFail]
  | succ fuel ih =>
    intro file
    rw [parseFileF, Spec.inline]
    simp only [worldOf]
    cases hr : fs.read file with
    | none => simp [mapOk, parseInlined, parseEach, stopFail]
    | some text =>
      simp only []
      exact parseLinesWith_eq_inlineLines (parseFileF fs fuel) (inline (worldOf fs) fuel) fs file ih
        (lines text) 1

/-! ### provenance (directly on the parser model) -/

theorem includeFiles_mem (inc : Str → Except ParseFail (List Instruction)) (fs : Fs)
    (src : Option Str) (as : List Str) :
    ∀ added, includeFiles inc fs src as = .ok added →
      ∀ i ∈ added, ∃ a ∈ as, ∃ is', inc (fs.resolve src a) = .ok is' ∧ i ∈ is' := by
  induction as with
  | nil => intro added h; simp [includeFiles] at h; subst h; simp
  | cons a as ih =>
    intro added h i hi
    rw [includeFiles_cons_seq, seqE_ok_iff] at h
    obtain ⟨x, y, hx, hy, rfl⟩ := h
    rcases List.mem_append.mp hi with hi | hi
    · exact ⟨a, by simp, x, hx, hi⟩
    · obtain ⟨a', ha', is', h1, h2⟩ := ih y hy i hi
      exact ⟨a', by simp [ha'], is', h1, h2⟩

theorem lineStep_mem (inc : Str → Except ParseFail (List Instruction)) (fs : Fs) (src : Option Str)
    (n : Nat) (l : Str) (x : List Instruction) (h : lineStep inc fs src n l = .ok x) :
    ∀ i ∈ x, (i.mi = { line := some n, source := src } ∧ parseLine l = .ok i.ty) ∨
      ∃ f is', inc f = .ok is' ∧ i ∈ is' := by
  unfold lineStep at h
  cases hpl : parseLine l with
  | error k => simp [hpl] at h
  | ok ty =>
    simp only [hpl] at h
    cases ty with
    | empty => simp at h; subst h; intro i hi; simp at hi; subst hi; exact Or.inl ⟨rfl, rfl⟩
    | script s => simp at h; subst h; intro i hi; simp at hi; subst hi; exact Or.inl ⟨rfl, rfl⟩
    | preProcess cmd args =>
      simp only at h
      cases hrp : runPre inc fs { line := some n, source := src } cmd args with
      | error e => simp [hrp] at h
      | ok added =>
        simp only [hrp] at h
        cases h
        intro i hi
        cases List.mem_cons.mp hi with
        | inl h0 => subst h0; exact Or.inl ⟨rfl, rfl⟩
        | inr h0 =>
          right
          unfold runPre at hrp
          cases cmd with
          | none => simp at hrp
          | some c =>
            simp only at hrp
            by_cases h2 : c = printName
            · simp [h2] at hrp; subst hrp; simp at h0
            · by_cases h1 : c = includeName
              · simp only [h1, if_true] at hrp
                obtain ⟨a, _, is', h3, h4⟩ := includeFiles_mem inc fs src _ added hrp i h0
                exact ⟨_, is', h3, h4⟩
              · simp [h1, h2] at hrp

theorem parseLinesWith_provenance (inc : Str → Except ParseFail (List Instruction)) (fs : Fs)
    (file text : Str) (hread : fs.read file = some text)
    (H : ∀ f is', inc f = .ok is' → ∀ i ∈ is', Provenance fs i) (ls : List Str) :
    ∀ (pre : List Str) (n : Nat) (is : List Instruction), lines text = pre ++ ls →
      n = pre.length + 1 → parseLinesWith inc fs (some file) n ls = .ok is →
      ∀ i ∈ is, Provenance fs i := by
  induction ls with
  | nil => intro pre n is _ _ h; simp [parseLinesWith] at h; subst h; simp
  | cons l ls ih =>
    intro pre n is hl hn h i hi
    rw [parseLinesWith_cons_seq, seqE_ok_iff] at h
    obtain ⟨x, y, hx, hy, rfl⟩ := h
    rcases List.mem_append.mp hi with hi | hi
    · rcases lineStep_mem inc fs (some file) n l x hx i hi with ⟨hm, hp⟩ | ⟨f, is', h1, h2⟩
      · refine ⟨file, text, n, l, hm, hread, by omega, ?_, ?_, hp⟩
        · rw [hl]; simp; omega
        · rw [hl, hn]; simp
      · exact H f is' h1 i h2
    · exact ih (pre ++ [l]) (n + 1) y (by simp [hl]) (by simp [hn]) hy i hi

theorem parseFileF_provenance (fs : Fs) :
    ∀ (fuel : Nat) (file : Str) (is : List Instruction), parseFileF fs fuel file = .ok is →
      ∀ i ∈ is, Provenance fs i := by
  intro fuel
  induction fuel with
  | zero => intro file is h; simp [parseFileF] at h
  | succ fuel ih =>
    intro file is h
    rw [parseFileF] at h
    cases hr : fs.read file with
    | none => simp [hr] at h
    | some text =>
      simp only [hr] at h
      exact parseLinesWith_provenance (parseFileF fs fuel) fs file text hr
        (fun f is' hf => ih f is' hf) (lines text) [] 1 is (by simp) (by simp) h

/-! ### provenance of the inlined lines (specification side) -/

/-- an inlined line is the `k`-th line of the readable file it names -/
def LineProvenance (w : World) (p : Meta × Str) : Prop :=
  ∃ f text k, p.1 = { line := some k, source := some f } ∧ w.read f = some text ∧
    1 ≤ k ∧ (lines text)[k - 1]? = some p.2

theorem seq_mem (a b : Inlined) (p : Meta × Str) (h : p ∈ (a.seq b).1) : p ∈ a.1 ∨ p ∈ b.1 := by
  obtain ⟨al, as⟩ := a
  cases as with
  | some s => simp [Inlined.seq] at h; exact Or.inl h
  | none => simp [Inlined.seq] at h; exact h

theorem inlineArgs_provenance (w : World) (incS : Str → Inlined) (res : Str → Str)
    (H : ∀ f, ∀ p ∈ (incS f).1, LineProvenance w p) (as : List Str) :
    ∀ p ∈ (inlineArgs incS res as).1, LineProvenance w p := by
  induction as with
  | nil => intro p hp; simp [inlineArgs] at hp
  | cons a as ih =>
    intro p hp
    simp only [inlineArgs] at hp
    rcases seq_mem _ _ p hp with h | h
    · exact H _ p h
    · exact ih p h

theorem inlineLines_provenance (w : World) (incS : Str → Inlined) (file text : Str)
    (hread : w.read file = some text)
    (H : ∀ f, ∀ p ∈ (incS f).1, LineProvenance w p) (ls : List Str) :
    ∀ (pre : List Str) (n : Nat), lines text = pre ++ ls → n = pre.length + 1 →
      ∀ p ∈ (inlineLines w incS file n ls).1, LineProvenance w p := by
  induction ls with
  | nil => intro pre n _ _ p hp; simp [inlineLines] at hp
  | cons l ls ih =>
    intro pre n hl hn p hp
    simp only [inlineLines] at hp
    have hrest := ih (pre ++ [l]) (n + 1) (by simp [hl]) (by simp [hn])
    cases hd : w.directive l with
    | some args =>
      simp only [hd] at hp
      rcases seq_mem _ _ p hp with h | h
      · exact inlineArgs_provenance w incS _ H args p h
      · exact hrest p h
    | none =>
      simp only [hd] at hp
      rcases seq_mem _ _ p hp with h | h
      · simp at h
        subst h
        refine ⟨file, text, n, rfl, hread, by omega, ?_⟩
        rw [hl, hn]; simp
      · exact hrest p h

theorem inline_provenance (w : World) :
    ∀ (fuel : Nat) (file : Str), ∀ p ∈ (inline w fuel file).1, LineProvenance w p := by
  intro fuel
  induction fuel with
  | zero => intro file p hp; simp [Spec.inline] at hp
  | succ fuel ih =>
    intro file p hp
    rw [Spec.inline] at hp
    cases hr : w.read file with
    | none => simp [hr] at hp
    | some text =>
      simp only [hr] at hp
      exact inlineLines_provenance w (inline w fuel) file text hr ih (lines text) [] 1 (by simp)
        (by simp) p hp

/-! ### parseEach on well-formed / malformed lines -/

theorem parseEach_all_ok (ls : List (Meta × Str))
    (h : ∀ p ∈ ls, ∃ ty, lineOutcome p.2 = .ok ty) :
    ∃ is, parseEach ls = .ok is ∧ is.length = ls.length ∧
      ∀ k (h1 : k < is.length) (h2 : k < ls.length),
        (is[k]).mi = (ls[k]).1 ∧ lineOutcome (ls[k]).2 = .ok (is[k]).ty := by
  induction ls with
  | nil => exact ⟨[], rfl, rfl, by intro k h1; simp at h1⟩
  | cons x ls ih =>
    obtain ⟨m, l⟩ := x
    obtain ⟨ty, hty⟩ := h (m, l) (by simp)
    obtain ⟨r, hr, hlen, hk⟩ := ih (fun p hp => h p (by simp [hp]))
    refine ⟨⟨m, ty⟩ :: r, by simp [parseEach, hty, hr], by simp [hlen], ?_⟩
    intro k h1 h2
    cases k with
    | zero => exact ⟨rfl, hty⟩
    | succ k => simpa using hk k (by simpa using h1) (by simpa using h2)

theorem parseEach_first_error (pre post : List (Meta × Str)) (m : Meta) (bad : Str) (k : PErr)
    (hpre : ∀ p ∈ pre, ∃ ty, lineOutcome p.2 = .ok ty) (hbad : lineOutcome bad = .error k) :
    parseEach (pre ++ (m, bad) :: post) = .error ⟨k, m⟩ := by
  obtain ⟨is, his, _, _⟩ := parseEach_all_ok pre hpre
  rw [parseEach_append, his]
  simp [parseEach, hbad, seqE]


/-! ### small facts used by Props/C14.lean -/

/-- the instruction of an inlined line: its own parse with its provenance as meta info -/
def instrOf (p : Meta × Str) : Instruction :=
  ⟨p.1, match parseLine p.2 with
        | .ok ty => ty
        | .error _ => .empty⟩

theorem lineOutcome_ok (l : Str) (ty : InstrType) (h : lineOutcome l = .ok ty) :
    parseLine l = .ok ty := by
  unfold lineOutcome at h
  cases hp : parseLine l with
  | error k => rw [hp] at h; simp at h
  | ok t =>
    rw [hp] at h
    cases t with
    | empty => simpa using h
    | script s => simpa using h
    | preProcess c a =>
      cases c with
      | none => simp at h
      | some c =>
        by_cases h2 : c = printName
        · simpa [h2] using h
        · simp [h2] at h

theorem parseEach_map (ls : List (Meta × Str)) :
    ∀ is, parseEach ls = .ok is → is = ls.map instrOf := by
  induction ls with
  | nil => intro is h; simp [parseEach] at h; simp [h]
  | cons x ls ih =>
    obtain ⟨m, l⟩ := x
    intro is h
    simp only [parseEach] at h
    cases ho : lineOutcome l with
    | error k => simp [ho] at h
    | ok ty =>
      simp only [ho] at h
      cases hr : parseEach ls with
      | error e => simp [hr] at h
      | ok r =>
        simp only [hr, Except.ok.injEq] at h
        subst h
        simp [instrOf, lineOutcome_ok l ty ho, ih r hr]

theorem mapOk_error {α β : Type} (f : α → β) (x : Except ParseFail α) {e : ParseFail}
    (h : mapOk f x = .error e) : x = .error e := by
  cases x with
  | error e' => simpa [mapOk] using h
  | ok a => simp [mapOk] at h

theorem includeDirective_some (d : Str) (as : List Str) (h : includeDirective d = some as) :
    ∃ args, parseLine d = .ok (.preProcess (some includeName) args) ∧ args.getD [] = as := by
  unfold includeDirective at h
  cases hp : parseLine d with
  | error k => simp [hp] at h
  | ok t =>
    rw [hp] at h
    cases t with
    | empty => simp at h
    | script s => simp at h
    | preProcess c a =>
      cases c with
      | none => simp at h
      | some c =>
        by_cases h1 : c = includeName
        · subst h1; simp at h; exact ⟨a, rfl, h⟩
        · simp [h1] at h

theorem includeFiles_append_error (inc : Str → Except ParseFail (List Instruction)) (fs : Fs)
    (src : Option Str) (as bs : List Str) (a : Str) (e : ParseFail)
    (has : ∀ x ∈ as, ∃ is, inc (fs.resolve src x) = .ok is)
    (herr : inc (fs.resolve src a) = .error e) :
    includeFiles inc fs src (as ++ a :: bs) = .error e := by
  induction as with
  | nil => simp [includeFiles_cons_seq, herr, seqE]
  | cons x as ih =>
    obtain ⟨is, his⟩ := has x (by simp)
    rw [List.cons_append, includeFiles_cons_seq, his, ih (fun y hy => has y (by simp [hy]))]
    rfl


/-! ### rendered lines (for the examples of Props/C14.lean) -/

/-- an include directive as it is written: `!include_files` and the rendered arguments -/
def renderDirective (ch : List (Nat × Bool)) (args : List Str) : Str :=
  '!' :: (includeName ++ renderArgs ch 0 args)

theorem parseArgsLoop_after_command (ch : List (Nat × Bool)) (a : Str) (as : List Str) :
    parseArgsLoop false (spaces (argChoice ch 0).1 ++
      (renderArg (argChoice ch 0).2 a ++ renderArgs ch 1 as)) = .ok (a :: as) := by
  have ht : EolTail [] := EolTail.nil
  obtain ⟨r, hr, hcase⟩ := parseNextValue_renderArg (argChoice ch 0).2 a
    (renderArgs ch 1 as ++ []) (renderArgs_bnd ch 1 as ht)
  obtain ⟨t', ht', hat⟩ := afterTok_renderArgs ch 1 as ht
  have hlen : r.length ≤ (renderArgs ch 1 as ++ []).length := by
    rcases hcase with rfl | rfl
    · exact Nat.le_refl _
    · exact afterTok_length_le _
  have hrec : parseArgsLoop false r = .ok as := by
    rcases hcase with rfl | rfl
    · exact parseArgsLoop_render ch as 1 [] ht
    · rw [hat]; exact parseArgsLoop_render ch as 1 t' ht'
  simp only [List.append_nil] at hr hlen
  refine parseArgsLoop_step false _ r a as ?_ ?_ hrec
  · rw [parseNextValue_spaces]; exact hr
  · have hne := renderArg_ne_nil (argChoice ch 0).2 a
    have : 0 < (renderArg (argChoice ch 0).2 a).length := List.length_pos_iff.mpr hne
    simp only [List.length_append]
    omega

theorem ppCommand_word (w : Str) (x : Str) (hw : ∀ c ∈ w, c ≠ ' ') :
    ∀ acc, acc ++ w ≠ [] → ppCommand acc (w ++ ' ' :: x) = (acc ++ w, x) := by
  induction w with
  | nil =>
    intro acc hne
    have : acc.isEmpty = false := by
      cases acc with
      | nil => simp at hne
      | cons c r => rfl
    simp [ppCommand, this]
  | cons c w ih =>
    intro acc hne
    have hc : c ≠ ' ' := hw c (by simp)
    rw [List.cons_append, ppCommand]
    simp only [hc, if_false]
    rw [ih (fun d hd => hw d (by simp [hd])) (acc ++ [c]) (by simp)]
    simp

theorem ppCommand_include (x : Str) : ppCommand [] (includeName ++ ' ' :: x) = (includeName, x) := by
  have := ppCommand_word includeName x (by decide) [] (by decide)
  simpa using this

theorem parseLine_renderDirective (ch : List (Nat × Bool)) (a : Str) (as : List Str) :
    parseLine (renderDirective ch (a :: as)) =
      .ok (.preProcess (some includeName) (some (a :: as))) := by
  have hnt : NoTrail (renderDirective ch (a :: as)) := by
    have e : renderDirective ch (a :: as) = ('!' :: includeName) ++ renderArgs ch 0 (a :: as) := by
      simp [renderDirective]
    rw [e]
    refine NoTrail.append _ _ (noTrail_renderArgs ch (a :: as) 0) ?_
    rw [renderArgs_cons]; simp
  have htrim : trim (renderDirective ch (a :: as)) = '!' :: (includeName ++ renderArgs ch 0 (a :: as)) := by
    unfold trim
    have e : trimStart (renderDirective ch (a :: as)) = renderDirective ch (a :: as) :=
      trimStart_cons_nonws '!' _ (by decide)
    rw [e, hnt]
    rfl
  rw [parseLine_of_trim_bang _ _ htrim, renderArgs_cons]
  unfold parsePreProcessLine
  rw [ppCommand_include]
  have hne : includeName.isEmpty = false := by decide
  simp only [hne]
  have := parseArguments_of_loop _ (some (a :: as)) (by simp) (parseArgsLoop_after_command ch a as)
  simp [this]

theorem directive_facts (ch : List (Nat × Bool)) (a : Str) (as : List Str) :
    includeDirective (renderDirective ch (a :: as)) = some (a :: as) := by
  unfold includeDirective
  rw [parseLine_renderDirective]
  simp

theorem plain_line_facts (ch : Choices) (i : ScriptInstr) (hi : InstrOK i) (hc : ChoicesOK ch) :
    includeDirective (renderLine ch i) = none ∧ lineOutcome (renderLine ch i) = .ok (expected i) := by
  have h := line_roundtrip ch i hi hc
  unfold includeDirective lineOutcome
  rw [h]
  unfold expected
  by_cases hE : (i.label.isNone ∧ i.output.isNone ∧ i.command.isNone)
  · rw [if_pos hE]; exact ⟨rfl, rfl⟩
  · rw [if_neg hE]; exact ⟨rfl, rfl⟩

end Duck
