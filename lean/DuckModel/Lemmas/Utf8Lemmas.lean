/-
  Facts about the UTF-8 encoder model: shape of an encoded scalar, and
  "a character boundary of the encoded text splits the scalars".
-/
import DuckModel.Sdk.Utf8

namespace Duck

theorem utf8Encode_nil : utf8Encode [] = [] := rfl

theorem utf8Encode_cons (c : Char) (s : List Char) :
    utf8Encode (c :: s) = utf8EncodeChar c ++ utf8Encode s := by
  simp [utf8Encode]

theorem utf8Encode_append (a b : List Char) :
    utf8Encode (a ++ b) = utf8Encode a ++ utf8Encode b := by
  simp [utf8Encode]

/-- an encoded scalar is a leading (non-continuation) byte followed by continuation bytes -/
theorem utf8EncodeChar_shape (c : Char) :
    ∃ lead rest, utf8EncodeChar c = lead :: rest ∧ isCont lead = false ∧
      ∀ x ∈ rest, isCont x = true := by
  unfold utf8EncodeChar
  simp only
  split
  · refine ⟨_, _, rfl, ?_, ?_⟩
    · (simp [isCont] <;> omega)
    · simp
  · split
    · refine ⟨_, _, rfl, ?_, ?_⟩
      · (simp [isCont] <;> omega)
      · intro x hx
        simp at hx
        subst hx
        (simp [isCont] <;> omega)
    · split
      · refine ⟨_, _, rfl, ?_, ?_⟩
        · (simp [isCont] <;> omega)
        · intro x hx
          simp at hx
          rcases hx with hx | hx <;> subst hx <;> simp [isCont] <;> omega
      · refine ⟨_, _, rfl, ?_, ?_⟩
        · (simp [isCont] <;> omega)
        · intro x hx
          simp at hx
          rcases hx with hx | hx | hx <;> subst hx <;> simp [isCont] <;> omega

theorem utf8EncodeChar_nonempty (c : Char) : utf8EncodeChar c ≠ [] := by
  obtain ⟨l, r, h, _, _⟩ := utf8EncodeChar_shape c
  simp [h]

theorem utf8Encode_eq_nil {s : List Char} (h : utf8Encode s = []) : s = [] := by
  cases s with
  | nil => rfl
  | cons c r =>
    rw [utf8Encode_cons] at h
    have := utf8EncodeChar_nonempty c
    simp_all

/-- the first byte of a non-empty encoded text is not a continuation byte -/
theorem utf8Encode_head_not_cont {s : List Char} (h : s ≠ []) :
    ∃ x r, utf8Encode s = x :: r ∧ isCont x = false := by
  cases s with
  | nil => exact absurd rfl h
  | cons c t =>
    obtain ⟨l, r, hc, hl, _⟩ := utf8EncodeChar_shape c
    exact ⟨l, r ++ utf8Encode t, by rw [utf8Encode_cons, hc]; rfl, hl⟩

theorem isBoundary_zero (b : Bytes) : isBoundary b 0 = true := by simp [isBoundary]

theorem isBoundary_length (b : Bytes) : isBoundary b b.length = true := by simp [isBoundary]

theorem isBoundary_le_length {b : Bytes} {i : Nat} (h : isBoundary b i = true) : i ≤ b.length := by
  unfold isBoundary at h
  simp only [Bool.or_eq_true, beq_iff_eq] at h
  rcases h with (h | h) | h
  · omega
  · omega
  · cases hx : b[i]? with
    | none => simp [hx] at h
    | some x =>
      have := (List.getElem?_eq_some_iff.mp hx).1
      omega

/-- a character boundary of the encoded text is the end of the encoding of a prefix of the
    scalars: slicing at boundaries never cuts a scalar -/
theorem boundary_split : ∀ (s : List Char) (i : Nat), isBoundary (utf8Encode s) i = true →
    ∃ p q, s = p ++ q ∧ (utf8Encode p).length = i := by
  intro s
  induction s with
  | nil =>
    intro i h
    have := isBoundary_le_length h
    simp [utf8Encode_nil] at this
    exact ⟨[], [], rfl, by simp [utf8Encode_nil, this]⟩
  | cons c r ih =>
    intro i h
    obtain ⟨l, rest, hc, hl, hrest⟩ := utf8EncodeChar_shape c
    by_cases h0 : i = 0
    · exact ⟨[], c :: r, rfl, by simp [utf8Encode_nil, h0]⟩
    · by_cases hlt : i < (utf8EncodeChar c).length
      · -- inside the encoding of `c`: the byte is a continuation byte
        exfalso
        have hle := isBoundary_le_length h
        unfold isBoundary at h
        rw [utf8Encode_cons] at h hle
        have hne : i ≠ (utf8EncodeChar c ++ utf8Encode r).length := by
          simp only [List.length_append]; omega
        rw [List.getElem?_append_left hlt] at h
        rw [hc] at h hlt
        obtain ⟨j, hj⟩ : ∃ j, i = j + 1 := ⟨i - 1, by omega⟩
        subst hj
        simp only [List.length_cons] at hlt
        have hj' : j < rest.length := by omega
        simp only [List.getElem?_cons_succ] at h
        rw [List.getElem?_eq_getElem hj'] at h
        have hm := hrest _ (List.getElem_mem hj')
        simp [hm] at h
        omega
      · -- at or after the end of `c`
        have hge : (utf8EncodeChar c).length ≤ i := by omega
        have hb : isBoundary (utf8Encode r) (i - (utf8EncodeChar c).length) = true := by
          unfold isBoundary at h ⊢
          rw [utf8Encode_cons] at h
          rw [List.getElem?_append_right hge] at h
          simp only [Bool.or_eq_true, beq_iff_eq, List.length_append] at h ⊢
          rcases h with (h | h) | h
          · omega
          · left; right; omega
          · right; exact h
        obtain ⟨p, q, hpq, hlen⟩ := ih _ hb
        refine ⟨c :: p, q, by simp [hpq], ?_⟩
        rw [utf8Encode_cons, List.length_append, hlen]
        omega

end Duck
