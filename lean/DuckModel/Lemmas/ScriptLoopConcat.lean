/-
  `concat` (std/string/concat/script.ds) run from source, for every argument list: the loop
  invariant of its `for arg in ${arguments}` loop and the closed form of the run.
-/
import DuckModel.Lemmas.ScriptLoopLemmas

namespace Duck.ScriptRun
open Duck Duck.Alias Duck.Coll Duck.Spec Duck.Generated

def cScope : Str := "scope::concat".toList
def cOut : Str := "scope::concat::output".toList
def cArg : Str := "scope::concat::arg".toList
def cArgs : Str := "scope::concat::arguments".toList

/-- the parse of concat/script.ds -/
def concatIs : List Instruction :=
  [emptyI 1,
   mkI 2 (some cOut) "set" (some [[]]),
   mkI 3 none "for" (some [[.lit cArg], [.lit "in".toList], [.var cArgs]]),
   mkI 4 (some cOut) "set" (some [[.var cOut, .var cArg]]),
   mkI 5 none "end" none,
   emptyI 6,
   mkI 7 none "set" (some [[.var cOut]])]

theorem concat_parses : parseText cmd_string_concat.script = .ok concatIs :=
  parsesTo_eq (by decide +kernel)

theorem concat_find : findCommands forTables concatIs (2 + 1) = .ok ⟨[], 4⟩ := findsTo_eq (by decide +kernel)

/-- what the loop keeps true of the variables: accumulator, the handle of the argument array,
    nothing outside the scope prefix touched -/
structure CInv (vars0 vars : Vars) (acc h : Str) : Prop where
  out : vars.get cOut = some acc
  args : (vars.get cArgs).getD [] = h
  clr : clear cScope vars = clear cScope vars0

theorem cOut_under : underPrefix cScope cOut = true := by decide
theorem cArg_under : underPrefix cScope cArg = true := by decide

/-- from the loop body (line 3) with the current cell in `arg` and the entry at the next iteration
    to the line after `end` (line 5), entry popped: 3 instructions per cell that is left -/
theorem concat_loop (F d : Nat) (s : ScriptSt) (h : Str) (L : List Item)
    (hctx : s.ctx = cScope) (hend : s.endTable.get (flowKey s 4) = some fullNameEndForIn)
    (hL : tget s.coll.tbl h = some (.list L)) (vars0 : Vars) :
    ∀ (rem pre : List Item) (x : Item) (acc : Str) (vars : Vars) (poll : Nat) (fo : Option Str) (fuel : Nat),
      L = pre ++ x :: rem → CInv vars0 vars acc h → vars.get cArg = some x.render →
      ∃ vars' poll' fo',
        evalInstructions (bodySem F (d + 1) concatIs) (fun _ => false) concatIs (fuel + 3 * rem.length + 3) 3 poll fo vars
          { s with forStack := ⟨pre.length + 1, 2, 4, cScope⟩ :: s.forStack } =
        evalInstructions (bodySem F (d + 1) concatIs) (fun _ => false) concatIs fuel 5 poll' fo' vars' s ∧
        CInv vars0 vars' (acc ++ x.render ++ (rem.map Item.render).flatten) h := by
  intro rem
  induction rem with
  | nil =>
    intro pre x acc vars poll fo fuel hLe hinv hx
    -- line 3: set "${output}${arg}"
    have hb3 : bind vars ((some [[Seg.var cOut, Seg.var cArg]]).map fun a => a.map renderTemplate) = [acc ++ x.render] := by
      rw [bind_mk vars _ (by decide)]
      simp [tmplValue, Seg.value, hinv.out, hx]
    have e3 := eval_native_continue F (d + 1) concatIs (fuel + 2) 3 poll fo vars
      { s with forStack := ⟨pre.length + 1, 2, 4, cScope⟩ :: s.forStack } _ _ "set".toList .set
      (show concatIs[3]? = some (mkI 4 (some cOut) "set" (some [[.var cOut, .var cArg]])) from rfl) rfl fs_set rn_set
      _ hb3 (some (acc ++ x.render)) vars _ rfl
    -- line 4: end
    have e4 := eval_flow_goto F d concatIs (fuel + 1) 4 (poll + 1) (some (acc ++ x.render))
      (Vars.updateOutput vars (some cOut) (some (acc ++ x.render)))
      { s with forStack := ⟨pre.length + 1, 2, 4, cScope⟩ :: s.forStack } _ _ "end".toList .endC
      (show concatIs[4]? = some (mkI 5 none "end" none) from rfl) rfl fs_end rn_end rf_end
      [] rfl none _ _ 2
      (runEnd_for _ _ 4 _ _ ⟨pre.length + 1, 2, 4, cScope⟩ s.forStack hend rfl rfl hctx.symm)
    -- line 2: for, no cell left
    have hargs : ((Vars.updateOutput vars (some cOut) (some (acc ++ x.render))).get cArgs).getD [] = h := by
      simp only [Vars.updateOutput, get_set]
      rw [if_neg (by decide)]; exact hinv.args
    have hb2 : bind (Vars.updateOutput vars (some cOut) (some (acc ++ x.render)))
        ((some [[Seg.lit cArg], [Seg.lit "in".toList], [Seg.var cArgs]]).map fun a => a.map renderTemplate) =
        [cArg, "in".toList, h] := by
      rw [bind_mk _ _ (by decide)]
      simp [tmplValue, Seg.value, hargs]
    have hnext : nextIteration { s with forStack := ⟨pre.length + 1, 2, 4, cScope⟩ :: s.forStack } h (pre.length + 1) = none := by
      simp [nextIteration, hL, hLe]
    have hfor := runFor_resume (nestedOf (bodySem F d) F) concatIs 1 cArg h 2
      (Vars.updateOutput vars (some cOut) (some (acc ++ x.render)))
      { s with forStack := ⟨pre.length + 1, 2, 4, cScope⟩ :: s.forStack } ⟨pre.length + 1, 2, 4, cScope⟩ s.forStack
      rfl rfl hctx.symm
    rw [hnext] at hfor
    have e2 := eval_flow_goto F d concatIs fuel 2 (poll + 1 + 1) none
      (Vars.updateOutput vars (some cOut) (some (acc ++ x.render)))
      { s with forStack := ⟨pre.length + 1, 2, 4, cScope⟩ :: s.forStack } _ _ "for".toList .forIn
      (show concatIs[2]? = some (mkI 3 none "for" (some [[.lit cArg], [.lit "in".toList], [.var cArgs]])) from rfl)
      rfl fs_for rn_for rf_for _ hb2 none _ _ 5 hfor
    refine ⟨Vars.updateOutput vars (some cOut) (some (acc ++ x.render)), poll + 1 + 1 + 1, none, ?_, ?_⟩
    · show evalInstructions _ _ _ (fuel + 2 + 1) 3 poll fo vars _ = _
      rw [e3, e4, e2]
    · refine ⟨by simp [Vars.updateOutput, get_set], hargs, ?_⟩
      rw [show Vars.updateOutput vars (some cOut) (some (acc ++ x.render)) = vars.set cOut (acc ++ x.render) from rfl,
        clear_set_under _ _ _ _ cOut_under]
      exact hinv.clr
  | cons y rem ih =>
    intro pre x acc vars poll fo fuel hLe hinv hx
    have hb3 : bind vars ((some [[Seg.var cOut, Seg.var cArg]]).map fun a => a.map renderTemplate) = [acc ++ x.render] := by
      rw [bind_mk vars _ (by decide)]
      simp [tmplValue, Seg.value, hinv.out, hx]
    have e3 := eval_native_continue F (d + 1) concatIs (fuel + 3 * rem.length + 3 + 2) 3 poll fo vars
      { s with forStack := ⟨pre.length + 1, 2, 4, cScope⟩ :: s.forStack } _ _ "set".toList .set
      (show concatIs[3]? = some (mkI 4 (some cOut) "set" (some [[.var cOut, .var cArg]])) from rfl) rfl fs_set rn_set
      _ hb3 (some (acc ++ x.render)) vars _ rfl
    have e4 := eval_flow_goto F d concatIs (fuel + 3 * rem.length + 3 + 1) 4 (poll + 1) (some (acc ++ x.render))
      (Vars.updateOutput vars (some cOut) (some (acc ++ x.render)))
      { s with forStack := ⟨pre.length + 1, 2, 4, cScope⟩ :: s.forStack } _ _ "end".toList .endC
      (show concatIs[4]? = some (mkI 5 none "end" none) from rfl) rfl fs_end rn_end rf_end
      [] rfl none _ _ 2
      (runEnd_for _ _ 4 _ _ ⟨pre.length + 1, 2, 4, cScope⟩ s.forStack hend rfl rfl hctx.symm)
    have hargs : ((Vars.updateOutput vars (some cOut) (some (acc ++ x.render))).get cArgs).getD [] = h := by
      simp only [Vars.updateOutput, get_set]
      rw [if_neg (by decide)]; exact hinv.args
    have hb2 : bind (Vars.updateOutput vars (some cOut) (some (acc ++ x.render)))
        ((some [[Seg.lit cArg], [Seg.lit "in".toList], [Seg.var cArgs]]).map fun a => a.map renderTemplate) =
        [cArg, "in".toList, h] := by
      rw [bind_mk _ _ (by decide)]
      simp [tmplValue, Seg.value, hargs]
    have hnext : nextIteration { s with forStack := ⟨pre.length + 1, 2, 4, cScope⟩ :: s.forStack } h (pre.length + 1) =
        some y.render := by
      simp [nextIteration, hL, hLe]
    have hfor := runFor_resume (nestedOf (bodySem F d) F) concatIs 1 cArg h 2
      (Vars.updateOutput vars (some cOut) (some (acc ++ x.render)))
      { s with forStack := ⟨pre.length + 1, 2, 4, cScope⟩ :: s.forStack } ⟨pre.length + 1, 2, 4, cScope⟩ s.forStack
      rfl rfl hctx.symm
    rw [hnext] at hfor
    have e2 := eval_flow_continue F d concatIs (fuel + 3 * rem.length + 3) 2 (poll + 1 + 1) none
      (Vars.updateOutput vars (some cOut) (some (acc ++ x.render)))
      { s with forStack := ⟨pre.length + 1, 2, 4, cScope⟩ :: s.forStack } _ _ "for".toList .forIn
      (show concatIs[2]? = some (mkI 3 none "for" (some [[.lit cArg], [.lit "in".toList], [.var cArgs]])) from rfl)
      rfl fs_for rn_for rf_for _ hb2 none _ _ hfor
    have hinv' : CInv vars0 (((Vars.updateOutput vars (some cOut) (some (acc ++ x.render))).set cArg y.render).updateOutput none none)
        (acc ++ x.render) h := by
      refine ⟨?_, ?_, ?_⟩
      · simp only [Vars.updateOutput, get_set]
        rw [if_neg (by decide)]; simp
      · simp only [Vars.updateOutput, get_set]
        rw [if_neg (by decide), if_neg (by decide)]; exact hinv.args
      · simp only [Vars.updateOutput]
        rw [clear_set_under _ _ _ _ cArg_under, clear_set_under _ _ _ _ cOut_under]
        exact hinv.clr
    obtain ⟨vars', poll', fo', hrun, hfin⟩ := ih (pre ++ [x]) y (acc ++ x.render) _ (poll + 1 + 1 + 1) none fuel
      (by rw [hLe]; simp) hinv' (by simp [Vars.updateOutput, get_set])
    refine ⟨vars', poll', fo', ?_, ?_⟩
    · show evalInstructions _ _ _ (fuel + 3 * (rem.length + 1) + 3) 3 poll fo vars _ = _
      rw [show fuel + 3 * (rem.length + 1) + 3 = fuel + 3 * rem.length + 3 + 2 + 1 by omega, e3, e4, e2]
      rw [← hrun]
      simp [List.length_append]
    · simpa [List.append_assoc] using hfin

/-- lines 5-7: the result is the accumulator -/
theorem concat_tail (F d : Nat) (s : ScriptSt) (vars : Vars) (acc : Str) (hout : vars.get cOut = some acc)
    (fuel poll : Nat) (fo : Option Str) :
    evalInstructions (bodySem F (d + 1) concatIs) (fun _ => false) concatIs (fuel + 3) 5 poll fo vars s =
      some (.finished (some acc), vars, s) := by
  rw [eval_skip _ _ _ 5 _ _ _ _ _ (show concatIs[5]? = some (emptyI 6) from rfl) rfl]
  have hb : bind vars ((some [[Seg.var cOut]]).map fun a => a.map renderTemplate) = [acc] := by
    rw [bind_mk vars _ (by decide)]
    simp [tmplValue, Seg.value, hout]
  rw [eval_native_continue F (d + 1) concatIs (fuel + 1) 6 (poll + 1) fo vars s _ _ "set".toList .set
    (show concatIs[6]? = some (mkI 7 none "set" (some [[.var cOut]])) from rfl) rfl fs_set rn_set
    _ hb (some acc) vars s rfl]
  rw [eval_end _ _ _ 7 _ _ _ _ rfl]
  rfl

/-- the state a `concat` body leaves: the block end of its `for` line cached, the `end` table
    written -/
def cAfter (s : ScriptSt) : ScriptSt :=
  { s with forMeta := forMetaAfter s.forMeta (flowKey s 2) 4,
           endTable := s.endTable.put (flowKey s 4) fullNameEndForIn }

/-- the whole body: `3·n + 6` instructions for `n` cells -/
theorem concat_body (F d : Nat) (s : ScriptSt) (vars : Vars) (L : List Item)
    (hctx : s.ctx = cScope) (hstale : NoStaleFor cScope s.forStack)
    (hcache : CacheOK s.forMeta (flowKey s 2) 4)
    (hL : match tget s.coll.tbl ((vars.get cArgs).getD []) with
          | some (.list l) => l = L
          | _ => L = [])
    (fuel : Nat) :
    ∃ vars', scriptBody (bodySem F (d + 1) concatIs) (fun _ => false) (fuel + 3 * L.length + 6) concatIs vars s =
        (.finished (some (L.map Item.render).flatten), vars', cAfter s) ∧
      clear cScope vars' = clear cScope vars := by
  unfold scriptBody
  rw [show fuel + 3 * L.length + 6 = fuel + 3 * L.length + 5 + 1 by omega,
    eval_skip _ _ _ 0 _ _ _ _ _ (show concatIs[0]? = some (emptyI 1) from rfl) rfl]
  -- line 1: output = set ""
  have hb1 : bind vars ((some [([] : List Seg)]).map fun a => a.map renderTemplate) = [[]] := by
    rw [bind_mk vars _ (by decide)]; rfl
  rw [show fuel + 3 * L.length + 5 = fuel + 3 * L.length + 4 + 1 by omega,
    eval_native_continue F (d + 1) concatIs _ 1 _ none vars s _ _ "set".toList .set
    (show concatIs[1]? = some (mkI 2 (some cOut) "set" (some [[]])) from rfl) rfl fs_set rn_set
    _ hb1 (some []) vars s rfl]
  -- line 2: the first `for`
  have hargs : ((Vars.updateOutput vars (some cOut) (some [])).get cArgs).getD [] = (vars.get cArgs).getD [] := by
    simp only [Vars.updateOutput, get_set]
    rw [if_neg (by decide)]
  have hb2 : bind (Vars.updateOutput vars (some cOut) (some []))
      ((some [[Seg.lit cArg], [Seg.lit "in".toList], [Seg.var cArgs]]).map fun a => a.map renderTemplate) =
      [cArg, "in".toList, (vars.get cArgs).getD []] := by
    rw [bind_mk _ _ (by decide)]
    simp [tmplValue, Seg.value, hargs]
  have hfor := runFor_first (nestedOf (bodySem F d) F) concatIs 1 cArg ((vars.get cArgs).getD []) 2 4
    (Vars.updateOutput vars (some cOut) (some [])) s
    (by rw [hctx]; exact popFor_noStale 2 cScope s.forStack hstale) concat_find hcache
  have hclr1 : clear cScope (Vars.updateOutput vars (some cOut) (some [])) = clear cScope vars :=
    clear_set_under _ _ _ _ cOut_under
  cases L with
  | nil =>
    have hnext : nextIteration s ((vars.get cArgs).getD []) 0 = none := by
      unfold nextIteration
      cases hv : tget s.coll.tbl ((vars.get cArgs).getD []) with
      | none => rfl
      | some v =>
        rw [hv] at hL
        cases v with
        | list l => simp at hL; subst hL; rfl
        | _ => rfl
    rw [hnext] at hfor
    rw [show fuel + 3 * ([] : List Item).length + 4 = fuel + 3 + 1 by simp,
      eval_flow_goto F d concatIs _ 2 _ _ _ s _ _ "for".toList .forIn
      (show concatIs[2]? = some (mkI 3 none "for" (some [[.lit cArg], [.lit "in".toList], [.var cArgs]])) from rfl)
      rfl fs_for rn_for rf_for _ hb2 none _ _ 5 hfor]
    rw [concat_tail F d _ _ [] (by simp [Vars.updateOutput, get_set])]
    exact ⟨_, rfl, hclr1⟩
  | cons x rem =>
    have hv : tget s.coll.tbl ((vars.get cArgs).getD []) = some (.list (x :: rem)) := by
      cases hv : tget s.coll.tbl ((vars.get cArgs).getD []) with
      | none => rw [hv] at hL; cases hL
      | some v =>
        rw [hv] at hL
        cases v with
        | list l => simp at hL; subst hL; rfl
        | _ => cases hL
    have hnext : nextIteration s ((vars.get cArgs).getD []) 0 = some x.render := by
      simp [nextIteration, hv]
    rw [hnext] at hfor
    rw [show fuel + 3 * (x :: rem).length + 4 = fuel + 3 + 3 * rem.length + 3 + 1 by simp; omega,
      eval_flow_continue F d concatIs _ 2 _ _ _ s _ _ "for".toList .forIn
      (show concatIs[2]? = some (mkI 3 none "for" (some [[.lit cArg], [.lit "in".toList], [.var cArgs]])) from rfl)
      rfl fs_for rn_for rf_for _ hb2 none _ _ hfor]
    obtain ⟨vars', poll', fo', hrun, hfin⟩ := concat_loop F d (cAfter s) ((vars.get cArgs).getD []) (x :: rem)
      hctx (by simp [cAfter, flowKey, KV.get_put]) hv vars rem [] x [] _ (0 + 1 + 1 + 1) none (fuel + 3)
      rfl
      (show CInv vars (((Vars.updateOutput vars (some cOut) (some [])).set cArg x.render).updateOutput none none) []
          ((vars.get cArgs).getD []) from
        ⟨by simp only [Vars.updateOutput, get_set]; rw [if_neg (by decide)]; simp,
         by simp only [Vars.updateOutput, get_set]; rw [if_neg (by decide), if_neg (by decide)],
         by simp only [Vars.updateOutput]
            rw [clear_set_under _ _ _ _ cArg_under]; exact hclr1⟩)
      (by simp [Vars.updateOutput, get_set])
    have hrun' := hrun
    simp only [List.length_nil, Nat.zero_add, cAfter, hctx] at hrun' ⊢
    rw [hrun', concat_tail F d _ _ _ hfin.out]
    refine ⟨vars', ?_, hfin.clr⟩
    simp

/-! ### the whole call -/

theorem concat_findScript : findScript "concat".toList = some cmd_string_concat := by rfl

/-- the state a call of `concat` ends in -/
def cFinal (args : List Str) (st : ScriptSt) : ScriptSt :=
  { st with
    coll := { tbl := if args = [] then st.coll.tbl else
                tremove (tinsert st.coll.tbl (Coll.handleName st.coll.next) (.list (args.map .str))) (Coll.handleName st.coll.next),
              next := if args = [] then st.coll.next else st.coll.next + 1 },
    forMeta := forMetaAfter st.forMeta "scope::concat::2".toList 4,
    endTable := st.endTable.put "scope::concat::4".toList fullNameEndForIn }

theorem concat_alias (F depth fuel : Nat) (args : List Str) (vars : Vars) (st : ScriptSt)
    (hstale : NoStaleFor cScope st.forStack)
    (hcache : CacheOK st.forMeta "scope::concat::2".toList 4)
    (hempty : args = [] → ∀ l, tget st.coll.tbl ((vars.get cArgs).getD []) ≠ some (.list l)) :
    aliasRun handleOps 0 (scriptBody (bodySem F (depth + 1) concatIs) (fun _ => false)
      (fuel + 3 * args.length + 6) concatIs) cScope args vars st =
      (.continue (some args.flatten), clear cScope vars, cFinal args st) := by
  cases args with
  | nil =>
    have hL : match tget st.coll.tbl ((vars.get cArgs).getD []) with
          | some (.list l) => l = ([] : List Item)
          | _ => ([] : List Item) = [] := by
      cases hv : tget st.coll.tbl ((vars.get cArgs).getD []) with
      | none => rfl
      | some v =>
        cases v with
        | list l => exact absurd hv (hempty rfl l)
        | _ => rfl
    obtain ⟨vars', hrun, hclr⟩ := concat_body F depth { st with ctx := cScope } vars []
      rfl hstale hcache hL fuel
    simp only [List.length_nil] at hrun ⊢
    rw [aliasRun_handleOps_nil _ cScope vars st _ _ _ hrun hclr]
    rfl
  | cons a rest =>
    have hargs : (Vars.get (pubVars cScope (a :: rest) vars st) cArgs).getD [] = Coll.handleName st.coll.next := by
      unfold pubVars
      rw [get_set, if_pos (by decide)]; rfl
    have hL : match tget (pubSt cScope (a :: rest) st).coll.tbl ((Vars.get (pubVars cScope (a :: rest) vars st) cArgs).getD []) with
          | some (.list l) => l = (a :: rest).map Item.str
          | _ => (a :: rest).map Item.str = [] := by
      rw [hargs]
      simp only [pubSt, tget_tinsert, if_true]
    obtain ⟨vars', hrun, hclr⟩ := concat_body F depth (pubSt cScope (a :: rest) st)
      (pubVars cScope (a :: rest) vars st) ((a :: rest).map Item.str) rfl hstale hcache hL fuel
    rw [List.length_map] at hrun
    rw [aliasRun_handleOps 0 _ cScope (a :: rest) vars st (by simp) (by simp) _ _ _ hrun hclr]
    have hmap : ((a :: rest).map Item.str).map Item.render = a :: rest := by
      simp [Item.render, Function.comp_def]
    rw [hmap]
    rfl

/-- the closed form of `concat` run from source (hypotheses: see `C12_script_concat_correct`) -/
theorem concat_runF (depth fuel : Nat) (args : List Str) (vars : Vars) (st : ScriptSt)
    (hstale : NoStaleFor cScope st.forStack)
    (hcache : CacheOK st.forMeta "scope::concat::2".toList 4)
    (hempty : args = [] → ∀ l, tget st.coll.tbl ((vars.get cArgs).getD []) ≠ some (.list l)) :
    runScriptCmdF (depth + 1) (fuel + 3 * args.length + 6) "concat".toList args vars st =
      (.continue (some args.flatten), clear cScope vars, cFinal args st) := by
  rw [runScriptCmdF_entry (depth + 1) _ "concat".toList cmd_string_concat _ concat_findScript concat_parses]
  exact concat_alias _ depth fuel args vars st hstale hcache hempty

end Duck.ScriptRun
