/-
  Lemmas about the file-tree model (C18): association-list entries, lookup after
  putAt / mkdirs / removeAt.
-/
import DuckModel.Sdk.FsTree

namespace Duck.FsTree
open Duck

/-! ### entries -/

theorem Entries.get_put_self : ∀ (es : Entries) (c : Str) (v : Node), (es.put c v).get c = some v
  | .nil, c, v => by simp [Entries.put, Entries.get]
  | .cons n x r, c, v => by
    by_cases h : n = c
    · simp [Entries.put, Entries.get, h]
    · simp [Entries.put, Entries.get, h, Entries.get_put_self r c v]

theorem Entries.get_put_ne : ∀ (es : Entries) {c d : Str} (v : Node), d ≠ c →
    (es.put c v).get d = es.get d
  | .nil, c, d, v, h => by simp [Entries.put, Entries.get, Ne.symm h]
  | .cons n x r, c, d, v, h => by
    by_cases hn : n = c
    · subst hn
      simp [Entries.put, Entries.get, Ne.symm h]
    · by_cases hd : n = d
      · subst hd
        simp [Entries.put, Entries.get, h]
      · simp [Entries.put, Entries.get, hn, hd, Entries.get_put_ne r v h]

theorem Entries.get_erase_self : ∀ (es : Entries) (c : Str), (es.erase c).get c = none
  | .nil, c => by simp [Entries.erase, Entries.get]
  | .cons n x r, c => by
    by_cases h : n = c
    · simp [Entries.erase, h, Entries.get_erase_self r c]
    · simp [Entries.erase, Entries.get, h, Entries.get_erase_self r c]

theorem Entries.get_erase_ne : ∀ (es : Entries) {c d : Str}, d ≠ c →
    (es.erase c).get d = es.get d
  | .nil, c, d, h => by simp [Entries.erase, Entries.get]
  | .cons n x r, c, d, h => by
    by_cases hn : n = c
    · subst hn
      simp [Entries.erase, Entries.get, Ne.symm h, Entries.get_erase_ne r h]
    · by_cases hd : n = d
      · subst hd
        simp [Entries.erase, Entries.get, h]
      · simp [Entries.erase, Entries.get, hn, hd, Entries.get_erase_ne r h]

theorem Entries.put_put : ∀ (es : Entries) (c : Str) (a b : Node), (es.put c a).put c b = es.put c b
  | .nil, c, a, b => by simp [Entries.put]
  | .cons n x r, c, a, b => by
    by_cases h : n = c
    · simp [Entries.put, h]
    · simp [Entries.put, h, Entries.put_put r c a b]

theorem Entries.put_get_id : ∀ (es : Entries) (c : Str) (v : Node), es.get c = some v →
    es.put c v = es
  | .nil, c, v, h => by simp [Entries.get] at h
  | .cons n x r, c, v, h => by
    by_cases hn : n = c
    · simp [Entries.get, hn] at h
      simp [Entries.put, hn, h]
    · simp [Entries.get, hn] at h
      simp [Entries.put, hn, Entries.put_get_id r c v h]

theorem Entries.erase_missing : ∀ (es : Entries) (c : Str), es.get c = none → es.erase c = es
  | .nil, c, h => rfl
  | .cons n x r, c, h => by
    by_cases hn : n = c
    · simp [Entries.get, hn] at h
    · simp [Entries.get, hn] at h
      simp [Entries.erase, hn, Entries.erase_missing r c h]

/-! ### lookup -/

@[simp] theorem lookup_nil (t : Node) : lookup t [] = some t := by
  cases t <;> rfl

@[simp] theorem lookup_file_cons (b : Bytes) (c : Str) (cs : List Str) :
    lookup (.file b) (c :: cs) = none := rfl

theorem lookup_dir_cons (es : Entries) (c : Str) (cs : List Str) :
    lookup (.dir es) (c :: cs) = (es.get c).bind fun ch => lookup ch cs := by
  simp only [lookup]
  cases es.get c <;> rfl

theorem lookup_append (t : Node) (p r : List Str) :
    lookup t (p ++ r) = (lookup t p).bind fun n => lookup n r := by
  induction p generalizing t with
  | nil => simp
  | cons c cs ih =>
    cases t with
    | file b => simp
    | dir es =>
      simp only [List.cons_append, lookup_dir_cons]
      cases es.get c with
      | none => rfl
      | some ch => simpa using ih ch

theorem lookup_prefix_dir {t : Node} {p r : List Str} {n : Node}
    (h : lookup t (p ++ r) = some n) (hr : r ≠ []) : ∃ es, lookup t p = some (.dir es) := by
  rw [lookup_append] at h
  cases hp : lookup t p with
  | none => simp [hp] at h
  | some m =>
    cases m with
    | dir es => exact ⟨es, rfl⟩
    | file b =>
      cases r with
      | nil => exact absurd rfl hr
      | cons x xs => simp [hp] at h

/-! ### wrap -/

theorem lookup_wrap (p : List Str) (new : Node) (r : List Str) :
    lookup (wrap p new) (p ++ r) = lookup new r := by
  induction p with
  | nil => rfl
  | cons c cs ih => simp [wrap, lookup_dir_cons, Entries.get, ih]

theorem lookup_wrap_incomp (p : List Str) (new : Node) (q : List Str)
    (h1 : ¬ q <+: p) (h2 : ¬ p <+: q) : lookup (wrap p new) q = none := by
  induction p generalizing q with
  | nil => exact absurd (List.nil_prefix) h2
  | cons c cs ih =>
    cases q with
    | nil => exact absurd (List.nil_prefix) h1
    | cons d qs =>
      simp only [wrap, lookup_dir_cons, Entries.get]
      by_cases hcd : c = d
      · subst hcd
        simp only [List.cons_prefix_cons, true_and] at h1 h2
        simpa using ih qs h1 h2
      · simp [hcd]

theorem lookup_wrap_prefix (p : List Str) (new : Node) (q : List Str)
    (h1 : q <+: p) (h2 : q ≠ p) : ∃ es, lookup (wrap p new) q = some (.dir es) := by
  induction p generalizing q with
  | nil => exact absurd (List.prefix_nil.mp h1) h2
  | cons c cs ih =>
    cases q with
    | nil => exact ⟨_, rfl⟩
    | cons d qs =>
      rw [List.cons_prefix_cons] at h1
      obtain ⟨hd, hq⟩ := h1
      subst hd
      have hne : qs ≠ cs := fun e => h2 (by rw [e])
      obtain ⟨es, he⟩ := ih qs hq hne
      exact ⟨es, by simp [wrap, lookup_dir_cons, Entries.get, he]⟩

/-! ### putAt -/

theorem putAt_dir_cons (es : Entries) (c : Str) (cs : List Str) (new : Node) :
    putAt (.dir es) (c :: cs) new =
      match es.get c with
      | none => some (.dir (es.put c (wrap cs new)))
      | some ch =>
        match putAt ch cs new with
        | none => none
        | some ch' => some (.dir (es.put c ch')) := by
  simp only [putAt]
  cases es.get c with
  | none => rfl
  | some ch => simp only []; cases putAt ch cs new <;> rfl

theorem lookup_putAt_self {t t' : Node} {p : List Str} {new : Node}
    (h : putAt t p new = some t') (r : List Str) : lookup t' (p ++ r) = lookup new r := by
  induction p generalizing t t' with
  | nil => simp [putAt] at h; subst h; rfl
  | cons c cs ih =>
    cases t with
    | file b => simp [putAt] at h
    | dir es =>
      rw [putAt_dir_cons] at h
      cases hg : es.get c with
      | none =>
        simp only [hg] at h
        cases h
        simp [lookup_dir_cons, Entries.get_put_self, lookup_wrap]
      | some ch =>
        simp only [hg] at h
        cases hp : putAt ch cs new with
        | none => simp [hp] at h
        | some ch' =>
          simp only [hp] at h
          cases h
          simp [lookup_dir_cons, Entries.get_put_self, ih hp]

theorem lookup_putAt_incomp {t t' : Node} {p : List Str} {new : Node}
    (h : putAt t p new = some t') (q : List Str) (h1 : ¬ q <+: p) (h2 : ¬ p <+: q) :
    lookup t' q = lookup t q := by
  induction p generalizing t t' q with
  | nil => exact absurd (List.nil_prefix) h2
  | cons c cs ih =>
    cases q with
    | nil => exact absurd (List.nil_prefix) h1
    | cons d qs =>
      cases t with
      | file b => simp [putAt] at h
      | dir es =>
        rw [putAt_dir_cons] at h
        by_cases hcd : d = c
        · subst hcd
          simp only [List.cons_prefix_cons, true_and] at h1 h2
          cases hg : es.get d with
          | none =>
            simp only [hg] at h
            cases h
            simp [lookup_dir_cons, Entries.get_put_self, hg, lookup_wrap_incomp cs new qs h1 h2]
          | some ch =>
            simp only [hg] at h
            cases hp : putAt ch cs new with
            | none => simp [hp] at h
            | some ch' =>
              simp only [hp] at h
              cases h
              simp [lookup_dir_cons, Entries.get_put_self, hg, ih hp qs h1 h2]
        · cases hg : es.get c with
          | none =>
            simp only [hg] at h
            cases h
            simp [lookup_dir_cons, Entries.get_put_ne _ _ hcd]
          | some ch =>
            simp only [hg] at h
            cases hp : putAt ch cs new with
            | none => simp [hp] at h
            | some ch' =>
              simp only [hp] at h
              cases h
              simp [lookup_dir_cons, Entries.get_put_ne _ _ hcd]

theorem lookup_putAt_prefix {t t' : Node} {p : List Str} {new : Node}
    (h : putAt t p new = some t') (q : List Str) (h1 : q <+: p) (h2 : q ≠ p) :
    ∃ es, lookup t' q = some (.dir es) := by
  induction p generalizing t t' q with
  | nil => exact absurd (List.prefix_nil.mp h1) h2
  | cons c cs ih =>
    cases t with
    | file b => simp [putAt] at h
    | dir es =>
      rw [putAt_dir_cons] at h
      cases q with
      | nil =>
        cases hg : es.get c with
        | none => simp only [hg] at h; cases h; exact ⟨_, rfl⟩
        | some ch =>
          simp only [hg] at h
          cases hp : putAt ch cs new with
          | none => simp [hp] at h
          | some ch' => simp only [hp] at h; cases h; exact ⟨_, rfl⟩
      | cons d qs =>
        rw [List.cons_prefix_cons] at h1
        obtain ⟨hd, hq⟩ := h1
        subst hd
        have hne : qs ≠ cs := fun e => h2 (by rw [e])
        cases hg : es.get d with
        | none =>
          simp only [hg] at h
          cases h
          obtain ⟨es', he⟩ := lookup_wrap_prefix cs new qs hq hne
          exact ⟨es', by simp [lookup_dir_cons, Entries.get_put_self, he]⟩
        | some ch =>
          simp only [hg] at h
          cases hp : putAt ch cs new with
          | none => simp [hp] at h
          | some ch' =>
            simp only [hp] at h
            cases h
            obtain ⟨es', he⟩ := ih hp qs hq hne
            exact ⟨es', by simp [lookup_dir_cons, Entries.get_put_self, he]⟩

theorem putAt_file_prefix_none {t : Node} {s : List Str} {b : Bytes}
    (h : lookup t s = some (.file b)) (r : List Str) (hr : r ≠ []) (new : Node) :
    putAt t (s ++ r) new = none := by
  induction s generalizing t with
  | nil =>
    simp at h
    subst h
    cases r with
    | nil => exact absurd rfl hr
    | cons x xs => rfl
  | cons c cs ih =>
    cases t with
    | file b' => simp at h
    | dir es =>
      rw [lookup_dir_cons] at h
      cases hg : es.get c with
      | none => simp [hg] at h
      | some ch =>
        simp [hg] at h
        simp [putAt_dir_cons, hg, ih h]

theorem putAt_id {t : Node} {p : List Str} {n : Node} (h : lookup t p = some n) :
    putAt t p n = some t := by
  induction p generalizing t with
  | nil => simp at h; subst h; rfl
  | cons c cs ih =>
    cases t with
    | file b => simp at h
    | dir es =>
      rw [lookup_dir_cons] at h
      cases hg : es.get c with
      | none => simp [hg] at h
      | some ch =>
        simp [hg] at h
        simp [putAt_dir_cons, hg, ih h, Entries.put_get_id es c ch hg]

/-! ### mkdirs -/

theorem mkdirs_dir_cons (es : Entries) (c : Str) (cs : List Str) :
    mkdirs (.dir es) (c :: cs) =
      match es.get c with
      | none => some (.dir (es.put c (wrap cs empty)))
      | some ch =>
        match mkdirs ch cs with
        | none => none
        | some ch' => some (.dir (es.put c ch')) := by
  simp only [mkdirs]
  cases es.get c with
  | none => rfl
  | some ch => simp only []; cases mkdirs ch cs <;> rfl

theorem putAt_wrap (cs : List Str) (mid : Node) (r : List Str) (new : Node)
    (hm : ∀ r, putAt mid r new = some (wrap r new)) :
    putAt (wrap cs mid) (cs ++ r) new = some (wrap (cs ++ r) new) := by
  induction cs with
  | nil => exact hm r
  | cons c cs ih =>
    simp [wrap, putAt_dir_cons, Entries.get, ih, Entries.put]

theorem putAt_empty (r : List Str) (new : Node) : putAt empty r new = some (wrap r new) := by
  cases r with
  | nil => rfl
  | cons x xs => simp [empty, putAt_dir_cons, Entries.get, Entries.put, wrap]

/-- creating the directory first does not change what a later `putAt` below it produces -/
theorem putAt_mkdirs {t t1 : Node} {d : List Str} (h : mkdirs t d = some t1) (r : List Str)
    (new : Node) : putAt t1 (d ++ r) new = putAt t (d ++ r) new := by
  induction d generalizing t t1 with
  | nil =>
    cases t with
    | file b => simp [mkdirs] at h
    | dir es => simp [mkdirs] at h; subst h; rfl
  | cons c cs ih =>
    cases t with
    | file b => simp [mkdirs] at h
    | dir es =>
      rw [mkdirs_dir_cons] at h
      cases hg : es.get c with
      | none =>
        simp only [hg] at h
        cases h
        simp [putAt_dir_cons, Entries.get_put_self, hg, Entries.put_put,
          putAt_wrap cs empty r new (fun r => putAt_empty r new)]
      | some ch =>
        simp only [hg] at h
        cases hm : mkdirs ch cs with
        | none => simp [hm] at h
        | some ch' =>
          simp only [hm] at h
          cases h
          simp only [List.cons_append, putAt_dir_cons, Entries.get_put_self, hg, ih hm]
          cases putAt ch (cs ++ r) new with
          | none => rfl
          | some ch'' => simp [Entries.put_put]

theorem lookup_mkdirs_some {t t1 : Node} {d : List Str} (h : mkdirs t d = some t1)
    {q : List Str} {n : Node} (hq : lookup t q = some n) : ∃ n', lookup t1 q = some n' := by
  induction d generalizing t t1 q n with
  | nil =>
    cases t with
    | file b => simp [mkdirs] at h
    | dir es => simp [mkdirs] at h; subst h; exact ⟨n, hq⟩
  | cons c cs ih =>
    cases t with
    | file b => simp [mkdirs] at h
    | dir es =>
      rw [mkdirs_dir_cons] at h
      cases q with
      | nil => exact ⟨t1, by simp⟩
      | cons x xs =>
        rw [lookup_dir_cons] at hq
        by_cases hx : x = c
        · subst hx
          cases hg : es.get x with
          | none => simp [hg] at hq
          | some ch =>
            simp only [hg] at h
            simp [hg] at hq
            cases hm : mkdirs ch cs with
            | none => simp [hm] at h
            | some ch' =>
              simp only [hm] at h
              cases h
              obtain ⟨n', hn'⟩ := ih hm hq
              exact ⟨n', by simp [lookup_dir_cons, Entries.get_put_self, hn']⟩
        · cases hg : es.get c with
          | none =>
            simp only [hg] at h
            cases h
            exact ⟨n, by simp [lookup_dir_cons, Entries.get_put_ne _ _ hx, hq]⟩
          | some ch =>
            simp only [hg] at h
            cases hm : mkdirs ch cs with
            | none => simp [hm] at h
            | some ch' =>
              simp only [hm] at h
              cases h
              exact ⟨n, by simp [lookup_dir_cons, Entries.get_put_ne _ _ hx, hq]⟩

/-! ### removeAt -/

theorem removeAt_dir_single (es : Entries) (c : Str) :
    removeAt (.dir es) [c] = .dir (es.erase c) := by
  simp [removeAt]

theorem removeAt_dir_cons2 (es : Entries) (c x : Str) (xs : List Str) :
    removeAt (.dir es) (c :: x :: xs) =
      match es.get c with
      | none => .dir es
      | some ch => .dir (es.put c (removeAt ch (x :: xs))) := by
  simp only [removeAt, List.isEmpty_cons]
  cases es.get c <;> rfl

theorem lookup_removeAt_below (t : Node) (p : List Str) (hp : p ≠ []) (r : List Str) :
    lookup (removeAt t p) (p ++ r) = none := by
  induction p generalizing t with
  | nil => exact absurd rfl hp
  | cons c cs ih =>
    cases t with
    | file b => simp [removeAt]
    | dir es =>
      cases cs with
      | nil => simp [removeAt_dir_single, lookup_dir_cons, Entries.get_erase_self]
      | cons x xs =>
        rw [removeAt_dir_cons2]
        cases hg : es.get c with
        | none => simp [lookup_dir_cons, hg]
        | some ch =>
          have := ih ch (by simp)
          simp only [List.cons_append] at this
          simp [lookup_dir_cons, Entries.get_put_self, this]

theorem obs_removeAt_root (t : Node) (p : List Str) : (removeAt t p).obs = t.obs := by
  cases p with
  | nil => cases t <;> rfl
  | cons c cs =>
    cases t with
    | file b => rfl
    | dir es =>
      cases cs with
      | nil => rfl
      | cons x xs => rw [removeAt_dir_cons2]; cases es.get c <;> rfl

/-- deleting `p` changes the observation at no path outside `p`'s subtree -/
theorem stat_removeAt_other (t : Node) (p q : List Str) (h : ¬ p <+: q) :
    stat (removeAt t p) q = stat t q := by
  induction p generalizing t q with
  | nil => exact absurd (List.nil_prefix) h
  | cons c cs ih =>
    cases q with
    | nil => simp [stat, obs_removeAt_root]
    | cons d qs =>
      cases t with
      | file b => rfl
      | dir es =>
        cases cs with
        | nil =>
          have hd : d ≠ c := by
            intro e; subst e
            exact h (by simp)
          simp [stat, removeAt_dir_single, lookup_dir_cons, Entries.get_erase_ne es hd]
        | cons x xs =>
          rw [removeAt_dir_cons2]
          cases hg : es.get c with
          | none => rfl
          | some ch =>
            by_cases hd : d = c
            · subst hd
              have h' : ¬ (x :: xs) <+: qs := fun e => h (by simp [List.cons_prefix_cons, e])
              have := ih ch qs h'
              simp only [stat] at this
              simp [stat, lookup_dir_cons, Entries.get_put_self, hg, this]
            · simp [stat, lookup_dir_cons, Entries.get_put_ne _ _ hd]

theorem removeAt_missing {t : Node} {p : List Str} (h : lookup t p = none) : removeAt t p = t := by
  induction p generalizing t with
  | nil => simp at h
  | cons c cs ih =>
    cases t with
    | file b => rfl
    | dir es =>
      rw [lookup_dir_cons] at h
      cases cs with
      | nil =>
        cases hg : es.get c with
        | none => simp [removeAt_dir_single, Entries.erase_missing es c hg]
        | some ch => simp [hg] at h
      | cons x xs =>
        rw [removeAt_dir_cons2]
        cases hg : es.get c with
        | none => rfl
        | some ch =>
          simp [hg] at h
          simp [ih h, Entries.put_get_id es c ch hg]

/-! ### stat after putAt -/

theorem stat_putAt_self {t t' : Node} {p : List Str} {new : Node}
    (h : putAt t p new = some t') : stat t' p = some new.obs := by
  have := lookup_putAt_self h []
  simp at this
  simp [stat, this]

theorem stat_putAt_prefix {t t' : Node} {p : List Str} {new : Node}
    (h : putAt t p new = some t') (q : List Str) (h1 : q <+: p) (h2 : q ≠ p) :
    stat t' q = some .dir := by
  obtain ⟨es, he⟩ := lookup_putAt_prefix h q h1 h2
  simp [stat, he, Node.obs]

/-- writing a FILE at `p`, where no directory was, changes the observation only at `p` and at
    its (possibly new) ancestors -/
theorem stat_putAt_file_frame {t t' : Node} {p : List Str} {b : Bytes}
    (h : putAt t p (.file b) = some t') (hold : ∀ es, lookup t p ≠ some (.dir es))
    (q : List Str) (hq : ¬ q <+: p) : stat t' q = stat t q := by
  by_cases hpq : p <+: q
  · obtain ⟨r, rfl⟩ := hpq
    have hr : r ≠ [] := by
      intro e; subst e; simp at hq
    have h1 : lookup t' (p ++ r) = none := by
      rw [lookup_putAt_self h r]
      cases r with
      | nil => exact absurd rfl hr
      | cons x xs => rfl
    have h2 : lookup t (p ++ r) = none := by
      cases hl : lookup t (p ++ r) with
      | none => rfl
      | some n =>
        obtain ⟨es, he⟩ := lookup_prefix_dir hl hr
        exact absurd he (hold es)
    simp [stat, h1, h2]
  · simp [stat, lookup_putAt_incomp h q hq hpq]

/-! ### path strings -/

theorem splitSlash_ne_nil (s : Str) : ∃ seg segs, splitSlash s = seg :: segs := by
  induction s with
  | nil => exact ⟨[], [], rfl⟩
  | cons c r ih =>
    obtain ⟨seg, segs, h⟩ := ih
    by_cases hc : c = '/'
    · exact ⟨[], seg :: segs, by simp [splitSlash, h, hc]⟩
    · exact ⟨c :: seg, segs, by simp [splitSlash, h, hc]⟩

theorem splitSlash_cons {r : Str} {seg : Str} {segs : List Str} (c : Char)
    (h : splitSlash r = seg :: segs) :
    splitSlash (c :: r) = if c = '/' then [] :: seg :: segs else (c :: seg) :: segs := by
  simp [splitSlash, h]

theorem splitSlash_noslash (b : Str) (h : '/' ∉ b) : splitSlash b = [b] := by
  induction b with
  | nil => rfl
  | cons c r ih =>
    have hc : c ≠ '/' := fun e => h (by simp [e])
    have hr : '/' ∉ r := fun e => h (by simp [e])
    rw [splitSlash_cons c (ih hr)]
    simp [hc]

theorem splitSlash_append (d rest : Str) :
    splitSlash (d ++ '/' :: rest) = splitSlash d ++ splitSlash rest := by
  induction d with
  | nil =>
    obtain ⟨seg, segs, h⟩ := splitSlash_ne_nil rest
    simp [splitSlash_cons '/' h, h, splitSlash]
  | cons c d' ih =>
    obtain ⟨seg, segs, h⟩ := splitSlash_ne_nil d'
    have h2 : splitSlash (d' ++ '/' :: rest) = seg :: (segs ++ splitSlash rest) := by
      rw [ih, h]; rfl
    rw [List.cons_append, splitSlash_cons c h2, splitSlash_cons c h]
    by_cases hc : c = '/' <;> simp [hc]

theorem joinSlash_splitSlash (s : Str) : joinSlash (splitSlash s) = s := by
  induction s with
  | nil => rfl
  | cons c r ih =>
    obtain ⟨seg, segs, h⟩ := splitSlash_ne_nil r
    rw [h] at ih
    rw [splitSlash_cons c h]
    by_cases hc : c = '/'
    · simp [hc, joinSlash, ih]
    · cases segs with
      | nil => simp [hc, joinSlash] at ih ⊢; exact ih
      | cons y ys => simp [hc, joinSlash] at ih ⊢; exact ih

theorem plain_not_junk {b : Str} (h : PlainName b) : isJunk b = false := by
  obtain ⟨h1, _, h3, _⟩ := h
  cases b with
  | nil => exact absurd rfl h1
  | cons c r => simp [isJunk]; intro hc hr; exact h3 (by rw [hc, hr])

theorem basename_join (d b : Str) (h : PlainName b) : basename (d ++ '/' :: b) = some b := by
  obtain ⟨first, rest, hd⟩ := splitSlash_ne_nil d
  have hj := plain_not_junk h
  unfold basename bodySegs
  rw [splitSlash_append, splitSlash_noslash b h.2.1, hd]
  simp only [List.cons_append, List.filter_append, List.filter_cons, List.filter_nil, hj,
    Bool.not_false, ite_true]
  rw [← List.append_assoc, List.getLast?_concat]
  have h3 := h.2.2.1
  have h4 := h.2.2.2
  simp [h3, h4]

theorem dirname_join (d b : Str) (h : PlainName b) (hd : d ≠ []) (hc : CleanEnd d) :
    dirname (d ++ '/' :: b) = some d := by
  obtain ⟨first, rest, hs⟩ := splitSlash_ne_nil d
  have hj := plain_not_junk h
  have hrev : ∃ y r, (splitSlash d).reverse = y :: r ∧ (splitSlash d).getLast? = some y := by
    cases hr : (splitSlash d).reverse with
    | nil => simp [hs] at hr
    | cons y r =>
      refine ⟨y, r, rfl, ?_⟩
      rw [List.getLast?_eq_head?_reverse, hr]; rfl
  obtain ⟨y, r, hr, hl⟩ := hrev
  have hy := hc y hl
  have hdrop : dropJunk (y :: r) = y :: r := by
    cases r with
    | nil => rfl
    | cons z zs => simp [dropJunk, hy]
  unfold dirname
  rw [splitSlash_append, splitSlash_noslash b h.2.1, List.reverse_append, hr]
  simp only [List.reverse_cons, List.reverse_nil, List.nil_append, List.cons_append, dropJunk, hj]
  simp only [Bool.false_eq_true, ite_false, hdrop]
  have : (y :: r).reverse = splitSlash d := by rw [← hr, List.reverse_reverse]
  rw [this, joinSlash_splitSlash]
  cases d with
  | nil => exact absurd rfl hd
  | cons c cs => simp

theorem squeeze_head (d : Char) (r : Str) : ∃ tl, squeeze (d :: r) = d :: tl := by
  induction r generalizing d with
  | nil => exact ⟨[], rfl⟩
  | cons e r' ih =>
    by_cases h : d = '/' ∧ e = '/'
    · obtain ⟨tl, ht⟩ := ih e
      exact ⟨tl, by simp [squeeze, h.1, h.2] at ht ⊢; exact ht⟩
    · exact ⟨squeeze (e :: r'), by
        simp only [squeeze]
        simp only [Bool.and_eq_true, decide_eq_true_eq]
        rw [if_neg h]⟩

theorem hasDouble_squeeze (s : Str) : hasDouble (squeeze s) = false := by
  fun_induction squeeze s with
  | case1 => rfl
  | case2 c => rfl
  | case3 c d r hcd ih => exact ih
  | case4 c d r hcd ih =>
    obtain ⟨tl, ht⟩ := squeeze_head d r
    rw [ht] at ih ⊢
    simp only [hasDouble, ih, Bool.or_false]
    simpa using hcd

theorem squeeze_id (s : Str) (h : hasDouble s = false) : squeeze s = s := by
  fun_induction squeeze s with
  | case1 => rfl
  | case2 c => rfl
  | case3 c d r hcd ih => simp [hasDouble] at h; simp_all
  | case4 c d r hcd ih =>
    simp [hasDouble] at h
    rw [ih h.2]

/-! ### the commands -/

theorem resolve_file {t : Node} {p : P} {b : Bytes} (h : resolve t p = some (.file b)) :
    lookup t p.comps = some (.file b) ∧ p.trail = false := by
  unfold resolve at h
  split at h
  · split at h
    · cases h
    · next hl _ => simp at h; subst h; exact ⟨hl, by simp_all⟩
  · cases h
  · cases h

theorem resolve_of_lookup_file {t : Node} {p : P} {b : Bytes}
    (h : lookup t p.comps = some (.file b)) (ht : p.trail = false) :
    resolve t p = some (.file b) := by
  simp [resolve, h, ht]

theorem resolve_dir {t : Node} {p : P} {es : Entries} (h : resolve t p = some (.dir es)) :
    lookup t p.comps = some (.dir es) := by
  unfold resolve at h
  split at h
  · split at h <;> cases h
  · next hl => simp at h; subst h; exact hl
  · cases h

/-- a successful write put a file with the expected content at the path, where no directory was -/
theorem writeGen_ok {t t' : Node} {p : P} {data : Bytes} {app : Bool} {v : Val}
    (h : writeGen t p data app = (t', .ok v)) :
    p.trail = false ∧ (∀ es, lookup t p.comps ≠ some (.dir es)) ∧
      ∃ content, putAt t p.comps (.file content) = some t' ∧
        ((∀ old, lookup t p.comps = some (.file old) →
            content = if app then old ++ data else data) ∧
         (lookup t p.comps = none → content = data)) := by
  unfold writeGen at h
  split at h
  · cases h
  · next htr =>
    refine ⟨by simpa using htr, ?_⟩
    split at h
    · cases h
    · next old hl =>
      split at h
      · next t'' hp =>
        cases h
        exact ⟨by simp [hl], _, hp, by simp [hl], by simp [hl]⟩
      · cases h
    · next hl =>
      split at h
      · next t'' hp =>
        cases h
        exact ⟨by simp [hl], _, hp, by simp [hl], by simp⟩
      · cases h

theorem writeGen_read {t t' : Node} {p : P} {content : Bytes} (htr : p.trail = false)
    (hp : putAt t p.comps (.file content) = some t') :
    resolve t' p = some (.file content) := by
  have := lookup_putAt_self hp []
  simp at this
  exact resolve_of_lookup_file this htr


theorem mvTargetIsFile_not_dir {t : Node} {dst : P} (h : mvTargetIsFile t dst = true) :
    ∀ es, lookup t dst.comps ≠ some (.dir es) := by
  intro es he
  unfold mvTargetIsFile at h
  have hr : resolve t dst = some (.dir es) := by simp [resolve, he]
  simp [hr, Node.isFile] at h

/-- with `src` a file and `target` neither below nor above it, the file survives a `putAt` -/
theorem src_survives {t t2 : Node} {src : P} {target : List Str} {b : Bytes}
    (hl : lookup t src.comps = some (.file b)) (htr : src.trail = false)
    (hp : putAt t target (.file b) = some t2) (hne : src.comps ≠ target)
    (hnd : ∀ es, lookup t target ≠ some (.dir es)) :
    resolve t2 src = some (.file b) := by
  have h1 : ¬ src.comps <+: target := by
    rintro ⟨r, hr⟩
    have hr' : r ≠ [] := by
      intro e; subst e; simp at hr; exact hne hr
    have := putAt_file_prefix_none hl r hr' (.file b)
    rw [hr, hp] at this
    cases this
  have h2 : ¬ target <+: src.comps := by
    rintro ⟨r, hr⟩
    have hr' : r ≠ [] := by
      intro e; subst e; simp at hr; exact hne hr.symm
    rw [← hr] at hl
    obtain ⟨es, he⟩ := lookup_prefix_dir hl hr'
    exact hnd es he
  have := lookup_putAt_incomp hp src.comps h1 h2
  exact resolve_of_lookup_file (this.trans hl) htr


end Duck.FsTree
