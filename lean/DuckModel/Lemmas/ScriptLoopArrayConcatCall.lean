/-
  `array_concat` run from source, success path, part 3: the outer loop, the body, the call.
-/
import DuckModel.Lemmas.ScriptLoopArrayConcatNested

namespace Duck.ScriptRun
open Duck Duck.Alias Duck.Coll Duck.Spec Duck.Generated Duck.Reser

/-- instructions of the outer loop over the arrays named by `xs` -/
def acCost (t : Table) : List Str → Nat
  | [] => 0
  | x :: r => 3 * arrLen t x + 3 + acCost t r

/-- the cells the outer loop pushes (as strings) -/
def acCells (t : Table) : List Str → List Str
  | [] => []
  | x :: r => (match tget t x with | some (.list l) => l.map Item.render | _ => []) ++ acCells t r

theorem acCost_congr (t t' : Table) (xs : List Str) (h : ∀ x ∈ xs, tget t x = tget t' x) :
    acCost t xs = acCost t' xs := by
  induction xs with
  | nil => rfl
  | cons x r ih =>
    simp only [acCost, arrLen]
    rw [h x (by simp), ih (fun y hy => h y (List.mem_cons_of_mem _ hy))]

theorem acCells_congr (t t' : Table) (xs : List Str) (h : ∀ x ∈ xs, tget t x = tget t' x) :
    acCells t xs = acCells t' xs := by
  induction xs with
  | nil => rfl
  | cons x r ih =>
    simp only [acCells]
    rw [h x (by simp), ih (fun y hy => h y (List.mem_cons_of_mem _ hy))]

/-- what the outer loop leaves -/
structure AOutPost (st0 s s' : ScriptSt) (T0 : Table) (hA hR : Str) (fs : List ForCall) (acc' : List Item)
    (vars0 vars' : Vars) : Prop where
  ctx : s'.ctx = aScope
  inv : AInv st0 s'.ifMeta s'.forMeta s'.endTable
  forStack : s'.forStack = fs
  ifStack : s'.ifStack = s.ifStack
  next : s'.coll.next = s.coll.next
  tbl : AInvT T0 hR s'.coll.tbl acc'
  vars : AInvV vars0 vars' hA hR

theorem AInv.afterS10 {st0 s : ScriptSt} (h : AInv st0 s.ifMeta s.forMeta s.endTable) (T : Table) (st : List ForCall) :
    AInv st0 (acSt (acS10 s) T st).ifMeta (acSt (acS10 s) T st).forMeta (acSt (acS10 s) T st).endTable :=
  h.afterFor 10 12 (Or.inr (Or.inr ⟨rfl, rfl⟩))

/-- the outer loop: from the inner `for` line (10) with the current argument in `arg` and the outer
    entry at the next iteration to the line after the outer `end` (14), entry popped -/
theorem ac_outer_loop (d : Nat) (st0 : ScriptSt) (hA hR : Str) (L : List Str) (T0 : Table) (fs : List ForCall)
    (vars0 : Vars) (hT0A : tget T0 hA = some (.list (L.map .str))) (hAR : hA ≠ hR) :
    ∀ (rem pre : List Str) (X : Str) (acc : List Item) (s : ScriptSt) (vars : Vars) (poll : Nat) (fo : Option Str),
      L = pre ++ X :: rem → s.ctx = aScope → AInv st0 s.ifMeta s.forMeta s.endTable →
      s.endTable.get (aKey 13) = some fullNameEndForIn →
      s.forStack = ⟨pre.length + 1, 9, 13, aScope⟩ :: fs →
      (∀ x ∈ X :: rem, x ≠ hR ∧ ∃ l, tget T0 x = some (.list l)) →
      AInvT T0 hR s.coll.tbl acc → AInvV vars0 vars hA hR → vars.get aArg = some X →
      ∃ vars' s' poll' fo',
        (∀ F fuel, evalInstructions (bodySem F (d + 1) acIs) (fun _ => false) acIs (fuel + acCost T0 (X :: rem)) 10 poll fo vars s =
          evalInstructions (bodySem F (d + 1) acIs) (fun _ => false) acIs fuel 14 poll' fo' vars' s') ∧
        AOutPost st0 s s' T0 hA hR fs (acc ++ (acCells T0 (X :: rem)).map .str) vars0 vars' := by
  intro rem
  induction rem with
  | nil =>
    intro pre X acc s vars poll fo hLe hctx hinv he13 hfs hall hT hV hvX
    obtain ⟨hXR, Lx, hLx⟩ := hall X (by simp)
    obtain ⟨vars1, poll1, fo1, hrun1, hV1, hvX1⟩ := ac_outer_iter d s X hA hR Lx T0 ⟨pre.length + 1, 9, 13, aScope⟩ fs
      vars0 vars acc hctx hinv.c10 he13 hfs rfl rfl rfl hLx hXR hT hV hvX poll fo
    have hTA : tget (pushAll hR s.coll.tbl acc (Lx.map Item.render)) hA = some (.list (L.map .str)) := by
      rw [(pushAll_inv T0 hR _ _ _ hT).other hA hAR, hT0A]
    have hnext : nextIteration (acSt (acS10 s) (pushAll hR s.coll.tbl acc (Lx.map Item.render))
        (⟨pre.length + 1, 9, 13, aScope⟩ :: fs)) hA (pre.length + 1) = none := by
      simp [nextIteration, acSt, hTA, hLe]
    refine ⟨vars1, acSt (acS10 s) (pushAll hR s.coll.tbl acc (Lx.map Item.render)) fs, poll1 + 1, none, ?_, ?_⟩
    · intro F fuel
      rw [show fuel + acCost T0 [X] = fuel + 1 + 3 * Lx.length + 2 by simp [acCost, arrLen, hLx]; omega,
        hrun1 F (fuel + 1)]
      exact eval_for_done F d acIs 9 _ _
        (show acIs[9]? = some (mkI 10 none "for" (some [[.lit aArg], [.lit "in".toList], [.var aArgs]])) from rfl) rfl
        vars1 (acSt (acS10 s) (pushAll hR s.coll.tbl acc (Lx.map Item.render)) (⟨pre.length + 1, 9, 13, aScope⟩ :: fs))
        aArg hA (ac_bind_for_args vars1 hA hV1.args) ⟨pre.length + 1, 9, 13, aScope⟩ fs rfl rfl hctx.symm
        hnext fuel poll1 fo1
    · refine ⟨hctx, hinv.afterS10 _ _, rfl, rfl, rfl, ?_, hV1⟩
      have := pushAll_inv T0 hR (Lx.map Item.render) s.coll.tbl acc hT
      simpa [acCells, hLx, acSt] using this
  | cons Y rem ih =>
    intro pre X acc s vars poll fo hLe hctx hinv he13 hfs hall hT hV hvX
    obtain ⟨hXR, Lx, hLx⟩ := hall X (by simp)
    obtain ⟨vars1, poll1, fo1, hrun1, hV1, hvX1⟩ := ac_outer_iter d s X hA hR Lx T0 ⟨pre.length + 1, 9, 13, aScope⟩ fs
      vars0 vars acc hctx hinv.c10 he13 hfs rfl rfl rfl hLx hXR hT hV hvX poll fo
    have hT1 := pushAll_inv T0 hR (Lx.map Item.render) s.coll.tbl acc hT
    have hTA : tget (pushAll hR s.coll.tbl acc (Lx.map Item.render)) hA = some (.list (L.map .str)) := by
      rw [hT1.other hA hAR, hT0A]
    have hnext : nextIteration (acSt (acS10 s) (pushAll hR s.coll.tbl acc (Lx.map Item.render))
        (⟨pre.length + 1, 9, 13, aScope⟩ :: fs)) hA (pre.length + 1) = some Y := by
      simp [nextIteration, acSt, hTA, hLe, Item.render]
    obtain ⟨vars', s', poll', fo', hrun, hpost⟩ := ih (pre ++ [X]) Y (acc ++ (Lx.map Item.render).map Item.str)
      (acSt (acS10 s) (pushAll hR s.coll.tbl acc (Lx.map Item.render)) (⟨pre.length + 1 + 1, 9, 13, aScope⟩ :: fs))
      (vars1.set aArg Y) (poll1 + 1) none (by rw [hLe]; simp) hctx (hinv.afterS10 _ _)
      (by show (s.endTable.put (aKey 12) fullNameEndForIn).get (aKey 13) = _
          rw [get_put_aKey_ne _ 12 13 _ (by omega)]; exact he13)
      (by simp [acSt]) (fun x hx => hall x (List.mem_cons_of_mem _ hx)) hT1
      (hV1.set_other aArg Y aArg_under (by decide) (by decide)) (by rw [get_set, if_pos rfl])
    refine ⟨vars', s', poll', fo', ?_, ?_⟩
    · intro F fuel
      rw [show fuel + acCost T0 (X :: Y :: rem) = fuel + acCost T0 (Y :: rem) + 1 + 3 * Lx.length + 2 by
            simp [acCost, arrLen, hLx]; omega,
        hrun1 F (fuel + acCost T0 (Y :: rem) + 1)]
      rw [eval_for_next F d acIs 9 _ _
        (show acIs[9]? = some (mkI 10 none "for" (some [[.lit aArg], [.lit "in".toList], [.var aArgs]])) from rfl) rfl rfl
        vars1 (acSt (acS10 s) (pushAll hR s.coll.tbl acc (Lx.map Item.render)) (⟨pre.length + 1, 9, 13, aScope⟩ :: fs))
        aArg hA Y (ac_bind_for_args vars1 hA hV1.args) ⟨pre.length + 1, 9, 13, aScope⟩ fs rfl rfl hctx.symm
        hnext (fuel + acCost T0 (Y :: rem)) poll1 fo1]
      exact hrun F fuel
    · refine ⟨hpost.ctx, hpost.inv, hpost.forStack, hpost.ifStack, hpost.next, ?_, hpost.vars⟩
      have := hpost.tbl
      simpa [acCells, hLx, List.append_assoc] using this


/-! ### the body -/

theorem run_array_nil (vars : Vars) (s : ScriptSt) :
    runNative (.coll .array) [] vars s =
      (.continue (some (Coll.handleName s.coll.next)), vars,
        { s with coll := { tbl := tinsert s.coll.tbl (Coll.handleName s.coll.next) (.list []), next := s.coll.next + 1 } }) := by
  simp [runNative, runColl, Coll.exec, cmdArray, putHandle]

/-- the state after `array = array` -/
def acS3 (s : ScriptSt) : ScriptSt :=
  { s with coll := { tbl := tinsert s.coll.tbl (Coll.handleName s.coll.next) (.list []), next := s.coll.next + 1 } }

/-- what a successful body leaves -/
structure ABodyPost (s s' : ScriptSt) (vars vars' : Vars) (hR : Str) (cells : List Str) : Prop where
  inv : AInv s s'.ifMeta s'.forMeta s'.endTable
  forStack : s'.forStack = s.forStack
  ifStack : s'.ifStack = s.ifStack
  next : s'.coll.next = s.coll.next + 1
  arr : tget s'.coll.tbl hR = some (.list (cells.map .str))
  other : ∀ k, k ≠ hR → tget s'.coll.tbl k = tget s.coll.tbl k
  clr : clear aScope vars' = clear aScope vars

/-- lines 14-16: the result is the handle of the new array -/
theorem ac_tail (F d : Nat) (s : ScriptSt) (vars : Vars) (hR : Str) (h : vars.get aArray = some hR)
    (fuel poll : Nat) (fo : Option Str) :
    evalInstructions (bodySem F d acIs) (fun _ => false) acIs (fuel + 3) 14 poll fo vars s =
      some (.finished (some hR), vars, s) := by
  rw [eval_skip _ _ _ 14 _ _ _ _ _ (show acIs[14]? = some (emptyI 15) from rfl) rfl]
  have hb : bind vars ((some [[Seg.var aArray]]).map fun a => a.map renderTemplate) = [hR] := by
    rw [bind_mk vars _ (by decide)]
    simp [tmplValue, Seg.value, h]
  rw [eval_native_continue F d acIs (fuel + 1) 15 (poll + 1) fo vars s _ _ "set".toList .set
    (show acIs[15]? = some (mkI 16 none "set" (some [[.var aArray]])) from rfl) rfl fs_set rn_set
    _ hb (some hR) vars s rfl]
  rw [eval_end _ _ _ 16 _ _ _ _ rfl]
  rfl

/-- every argument names an array: `3·n + acCost + 9` instructions (`acCost` = 3 per cell + 3
    per argument); the new array (the next allocator name) holds all cells as strings -/
theorem ac_body_ok (d : Nat) (s : ScriptSt) (vars : Vars) (a : Str) (rest : List Str) (hA : Str)
    (hctx : s.ctx = aScope) (hvA : vars.get aArgs = some hA)
    (hTA : tget s.coll.tbl hA = some (.list ((a :: rest).map .str)))
    (hall : ∀ x ∈ a :: rest, ArgOK x = true ∧ ∃ l, tget s.coll.tbl x = some (.list l))
    (hfree : tget s.coll.tbl (Coll.handleName s.coll.next) = none)
    (hstale : NoStaleFor aScope s.forStack) (hinv : AInv s s.ifMeta s.forMeta s.endTable) :
    ∃ vars' s',
      (∀ F N fuel, N = fuel + 3 * (a :: rest).length + acCost s.coll.tbl (a :: rest) + 9 →
        scriptBody (bodySem (F + 2) (d + 2) acIs) (fun _ => false) N acIs vars s =
          (.finished (some (Coll.handleName s.coll.next)), vars', s')) ∧
      ABodyPost s s' vars vars' (Coll.handleName s.coll.next) (acCells s.coll.tbl (a :: rest)) := by
  have hAR : hA ≠ Coll.handleName s.coll.next := by
    intro e; rw [e, hfree] at hTA; cases hTA
  have hpop : popFor 1 s.ctx false s.forStack = (none, s.forStack) := by
    rw [hctx]; exact popFor_noStale 1 aScope s.forStack hstale
  have hnext1 : nextIteration s hA 0 = some a := by simp [nextIteration, hTA, Item.render]
  -- the validation loop
  obtain ⟨vars2, s2, poll2, fo2, hrun2, hpost2⟩ := ac_val_loop d s hA (a :: rest) s.forStack rest [] a
    { forSt s 1 5 with forStack := ⟨1, 1, 5, s.ctx⟩ :: s.forStack } (vars.set aArg a) (0 + 1 + 1) none rfl hctx
    (by rw [forSt_aKey s hctx]; exact hinv.afterFor 1 5 (Or.inl ⟨rfl, rfl⟩))
    (by rw [forSt_aKey s hctx]
        show (s.endTable.put (aKey 5) fullNameEndForIn).get (aKey 5) = _
        rw [KV.get_put, if_pos rfl])
    (by rw [hctx]; rfl) hTA hall (by rw [get_set, if_neg (by decide)]; exact hvA) (by rw [get_set, if_pos rfl])
  have hvA2 : vars2.get aArgs = some hA := by rw [hpost2.args, get_set, if_neg (by decide)]; exact hvA
  have hcoll2 : s2.coll = s.coll := hpost2.coll
  -- the table the loops work on
  have hT0A : tget (tinsert s.coll.tbl (Coll.handleName s.coll.next) (.list [])) hA = some (.list ((a :: rest).map .str)) := by
    rw [tget_tinsert, if_neg hAR, hTA]
  have hnext9 : nextIteration
      (acS3 s2)
      hA 0 = some a := by
    simp only [nextIteration, acS3, hcoll2, hT0A]; rfl
  have hpop9 : popFor 9 s2.ctx false s2.forStack = (none, s2.forStack) := by
    rw [hpost2.ctx, hpost2.forStack]; exact popFor_noStale 9 aScope s.forStack hstale
  -- the outer loop
  obtain ⟨vars5, s5, poll5, fo5, hrun5, hpost5⟩ := ac_outer_loop (d + 1) s hA (Coll.handleName s.coll.next) (a :: rest)
    (tinsert s.coll.tbl (Coll.handleName s.coll.next) (.list [])) s.forStack vars hT0A hAR rest [] a []
    { forSt (acS3 s2) 9 13
      with forStack := ⟨1, 9, 13, s2.ctx⟩ :: s2.forStack }
    (((vars2.set aArray (Coll.handleName s.coll.next))).set aArg a) (poll2 + 1 + 1 + 1 + 1) none rfl hpost2.ctx
    (by rw [forSt_aKey (acS3 s2) hpost2.ctx]; exact hpost2.inv.afterFor 9 13 (Or.inr (Or.inl ⟨rfl, rfl⟩)))
    (by rw [forSt_aKey (acS3 s2) hpost2.ctx]
        show (s2.endTable.put (aKey 13) fullNameEndForIn).get (aKey 13) = _
        rw [KV.get_put, if_pos rfl])
    (by rw [hpost2.ctx, hpost2.forStack]; rfl)
    (by intro x hx
        obtain ⟨_, l, hl⟩ := hall x hx
        have hne : x ≠ Coll.handleName s.coll.next := by intro e; rw [e, hfree] at hl; cases hl
        exact ⟨hne, l, by rw [tget_tinsert, if_neg hne, hl]⟩)
    (by show AInvT _ _ (tinsert s2.coll.tbl (Coll.handleName s2.coll.next) (.list [])) []
        rw [hcoll2]
        exact ⟨by rw [tget_tinsert, if_pos rfl], fun _ _ => rfl⟩)
    ⟨by rw [get_set, if_neg (by decide), get_set, if_neg (by decide)]; exact hvA2,
     by rw [get_set, if_neg (by decide), get_set, if_pos rfl],
     by rw [clear_set_under _ _ _ _ aArg_under, clear_set_under _ _ _ _ aArray_under, hpost2.clr,
          clear_set_under _ _ _ _ aArg_under]⟩
    (by rw [get_set, if_pos rfl])
  have hcong : ∀ x ∈ a :: rest, tget (tinsert s.coll.tbl (Coll.handleName s.coll.next) (.list [])) x = tget s.coll.tbl x := by
    intro x hx
    obtain ⟨_, l, hl⟩ := hall x hx
    rw [tget_tinsert, if_neg (by intro e; rw [e, hfree] at hl; cases hl)]
  refine ⟨vars5, s5, ?_, ?_⟩
  · intro F N fuel hN
    subst hN
    unfold scriptBody
    rw [show fuel + 3 * (a :: rest).length + acCost s.coll.tbl (a :: rest) + 9 =
        fuel + 3 + acCost s.coll.tbl (a :: rest) + 1 + 3 + 3 * rest.length + 3 + 1 + 1 by simp; omega,
      eval_skip _ _ _ 0 _ _ _ _ _ (show acIs[0]? = some (emptyI 1) from rfl) rfl]
    rw [eval_for_first_next (F + 2) (d + 1) acIs 1 5 _ _
      (show acIs[1]? = some (mkI 2 none "for" (some [[.lit aArg], [.lit "in".toList], [.var aArgs]])) from rfl) rfl rfl
      vars s aArg hA a (ac_bind_for_args vars hA hvA) hpop ac_findFor1 (by rw [flowKey_aKey s hctx]; exact hinv.c1)
      hnext1 _ _ none]
    rw [hrun2 F (fuel + 3 + acCost s.coll.tbl (a :: rest) + 1 + 3)]
    rw [eval_skip _ _ _ 6 _ _ _ _ _ (show acIs[6]? = some (emptyI 7) from rfl) rfl]
    rw [eval_native_continue (F + 2) (d + 2) acIs _ 7 _ fo2 vars2 s2 _ _ "array".toList (.coll .array)
      (show acIs[7]? = some (mkI 8 (some aArray) "array" none) from rfl) rfl fs_array rn_array
      [] rfl _ _ (acS3 s2) (run_array_nil vars2 s2)]
    rw [eval_skip _ _ _ 8 _ _ _ _ _ (show acIs[8]? = some (emptyI 9) from rfl) rfl]
    have hb9 := ac_bind_for_args (Vars.updateOutput vars2 (some aArray) (some (Coll.handleName s2.coll.next))) hA
      (by simp only [Vars.updateOutput]; rw [get_set, if_neg (by decide)]; exact hvA2)
    rw [eval_for_first_next (F + 2) (d + 1) acIs 9 13 _ _
      (show acIs[9]? = some (mkI 10 none "for" (some [[.lit aArg], [.lit "in".toList], [.var aArgs]])) from rfl) rfl rfl
      _ (acS3 s2)
      aArg hA a hb9 hpop9 ac_findFor9
      (by rw [flowKey_aKey (acS3 s2) hpost2.ctx]; exact hpost2.inv.c9)
      hnext9 _ _ _]
    have h5 := hrun5 (F + 2) (fuel + 3)
    rw [acCost_congr _ _ _ hcong] at h5
    have hnx : Coll.handleName s2.coll.next = Coll.handleName s.coll.next := by rw [hcoll2]
    simp only [Vars.updateOutput, hnx] at h5 ⊢
    erw [h5, ac_tail (F + 2) (d + 2) s5 vars5 _ hpost5.vars.array]
    rfl
  · have hT := hpost5.tbl
    refine ⟨hpost5.inv, hpost5.forStack, ?_, ?_, ?_, ?_, hpost5.vars.clr⟩
    · rw [hpost5.ifStack]; exact hpost2.ifStack
    · rw [hpost5.next]; show s2.coll.next + 1 = _; rw [hcoll2]
    · rw [hT.arr, acCells_congr _ _ _ hcong]
      rfl
    · intro k hk
      rw [hT.other k hk, tget_tinsert, if_neg hk]

end Duck.ScriptRun
