/-
  C17 — lemmas about JSON concrete syntax trees (`Spec/JsonCst.lean`): the reader of
  `Sdk/JsonText.lean` returns the value of every well-formed tree whatever white space, escape
  spelling and member order the text uses; `insertF` is a map insertion that keeps the keys
  strictly increasing.
-/
import DuckModel.Spec.JsonCst
import DuckModel.Lemmas.JsonTextLemmas

namespace Duck.JsonCst
open Duck Duck.Enc Duck.JsonText

/-! ## strings: every spelling -/

theorem parseChars_u4 (a b c d : Char) (n : Nat) (T : List Char) (h : hex4 a b c d = some n)
    (hr : n < 0xD800 ∨ 0xE000 ≤ n) :
    parseChars ('\\' :: 'u' :: a :: b :: c :: d :: T) = consRes (Char.ofNat n) (parseChars T) := by
  rw [parseChars.eq_def]
  have h1 : ¬ (0xDC00 ≤ n ∧ n ≤ 0xDFFF) := by omega
  have h2 : ¬ (0xD800 ≤ n ∧ n ≤ 0xDBFF) := by omega
  simp [h, h1, h2]

theorem parseChars_pair (a b c d a' b' c' d' : Char) (n m : Nat) (T : List Char)
    (h : hex4 a b c d = some n) (h' : hex4 a' b' c' d' = some m)
    (hn : 0xD800 ≤ n ∧ n ≤ 0xDBFF) (hm : 0xDC00 ≤ m ∧ m ≤ 0xDFFF) :
    parseChars ('\\' :: 'u' :: a :: b :: c :: d :: '\\' :: 'u' :: a' :: b' :: c' :: d' :: T) =
      consRes (Char.ofNat ((n - 0xD800) * 1024 + (m - 0xDC00) + 0x10000)) (parseChars T) := by
  rw [parseChars.eq_def]
  have h1 : ¬ (0xDC00 ≤ n ∧ n ≤ 0xDFFF) := by omega
  simp [h, h', h1, hn, hm]

theorem parseChars_spell (ch : Char) (sp : Spell) (T : List Char) (h : spellOK ch sp = true) :
    parseChars (spellText ch sp ++ T) = consRes ch (parseChars T) := by
  cases sp with
  | raw =>
    simp only [spellOK, Bool.and_eq_true, decide_eq_true_eq] at h
    exact parseChars_raw ch T h.1.1 h.1.2 (by omega)
  | short e =>
    simp only [spellOK, Bool.and_eq_true, decide_eq_true_eq] at h
    exact parseChars_short e ch T h.1 h.2
  | u4 a b c d =>
    simp only [spellOK] at h
    cases hx : hex4 a b c d with
    | none => simp [hx] at h
    | some n =>
      simp only [hx, Bool.and_eq_true, Bool.or_eq_true, decide_eq_true_eq] at h
      rw [h.2]
      exact parseChars_u4 a b c d n T hx h.1
  | pair a b c d a' b' c' d' =>
    simp only [spellOK] at h
    cases hx : hex4 a b c d with
    | none => simp [hx] at h
    | some n =>
      cases hy : hex4 a' b' c' d' with
      | none => simp [hx, hy] at h
      | some m =>
        simp only [hx, hy, Bool.and_eq_true, decide_eq_true_eq] at h
        rw [h.2]
        exact parseChars_pair a b c d a' b' c' d' n m T hx hy ⟨h.1.1.1.1, h.1.1.1.2⟩ ⟨h.1.1.2, h.1.2⟩

theorem parseChars_strBody : ∀ (s : StrTok) (rest : List Char), strOK s = true →
    parseChars (strBody s ++ '"' :: rest) = some (strValue s, rest)
  | [], rest, _ => by simp [strBody, strValue, parseChars_quote]
  | p :: r, rest, h => by
    simp only [strOK, List.all_cons, Bool.and_eq_true] at h
    simp only [strBody, List.append_assoc]
    rw [parseChars_spell p.1 p.2 _ h.1, parseChars_strBody r rest (by simpa [strOK] using h.2)]
    rfl

theorem strText_append (s : StrTok) (rest : List Char) :
    strText s ++ rest = '"' :: (strBody s ++ '"' :: rest) := by
  simp [strText]

/-! ## `insertF` is a map insertion that keeps the keys strictly increasing -/

theorem ltStr_trans : ∀ a b c : Str, ltStr a b = true → ltStr b c = true → ltStr a c = true
  | [], [], _, h, _ => by simp [ltStr] at h
  | [], _ :: _, [], _, h => by simp [ltStr] at h
  | [], _ :: _, _ :: _, _, _ => rfl
  | _ :: _, [], _, h, _ => by simp [ltStr] at h
  | _ :: _, _ :: _, [], _, h => by simp [ltStr] at h
  | x :: xs, y :: ys, z :: zs, h1, h2 => by
    simp only [ltStr, Bool.or_eq_true, decide_eq_true_eq, Bool.and_eq_true] at h1 h2 ⊢
    rcases h1 with h1 | ⟨e1, h1⟩
    · rcases h2 with h2 | ⟨e2, _⟩
      · left; omega
      · subst e2; left; exact h1
    · subst e1
      rcases h2 with h2 | ⟨e2, h2⟩
      · left; exact h2
      · subst e2; right; exact ⟨rfl, ltStr_trans xs ys zs h1 h2⟩

theorem ltStr_total : ∀ a b : Str, ltStr a b = false → a ≠ b → ltStr b a = true
  | [], [], _, h => absurd rfl h
  | [], _ :: _, h, _ => by simp [ltStr] at h
  | _ :: _, [], _, _ => rfl
  | x :: xs, y :: ys, h, hne => by
    simp only [ltStr, Bool.or_eq_false_iff, decide_eq_false_iff_not, Bool.and_eq_false_iff] at h
    simp only [ltStr, Bool.or_eq_true, decide_eq_true_eq, Bool.and_eq_true]
    by_cases e : x = y
    · subst e
      right
      refine ⟨rfl, ltStr_total xs ys ?_ (fun e => hne (by rw [e]))⟩
      rcases h.2 with h2 | h2
      · exact absurd rfl h2
      · exact h2
    · left
      have : x.toNat ≠ y.toNat := fun e' => e (Char.toNat_inj.1 e')
      omega

theorem lookupF_insertF_same (k : Str) (v : Json) : ∀ f : JFields,
    lookupF k (insertF k v f) = some v
  | .nil => by simp [insertF, lookupF]
  | .cons k' v' t => by
    simp only [insertF]
    split
    · simp [lookupF]
    · split
      · simp [lookupF]
      · rename_i hne _
        simp [lookupF, Ne.symm hne, lookupF_insertF_same k v t]

theorem lookupF_insertF_other (k k2 : Str) (v : Json) (hne : k2 ≠ k) : ∀ f : JFields,
    lookupF k2 (insertF k v f) = lookupF k2 f
  | .nil => by simp [insertF, lookupF, Ne.symm hne]
  | .cons k' v' t => by
    simp only [insertF]
    split
    · rename_i e; subst e; simp [lookupF, Ne.symm hne]
    · split
      · simp [lookupF, Ne.symm hne]
      · simp only [lookupF, lookupF_insertF_other k k2 v hne t]

theorem keysGt_insertF (k0 k : Str) (v : Json) (h0 : ltStr k0 k = true) : ∀ f : JFields,
    keysGt k0 f = true → keysGt k0 (insertF k v f) = true
  | .nil, _ => by simp [insertF, keysGt, h0]
  | .cons k' v' t, h => by
    simp only [keysGt, Bool.and_eq_true] at h
    simp only [insertF]
    split
    · simp [keysGt, h0, h.2]
    · split
      · simp [keysGt, h0, h.1, h.2]
      · simp [keysGt, h.1, keysGt_insertF k0 k v h0 t h.2]

theorem keysGt_mono (k k' : Str) (h : ltStr k k' = true) : ∀ f : JFields,
    keysGt k' f = true → keysGt k f = true
  | .nil, _ => rfl
  | .cons k2 _ t, hf => by
    simp only [keysGt, Bool.and_eq_true] at hf ⊢
    exact ⟨ltStr_trans _ _ _ h hf.1, keysGt_mono k k' h t hf.2⟩

theorem sortedF_insertF (k : Str) (v : Json) : ∀ f : JFields, sortedF f = true →
    sortedF (insertF k v f) = true
  | .nil, _ => by simp [insertF, sortedF, keysGt]
  | .cons k' v' t, h => by
    simp only [sortedF, Bool.and_eq_true] at h
    simp only [insertF]
    split
    · rename_i e; subst e; simp [sortedF, h.1, h.2]
    · split
      · rename_i _ hlt
        simp [sortedF, keysGt, hlt, keysGt_mono k k' hlt t h.1, h.1, h.2]
      · rename_i hne hlt
        have hgt : ltStr k' k = true :=
          ltStr_total k k' (by simpa using hlt) hne
        simp [sortedF, keysGt_insertF k' k v hgt t h.1, sortedF_insertF k v t h.2]

/-! ## white space in front of every token -/

theorem ws_of {w : List Char} (h : allWs w = true) : ∀ c ∈ w, isWs c = true := by
  simpa [allWs, List.all_eq_true] using h

theorem pItems_skip (f rem : Nat) (w s : List Char) (hw : allWs w = true) :
    pItems f rem (w ++ s) = pItems f rem s := by
  cases f with
  | zero => simp [pItems]
  | succ g => rw [pItems, pItems, skipWs_append w s (ws_of hw)]

theorem pField_skip (f rem : Nat) (acc : JFields) (w s : List Char) (hw : allWs w = true) :
    pField f rem acc (w ++ s) = pField f rem acc s := by
  cases f with
  | zero => simp [pField]
  | succ g => rw [pField, pField, skipWs_append w s (ws_of hw)]

theorem pFields_skip (f rem : Nat) (acc : JFields) (w s : List Char) (hw : allWs w = true) :
    pFields f rem acc (w ++ s) = pFields f rem acc s := by
  cases f with
  | zero => simp [pFields]
  | succ g => rw [pFields, pFields, skipWs_append w s (ws_of hw)]

theorem pValue_skip' (f rem : Nat) (w s : List Char) (hw : allWs w = true) :
    pValue f rem (w ++ s) = pValue f rem s := pValue_skip f rem w s (ws_of hw)

theorem pValue_arr0_ws (g rem : Nat) (w rest : List Char) (hw : allWs w = true) (hrem : 1 < rem) :
    pValue (g + 1) rem ('[' :: (w ++ ']' :: rest)) = .ok (.arr .nil, rest) := by
  rw [pValue]
  have : ¬ rem ≤ 1 := by omega
  simp [skipWs, tokFacts, this, skipWs_append w _ (ws_of hw)]

theorem pValue_arr_ws (g rem : Nat) (h : Json) (t : JList) (w S X rest : List Char)
    (hw : allWs w = true) (hrem : 1 < rem) (c1 : Char) (r1 : List Char) (e : S = c1 :: r1)
    (hws : isWs c1 = false) (hne : c1 ≠ ']')
    (hv : pValue g (rem - 1) S = .ok (h, X)) (ht : pItems g (rem - 1) X = .ok (t, rest)) :
    pValue (g + 1) rem ('[' :: (w ++ S)) = .ok (.arr (.cons h t), rest) := by
  rw [pValue]
  have : ¬ rem ≤ 1 := by omega
  subst e
  simp [skipWs, tokFacts, this, skipWs_append w _ (ws_of hw), hws, hne, hv, ht]

theorem pValue_obj0_ws (g rem : Nat) (w rest : List Char) (hw : allWs w = true) (hrem : 1 < rem) :
    pValue (g + 1) rem ('{' :: (w ++ '}' :: rest)) = .ok (.obj .nil, rest) := by
  rw [pValue]
  have : ¬ rem ≤ 1 := by omega
  simp [skipWs, tokFacts, this, skipWs_append w _ (ws_of hw)]

theorem pValue_obj_ws (g rem : Nat) (w Q rest : List Char) (fs : JFields) (hw : allWs w = true)
    (hrem : 1 < rem) (hf : pField g (rem - 1) .nil ('"' :: Q) = .ok (fs, rest)) :
    pValue (g + 1) rem ('{' :: (w ++ '"' :: Q)) = .ok (.obj fs, rest) := by
  rw [pValue]
  have : ¬ rem ≤ 1 := by omega
  simp [skipWs, tokFacts, this, skipWs_append w _ (ws_of hw), hf]

theorem pField_ws (g rem : Nat) (acc : JFields) (k : StrTok) (v : Json) (w0 w1 S X : List Char)
    (h0 : allWs w0 = true) (h1 : allWs w1 = true) (hk : strOK k = true)
    (hv : pValue g rem S = .ok (v, X)) :
    pField (g + 1) rem acc (w0 ++ (strText k ++ (w1 ++ ':' :: S))) =
      pFields g rem (insertF (strValue k) v acc) X := by
  rw [pField_skip _ _ _ _ _ h0, pField, strText_append]
  simp [skipWs, tokFacts, parseChars_strBody k _ hk, skipWs_append w1 _ (ws_of h1), hv]

theorem pFields_end_ws (g rem : Nat) (acc : JFields) (w rest : List Char) (hw : allWs w = true) :
    pFields (g + 1) rem acc (w ++ '}' :: rest) = .ok (acc, rest) := by
  rw [pFields_skip _ _ _ _ _ hw]; exact pFields_nil_step g rem acc rest

theorem pFields_comma_ws (g rem : Nat) (acc : JFields) (w Y : List Char) (hw : allWs w = true) :
    pFields (g + 1) rem acc (w ++ ',' :: Y) = pField g rem acc Y := by
  rw [pFields_skip _ _ _ _ _ hw]; exact pFields_cons_step g rem acc Y

theorem followOK_ws_cons (w : List Char) (c : Char) (X : List Char) (hw : allWs w = true)
    (hc : followOK (c :: X) = true) : followOK (w ++ c :: X) = true := by
  cases w with
  | nil => exact hc
  | cons a r =>
    have ha : isWs a = true := ws_of hw a (by simp)
    simp only [isWs, Bool.or_eq_true, decide_eq_true_eq] at ha
    rcases ha with ((rfl | rfl) | rfl) | rfl <;> simp [followOK, isDigit]

theorem followOK_close (X : List Char) :
    followOK (']' :: X) = true ∧ followOK ('}' :: X) = true ∧ followOK (',' :: X) = true := by
  simp [followOK, isDigit]

/-! ## fuel -/

mutual
  def csize : Cst → Nat
    | .null => 1
    | .bool _ => 1
    | .num _ => 1
    | .str _ => 1
    | .arr0 _ => 1
    | .arr _ h t => 1 + csize h + csizeItems t
    | .obj0 _ => 1
    | .obj m => 1 + csizeFields m
  def csizeItems : CstItems → Nat
    | .nil _ => 1
    | .cons _ _ h t => 1 + csize h + csizeItems t
  def csizeFields : CstFields → Nat
    | .one _ _ _ _ v _ => 2 + csize v
    | .cons _ _ _ _ v _ t => 2 + csize v + csizeFields t
end

theorem strText_length (k : StrTok) : (strText k).length = (strBody k).length + 2 := by
  simp [strText]

mutual
  theorem csize_le : ∀ c : Cst, WF c = true → csize c ≤ (render c).length
    | .null, _ => by simp [csize, render]
    | .bool b, _ => by cases b <;> simp [csize, render, boolText]
    | .num t, h => by
      have := intText_length (t := t) (by simpa [WF] using h)
      simpa [csize, render] using this
    | .str s, _ => by simp [csize, render, strText_length]
    | .arr0 w, _ => by simp [csize, render]
    | .arr w hd t, h => by
      simp only [WF, Bool.and_eq_true] at h
      have h1 := csize_le hd h.1.2
      have h2 := csizeItems_le t h.2
      simp only [csize, render, List.length_cons, List.length_append]
      omega
    | .obj0 w, _ => by simp [csize, render]
    | .obj m, h => by
      simp only [WF] at h
      have h1 := csizeFields_le m h
      simp only [csize, render, List.length_cons]
      omega
  theorem csizeItems_le : ∀ t : CstItems, WFItems t = true → csizeItems t ≤ (renderItems t).length
    | .nil w, _ => by simp [csizeItems, renderItems]
    | .cons w1 w2 hd t, h => by
      simp only [WFItems, Bool.and_eq_true] at h
      have h1 := csize_le hd h.1.2
      have h2 := csizeItems_le t h.2
      simp only [csizeItems, renderItems, List.length_cons, List.length_append]
      omega
  theorem csizeFields_le : ∀ m : CstFields, WFFields m = true →
      csizeFields m ≤ (renderFields m).length
    | .one w0 k w1 w2 v w3, h => by
      simp only [WFFields, Bool.and_eq_true] at h
      have h1 := csize_le v h.1.2
      simp only [csizeFields, renderFields, List.length_cons, List.length_append, strText_length,
        List.length_nil]
      omega
    | .cons w0 k w1 w2 v w3 t, h => by
      simp only [WFFields, Bool.and_eq_true] at h
      have h1 := csize_le v h.1.1.2
      have h2 := csizeFields_le t h.2
      simp only [csizeFields, renderFields, List.length_cons, List.length_append, strText_length]
      omega
end

/-! ## the reader returns the value of every well-formed tree -/

theorem render_head (c : Cst) (h : WF c = true) (X : List Char) :
    ∃ c1 r1, render c ++ X = c1 :: r1 ∧ isWs c1 = false ∧ c1 ≠ ']' := by
  cases c with
  | null => exact ⟨'n', 'u' :: 'l' :: 'l' :: X, by simp [render], by decide, by decide⟩
  | bool b =>
    cases b
    · exact ⟨'f', 'a' :: 'l' :: 's' :: 'e' :: X, by simp [render, boolText], by decide, by decide⟩
    · exact ⟨'t', 'r' :: 'u' :: 'e' :: X, by simp [render, boolText], by decide, by decide⟩
  | num t =>
    obtain ⟨c, r, e, h1, h2⟩ := intText_head (t := t) (by simpa [WF] using h)
    exact ⟨c, r ++ X, by simp [render, e], h1, h2⟩
  | str s => exact ⟨'"', strBody s ++ '"' :: X, by simp [render, strText], by decide, by decide⟩
  | arr0 w => exact ⟨'[', w ++ ']' :: X, by simp [render], by decide, by decide⟩
  | arr w hd t => exact ⟨'[', w ++ (render hd ++ (renderItems t ++ X)), by simp [render], by decide, by decide⟩
  | obj0 w => exact ⟨'{', w ++ '}' :: X, by simp [render], by decide, by decide⟩
  | obj m => exact ⟨'{', renderFields m ++ X, by simp [render], by decide, by decide⟩

theorem followOK_items (t : CstItems) (h : WFItems t = true) (rest : List Char) :
    followOK (renderItems t ++ rest) = true := by
  cases t with
  | nil w =>
    simp only [WFItems] at h
    simpa [renderItems] using followOK_ws_cons w ']' rest h (followOK_close _).1
  | cons w1 w2 hd t =>
    simp only [WFItems, Bool.and_eq_true] at h
    simpa [renderItems] using followOK_ws_cons w1 ',' _ h.1.1.1 (followOK_close _).2.2

mutual
  theorem pValue_render : ∀ (c : Cst) (f rem : Nat) (rest : List Char),
      WF c = true → csize c ≤ f → cdepth c < rem → followOK rest = true →
      pValue f rem (render c ++ rest) = .ok (value c, rest)
    | .null, f, rem, rest, _, hf, _, _ => by
      obtain ⟨g, rfl⟩ : ∃ g, f = g + 1 := ⟨f - 1, by simp only [csize] at hf; omega⟩
      simpa [render, value] using pValue_null_step g rem rest
    | .bool b, f, rem, rest, _, hf, _, _ => by
      obtain ⟨g, rfl⟩ : ∃ g, f = g + 1 := ⟨f - 1, by simp only [csize] at hf; omega⟩
      simpa [render, value] using pValue_bool_step g rem b rest
    | .num t, f, rem, rest, hw, hf, _, hfo => by
      obtain ⟨g, rfl⟩ : ∃ g, f = g + 1 := ⟨f - 1, by simp only [csize] at hf; omega⟩
      simpa [render, value] using pValue_num_step g rem t rest (by simpa [WF] using hw) hfo
    | .str s, f, rem, rest, hw, hf, _, _ => by
      obtain ⟨g, rfl⟩ : ∃ g, f = g + 1 := ⟨f - 1, by simp only [csize] at hf; omega⟩
      simp only [WF] at hw
      simp only [render, value]
      rw [pValue, strText_append]
      simp [skipWs, tokFacts, parseChars_strBody s _ hw]
    | .arr0 w, f, rem, rest, hw, hf, hd, _ => by
      obtain ⟨g, rfl⟩ : ∃ g, f = g + 1 := ⟨f - 1, by simp only [csize] at hf; omega⟩
      simp only [WF] at hw
      simp only [cdepth] at hd
      simpa [render, value] using pValue_arr0_ws g rem w rest hw hd
    | .arr w h t, f, rem, rest, hw, hf, hd, _ => by
      simp only [WF, Bool.and_eq_true] at hw
      simp only [csize] at hf
      simp only [cdepth] at hd
      obtain ⟨g, rfl⟩ : ∃ g, f = g + 1 := ⟨f - 1, by omega⟩
      have hv := pValue_render h g (rem - 1) (renderItems t ++ rest) hw.1.2 (by omega) (by omega)
        (followOK_items t hw.2 rest)
      have ht := pItems_render t g (rem - 1) rest hw.2 (by omega) (by omega)
      obtain ⟨c1, r1, e, hws, hne⟩ := render_head h hw.1.2 (renderItems t ++ rest)
      have := pValue_arr_ws g rem (value h) (valueItems t) w _ _ rest hw.1.1 (by omega) c1 r1 e
        hws hne hv ht
      simpa [render, value, List.append_assoc] using this
    | .obj0 w, f, rem, rest, hw, hf, hd, _ => by
      obtain ⟨g, rfl⟩ : ∃ g, f = g + 1 := ⟨f - 1, by simp only [csize] at hf; omega⟩
      simp only [WF] at hw
      simp only [cdepth] at hd
      simpa [render, value] using pValue_obj0_ws g rem w rest hw hd
    | .obj m, f, rem, rest, hw, hf, hd, _ => by
      simp only [WF] at hw
      simp only [csize] at hf
      simp only [cdepth] at hd
      obtain ⟨g, rfl⟩ : ∃ g, f = g + 1 := ⟨f - 1, by omega⟩
      have hm := pField_render m g (rem - 1) .nil rest hw (by omega) (by omega)
      -- the reader strips the white space in front of the first key itself
      cases m with
      | one w0 k w1 w2 v w3 =>
        simp only [WFFields, Bool.and_eq_true] at hw
        simp only [renderFields, List.append_assoc] at hm
        rw [pField_skip _ _ _ _ _ hw.1.1.1.1.1, strText_append] at hm
        have := pValue_obj_ws g rem w0 _ rest _ hw.1.1.1.1.1 (by omega) hm
        simpa [render, value, renderFields, strText_append, List.append_assoc] using this
      | cons w0 k w1 w2 v w3 t =>
        simp only [WFFields, Bool.and_eq_true] at hw
        simp only [renderFields, List.append_assoc] at hm
        rw [pField_skip _ _ _ _ _ hw.1.1.1.1.1.1, strText_append] at hm
        have := pValue_obj_ws g rem w0 _ rest _ hw.1.1.1.1.1.1 (by omega) hm
        simpa [render, value, renderFields, strText_append, List.append_assoc] using this
  theorem pItems_render : ∀ (t : CstItems) (f rem : Nat) (rest : List Char),
      WFItems t = true → csizeItems t ≤ f → cdepthItems t < rem →
      pItems f rem (renderItems t ++ rest) = .ok (valueItems t, rest)
    | .nil w, f, rem, rest, hw, hf, _ => by
      obtain ⟨g, rfl⟩ : ∃ g, f = g + 1 := ⟨f - 1, by simp only [csizeItems] at hf; omega⟩
      simp only [WFItems] at hw
      simp only [renderItems, valueItems, List.append_assoc, List.cons_append, List.nil_append]
      rw [pItems_skip _ _ _ _ hw]
      exact pItems_nil_step g rem rest
    | .cons w1 w2 h t, f, rem, rest, hw, hf, hd => by
      simp only [WFItems, Bool.and_eq_true] at hw
      simp only [csizeItems] at hf
      simp only [cdepthItems] at hd
      obtain ⟨g, rfl⟩ : ∃ g, f = g + 1 := ⟨f - 1, by omega⟩
      have hv := pValue_render h g rem (renderItems t ++ rest) hw.1.2 (by omega) (by omega)
        (followOK_items t hw.2 rest)
      rw [← pValue_skip' g rem w2 _ hw.1.1.2] at hv
      have ht := pItems_render t g rem rest hw.2 (by omega) (by omega)
      have := pItems_cons_step g rem _ _ rest (value h) (valueItems t) hv ht
      simp only [renderItems, valueItems, List.append_assoc, List.cons_append]
      rw [pItems_skip _ _ _ _ hw.1.1.1]
      exact this
  theorem pField_render : ∀ (m : CstFields) (f rem : Nat) (acc : JFields) (rest : List Char),
      WFFields m = true → csizeFields m ≤ f → cdepthFields m < rem →
      pField f rem acc (renderFields m ++ rest) = .ok (valueFields acc m, rest)
    | .one w0 k w1 w2 v w3, f, rem, acc, rest, hw, hf, hd => by
      simp only [WFFields, Bool.and_eq_true] at hw
      simp only [csizeFields] at hf
      simp only [cdepthFields] at hd
      obtain ⟨g, rfl⟩ : ∃ g, f = g + 2 := ⟨f - 2, by omega⟩
      have hfo : followOK (w3 ++ '}' :: rest) = true := followOK_ws_cons w3 '}' rest hw.2 (followOK_close _).2.1
      have hv := pValue_render v (g + 1) rem (w3 ++ '}' :: rest) hw.1.2 (by omega) (by omega) hfo
      rw [← pValue_skip' (g + 1) rem w2 _ hw.1.1.2] at hv
      have h1 := pField_ws (g + 1) rem acc k (value v) w0 w1 _ _ hw.1.1.1.1.1 hw.1.1.1.2
        hw.1.1.1.1.2 hv
      rw [pFields_end_ws g rem _ w3 rest hw.2] at h1
      simpa [renderFields, valueFields, List.append_assoc] using h1
    | .cons w0 k w1 w2 v w3 t, f, rem, acc, rest, hw, hf, hd => by
      simp only [WFFields, Bool.and_eq_true] at hw
      simp only [csizeFields] at hf
      simp only [cdepthFields] at hd
      obtain ⟨g, rfl⟩ : ∃ g, f = g + 2 := ⟨f - 2, by omega⟩
      have hfo : followOK (w3 ++ ',' :: (renderFields t ++ rest)) = true :=
        followOK_ws_cons w3 ',' _ hw.1.2 (followOK_close _).2.2
      have hv := pValue_render v (g + 1) rem _ hw.1.1.2 (by omega) (by omega) hfo
      rw [← pValue_skip' (g + 1) rem w2 _ hw.1.1.1.2] at hv
      have h1 := pField_ws (g + 1) rem acc k (value v) w0 w1 _ _ hw.1.1.1.1.1.1 hw.1.1.1.1.2
        hw.1.1.1.1.1.2 hv
      have ht := pField_render t g rem (insertF (strValue k) (value v) acc) rest hw.2 (by omega)
        (by omega)
      rw [pFields_comma_ws g rem _ w3 _ hw.1.2, ht] at h1
      simpa [renderFields, valueFields, List.append_assoc] using h1
end

/-- `from_str` of the text of a well-formed tree, white space before and after it -/
theorem parseJsonE_render (c : Cst) (w w' : List Char) (hw : allWs w = true)
    (hw' : allWs w' = true) (hc : WF c = true) (hd : cdepth c ≤ 127) :
    parseJsonE (w ++ render c ++ w') = .ok (value c) := by
  unfold parseJsonE
  rw [List.append_assoc, pValue_skip' _ _ w _ hw]
  have hsz := csize_le c hc
  rw [pValue_render c _ depthLimit w' hc (by simp only [List.length_append]; omega)
    (by unfold depthLimit; omega) (followOK_ws w' (ws_of hw'))]
  simp [skipWs_all w' (ws_of hw')]

/-! ## the value of a well-formed tree is in the class of the round-trip theorems -/

theorem exactNumsF_insertF (k : Str) (v : Json) (hv : ExactNums v = true) : ∀ f : JFields,
    ExactNumsF f = true → ExactNumsF (insertF k v f) = true
  | .nil, _ => by simp [insertF, ExactNumsF, hv]
  | .cons k' v' t, h => by
    simp only [ExactNumsF, Bool.and_eq_true] at h
    simp only [insertF]
    split
    · simp [ExactNumsF, hv, h.2]
    · split
      · simp [ExactNumsF, hv, h.1, h.2]
      · simp [ExactNumsF, h.1, exactNumsF_insertF k v hv t h.2]

theorem sortedKeysF_insertF (k : Str) (v : Json) (hv : SortedKeys v = true) : ∀ f : JFields,
    SortedKeysF f = true → SortedKeysF (insertF k v f) = true
  | .nil, _ => by simp [insertF, SortedKeysF, hv]
  | .cons k' v' t, h => by
    simp only [SortedKeysF, Bool.and_eq_true] at h
    simp only [insertF]
    split
    · simp [SortedKeysF, hv, h.2]
    · split
      · simp [SortedKeysF, hv, h.1, h.2]
      · simp [SortedKeysF, h.1, sortedKeysF_insertF k v hv t h.2]

theorem depthF_insertF (k : Str) (v : Json) : ∀ f : JFields,
    depthF (insertF k v f) ≤ max (depth v) (depthF f)
  | .nil => by simp [insertF, depthF]
  | .cons k' v' t => by
    have := depthF_insertF k v t
    simp only [insertF]
    split
    · simp only [depthF]; omega
    · split
      · simp only [depthF]; omega
      · simp only [depthF]; omega

mutual
  theorem value_class : ∀ c : Cst, WF c = true →
      ExactNums (value c) = true ∧ SortedKeys (value c) = true ∧ depth (value c) ≤ cdepth c
    | .null, _ => by simp [value, ExactNums, SortedKeys, depth]
    | .bool _, _ => by simp [value, ExactNums, SortedKeys, depth]
    | .num t, h => by simpa [value, ExactNums, SortedKeys, depth, WF] using h
    | .str _, _ => by simp [value, ExactNums, SortedKeys, depth]
    | .arr0 _, _ => by simp [value, ExactNums, ExactNumsL, SortedKeys, SortedKeysL, depth, depthL, cdepth]
    | .arr w h t, hw => by
      simp only [WF, Bool.and_eq_true] at hw
      obtain ⟨a1, a2, a3⟩ := value_class h hw.1.2
      obtain ⟨b1, b2, b3⟩ := valueItems_class t hw.2
      refine ⟨by simp [value, ExactNums, ExactNumsL, a1, b1],
        by simp [value, SortedKeys, SortedKeysL, a2, b2], ?_⟩
      simp only [value, depth, depthL, cdepth]; omega
    | .obj0 _, _ => by simp [value, ExactNums, ExactNumsF, SortedKeys, SortedKeysF, sortedF, depth, depthF, cdepth]
    | .obj m, hw => by
      simp only [WF] at hw
      obtain ⟨a1, a2, a3, a4⟩ := valueFields_class m .nil hw (by simp [ExactNumsF])
        (by simp [SortedKeysF]) (by simp [sortedF])
      refine ⟨by simpa [value, ExactNums] using a1, by simp [value, SortedKeys, a2, a3], ?_⟩
      simp only [value, depth, cdepth]
      simp only [depthF] at a4
      omega
  theorem valueItems_class : ∀ t : CstItems, WFItems t = true →
      ExactNumsL (valueItems t) = true ∧ SortedKeysL (valueItems t) = true ∧
        depthL (valueItems t) ≤ cdepthItems t
    | .nil _, _ => by simp [valueItems, ExactNumsL, SortedKeysL, depthL]
    | .cons w1 w2 h t, hw => by
      simp only [WFItems, Bool.and_eq_true] at hw
      obtain ⟨a1, a2, a3⟩ := value_class h hw.1.2
      obtain ⟨b1, b2, b3⟩ := valueItems_class t hw.2
      refine ⟨by simp [valueItems, ExactNumsL, a1, b1], by simp [valueItems, SortedKeysL, a2, b2], ?_⟩
      simp only [valueItems, depthL, cdepthItems]; omega
  theorem valueFields_class : ∀ (m : CstFields) (acc : JFields), WFFields m = true →
      ExactNumsF acc = true → SortedKeysF acc = true → sortedF acc = true →
      ExactNumsF (valueFields acc m) = true ∧ SortedKeysF (valueFields acc m) = true ∧
        sortedF (valueFields acc m) = true ∧
        depthF (valueFields acc m) ≤ max (depthF acc) (cdepthFields m)
    | .one w0 k w1 w2 v w3, acc, hw, h1, h2, h3 => by
      simp only [WFFields, Bool.and_eq_true] at hw
      obtain ⟨a1, a2, a3⟩ := value_class v hw.1.2
      have hd := depthF_insertF (strValue k) (value v) acc
      refine ⟨exactNumsF_insertF _ _ a1 acc h1, sortedKeysF_insertF _ _ a2 acc h2,
        sortedF_insertF _ _ acc h3, ?_⟩
      simp only [valueFields, cdepthFields]; omega
    | .cons w0 k w1 w2 v w3 t, acc, hw, h1, h2, h3 => by
      simp only [WFFields, Bool.and_eq_true] at hw
      obtain ⟨a1, a2, a3⟩ := value_class v hw.1.1.2
      have hd := depthF_insertF (strValue k) (value v) acc
      obtain ⟨b1, b2, b3, b4⟩ := valueFields_class t (insertF (strValue k) (value v) acc) hw.2
        (exactNumsF_insertF _ _ a1 acc h1) (sortedKeysF_insertF _ _ a2 acc h2)
        (sortedF_insertF _ _ acc h3)
      refine ⟨b1, b2, b3, ?_⟩
      simp only [valueFields, cdepthFields]; omega
end

end Duck.JsonCst
