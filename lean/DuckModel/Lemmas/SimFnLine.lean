/-
  C05 simulation (functions) — part 3: the context of a simulation (which function body or the
  main block we are in), the per-fuel statements, and the cases straight line / `return` / call.
-/
import DuckModel.Lemmas.SimFnCond

namespace Duck
open Duck.Spec Duck.Generated Duck.Fn

/-! ### context and statements -/

/-- where we are: the program, its function end lines, the function environment, the bound below
    which all callable functions end, who may be called, and whether `return` is allowed -/
structure Ctx where
  is : List Instruction
  E : Nat → Prop
  F : FEnv
  B : Nat
  callable : List Str
  rets : Bool

structure CtxOK (c : Ctx) : Prop where
  env : EnvOK c.is c.E c.F
  callee : ∀ n, c.callable.contains n = true → ∃ fd fi, lookupFn c.F.tf n = some fd ∧
    c.F.sf.get n = some fi ∧ fi.stop < c.B

/-- every registered function's end line carries the end command of functions -/
def EndFnOK (F : FEnv) (s : Sdk) : Prop :=
  ∀ n fi, F.sf.get n = some fi → s.endTable.get (lineKey s fi.stop) = some fullNameEndFunction

/-- what is assumed of the states before a piece on lines `[lo, hi)` runs -/
structure Pre (c : Ctx) (lo hi : Nat) (s : Sdk) (t : TState) : Prop where
  cache : CacheOK c.is s
  rel : RelF c.F s t
  forOK : ForOKF c.B lo hi s.forStack
  bound : c.B ≤ lo
  noEnd : ∀ k, lo ≤ k → k < hi → ¬ c.E k
  depth : c.rets = true → t.depth ≠ 0
  endFn : EndFnOK c.F s

theorem EnvOK.isEnd {is : List Instruction} {E : Nat → Prop} {F : FEnv} (h : EnvOK is E F) {n : Str}
    {fi : FnInfo} (hs : F.sf.get n = some fi) : E fi.stop := by
  cases hl : lookupFn F.tf n with
  | none => rw [(h.undef n hl).1] at hs; cases hs
  | some fd =>
    obtain ⟨_, fi', kw, kwEnd, cl, hok⟩ := h.defd n fd hl
    rw [hok.sf] at hs
    injection hs with hs
    subst hs
    exact hok.isEnd

theorem Pre.sub {c : Ctx} {lo hi lo' hi' : Nat} {s : Sdk} {t : TState} (h : Pre c lo hi s t)
    (h1 : lo ≤ lo') (h2 : hi' ≤ hi) : Pre c lo' hi' s t :=
  ⟨h.cache, h.rel, h.forOK.mono h1 h2, Nat.le_trans h.bound h1,
    fun k hk1 hk2 => h.noEnd k (by omega) (by omega), h.depth, h.endFn⟩

/-- the precondition for what runs after a piece of `[lo, hi)` ended in `(s', t')` -/
theorem Pre.after {c : Ctx} (hc : CtxOK c) {lo hi lo' hi' : Nat} {A : Str → Bool} {s s' : Sdk}
    {t t' : TState} (h : Pre c lo hi s t)
    (hcore : SimCoreF c.is c.E c.F c.B lo hi A s t t' s') (hfor : s'.forStack = s.forStack)
    (h1 : lo ≤ lo') (h2 : hi' ≤ hi) : Pre c lo' hi' s' t' := by
  refine ⟨hcore.cache, hcore.rel, by rw [hfor]; exact h.forOK.mono h1 h2, Nat.le_trans h.bound h1,
    fun k hk1 hk2 => h.noEnd k (by omega) (by omega), fun hr => by rw [hcore.depth]; exact h.depth hr,
    ?_⟩
  intro n fi hs
  have hE := hc.env.isEnd hs
  rw [lineKey_congr hcore.frame.ctx, hcore.frame.endT fi.stop ?_]
  · exact h.endFn n fi hs
  · rintro (⟨a, b⟩ | ⟨_, b⟩)
    · exact h.noEnd _ a b hE
    · exact b hE

/-- only the stacks (not the for stack) differ -/
theorem Pre.core {c : Ctx} {lo hi : Nat} {s s' : Sdk} {t : TState} (h : Pre c lo hi s t)
    (he : coreOf s' = coreOf s) (hfor : s'.forStack = s.forStack) : Pre c lo hi s' t := by
  refine ⟨h.cache.core he, h.rel.core he, by rw [hfor]; exact h.forOK, h.bound, h.noEnd, h.depth, ?_⟩
  intro n fi hs
  have := h.endFn n fi hs
  simp only [coreOf, Prod.mk.injEq] at he
  obtain ⟨_, _, _, h4, _, _, _, h8, _⟩ := he
  rw [lineKey_congr h8, h4]
  exact this

def StmtSimF (c : Ctx) (fuel : Nat) : Prop :=
  ∀ (st : Stmt) (inFor : Bool) (lo : Nat) (s : Sdk) (t : TState) (o : TOut),
    st.wf = true → st.fnFrag c.F.names c.callable c.F.fa c.rets inFor = true →
    At c.is lo st.flatten → Pre c lo (lo + st.flatten.length) s t →
    fsafeStmt c.is fuel st t = true → execStmt c.is fuel st t = o →
    SimOut c.is c.E c.F c.B lo (lo + st.flatten.length) (fun x => Stmt.assignsF c.F.fa x st) inFor s t o

def BlockSimF (c : Ctx) (fuel : Nat) : Prop :=
  ∀ (b : Block) (inFor : Bool) (lo : Nat) (s : Sdk) (t : TState) (o : TOut),
    b.wf = true → b.fnFrag c.F.names c.callable c.F.fa c.rets inFor = true →
    At c.is lo b.flatten → Pre c lo (lo + b.flatten.length) s t →
    fsafeBlock c.is fuel b t = true → execBlock c.is fuel b t = o →
    SimOut c.is c.E c.F c.B lo (lo + b.flatten.length) (fun x => Block.assignsF c.F.fa x b) inFor s t o

/-! ### straight lines -/

theorem runStep_cmd_error' (nested : EvalFn) (is : List Instruction) (l p : Nat) (v : Vars) (s : Sdk)
    (mi : Meta) (out : Option Str) (cmd : Str) (args : List Str) (c : Cmd) (e : Str)
    (v' : Vars) (s' : Sdk)
    (hi : is[l]? = some ⟨mi, .script (mkInstr out cmd args)⟩)
    (hc : resolveCmd s cmd = some c)
    (hr : runCmdF nested is 3 c (bind v (some args)) out l v s = (.error e, v', s'))
    (hoe : resolveCmd s' onErrorName = none) :
    runStep (sdkSem nested is) is (labelTable is) (fun _ _ => false) ⟨l, p, v, s⟩ =
      .inl ⟨l + 1, p + 1, Vars.updateOutput v' out (some "false".toList), s'⟩ := by
  unfold runStep
  simp only [Bool.false_eq_true, if_false, hi, runInstruction, mkInstr, sdkSem, hc, bind_mkArgs, hr,
    runOnError, hoe]

theorem line_coreF (is : List Instruction) (E : Nat → Prop) (F : FEnv) (B lo hi : Nat) (A : Str → Bool)
    (s : Sdk) (t : TState)
    (V : Vars) (hd : KV (List Str)) (nx : Nat) (em : List (List Str))
    (hc : CacheOK is s) (hrel : RelF F s t)
    (hcases : (hd = t.sdk.handles ∧ nx = t.sdk.nextHandle) ∨
      (∃ items, hd = t.sdk.handles.put (handleName t.sdk.nextHandle) items ∧ nx = t.sdk.nextHandle + 1))
    (hV : ∀ x, A x = false → V.get x = t.vars.get x) :
    SimCoreF is E F B lo hi A s t
      { t with vars := V, sdk := { t.sdk with handles := hd, nextHandle := nx, emitted := em } }
      { s with handles := hd, nextHandle := nx, emitted := em } := by
  refine ⟨hc.of_eq rfl rfl rfl rfl, ⟨rfl, rfl, rfl, hrel.sfns, hrel.tsfns, hrel.tfns, ?_⟩,
    FrameF.of_eq rfl rfl, ?_, hV, rfl⟩
  · rcases hcases with ⟨rfl, rfl⟩ | ⟨items, rfl, rfl⟩
    · exact hrel.hok
    · exact hrel.hok.put items
  · intro k l hk
    rcases hcases with ⟨rfl, rfl⟩ | ⟨items, rfl, rfl⟩
    · exact hk
    · exact hrel.hok.put_mono items k l hk

/-- a plain command line -/
theorem stmt_lineF (c : Ctx) (hc : CtxOK c) (fuel : Nat) (l : Line) (inFor : Bool) (lo : Nat) (s : Sdk)
    (t : TState) (o : TOut) (hs : isSimpleCmd l.cmd = true)
    (hat : At c.is lo (Stmt.line l).flatten) (hpre : Pre c lo (lo + 1) s t)
    (hex : execStmt c.is (fuel + 1) (.line l) t = o) :
    SimOut c.is c.E c.F c.B lo (lo + 1) (fun x => Stmt.assignsF c.F.fa x (.line l)) inFor s t o := by
  obtain ⟨cm, hres, hsc⟩ := isSimpleCmd_resolve hs
  have hl : lookupFn t.fns l.cmd = none := by rw [hpre.rel.tfns]; exact hc.env.not_builtin hres
  simp only [Stmt.flatten] at hat
  have hi := At.head hat
  obtain ⟨r, hd, nx, em, hrun, hcases, hng, hne⟩ :=
    simple_cmd cm hsc (bind t.vars (some l.args)) t.sdk.handles t.sdk.nextHandle t.sdk.emitted
  have htree := hrun (evalInstrsF fuel) c.is l.out 0 t.vars t.sdk rfl rfl rfl
  have hmach := fun nested => hrun nested c.is l.out lo t.vars s hpre.rel.handles hpre.rel.next
    hpre.rel.emitted
  simp only [execStmt, hl, execLine, resolveCmd_of_empty t.sdk hres, bind_mkArgs, htree] at hex
  have hA : ∀ val x, (fun x => Stmt.assignsF c.F.fa x (.line l)) x = false →
      (Vars.updateOutput t.vars l.out val).get x = t.vars.get x := by
    intro val x hx
    apply Vars.get_updateOutput_ne
    simp only [Stmt.assignsF, Bool.or_eq_false_iff] at hx
    intro e
    rw [e] at hx
    simp at hx
  have hoe : ∀ s' : Sdk, s'.fns = s.fns → resolveCmd s' onErrorName = none := fun s' h =>
    resolveCmd_none_env (by rw [resolve_onError_empty]; rfl)
      (by rw [h, hpre.rel.sfns]; exact hc.env.onError)
  cases r with
  | «continue» val =>
    subst hex
    exact ⟨_, Steps.single (fun nested p =>
        runStep_cmd_continue nested c.is lo p t.vars s _ l.out l.cmd l.args cm val t.vars _ hi
          (resolveCmd_of_empty s hres) (hmach nested)),
      line_coreF c.is c.E c.F c.B lo (lo + 1) _ s t _ hd nx em hpre.cache hpre.rel hcases (hA val),
      GarbF.refl _ _ _ _ _, GarbF.refl _ _ _ _ _, rfl, rfl, rfl⟩
  | error e =>
    subst hex
    exact ⟨_, Steps.single (fun nested p =>
        runStep_cmd_error' nested c.is lo p t.vars s _ l.out l.cmd l.args cm e t.vars _ hi
          (resolveCmd_of_empty s hres) (hmach nested) (hoe _ rfl)),
      line_coreF c.is c.E c.F c.B lo (lo + 1) _ s t _ hd nx em hpre.cache hpre.rel hcases (hA _),
      GarbF.refl _ _ _ _ _, GarbF.refl _ _ _ _ _, rfl, rfl, rfl⟩
  | crash e => subst hex; trivial
  | «exit» v => subst hex; trivial
  | goTo v g => subst hex; trivial

/-! ### `return` -/

theorem stmt_retF (c : Ctx) (fuel : Nat) (kw : Str) (value : Option Str) (lo : Nat) (s : Sdk)
    (t : TState) (o : TOut) (hwf : (Stmt.ret kw value).wf = true)
    (hat : At c.is lo (Stmt.ret kw value).flatten) (hpre : Pre c lo (lo + 1) s t)
    (hd : t.depth ≠ 0)
    (hex : execStmt c.is (fuel + 1) (.ret kw value) t = o) :
    SimOut c.is c.E c.F c.B lo (lo + 1) (fun x => Stmt.assignsF c.F.fa x (.ret kw value)) false s t o := by
  have ho : o = .returning (retVal t.vars value) t := by
    rw [← hex]
    simp only [execStmt, hd, if_false, retVal]
    cases value with
    | none => rfl
    | some w =>
      simp only
      generalize bind t.vars (some [w]) = L
      cases L <;> rfl
  subst ho
  simp only [Stmt.flatten] at hat
  refine ⟨rfl, s, lo, SimAt.refl hpre.cache hpre.rel, Nat.le_refl _, by omega, ?_⟩
  refine ⟨_, kw, value, At.head hat, hwf, rfl⟩

end Duck
