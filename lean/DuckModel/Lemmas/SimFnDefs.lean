/-
  C05 simulation (functions) — part 1: the invariants of the simulation, generalised from the C04
  ones (Lemmas/SimInv.lean, SimCore.lean):
    * garbage on the if / while stacks may also come from CALLED functions: its keys lie inside the
      statement's lines `[lo, hi)` or below the bound `B` (all callable functions end before `B`);
    * the end table may change on those lines too, but never on a function's end line (`E`);
    * machine and tree agree on the fixed function environment `F`;
    * besides the normal outcome there is "the machine stands on the `return` line" (`SimRet`).
-/
import DuckModel.Lemmas.SimMain
import DuckModel.Spec.TreeFn
import DuckModel.Props.C05Core

namespace Duck
open Duck.Spec Duck.Generated

/-! ### regions -/

/-- keys of garbage entries: below the bound `B` (left by called functions) or inside `[lo, hi)` -/
def InR (B lo hi k : Nat) : Prop := k < B ∨ (lo ≤ k ∧ k < hi)

/-- the stack `st` is `K` below garbage whose `key` lies in the region -/
def GarbF {α : Type} (key : α → Nat) (B lo hi : Nat) (K st : List α) : Prop :=
  ∃ G, st = G ++ K ∧ ∀ e ∈ G, InR B lo hi (key e)

theorem GarbF.refl {α : Type} (key : α → Nat) (B lo hi : Nat) (K : List α) : GarbF key B lo hi K K :=
  ⟨[], rfl, by simp⟩

theorem GarbF.trans {α : Type} {key : α → Nat} {B lo hi : Nat} {K st1 st2 : List α}
    (h1 : GarbF key B lo hi K st1) (h2 : GarbF key B lo hi st1 st2) : GarbF key B lo hi K st2 := by
  obtain ⟨G1, rfl, hG1⟩ := h1
  obtain ⟨G2, rfl, hG2⟩ := h2
  refine ⟨G2 ++ G1, by simp, fun e he => ?_⟩
  rcases List.mem_append.mp he with h | h
  · exact hG2 e h
  · exact hG1 e h

theorem GarbF.mono {α : Type} {key : α → Nat} {B lo hi B' lo' hi' : Nat} {K st : List α}
    (h : GarbF key B lo hi K st) (hr : ∀ k, InR B lo hi k → InR B' lo' hi' k) :
    GarbF key B' lo' hi' K st := by
  obtain ⟨G, rfl, hG⟩ := h
  exact ⟨G, rfl, fun e he => hr _ (hG e he)⟩

theorem GarbF.cons {α : Type} {key : α → Nat} {B lo hi : Nat} {K st : List α} (x : α)
    (h : GarbF key B lo hi (x :: K) st) (hx : InR B lo hi (key x)) : GarbF key B lo hi K st := by
  obtain ⟨G, rfl, hG⟩ := h
  refine ⟨G ++ [x], by simp, fun e he => ?_⟩
  rcases List.mem_append.mp he with h | h
  · exact hG e h
  · simp at h; subst h; exact hx

theorem InR.sub {B lo hi lo' hi' k : Nat} (h : InR B lo' hi' k) (h1 : lo ≤ lo') (h2 : hi' ≤ hi) :
    InR B lo hi k := by
  unfold InR at *; omega

/-- lines whose end-table entry may change: inside `[lo, hi)`, or below `B` but not a function end -/
def RegP (E : Nat → Prop) (B lo hi l : Nat) : Prop := (lo ≤ l ∧ l < hi) ∨ (l < B ∧ ¬ E l)

theorem RegP.sub {E : Nat → Prop} {B lo hi lo' hi' l : Nat} (h : RegP E B lo' hi' l) (h1 : lo ≤ lo')
    (h2 : hi' ≤ hi) : RegP E B lo hi l := by
  rcases h with h | h
  · exact .inl ⟨by omega, by omega⟩
  · exact .inr h

structure FrameF (E : Nat → Prop) (B lo hi : Nat) (s s' : Sdk) : Prop where
  endT : ∀ l, ¬ RegP E B lo hi l → s'.endTable.get (lineKey s l) = s.endTable.get (lineKey s l)
  ctx : s'.lineCtx = s.lineCtx

theorem FrameF.refl (E : Nat → Prop) (B lo hi : Nat) (s : Sdk) : FrameF E B lo hi s s :=
  ⟨fun _ _ => rfl, rfl⟩

theorem FrameF.trans {E : Nat → Prop} {B lo hi : Nat} {s1 s2 s3 : Sdk} (h1 : FrameF E B lo hi s1 s2)
    (h2 : FrameF E B lo hi s2 s3) : FrameF E B lo hi s1 s3 := by
  refine ⟨fun l hl => ?_, h2.ctx.trans h1.ctx⟩
  have := h2.endT l hl
  rw [lineKey_congr h1.ctx] at this
  rw [this, h1.endT l hl]

theorem FrameF.mono {E : Nat → Prop} {B lo hi B' lo' hi' : Nat} {s s' : Sdk} (h : FrameF E B lo hi s s')
    (hr : ∀ l, RegP E B lo hi l → RegP E B' lo' hi' l) : FrameF E B' lo' hi' s s' :=
  ⟨fun l hl => h.endT l (fun hc => hl (hr l hc)), h.ctx⟩

theorem FrameF.of_eq {E : Nat → Prop} {B lo hi : Nat} {s s' : Sdk} (h1 : s'.endTable = s.endTable)
    (h3 : s'.lineCtx = s.lineCtx) : FrameF E B lo hi s s' := ⟨fun _ _ => by rw [h1], h3⟩

/-- every entry of the for/in stack belongs to a loop at or above `B` and outside `[lo, hi)` -/
def ForOKF (B lo hi : Nat) (st : List ForCall) : Prop :=
  ∀ e ∈ st, B ≤ e.start ∧ B ≤ e.stop ∧ ¬ (lo ≤ e.start ∧ e.start < hi) ∧ ¬ (lo ≤ e.stop ∧ e.stop < hi)

theorem ForOKF.mono {B lo hi lo' hi' : Nat} {st : List ForCall} (h : ForOKF B lo hi st) (h1 : lo ≤ lo')
    (h2 : hi' ≤ hi) : ForOKF B lo' hi' st :=
  fun e he => by have := h e he; omega

/-- for the body `[lo', hi')` of a function called from here: it ends below `B` -/
theorem ForOKF.callee {B lo hi B' lo' hi' : Nat} {st : List ForCall} (h : ForOKF B lo hi st)
    (h1 : B' ≤ B) (h2 : hi' ≤ B) : ForOKF B' lo' hi' st :=
  fun e he => by have := h e he; omega

/-! ### the function environment -/

/-- the functions of the program, as the tree interpreter (`tf`, and `tsf` inside its `Sdk`) and the
    machine (`sf`) hold them while the main block and the bodies run; `fa` = the call oracle of
    `assignsF` -/
structure FEnv where
  tf : List (Str × FnDef)
  sf : KV FnInfo
  tsf : KV FnInfo
  names : List Str
  fa : Str → Str → Bool

def digitsOnly (v : Str) : Bool := v.all Char.isDigit

/-- function `n` of the environment sits in the program where the machine thinks it does, and its
    body is in the fragment and calls only functions that end before it starts -/
structure FnOK (is : List Instruction) (E : Nat → Prop) (F : FEnv) (n : Str) (fd : FnDef) (fi : FnInfo)
    (kw kwEnd : Str) (callable : List Str) : Prop where
  sf : F.sf.get n = some fi
  isSc : fi.isScoped = fd.isScoped
  loc : At is fi.start (Stmt.fnDef kw fd.isScoped n fd.body kwEnd).flatten
  stop : fi.stop = fi.start + 1 + fd.body.flatten.length
  kwEnd : isEndFnKw kwEnd = true
  wf : fd.body.wf = true
  frag : fd.body.fnFrag F.names callable F.fa true false = true
  callee : ∀ c ∈ callable, ∃ fd' fi', lookupFn F.tf c = some fd' ∧ F.sf.get c = some fi' ∧
    fi'.stop < fi.start
  noEnd : ∀ k, fi.start < k → k < fi.stop → ¬ E k
  isEnd : E fi.stop
  fa : ∀ v, F.fa n v = false →
    fd.isScoped = true ∨ (digitsOnly v = false ∧ fd.body.assignsF F.fa v = false)

structure EnvOK (is : List Instruction) (E : Nat → Prop) (F : FEnv) : Prop where
  undef : ∀ n, lookupFn F.tf n = none → F.sf.get n = none ∧ F.tsf.get n = none
  defd : ∀ n fd, lookupFn F.tf n = some fd →
    fnNameOK n = true ∧ ∃ fi kw kwEnd callable, FnOK is E F n fd fi kw kwEnd callable
  names : ∀ n, F.names.contains n = true ↔ lookupFn F.tf n ≠ none

theorem EnvOK.not_builtin {is : List Instruction} {E : Nat → Prop} {F : FEnv} (h : EnvOK is E F)
    {n : Str} {c : Cmd} (hc : resolveCmd {} n = some c) : lookupFn F.tf n = none := by
  cases hl : lookupFn F.tf n with
  | none => rfl
  | some fd =>
    have := (h.defd n fd hl).1
    simp only [fnNameOK, Bool.and_eq_true] at this
    rw [hc] at this
    simp at this

theorem EnvOK.onError {is : List Instruction} {E : Nat → Prop} {F : FEnv} (h : EnvOK is E F) :
    F.sf.get onErrorName = none := by
  cases hl : lookupFn F.tf onErrorName with
  | none => exact (h.undef _ hl).1
  | some fd =>
    have := (h.defd _ fd hl).1
    simp [fnNameOK] at this

/-- `resolveCmd` with the environment's functions: a name that is neither a command nor a function -/
theorem resolveCmd_none_env {s : Sdk} {w : Str} (hb : (resolveCmd {} w).isNone = true)
    (hf : s.fns.get w = none) : resolveCmd s w = none := by
  rw [resolveCmd_eq, Option.isNone_iff_eq_none.mp hb, hf]
  rfl

/-- a function name resolves to its call -/
theorem resolveCmd_call {s : Sdk} {w : Str} {fi : FnInfo} (hb : (resolveCmd {} w).isNone = true)
    (hf : s.fns.get w = some fi) : resolveCmd s w = some (.call w) := by
  rw [resolveCmd_eq, Option.isNone_iff_eq_none.mp hb, hf]
  rfl

/-! ### machine / tree relation and the outcome of a simulated piece -/

structure RelF (F : FEnv) (s : Sdk) (t : TState) : Prop where
  handles : s.handles = t.sdk.handles
  next : s.nextHandle = t.sdk.nextHandle
  emitted : s.emitted = t.sdk.emitted
  sfns : s.fns = F.sf
  tsfns : t.sdk.fns = F.tsf
  tfns : t.fns = F.tf
  hok : HOK t.sdk.handles t.sdk.nextHandle

structure SimCoreF (is : List Instruction) (E : Nat → Prop) (F : FEnv) (B lo hi : Nat) (A : Str → Bool)
    (s : Sdk) (t t' : TState) (s' : Sdk) : Prop where
  cache : CacheOK is s'
  rel : RelF F s' t'
  frame : FrameF E B lo hi s s'
  mono : ∀ k l, t.sdk.handles.get k = some l → t'.sdk.handles.get k = some l
  varsF : ∀ x, A x = false → t'.vars.get x = t.vars.get x
  depth : t'.depth = t.depth

theorem SimCoreF.refl {is : List Instruction} {E : Nat → Prop} {F : FEnv} {B lo hi : Nat}
    {A : Str → Bool} {s : Sdk} {t : TState} (hc : CacheOK is s) (hr : RelF F s t) :
    SimCoreF is E F B lo hi A s t t s :=
  ⟨hc, hr, FrameF.refl E B lo hi s, fun _ _ h => h, fun _ _ => rfl, rfl⟩

theorem SimCoreF.trans {is : List Instruction} {E : Nat → Prop} {F : FEnv} {B lo hi : Nat}
    {A : Str → Bool} {s1 s2 s3 : Sdk} {t1 t2 t3 : TState} (h1 : SimCoreF is E F B lo hi A s1 t1 t2 s2)
    (h2 : SimCoreF is E F B lo hi A s2 t2 t3 s3) : SimCoreF is E F B lo hi A s1 t1 t3 s3 :=
  ⟨h2.cache, h2.rel, h1.frame.trans h2.frame, fun k l h => h2.mono k l (h1.mono k l h),
    fun x hx => (h2.varsF x hx).trans (h1.varsF x hx), h2.depth.trans h1.depth⟩

theorem SimCoreF.mono' {is : List Instruction} {E : Nat → Prop} {F : FEnv} {B lo hi B' lo' hi' : Nat}
    {A A' : Str → Bool} {s s' : Sdk} {t t' : TState} (h : SimCoreF is E F B lo hi A s t t' s')
    (hr : ∀ l, RegP E B lo hi l → RegP E B' lo' hi' l)
    (hA : ∀ x, A' x = false → A x = false) : SimCoreF is E F B' lo' hi' A' s t t' s' :=
  ⟨h.cache, h.rel, h.frame.mono hr, h.mono, fun x hx => h.varsF x (hA x hx), h.depth⟩

/-- same bound, sub-interval -/
theorem SimCoreF.sub {is : List Instruction} {E : Nat → Prop} {F : FEnv} {B lo hi lo' hi' : Nat}
    {A A' : Str → Bool} {s s' : Sdk} {t t' : TState} (h : SimCoreF is E F B lo' hi' A s t t' s')
    (h1 : lo ≤ lo') (h2 : hi' ≤ hi)
    (hA : ∀ x, A' x = false → A x = false) : SimCoreF is E F B lo hi A' s t t' s' :=
  h.mono' (fun _ hl => hl.sub h1 h2) hA

theorem RelF.core {F : FEnv} {s s' : Sdk} {t : TState} (h : RelF F s t) (he : coreOf s' = coreOf s) :
    RelF F s' t := by
  simp only [coreOf, Prod.mk.injEq] at he
  obtain ⟨_, _, _, _, h5, h6, h7, _, h9⟩ := he
  exact ⟨h6.trans h.handles, h7.trans h.next, h9.trans h.emitted, h5.trans h.sfns, h.tsfns, h.tfns, h.hok⟩

theorem FrameF.core_right {E : Nat → Prop} {B lo hi : Nat} {s s' s'' : Sdk} (h : FrameF E B lo hi s s')
    (he : coreOf s'' = coreOf s') : FrameF E B lo hi s s'' := by
  simp only [coreOf, Prod.mk.injEq] at he
  obtain ⟨_, _, _, h4, _, _, _, h8, _⟩ := he
  exact ⟨fun l hl => by rw [h4]; exact h.endT l hl, h8.trans h.ctx⟩

theorem FrameF.core_left {E : Nat → Prop} {B lo hi : Nat} {s s0 s' : Sdk} (h : FrameF E B lo hi s s')
    (he : coreOf s0 = coreOf s) : FrameF E B lo hi s0 s' := by
  simp only [coreOf, Prod.mk.injEq] at he
  obtain ⟨_, _, _, h4, _, _, _, h8, _⟩ := he
  refine ⟨fun l hl => ?_, h.ctx.trans h8.symm⟩
  rw [lineKey_congr h8, h4]
  exact h.endT l hl

theorem SimCoreF.core_right {is : List Instruction} {E : Nat → Prop} {F : FEnv} {B lo hi : Nat}
    {A : Str → Bool} {s s' s'' : Sdk} {t t' : TState} (h : SimCoreF is E F B lo hi A s t t' s')
    (he : coreOf s'' = coreOf s') : SimCoreF is E F B lo hi A s t t' s'' :=
  ⟨h.cache.core he, h.rel.core he, h.frame.core_right he, h.mono, h.varsF, h.depth⟩

theorem SimCoreF.core_left {is : List Instruction} {E : Nat → Prop} {F : FEnv} {B lo hi : Nat}
    {A : Str → Bool} {s s0 s' : Sdk} {t t' : TState} (h : SimCoreF is E F B lo hi A s t t' s')
    (he : coreOf s0 = coreOf s) : SimCoreF is E F B lo hi A s0 t t' s' :=
  ⟨h.cache, h.rel, h.frame.core_left he, h.mono, h.varsF, h.depth⟩

/-- a flow line that evaluated its condition, possibly filled caches and possibly registered an end
    command on a line of `[lo, hi)` -/
theorem SimCoreF.condStep {is : List Instruction} {E : Nat → Prop} {F : FEnv} {B lo hi : Nat}
    {A : Str → Bool} {s s' : Sdk} {t : TState} {em : List (List Str)} (hc : CacheOK is s') (hr : RelF F s t)
    (h1 : s'.handles = s.handles) (h2 : s'.nextHandle = s.nextHandle) (h3 : s'.emitted = em)
    (h4 : s'.fns = s.fns) (h5 : s'.lineCtx = s.lineCtx)
    (h6 : ∀ l, ¬ RegP E B lo hi l → s'.endTable.get (lineKey s l) = s.endTable.get (lineKey s l)) :
    SimCoreF is E F B lo hi A s t (withEm t em) s' :=
  ⟨hc, ⟨h1.trans hr.handles, h2.trans hr.next, h3, h4.trans hr.sfns, hr.tsfns, hr.tfns, hr.hok⟩,
    ⟨h6, h5⟩, fun _ _ h => h, fun _ _ => rfl, rfl⟩

theorem SimCoreF.opener {is : List Instruction} {E : Nat → Prop} {F : FEnv} {B lo hi : Nat}
    {A : Str → Bool} {s s' : Sdk} {t : TState} {em : List (List Str)}
    (stop : Nat) (name : Str) (hc : CacheOK is s') (hr : RelF F s t)
    (h1 : s'.handles = s.handles) (h2 : s'.nextHandle = s.nextHandle) (h3 : s'.emitted = em)
    (h4 : s'.fns = s.fns) (h5 : s'.lineCtx = s.lineCtx)
    (h6 : s'.endTable = s.endTable.put (lineKey s stop) name) (hlo : lo ≤ stop) (hhi : stop < hi) :
    SimCoreF is E F B lo hi A s t (withEm t em) s' :=
  SimCoreF.condStep hc hr h1 h2 h3 h4 h5
    (fun l hl => by
      rw [h6]
      refine endT_put_ne s stop l name (fun e => hl ?_)
      subst e
      exact .inl ⟨hlo, hhi⟩)

theorem SimCoreF.opener0 {is : List Instruction} {E : Nat → Prop} {F : FEnv} {B lo hi : Nat}
    {A : Str → Bool} {s s' : Sdk} {t : TState}
    (stop : Nat) (name : Str) (hc : CacheOK is s') (hr : RelF F s t)
    (h1 : s'.handles = s.handles) (h2 : s'.nextHandle = s.nextHandle) (h3 : s'.emitted = s.emitted)
    (h4 : s'.fns = s.fns) (h5 : s'.lineCtx = s.lineCtx)
    (h6 : s'.endTable = s.endTable.put (lineKey s stop) name) (hlo : lo ≤ stop) (hhi : stop < hi) :
    SimCoreF is E F B lo hi A s t t s' :=
  SimCoreF.opener (em := t.sdk.emitted) stop name hc hr h1 h2 (h3.trans hr.emitted) h4 h5 h6 hlo hhi

theorem RelF.withEm {F : FEnv} {s s' : Sdk} {t : TState} (em : List (List Str)) (h : RelF F s t)
    (h1 : s'.handles = s.handles) (h2 : s'.nextHandle = s.nextHandle) (h3 : s'.emitted = em)
    (h4 : s'.fns = s.fns) : RelF F s' (withEm t em) :=
  ⟨h1.trans h.handles, h2.trans h.next, h3, h4.trans h.sfns, h.tsfns, h.tfns, h.hok⟩

/-- the machine went from line `lo` to line `tgt`; what holds then -/
structure SimAt (is : List Instruction) (E : Nat → Prop) (F : FEnv) (B lo hi : Nat) (A : Str → Bool)
    (s : Sdk) (t t' : TState) (s' : Sdk) (tgt : Nat) : Prop where
  steps : Steps is lo t.vars s tgt t'.vars s'
  core : SimCoreF is E F B lo hi A s t t' s'
  ifS : GarbF IfCall.current B lo hi s.ifStack s'.ifStack
  whS : GarbF WhileCall.stop B lo hi s.whileStack s'.whileStack
  forS : s'.forStack = s.forStack
  fnS : s'.fnStack = s.fnStack
  scS : s'.scopeStack = s.scopeStack

/-- normal outcome: the machine stands on the line after the piece -/
def SimF (is : List Instruction) (E : Nat → Prop) (F : FEnv) (B lo hi : Nat) (A : Str → Bool)
    (s : Sdk) (t t' : TState) : Prop :=
  ∃ s', SimAt is E F B lo hi A s t t' s' hi

/-- the value a `return` line hands back, as the tree interpreter computes it -/
def retVal (vars : Vars) (value : Option Str) : Option Str :=
  match value with
  | none => none
  | some w =>
    match bind vars (some [w]) with
    | [] => none
    | a :: _ => some a

def retArgs (value : Option Str) : List Str :=
  match value with
  | some v => [v]
  | none => []

/-- line `r` is a `return` line handing back `v` -/
def RetLine (is : List Instruction) (r : Nat) (vars : Vars) (v : Option Str) : Prop :=
  ∃ mi kw value, is[r]? = some ⟨mi, .script (mkInstr none kw (retArgs value))⟩ ∧
    namesReturnCommand.contains kw = true ∧ v = retVal vars value

/-- `return` is propagating: the machine stands ON the return line (it has not executed it) -/
def SimRet (is : List Instruction) (E : Nat → Prop) (F : FEnv) (B lo hi : Nat) (A : Str → Bool)
    (s : Sdk) (t t' : TState) (v : Option Str) : Prop :=
  ∃ s' r, SimAt is E F B lo hi A s t t' s' r ∧ lo ≤ r ∧ r < hi ∧ RetLine is r t'.vars v

/-- what has to be shown for an outcome of the tree interpreter -/
def SimOut (is : List Instruction) (E : Nat → Prop) (F : FEnv) (B lo hi : Nat) (A : Str → Bool)
    (inFor : Bool) (s : Sdk) (t : TState) (o : TOut) : Prop :=
  match o with
  | .normal t' => SimF is E F B lo hi A s t t'
  | .returning v t' => inFor = false ∧ SimRet is E F B lo hi A s t t' v
  | _ => True

theorem SimAt.refl {is : List Instruction} {E : Nat → Prop} {F : FEnv} {B lo hi : Nat}
    {A : Str → Bool} {s : Sdk} {t : TState} (hc : CacheOK is s) (hr : RelF F s t) :
    SimAt is E F B lo hi A s t t s lo :=
  ⟨Steps.refl _ _ _ _, SimCoreF.refl hc hr, GarbF.refl _ _ _ _ _, GarbF.refl _ _ _ _ _, rfl, rfl, rfl⟩

/-- sequencing: first piece `[lo, mid)`, then from line `mid` inside `[mid, hi)` -/
theorem SimAt.seq {is : List Instruction} {E : Nat → Prop} {F : FEnv} {B lo mid hi : Nat}
    {A1 A2 A : Str → Bool} {s s1 s2 : Sdk} {t t1 t2 : TState} {tgt : Nat}
    (h1 : SimAt is E F B lo mid A1 s t t1 s1 mid) (h2 : SimAt is E F B mid hi A2 s1 t1 t2 s2 tgt)
    (hlm : lo ≤ mid) (hmh : mid ≤ hi) (hA1 : ∀ x, A x = false → A1 x = false)
    (hA2 : ∀ x, A x = false → A2 x = false) : SimAt is E F B lo hi A s t t2 s2 tgt :=
  ⟨h1.steps.trans h2.steps,
    (h1.core.sub (Nat.le_refl _) hmh hA1).trans (h2.core.sub hlm (Nat.le_refl _) hA2),
    (h1.ifS.mono (fun _ h => h.sub (Nat.le_refl _) hmh)).trans
      (h2.ifS.mono (fun _ h => h.sub hlm (Nat.le_refl _))),
    (h1.whS.mono (fun _ h => h.sub (Nat.le_refl _) hmh)).trans
      (h2.whS.mono (fun _ h => h.sub hlm (Nat.le_refl _))),
    h2.forS.trans h1.forS, h2.fnS.trans h1.fnS, h2.scS.trans h1.scS⟩

theorem SimAt.sub {is : List Instruction} {E : Nat → Prop} {F : FEnv} {B lo hi lo' hi' : Nat}
    {A A' : Str → Bool} {s s' : Sdk} {t t' : TState} {tgt : Nat}
    (h : SimAt is E F B lo hi A s t t' s' tgt) (h1 : lo' ≤ lo) (h2 : hi ≤ hi')
    (hA : ∀ x, A' x = false → A x = false) (hst : Steps is lo' t.vars s tgt t'.vars s') :
    SimAt is E F B lo' hi' A' s t t' s' tgt :=
  ⟨hst, h.core.sub h1 h2 hA, h.ifS.mono (fun _ hk => hk.sub h1 h2),
    h.whS.mono (fun _ hk => hk.sub h1 h2), h.forS, h.fnS, h.scS⟩

/-- a prefix of machine steps (an opener, one loop iteration, …) from `lo` to `lo1`, then a piece
    that runs inside `[lo1, hi1) ⊆ [lo, hi)` -/
theorem SimAt.prefix {is : List Instruction} {E : Nat → Prop} {F : FEnv} {B lo hi lo1 hi1 : Nat}
    {A A1 : Str → Bool} {s s1 s' : Sdk} {t ta t' : TState} {tgt : Nat}
    (hst : Steps is lo t.vars s lo1 ta.vars s1) (hcore : SimCoreF is E F B lo hi A s t ta s1)
    (hif : GarbF IfCall.current B lo hi s.ifStack s1.ifStack)
    (hwh : GarbF WhileCall.stop B lo hi s.whileStack s1.whileStack)
    (hfor : s1.forStack = s.forStack) (hfn : s1.fnStack = s.fnStack)
    (hsc : s1.scopeStack = s.scopeStack)
    (hin : SimAt is E F B lo1 hi1 A1 s1 ta t' s' tgt) (h1 : lo ≤ lo1) (h2 : hi1 ≤ hi)
    (hA : ∀ x, A x = false → A1 x = false) : SimAt is E F B lo hi A s t t' s' tgt :=
  ⟨hst.trans hin.steps, hcore.trans (hin.core.sub h1 h2 hA),
    hif.trans (hin.ifS.mono (fun _ h => h.sub h1 h2)),
    hwh.trans (hin.whS.mono (fun _ h => h.sub h1 h2)),
    hin.forS.trans hfor, hin.fnS.trans hfn, hin.scS.trans hsc⟩

theorem SimRet.prefix {is : List Instruction} {E : Nat → Prop} {F : FEnv} {B lo hi lo1 hi1 : Nat}
    {A A1 : Str → Bool} {s s1 : Sdk} {t ta t' : TState} {v : Option Str}
    (hst : Steps is lo t.vars s lo1 ta.vars s1) (hcore : SimCoreF is E F B lo hi A s t ta s1)
    (hif : GarbF IfCall.current B lo hi s.ifStack s1.ifStack)
    (hwh : GarbF WhileCall.stop B lo hi s.whileStack s1.whileStack)
    (hfor : s1.forStack = s.forStack) (hfn : s1.fnStack = s.fnStack)
    (hsc : s1.scopeStack = s.scopeStack)
    (hin : SimRet is E F B lo1 hi1 A1 s1 ta t' v) (h1 : lo ≤ lo1) (h2 : hi1 ≤ hi)
    (hA : ∀ x, A x = false → A1 x = false) : SimRet is E F B lo hi A s t t' v := by
  obtain ⟨s', r, hat, hr1, hr2, hret⟩ := hin
  exact ⟨s', r, SimAt.prefix hst hcore hif hwh hfor hfn hsc hat h1 h2 hA, by omega, by omega, hret⟩

/-- like `SimAt`, but the if stack is described relative to a given base `K` with garbage keys from
    `loG` on (the else-lines phase of an if chain: the chain's own entry may have become garbage) -/
structure SimAtK (is : List Instruction) (E : Nat → Prop) (F : FEnv) (B loG lo hi : Nat) (A : Str → Bool)
    (K : List IfCall) (s : Sdk) (t t' : TState) (s' : Sdk) (tgt : Nat) : Prop where
  steps : Steps is lo t.vars s tgt t'.vars s'
  core : SimCoreF is E F B lo hi A s t t' s'
  ifS : GarbF IfCall.current B loG hi K s'.ifStack
  whS : GarbF WhileCall.stop B lo hi s.whileStack s'.whileStack
  forS : s'.forStack = s.forStack
  fnS : s'.fnStack = s.fnStack
  scS : s'.scopeStack = s.scopeStack

theorem SimAtK.prefix {is : List Instruction} {E : Nat → Prop} {F : FEnv} {B loG lo hi lo1 hi1 : Nat}
    {A A1 : Str → Bool} {K : List IfCall} {s s1 s' : Sdk} {t ta t' : TState} {tgt : Nat}
    (hst : Steps is lo t.vars s lo1 ta.vars s1) (hcore : SimCoreF is E F B lo hi A s t ta s1)
    (hif : GarbF IfCall.current B loG hi K s1.ifStack)
    (hwh : GarbF WhileCall.stop B lo hi s.whileStack s1.whileStack)
    (hfor : s1.forStack = s.forStack) (hfn : s1.fnStack = s.fnStack)
    (hsc : s1.scopeStack = s.scopeStack)
    (hin : SimAt is E F B lo1 hi1 A1 s1 ta t' s' tgt) (h1 : lo ≤ lo1) (h2 : hi1 ≤ hi) (hG : loG ≤ lo)
    (hA : ∀ x, A x = false → A1 x = false) : SimAtK is E F B loG lo hi A K s t t' s' tgt :=
  ⟨hst.trans hin.steps, hcore.trans (hin.core.sub h1 h2 hA),
    hif.trans (hin.ifS.mono (fun _ h => h.sub (Nat.le_trans hG h1) h2)),
    hwh.trans (hin.whS.mono (fun _ h => h.sub h1 h2)),
    hin.forS.trans hfor, hin.fnS.trans hfn, hin.scS.trans hsc⟩

theorem SimAtK.toSimAt {is : List Instruction} {E : Nat → Prop} {F : FEnv} {B lo hi : Nat}
    {A : Str → Bool} {s s' : Sdk} {t t' : TState} {tgt : Nat}
    (h : SimAtK is E F B lo lo hi A s.ifStack s t t' s' tgt) : SimAt is E F B lo hi A s t t' s' tgt :=
  ⟨h.steps, h.core, h.ifS, h.whS, h.forS, h.fnS, h.scS⟩

/-- widen the window of a `SimAtK` that starts later (after a prefix that only changed stacks) -/
theorem SimAtK.prefixK {is : List Instruction} {E : Nat → Prop} {F : FEnv} {B loG lo hi lo1 : Nat}
    {A A1 : Str → Bool} {K : List IfCall} {s s1 s' : Sdk} {t ta t' : TState} {tgt : Nat}
    (hst : Steps is lo t.vars s lo1 ta.vars s1) (hcore : SimCoreF is E F B lo hi A s t ta s1)
    (hwh : GarbF WhileCall.stop B lo hi s.whileStack s1.whileStack)
    (hfor : s1.forStack = s.forStack) (hfn : s1.fnStack = s.fnStack)
    (hsc : s1.scopeStack = s.scopeStack)
    (hin : SimAtK is E F B loG lo1 hi A1 K s1 ta t' s' tgt) (h1 : lo ≤ lo1)
    (hA : ∀ x, A x = false → A1 x = false) : SimAtK is E F B loG lo hi A K s t t' s' tgt :=
  ⟨hst.trans hin.steps, hcore.trans (hin.core.sub h1 (Nat.le_refl _) hA), hin.ifS,
    hwh.trans (hin.whS.mono (fun _ h => h.sub h1 (Nat.le_refl _))),
    hin.forS.trans hfor, hin.fnS.trans hfn, hin.scS.trans hsc⟩

theorem SimAtK.extend {is : List Instruction} {E : Nat → Prop} {F : FEnv} {B loG lo hi : Nat}
    {A : Str → Bool} {K : List IfCall} {s s' : Sdk} {t t' : TState} {tgt tgt' : Nat}
    (h : SimAtK is E F B loG lo hi A K s t t' s' tgt) (hst : Steps is tgt t'.vars s' tgt' t'.vars s') :
    SimAtK is E F B loG lo hi A K s t t' s' tgt' :=
  ⟨h.steps.trans hst, h.core, h.ifS, h.whS, h.forS, h.fnS, h.scS⟩

/-- a line at or above the bound and outside the window keeps its end-table entry -/
theorem FrameF.keep {E : Nat → Prop} {B lo hi : Nat} {s s' : Sdk} (h : FrameF E B lo hi s s') (l : Nat)
    (h1 : ¬ (lo ≤ l ∧ l < hi)) (h2 : B ≤ l) :
    s'.endTable.get (lineKey s' l) = s.endTable.get (lineKey s l) := by
  rw [lineKey_congr h.ctx]
  refine h.endT l ?_
  rintro (a | ⟨a, _⟩)
  · exact h1 a
  · omega

end Duck
