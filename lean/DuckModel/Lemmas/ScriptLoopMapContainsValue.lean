/-
  `map_contains_value` (std/collections/map_contains_value/script.ds) run from source, for every
  input: `not map_is_empty …` (a SCRIPT command inside a command condition), `if ${not_empty}`,
  `map_keys`, the loop invariant of `for item in ${key_array_handle}` / `map_get` / `equals` /
  `if ${found}` / `release` (the early exit: the released key array has no next cell), the tail.
-/
import DuckModel.Lemmas.ScriptLoopArrayConcat

namespace Duck.ScriptRun
open Duck Duck.Alias Duck.Coll Duck.Spec Duck.Generated Duck.Reser

def mScope : Str := "scope::map_contains_value".toList
def mieScope : Str := "scope::map_is_empty".toList
def mArg1 : Str := "scope::map_contains_value::argument::1".toList
def mArg2 : Str := "scope::map_contains_value::argument::2".toList
def mFound : Str := "scope::map_contains_value::found".toList
def mNotEmpty : Str := "scope::map_contains_value::not_empty".toList
def mValue : Str := "scope::map_contains_value::value".toList
def mKH : Str := "scope::map_contains_value::key_array_handle".toList
def mItem : Str := "scope::map_contains_value::item".toList
def mNext : Str := "scope::map_contains_value::next_value".toList

/-- the parse of map_contains_value/script.ds -/
def mcvIs : List Instruction :=
  [emptyI 1,
   mkI 2 (some mFound) "set" (some [[.lit "false".toList]]),
   mkI 3 (some mNotEmpty) "not" (some [[.lit "map_is_empty".toList], [.var mArg1]]),
   emptyI 4,
   mkI 5 none "if" (some [[.var mNotEmpty]]),
   mkI 6 (some mValue) "set" (some [[.var mArg2]]),
   mkI 7 (some mKH) "map_keys" (some [[.var mArg1]]),
   emptyI 8,
   mkI 9 none "for" (some [[.lit mItem], [.lit "in".toList], [.var mKH]]),
   mkI 10 (some mNext) "map_get" (some [[.var mArg1], [.var mItem]]),
   mkI 11 (some mFound) "equals" (some [[.var mNext], [.var mValue]]),
   emptyI 12,
   mkI 13 none "if" (some [[.var mFound]]),
   mkI 14 none "release" (some [[.var mKH]]),
   mkI 15 none "end" none,
   mkI 16 none "end" none,
   mkI 17 none "end" none,
   emptyI 18,
   mkI 19 none "release" (some [[.var mKH]]),
   mkI 20 none "set" (some [[.var mFound]])]

theorem mcv_parses : parseText cmd_collections_map_contains_value.script = .ok mcvIs :=
  parsesTo_eq (by decide +kernel)

theorem mcv_findIf4 : findCommands ifTables mcvIs (4 + 1) = .ok ⟨[], 16⟩ := findsTo_eq (by decide +kernel)
theorem mcv_findFor : findCommands forTables mcvIs (8 + 1) = .ok ⟨[], 15⟩ := findsTo_eq (by decide +kernel)
theorem mcv_findIf12 : findCommands ifTables mcvIs (12 + 1) = .ok ⟨[], 14⟩ := findsTo_eq (by decide +kernel)
theorem mcv_findScript : findScript "map_contains_value".toList = some cmd_collections_map_contains_value := by rfl


/-! ### generic: a script command / a plain word as a condition, `end` of an `if` block -/

theorem bodySem_script (fuel depth : Nat) (is : List Instruction) (name : Str) (sc : Generated.ScriptCmd)
    (hf : findScript name = some sc) (args : List Str) (out : Option Str) (line : Nat) (vars : Vars) (st : ScriptSt) :
    bodySem fuel (depth + 1) is name args out line vars st = some (runScriptCmdF depth fuel name args vars st) := by
  simp [bodySem, runScriptCmdF, hf]

/-- the nested evaluator on one appended instruction that runs a SCRIPT command answering `Continue(v)` -/
theorem nested_script_continue (F d : Nat) (is : List Instruction) (cmd : Str) (vals : List Str) (sc : Generated.ScriptCmd)
    (hs : ∀ v ∈ vals, Safe v = true) (hfs : findScript cmd = some sc)
    (vars : Vars) (s : ScriptSt) (v : Option Str) (vars' : Vars) (s' : ScriptSt)
    (hrun : runScriptCmdF d (F + 2) cmd vals vars s = (.continue v, vars', s')) :
    nestedOf (bodySem (F + 2) (d + 1)) (F + 2) (is ++ [condI cmd vals]) ((is ++ [condI cmd vals]).length - 1) vars s =
      (none, v, vars', s') := by
  unfold nestedOf
  have hget : (is ++ [condI cmd vals])[(is ++ [condI cmd vals]).length - 1]? = some (condI cmd vals) := getElem_last _ _
  have h := runInstruction_cmd (bodySem (F + 2) (d + 1) (is ++ [condI cmd vals])) vars s meta1
    { label := none, output := none, command := some cmd, args := if vals = [] then none else some vals } cmd
    ((is ++ [condI cmd vals]).length - 1) rfl vals (bind_ok vars vals hs) (.continue v) vars' s'
    (by rw [bodySem_script (F + 2) d _ cmd sc hfs, hrun])
  rw [eval_continue _ _ (F + 1) _ 0 none vars s _ _ hget rfl _ _ _ _ h]
  rw [eval_end _ _ F _ _ _ _ _ (by simp)]
  rfl

theorem nested_script_error (F d : Nat) (is : List Instruction) (cmd : Str) (vals : List Str) (sc : Generated.ScriptCmd)
    (hs : ∀ v ∈ vals, Safe v = true) (hfs : findScript cmd = some sc)
    (vars : Vars) (s : ScriptSt) (m : Str) (vars' : Vars) (s' : ScriptSt)
    (hrun : runScriptCmdF d (F + 2) cmd vals vars s = (.error m, vars', s')) :
    nestedOf (bodySem (F + 2) (d + 1)) (F + 2) (is ++ [condI cmd vals]) ((is ++ [condI cmd vals]).length - 1) vars s =
      (some (.error m), none, vars', s') := by
  unfold nestedOf
  have hget : (is ++ [condI cmd vals])[(is ++ [condI cmd vals]).length - 1]? = some (condI cmd vals) := getElem_last _ _
  have h := runInstruction_cmd (bodySem (F + 2) (d + 1) (is ++ [condI cmd vals])) vars s meta1
    { label := none, output := none, command := some cmd, args := if vals = [] then none else some vals } cmd
    ((is ++ [condI cmd vals]).length - 1) rfl vals (bind_ok vars vals hs) (.error m) vars' s'
    (by rw [bodySem_script (F + 2) d _ cmd sc hfs, hrun])
  rw [eval_error _ _ (F + 1) _ 0 none vars s _ _ hget rfl _ _ _ _ h]

/-- `not <script command> vals…` as a COMMAND of a body (one rebuild / re-parse round) -/
theorem runNot_script (F d : Nat) (is : List Instruction) (cmd : Str) (vals : List Str) (sc : Generated.ScriptCmd)
    (hc : cmdOK cmd = true) (hs : ∀ v ∈ vals, Safe v = true) (hp : positionOK vals = true)
    (hfs : findScript cmd = some sc) (line : Nat) (vars : Vars) (s : ScriptSt) :
    runFlowF (nestedOf (bodySem (F + 2) (d + 1)) (F + 2)) is 2 .notC (cmd :: vals) line vars s =
      match runScriptCmdF d (F + 2) cmd vals vars s with
      | (.continue v, vars', s') => (.continue (some (boolStr (!isTrue v))), vars', s')
      | (.error _, vars', s') => (flowErr, vars', s')
      | r => runFlowF (nestedOf (bodySem (F + 2) (d + 1)) (F + 2)) is 2 .notC (cmd :: vals) line vars s := by
  have hcmd : isCommand cmd = true := by simp [isCommand, hfs]
  cases hrun : runScriptCmdF d (F + 2) cmd vals vars s with
  | mk r rest =>
    obtain ⟨vars', s'⟩ := rest
    cases r with
    | «continue» v =>
      simp only [runFlowF, runFlow, List.isEmpty_cons, Bool.false_eq_true, if_false, evalCond, hcmd, if_true,
        evalParse_ok cmd vals hc hs hp]
      rw [nested_script_continue F d is cmd vals sc hs hfs vars s v vars' s' hrun]
    | error m =>
      simp only [runFlowF, runFlow, List.isEmpty_cons, Bool.false_eq_true, if_false, evalCond, hcmd, if_true,
        evalParse_ok cmd vals hc hs hp]
      rw [nested_script_error F d is cmd vals sc hs hfs vars s m vars' s' hrun]
    | _ => rfl

/-- a condition that is one word which is no command name: the word's truth value -/
theorem evalCond_bool (nested : Nested) (is : List Instruction) (b : Bool) (vars : Vars) (s : ScriptSt) :
    evalCond nested is [boolStr b] vars s = (.ok b, vars, s) := by
  cases b
  · have h1 : isCommand (boolStr false) = false := by decide +kernel
    have h2 : evalSlice [boolStr false] = .ok false := by rfl
    simp only [evalCond, h1, h2]; rfl
  · have h1 : isCommand (boolStr true) = false := by decide +kernel
    have h2 : evalSlice [boolStr true] = .ok true := by rfl
    simp only [evalCond, h1, h2]; rfl

/-- `if <word>` (no else branches) -/
theorem runIf_bool (nested : Nested) (is : List Instruction) (b : Bool) (line stop : Nat) (vars : Vars) (s : ScriptSt)
    (hfind : findCommands ifTables is (line + 1) = .ok ⟨[], stop⟩)
    (hc : IfCacheOK s.ifMeta (flowKey s line) stop) :
    runFlowF nested is 2 .ifC [boolStr b] line vars s =
      if b then (.continue none, vars, { ifSt s line stop with ifStack := ifEntry line stop s.ctx :: s.ifStack })
      else (.goTo none (.line (stop + 1)), vars, ifSt s line stop) := by
  rw [runIf_simple nested is 1 (boolStr b) [] line stop vars s hfind hc b vars (ifSt s line stop)
    (evalCond_bool nested is b vars (ifSt s line stop))]
  rfl

/-- the generic `end` on the line an `if` block ends at -/
theorem runEnd_if (nested : Nested) (is : List Instruction) (line : Nat) (vars : Vars) (s : ScriptSt)
    (ht : s.endTable.get (flowKey s line) = some fullNameEndIf) :
    runFlowF nested is 2 .endC [] line vars s = (.continue none, vars, s) := by
  have hr : resolveFlow fullNameEndIf = some .endIf := by decide +kernel
  simp only [runFlowF, runFlow, ht, hr]

end Duck.ScriptRun
