/-
  Helper lemmas about the model of the script-level registry commands
  (Sdk/RegistryCmd.lean), used by Props/C15Script.lean.
-/
import DuckModel.Sdk.RegistryCmd
import DuckModel.Lemmas.RegistryLemmas

namespace Duck

namespace Reg

/-- dropping one alias-table entry (second branch of `unalias`) keeps the invariant -/
theorem invP_eraseAlias (r : Reg) (k : Str) (h : r.InvP) :
    ({ r with aliases := r.aliases.erase k } : Reg).InvP := by
  obtain ⟨h1, h2⟩ := h
  constructor
  · intro a m ham
    simp only [KV.get_erase] at ham
    split at ham
    · cases ham
    · exact h1 a m ham
  · exact h2

/-- `Commands::remove` answers exactly whether the name resolved to a command -/
theorem remove_snd (r : Reg) (n : Str) : (r.remove n).2 = r.exists n := by
  unfold Reg.exists Reg.get
  cases hk : r.commands.get (r.resolve n) with
  | none => rw [remove_none r n hk]; rfl
  | some c => rw [remove_some r n c hk]; rfl

theorem remove_false (r : Reg) (n : Str) (h : (r.remove n).2 = false) : (r.remove n).1 = r := by
  cases hk : r.commands.get (r.resolve n) with
  | none => rw [remove_none r n hk]
  | some c => rw [remove_some r n c hk] at h; cases h

/-- `Commands::set` of a command without aliases: only the name check is left -/
theorem set_aliasless (r : Reg) (c : CmdSpec) (h : c.aliases = []) :
    r.set c = if (r.commands.get c.name).isSome = true then (r, false) else (r.setOk c, true) := by
  rcases Reg.set_cases r c with ⟨hc, e⟩ | ⟨⟨hn, _⟩, e⟩
  · have hs : (r.commands.get c.name).isSome = true := by
      rcases hc with hc | ⟨a, ha, _⟩
      · exact hc
      · rw [h] at ha; cases ha
    rw [e]; simp [hs]
  · rw [e]; simp [hn]

theorem set_false (r : Reg) (c : CmdSpec) (h : (r.set c).2 = false) : (r.set c).1 = r := by
  rcases Reg.set_cases r c with ⟨_, e⟩ | ⟨_, e⟩
  · rw [e]
  · rw [e] at h; cases h

/-- lookups after an accepted alias-less registration of a name that is not a command name -/
theorem setOk_aliasless_get_self (r : Reg) (c : CmdSpec) (h : c.aliases = []) :
    (r.setOk c).get c.name = some c := by
  simp [Reg.get, Reg.resolve, setOk_aliases_get, setOk_commands_get, h]

theorem setOk_aliasless_get_other (r : Reg) (c : CmdSpec) (h : c.aliases = []) (hinv : r.InvP)
    (hn : r.commands.get c.name = none) (n : Str) (hne : n ≠ c.name) :
    (r.setOk c).get n = r.get n := by
  have hal : (r.setOk c).aliases.get n = r.aliases.get n := by
    simp [setOk_aliases_get, h, hne]
  have hres : (r.setOk c).resolve n = r.resolve n := by
    simp [Reg.resolve, hal]
  have hr : r.resolve n ≠ c.name := by
    unfold Reg.resolve
    cases ha : r.aliases.get n with
    | none => simpa using hne
    | some m =>
      intro e
      simp only [Option.getD_some] at e
      subst e
      obtain ⟨c', hc', _⟩ := hinv.1 n _ ha
      rw [hn] at hc'; cases hc'
  simp only [Reg.get, hres, setOk_commands_get, hr, if_false]

end Reg

namespace RegCmd

theorem aliasSpec_aliases (n : Str) (i : Nat) : (aliasSpec n i).aliases = [] := rfl
theorem fnSpec_aliases (n : Str) (l : Nat) : (fnSpec n l).aliases = [] := rfl

theorem ofTag_tag (k : Kind) : Kind.ofTag k.tag = k := by
  cases k with
  | native t => simp [Kind.tag, Kind.ofTag]
  | aliasOf i =>
    have h1 : (3 * i + 1) % 3 = 1 := by omega
    have h2 : (3 * i + 1) / 3 = i := by omega
    simp [Kind.tag, Kind.ofTag, h1, h2]
  | function l =>
    have h1 : (3 * l + 2) % 3 = 2 := by omega
    have h2 : (3 * l + 2) / 3 = l := by omega
    simp [Kind.tag, Kind.ofTag, h1, h2]

/-! ### unfolding lemmas of the commands -/

theorem aliasCmd_short (s : RState) (args : List Str) (id : Nat) (h : args.length < 2) :
    aliasCmd s args id = (s, .error) := by
  match args, h with
  | [], _ => rfl
  | [_], _ => rfl
  | _ :: _ :: _, h => simp at h; omega

theorem aliasCmd_refused (s : RState) (name t : Str) (rest : List Str) (id : Nat)
    (h : (s.reg.commands.get name).isSome = true) :
    aliasCmd s (name :: t :: rest) id = (s, .error) := by
  have e := Reg.set_aliasless s.reg (aliasSpec name id) rfl
  have h' : (s.reg.commands.get (aliasSpec name id).name).isSome = true := h
  rw [if_pos h'] at e
  simp only [aliasCmd, e]
  rfl

theorem aliasCmd_accepted (s : RState) (name t : Str) (rest : List Str) (id : Nat)
    (h : s.reg.commands.get name = none) :
    aliasCmd s (name :: t :: rest) id =
      ({ s with reg := s.reg.setOk (aliasSpec name id), sub := s.sub.put name true }, .value true) := by
  have e := Reg.set_aliasless s.reg (aliasSpec name id) rfl
  have h' : ¬ (s.reg.commands.get (aliasSpec name id).name).isSome = true := by
    show ¬ (s.reg.commands.get name).isSome = true
    simp [h]
  rw [if_neg h'] at e
  simp only [aliasCmd, e]
  rfl

theorem unaliasCmd_arity (s : RState) (args : List Str) (h : args.length ≠ 1) :
    unaliasCmd s args = (s, .error) := by
  match args, h with
  | [], _ => rfl
  | [_], h => simp at h
  | _ :: _ :: _, _ => rfl

theorem removeCmd_arity (s : RState) (args : List Str) (h : args.length ≠ 1) :
    removeCmd s args = (s, .error) := by
  match args, h with
  | [], _ => rfl
  | [_], h => simp at h
  | _ :: _ :: _, _ => rfl

/-- the four-way case analysis of `unalias key` -/
theorem unaliasCmd_one (s : RState) (key : Str) :
    unaliasCmd s [key] =
      if s.sub.containsKey key = true then
        if s.reg.exists key = true then
          ({ s with reg := (s.reg.remove key).1, sub := s.sub.erase key }, .value true)
        else (s, .value false)
      else if (s.reg.aliases.get key).isSome = true then
        ({ s with reg := { s.reg with aliases := s.reg.aliases.erase key } }, .value true)
      else (s, .value false) := by
  simp only [unaliasCmd]
  by_cases h1 : s.sub.containsKey key = true
  · simp only [h1, if_true]
    by_cases h2 : s.reg.exists key = true
    · have : (s.reg.remove key).2 = true := by rw [Reg.remove_snd]; exact h2
      simp [this, h2]
    · have h2' : s.reg.exists key = false := by simpa using h2
      have hf : (s.reg.remove key).2 = false := by rw [Reg.remove_snd]; exact h2'
      have hu : (s.reg.remove key).1 = s.reg := Reg.remove_false _ _ hf
      simp [hf, h2', hu]
  · simp only [h1]
    rfl

theorem fnCmd_known (s : RState) (name : Str) (line start : Nat) (e : Bool)
    (h : s.fns.get name = some start) :
    fnCmd s name line e = (s, if start = line then .goto else .error) := by
  simp only [fnCmd, h]
  split <;> rfl

theorem fnCmd_fresh (s : RState) (name : Str) (line : Nat) (h : s.fns.get name = none) :
    fnCmd s name line true =
      ({ s with reg := (s.reg.set (fnSpec name line)).1, fns := s.fns.put name line },
       if (s.reg.set (fnSpec name line)).2 = true then .goto else .error) := by
  simp only [fnCmd, h, if_true]

theorem fnCmd_noEnd (s : RState) (name : Str) (line : Nat) (h : s.fns.get name = none) :
    fnCmd s name line false = (s, .crash) := by
  simp [fnCmd, h]

/-! ### the registry invariant -/

theorem invP_step (s : RState) (op : Op) (h : s.reg.InvP) : (step s op).1.reg.InvP := by
  cases op with
  | native n al t => exact Reg.invP_set _ _ h
  | alias args id =>
    match args with
    | [] => exact h
    | [_] => exact h
    | name :: t :: rest =>
      show (aliasCmd s (name :: t :: rest) id).1.reg.InvP
      simp only [aliasCmd]
      split <;> exact Reg.invP_set _ _ h
  | unalias args =>
    match args with
    | [] => exact h
    | _ :: _ :: _ => exact h
    | [key] =>
      show (unaliasCmd s [key]).1.reg.InvP
      rw [unaliasCmd_one]
      split
      · split
        · exact Reg.invP_remove _ _ h
        · exact h
      · split
        · exact Reg.invP_eraseAlias _ _ h
        · exact h
  | removeCommand args =>
    match args with
    | [] => exact h
    | _ :: _ :: _ => exact h
    | [name] => exact Reg.invP_remove _ _ h
  | isCommandDefined args =>
    match args with
    | [] => exact h
    | _ :: _ => exact h
  | defineFn n l e =>
    show (fnCmd s n l e).1.reg.InvP
    cases hk : s.fns.get n with
    | some start => rw [fnCmd_known s n l start e hk]; exact h
    | none =>
      cases e with
      | true => rw [fnCmd_fresh s n l hk]; exact Reg.invP_set _ _ h
      | false => rw [fnCmd_noEnd s n l hk]; exact h

theorem invP_run (s : RState) (ops : List Op) (h : s.reg.InvP) : (run s ops).1.reg.InvP := by
  induction ops generalizing s with
  | nil => exact h
  | cons op ops ih => exact ih (step s op).1 (invP_step s op h)

end RegCmd

end Duck

namespace Duck

namespace KV
variable {α : Type}

theorem containsKey_put (m : KV α) (k : Str) (v : α) (k' : Str) :
    (m.put k v).containsKey k' = if k' = k then true else m.containsKey k' := by
  unfold containsKey
  rw [get_put]
  split <;> rfl

theorem containsKey_erase (m : KV α) (k k' : Str) :
    (m.erase k).containsKey k' = if k' = k then false else m.containsKey k' := by
  unfold containsKey
  rw [get_erase]
  split <;> rfl

end KV

end Duck
