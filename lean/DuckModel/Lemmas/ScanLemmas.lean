/-
  Helper lemmas about `findCommands` / `fcLoop` (used by Props/C04Scan.lean).
-/
import DuckModel.Sdk.Flow
import DuckModel.Spec.TreeWF

namespace Duck
open Duck.Spec Duck.Generated

end Duck
