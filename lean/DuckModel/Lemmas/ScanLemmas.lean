/-
  Helper lemmas about `findCommands` / `fcLoop` (used by Props/C04Scan.lean).

  Part 1: the keyword tables, evaluated (`decide`) — every word of a well-formed tree is
          classified (`cls`) with respect to each of the four scanners.
  Part 2: single steps of `fcLoop`, phrased with `cls`.
  Part 3: `Seg` — a list of script instructions sits at an offset of the program.
  Part 4: `ScanP` — the scanner walks over a list of instructions and comes out in the same
          state (plus recorded else-lines); composition lemmas.
  Part 5: induction over the tree.
-/
import DuckModel.Sdk.Flow
import DuckModel.Spec.TreeWF

set_option linter.unusedSimpArgs false

namespace Duck
open Duck.Spec Duck.Generated

/-! ### Part 1: tables -/

/-- what `fcLoop` does with a command word, as decided by the cascade of table lookups -/
inductive Cls
  | sb | mid | eb | en | enb | sn | plain
deriving DecidableEq, Repr

def cls (t : FlowTables) (c : Str) : Cls :=
  if t.startBlocks.contains c then .sb
  else if t.middleNames.contains c then .mid
  else if t.endNames.contains c then (if t.endBlocks.contains c then .enb else .en)
  else if t.endBlocks.contains c then .eb
  else if t.startNames.contains c then .sn
  else .plain

def Cls.isEB : Cls → Bool
  | .eb | .enb => true
  | _ => false

def Cls.isEN : Cls → Bool
  | .en | .enb => true
  | _ => false

/-- the four block kinds / scanners -/
inductive Kind
  | kIf | kWhile | kFor | kFn
deriving DecidableEq, Repr

def Kind.tbl : Kind → FlowTables
  | .kIf => ifTables
  | .kWhile => whileTables
  | .kFor => forTables
  | .kFn => fnTables

def Kind.isOpen : Kind → Str → Bool
  | .kIf => isIfKw
  | .kWhile => isWhileKw
  | .kFor => isForKw
  | .kFn => isFnKw

def Kind.isEnd : Kind → Str → Bool
  | .kIf => isEndIfKw
  | .kWhile => isEndWhileKw
  | .kFor => isEndForKw
  | .kFn => isEndFnKw

theorem forall_contains {l : List Str} {p : Str → Prop} [DecidablePred p]
    (h : l.all (fun k => decide (p k)) = true) : ∀ k, l.contains k = true → p k := by
  intro k hk
  have := List.all_eq_true.mp h k (by simpa using hk)
  simpa using this

theorem forall_contains_or {l : List Str} {e : Str} {p : Str → Prop} [DecidablePred p]
    (h : (l ++ [e]).all (fun k => decide (p k)) = true) :
    ∀ k, (l.contains k || k == e) = true → p k := by
  intro k hk
  apply forall_contains h k
  simpa using hk

theorem forall_contains_or2 {l l' : List Str} {p : Str → Prop} [DecidablePred p]
    (h : (l ++ l').all (fun k => decide (p k)) = true) :
    ∀ k, l.contains k = true ∨ l'.contains k = true → p k := by
  intro k hk
  apply forall_contains h k
  simpa using hk

theorem forall_contains_or3 {l l' l'' : List Str} {p : Str → Prop} [DecidablePred p]
    (h : (l ++ l' ++ l'').all (fun k => decide (p k)) = true) :
    ∀ k, l.contains k = true ∨ l'.contains k = true ∨ l''.contains k = true → p k := by
  intro k hk
  apply forall_contains h k
  simpa [or_assoc] using hk

/-- openers: same kind ⇒ `startNames` only; other kind ⇒ `startBlocks` -/
theorem cls_open (K K' : Kind) :
    ∀ k, K'.isOpen k = true → cls K.tbl k = if K = K' then .sn else .sb := by
  cases K <;> cases K' <;> exact forall_contains (by decide)

/-- end words: same kind ⇒ in `endNames`; other kind ⇒ in `endBlocks` -/
theorem cls_end (K K' : Kind) :
    ∀ k, K'.isEnd k = true →
      if K = K' then (cls K.tbl k).isEN = true else (cls K.tbl k).isEB = true := by
  cases K <;> cases K' <;> exact forall_contains_or (by decide)

/-- `elif` / `else` words: recorded by the `if` scanner, ignored by the others -/
theorem cls_mid (K : Kind) :
    ∀ k, (isElifKw k || isElseKw k) = true → cls K.tbl k = if K = .kIf then .mid else .plain := by
  have key : ∀ k, isElifKw k = true ∨ isElseKw k = true →
      cls K.tbl k = if K = .kIf then .mid else .plain := by
    cases K <;> exact forall_contains_or2 (by decide)
  intro k hk
  exact key k (by simpa using hk)

theorem tables_sub (K : Kind) :
    (K.tbl.startBlocks ++ K.tbl.middleNames ++ K.tbl.endNames ++ K.tbl.endBlocks ++
      K.tbl.startNames).all (fun k => flowWords.contains k) = true := by
  cases K <;> decide

/-- plain commands are in no table -/
theorem cls_plain (K : Kind) (c : Str) (h : isPlainCmd c = true) : cls K.tbl c = .plain := by
  have hs := tables_sub K
  have hc : flowWords.contains c = false := by simpa [isPlainCmd] using h
  rw [List.all_eq_true] at hs
  have key : ∀ L : List Str, (∀ k, k ∈ L → k ∈ K.tbl.startBlocks ++ K.tbl.middleNames ++
      K.tbl.endNames ++ K.tbl.endBlocks ++ K.tbl.startNames) → L.contains c = false := by
    intro L hL
    cases hLc : L.contains c with
    | false => rfl
    | true =>
      have hm : c ∈ L := by simpa using hLc
      have := hs c (hL c hm)
      rw [hc] at this
      exact absurd this (by simp)
  have h1 := key K.tbl.startBlocks (by intro k hk; simp [hk])
  have h2 := key K.tbl.middleNames (by intro k hk; simp [hk])
  have h3 := key K.tbl.endNames (by intro k hk; simp [hk])
  have h4 := key K.tbl.endBlocks (by intro k hk; simp [hk])
  have h5 := key K.tbl.startNames (by intro k hk; simp [hk])
  unfold cls
  rw [h1, h2, h3, h4, h5]
  rfl

/-- `return` spellings are plain -/
theorem ret_plain : ∀ k, namesReturnCommand.contains k = true → isPlainCmd k = true :=
  forall_contains (by decide)

theorem allowRecursive_of_ne_fn (K : Kind) (h : K ≠ .kFn) : K.tbl.allowRecursive = true := by
  cases K <;> first | rfl | exact absurd rfl h

theorem names_nonempty (K : Kind) :
    ¬ (K.tbl.startNames.isEmpty = true ∨ K.tbl.endNames.isEmpty = true) := by
  cases K <;> decide

/-! ### Part 2: single steps of `fcLoop` -/

theorem cls_sb_inv {t : FlowTables} {c : Str} (h : cls t c = .sb) : c ∈ t.startBlocks := by
  unfold cls at h
  repeat' split at h
  all_goals first | (cases h; done) | simp_all [Cls.isEB, Cls.isEN]

theorem cls_mid_inv {t : FlowTables} {c : Str} (h : cls t c = .mid) :
    c ∉ t.startBlocks ∧ c ∈ t.middleNames := by
  unfold cls at h
  repeat' split at h
  all_goals first | (cases h; done) | simp_all [Cls.isEB, Cls.isEN]

theorem cls_plain_inv {t : FlowTables} {c : Str} (h : cls t c = .plain) :
    c ∉ t.startBlocks ∧ c ∉ t.middleNames ∧
    c ∉ t.endNames ∧ c ∉ t.endBlocks ∧ c ∉ t.startNames := by
  unfold cls at h
  repeat' split at h
  all_goals first | (cases h; done) | simp_all [Cls.isEB, Cls.isEN]

theorem cls_sn_inv {t : FlowTables} {c : Str} (h : cls t c = .sn) :
    c ∉ t.startBlocks ∧ c ∉ t.middleNames ∧
    c ∉ t.endNames ∧ c ∉ t.endBlocks ∧ c ∈ t.startNames := by
  unfold cls at h
  repeat' split at h
  all_goals first | (cases h; done) | simp_all [Cls.isEB, Cls.isEN]

theorem cls_eb_inv {t : FlowTables} {c : Str} (h : (cls t c).isEB = true) :
    c ∉ t.startBlocks ∧ c ∉ t.middleNames ∧
    c ∈ t.endBlocks := by
  unfold cls at h
  repeat' split at h
  all_goals first | (cases h; done) | simp_all [Cls.isEB, Cls.isEN]

theorem cls_en_inv {t : FlowTables} {c : Str} (h : (cls t c).isEN = true) :
    c ∉ t.startBlocks ∧ c ∉ t.middleNames ∧
    c ∈ t.endNames := by
  unfold cls at h
  repeat' split at h
  all_goals first | (cases h; done) | simp_all [Cls.isEB, Cls.isEN]

section steps
variable (t : FlowTables) (is : List Instruction) (rec : Nat → Except FcErr Positions)

theorem fcLoop_lt (n line skipTo delta : Nat) (middle : List Nat) (h : line < skipTo) :
    fcLoop t is rec (n + 1) line skipTo delta middle = fcLoop t is rec n (line + 1) skipTo delta middle := by
  simp [fcLoop, h]

theorem fcLoop_plain (n line skipTo delta : Nat) (middle : List Nat) (c : Str) (h : skipTo ≤ line)
    (hc : commandAt is line = some c) (hk : cls t c = .plain) :
    fcLoop t is rec (n + 1) line skipTo delta middle = fcLoop t is rec n (line + 1) skipTo delta middle := by
  obtain ⟨h1, h2, h3, h4, h5⟩ := cls_plain_inv hk
  have : ¬ line < skipTo := by omega
  simp [fcLoop, this, hc, h1, h2, h3, h4, h5]

theorem fcLoop_sb (n line skipTo delta : Nat) (middle : List Nat) (c : Str) (h : skipTo ≤ line)
    (hc : commandAt is line = some c) (hk : cls t c = .sb) :
    fcLoop t is rec (n + 1) line skipTo delta middle = fcLoop t is rec n (line + 1) skipTo (delta + 1) middle := by
  have h1 := cls_sb_inv hk
  have : ¬ line < skipTo := by omega
  simp [fcLoop, this, hc, h1]

theorem fcLoop_mid (n line skipTo delta : Nat) (middle : List Nat) (c : Str) (h : skipTo ≤ line)
    (hc : commandAt is line = some c) (hk : cls t c = .mid) :
    fcLoop t is rec (n + 1) line skipTo delta middle = fcLoop t is rec n (line + 1) skipTo delta (middle ++ [line]) := by
  obtain ⟨h1, h2⟩ := cls_mid_inv hk
  have : ¬ line < skipTo := by omega
  simp [fcLoop, this, hc, h1, h2]

theorem fcLoop_eb (n line skipTo delta : Nat) (middle : List Nat) (c : Str) (h : skipTo ≤ line)
    (hc : commandAt is line = some c) (hk : (cls t c).isEB = true) :
    fcLoop t is rec (n + 1) line skipTo (delta + 1) middle = fcLoop t is rec n (line + 1) skipTo delta middle := by
  obtain ⟨h1, h2, h3⟩ := cls_eb_inv hk
  have : ¬ line < skipTo := by omega
  simp [fcLoop, this, hc, h1, h2, h3]

theorem fcLoop_en (n line skipTo : Nat) (middle : List Nat) (c : Str) (h : skipTo ≤ line)
    (hc : commandAt is line = some c) (hk : (cls t c).isEN = true) :
    fcLoop t is rec (n + 1) line skipTo 0 middle = .ok ⟨middle, line⟩ := by
  obtain ⟨h1, h2, h3⟩ := cls_en_inv hk
  have : ¬ line < skipTo := by omega
  simp [fcLoop, this, hc, h1, h2, h3]

theorem fcLoop_sn (n line skipTo delta : Nat) (middle : List Nat) (c : Str) (sub : Positions) (h : skipTo ≤ line)
    (hc : commandAt is line = some c) (hk : cls t c = .sn) (ha : t.allowRecursive = true)
    (hr : rec (line + 1) = .ok sub) :
    fcLoop t is rec (n + 1) line skipTo delta middle = fcLoop t is rec n (line + 1) (sub.stop + 1) delta middle := by
  obtain ⟨h1, h2, h3, h4, h5⟩ := cls_sn_inv hk
  have : ¬ line < skipTo := by omega
  simp [fcLoop, this, hc, h1, h2, h3, h4, h5, ha, hr]

/-- lines below `skipTo` are skipped -/
theorem fcLoop_skipTo (skipTo delta : Nat) (middle : List Nat) :
    ∀ (d n line : Nat), line + d = skipTo → d ≤ n →
      fcLoop t is rec n line skipTo delta middle = fcLoop t is rec (n - d) skipTo skipTo delta middle := by
  intro d
  induction d with
  | zero => intro n line h _; simp at h; subst h; simp
  | succ d ih =>
    intro n line h hn
    obtain ⟨m, rfl⟩ : ∃ m, n = m + 1 := ⟨n - 1, by omega⟩
    rw [fcLoop_lt t is rec m line skipTo delta middle (by omega)]
    rw [ih m (line + 1) (by omega) (by omega)]
    congr 1
    omega

end steps

/-! ### Part 3: a list of script instructions sits at offset `off` of the program -/

def Seg (is : List Instruction) (off : Nat) (l : List ScriptInstr) : Prop :=
  off + l.length ≤ is.length ∧ ∀ k si, l[k]? = some si → commandAt is (off + k) = si.command

theorem Seg.head {is : List Instruction} {off : Nat} {x : ScriptInstr} {l : List ScriptInstr}
    (h : Seg is off (x :: l)) : commandAt is off = x.command := by
  have := h.2 0 x (by simp)
  simpa using this

theorem Seg.tail {is : List Instruction} {off : Nat} {x : ScriptInstr} {l : List ScriptInstr}
    (h : Seg is off (x :: l)) : Seg is (off + 1) l := by
  refine ⟨by have := h.1; simp at this; omega, ?_⟩
  intro k si hk
  have := h.2 (k + 1) si (by simpa using hk)
  rw [← this]; congr 1; omega

theorem Seg.left {is : List Instruction} {off : Nat} {a b : List ScriptInstr}
    (h : Seg is off (a ++ b)) : Seg is off a := by
  refine ⟨by have := h.1; simp at this; omega, ?_⟩
  intro k si hk
  have hlt : k < a.length := by
    rcases Nat.lt_or_ge k a.length with h' | h'
    · exact h'
    · rw [List.getElem?_eq_none h'] at hk; cases hk
  exact h.2 k si (by rw [List.getElem?_append_left hlt]; exact hk)

theorem Seg.right {is : List Instruction} {off : Nat} {a b : List ScriptInstr}
    (h : Seg is off (a ++ b)) : Seg is (off + a.length) b := by
  refine ⟨by have := h.1; simp at this; omega, ?_⟩
  intro k si hk
  have := h.2 (a.length + k) si (by rw [List.getElem?_append_right (by omega)]; simpa using hk)
  rw [← this]; congr 1; omega

theorem program_go_getElem? : ∀ (l : List ScriptInstr) (n k : Nat),
    (program.go l n)[k]? = l[k]?.map (fun si => ⟨{ line := some (n + k), source := none }, .script si⟩) := by
  intro l
  induction l with
  | nil => intro n k; simp [program.go]
  | cons x l ih =>
    intro n k
    cases k with
    | zero => simp [program.go]
    | succ k =>
      simp only [program.go, List.getElem?_cons_succ, ih]
      have : n + 1 + k = n + (k + 1) := by omega
      rw [this]

theorem program_go_length : ∀ (l : List ScriptInstr) (n : Nat), (program.go l n).length = l.length := by
  intro l
  induction l with
  | nil => intro n; simp [program.go]
  | cons x l ih => intro n; simp [program.go, ih]

theorem Seg_intro (pre post : List Instruction) (l : List ScriptInstr) :
    Seg (pre ++ instrsFrom pre.length l ++ post) pre.length l := by
  refine ⟨by simp [instrsFrom, program_go_length], ?_⟩
  intro k si hk
  have hlt : k < l.length := by
    rcases Nat.lt_or_ge k l.length with h' | h'
    · exact h'
    · rw [List.getElem?_eq_none h'] at hk; cases hk
  unfold commandAt
  rw [List.append_assoc, List.getElem?_append_right (by omega)]
  rw [List.getElem?_append_left (by simp [instrsFrom, program_go_length]; omega)]
  simp [instrsFrom, program_go_getElem?, hk]

theorem Seg_length_le {is : List Instruction} {off : Nat} {l : List ScriptInstr} (h : Seg is off l) :
    off + l.length ≤ is.length := h.1

/-! ### Part 4: walking over a list of instructions -/

/-- scanning the instructions `l` (sitting at `off`) as an inner part of a search for the end of a
    block of kind `K` leaves the state as it was, except for the recorded else-lines `mids off` -/
def ScanP (K : Kind) (is : List Instruction) (l : List ScriptInstr) (mids : Nat → List Nat) : Prop :=
  ∀ (fuel off n skipTo delta : Nat) (middle : List Nat),
    Seg is off l → l.length ≤ fuel → skipTo ≤ off → l.length ≤ n →
    ∃ skipTo', skipTo' ≤ off + l.length ∧
      fcLoop K.tbl is (findCommandsF K.tbl is fuel) n off skipTo delta middle =
      fcLoop K.tbl is (findCommandsF K.tbl is fuel) (n - l.length) (off + l.length) skipTo' delta
        (middle ++ mids off)

theorem ScanP.congr {K : Kind} {is : List Instruction} {l : List ScriptInstr} {f g : Nat → List Nat}
    (h : ScanP K is l f) (hfg : ∀ off, f off = g off) : ScanP K is l g := by
  have : f = g := funext hfg
  rw [← this]; exact h

theorem scan_nil (K : Kind) (is : List Instruction) : ScanP K is [] (fun _ => []) := by
  intro fuel off n skipTo delta middle _ _ hs _
  exact ⟨skipTo, by simpa using hs, by simp⟩

theorem scan_append {K : Kind} {is : List Instruction} {a b : List ScriptInstr} {f g : Nat → List Nat}
    (ha : ScanP K is a f) (hb : ScanP K is b g) :
    ScanP K is (a ++ b) (fun off => f off ++ g (off + a.length)) := by
  intro fuel off n skipTo delta middle hseg hfuel hs hn
  simp only [List.length_append] at hfuel hn
  obtain ⟨s1, hs1, e1⟩ := ha fuel off n skipTo delta middle hseg.left (by omega) hs (by omega)
  obtain ⟨s2, hs2, e2⟩ := hb fuel (off + a.length) (n - a.length) s1 delta (middle ++ f off)
    hseg.right (by omega) hs1 (by omega)
  refine ⟨s2, by simp only [List.length_append]; omega, ?_⟩
  rw [e1, e2]
  simp only [List.length_append, List.append_assoc]
  congr 1 <;> omega

theorem scan_plain {K : Kind} {is : List Instruction} (o : Option Str) (c : Str) (a : List Str)
    (hk : cls K.tbl c = .plain) : ScanP K is [mkInstr o c a] (fun _ => []) := by
  intro fuel off n skipTo delta middle hseg _ hs hn
  obtain ⟨m, rfl⟩ : ∃ m, n = m + 1 := ⟨n - 1, by simp at hn; omega⟩
  refine ⟨skipTo, by simp; omega, ?_⟩
  rw [fcLoop_plain _ _ _ m off skipTo delta middle c hs (by rw [hseg.head]; rfl) hk]
  simp

theorem scan_mid {K : Kind} {is : List Instruction} (o : Option Str) (c : Str) (a : List Str)
    (hk : cls K.tbl c = .mid) : ScanP K is [mkInstr o c a] (fun off => [off]) := by
  intro fuel off n skipTo delta middle hseg _ hs hn
  obtain ⟨m, rfl⟩ : ∃ m, n = m + 1 := ⟨n - 1, by simp at hn; omega⟩
  refine ⟨skipTo, by simp; omega, ?_⟩
  rw [fcLoop_mid _ _ _ m off skipTo delta middle c hs (by rw [hseg.head]; rfl) hk]
  simp

/-- a block of another kind: the opener raises `delta`, its end word lowers it again -/
theorem scan_other {K : Kind} {is : List Instruction} (o : Option Str) (ko : Str) (a : List Str)
    (ke : Str) (inner : List ScriptInstr)
    (hko : cls K.tbl ko = .sb) (hke : (cls K.tbl ke).isEB = true)
    (hin : ScanP K is inner (fun _ => [])) :
    ScanP K is (mkInstr o ko a :: (inner ++ [mkInstr none ke []])) (fun _ => []) := by
  intro fuel off n skipTo delta middle hseg hfuel hs hn
  simp only [List.length_cons, List.length_append, List.length_nil] at hfuel hn
  obtain ⟨m, rfl⟩ : ∃ m, n = m + 1 := ⟨n - 1, by omega⟩
  rw [fcLoop_sb _ _ _ m off skipTo delta middle ko hs (by rw [hseg.head]; rfl) hko]
  obtain ⟨s1, hs1, e1⟩ := hin fuel (off + 1) m skipTo (delta + 1) middle hseg.tail.left (by omega)
    (by omega) (by omega)
  rw [e1]
  obtain ⟨m', hm'⟩ : ∃ m', m - inner.length = m' + 1 := ⟨m - inner.length - 1, by omega⟩
  rw [hm']
  rw [fcLoop_eb _ _ _ m' (off + 1 + inner.length) s1 delta _ ke hs1
    (by rw [hseg.tail.right.head]; rfl) hke]
  refine ⟨s1, by simp only [List.length_cons, List.length_append, List.length_nil]; omega, ?_⟩
  simp only [List.length_cons, List.length_append, List.length_nil, List.append_nil]
  congr 1 <;> omega

/-- the search itself: started on the line after the opener it finds the end word -/
theorem scan_main {K : Kind} {is : List Instruction} (x : ScriptInstr) (ke : Str)
    (inner : List ScriptInstr) (mids : Nat → List Nat) (fuel off : Nat)
    (hke : (cls K.tbl ke).isEN = true) (hin : ScanP K is inner mids)
    (hseg : Seg is off (x :: (inner ++ [mkInstr none ke []])))
    (hfuel : inner.length + 1 ≤ fuel) :
    findCommandsF K.tbl is fuel (off + 1) = .ok ⟨mids (off + 1), off + 1 + inner.length⟩ := by
  obtain ⟨f, rfl⟩ : ∃ f, fuel = f + 1 := ⟨fuel - 1, by omega⟩
  have hlen := hseg.1
  simp only [List.length_cons, List.length_append, List.length_nil] at hlen
  rw [findCommandsF, if_neg (names_nonempty K)]
  obtain ⟨s1, hs1, e1⟩ := hin f (off + 1) (is.length - (off + 1)) (off + 1) 0 [] hseg.tail.left
    (by omega) (by omega) (by omega)
  rw [e1]
  obtain ⟨m', hm'⟩ : ∃ m', is.length - (off + 1) - inner.length = m' + 1 :=
    ⟨is.length - (off + 1) - inner.length - 1, by omega⟩
  rw [hm']
  rw [fcLoop_en _ _ _ m' (off + 1 + inner.length) s1 _ ke hs1 (by rw [hseg.tail.right.head]; rfl) hke]
  simp

/-- a nested block of the same kind is found by the recursive search and skipped -/
theorem scan_same {K : Kind} {is : List Instruction} (o : Option Str) (ko : Str) (a : List Str)
    (ke : Str) (inner : List ScriptInstr) (mids : Nat → List Nat)
    (hko : cls K.tbl ko = .sn) (hrec : K.tbl.allowRecursive = true) (hke : (cls K.tbl ke).isEN = true)
    (hin : ScanP K is inner mids) :
    ScanP K is (mkInstr o ko a :: (inner ++ [mkInstr none ke []])) (fun _ => []) := by
  intro fuel off n skipTo delta middle hseg hfuel hs hn
  simp only [List.length_cons, List.length_append, List.length_nil] at hfuel hn
  obtain ⟨m, rfl⟩ : ∃ m, n = m + 1 := ⟨n - 1, by omega⟩
  have hmain := scan_main (mkInstr o ko a) ke inner mids fuel off hke hin hseg (by omega)
  rw [fcLoop_sn _ _ _ m off skipTo delta middle ko _ hs (by rw [hseg.head]; rfl) hko hrec hmain]
  rw [fcLoop_skipTo _ _ _ _ delta middle (inner.length + 1) m (off + 1) (by simp; omega) (by omega)]
  refine ⟨off + 1 + inner.length + 1, by simp only [List.length_cons, List.length_append, List.length_nil]; omega, ?_⟩
  simp only [List.length_cons, List.length_append, List.length_nil, List.append_nil]
  congr 1 <;> omega


/-! ### Part 5: induction over the tree -/

/-- else-lines are recorded by the `if` scanner only -/
def midK (K : Kind) (l : List Nat) : List Nat := if K = .kIf then l else []

theorem midK_append (K : Kind) (a b : List Nat) : midK K (a ++ b) = midK K a ++ midK K b := by
  unfold midK; split <;> simp

theorem midK_nil (K : Kind) : midK K [] = [] := by unfold midK; split <;> rfl

/-- absolute positions of the `elif` lines of a chain of alternatives starting at `off` -/
def elifAbs (off : Nat) : Elifs → List Nat
  | .nil => []
  | .cons _ _ b rest => off :: elifAbs (off + 1 + b.flatten.length) rest

/-- a block statement of kind `K'` met by the scanner of kind `K` -/
theorem scan_block_stmt {K : Kind} {is : List Instruction} (K' : Kind) (o : Option Str) (ko : Str)
    (a : List Str) (ke : Str) (inner : List ScriptInstr) (mids : Nat → List Nat)
    (ho : K'.isOpen ko = true) (he : K'.isEnd ke = true) (hK' : K' ≠ .kFn)
    (hin : ScanP K is inner mids) (hm : K ≠ K' → mids = fun _ => []) :
    ScanP K is (mkInstr o ko a :: (inner ++ [mkInstr none ke []])) (fun _ => []) := by
  have h1 := cls_open K K' ko ho
  have h2 := cls_end K K' ke he
  by_cases h : K = K'
  · subst h
    simp only [if_true] at h1 h2
    exact scan_same o ko a ke inner mids h1 (allowRecursive_of_ne_fn K hK') h2 hin
  · simp only [if_neg h] at h1 h2
    have := hm h
    subst this
    exact scan_other o ko a ke inner h1 h2 hin

theorem scan_midword {K : Kind} {is : List Instruction} (o : Option Str) (k : Str) (a : List Str)
    (h : (isElifKw k || isElseKw k) = true) : ScanP K is [mkInstr o k a] (fun off => midK K [off]) := by
  have h1 := cls_mid K k h
  by_cases hK : K = .kIf
  · simp only [if_pos hK] at h1
    exact (scan_mid o k a h1).congr (by intro off; simp [midK, hK])
  · simp only [if_neg hK] at h1
    exact (scan_plain o k a h1).congr (by intro off; simp [midK, hK])

/-- the else-lines seen while scanning the inside of an `if` chain that starts at `off - 1` -/
def ifMids (K : Kind) (bodyLen elifsLen : Nat) (fe : Nat → List Nat) (kwElse : Option Str) :
    Nat → List Nat :=
  fun off => midK K (fe (off + bodyLen) ++
    match kwElse with
    | some _ => [off + bodyLen + elifsLen]
    | none => [])

/-- the `else` line and the else-body, if present -/
def elsePart (kwElse : Option Str) (elseL : List ScriptInstr) : List ScriptInstr :=
  match kwElse with
  | some k => mkInstr none k [] :: elseL
  | none => []

theorem ifChain_flatten (kwIf : Str) (cond : List Str) (body : Block) (elifs : Elifs)
    (kwElse : Option Str) (elseBody : Block) (kwEnd : Str) :
    (Stmt.ifChain kwIf cond body elifs kwElse elseBody kwEnd).flatten =
      mkInstr none kwIf cond ::
        ((body.flatten ++ elifs.flatten ++ elsePart kwElse elseBody.flatten) ++ [mkInstr none kwEnd []]) := by
  cases kwElse <;> simp [Stmt.flatten, elsePart]

theorem scan_ifInner {K : Kind} {is : List Instruction} (bodyL elifsL : List ScriptInstr)
    (kwElse : Option Str) (elseL : List ScriptInstr) (fe : Nat → List Nat)
    (hElse : ∀ k, kwElse = some k → isElseKw k = true)
    (hb : ScanP K is bodyL (fun _ => [])) (he : ScanP K is elifsL (fun off => midK K (fe off)))
    (hel : kwElse.isSome = true → ScanP K is elseL (fun _ => [])) :
    ScanP K is (bodyL ++ elifsL ++ elsePart kwElse elseL)
      (ifMids K bodyL.length elifsL.length fe kwElse) := by
  unfold elsePart
  cases kwElse with
  | none =>
    refine (scan_append (scan_append hb he) (scan_nil K is)).congr ?_
    intro off
    simp [ifMids]
  | some k =>
    have h1 : ScanP K is ([mkInstr none k []] ++ elseL) _ :=
      scan_append (scan_midword none k [] (by simp [hElse k rfl])) (hel rfl)
    refine (scan_append (scan_append hb he) h1).congr ?_
    intro off
    simp [ifMids, midK_append, Nat.add_assoc]

theorem ifMids_other {K : Kind} (h : K ≠ .kIf) (bl el : Nat) (fe : Nat → List Nat) (kwElse : Option Str) :
    ifMids K bl el fe kwElse = fun _ => [] := by
  funext off
  simp [ifMids, midK, h]

mutual
  theorem scanStmt (K : Kind) (is : List Instruction) :
      (s : Stmt) → s.wf = true → s.noFn = true → ScanP K is s.flatten (fun _ => [])
    | .line l, hw, _ => by
      simp only [Stmt.flatten]
      exact scan_plain _ _ _ (cls_plain K _ (by simpa [Stmt.wf] using hw))
    | .ret kw v, hw, _ => by
      simp only [Stmt.flatten]
      exact scan_plain _ _ _ (cls_plain K _ (ret_plain kw (by simpa [Stmt.wf] using hw)))
    | .whileLoop kw cond body kwEnd, hw, hn => by
      simp only [Stmt.wf, Bool.and_eq_true] at hw
      simp only [Stmt.noFn] at hn
      have hb := scanBlock K is body hw.1.2 hn
      simp only [Stmt.flatten]
      exact scan_block_stmt .kWhile _ _ _ _ _ _ hw.1.1 hw.2 (by decide) hb (fun _ => rfl)
    | .forIn kw v handle body kwEnd, hw, hn => by
      simp only [Stmt.wf, Bool.and_eq_true] at hw
      simp only [Stmt.noFn] at hn
      have hb := scanBlock K is body hw.1.2 hn
      simp only [Stmt.flatten]
      exact scan_block_stmt .kFor _ _ _ _ _ _ hw.1.1 hw.2 (by decide) hb (fun _ => rfl)
    | .fnDef kw isSc name body kwEnd, _, hn => by
      simp [Stmt.noFn] at hn
    | .ifChain kwIf cond body elifs kwElse elseBody kwEnd, hw, hn => by
      simp only [Stmt.wf, Bool.and_eq_true] at hw
      simp only [Stmt.noFn, Bool.and_eq_true] at hn
      obtain ⟨⟨⟨⟨hIf, hbw⟩, hew⟩, helse⟩, hEnd⟩ := hw
      have hb := scanBlock K is body hbw hn.1.1
      have he := scanElifs K is elifs hew hn.1.2
      have hel : kwElse.isSome = true → ScanP K is elseBody.flatten (fun _ => []) := by
        intro hs
        cases kwElse with
        | none => cases hs
        | some k =>
          simp only [Bool.and_eq_true] at helse
          exact scanBlock K is elseBody helse.2 hn.2
      have hElse : ∀ k, kwElse = some k → isElseKw k = true := by
        intro k hk
        subst hk
        simp only [Bool.and_eq_true] at helse
        exact helse.1
      have hin := scan_ifInner body.flatten elifs.flatten kwElse elseBody.flatten
        (fun off => elifAbs off elifs) hElse hb he hel
      simp only [Stmt.flatten]
      exact scan_block_stmt .kIf _ _ _ _ _ _ hIf hEnd (by decide) hin
        (fun h => ifMids_other h _ _ _ _)
  theorem scanBlock (K : Kind) (is : List Instruction) :
      (b : Block) → b.wf = true → b.noFn = true → ScanP K is b.flatten (fun _ => [])
    | .nil, _, _ => by
      simp only [Block.flatten]
      exact scan_nil K is
    | .cons s rest, hw, hn => by
      simp only [Block.wf, Bool.and_eq_true] at hw
      simp only [Block.noFn, Bool.and_eq_true] at hn
      simp only [Block.flatten]
      exact (scan_append (scanStmt K is s hw.1 hn.1) (scanBlock K is rest hw.2 hn.2)).congr
        (by intro off; simp)
  theorem scanElifs (K : Kind) (is : List Instruction) :
      (e : Elifs) → e.wf = true → e.noFn = true →
        ScanP K is e.flatten (fun off => midK K (elifAbs off e))
    | .nil, _, _ => by
      simp only [Elifs.flatten]
      exact (scan_nil K is).congr (by intro off; simp [elifAbs, midK_nil])
    | .cons kw cond body rest, hw, hn => by
      simp only [Elifs.wf, Bool.and_eq_true] at hw
      simp only [Elifs.noFn, Bool.and_eq_true] at hn
      simp only [Elifs.flatten]
      have h1 : ScanP K is ([mkInstr none kw cond] ++ (body.flatten ++ rest.flatten)) _ :=
        scan_append (scan_midword none kw cond (by simp [hw.1.1]))
          (scan_append (scanBlock K is body hw.1.2 hn.1) (scanElifs K is rest hw.2 hn.2))
      refine h1.congr ?_
      intro off
      simp [elifAbs, ← midK_append, Nat.add_assoc]
end


/-! ### Part 6: the specification's else-offsets, and the top-level assembly -/

theorem elseOffsets_go_map (p : Nat) : (e : Elifs) → (off : Nat) → (k : Option Str) →
    (elseOffsets.go off e k).map (p + ·) =
      elifAbs (p + off) e ++ (match k with
        | some _ => [p + off + e.flatten.length]
        | none => [])
  | .nil, off, k => by
    cases k <;> simp [elseOffsets.go, elifAbs, Elifs.flatten]
  | .cons kw cond b rest, off, k => by
    have ih := elseOffsets_go_map p rest (off + 1 + b.flatten.length) k
    have e1 : p + (off + 1 + b.flatten.length) = p + off + 1 + b.flatten.length := by omega
    have e2 : p + off + 1 + b.flatten.length + rest.flatten.length =
        p + off + (1 + (b.flatten.length + rest.flatten.length)) := by omega
    rw [e1, e2] at ih
    simp only [elseOffsets.go, elifAbs, Elifs.flatten, List.map_cons, ih, List.length_cons,
      List.length_append, List.cons_append]
    cases k <;> simp <;> omega

/-- a block statement of a kind that allows nesting, scanned from the line after its opener -/
theorem scan_top {K : Kind} (pre post : List Instruction) (x : ScriptInstr) (ke : Str)
    (inner : List ScriptInstr) (mids : Nat → List Nat)
    (hke : K.isEnd ke = true)
    (hin : ScanP K (pre ++ instrsFrom pre.length (x :: (inner ++ [mkInstr none ke []])) ++ post) inner mids) :
    findCommands K.tbl (pre ++ instrsFrom pre.length (x :: (inner ++ [mkInstr none ke []])) ++ post)
      (pre.length + 1) = .ok ⟨mids (pre.length + 1), pre.length + 1 + inner.length⟩ := by
  have h2 := cls_end K K ke hke
  simp only [if_true] at h2
  have hseg := Seg_intro pre post (x :: (inner ++ [mkInstr none ke []]))
  unfold findCommands
  generalize pre ++ instrsFrom pre.length (x :: (inner ++ [mkInstr none ke []])) ++ post = is at *
  refine scan_main x ke inner mids _ pre.length h2 hin hseg ?_
  have := hseg.1
  simp only [List.length_cons, List.length_append, List.length_nil] at this
  omega


end Duck
