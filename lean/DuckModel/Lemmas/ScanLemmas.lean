/-
  Helper lemmas about `findCommands` / `fcLoop` (used by Props/C04Scan.lean).

  Part 1: the keyword tables, evaluated (`decide`) — every word of a well-formed tree is
          classified (`cls`) with respect to each of the four scanners.
  Part 2: single steps of `fcLoop`, phrased with `cls`.
  Part 3: `Seg` — a list of script instructions sits at an offset of the program.
  Part 4: `ScanP` — the scanner walks over a list of instructions and comes out in the same
          state (plus recorded else-lines); composition lemmas.
  Part 5: induction over the tree.
-/
import DuckModel.Sdk.Flow
import DuckModel.Spec.TreeWF

namespace Duck
open Duck.Spec Duck.Generated

/-! ### Part 1: tables -/

/-- what `fcLoop` does with a command word, as decided by the cascade of table lookups -/
inductive Cls
  | sb | mid | eb | en | enb | sn | plain
deriving DecidableEq, Repr

def cls (t : FlowTables) (c : Str) : Cls :=
  if t.startBlocks.contains c then .sb
  else if t.middleNames.contains c then .mid
  else if t.endNames.contains c then (if t.endBlocks.contains c then .enb else .en)
  else if t.endBlocks.contains c then .eb
  else if t.startNames.contains c then .sn
  else .plain

def Cls.isEB : Cls → Bool
  | .eb | .enb => true
  | _ => false

def Cls.isEN : Cls → Bool
  | .en | .enb => true
  | _ => false

/-- the four block kinds / scanners -/
inductive Kind
  | kIf | kWhile | kFor | kFn
deriving DecidableEq, Repr

def Kind.tbl : Kind → FlowTables
  | .kIf => ifTables
  | .kWhile => whileTables
  | .kFor => forTables
  | .kFn => fnTables

def Kind.isOpen : Kind → Str → Bool
  | .kIf => isIfKw
  | .kWhile => isWhileKw
  | .kFor => isForKw
  | .kFn => isFnKw

def Kind.isEnd : Kind → Str → Bool
  | .kIf => isEndIfKw
  | .kWhile => isEndWhileKw
  | .kFor => isEndForKw
  | .kFn => isEndFnKw

theorem forall_contains {l : List Str} {p : Str → Prop} [DecidablePred p]
    (h : l.all (fun k => decide (p k)) = true) : ∀ k, l.contains k = true → p k := by
  intro k hk
  have := List.all_eq_true.mp h k (by simpa using hk)
  simpa using this

theorem forall_contains_or {l : List Str} {e : Str} {p : Str → Prop} [DecidablePred p]
    (h : (l ++ [e]).all (fun k => decide (p k)) = true) :
    ∀ k, (l.contains k || k == e) = true → p k := by
  intro k hk
  apply forall_contains h k
  simpa using hk

theorem forall_contains_or2 {l l' : List Str} {p : Str → Prop} [DecidablePred p]
    (h : (l ++ l').all (fun k => decide (p k)) = true) :
    ∀ k, (l.contains k || l'.contains k) = true → p k := by
  intro k hk
  apply forall_contains h k
  simpa using hk

/-- openers: same kind ⇒ `startNames` only; other kind ⇒ `startBlocks` -/
theorem cls_open (K K' : Kind) :
    ∀ k, K'.isOpen k = true → cls K.tbl k = if K = K' then .sn else .sb := by
  cases K <;> cases K' <;> exact forall_contains (by decide)

/-- end words: same kind ⇒ in `endNames`; other kind ⇒ in `endBlocks` -/
theorem cls_end (K K' : Kind) :
    ∀ k, K'.isEnd k = true →
      if K = K' then (cls K.tbl k).isEN = true else (cls K.tbl k).isEB = true := by
  cases K <;> cases K' <;> exact forall_contains_or (by decide)

/-- `elif` / `else` words: recorded by the `if` scanner, ignored by the others -/
theorem cls_mid (K : Kind) :
    ∀ k, (isElifKw k || isElseKw k) = true → cls K.tbl k = if K = .kIf then .mid else .plain := by
  cases K <;> exact forall_contains_or2 (by decide)

theorem tables_sub (K : Kind) :
    (K.tbl.startBlocks ++ K.tbl.middleNames ++ K.tbl.endNames ++ K.tbl.endBlocks ++
      K.tbl.startNames).all (fun k => flowWords.contains k) = true := by
  cases K <;> decide

/-- plain commands are in no table -/
theorem cls_plain (K : Kind) (c : Str) (h : isPlainCmd c = true) : cls K.tbl c = .plain := by
  have hs := tables_sub K
  have hc : flowWords.contains c = false := by simpa [isPlainCmd] using h
  rw [List.all_eq_true] at hs
  have key : ∀ L : List Str, (∀ k, k ∈ L → k ∈ K.tbl.startBlocks ++ K.tbl.middleNames ++
      K.tbl.endNames ++ K.tbl.endBlocks ++ K.tbl.startNames) → L.contains c = false := by
    intro L hL
    cases hLc : L.contains c with
    | false => rfl
    | true =>
      have hm : c ∈ L := by simpa using hLc
      have := hs c (hL c hm)
      rw [hc] at this
      exact absurd this (by simp)
  have h1 := key K.tbl.startBlocks (by intro k hk; simp [hk])
  have h2 := key K.tbl.middleNames (by intro k hk; simp [hk])
  have h3 := key K.tbl.endNames (by intro k hk; simp [hk])
  have h4 := key K.tbl.endBlocks (by intro k hk; simp [hk])
  have h5 := key K.tbl.startNames (by intro k hk; simp [hk])
  unfold cls
  rw [h1, h2, h3, h4, h5]
  rfl

/-- `return` spellings are plain -/
theorem ret_plain : ∀ k, namesReturnCommand.contains k = true → isPlainCmd k = true :=
  forall_contains (by decide)

theorem allowRecursive_of_ne_fn (K : Kind) (h : K ≠ .kFn) : K.tbl.allowRecursive = true := by
  cases K <;> first | rfl | exact absurd rfl h

theorem names_nonempty (K : Kind) :
    ¬ (K.tbl.startNames.isEmpty = true ∨ K.tbl.endNames.isEmpty = true) := by
  cases K <;> decide

/-! ### Part 2: single steps of `fcLoop` -/

theorem cls_sb_inv {t : FlowTables} {c : Str} (h : cls t c = .sb) : c ∈ t.startBlocks := by
  unfold cls at h
  repeat' split at h
  all_goals first | (cases h; done) | simp_all [Cls.isEB, Cls.isEN]

theorem cls_mid_inv {t : FlowTables} {c : Str} (h : cls t c = .mid) :
    c ∉ t.startBlocks ∧ c ∈ t.middleNames := by
  unfold cls at h
  repeat' split at h
  all_goals first | (cases h; done) | simp_all [Cls.isEB, Cls.isEN]

theorem cls_plain_inv {t : FlowTables} {c : Str} (h : cls t c = .plain) :
    c ∉ t.startBlocks ∧ c ∉ t.middleNames ∧
    c ∉ t.endNames ∧ c ∉ t.endBlocks ∧ c ∉ t.startNames := by
  unfold cls at h
  repeat' split at h
  all_goals first | (cases h; done) | simp_all [Cls.isEB, Cls.isEN]

theorem cls_sn_inv {t : FlowTables} {c : Str} (h : cls t c = .sn) :
    c ∉ t.startBlocks ∧ c ∉ t.middleNames ∧
    c ∉ t.endNames ∧ c ∉ t.endBlocks ∧ c ∈ t.startNames := by
  unfold cls at h
  repeat' split at h
  all_goals first | (cases h; done) | simp_all [Cls.isEB, Cls.isEN]

theorem cls_eb_inv {t : FlowTables} {c : Str} (h : (cls t c).isEB = true) :
    c ∉ t.startBlocks ∧ c ∉ t.middleNames ∧
    c ∈ t.endBlocks := by
  unfold cls at h
  repeat' split at h
  all_goals first | (cases h; done) | simp_all [Cls.isEB, Cls.isEN]

theorem cls_en_inv {t : FlowTables} {c : Str} (h : (cls t c).isEN = true) :
    c ∉ t.startBlocks ∧ c ∉ t.middleNames ∧
    c ∈ t.endNames := by
  unfold cls at h
  repeat' split at h
  all_goals first | (cases h; done) | simp_all [Cls.isEB, Cls.isEN]

section steps
variable (t : FlowTables) (is : List Instruction) (rec : Nat → Except FcErr Positions)

theorem fcLoop_lt (n line skipTo delta : Nat) (middle : List Nat) (h : line < skipTo) :
    fcLoop t is rec (n + 1) line skipTo delta middle = fcLoop t is rec n (line + 1) skipTo delta middle := by
  simp [fcLoop, h]

theorem fcLoop_plain (n line skipTo delta : Nat) (middle : List Nat) (c : Str) (h : skipTo ≤ line)
    (hc : commandAt is line = some c) (hk : cls t c = .plain) :
    fcLoop t is rec (n + 1) line skipTo delta middle = fcLoop t is rec n (line + 1) skipTo delta middle := by
  obtain ⟨h1, h2, h3, h4, h5⟩ := cls_plain_inv hk
  have : ¬ line < skipTo := by omega
  simp [fcLoop, this, hc, h1, h2, h3, h4, h5]

theorem fcLoop_sb (n line skipTo delta : Nat) (middle : List Nat) (c : Str) (h : skipTo ≤ line)
    (hc : commandAt is line = some c) (hk : cls t c = .sb) :
    fcLoop t is rec (n + 1) line skipTo delta middle = fcLoop t is rec n (line + 1) skipTo (delta + 1) middle := by
  have h1 := cls_sb_inv hk
  have : ¬ line < skipTo := by omega
  simp [fcLoop, this, hc, h1]

theorem fcLoop_mid (n line skipTo delta : Nat) (middle : List Nat) (c : Str) (h : skipTo ≤ line)
    (hc : commandAt is line = some c) (hk : cls t c = .mid) :
    fcLoop t is rec (n + 1) line skipTo delta middle = fcLoop t is rec n (line + 1) skipTo delta (middle ++ [line]) := by
  obtain ⟨h1, h2⟩ := cls_mid_inv hk
  have : ¬ line < skipTo := by omega
  simp [fcLoop, this, hc, h1, h2]

theorem fcLoop_eb (n line skipTo delta : Nat) (middle : List Nat) (c : Str) (h : skipTo ≤ line)
    (hc : commandAt is line = some c) (hk : (cls t c).isEB = true) :
    fcLoop t is rec (n + 1) line skipTo (delta + 1) middle = fcLoop t is rec n (line + 1) skipTo delta middle := by
  obtain ⟨h1, h2, h3⟩ := cls_eb_inv hk
  have : ¬ line < skipTo := by omega
  simp [fcLoop, this, hc, h1, h2, h3]

theorem fcLoop_en (n line skipTo : Nat) (middle : List Nat) (c : Str) (h : skipTo ≤ line)
    (hc : commandAt is line = some c) (hk : (cls t c).isEN = true) :
    fcLoop t is rec (n + 1) line skipTo 0 middle = .ok ⟨middle, line⟩ := by
  obtain ⟨h1, h2, h3⟩ := cls_en_inv hk
  have : ¬ line < skipTo := by omega
  simp [fcLoop, this, hc, h1, h2, h3]

theorem fcLoop_sn (n line skipTo delta : Nat) (middle : List Nat) (c : Str) (sub : Positions) (h : skipTo ≤ line)
    (hc : commandAt is line = some c) (hk : cls t c = .sn) (ha : t.allowRecursive = true)
    (hr : rec (line + 1) = .ok sub) :
    fcLoop t is rec (n + 1) line skipTo delta middle = fcLoop t is rec n (line + 1) (sub.stop + 1) delta middle := by
  obtain ⟨h1, h2, h3, h4, h5⟩ := cls_sn_inv hk
  have : ¬ line < skipTo := by omega
  simp [fcLoop, this, hc, h1, h2, h3, h4, h5, ha, hr]

/-- lines below `skipTo` are skipped -/
theorem fcLoop_skipTo (skipTo delta : Nat) (middle : List Nat) :
    ∀ (d n line : Nat), line + d = skipTo → d ≤ n →
      fcLoop t is rec n line skipTo delta middle = fcLoop t is rec (n - d) skipTo skipTo delta middle := by
  intro d
  induction d with
  | zero => intro n line h _; simp at h; subst h; simp
  | succ d ih =>
    intro n line h hn
    obtain ⟨m, rfl⟩ : ∃ m, n = m + 1 := ⟨n - 1, by omega⟩
    rw [fcLoop_lt t is rec m line skipTo delta middle (by omega)]
    rw [ih m (line + 1) (by omega) (by omega)]
    congr 1
    omega

end steps

end Duck
