/-
  `calc <n> + 1` and `calc <a> - <b>` on decimal numerals, as the script bodies of array_contains
  and array_join call it: the text handed back is the decimal numeral of the sum / difference
  (lexer, grammar and checked `i64` evaluation of Sdk/Calc.lean followed through).
-/
import DuckModel.Sdk.ScriptRun

namespace Duck.ScriptRun
open Duck Duck.Coll Duck.Calc

theorem natStr_toDigits (n : Nat) : natStr n = Nat.toDigits 10 n := by
  simp [natStr, Nat.repr]

theorem digitChar_props (d : Nat) (h : d < 10) :
    isDigit (Nat.digitChar d) = true ∧ (Nat.digitChar d).toNat - 48 = d := by
  have : d = 0 ∨ d = 1 ∨ d = 2 ∨ d = 3 ∨ d = 4 ∨ d = 5 ∨ d = 6 ∨ d = 7 ∨ d = 8 ∨ d = 9 := by omega
  rcases this with rfl | rfl | rfl | rfl | rfl | rfl | rfl | rfl | rfl | rfl <;> decide

theorem digitsVal_append (l : List Char) (c : Char) : digitsVal (l ++ [c]) = digitsVal l * 10 + (c.toNat - 48) := by
  simp [digitsVal, List.foldl_append]

/-- a decimal numeral: digits only, not empty, and its value is the number -/
theorem toDigits_props (n : Nat) : (∀ c ∈ Nat.toDigits 10 n, isDigit c = true) ∧ digitsVal (Nat.toDigits 10 n) = n := by
  induction n using Nat.strongRecOn with
  | _ n ih =>
    by_cases h : n < 10
    · rw [Nat.toDigits_of_lt_base h]
      obtain ⟨h1, h2⟩ := digitChar_props n h
      refine ⟨by intro c hc; simp at hc; subst hc; exact h1, ?_⟩
      simp [digitsVal, h2]
    · rw [Nat.toDigits_of_base_le (by decide) (by omega)]
      have ih' := ih (n / 10) (by omega)
      obtain ⟨h1, h2⟩ := digitChar_props (n % 10) (Nat.mod_lt _ (by decide))
      refine ⟨?_, ?_⟩
      · intro c hc
        rcases List.mem_append.mp hc with hc | hc
        · exact ih'.1 c hc
        · simp at hc; subst hc; exact h1
      · rw [digitsVal_append, ih'.2, h2]; omega

theorem natStr_digits (n : Nat) : (∀ c ∈ natStr n, isDigit c = true) ∧ digitsVal (natStr n) = n ∧ natStr n ≠ [] := by
  rw [natStr_toDigits]
  refine ⟨(toDigits_props n).1, (toDigits_props n).2, ?_⟩
  intro e
  have := @Nat.length_toDigits_pos 10 n
  rw [e] at this
  simp at this

theorem isDigit_numCh {c : Char} (h : isDigit c = true) : isNumCh c = true := by simp [isNumCh, h]

theorem isDigit_ne {c : Char} (h : isDigit c = true) :
    c ≠ ' ' ∧ c ≠ '+' ∧ c ≠ '-' ∧ c ≠ '*' ∧ c ≠ '^' ∧ c ≠ '(' ∧ c ≠ ')' := by
  refine ⟨?_, ?_, ?_, ?_, ?_, ?_, ?_⟩ <;> (intro e; subst e; revert h; decide)

theorem takeWhile_append_stop {α : Type} (p : α → Bool) (l : List α) (x : α) (r : List α)
    (hl : ∀ a ∈ l, p a = true) (hx : p x = false) : (l ++ x :: r).takeWhile p = l ∧ (l ++ x :: r).dropWhile p = x :: r := by
  induction l with
  | nil => simp [List.takeWhile, List.dropWhile, hx]
  | cons a t ih =>
    have ha := hl a (by simp)
    have := ih (fun b hb => hl b (List.mem_cons_of_mem _ hb))
    simp [List.takeWhile, List.dropWhile, ha, this.1, this.2]

theorem takeWhile_all {α : Type} (p : α → Bool) (l : List α) (hl : ∀ a ∈ l, p a = true) :
    l.takeWhile p = l ∧ l.dropWhile p = [] := by
  induction l with
  | nil => simp
  | cons a t ih =>
    have ha := hl a (by simp)
    have := ih (fun b hb => hl b (List.mem_cons_of_mem _ hb))
    simp [List.takeWhile, List.dropWhile, ha, this.1, this.2]

theorem litOf_digits (ds : List Char) (hd : ∀ c ∈ ds, isDigit c = true) (hne : ds ≠ []) :
    litOf ds = some (.lit ds none) := by
  unfold litOf
  obtain ⟨h1, h2⟩ := takeWhile_all isDigit ds hd
  simp [h1, h2, hne]

/-- the lexer on `<digits> <op> <digits>` (as `arguments.join(" ")` writes the three arguments) -/
theorem lexF_num_rest (ds : List Char) (hd : ∀ c ∈ ds, isDigit c = true) (hne : ds ≠ []) (x : Char) (r : List Char)
    (hx : isNumCh x = false) (f : Nat) :
    lexF (f + 1) (ds ++ x :: r) = (lexF f (x :: r)).map (Tok.lit ds none :: ·) := by
  cases ds with
  | nil => exact absurd rfl hne
  | cons c t =>
    have hc := hd c (by simp)
    obtain ⟨n1, n2, n3, n4, n5, n6, n7⟩ := isDigit_ne hc
    obtain ⟨h1, h2⟩ := takeWhile_append_stop isNumCh (c :: t) x r (fun a ha => isDigit_numCh (hd a ha)) hx
    simp only [List.cons_append] at h1 h2 ⊢
    simp only [lexF, n1, n2, n3, n4, n5, n6, n7, if_false, isDigit_numCh hc, if_true, h1, h2,
      litOf_digits (c :: t) hd hne]
    cases lexF f (x :: r) <;> rfl

theorem lexF_num_end (ds : List Char) (hd : ∀ c ∈ ds, isDigit c = true) (hne : ds ≠ []) (f : Nat) :
    lexF (f + 2) ds = some [Tok.lit ds none] := by
  cases ds with
  | nil => exact absurd rfl hne
  | cons c t =>
    have hc := hd c (by simp)
    obtain ⟨n1, n2, n3, n4, n5, n6, n7⟩ := isDigit_ne hc
    obtain ⟨h1, h2⟩ := takeWhile_all isNumCh (c :: t) (fun a ha => isDigit_numCh (hd a ha))
    simp only [lexF, n1, n2, n3, n4, n5, n6, n7, if_false, isDigit_numCh hc, if_true, h1, h2,
      litOf_digits (c :: t) hd hne]

/-- `lex "<a> <op> <b>"` for `op` = `+` / `-` -/
theorem lex_binop (a b : List Char) (ha : ∀ c ∈ a, isDigit c = true) (hane : a ≠ [])
    (hb : ∀ c ∈ b, isDigit c = true) (hbne : b ≠ []) (op : Char) (t : Tok)
    (hop : ∀ f r, lexF (f + 1) (op :: r) = (lexF f r).map (t :: ·)) :
    lex (joinArgs [a, [op], b]) = some [Tok.lit a none, t, Tok.lit b none] := by
  have hj : joinArgs [a, [op], b] = a ++ ' ' :: op :: ' ' :: b := by simp [joinArgs]
  rw [hj]
  unfold lex
  have hap : 0 < a.length := List.length_pos_iff.mpr hane
  have hbp : 0 < b.length := List.length_pos_iff.mpr hbne
  have hlen : (a ++ ' ' :: op :: ' ' :: b).length + 1 = ((a.length + b.length - 2) + 2) + 1 + 1 + 1 + 1 := by
    simp only [List.length_append, List.length_cons]; omega
  rw [hlen, lexF_num_rest a ha hane ' ' _ (by decide)]
  have hsp : ∀ f r, lexF (f + 1) (' ' :: r) = lexF f r := by intro f r; simp [lexF]
  rw [hsp, hop, hsp, lexF_num_end b hb hbne]
  rfl

theorem lexF_plus (f : Nat) (r : List Char) : lexF (f + 1) ('+' :: r) = (lexF f r).map (Tok.plus :: ·) := by
  simp [lexF]

theorem lexF_minus (f : Nat) (r : List Char) : lexF (f + 1) ('-' :: r) = (lexF f r).map (Tok.minus :: ·) := by
  simp [lexF]

theorem parse_add (a b : List Char) :
    parse [Tok.lit a none, Tok.plus, Tok.lit b none] = some (.add (.int (digitsVal a)) (.int (digitsVal b))) := by
  rfl

theorem parse_sub (a b : List Char) :
    parse [Tok.lit a none, Tok.minus, Tok.lit b none] = some (.sub (.int (digitsVal a)) (.int (digitsVal b))) := by
  rfl

theorem intText_nat (n : Nat) : intText (n : Int) = natStr n := by
  unfold intText natStr
  exact congrArg String.toList (rfl : toString (Int.ofNat n) = Nat.repr n)

theorem evalT_add_nat (a b : Nat) (h : a + b < two53) :
    evalT (.add (.int a) (.int b)) = some (.int ((a + b : Nat) : Int)) := by
  unfold two53 at h
  have hi : inI64 ((a : Int) + (b : Int)) = true := by
    unfold inI64 i64Min i64Max
    rw [Bool.and_eq_true, decide_eq_true_eq, decide_eq_true_eq]
    omega
  have ha : (a : Int) ≤ i64Max := by simp only [i64Max]; omega
  have hb : (b : Int) ≤ i64Max := by simp only [i64Max]; omega
  simp only [evalT, ha, hb, if_true, binop, hi]
  rfl

theorem evalT_sub_nat (a b : Nat) (ha : a < two53) (hb : b < two53) :
    evalT (.sub (.int a) (.int b)) = some (.int ((a : Int) - (b : Int))) := by
  unfold two53 at ha hb
  have hi : inI64 ((a : Int) - (b : Int)) = true := by
    unfold inI64 i64Min i64Max
    rw [Bool.and_eq_true, decide_eq_true_eq, decide_eq_true_eq]
    omega
  have ha' : (a : Int) ≤ i64Max := by simp only [i64Max]; omega
  have hb' : (b : Int) ≤ i64Max := by simp only [i64Max]; omega
  simp only [evalT, ha', hb', if_true, binop, hi]

/-- `calc <n> + 1` for a numeral below 2^53 - 1: the numeral of `n + 1` -/
theorem runCalc_succ (n : Nat) (h : n + 1 < two53) :
    runCalc [natStr n, "+".toList, "1".toList] = .continue (some (natStr (n + 1))) := by
  obtain ⟨hd, hv, hne⟩ := natStr_digits n
  have hlex : lex (joinArgs [natStr n, "+".toList, "1".toList]) =
      some [Tok.lit (natStr n) none, Tok.plus, Tok.lit ['1'] none] :=
    lex_binop (natStr n) ['1'] hd hne (by decide) (by decide) '+' Tok.plus lexF_plus
  have hargs : ([natStr n, "+".toList, "1".toList] : List Str) ≠ [] := by simp
  have h1 : digitsVal ['1'] = 1 := by decide
  unfold runCalc calcOut
  rw [if_neg hargs]
  simp only [hlex, parse_add]
  rw [hv, h1, evalT_add_nat n 1 h]
  have hab : (((n + 1 : Nat) : Int)).natAbs < two53 := by
    rw [Int.natAbs_natCast]; exact h
  simp only [hab, if_true, intText_nat]

/-- `calc <a> - <b>` for numerals below 2^53 with `b ≤ a`: the numeral of `a - b` -/
theorem runCalc_sub (a b : Nat) (ha : a < two53) (hba : b ≤ a) :
    runCalc [natStr a, "-".toList, natStr b] = .continue (some (natStr (a - b))) := by
  obtain ⟨hda, hva, hnea⟩ := natStr_digits a
  obtain ⟨hdb, hvb, hneb⟩ := natStr_digits b
  have hlex : lex (joinArgs [natStr a, "-".toList, natStr b]) =
      some [Tok.lit (natStr a) none, Tok.minus, Tok.lit (natStr b) none] :=
    lex_binop (natStr a) (natStr b) hda hnea hdb hneb '-' Tok.minus lexF_minus
  have hargs : ([natStr a, "-".toList, natStr b] : List Str) ≠ [] := by simp
  unfold runCalc calcOut
  rw [if_neg hargs]
  simp only [hlex, parse_sub]
  rw [hva, hvb, evalT_sub_nat a b ha (by omega)]
  have he : (a : Int) - (b : Int) = ((a - b : Nat) : Int) := by omega
  have hab : ((a : Int) - (b : Int)).natAbs < two53 := by
    rw [he, Int.natAbs_natCast]; omega
  simp only [hab, if_true]
  rw [he, intText_nat]

theorem fs_calc : findScript "calc".toList = none := by decide +kernel
theorem rn_calc : resolveNative "calc".toList = some .calc := by decide +kernel

end Duck.ScriptRun
