/-
  Lemmas about the C16 model: find / rfind, split / replace, slices, integer literals.
-/
import DuckModel.Sdk.Strings
import DuckModel.Lemmas.Utf8Lemmas
import DuckModel.Lemmas.Utf8DecodeLemmas

namespace Duck.Strings
open Duck

/-! ### find -/

theorem find_some {p : Bytes} : ∀ {h : Bytes} {k : Nat}, find p h = some k →
    p <+: h.drop k ∧ k ≤ h.length ∧ ∀ j, j < k → ¬ p <+: h.drop j := by
  intro h
  induction h with
  | nil =>
    intro k hk
    simp only [find] at hk
    split at hk
    · cases hk
      rename_i hp
      subst hp
      exact ⟨by simp, by simp, by intro j hj; omega⟩
    · cases hk
  | cons x t ih =>
    intro k hk
    simp only [find] at hk
    split at hk
    · cases hk
      rename_i hp
      exact ⟨by simpa using List.isPrefixOf_iff_prefix.mp hp, by simp, by intro j hj; omega⟩
    · rename_i hp
      cases hf : find p t with
      | none => simp [hf] at hk
      | some k' =>
        simp [hf] at hk
        subst hk
        obtain ⟨h1, h2, h3⟩ := ih hf
        refine ⟨by simpa using h1, by simp; omega, ?_⟩
        intro j hj
        cases j with
        | zero =>
          intro hpre
          exact hp (List.isPrefixOf_iff_prefix.mpr (by simpa using hpre))
        | succ j' =>
          simpa using h3 j' (by omega)

theorem find_none {p : Bytes} : ∀ {h : Bytes}, find p h = none → ∀ j, ¬ p <+: h.drop j := by
  intro h
  induction h with
  | nil =>
    intro hk j hpre
    simp only [find] at hk
    split at hk
    · cases hk
    · rename_i hp
      simp at hpre
      exact hp hpre
  | cons x t ih =>
    intro hk j
    simp only [find] at hk
    split at hk
    · cases hk
    · rename_i hp
      cases hf : find p t with
      | some k' => simp [hf] at hk
      | none =>
        cases j with
        | zero =>
          intro hpre
          exact hp (List.isPrefixOf_iff_prefix.mpr (by simpa using hpre))
        | succ j' => simpa using ih hf j'

/-- the text splits at a match -/
theorem find_some_split {p h : Bytes} {k : Nat} (hk : find p h = some k) :
    h = h.take k ++ (p ++ h.drop (k + p.length)) := by
  obtain ⟨⟨r, hr⟩, _, _⟩ := find_some hk
  have : h.drop (k + p.length) = r := by
    rw [← List.drop_drop, ← hr]
    simp
  rw [this, hr]
  exact (List.take_append_drop k h).symm

theorem find_isSome_iff_infix (p h : Bytes) : (find p h).isSome = true ↔ p <:+: h := by
  constructor
  · intro hs
    cases hf : find p h with
    | none => simp [hf] at hs
    | some k =>
      obtain ⟨h1, _, _⟩ := find_some hf
      exact List.IsInfix.trans h1.isInfix (List.drop_suffix k h).isInfix
  · intro hi
    cases hf : find p h with
    | some k => rfl
    | none =>
      exfalso
      obtain ⟨s, t, hst⟩ := hi
      apply find_none hf s.length
      refine ⟨t, ?_⟩
      rw [← hst]
      simp

/-! ### rfind -/

theorem rfind_none {p : Bytes} : ∀ {h : Bytes}, rfind p h = none → ∀ j, ¬ p <+: h.drop j := by
  intro h
  induction h with
  | nil =>
    intro hk j hpre
    simp only [rfind] at hk
    split at hk
    · cases hk
    · rename_i hp
      simp at hpre
      exact hp hpre
  | cons x t ih =>
    intro hk j
    simp only [rfind] at hk
    cases hf : rfind p t with
    | some k' => simp [hf] at hk
    | none =>
      simp only [hf] at hk
      split at hk
      · cases hk
      · rename_i hp
        cases j with
        | zero =>
          intro hpre
          exact hp (List.isPrefixOf_iff_prefix.mpr (by simpa using hpre))
        | succ j' => simpa using ih hf j'

theorem rfind_some {p : Bytes} : ∀ {h : Bytes} {k : Nat}, rfind p h = some k →
    p <+: h.drop k ∧ k ≤ h.length ∧ ∀ j, k < j → j ≤ h.length → ¬ p <+: h.drop j := by
  intro h
  induction h with
  | nil =>
    intro k hk
    simp only [rfind] at hk
    split at hk
    · cases hk
      rename_i hp
      subst hp
      refine ⟨by simp, by simp, ?_⟩
      intro j hj hl
      simp at hl
      omega
    · cases hk
  | cons x t ih =>
    intro k hk
    simp only [rfind] at hk
    cases hf : rfind p t with
    | some k' =>
      simp only [hf] at hk
      cases hk
      obtain ⟨h1, h2, h3⟩ := ih hf
      refine ⟨by simpa using h1, by simp; omega, ?_⟩
      intro j hj hl
      cases j with
      | zero => omega
      | succ j' => simpa using h3 j' (by omega) (by simpa using hl)
    | none =>
      simp only [hf] at hk
      split at hk
      · cases hk
        rename_i hp
        refine ⟨by simpa using List.isPrefixOf_iff_prefix.mp hp, by simp, ?_⟩
        intro j hj _
        cases j with
        | zero => omega
        | succ j' => simpa using rfind_none hf j'
      · cases hk

/-! ### split / replace -/

theorem splitF_succ (p : Bytes) (f : Nat) (l : Bytes) :
    splitF p (f + 1) l =
      match find p l with
      | none => [l]
      | some k => l.take k :: splitF p f (l.drop (k + p.length)) := rfl

theorem splitF_ne_nil (p : Bytes) : ∀ (f : Nat) (l : Bytes), splitF p f l ≠ [] := by
  intro f l
  cases f with
  | zero => simp [splitF]
  | succ f =>
    simp only [splitF]
    split <;> simp

theorem intercalate_cons_cons {α} (sep a b : List α) (r : List (List α)) :
    sep.intercalate (a :: b :: r) = a ++ (sep ++ sep.intercalate (b :: r)) := by
  simp [List.intercalate, List.intersperse]

theorem intercalate_cons_of_ne_nil {α} (sep a : List α) {r : List (List α)} (h : r ≠ []) :
    sep.intercalate (a :: r) = a ++ (sep ++ sep.intercalate r) := by
  cases r with
  | nil => exact absurd rfl h
  | cons b r => exact intercalate_cons_cons sep a b r

theorem intercalate_singleton {α} (sep a : List α) : sep.intercalate [a] = a := by
  simp [List.intercalate, List.intersperse]

/-- whatever the fuel, the pieces joined by the separator give back the text -/
theorem splitF_join (p : Bytes) : ∀ (f : Nat) (l : Bytes), p.intercalate (splitF p f l) = l := by
  intro f
  induction f with
  | zero => intro l; simp [splitF]
  | succ f ih =>
    intro l
    simp only [splitF]
    cases hf : find p l with
    | none => simp
    | some k =>
      simp only
      rw [intercalate_cons_of_ne_nil _ _ (splitF_ne_nil p f _), ih]
      exact (find_some_split hf).symm

/-- replacing is splitting and joining with the replacement -/
theorem replaceF_eq (p to : Bytes) : ∀ (f : Nat) (l : Bytes),
    replaceF p to f l = to.intercalate (splitF p f l) := by
  intro f
  induction f with
  | zero => intro l; simp [splitF, replaceF]
  | succ f ih =>
    intro l
    simp only [splitF, replaceF]
    cases hf : find p l with
    | none => simp
    | some k =>
      simp only
      rw [intercalate_cons_of_ne_nil _ _ (splitF_ne_nil p f _), ih]

/-- with a non-empty pattern, fuel above the length of the text is never used up -/
theorem splitF_fuel (p : Bytes) (hp : p ≠ []) : ∀ (f g : Nat) (l : Bytes),
    l.length < f → l.length < g → splitF p f l = splitF p g l := by
  intro f
  induction f with
  | zero => intro g l h; omega
  | succ f ih =>
    intro g l hf hg
    cases g with
    | zero => omega
    | succ g =>
      simp only [splitF]
      cases hk : find p l with
      | none => rfl
      | some k =>
        simp only
        have hpl : 0 < p.length := List.length_pos_iff.mpr hp
        have hle := (find_some hk).2.1
        by_cases hz : l.length = 0
        · -- the empty text cannot contain a non-empty pattern
          exfalso
          have hl : l = [] := List.length_eq_zero_iff.mp hz
          subst hl
          obtain ⟨h1, _, _⟩ := find_some hk
          simp at h1
          exact hp h1
        · congr 1
          apply ih <;> simp only [List.length_drop] <;> omega

/-! ### slices -/

theorem slice_eq (b : Bytes) (s e : Nat) :
    slice b s e =
      if s ≤ e ∧ isBoundary b s = true ∧ isBoundary b e = true then .str ((b.drop s).take (e - s))
      else .err := rfl

theorem finish_ne_panic (b : Bytes) (x y : Int) : finish b x y ≠ .panic := by
  unfold finish slice
  repeat' split
  all_goals simp

theorem finish_nonneg (b : Bytes) {x y : Int} (hx : 0 ≤ x) (hy : 0 ≤ y) :
    finish b x y = slice b x.toNat y.toNat := by
  simp [finish, toUsize, hx, hy]

theorem finish_str {b : Bytes} {x y : Int} {r : Bytes} (h : finish b x y = .str r) :
    ∃ s e, slice b s e = .str r := by
  unfold finish at h
  split at h
  · cases h
  · split at h
    · cases h
    · exact ⟨_, _, h⟩

/-- a successful slice of an encoded text is the encoding of a run of its scalars -/
theorem slice_valid {s : Str} {a e : Nat} {r : Bytes} (h : slice (enc s) a e = .str r) :
    ∃ p m q, s = p ++ m ++ q ∧ r = enc m ∧ (enc p).length = a ∧ (enc (p ++ m)).length = e := by
  rw [slice_eq] at h
  split at h
  · rename_i hc
    obtain ⟨hae, ha, he⟩ := hc
    cases h
    obtain ⟨p, q1, hs1, hpa⟩ := boundary_split s a ha
    obtain ⟨p2, q2, hs2, hpe⟩ := boundary_split s e he
    -- the two prefixes are comparable
    have hpp : p <+: p2 := by
      have h1 : p <+: s := ⟨q1, hs1.symm⟩
      have h2 : p2 <+: s := ⟨q2, hs2.symm⟩
      rcases List.prefix_or_prefix_of_prefix h1 h2 with h | h
      · exact h
      · obtain ⟨d, hd⟩ := h
        have hlen : (utf8Encode p).length = (utf8Encode p2).length + (utf8Encode d).length := by
          rw [← hd, utf8Encode_append, List.length_append]
        have hd0 : utf8Encode d = [] := List.length_eq_zero_iff.mp (by omega)
        have := utf8Encode_eq_nil hd0
        subst this
        simp at hd
        rw [hd]
        exact List.prefix_rfl
    obtain ⟨m, hm⟩ := hpp
    refine ⟨p, m, q2, by rw [hm]; exact hs2, ?_, hpa, by rw [hm]; exact hpe⟩
    have hlm : (utf8Encode m).length = e - a := by
      have : (utf8Encode p2).length = (utf8Encode p).length + (utf8Encode m).length := by
        rw [← hm, utf8Encode_append, List.length_append]
      omega
    have hs : enc s = utf8Encode p ++ (utf8Encode m ++ utf8Encode q2) := by
      show utf8Encode s = _
      rw [hs2, ← hm, utf8Encode_append, utf8Encode_append, List.append_assoc]
    have hlm' : e - (utf8Encode p).length = (utf8Encode m).length := by omega
    rw [hs, ← hpa, List.drop_left, hlm', List.take_left]
  · cases h

/-- a match of a non-empty encoded text starts on a character boundary -/
theorem match_boundary {t : Str} {b : Bytes} {k : Nat} (ht : t ≠ [])
    (h : enc t <+: b.drop k) : isBoundary b k = true := by
  obtain ⟨x, r, hx, hc⟩ := utf8Encode_head_not_cont ht
  obtain ⟨d, hd⟩ := h
  have : b[k]? = some x := by
    have h0 : (b.drop k)[0]? = some x := by
      rw [← hd]
      show (utf8Encode t ++ d)[0]? = some x
      rw [hx]; rfl
    simpa using h0
  simp [isBoundary, this, hc]

/-! ### integer literals -/

theorem parseI64_some {s : Str} {v : Int} (h : parseI64 s = some v) : parseInt s = some v := by
  unfold parseI64 at h
  split at h
  · split at h
    · cases h; assumption
    · cases h
  · cases h

theorem takeWhile_all {l : List Char} (h : l.all isDigit = true) :
    l.takeWhile isDigit = l ∧ l.dropWhile isDigit = [] := by
  induction l with
  | nil => simp
  | cons c r ih =>
    simp only [List.all_cons, Bool.and_eq_true] at h
    simp [h.1, ih h.2]

/-! ### helpers of the C16 property theorems -/

theorem intercalate_nil_sep {α} : ∀ (l : List (List α)), ([] : List α).intercalate l = l.flatten
  | [] => by simp [List.intercalate]
  | [a] => by simp
  | a :: b :: r => by rw [intercalate_cons_cons, intercalate_nil_sep (b :: r)]; simp

theorem intercalate_map_trailing {α β} (f : β → List α) (to : List α) : ∀ (s : List β),
    to.intercalate (s.map f ++ [[]]) = s.flatMap (fun c => f c ++ to)
  | [] => by simp
  | c :: r => by
    have hne : r.map f ++ [[]] ≠ [] := by simp
    rw [List.map_cons, List.cons_append, intercalate_cons_of_ne_nil _ _ hne,
      intercalate_map_trailing f to r]
    simp

/-- the encoder is injective (from the decoder round trip): equal bytes, equal texts -/
theorem utf8Encode_injective {s t : Str} (h : utf8Encode s = utf8Encode t) : s = t := by
  have h1 := utf8_roundtrip s
  rw [h, utf8_roundtrip t] at h1
  exact (Option.some.inj h1).symm

theorem takeWhile_all_ws (p : Char → Bool) : ∀ (l : List Char), ∀ c ∈ l.takeWhile p, p c = true
  | [] => by simp
  | a :: r => by
    intro c hc
    by_cases h : p a = true
    · simp only [List.takeWhile_cons_of_pos h, List.mem_cons] at hc
      rcases hc with hc | hc
      · rw [hc]; exact h
      · exact takeWhile_all_ws p r c hc
    · simp [List.takeWhile_cons_of_neg h] at hc

theorem dropWhile_head_not (p : Char → Bool) : ∀ (l : List Char) (c : Char) (r : List Char),
    l.dropWhile p = c :: r → p c = false
  | [], _, _ => by simp
  | a :: t, c, r => by
    intro h
    by_cases ha : p a = true
    · rw [List.dropWhile_cons_of_pos ha] at h
      exact dropWhile_head_not p t c r h
    · rw [List.dropWhile_cons_of_neg ha] at h
      cases h
      simpa using ha

end Duck.Strings
